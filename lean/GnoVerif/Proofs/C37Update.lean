/-
C37: `updateWithChangeSet` — sorting, scanning, merging, removing; preservation of the
structural invariant `WF`; the rejection clauses.
-/
import GnoVerif.Proofs.C37Fair
namespace GnoVerif.C37

/-! ### sorting the changes -/

def SortedLe (l : List Val) : Prop := l.Pairwise (fun a b => a.addr ≤ b.addr)

theorem insertByAddr_perm (x : Val) (l : List Val) : (insertByAddr x l).Perm (x :: l) := by
  induction l with
  | nil => exact List.Perm.refl _
  | cons y ys ih =>
    simp only [insertByAddr]
    split
    · exact List.Perm.refl _
    · exact (List.Perm.cons y ih).trans (List.Perm.swap x y ys)

theorem sortByAddr_perm (l : List Val) : (sortByAddr l).Perm l := by
  induction l with
  | nil => exact List.Perm.refl _
  | cons x xs ih => exact (insertByAddr_perm x _).trans (List.Perm.cons x ih)

theorem insertByAddr_sorted (x : Val) {l : List Val} (h : SortedLe l) : SortedLe (insertByAddr x l) := by
  induction l with
  | nil => simp [insertByAddr, SortedLe]
  | cons y ys ih =>
    simp only [SortedLe, List.pairwise_cons] at h
    simp only [insertByAddr]
    split
    · rename_i hxy
      simp only [SortedLe, List.pairwise_cons, List.mem_cons]
      refine ⟨?_, h⟩
      intro z hz
      rcases hz with rfl | hz
      · exact hxy
      · have := h.1 z hz; omega
    · rename_i hxy
      simp only [SortedLe, List.pairwise_cons]
      refine ⟨?_, ih h.2⟩
      intro z hz
      have := (insertByAddr_perm x ys).mem_iff.1 hz
      simp only [List.mem_cons] at this
      rcases this with rfl | hz'
      · omega
      · exact h.1 z hz'

theorem sortByAddr_sorted (l : List Val) : SortedLe (sortByAddr l) := by
  induction l with
  | nil => simp [sortByAddr, SortedLe]
  | cons x xs ih => exact insertByAddr_sorted x ih

/-! ### the scan of `processChanges` -/

theorem scan_ok {l : List Val} : ∀ {prev : Option Nat} {ups dels : List Val},
    scanChanges prev l = .ok (ups, dels) → SortedLe l →
    (∀ p, prev = some p → ∀ v ∈ l, p ≤ v.addr) →
    SortedAddr l ∧ (∀ p, prev = some p → ∀ v ∈ l, p < v.addr) ∧
    (∀ v ∈ l, 0 ≤ v.power ∧ v.power ≤ maxTotal) ∧
    ups = l.filter (fun v => decide (v.power ≠ 0)) ∧ dels = l.filter (fun v => decide (v.power = 0)) := by
  induction l with
  | nil =>
    intro prev ups dels h _ _
    simp only [scanChanges, Except.ok.injEq, Prod.mk.injEq] at h
    simp [SortedAddr, h.1.symm, h.2.symm]
  | cons u rest ih =>
    intro prev ups dels h hs hp
    simp only [scanChanges] at h
    by_cases h1 : prev = some u.addr
    · simp [h1] at h
    · rw [if_neg h1] at h
      by_cases h2 : u.power < 0
      · simp [h2] at h
      · rw [if_neg h2] at h
        by_cases h3 : u.power > maxTotal
        · simp [h3] at h
        · rw [if_neg h3] at h
          simp only [SortedLe, List.pairwise_cons] at hs
          cases hrec : scanChanges (some u.addr) rest with
          | error e => simp [hrec] at h
          | ok r =>
            obtain ⟨ups', dels'⟩ := r
            simp only [hrec] at h
            obtain ⟨s1, s2, s3, s4, s5⟩ := ih hrec hs.2 (by
              intro p hp' v hv
              simp only [Option.some.injEq] at hp'
              subst hp'
              exact hs.1 v hv)
            refine ⟨?_, ?_, ?_, ?_, ?_⟩
            · simp only [SortedAddr, List.pairwise_cons]
              exact ⟨fun v hv => s2 u.addr rfl v hv, s1⟩
            · intro p hp' v hv
              simp only [List.mem_cons] at hv
              have hpu : p ≤ u.addr := hp p hp' u (by simp)
              have hne : p ≠ u.addr := by
                intro hc; subst hc; exact h1 hp'
              rcases hv with rfl | hv
              · omega
              · have := s2 u.addr rfl v hv; omega
            · intro v hv
              simp only [List.mem_cons] at hv
              rcases hv with rfl | hv
              · omega
              · exact s3 v hv
            · by_cases h0 : u.power = 0
              · simp only [h0, if_true, Except.ok.injEq, Prod.mk.injEq] at h
                simp [h0, ← h.1, s4]
              · simp only [h0, if_false, Except.ok.injEq, Prod.mk.injEq] at h
                simp [h0, ← h.1, s4]
            · by_cases h0 : u.power = 0
              · simp only [h0, if_true, Except.ok.injEq, Prod.mk.injEq] at h
                simp [h0, ← h.2, s5]
              · simp only [h0, if_false, Except.ok.injEq, Prod.mk.injEq] at h
                simp [h0, ← h.2, s5]

/-- what an accepted `processChanges` guarantees -/
structure Processed (ch ups dels : List Val) : Prop where
  sorted : SortedAddr (sortByAddr ch)
  range : ∀ v ∈ ch, 0 ≤ v.power ∧ v.power ≤ maxTotal
  ups_eq : ups = (sortByAddr ch).filter (fun v => decide (v.power ≠ 0))
  dels_eq : dels = (sortByAddr ch).filter (fun v => decide (v.power = 0))

theorem processChanges_ok {ch ups dels : List Val} (h : processChanges ch = .ok (ups, dels)) :
    Processed ch ups dels := by
  obtain ⟨s1, _, s3, s4, s5⟩ := scan_ok h (sortByAddr_sorted ch) (by intro p hp; cases hp)
  exact ⟨s1, fun v hv => s3 v ((sortByAddr_perm ch).mem_iff.2 hv), s4, s5⟩

theorem Processed.ups_sorted {ch ups dels : List Val} (p : Processed ch ups dels) : SortedAddr ups := by
  rw [p.ups_eq]; exact List.Pairwise.filter _ p.sorted

theorem Processed.dels_sorted {ch ups dels : List Val} (p : Processed ch ups dels) : SortedAddr dels := by
  rw [p.dels_eq]; exact List.Pairwise.filter _ p.sorted

theorem Processed.ups_pos {ch ups dels : List Val} (p : Processed ch ups dels) :
    ∀ u ∈ ups, 1 ≤ u.power ∧ u.power ≤ maxTotal := by
  intro u hu
  rw [p.ups_eq, List.mem_filter] at hu
  have := p.range u ((sortByAddr_perm ch).mem_iff.1 hu.1)
  have h0 : u.power ≠ 0 := by simpa using hu.2
  omega

theorem Processed.nodup {ch ups dels : List Val} (p : Processed ch ups dels) :
    (ch.map (·.addr)).Nodup := by
  have h1 : ((sortByAddr ch).map (·.addr)).Nodup := by
    have : ((sortByAddr ch).map (·.addr)).Pairwise (· < ·) := by
      rw [List.pairwise_map]; exact p.sorted
    exact this.imp (fun h => Nat.ne_of_lt h)
  exact ((sortByAddr_perm ch).map (·.addr)).nodup_iff.1 h1

theorem Processed.mem_dels {ch ups dels : List Val} (p : Processed ch ups dels) {u : Val}
    (hu : u ∈ ch) (h0 : u.power = 0) : u ∈ dels := by
  rw [p.dels_eq, List.mem_filter]
  exact ⟨(sortByAddr_perm ch).mem_iff.2 hu, by simp [h0]⟩

/-! ### lookup -/

theorem lookup_none {a : Nat} {l : List Val} (h : ∀ v ∈ l, v.addr ≠ a) : lookup a l = none := by
  induction l with
  | nil => rfl
  | cons x xs ih =>
    simp only [lookup, h x (by simp), if_false]
    exact ih (fun v hv => h v (by simp [hv]))

theorem lookup_some {a : Nat} {l : List Val} {v : Val} (h : lookup a l = some v) : v ∈ l ∧ v.addr = a := by
  induction l with
  | nil => simp [lookup] at h
  | cons x xs ih =>
    simp only [lookup] at h
    by_cases hx : x.addr = a
    · simp only [hx, if_true, Option.some.injEq] at h
      subst h; exact ⟨by simp, hx⟩
    · simp only [hx, if_false] at h
      have := ih h
      exact ⟨by simp [this.1], this.2⟩

theorem lookup_isSome_of_mem {a : Nat} {l : List Val} (h : ∃ v ∈ l, v.addr = a) : (lookup a l).isSome := by
  induction l with
  | nil => simp at h
  | cons x xs ih =>
    simp only [lookup]
    by_cases hx : x.addr = a
    · simp [hx]
    · simp only [hx, if_false]
      obtain ⟨v, hv, hva⟩ := h
      simp only [List.mem_cons] at hv
      rcases hv with rfl | hv
      · exact absurd hva hx
      · exact ih ⟨v, hv, hva⟩

theorem lookup_cons_ne {a : Nat} {e : Val} {es : List Val} (h : e.addr ≠ a) :
    lookup a (e :: es) = lookup a es := by
  simp [lookup, h]

/-! ### the total computed by `verifyUpdates` -/

/-- change of the total power caused by the updates (removals are NOT considered) -/
def oldPower (es : List Val) (a : Nat) : Int :=
  match lookup a es with
  | none => 0
  | some v => v.power

def delta (es : List Val) : List Val → Int
  | [] => 0
  | u :: us => u.power - oldPower es u.addr + delta es us

/-- number of updates whose address is not in the set -/
def isNew (es : List Val) (a : Nat) : Nat :=
  match lookup a es with
  | none => 1
  | some _ => 0

def numNew (es : List Val) : List Val → Nat
  | [] => 0
  | u :: us => isNew es u.addr + numNew es us

theorem verifyUpdates_ok {vals : List Val} : ∀ {us : List Val} {tot : Int} {nn : Nat} {tot' : Int} {nn' : Nat},
    verifyUpdates vals us tot nn = .ok (tot', nn') → tot ≤ maxTotal →
    tot' = tot + delta vals us ∧ nn' = nn + numNew vals us ∧ tot' ≤ maxTotal := by
  intro us
  induction us with
  | nil =>
    intro tot nn tot' nn' h ht
    simp only [verifyUpdates, Except.ok.injEq, Prod.mk.injEq] at h
    simp [delta, numNew, ← h.1, ← h.2, ht]
  | cons u us ih =>
    intro tot nn tot' nn' h ht
    simp only [verifyUpdates] at h
    cases hl : lookup u.addr vals with
    | none =>
      simp only [hl] at h
      by_cases hc : tot + u.power > maxTotal
      · simp [hc] at h
      · rw [if_neg hc] at h
        obtain ⟨h1, h2, h3⟩ := ih h (by omega)
        simp only [delta, numNew, oldPower, isNew, hl]
        refine ⟨by omega, by omega, h3⟩
    | some v =>
      simp only [hl] at h
      by_cases hc : tot + (u.power - v.power) > maxTotal
      · simp [hc] at h
      · rw [if_neg hc] at h
        obtain ⟨h1, h2, h3⟩ := ih h (by omega)
        simp only [delta, numNew, oldPower, isNew, hl]
        refine ⟨by omega, by omega, h3⟩

theorem delta_cons_of_lt {e : Val} {es us : List Val} (h : ∀ u ∈ us, e.addr < u.addr) :
    delta (e :: es) us = delta es us := by
  induction us with
  | nil => rfl
  | cons u us ih =>
    have hu := h u (by simp)
    simp only [delta, oldPower, lookup_cons_ne (show e.addr ≠ u.addr by omega),
      ih (fun v hv => h v (by simp [hv]))]

theorem numNew_cons_of_lt {e : Val} {es us : List Val} (h : ∀ u ∈ us, e.addr < u.addr) :
    numNew (e :: es) us = numNew es us := by
  induction us with
  | nil => rfl
  | cons u us ih =>
    have hu := h u (by simp)
    simp only [numNew, isNew, lookup_cons_ne (show e.addr ≠ u.addr by omega),
      ih (fun v hv => h v (by simp [hv]))]

theorem delta_nil (us : List Val) : delta [] us = sumPower us := by
  induction us with
  | nil => rfl
  | cons u us ih => simp [delta, oldPower, lookup, sumPower, ih]

theorem numNew_nil (us : List Val) : numNew [] us = us.length := by
  induction us with
  | nil => rfl
  | cons u us ih => simp [numNew, isNew, lookup, ih]; omega

/-! ### `applyUpdates` (merge) -/

theorem mergeFuel_spec : ∀ (f : Nat) (es us : List Val), es.length + us.length ≤ f →
    SortedAddr es → SortedAddr us →
    (∀ x ∈ mergeFuel f es us, x ∈ es ∨ x ∈ us) ∧ SortedAddr (mergeFuel f es us) ∧
    sumPower (mergeFuel f es us) = sumPower es + delta es us ∧
    (mergeFuel f es us).length = es.length + numNew es us := by
  intro f
  induction f with
  | zero =>
    intro es us hl _ _
    have he : es = [] := List.length_eq_zero_iff.1 (by omega)
    have hu : us = [] := List.length_eq_zero_iff.1 (by omega)
    subst he hu
    simp [mergeFuel, SortedAddr, sumPower, delta, numNew]
  | succ f ih =>
    intro es us hl hes hus
    cases es with
    | nil =>
      simp only [mergeFuel, delta_nil, numNew_nil, sumPower, List.length_nil]
      exact ⟨fun x hx => Or.inr hx, hus, by omega, by omega⟩
    | cons e es =>
      cases us with
      | nil =>
        simp only [mergeFuel, delta, numNew]
        exact ⟨fun x hx => Or.inl hx, hes, by omega, by omega⟩
      | cons u us =>
        have hes' := hes
        have hus' := hus
        simp only [SortedAddr, List.pairwise_cons] at hes hus
        simp only [mergeFuel]
        by_cases h1 : e.addr < u.addr
        · rw [if_pos h1]
          obtain ⟨m1, m2, m3, m4⟩ := ih es (u :: us) (by simp only [List.length_cons] at hl ⊢; omega) hes.2 hus'
          have hall : ∀ w ∈ u :: us, e.addr < w.addr := by
            intro w hw
            simp only [List.mem_cons] at hw
            rcases hw with rfl | hw
            · exact h1
            · have := hus.1 w hw; omega
          refine ⟨?_, ?_, ?_, ?_⟩
          · intro x hx
            simp only [List.mem_cons] at hx
            rcases hx with rfl | hx
            · left; simp
            · rcases m1 x hx with h | h
              · left; simp [h]
              · right; exact h
          · simp only [SortedAddr, List.pairwise_cons]
            refine ⟨?_, m2⟩
            intro x hx
            rcases m1 x hx with h | h
            · exact hes.1 x h
            · exact hall x h
          · simp only [sumPower, m3, delta_cons_of_lt hall]; omega
          · simp only [List.length_cons, m4, numNew_cons_of_lt hall]; omega
        · rw [if_neg h1]
          by_cases h2 : e.addr = u.addr
          · rw [if_pos h2]
            obtain ⟨m1, m2, m3, m4⟩ := ih es us (by simp only [List.length_cons] at hl; omega) hes.2 hus.2
            have hall : ∀ w ∈ us, e.addr < w.addr := by
              intro w hw; have := hus.1 w hw; omega
            have hlk : lookup u.addr (e :: es) = some e := by simp [lookup, h2]
            refine ⟨?_, ?_, ?_, ?_⟩
            · intro x hx
              simp only [List.mem_cons] at hx
              rcases hx with rfl | hx
              · right; simp
              · rcases m1 x hx with h | h
                · left; simp [h]
                · right; simp [h]
            · simp only [SortedAddr, List.pairwise_cons]
              refine ⟨?_, m2⟩
              intro x hx
              rcases m1 x hx with h | h
              · have := hes.1 x h; omega
              · exact hus.1 x h
            · simp only [sumPower, m3, delta, oldPower, hlk, delta_cons_of_lt hall]; omega
            · simp only [List.length_cons, m4, numNew, isNew, hlk, numNew_cons_of_lt hall]; omega
          · rw [if_neg h2]
            obtain ⟨m1, m2, m3, m4⟩ := ih (e :: es) us (by simp only [List.length_cons] at hl ⊢; omega) hes' hus.2
            have hlk : lookup u.addr (e :: es) = none := by
              apply lookup_none
              intro v hv
              simp only [List.mem_cons] at hv
              rcases hv with rfl | hv
              · omega
              · have := hes.1 v hv; omega
            refine ⟨?_, ?_, ?_, ?_⟩
            · intro x hx
              simp only [List.mem_cons] at hx
              rcases hx with rfl | hx
              · right; simp
              · rcases m1 x hx with h | h
                · left; exact h
                · right; simp [h]
            · simp only [SortedAddr, List.pairwise_cons]
              refine ⟨?_, m2⟩
              intro x hx
              rcases m1 x hx with h | h
              · simp only [List.mem_cons] at h
                rcases h with rfl | h
                · omega
                · have := hes.1 x h; omega
              · exact hus.1 x h
            · simp only [sumPower, m3, delta, oldPower, hlk] at *; omega
            · simp only [List.length_cons, m4, numNew, isNew, hlk] at *; omega

theorem applyUpdates_spec {es us : List Val} (hes : SortedAddr es) (hus : SortedAddr us) :
    (∀ x ∈ applyUpdates es us, x ∈ es ∨ x ∈ us) ∧ SortedAddr (applyUpdates es us) ∧
    sumPower (applyUpdates es us) = sumPower es + delta es us ∧
    (applyUpdates es us).length = es.length + numNew es us :=
  mergeFuel_spec _ es us (Nat.le_refl _) hes hus

/-! ### `applyRemovals` -/

theorem applyRemovals_sublist : ∀ (l ds : List Val), (applyRemovals l ds).Sublist l := by
  intro l
  induction l with
  | nil => intro ds; simp [applyRemovals]
  | cons e es ih =>
    intro ds
    cases ds with
    | nil => simp [applyRemovals]
    | cons d ds' =>
      simp only [applyRemovals]
      split
      · exact (ih ds').trans (List.sublist_cons_self e es)
      · exact (ih (d :: ds')).cons_cons e

theorem applyRemovals_length : ∀ (l ds : List Val), SortedAddr l → SortedAddr ds →
    (∀ d ∈ ds, ∃ v ∈ l, v.addr = d.addr) → (applyRemovals l ds).length + ds.length = l.length := by
  intro l
  induction l with
  | nil =>
    intro ds _ _ h
    cases ds with
    | nil => rfl
    | cons d ds' => obtain ⟨v, hv, _⟩ := h d (by simp); simp at hv
  | cons e es ih =>
    intro ds hl hd h
    cases ds with
    | nil => simp [applyRemovals]
    | cons d ds' =>
      simp only [SortedAddr, List.pairwise_cons] at hl hd
      simp only [applyRemovals]
      by_cases hed : e.addr = d.addr
      · rw [if_pos hed]
        have := ih ds' hl.2 hd.2 (by
          intro d' hd'
          obtain ⟨v, hv, hva⟩ := h d' (by simp [hd'])
          simp only [List.mem_cons] at hv
          rcases hv with rfl | hv
          · have := hd.1 d' hd'; omega
          · exact ⟨v, hv, hva⟩)
        simp only [List.length_cons]; omega
      · rw [if_neg hed]
        have hdlt : e.addr < d.addr := by
          obtain ⟨v, hv, hva⟩ := h d (by simp)
          simp only [List.mem_cons] at hv
          rcases hv with rfl | hv
          · exact absurd hva hed
          · have := hl.1 v hv; omega
        have := ih (d :: ds') hl.2 (by simp only [SortedAddr, List.pairwise_cons]; exact hd) (by
          intro d' hd'
          obtain ⟨v, hv, hva⟩ := h d' hd'
          simp only [List.mem_cons] at hv hd'
          rcases hv with rfl | hv
          · rcases hd' with rfl | hd'
            · exact absurd hva hed
            · have := hd.1 d' hd'; omega
          · exact ⟨v, hv, hva⟩)
        simp only [List.length_cons] at this ⊢; omega

theorem sumPower_sublist_le {l₁ l₂ : List Val} (h : l₁.Sublist l₂) (hp : ∀ v ∈ l₂, 0 ≤ v.power) :
    sumPower l₁ ≤ sumPower l₂ := by
  induction h with
  | slnil => exact Int.le_refl _
  | cons a _ ih =>
    have := ih (fun v hv => hp v (by simp [hv]))
    have := hp a (by simp)
    simp only [sumPower]; omega
  | cons_cons a _ ih =>
    have := ih (fun v hv => hp v (by simp [hv]))
    simp only [sumPower]; omega

/-! ### `updateTotalVotingPower` -/

theorem sumPowerClip_eq {l : List Val} (hp : ∀ v ∈ l, 0 ≤ v.power) (hs : sumPower l ≤ maxTotal) :
    sumPowerClip l = sumPower l ∧ totalPanics l = false := by
  have key : ∀ (l : List Val) (a : Int) (b : Bool), 0 ≤ a → (∀ v ∈ l, 0 ≤ v.power) →
      a + sumPower l ≤ maxTotal →
      l.foldl (fun s v => clip (s + v.power)) a = a + sumPower l ∧
      (l.foldl (fun (acc : Int × Bool) v =>
        let s := clip (acc.1 + v.power)
        (s, acc.2 || decide (s > maxTotal))) (a, b)).2 = b := by
    intro l
    induction l with
    | nil => intro a b _ _ _; simp [sumPower]
    | cons x xs ih =>
      intro a b ha hp hs
      have hx := hp x (by simp)
      have hxs : ∀ v ∈ xs, 0 ≤ v.power := fun v hv => hp v (by simp [hv])
      have hnn : 0 ≤ sumPower xs := by
        have := sumPower_sublist_le (List.nil_sublist xs) hxs
        simpa [sumPower] using this
      simp only [sumPower] at hs
      have hc : clip (a + x.power) = a + x.power :=
        clip_id (by unfold minInt64; omega) (by unfold maxInt64; unfold maxTotal at hs; omega)
      simp only [List.foldl_cons, hc]
      obtain ⟨i1, i2⟩ := ih (a + x.power) (b || decide (a + x.power > maxTotal)) (by omega) hxs (by omega)
      refine ⟨by rw [i1]; simp only [sumPower]; omega, ?_⟩
      rw [i2]
      have : decide (a + x.power > maxTotal) = false := by
        simp only [decide_eq_false_iff_not]; omega
      simp [this]
  obtain ⟨k1, k2⟩ := key l 0 false (by omega) hp (by omega)
  exact ⟨by unfold sumPowerClip; rw [k1]; omega, by unfold totalPanics; exact k2⟩

/-! ### shapes through the priority operations -/

theorem shape_rescale (D : Int) (vs : List Val) : shape (rescale D vs) = shape vs := by
  unfold rescale
  split
  · rfl
  · split
    · exact shape_map_setPrio vs _
    · rfl

theorem shape_shiftByAvg (vs : List Val) : shape (shiftByAvg vs) = shape vs :=
  shape_map_setPrio vs _

theorem shape_computeNewPriorities (vals : List Val) (T : Int) (ups : List Val) :
    shape (computeNewPriorities vals T ups) = shape ups := by
  unfold computeNewPriorities shape
  rw [List.map_map]
  apply List.map_congr_left
  intro u _
  simp only [Function.comp]
  cases lookup u.addr vals <;> rfl

theorem mem_of_shape_eq {a b : List Val} (h : shape a = shape b) {v : Val} (hv : v ∈ a) :
    ∃ w ∈ b, w.addr = v.addr ∧ w.power = v.power := by
  have := mem_shape_of_mem hv
  rw [h] at this
  simp only [shape, List.mem_map, Prod.mk.injEq] at this
  obtain ⟨w, hw, h1, h2⟩ := this
  exact ⟨w, hw, h1, h2⟩

/-! ### decomposition of an accepted update -/

/-- the list after `applyUpdates` and `applyRemovals`, before rescaling and centring -/
def mergedOf (s : VSet) (ups dels : List Val) (newTotal : Int) : List Val :=
  applyRemovals (applyUpdates s.vals (computeNewPriorities s.vals newTotal ups)) dels

theorem finishUpdate_ok {s : VSet} {m : List Val} {s' : VSet} (h : finishUpdate s m = .ok s') :
    totalPanics m = false ∧ rescalePanics (windowFactor * sumPowerClip m) m = false ∧
    s' = ⟨shiftByAvg (rescale (windowFactor * sumPowerClip m) m), sumPowerClip m, s.proposer⟩ := by
  unfold finishUpdate at h
  simp only [ite_self] at h
  by_cases c1 : totalPanics m = true
  · simp [c1] at h
  · rw [if_neg c1] at h
    by_cases c2 : rescalePanics (windowFactor * sumPowerClip m) m = true
    · simp [c2] at h
    · rw [if_neg c2] at h
      simp only [Except.ok.injEq] at h
      exact ⟨by simpa using c1, by simpa using c2, h.symm⟩

theorem updateWith_ok_decomp {ad : Bool} {s : VSet} {ch : List Val} {s' : VSet}
    (h : updateWith ad s ch = .ok s') (hne : ch ≠ []) :
    ∃ ups dels newTotal nn, processChanges ch = .ok (ups, dels) ∧ (ad = false → dels = []) ∧
      verifyRemovals s.vals dels = true ∧
      verifyUpdates s.vals ups (totalVP s) 0 = .ok (newTotal, nn) ∧
      ¬ (nn = 0 ∧ s.vals.length = dels.length) ∧
      finishUpdate s (mergedOf s ups dels newTotal) = .ok s' := by
  unfold updateWith at h
  have hemp : ch.isEmpty = false := by
    cases ch with
    | nil => exact absurd rfl hne
    | cons _ _ => rfl
  rw [hemp] at h
  simp only [Bool.false_eq_true, if_false] at h
  cases hp : processChanges ch with
  | error e => simp [hp] at h
  | ok r =>
    obtain ⟨ups, dels⟩ := r
    simp only [hp] at h
    by_cases c1 : (!ad && !dels.isEmpty) = true
    · simp [c1] at h
    · rw [if_neg c1] at h
      by_cases c2 : (!verifyRemovals s.vals dels) = true
      · simp [c2] at h
      · rw [if_neg c2] at h
        by_cases c3 : (decide (s.total = 0) && totalPanics s.vals) = true
        · simp only [c3, if_true] at h; cases h
        · rw [if_neg c3] at h
          cases hv : verifyUpdates s.vals ups (totalVP s) 0 with
          | error e => simp [hv] at h
          | ok r2 =>
            obtain ⟨newTotal, nn⟩ := r2
            simp only [hv] at h
            by_cases c4 : (decide (nn = 0) && decide (s.vals.length = dels.length)) = true
            · simp only [c4, if_true] at h; cases h
            · rw [if_neg c4] at h
              refine ⟨ups, dels, newTotal, nn, rfl, ?_, ?_, hv, ?_, h⟩
              · intro had
                subst had
                simp only [Bool.not_false, Bool.true_and, Bool.not_eq_true'] at c1
                cases dels with
                | nil => rfl
                | cons _ _ => simp at c1
              · simpa using c2
              · simpa using c4

/-! ### accepted updates keep the structural invariant -/

theorem mergeFuel_covers : ∀ (f : Nat) (es us : List Val), es.length + us.length ≤ f →
    (∀ e ∈ es, ∃ x ∈ mergeFuel f es us, x.addr = e.addr) ∧ (∀ u ∈ us, u ∈ mergeFuel f es us) := by
  intro f
  induction f with
  | zero =>
    intro es us hl
    have he : es = [] := List.length_eq_zero_iff.1 (by omega)
    have hu : us = [] := List.length_eq_zero_iff.1 (by omega)
    subst he hu
    simp
  | succ f ih =>
    intro es us hl
    cases es with
    | nil => simp [mergeFuel]
    | cons e es =>
      cases us with
      | nil =>
        simp only [mergeFuel]
        exact ⟨fun x hx => ⟨x, hx, rfl⟩, by simp⟩
      | cons u us =>
        simp only [mergeFuel]
        by_cases h1 : e.addr < u.addr
        · rw [if_pos h1]
          obtain ⟨c1, c2⟩ := ih es (u :: us) (by simp only [List.length_cons] at hl ⊢; omega)
          refine ⟨?_, fun w hw => by simp [c2 w hw]⟩
          intro x hx
          simp only [List.mem_cons] at hx
          rcases hx with rfl | hx
          · exact ⟨x, by simp, rfl⟩
          · obtain ⟨y, hy, hya⟩ := c1 x hx
            exact ⟨y, by simp [hy], hya⟩
        · rw [if_neg h1]
          by_cases h2 : e.addr = u.addr
          · rw [if_pos h2]
            obtain ⟨c1, c2⟩ := ih es us (by simp only [List.length_cons] at hl; omega)
            refine ⟨?_, ?_⟩
            · intro x hx
              simp only [List.mem_cons] at hx
              rcases hx with rfl | hx
              · exact ⟨u, by simp, h2.symm⟩
              · obtain ⟨y, hy, hya⟩ := c1 x hx
                exact ⟨y, by simp [hy], hya⟩
            · intro w hw
              simp only [List.mem_cons] at hw
              rcases hw with rfl | hw
              · simp
              · simp [c2 w hw]
          · rw [if_neg h2]
            obtain ⟨c1, c2⟩ := ih (e :: es) us (by simp only [List.length_cons] at hl ⊢; omega)
            refine ⟨?_, ?_⟩
            · intro x hx
              obtain ⟨y, hy, hya⟩ := c1 x hx
              exact ⟨y, by simp [hy], hya⟩
            · intro w hw
              simp only [List.mem_cons] at hw
              rcases hw with rfl | hw
              · simp
              · simp [c2 w hw]

theorem delta_computeNewPriorities (es vals : List Val) (T : Int) (ups : List Val) :
    delta es (computeNewPriorities vals T ups) = delta es ups ∧
    numNew es (computeNewPriorities vals T ups) = numNew es ups := by
  induction ups with
  | nil => exact ⟨rfl, rfl⟩
  | cons u us ih =>
    have hcons : computeNewPriorities vals T (u :: us) =
        (match lookup u.addr vals with
          | none => setPrio u (-(T + T / 8))
          | some v => setPrio u v.prio) :: computeNewPriorities vals T us := rfl
    rw [hcons]
    have ha : (match lookup u.addr vals with
          | none => setPrio u (-(T + T / 8))
          | some v => setPrio u v.prio).addr = u.addr := by cases lookup u.addr vals <;> rfl
    have hp : (match lookup u.addr vals with
          | none => setPrio u (-(T + T / 8))
          | some v => setPrio u v.prio).power = u.power := by cases lookup u.addr vals <;> rfl
    simp only [delta, numNew, ha, hp, ih.1, ih.2]
    exact ⟨trivial, trivial⟩

theorem totalVP_of_wf {s : VSet} (hwf : WF s) : totalVP s = s.total := by
  unfold totalVP
  split
  · rename_i h0
    have := (sumPowerClip_eq (fun v hv => by have := hwf.pos v hv; omega)
      (by rw [← hwf.total_eq]; exact hwf.total_le)).1
    rw [this, ← hwf.total_eq, h0]
  · rfl

/-- what is known about the list after `applyUpdates`/`applyRemovals` once all checks passed -/
structure MergedFacts (s : VSet) (m : List Val) : Prop where
  sorted : SortedAddr m
  pos : ∀ v ∈ m, 1 ≤ v.power
  sum_le : sumPower m ≤ maxTotal
  ne : m ≠ []
  origin : ∀ v ∈ m, (∃ w ∈ s.vals, v.prio = w.prio) ∨
    (∃ nt : Int, 0 ≤ nt ∧ nt ≤ maxTotal ∧ v.prio = -(nt + nt / 8))

theorem computeNewPriorities_origin {vals : List Val} {T : Int} {ups : List Val} :
    ∀ u ∈ computeNewPriorities vals T ups, (∃ w ∈ vals, u.prio = w.prio) ∨ u.prio = -(T + T / 8) := by
  intro u hu
  unfold computeNewPriorities at hu
  simp only [List.mem_map] at hu
  obtain ⟨x, _, rfl⟩ := hu
  cases hl : lookup x.addr vals with
  | none => right; rfl
  | some v => left; exact ⟨v, (lookup_some hl).1, rfl⟩

theorem merged_facts {s : VSet} {ch ups dels : List Val} {newTotal : Int} {nn : Nat} (hwf : WF s)
    (hp : processChanges ch = .ok (ups, dels)) (hvr : verifyRemovals s.vals dels = true)
    (hvu : verifyUpdates s.vals ups s.total 0 = .ok (newTotal, nn))
    (hnn : ¬ (nn = 0 ∧ s.vals.length = dels.length)) :
    MergedFacts s (mergedOf s ups dels newTotal) := by
  have P := processChanges_ok hp
  obtain ⟨v1, v2, v3⟩ := verifyUpdates_ok hvu hwf.total_le
  -- the updates with their priorities
  have hshape := shape_computeNewPriorities s.vals newTotal ups
  have hups'_sorted : SortedAddr (computeNewPriorities s.vals newTotal ups) := by
    rw [sortedAddr_iff_shape, hshape, ← sortedAddr_iff_shape]; exact P.ups_sorted
  have hups'_pos : ∀ u ∈ computeNewPriorities s.vals newTotal ups, 1 ≤ u.power := by
    rw [pos_iff_shape, hshape, ← pos_iff_shape]; exact fun u hu => (P.ups_pos u hu).1
  obtain ⟨m1, m2, m3, m4⟩ := applyUpdates_spec hwf.sorted hups'_sorted
  obtain ⟨cv1, _⟩ := mergeFuel_covers _ s.vals (computeNewPriorities s.vals newTotal ups) (Nat.le_refl _)
  obtain ⟨d1, d2⟩ := delta_computeNewPriorities s.vals s.vals newTotal ups
  rw [d1] at m3
  rw [d2] at m4
  -- removals
  have hsub := applyRemovals_sublist (applyUpdates s.vals (computeNewPriorities s.vals newTotal ups)) dels
  have hm0pos : ∀ v ∈ applyUpdates s.vals (computeNewPriorities s.vals newTotal ups), 1 ≤ v.power := by
    intro v hv
    rcases m1 v hv with h | h
    · exact hwf.pos v h
    · exact hups'_pos v h
  have hdel_in : ∀ d ∈ dels, ∃ v ∈ s.vals, v.addr = d.addr := by
    intro d hd
    unfold verifyRemovals at hvr
    rw [List.all_eq_true] at hvr
    have := hvr d hd
    cases hl : lookup d.addr s.vals with
    | none => simp [hl] at this
    | some v => exact ⟨v, (lookup_some hl).1, (lookup_some hl).2⟩
  have hlen1 := applyRemovals_length _ dels m2 P.dels_sorted (by
    intro d hd
    obtain ⟨v, hv, hva⟩ := hdel_in d hd
    obtain ⟨x, hx, hxa⟩ := cv1 v hv
    exact ⟨x, hx, by omega⟩)
  have hlen2 := applyRemovals_length s.vals dels hwf.sorted P.dels_sorted hdel_in
  have hnt0 : 0 ≤ newTotal := by
    have := sumPower_sublist_le (List.nil_sublist _) (fun v hv => by have := hm0pos v hv; omega)
    rw [m3, ← hwf.total_eq, ← v1] at this
    simpa [sumPower] using this
  refine ⟨List.Pairwise.sublist hsub m2, fun v hv => hm0pos v (hsub.subset hv), ?_, ?_, ?_⟩
  · have := sumPower_sublist_le hsub (fun v hv => by have := hm0pos v hv; omega)
    rw [m3] at this
    rw [← hwf.total_eq, ← v1] at this
    exact Int.le_trans this v3
  · intro hc
    have : (mergedOf s ups dels newTotal).length = 0 := by rw [hc]; rfl
    unfold mergedOf at this
    rw [m4] at hlen1
    apply hnn
    omega
  · intro v hv
    rcases m1 v (hsub.subset hv) with h | h
    · left; exact ⟨v, h, rfl⟩
    · rcases computeNewPriorities_origin v h with h | h
      · left; exact h
      · right; exact ⟨newTotal, hnt0, v3, h⟩

theorem wf_of_finish {s : VSet} {m : List Val} {s' : VSet} (F : MergedFacts s m)
    (hfin : finishUpdate s m = .ok s') : WF s' ∧ s'.vals ≠ [] := by
  obtain ⟨_, _, hs'⟩ := finishUpdate_ok hfin
  obtain ⟨t1, _⟩ := sumPowerClip_eq (fun v hv => by have := F.pos v hv; omega) F.sum_le
  have hsh : shape s'.vals = shape m := by
    rw [hs']; simp only [shape_shiftByAvg, shape_rescale]
  refine ⟨⟨?_, ?_, ?_, ?_⟩, ?_⟩
  · rw [sortedAddr_iff_shape, hsh, ← sortedAddr_iff_shape]; exact F.sorted
  · rw [pos_iff_shape, hsh, ← pos_iff_shape]; exact F.pos
  · rw [sumPower_shape, hsh, ← sumPower_shape, hs']; exact t1
  · rw [hs']; simp only; rw [t1]; exact F.sum_le
  · intro hc
    have := shape_length hsh
    rw [hc] at this
    exact F.ne (List.length_eq_zero_iff.1 this.symm)

/-- An accepted, non-empty change set: the result is well-formed and non-empty. -/
theorem updateWith_ok_wf {ad : Bool} {s : VSet} {ch : List Val} {s' : VSet} (hwf : WF s)
    (h : updateWith ad s ch = .ok s') (hne : ch ≠ []) : WF s' ∧ s'.vals ≠ [] := by
  obtain ⟨ups, dels, newTotal, nn, hp, _, hvr, hvu, hnn, hfin⟩ := updateWith_ok_decomp h hne
  rw [totalVP_of_wf hwf] at hvu
  exact wf_of_finish (merged_facts hwf hp hvr hvu hnn) hfin

/-! ### rejected inputs -/

/-- what the statement calls a bad change set -/
def BadChanges (s : VSet) (ch : List Val) : Prop :=
  ¬ (ch.map (·.addr)).Nodup ∨ (∃ u ∈ ch, u.power < 0) ∨ (∃ u ∈ ch, u.power > maxTotal) ∨
  (∃ u ∈ ch, u.power = 0 ∧ ∀ v ∈ s.vals, v.addr ≠ u.addr)

theorem updateWith_rejects {ad : Bool} {s : VSet} {ch : List Val} (hbad : BadChanges s ch) :
    ∃ e, updateWith ad s ch = .error e := by
  cases h : updateWith ad s ch with
  | error e => exact ⟨e, rfl⟩
  | ok s' =>
    exfalso
    have hne : ch ≠ [] := by
      intro hc; subst hc
      rcases hbad with h1 | ⟨u, hu, _⟩ | ⟨u, hu, _⟩ | ⟨u, hu, _⟩
      · exact h1 (by simp)
      all_goals simp at hu
    obtain ⟨ups, dels, newTotal, nn, hp, _, hvr, _, _, _⟩ := updateWith_ok_decomp h hne
    have P := processChanges_ok hp
    rcases hbad with h1 | ⟨u, hu, h2⟩ | ⟨u, hu, h3⟩ | ⟨u, hu, h0, h4⟩
    · exact h1 P.nodup
    · have := P.range u hu; omega
    · have := P.range u hu; omega
    · have hd := P.mem_dels hu h0
      unfold verifyRemovals at hvr
      rw [List.all_eq_true] at hvr
      have := hvr u hd
      cases hl : lookup u.addr s.vals with
      | none => simp [hl] at this
      | some v => exact h4 v (lookup_some hl).1 (lookup_some hl).2

/-! ### `NewValidatorSet`: the all-zero start followed by one call -/

theorem sumPrio_const {vs : List Val} {c : Int} (h : ∀ v ∈ vs, v.prio = c) :
    sumPrio vs = vs.length * c := by
  induction vs with
  | nil => simp [sumPrio]
  | cons x xs ih =>
    simp only [sumPrio, h x (by simp), ih (fun v hv => h v (by simp [hv])), List.length_cons]
    push_cast; ring

/-- all priorities equal: rescaling does nothing and centring makes them all zero -/
theorem rescale_shift_const {vs : List Val} {c D : Int} (hne : vs ≠ []) (h : ∀ v ∈ vs, v.prio = c)
    (hc : -4611686018427387903 ≤ c ∧ c ≤ 4611686018427387903) :
    ∀ v ∈ shiftByAvg (rescale D vs), v.prio = 0 := by
  have hres : rescale D vs = vs := by
    unfold rescale
    by_cases hD : D ≤ 0
    · rw [if_pos hD]
    · rw [if_neg hD]
      obtain ⟨u, hu, w, hw, hd, _, _⟩ := prioDiff_spec (B := 4611686018427387903) hne (by omega)
        (fun v hv => by rw [h v hv]; exact hc)
      rw [hd, h u hu, h w hw, if_neg (by omega)]
  rw [hres]
  intro v hv
  unfold shiftByAvg at hv
  simp only [List.mem_map] at hv
  obtain ⟨x, hx, rfl⟩ := hv
  have hl : (0 : Int) < vs.length := by
    have := List.length_pos_iff.2 hne; omega
  have havg : avgPrio vs = c := by
    unfold avgPrio
    rw [sumPrio_const h]
    exact Int.mul_ediv_cancel_left c (by omega)
  simp only [setPrio_prio, havg, h x hx, Int.sub_self]
  exact clip_id (by unfold minInt64; omega) (by unfold maxInt64; omega)

theorem newSet_form {valz : List Val} {s0 : VSet} (h : newSet valz = .ok s0) (hne : valz ≠ []) :
    ∃ z, ZeroStart z ∧ opInc 1 z = .ok s0 := by
  unfold newSet at h
  cases hu : updateWith false VSet.empty valz with
  | error e => simp [hu] at h
  | ok z =>
    simp only [hu] at h
    have hemp : valz.isEmpty = false := by
      cases valz with
      | nil => exact absurd rfl hne
      | cons _ _ => rfl
    rw [hemp] at h
    simp only [Bool.false_eq_true, if_false] at h
    have hwf0 : WF VSet.empty := ⟨by simp [VSet.empty, SortedAddr], by simp [VSet.empty],
      by simp [VSet.empty, sumPower], by simp [VSet.empty, maxTotal]⟩
    obtain ⟨hwf, hzne⟩ := updateWith_ok_wf hwf0 hu hne
    refine ⟨z, ⟨hzne, hwf.sorted, hwf.pos, hwf.total_eq, hwf.total_le, ?_⟩, h⟩
    -- all priorities are zero
    obtain ⟨ups, dels, newTotal, nn, hp, hdel, _, hvu, _, hfin⟩ := updateWith_ok_decomp hu hne
    have hd := hdel rfl
    subst hd
    rw [totalVP_of_wf hwf0] at hvu
    obtain ⟨v1, _, v3⟩ := verifyUpdates_ok hvu (by simp [VSet.empty, maxTotal])
    have P := processChanges_ok hp
    have hnt0 : 0 ≤ newTotal := by
      rw [v1]
      show 0 ≤ (0 : Int) + delta [] ups
      rw [delta_nil]
      have := sumPower_sublist_le (List.nil_sublist ups) (fun v hv => by have := (P.ups_pos v hv).1; omega)
      simp only [sumPower] at this ⊢; omega
    have hmerged : mergedOf VSet.empty ups [] newTotal = computeNewPriorities [] newTotal ups := by
      unfold mergedOf applyUpdates
      simp only [VSet.empty, List.length_nil, Nat.zero_add]
      have : ∀ (l : List Val), applyRemovals l [] = l := by
        intro l; cases l <;> rfl
      rw [this]
      cases hc : computeNewPriorities [] newTotal ups with
      | nil => rfl
      | cons a as => rfl
    obtain ⟨_, _, hz⟩ := finishUpdate_ok hfin
    rw [hmerged] at hz
    have hconst : ∀ v ∈ computeNewPriorities [] newTotal ups, v.prio = -(newTotal + newTotal / 8) := by
      intro v hv
      unfold computeNewPriorities at hv
      simp only [List.mem_map, lookup] at hv
      obtain ⟨u, _, rfl⟩ := hv
      rfl
    have hne' : computeNewPriorities [] newTotal ups ≠ [] := by
      intro hc
      rw [hz, hc] at hzne
      exact hzne rfl
    have := rescale_shift_const (D := windowFactor * sumPowerClip (computeNewPriorities [] newTotal ups))
      hne' hconst (by unfold maxTotal at v3; omega)
    rw [hz]; exact this

end GnoVerif.C37
