import GnoVerif.Proofs.C05Add
/-! C05: `mullu` is the exact 64×64→128 product; (f) `fmul64` is the correctly rounded exact product. -/
set_option linter.unusedSimpArgs false
namespace GnoVerif.C05.L
open GnoVerif.Gen.C05

theorem toNat_and_mask32 (x : BitVec 64) : (x &&& 4294967295#64).toNat = x.toNat % 2^32 := by
  rw [BitVec.toNat_and]; exact Nat.and_two_pow_sub_one_eq_mod x.toNat 32

theorem toNat_shr32 (x : BitVec 64) : (x >>> 32).toNat = x.toNat / 2^32 := by
  rw [BitVec.toNat_ushiftRight, Nat.shiftRight_eq_div_pow]

theorem mul_lt_of_lt32 (a b : Nat) (ha : a < 2^32) (hb : b < 2^32) : a * b ≤ (2^32 - 1) * (2^32 - 1) :=
  Nat.mul_le_mul (by omega) (by omega)

/-- Hacker's Delight 64×64→128: no intermediate wraps, `hi:lo` is the exact product -/
theorem mullu_spec (u v : BitVec 64) :
    (mullu u v).1.toNat = (u.toNat * v.toNat) % 2^64 ∧ (mullu u v).2.toNat = (u.toNat * v.toNat) / 2^64 := by
  unfold mullu
  simp only []
  have hu := Nat.div_add_mod u.toNat (2^32)
  have hv := Nat.div_add_mod v.toNat (2^32)
  have hu0 : u.toNat % 2^32 < 2^32 := Nat.mod_lt _ (by decide)
  have hv0 : v.toNat % 2^32 < 2^32 := Nat.mod_lt _ (by decide)
  have hu1 : u.toNat / 2^32 < 2^32 := by have := u.isLt; omega
  have hv1 : v.toNat / 2^32 < 2^32 := by have := v.isLt; omega
  generalize hU0 : u.toNat % 2^32 = u0 at *
  generalize hU1 : u.toNat / 2^32 = u1 at *
  generalize hV0 : v.toNat % 2^32 = v0 at *
  generalize hV1 : v.toNat / 2^32 = v1 at *
  have hprod : u.toNat * v.toNat = u1 * v1 * 2^64 + (u1 * v0 + u0 * v1) * 2^32 + u0 * v0 := by
    rw [← hu, ← hv]; grind
  have ba := mul_lt_of_lt32 u1 v1 hu1 hv1
  have bb := mul_lt_of_lt32 u1 v0 hu1 hv0
  have bc := mul_lt_of_lt32 u0 v1 hu0 hv1
  have bd := mul_lt_of_lt32 u0 v0 hu0 hv0
  constructor
  · rw [BitVec.toNat_mul]
  · simp only [BitVec.toNat_add, BitVec.toNat_mul, toNat_and_mask32, toNat_shr32, hU0, hU1, hV0, hV1]
    rw [hprod]
    generalize u1 * v1 = a at *
    generalize u1 * v0 = b at *
    generalize u0 * v1 = c at *
    generalize u0 * v0 = d at *
    simp only [Nat.reducePow, Nat.reduceSub, Nat.reduceMul] at *
    omega


theorem fmul64_core (f g fs fm fe gs gm ge : BitVec 64)
    (hF : funpack64 f = (fs, fm, fe, false, false)) (hG : funpack64 g = (gs, gm, ge, false, false))
    (hfm : 2^52 ≤ fm.toNat) (hgm : 2^52 ≤ gm.toNat) :
    fmul64 f g =
      fpack64 (fs ^^^ gs) (((mullu fm gm).2 <<< 13) ||| ((mullu fm gm).1 >>> 51)) ((fe + ge) - 1#64)
        ((mullu fm gm).1 &&& ((1#64 <<< 51) - 1#64)) := by
  have c1 := ne_zero_of_ge fm hfm
  have c2 := ne_zero_of_ge gm hgm
  unfold fmul64
  rw [hF, hG]
  simp only [c1, c2, Bool.or_self, Bool.false_eq_true, if_false, Bool.and_self, Bool.false_and, Bool.and_false]
  rfl

/-- (f, multiplication) `fmul64` of finite non-zero operands is the correctly rounded exact product -/
theorem fmul64_rounded (f g : BitVec 64) (hf : isFinite64 f) (hfz : ¬ isZero64 f)
    (hg : isFinite64 g) (hgz : ¬ isZero64 g) :
    fmul64 f g = prodSpec64 (funpack64 f).1 (funpack64 f).2.1 (funpack64 f).2.2.1
      (funpack64 g).1 (funpack64 g).2.1 (funpack64 g).2.2.1 := by
  obtain ⟨fm, fe, hF, hfm1, hfm2, hfe1, hfe2⟩ := funpack64_fin f hf hfz
  obtain ⟨gm, ge, hG, hgm1, hgm2, hge1, hge2⟩ := funpack64_fin g hg hgz
  rw [fmul64_core f g _ fm fe _ gm ge hF hG hfm1 hgm1, hF, hG]
  simp only []
  unfold prodSpec64
  obtain ⟨hlo, hhi⟩ := mullu_spec fm gm
  generalize (mullu fm gm).1 = lo at *
  generalize (mullu fm gm).2 = hi at *
  -- the 106-bit product
  have hNlo : 2^52 * 2^52 ≤ fm.toNat * gm.toNat := Nat.mul_le_mul hfm1 hgm1
  have hNhi : fm.toNat * gm.toNat < 2^53 * 2^53 :=
    Nat.mul_lt_mul'' hfm2 hgm2
  generalize hN : fm.toNat * gm.toNat = N at *
  have hdm := Nat.div_add_mod N (2^64)
  have hM : (((hi <<< 13) ||| (lo >>> 51))).toNat = N / 2^51 := by
    rw [BitVec.toNat_or, BitVec.toNat_shiftLeft, BitVec.toNat_ushiftRight, Nat.shiftRight_eq_div_pow, hlo, hhi]
    have h13 : (N / 2^64) <<< 13 % 2^64 = (N / 2^64) <<< 13 := by
      rw [Nat.shiftLeft_eq]; exact Nat.mod_eq_of_lt (by omega)
    have hb : N % 2^64 / 2^51 < 2^13 := by omega
    rw [h13, ← Nat.shiftLeft_add_eq_or_of_lt hb, Nat.shiftLeft_eq]; omega
  have hT : ((lo &&& ((1#64 <<< 51) - 1#64))) = 0#64 ↔ N % 2^51 = 0 := by
    rw [eq_zero_iff_toNat, toNat_and_lowmask, hlo]; omega
  have hE : ((fe + ge) - 1#64).toInt = fe.toInt + ge.toInt - 1 := by
    have h1 : (fe + ge).toInt = fe.toInt + ge.toInt := by
      rw [BitVec.toInt_add]; simp only [Int.bmod_def]; omega
    rw [BitVec.toInt_sub, h1]; simp only [Int.bmod_def]
    have : (1#64).toInt = 1 := by decide
    rw [this]; omega
  have hs : (f &&& 9223372036854775808#64) ^^^ (g &&& 9223372036854775808#64) = 0#64 ∨
      (f &&& 9223372036854775808#64) ^^^ (g &&& 9223372036854775808#64) = 9223372036854775808#64 := by
    rcases sign64_cases' f with h1 | h1 <;> rcases sign64_cases' g with h2 | h2 <;> rw [h1, h2] <;> decide
  rw [fpack64_roundInt _ _ _ _ N 51 hs (by omega) (by omega) hM hT (by omega) (Or.inr (by omega)), hE]
  have : fe.toInt + ge.toInt - 1 - ((51 : Nat) : Int) = fe.toInt + ge.toInt - 52 := by omega
  rw [this]

end GnoVerif.C05.L
