import GnoVerif.Proofs.C42Read
/-!
C42 helper lemmas, part 6: the handshake — what a successful `MakeSecretConnection`
implies.
-/
namespace GnoVerif.C42

/-- `Read` never changes the keys, the send nonce or the remote key -/
theorem read_keys (A : AEAD) (sc : SC) (conn : Bytes) (size : Nat) :
    (read A sc conn size).sc.sendKey = sc.sendKey ∧ (read A sc conn size).sc.recvKey = sc.recvKey ∧
    (read A sc conn size).sc.sendNonce = sc.sendNonce := by
  unfold read
  by_cases hb : sc.recvBuffer = []
  · by_cases h0 : conn = []
    · simp [hb, h0]
    · by_cases h1 : conn.length < sealedFrameSize
      · simp [hb, h0, h1]
      · cases ho : A.doOpen sc.recvKey sc.recvNonce (conn.take sealedFrameSize) with
        | none => simp [hb, h0, h1, ho]
        | some f =>
          cases hi : incrNonce sc.recvNonce with
          | none => simp [hb, h0, h1, ho, hi]
          | some nn =>
            by_cases hl : leNat (f.take dataLenSize) > dataMaxSize
            · simp [hb, h0, h1, ho, hi, hl]
            · simp [hb, h0, h1, ho, hi, hl]
  · simp [hb]

/-- the reader is a SecretConnection with these keys and send nonce -/
def Rd.Keys (r : Rd) (sk rk sn : Bytes) : Prop :=
  ∃ sc, r.sc = some sc ∧ sc.sendKey = sk ∧ sc.recvKey = rk ∧ sc.sendNonce = sn

theorem Rd.read_keysOf (A : AEAD) (r : Rd) (size : Nat) (sk rk sn : Bytes) (h : r.Keys sk rk sn) :
    (r.read A size).1.Keys sk rk sn := by
  obtain ⟨sc, hsc, h1, h2, h3⟩ := h
  unfold Rd.read
  rw [hsc]
  obtain ⟨k1, k2, k3⟩ := read_keys A sc r.conn size
  exact ⟨_, rfl, k1.trans h1, k2.trans h2, k3.trans h3⟩

theorem readPrefix_keys (A : AEAD) (fuel : Nat) (r : Rd) (acc : Bytes) (sk rk sn : Bytes)
    (h : r.Keys sk rk sn) : (readPrefix A fuel r acc).1.Keys sk rk sn := by
  induction fuel generalizing r acc with
  | zero => exact h
  | succ fuel ih =>
    have hr := Rd.read_keysOf A r 1 sk rk sn h
    unfold readPrefix
    rcases hrd : r.read A 1 with ⟨r', d, e⟩
    rw [hrd] at hr
    cases e with
    | some e => exact hr
    | none =>
      simp only
      split
      · exact hr
      · exact ih _ _ hr

theorem readFull_keys (A : AEAD) (fuel : Nat) (r : Rd) (want : Nat) (acc : Bytes) (sk rk sn : Bytes)
    (h : r.Keys sk rk sn) : (readFull A fuel r want acc).1.Keys sk rk sn := by
  induction fuel generalizing r acc with
  | zero => exact h
  | succ fuel ih =>
    unfold readFull
    split
    · exact h
    · have hr := Rd.read_keysOf A r (want - acc.length) sk rk sn h
      rcases hrd : r.read A (want - acc.length) with ⟨r', d, e⟩
      rw [hrd] at hr
      simp only
      cases e with
      | none => exact ih _ _ hr
      | some e =>
        cases e <;> simp only <;> split <;> exact hr

theorem readSized_keys (A : AEAD) (r : Rd) (sk rk sn : Bytes) (h : r.Keys sk rk sn) :
    (readSized A r).1.Keys sk rk sn := by
  unfold readSized
  have h1 := readPrefix_keys A 10 r [] sk rk sn h
  rcases hp : readPrefix A 10 r [] with ⟨r1, pre, e⟩
  rw [hp] at h1
  simp only
  cases e with
  | some e => exact h1
  | none =>
    simp only
    split
    · exact h1
    · split
      · exact h1
      · have h2 := readFull_keys A (r1.conn.length + uvarint (pre ++ List.replicate (10 - pre.length) 0) 0 0 0 + 2)
          r1 (uvarint (pre ++ List.replicate (10 - pre.length) 0) 0 0 0) [] sk rk sn h1
        rcases hf : readFull A (r1.conn.length + uvarint (pre ++ List.replicate (10 - pre.length) 0) 0 0 0 + 2)
          r1 (uvarint (pre ++ List.replicate (10 - pre.length) 0) 0 0 0) [] with ⟨r2, body, e2⟩
        rw [hf] at h2
        simp only
        cases e2 <;> exact h2


theorem write_keys (A : AEAD) (sc : SC) (data : Bytes) :
    (write A sc data).sc.sendKey = sc.sendKey ∧ (write A sc data).sc.recvKey = sc.recvKey := by
  unfold write
  generalize chunksOf data = chunks
  generalize ([] : Bytes) = wire
  generalize (0 : Nat) = n
  induction chunks generalizing sc wire n with
  | nil => exact ⟨rfl, rfl⟩
  | cons ch rest ih =>
    unfold writeFrames
    cases hi : incrNonce sc.sendNonce with
    | none => exact ⟨rfl, rfl⟩
    | some nn =>
      simp only
      exact ih { sc with sendNonce := nn } _ _

theorem authenticate_ok_inv (P : Prims) (A : AEAD) (locPriv w1 conn rs ss ch : Bytes) (sc : SC)
    (h : (authenticate P A locPriv w1 conn rs ss ch).result = .ok sc) :
    (authenticate P A locPriv w1 conn rs ss ch).challenge = ch ∧
    (∃ sig, P.verify sc.remPubKey ch sig = true) ∧ sc.recvKey = rs ∧ sc.sendKey = ss := by
  unfold authenticate at h ⊢
  have hk := write_keys A ⟨ss, rs, nonceOf 0, nonceOf 0, [], []⟩ (encAuth (P.pubKey locPriv) (P.sign locPriv ch))
  obtain ⟨w, hw⟩ : ∃ w, w = write A ⟨ss, rs, nonceOf 0, nonceOf 0, [], []⟩
      (encAuth (P.pubKey locPriv) (P.sign locPriv ch)) := ⟨_, rfl⟩
  simp only [← hw] at h hk ⊢
  by_cases hwp : w.panicked = true
  · simp [hwp] at h
  · simp only [hwp, Bool.false_eq_true, if_false] at h ⊢
    have hkeys := readSized_keys A ⟨some w.sc, conn⟩ w.sc.sendKey w.sc.recvKey w.sc.sendNonce ⟨w.sc, rfl, rfl, rfl, rfl⟩
    rcases hrs : readSized A ⟨some w.sc, conn⟩ with ⟨r2, e | body⟩
    · simp [hrs] at h
    · rw [hrs] at hkeys
      simp only [hrs] at h ⊢
      cases hd : decAuthBody body with
      | none => simp [hd] at h
      | some kv =>
        obtain ⟨rk, rsig⟩ := kv
        simp only [hd] at h ⊢
        by_cases hv : P.verify rk ch rsig = true
        · simp only [hv, not_true_eq_false, if_false] at h ⊢
          obtain ⟨sc2, hsc2, k1, k2, _⟩ := hkeys
          simp only at hsc2
          have h' := Except.ok.inj h
          subst h'
          simp only [hsc2, Option.getD_some]
          exact ⟨trivial, ⟨rsig, hv⟩, k2.trans hk.2, k1.trans hk.1⟩
        · simp [hv] at h

/-- What a successful `MakeSecretConnection` implies: the peer's ephemeral key was decoded,
is not blacklisted, the DH computation succeeded, the challenge and the two keys come from the
KDF of that shared secret (split by `locIsLeast`), and the key stored as `remPubKey` came with a
signature that VERIFIES over this session's challenge. -/
theorem handshake_ok_inv (P : Prims) (A : AEAD) (locPriv locEphPriv incoming : Bytes) (sc : SC)
    (h : (makeSecretConnection P A locPriv locEphPriv incoming).result = .ok sc) :
    ∃ remEph dhs,
      hasSmallOrder remEph = false ∧
      P.dh locEphPriv remEph = some dhs ∧
      (makeSecretConnection P A locPriv locEphPriv incoming).challenge =
        (deriveSecrets (P.kdf dhs) (locIsLeast (P.ephPub locEphPriv) remEph)).2.2 ∧
      (∃ sig, P.verify sc.remPubKey (deriveSecrets (P.kdf dhs) (locIsLeast (P.ephPub locEphPriv) remEph)).2.2 sig = true) ∧
      sc.recvKey = (deriveSecrets (P.kdf dhs) (locIsLeast (P.ephPub locEphPriv) remEph)).1 ∧
      sc.sendKey = (deriveSecrets (P.kdf dhs) (locIsLeast (P.ephPub locEphPriv) remEph)).2.1 := by
  unfold makeSecretConnection at h ⊢
  rcases hrs : readSized A ⟨none, incoming⟩ with ⟨r1, e | body⟩
  · simp [hrs] at h
  · simp only [hrs] at h ⊢
    cases hde : decEphBody body with
    | none => simp [hde] at h
    | some remEph =>
      simp only [hde] at h ⊢
      by_cases hso : hasSmallOrder remEph = true
      · simp [hso] at h
      · simp only [hso, Bool.false_eq_true, if_false] at h ⊢
        cases hdh : P.dh locEphPriv remEph with
        | none => simp [hdh] at h
        | some dhs =>
          simp only [hdh] at h ⊢
          obtain ⟨h1, h2, h3, h4⟩ := authenticate_ok_inv P A locPriv _ _ _ _ _ sc h
          exact ⟨remEph, dhs, by simpa using hso, hdh, h1, h2, h3, h4⟩

theorem deriveSecrets_challenge (okm : Bytes) (least : Bool) :
    (deriveSecrets okm least).2.2 = (okm.drop 64).take 32 := by
  unfold deriveSecrets; cases least <;> rfl

end GnoVerif.C42
