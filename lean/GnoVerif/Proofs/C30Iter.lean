import GnoVerif.Proofs.C30Read
/-!
C30 helper lemmas, part 4: the `traversal` stack machine of iterator.go.

`yieldPre` is the recursive reading of a pre-order range traversal; the machine
(`nextStack` / `runFuel`) produces exactly `yieldStack`, and on a well-formed tree the
leaves it hands out are the entries of the sorted list whose key is in range,
ascending or descending.
-/
namespace GnoVerif.C30
open GnoVerif

/-- the leaves among the nodes handed out: what `Iterator.Next` / `IterateRange` keep -/
def leavesOf : List Node → List (Bytes × Bytes)
  | [] => []
  | .leaf k v _ :: rest => (k, v) :: leavesOf rest
  | .inner .. :: rest => leavesOf rest

theorem leavesOf_append (a b : List Node) : leavesOf (a ++ b) = leavesOf a ++ leavesOf b := by
  induction a with
  | nil => rfl
  | cons x xs ih => cases x <;> simp [leavesOf, ih]

namespace Trav

/-- is a key inside the iteration domain? -/
def inRange (t : Trav) (k : Bytes) : Bool := t.startOrAfter k && t.beforeEnd k

/-- pre-order range traversal of one delayed node, as a recursion -/
def yieldPre (t : Trav) : Node → List Node
  | .leaf k v n => if t.inRange k then [.leaf k v n] else []
  | .inner k h s n l r =>
    .inner k h s n l r ::
      (if t.ascending then
        (if t.afterStart k then yieldPre t l else []) ++ (if t.beforeEnd k then yieldPre t r else [])
       else
        (if t.beforeEnd k then yieldPre t r else []) ++ (if t.afterStart k then yieldPre t l else []))

/-- what a whole stack yields -/
def yieldStack (t : Trav) : List (Node × Bool) → List Node
  | [] => []
  | (n, false) :: rest => n :: yieldStack t rest
  | (n, true) :: rest => yieldPre t n ++ yieldStack t rest

theorem yieldStack_append (t : Trav) (a b : List (Node × Bool)) :
    yieldStack t (a ++ b) = yieldStack t a ++ yieldStack t b := by
  induction a with
  | nil => rfl
  | cons x xs ih =>
    obtain ⟨n, d⟩ := x
    cases d <;> simp [yieldStack, ih]

theorem yieldStack_pushed (t : Trav) (k : Bytes) (l r : Node) :
    yieldStack t (t.pushed k l r) =
      (if t.ascending then
        (if t.afterStart k then yieldPre t l else []) ++ (if t.beforeEnd k then yieldPre t r else [])
       else
        (if t.beforeEnd k then yieldPre t r else []) ++ (if t.afterStart k then yieldPre t l else [])) := by
  unfold pushed
  split <;> (rw [yieldStack_append]; split <;> split <;> simp [yieldStack])

/-- one call of `next` (pre-order): either the stack yields nothing, or it hands out the
head of what the stack yields and lowers the weight -/
theorem nextStack_spec (t : Trav) (hp : t.post = false) (stk : List (Node × Bool)) :
    match t.nextStack stk with
    | none => yieldStack t stk = []
    | some (n, stk') => yieldStack t stk = n :: yieldStack t stk' ∧ weight stk' < weight stk := by
  induction stk with
  | nil => simp [nextStack, yieldStack]
  | cons x rest ih =>
    obtain ⟨node, d⟩ := x
    cases d with
    | false =>
      rw [nextStack]
      simp [yieldStack, weight]
    | true =>
      cases node with
      | leaf k v n =>
        rw [nextStack]
        simp only [hp, Bool.false_eq_true, if_false]
        by_cases hin : (t.startOrAfter k && t.beforeEnd k) = true
        · rw [if_pos hin]
          simp only [yieldStack, yieldPre, inRange, hin, if_true, List.singleton_append, weight, Node.count, true_and]
          omega
        · rw [if_neg hin]
          have : yieldStack t ((Node.leaf k v n, true) :: rest) = yieldStack t rest := by
            simp [yieldStack, yieldPre, inRange, hin]
          rw [this]
          cases hn : t.nextStack rest with
          | none => rw [hn] at ih; exact ih
          | some p =>
            obtain ⟨m, stk'⟩ := p
            rw [hn] at ih
            simp only [weight, Node.count] at ih ⊢
            exact ⟨ih.1, by omega⟩
      | inner k h s n l r =>
        rw [nextStack]
        simp only [hp, Bool.false_eq_true, if_false]
        refine ⟨?_, ?_⟩
        · simp only [yieldStack, yieldPre, yieldStack_append, yieldStack_pushed, List.cons_append]
        · simp only [weight, weight_append, Node.count]
          have := weight_pushed_le t k l r
          omega

/-- with enough fuel the loop returns everything the stack yields -/
theorem runFuel_spec (t : Trav) (hp : t.post = false) :
    ∀ (fuel : Nat) (stk : List (Node × Bool)), weight stk ≤ fuel → t.runFuel fuel stk = yieldStack t stk := by
  intro fuel
  induction fuel with
  | zero =>
    intro stk h
    have hs := nextStack_spec t hp stk
    cases hn : t.nextStack stk with
    | none => rw [hn] at hs; simp [runFuel, hs]
    | some p =>
      obtain ⟨n, stk'⟩ := p
      rw [hn] at hs
      omega
  | succ f ih =>
    intro stk h
    have hs := nextStack_spec t hp stk
    simp only [runFuel]
    cases hn : t.nextStack stk with
    | none => rw [hn] at hs; simp [hs]
    | some p =>
      obtain ⟨n, stk'⟩ := p
      rw [hn] at hs
      simp only
      rw [ih stk' (by omega), hs.1]

theorem run_spec (t : Trav) (hp : t.post = false) : t.run = yieldStack t t.stack :=
  runFuel_spec t hp _ _ (Nat.le_refl _)

/-! ### the leaves of `yieldPre` are the in-range entries of the sorted list -/

/-- the domain as a predicate on keys: `start ≤ k`, and `k < end` (or `k ≤ end` when inclusive) -/
theorem inRange_iff (t : Trav) (k : Bytes) :
    t.inRange k = true ↔
      (∀ s, t.start = some s → s ≤ k) ∧
      (∀ e, t.end_ = some e → k < e ∨ (t.inclusive = true ∧ k = e)) := by
  simp only [inRange, startOrAfter, afterStart, beforeEnd, Bool.and_eq_true, Bool.or_eq_true]
  constructor
  · rintro ⟨h1, h2⟩
    constructor
    · intro s hs
      rw [hs] at h1
      simp only [decide_eq_true_eq] at h1
      rcases h1 with h | h
      · exact Lex.le_of_lt h
      · subst h; exact Lex.le_refl _
    · intro e he
      rw [he] at h2
      by_cases hi : t.inclusive = true
      · simp only [hi, if_true, Bool.or_eq_true, decide_eq_true_eq] at h2
        rcases h2 with h | h
        · exact Or.inl h
        · exact Or.inr ⟨hi, h⟩
      · simp only [hi, Bool.false_eq_true, if_false, decide_eq_true_eq] at h2
        exact Or.inl h2
  · rintro ⟨h1, h2⟩
    constructor
    · cases hs : t.start with
      | none => simp
      | some s =>
        have := h1 s hs
        simp only [decide_eq_true_eq]
        rcases Lex.le_iff_lt_or_eq.1 this with h | h
        · exact Or.inl h
        · exact Or.inr h
    · cases he : t.end_ with
      | none => simp
      | some e =>
        rcases h2 e he with h | ⟨hi, h⟩
        · by_cases hi : t.inclusive = true <;> simp [hi, h]
        · simp [hi, h]

theorem filter_nil_of {p : Bytes → Bool} {l : List (Bytes × Bytes)} (h : ∀ x ∈ OMap.keys l, p x = false) :
    l.filter (fun q => p q.1) = [] := by
  rw [List.filter_eq_nil_iff]
  intro q hq
  have := h q.1 (List.mem_map_of_mem hq)
  simp [this]

/-- the in-range filter, in iteration order -/
def rangeOf (t : Trav) (m : List (Bytes × Bytes)) : List (Bytes × Bytes) :=
  let f := m.filter (fun p => t.inRange p.1)
  if t.ascending then f else f.reverse

theorem rangeOf_append (t : Trav) (a b : List (Bytes × Bytes)) :
    rangeOf t (a ++ b) = if t.ascending then rangeOf t a ++ rangeOf t b else rangeOf t b ++ rangeOf t a := by
  simp only [rangeOf, List.filter_append]
  split <;> simp

theorem rangeOf_nil_of (t : Trav) {l : List (Bytes × Bytes)} (h : ∀ x ∈ OMap.keys l, t.inRange x = false) :
    rangeOf t l = [] := by
  simp only [rangeOf, filter_nil_of h]; split <;> rfl

theorem yieldPre_spec (t : Trav) {n : Node} (hw : n.WF) :
    leavesOf (yieldPre t n) = rangeOf t n.toList := by
  induction n with
  | leaf k v k0 =>
    simp only [yieldPre, Node.toList_leaf, rangeOf, List.filter_cons, List.filter_nil]
    by_cases h : t.inRange k = true
    · simp [h, leavesOf]
    · simp [h, leavesOf]
  | inner k ht s k0 l r ihl ihr =>
    obtain ⟨hi, hs⟩ := (Node.wf_toC50 _).1 hw
    simp only [toC50, C50.Node.toList_inner] at hs
    obtain ⟨hsl, hsr, hbl, hbr, hmem⟩ := C50.Node.bounds hi hs
    simp only [Node.toC50_inner, C50.Node.inv_inner] at hi
    obtain ⟨hil, hir, -⟩ := hi
    have hwl : l.WF := (Node.wf_toC50 l).2 ⟨hil, hsl⟩
    have hwr : r.WF := (Node.wf_toC50 r).2 ⟨hir, hsr⟩
    simp only [Node.toList_toC50] at hbl hbr
    -- a left subtree that is skipped holds no key in range
    have hskipL : t.afterStart k = false → rangeOf t l.toList = [] := by
      intro hf
      apply rangeOf_nil_of
      intro x hx
      have hxk : x < k := hbl x hx
      cases hs : t.start with
      | none => simp [afterStart, hs] at hf
      | some s =>
        simp only [afterStart, hs, decide_eq_false_iff_not] at hf
        have hks : k ≤ s := Lex.not_lt.1 hf
        have hxs : x < s := Lex.lt_of_lt_of_le hxk hks
        have : ¬ (t.inRange x = true) := by
          rw [inRange_iff]
          rintro ⟨h1, -⟩
          exact Lex.not_le.2 hxs (h1 s hs)
        simpa using this
    -- a right subtree that is skipped holds no key in range
    have hskipR : t.beforeEnd k = false → rangeOf t r.toList = [] := by
      intro hf
      apply rangeOf_nil_of
      intro y hy
      have hky : k ≤ y := hbr y hy
      have : ¬ (t.inRange y = true) := by
        rw [inRange_iff]
        rintro ⟨-, h2⟩
        cases he : t.end_ with
        | none => simp [beforeEnd, he] at hf
        | some e =>
          have hnk : ¬ k < e := by
            intro hke
            simp [beforeEnd, he, hke] at hf
          rcases h2 e he with h | ⟨hi, h⟩
          · exact hnk (Lex.lt_of_le_of_lt hky h)
          · subst h
            have hkeq : k = y := by
              rcases Lex.le_iff_lt_or_eq.1 hky with hh | hh
              · exact absurd hh hnk
              · exact hh
            subst hkeq
            simp [beforeEnd, he, hi] at hf
      simpa using this
    simp only [yieldPre, leavesOf, Node.toList_inner, rangeOf_append]
    by_cases hasc : t.ascending = true
    · simp only [hasc, if_true, leavesOf_append]
      congr 1
      · by_cases h1 : t.afterStart k = true
        · simp [h1, ihl hwl]
        · simp only [Bool.not_eq_true] at h1
          simp [h1, hskipL h1, leavesOf]
      · by_cases h2 : t.beforeEnd k = true
        · simp [h2, ihr hwr]
        · simp only [Bool.not_eq_true] at h2
          simp [h2, hskipR h2, leavesOf]
    · simp only [hasc, Bool.false_eq_true, if_false, leavesOf_append]
      congr 1
      · by_cases h2 : t.beforeEnd k = true
        · simp [h2, ihr hwr]
        · simp only [Bool.not_eq_true] at h2
          simp [h2, hskipR h2, leavesOf]
      · by_cases h1 : t.afterStart k = true
        · simp [h1, ihl hwl]
        · simp only [Bool.not_eq_true] at h1
          simp [h1, hskipL h1, leavesOf]

end Trav
end GnoVerif.C30
