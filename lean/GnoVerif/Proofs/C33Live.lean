import GnoVerif.Proofs.C33
import GnoVerif.Proofs.C33Witness
/-! C33, liveness after the FIRST kill of a chain: the log invariant of an uncrashed run
(which WAL markers exist, how far the privval signed) and what it implies for the restart. -/
namespace GnoVerif.C33

/-- the heights of the markers in a WAL -/
def marks : List Rec → List Nat
  | [] => []
  | .mark n :: w => n :: marks w
  | _ :: w => marks w

theorem marks_append (a b : List Rec) : marks (a ++ b) = marks a ++ marks b := by
  induction a with
  | nil => rfl
  | cons r a ih => cases r <;> simp [marks, ih]

theorem mem_marks {w : List Rec} {n : Nat} : n ∈ marks w ↔ Rec.mark n ∈ w := by
  induction w with
  | nil => simp [marks]
  | cons r w ih => cases r <;> simp [marks, ih]

theorem hasMark_iff (w : List Rec) (n : Nat) : hasMark w n = true ↔ n ∈ marks w := by
  rw [mem_marks]; simp [hasMark]

/-- what an uncrashed run keeps true of its WAL markers, its sign state and its saved responses -/
structure LogInv (d : Disk) : Prop where
  /-- markers are 0 or ≥ 2, and never beyond the stored height + 1 -/
  m1 : ∀ n, n ∈ marks d.wal → (n = 0 ∨ 2 ≤ n) ∧ n ≤ d.blocks.length + 1
  /-- every height from 2 up to the one in progress has its marker -/
  m2 : ∀ n, 2 ≤ n → n ≤ d.st + 1 → n ∈ marks d.wal
  /-- nothing was signed beyond the height in progress -/
  pv : d.pv.h ≤ d.st + 1
  /-- responses exist only up to the height in progress, and for it only after its marker -/
  rs : ∀ n, n ∈ d.resp → n ≤ d.st + 1 ∧ (n = d.st + 1 → (d.st + 2) ∈ marks d.wal)

/-- steps that keep everything `LogInv` talks about, given the world they are performed on -/
def Benign (d : Disk) : Ev → Prop
  | .pvP h _ | .pvV h _ _ | .pvC h _ _ => h ≤ d.st + 1
  | .wP _ _ | .wB _ _ | .wV _ _ _ | .wC _ _ _ => True
  | .bsH | .bsP | .bsC | .bsS | .bsF => True
  | .stG | .stT | .stP | .stV => True
  | .apC | .apK | .apS _ _ => True
  | .stS h _ _ => h = d.st
  | .stR n => n ≤ d.st
  | .wE n => n = 0 ∧ d.wal = []
  | .bsJ _ => False

theorem HRS.max_h_le {a b : HRS} {m : Nat} (ha : a.h ≤ m) (hb : b.h ≤ m) : (a.max b).h ≤ m := by
  unfold HRS.max; split <;> assumption

theorem benign_step {d : Disk} {e : Ev} (hi : LogInv d) (hb : Benign d e) :
    LogInv (apply d e) ∧ (apply d e).st = d.st := by
  cases e with
  | pvP h r => exact ⟨⟨hi.m1, hi.m2, HRS.max_h_le hi.pv hb, hi.rs⟩, rfl⟩
  | pvV h r n => exact ⟨⟨hi.m1, hi.m2, HRS.max_h_le hi.pv hb, hi.rs⟩, rfl⟩
  | pvC h r n => exact ⟨⟨hi.m1, hi.m2, HRS.max_h_le hi.pv hb, hi.rs⟩, rfl⟩
  | wP h r =>
    have hm : marks (d.wal ++ [.prop h r]) = marks d.wal := by simp [marks_append, marks]
    exact ⟨⟨by show ∀ n, n ∈ marks (d.wal ++ _) → _; rw [hm]; exact hi.m1,
      by show ∀ n, _ → _ → n ∈ marks (d.wal ++ _); rw [hm]; exact hi.m2, hi.pv,
      by show ∀ n, _ → _ ∧ (_ → _ ∈ marks (d.wal ++ _)); rw [hm]; exact hi.rs⟩, rfl⟩
  | wB h r =>
    have hm : marks (d.wal ++ [.part h r]) = marks d.wal := by simp [marks_append, marks]
    exact ⟨⟨by show ∀ n, n ∈ marks (d.wal ++ _) → _; rw [hm]; exact hi.m1,
      by show ∀ n, _ → _ → n ∈ marks (d.wal ++ _); rw [hm]; exact hi.m2, hi.pv,
      by show ∀ n, _ → _ ∧ (_ → _ ∈ marks (d.wal ++ _)); rw [hm]; exact hi.rs⟩, rfl⟩
  | wV h r n =>
    have hm : marks (d.wal ++ [.vote h r true n]) = marks d.wal := by simp [marks_append, marks]
    exact ⟨⟨by show ∀ n, n ∈ marks (d.wal ++ _) → _; rw [hm]; exact hi.m1,
      by show ∀ n, _ → _ → n ∈ marks (d.wal ++ _); rw [hm]; exact hi.m2, hi.pv,
      by show ∀ n, _ → _ ∧ (_ → _ ∈ marks (d.wal ++ _)); rw [hm]; exact hi.rs⟩, rfl⟩
  | wC h r n =>
    have hm : marks (d.wal ++ [.vote h r false n]) = marks d.wal := by simp [marks_append, marks]
    exact ⟨⟨by show ∀ n, n ∈ marks (d.wal ++ _) → _; rw [hm]; exact hi.m1,
      by show ∀ n, _ → _ → n ∈ marks (d.wal ++ _); rw [hm]; exact hi.m2, hi.pv,
      by show ∀ n, _ → _ ∧ (_ → _ ∈ marks (d.wal ++ _)); rw [hm]; exact hi.rs⟩, rfl⟩
  | wE n =>
    obtain ⟨rfl, hw⟩ := hb
    have hm : marks (d.wal ++ [.mark 0]) = [0] := by rw [hw]; rfl
    have hm0 : marks d.wal = [] := by rw [hw]; rfl
    refine ⟨⟨?_, ?_, hi.pv, ?_⟩, rfl⟩
    · show ∀ n, n ∈ marks (d.wal ++ _) → _
      rw [hm]; intro n hn; simp at hn; subst hn; exact ⟨Or.inl rfl, Nat.zero_le _⟩
    · show ∀ n, _ → _ → n ∈ marks (d.wal ++ _)
      intro n h2 hn; have := hi.m2 n h2 hn; rw [hm0] at this; simp at this
    · show ∀ n, _ → _ ∧ (_ → _ ∈ marks (d.wal ++ _))
      intro n hn; obtain ⟨a, b⟩ := hi.rs n hn
      exact ⟨a, fun h => by have := b h; rw [hm0] at this; simp at this⟩
  | bsH => exact ⟨⟨hi.m1, hi.m2, hi.pv, hi.rs⟩, rfl⟩
  | bsP => exact ⟨⟨hi.m1, hi.m2, hi.pv, hi.rs⟩, rfl⟩
  | bsC => exact ⟨⟨hi.m1, hi.m2, hi.pv, hi.rs⟩, rfl⟩
  | bsS => exact ⟨⟨hi.m1, hi.m2, hi.pv, hi.rs⟩, rfl⟩
  | bsF => exact ⟨⟨hi.m1, hi.m2, hi.pv, hi.rs⟩, rfl⟩
  | bsJ b => exact absurd hb id
  | stG => exact ⟨⟨hi.m1, hi.m2, hi.pv, hi.rs⟩, rfl⟩
  | stT => exact ⟨⟨hi.m1, hi.m2, hi.pv, hi.rs⟩, rfl⟩
  | stP => exact ⟨⟨hi.m1, hi.m2, hi.pv, hi.rs⟩, rfl⟩
  | stV => exact ⟨⟨hi.m1, hi.m2, hi.pv, hi.rs⟩, rfl⟩
  | apC => exact ⟨⟨hi.m1, hi.m2, hi.pv, hi.rs⟩, rfl⟩
  | apK => exact ⟨⟨hi.m1, hi.m2, hi.pv, hi.rs⟩, rfl⟩
  | apS h x => exact ⟨⟨hi.m1, hi.m2, hi.pv, hi.rs⟩, rfl⟩
  | stS h x v =>
    have hb' : h = d.st := hb
    subst hb'
    exact ⟨⟨hi.m1, hi.m2, hi.pv, hi.rs⟩, rfl⟩
  | stR n =>
    have hb' : n ≤ d.st := hb
    refine ⟨⟨hi.m1, hi.m2, hi.pv, ?_⟩, rfl⟩
    show ∀ m, m ∈ n :: d.resp → _
    intro m hm
    rcases List.mem_cons.mp hm with rfl | hm
    · exact ⟨by show m ≤ d.st + 1; omega, fun h => by have : m = d.st + 1 := h; omega⟩
    · exact hi.rs m hm

/-- `AllAlongD P d l`: `P` holds before every step of `l` and at its end (whole durable worlds) -/
def AllAlongD (P : Disk → Prop) (d : Disk) : List Ev → Prop
  | [] => P d
  | e :: l => P d ∧ AllAlongD P (apply d e) l

theorem AllAlongD.prefix {P : Disk → Prop} {d : Disk} {l p : List Ev}
    (h : AllAlongD P d l) (hp : p <+: l) : P (applyAll d p) := by
  induction l generalizing d p with
  | nil =>
    have : p = [] := List.prefix_nil.mp hp
    subst this; exact h
  | cons e l ih =>
    rcases List.prefix_cons_iff.mp hp with rfl | ⟨t, rfl, ht⟩
    · exact h.1
    · rw [applyAll_cons]; exact ih h.2 ht

theorem AllAlongD.append {P : Disk → Prop} {d : Disk} {a b : List Ev}
    (ha : AllAlongD P d a) (hb : AllAlongD P (applyAll d a) b) : AllAlongD P d (a ++ b) := by
  induction a generalizing d with
  | nil => exact hb
  | cons e a ih => exact ⟨ha.1, ih ha.2 (by rwa [applyAll_cons] at hb)⟩

/-- a list of steps each of which is benign on a world with the state height of `d`, whatever the
rest of that world (used for everything but the four steps that move the height along) -/
def BenignAt (st : Nat) (e : Ev) : Prop :=
  match e with
  | .pvP h _ | .pvV h _ _ | .pvC h _ _ => h ≤ st + 1
  | .wP _ _ | .wB _ _ | .wV _ _ _ | .wC _ _ _ => True
  | .bsH | .bsP | .bsC | .bsS | .bsF => True
  | .stG | .stT | .stP | .stV => True
  | .apC | .apK | .apS _ _ => True
  | .stS h _ _ => h = st
  | .stR n => n ≤ st
  | .wE _ => False
  | .bsJ _ => False

theorem benign_of_at {d : Disk} {e : Ev} (h : BenignAt d.st e) : Benign d e := by
  cases e <;> first | exact h | exact absurd h id

theorem benignAt_along {d : Disk} {l : List Ev} (hi : LogInv d) (h : ∀ e ∈ l, BenignAt d.st e) :
    AllAlongD LogInv d l ∧ LogInv (applyAll d l) ∧ (applyAll d l).st = d.st := by
  induction l generalizing d with
  | nil => exact ⟨hi, hi, rfl⟩
  | cons e l ih =>
    obtain ⟨i1, s1⟩ := benign_step hi (benign_of_at (h e (by simp)))
    obtain ⟨a, b, c⟩ := ih i1 (fun e' he' => by rw [s1]; exact h e' (by simp [he']))
    exact ⟨⟨hi, a⟩, by rw [applyAll_cons]; exact b, by rw [applyAll_cons, c, s1]⟩

theorem benignAt_keeps {d : Disk} {e : Ev} (h : BenignAt d.st e) :
    marks (apply d e).wal = marks d.wal ∧ (apply d e).blocks = d.blocks := by
  cases e <;> first
    | exact ⟨rfl, rfl⟩
    | exact absurd h id
    | exact ⟨by show marks (d.wal ++ _) = _; simp [marks_append, marks], rfl⟩

theorem benignAt_along' {d : Disk} {l : List Ev} (hi : LogInv d) (h : ∀ e ∈ l, BenignAt d.st e) :
    AllAlongD LogInv d l ∧ LogInv (applyAll d l) ∧ (applyAll d l).st = d.st ∧
    marks (applyAll d l).wal = marks d.wal ∧ (applyAll d l).blocks = d.blocks := by
  induction l generalizing d with
  | nil => exact ⟨hi, hi, rfl, rfl, rfl⟩
  | cons e l ih =>
    obtain ⟨i1, s1⟩ := benign_step hi (benign_of_at (h e (by simp)))
    obtain ⟨k1, k2⟩ := benignAt_keeps (h e (by simp))
    obtain ⟨a, b, c, m, bl⟩ := ih i1 (fun e' he' => by rw [s1]; exact h e' (by simp [he']))
    exact ⟨⟨hi, a⟩, by rw [applyAll_cons]; exact b, by rw [applyAll_cons, c, s1],
      by rw [applyAll_cons, m, k1], by rw [applyAll_cons, bl, k2]⟩

/-- one height of an uncrashed node, as far as the log invariant is concerned -/
theorem height_log_shape {d : Disk} {A B C D : List Ev} {b : Block} {x : Nat} {v : Bool}
    (hi : LogInv d) (hlen : d.blocks.length = d.st)
    (hA : ∀ e ∈ A, BenignAt d.st e) (hB : ∀ e ∈ B, BenignAt d.st e)
    (hC : ∀ e ∈ C, BenignAt d.st e) (hD : ∀ e ∈ D, BenignAt d.st e) :
    AllAlongD LogInv d (A ++ (.bsJ b :: (B ++ (.wE (d.st + 2) :: (C ++ (.stR (d.st + 1) :: (D ++ [.stS (d.st + 1) x v]))))))) ∧
    LogInv (applyAll d (A ++ (.bsJ b :: (B ++ (.wE (d.st + 2) :: (C ++ (.stR (d.st + 1) :: (D ++ [.stS (d.st + 1) x v])))))))) ∧
    (applyAll d (A ++ (.bsJ b :: (B ++ (.wE (d.st + 2) :: (C ++ (.stR (d.st + 1) :: (D ++ [.stS (d.st + 1) x v])))))))).st = d.st + 1 ∧
    (applyAll d (A ++ (.bsJ b :: (B ++ (.wE (d.st + 2) :: (C ++ (.stR (d.st + 1) :: (D ++ [.stS (d.st + 1) x v])))))))).blocks.length = d.st + 1 := by
  -- A
  obtain ⟨aA, iA, sA, mA, bA⟩ := benignAt_along' hi hA
  -- bsJ
  let d1 := applyAll d A
  have i2 : LogInv (apply d1 (.bsJ b)) := by
    refine ⟨fun n hn => ?_, iA.m2, iA.pv, iA.rs⟩
    obtain ⟨p, q⟩ := iA.m1 n hn
    have q' : n ≤ d1.blocks.length + 1 := q
    refine ⟨p, ?_⟩
    show n ≤ (d1.blocks ++ [b]).length + 1
    simp; omega
  let d2 := apply d1 (.bsJ b)
  have s2 : d2.st = d.st := sA
  have l2 : d2.blocks.length = d.st + 1 := by
    show (d1.blocks ++ [b]).length = _
    rw [show d1.blocks = d.blocks from bA]; simp [hlen]
  -- B
  obtain ⟨aB, iB, sB, mB, bB⟩ := benignAt_along' i2 (by rw [s2]; exact hB)
  let d3 := applyAll d2 B
  have s3 : d3.st = d.st := sB.trans s2
  have l3 : d3.blocks.length = d.st + 1 := by rw [show d3.blocks = d2.blocks from bB]; exact l2
  -- wE
  have i4 : LogInv (apply d3 (.wE (d.st + 2))) := by
    have hm : marks (d3.wal ++ [.mark (d.st + 2)]) = marks d3.wal ++ [d.st + 2] := by
      simp [marks_append, marks]
    refine ⟨?_, ?_, iB.pv, ?_⟩
    · show ∀ n, n ∈ marks (d3.wal ++ _) → _
      rw [hm]; intro n hn
      rcases List.mem_append.mp hn with hn | hn
      · exact iB.m1 n hn
      · simp at hn; subst hn
        exact ⟨Or.inr (by omega), by show d.st + 2 ≤ d3.blocks.length + 1; omega⟩
    · show ∀ n, _ → _ → n ∈ marks (d3.wal ++ _)
      rw [hm]; intro n h2 hn; exact List.mem_append_left _ (iB.m2 n h2 hn)
    · show ∀ n, _ → _ ∧ (_ → _ ∈ marks (d3.wal ++ _))
      rw [hm]; intro n hn; obtain ⟨p, q⟩ := iB.rs n hn
      exact ⟨p, fun h => List.mem_append_left _ (q h)⟩
  let d4 := apply d3 (.wE (d.st + 2))
  have s4 : d4.st = d.st := s3
  have m4 : (d.st + 2) ∈ marks d4.wal := by
    show _ ∈ marks (d3.wal ++ [.mark (d.st + 2)])
    simp [marks_append, marks]
  have l4 : d4.blocks.length = d.st + 1 := l3
  -- C
  obtain ⟨aC, iC, sC, mC, bC⟩ := benignAt_along' i4 (by rw [s4]; exact hC)
  let d5 := applyAll d4 C
  have s5 : d5.st = d.st := sC.trans s4
  have m5 : (d.st + 2) ∈ marks d5.wal := by rw [show marks d5.wal = marks d4.wal from mC]; exact m4
  have l5 : d5.blocks.length = d.st + 1 := by rw [show d5.blocks = d4.blocks from bC]; exact l4
  -- stR
  have i6 : LogInv (apply d5 (.stR (d.st + 1))) := by
    refine ⟨iC.m1, iC.m2, iC.pv, ?_⟩
    show ∀ n, n ∈ (d.st + 1) :: d5.resp → _
    intro n hn
    rcases List.mem_cons.mp hn with rfl | hn
    · exact ⟨by show d.st + 1 ≤ d5.st + 1; omega, fun _ => by show d5.st + 2 ∈ marks d5.wal; rw [s5]; exact m5⟩
    · exact iC.rs n hn
  let d6 := apply d5 (.stR (d.st + 1))
  have s6 : d6.st = d.st := s5
  -- D
  obtain ⟨aD, iD, sD, mD, bD⟩ := benignAt_along' i6 (by rw [s6]; exact hD)
  let d7 := applyAll d6 D
  have s7 : d7.st = d.st := sD.trans s6
  have m7 : (d.st + 2) ∈ marks d7.wal := by
    rw [show marks d7.wal = marks d6.wal from mD]; exact m5
  have l7 : d7.blocks.length = d.st + 1 := by
    rw [show d7.blocks = d6.blocks from bD]; exact l5
  -- stS
  have i8 : LogInv (apply d7 (.stS (d.st + 1) x v)) := by
    refine ⟨iD.m1, ?_, ?_, ?_⟩
    · show ∀ n, 2 ≤ n → n ≤ d.st + 1 + 1 → n ∈ marks d7.wal
      intro n h2 hn
      by_cases hlt : n ≤ d.st + 1
      · exact iD.m2 n h2 (by rw [s7]; exact hlt)
      · have : n = d.st + 2 := by omega
        subst this; exact m7
    · show d7.pv.h ≤ d.st + 1 + 1
      have hp : d7.pv.h ≤ d7.st + 1 := iD.pv
      rw [s7] at hp; omega
    · show ∀ n, n ∈ d7.resp → n ≤ d.st + 1 + 1 ∧ (n = d.st + 1 + 1 → _)
      intro n hn
      obtain ⟨p, _⟩ := iD.rs n hn
      rw [s7] at p
      exact ⟨by omega, fun h => by omega⟩
  have hall : AllAlongD LogInv d (A ++ (.bsJ b :: (B ++ (.wE (d.st + 2) :: (C ++ (.stR (d.st + 1) :: (D ++ [.stS (d.st + 1) x v]))))))) := by
    refine aA.append ⟨iA, ?_⟩
    refine aB.append ⟨iB, ?_⟩
    refine aC.append ⟨iC, ?_⟩
    exact aD.append ⟨iD, i8⟩
  refine ⟨hall, ?_, ?_, ?_⟩
  · simp only [applyAll_append, applyAll_cons, applyAll_nil]; exact i8
  · simp only [applyAll_append, applyAll_cons, applyAll_nil]; rfl
  · simp only [applyAll_append, applyAll_cons, applyAll_nil]; exact l7

/-- the code's sequence of one height, cut at the four steps that move it along -/
theorem heightEvs_shape (d : Disk) (txs : List Tx) (k : Nat) :
    heightEvs d txs k =
      (votingEvs (d.st + 1) k (nparts txs) ++ ([.bsH] ++ List.replicate (nparts txs) .bsP ++ [.bsC, .bsS])) ++
      (.bsJ ⟨txs, d.stHash⟩ :: ([.bsF] ++ (.wE (d.st + 2) :: ([] ++ (.stR (d.st + 1) ::
        ((List.replicate txs.length .stT ++ [.apC] ++ List.replicate txs.length .apK ++
            [.apS (d.st + 1) (execTxs d.appHash txs), .stP, .stV]) ++
          [.stS (d.st + 1) (execTxs d.appHash txs) d.ver])))))) := by
  simp [heightEvs, finalizeEvs, applyEvs, List.append_assoc]

theorem voting_benignAt (st k p : Nat) : ∀ e ∈ votingEvs (st + 1) k p, BenignAt st e := by
  intro e he
  simp only [votingEvs, List.mem_append, List.mem_flatMap, List.mem_range, List.mem_cons,
    List.mem_replicate, List.not_mem_nil, or_false] at he
  rcases he with ((⟨r, _, hr⟩ | hr) | hr) | hr
  · rcases hr with rfl | rfl | rfl | rfl <;> simp [BenignAt]
  · rcases hr with rfl | rfl <;> simp [BenignAt]
  · rw [hr.2]; simp [BenignAt]
  · rcases hr with rfl | rfl | rfl | rfl <;> simp [BenignAt]

theorem height_log_along (d : Disk) (txs : List Tx) (k : Nat) (hi : LogInv d)
    (hlen : d.blocks.length = d.st) :
    AllAlongD LogInv d (heightEvs d txs k) ∧ LogInv (applyAll d (heightEvs d txs k)) ∧
    (applyAll d (heightEvs d txs k)).blocks.length = (applyAll d (heightEvs d txs k)).st := by
  rw [heightEvs_shape]
  have hA : ∀ e ∈ votingEvs (d.st + 1) k (nparts txs) ++ ([.bsH] ++ List.replicate (nparts txs) .bsP ++ [.bsC, .bsS]),
      BenignAt d.st e := by
    intro e he
    rcases List.mem_append.mp he with he | he
    · exact voting_benignAt _ _ _ e he
    · simp only [List.mem_append, List.mem_cons, List.mem_replicate, List.not_mem_nil, or_false] at he
      rcases he with (rfl | ⟨_, rfl⟩) | rfl | rfl <;> simp [BenignAt]
  have hB : ∀ e ∈ [Ev.bsF], BenignAt d.st e := by intro e he; simp at he; subst he; simp [BenignAt]
  have hC : ∀ e ∈ ([] : List Ev), BenignAt d.st e := by intro e he; simp at he
  have hD : ∀ e ∈ (List.replicate txs.length Ev.stT ++ [.apC] ++ List.replicate txs.length .apK ++
      [.apS (d.st + 1) (execTxs d.appHash txs), .stP, .stV]), BenignAt d.st e := by
    intro e he
    simp only [List.mem_append, List.mem_cons, List.mem_replicate, List.not_mem_nil, or_false] at he
    rcases he with ((⟨_, rfl⟩ | rfl) | ⟨_, rfl⟩) | rfl | rfl | rfl <;> simp [BenignAt]
  obtain ⟨a, b, c, e⟩ := height_log_shape (b := ⟨txs, d.stHash⟩) (x := execTxs d.appHash txs) (v := d.ver)
    hi hlen hA hB hC hD
  exact ⟨a, b, by rw [e, c]⟩

theorem heights_log_along {d : Disk} {run : List Ev} (h : Heights d run) (hi : LogInv d)
    (hlen : d.blocks.length = d.st) : AllAlongD LogInv d run := by
  induction h with
  | done d => exact hi
  | height d txs k rest _ ih =>
    obtain ⟨a, b, c⟩ := height_log_along d txs k hi hlen
    exact a.append (ih b c)

theorem logInv_empty : LogInv Disk.empty :=
  ⟨fun n h => by simp [Disk.empty, marks] at h, fun n h2 h1 => by simp [Disk.empty, Core.empty] at h1; omega,
   Nat.zero_le _, fun n h => by simp [Disk.empty, Core.empty] at h⟩

theorem genesisHs_benignAt : ∀ e ∈ genesisHs, BenignAt 0 e := by
  intro e he
  simp only [genesisHs, List.mem_cons, List.not_mem_nil, or_false] at he
  rcases he with rfl | rfl | rfl | rfl | rfl | rfl | rfl | rfl | rfl | rfl | rfl | rfl | rfl | rfl <;>
    simp [BenignAt]

/-- every world an uncrashed first process passes through satisfies the log invariant -/
theorem first_process_log {run p : List Ev} (hrun : Heights w1 run)
    (hp : p <+: genesisHs ++ walOpenEvs w0 ++ run) : LogInv (applyAll Disk.empty p) := by
  obtain ⟨a0, i0, _, _, _⟩ := benignAt_along' logInv_empty (l := genesisHs) genesisHs_benignAt
  have hw : walOpenEvs w0 = [.wE 0] := rfl
  have i1 : LogInv w1 := by
    show LogInv (applyAll w0 (walOpenEvs w0))
    rw [hw]
    exact (benign_step (d := w0) (e := .wE 0) i0 ⟨rfl, rfl⟩).1
  have a1 : AllAlongD LogInv w0 (walOpenEvs w0) := by rw [hw]; exact ⟨i0, i1⟩
  have a2 := heights_log_along hrun i1 rfl
  exact ((a0.append a1).append (by rw [applyAll_append]; exact a2)).prefix hp

end GnoVerif.C33
