import GnoVerif.Proofs.C21
/-!
C21, second helper file: with `ParseComments` set, the token-advance layer files every
comment token it passes into exactly one comment group, in source order — the list
`p.comments`, flattened, is the list of comment tokens before the current token.
(Only for clients that do not overwrite `p.tok`: a client that writes `COMMENT` over a
non-comment token makes the layer file that token as a comment.)
-/
namespace GnoVerif.C21

def isComment (c : Cfg) (j : Nat) : Bool := (tokAt c.s j).kind == tCOMMENT

/-- stream indices of the comment tokens among the first `n` tokens, in order -/
def commentsUpTo (c : Cfg) (n : Nat) : List Nat := (List.range n).filter (isComment c)

theorem commentsUpTo_succ (c : Cfg) (n : Nat) :
    commentsUpTo c (n + 1) = commentsUpTo c n ++ (if isComment c n then [n] else []) := by
  unfold commentsUpTo
  rw [List.range_succ, List.filter_append]
  by_cases h : isComment c n <;> simp [h]

theorem commentsUpTo_run (c : Cfg) (q d : Nat) (h : ∀ j, q ≤ j → j < q + d → isComment c j = true) :
    commentsUpTo c (q + d) = commentsUpTo c q ++ List.range' q d := by
  induction d with
  | zero => simp
  | succ d ih =>
    have h1 := ih (fun j hj hj' => h j hj (by omega))
    have h2 := h (q + d) (by omega) (by omega)
    rw [← Nat.add_assoc, commentsUpTo_succ, h1, h2, if_pos rfl, List.append_assoc]
    congr 1
    rw [List.range'_concat]
    simp

/-- the current token is stream token `p`, untouched by the client -/
structure At (c : Cfg) (st : PState) (p : Nat) : Prop where
  pos : st.pos = some p
  idx : st.idx = p + 1
  tok : st.tok = (tokAt c.s p).kind

/-- `At`, and the groups collected so far are exactly the comments before `p` -/
def Filed (c : Cfg) (st : PState) (p : Nat) : Prop :=
  At c st p ∧ st.comments.flatten = commentsUpTo c p

theorem next0_pc (c : Cfg) (hpc : c.parseComments = true) (nest : Nat) (st : PState) :
    At c (next0 c noCb nest st ()).1 st.idx ∧ (next0 c noCb nest st ()).1.comments = st.comments := by
  rw [next0_unfold]
  simp only [hpc, if_true]
  split <;> exact ⟨⟨rfl, rfl, rfl⟩, rfl⟩

theorem groupLoop_pc (c : Cfg) (hpc : c.parseComments = true) (nest n endline : Nat) (list : List Nat)
    (st : PState) (q : Nat) (hat : At c st q) :
    ∃ d, At c (groupLoop c noCb nest n endline list st ()).2.1 (q + d) ∧
      (groupLoop c noCb nest n endline list st ()).1.1 = list ++ List.range' q d ∧
      (∀ j, q ≤ j → j < q + d → isComment c j = true) ∧
      (groupLoop c noCb nest n endline list st ()).2.1.comments = st.comments ∧
      (st.tok = tCOMMENT ∧ posLine c st.pos ≤ endline + n → 0 < d) := by
  generalize hk : () = k
  fun_induction groupLoop c noCb nest n endline list st k generalizing q with
  | case1 endline list st k h r ih =>
    subst hk
    have hn := next0_pc c hpc nest st
    have hr1 : r.1.1 = q := by
      show st.pos.getD 0 = q
      rw [hat.pos]; rfl
    have hr2 : r.2.1 = (next0 c noCb nest st ()).1 := rfl
    have hat' : At c r.2.1 (q + 1) := by
      rw [hr2]
      have := hn.1
      rw [hat.idx] at this
      exact this
    obtain ⟨d, h1, h2, h3, h4, _⟩ := ih (q + 1) hat' rfl
    refine ⟨d + 1, ?_, ?_, ?_, ?_, fun _ => Nat.succ_pos d⟩
    · have : q + (d + 1) = q + 1 + d := by omega
      rw [this]; exact h1
    · rw [h2, hr1, List.append_assoc]
      congr 1
    · intro j hj hj'
      by_cases hjq : j = q
      · subst hjq
        unfold isComment
        rw [← hat.tok, h.1]
        simp
      · exact h3 j (by omega) (by omega)
    · rw [h4, hr2, hn.2]
  | case2 endline list st k h =>
    subst hk
    refine ⟨0, ?_, ?_, ?_, rfl, fun hh => absurd hh h⟩
    · exact hat
    · simp
    · intro j hj hj'; omega

theorem consumeCommentGroup_pc (c : Cfg) (hpc : c.parseComments = true) (nest n : Nat)
    (st : PState) (q : Nat) (hf : Filed c st q) :
    ∃ d, Filed c (consumeCommentGroup c noCb nest n st ()).2.1 (q + d) ∧ (st.tok = tCOMMENT → 0 < d) := by
  obtain ⟨d, h1, h2, h3, h4, h5⟩ := groupLoop_pc c hpc nest n (posLine c st.pos) [] st q hf.1
  refine ⟨d, ⟨⟨h1.pos, h1.idx, h1.tok⟩, ?_⟩, fun ht => h5 ⟨ht, Nat.le_add_right _ _⟩⟩
  show ((groupLoop c noCb nest n (posLine c st.pos) [] st ()).2.1.comments
      ++ [(groupLoop c noCb nest n (posLine c st.pos) [] st ()).1.1]).flatten = _
  rw [h4, h2, List.flatten_append, hf.2, commentsUpTo_run c q d h3]
  simp

theorem lineBranch_pc (c : Cfg) (hpc : c.parseComments = true) (nest : Nat) (prev : Option Nat)
    (st : PState) (q : Nat) (hf : Filed c st q) :
    ∃ d, Filed c (lineBranch c noCb nest prev st ()).2.1 (q + d) := by
  unfold lineBranch
  split
  · obtain ⟨d, h1, _⟩ := consumeCommentGroup_pc c hpc nest 0 st q hf
    refine ⟨d, ?_⟩
    unfold lineK
    split
    · exact ⟨⟨h1.1.pos, h1.1.idx, h1.1.tok⟩, h1.2⟩
    · exact h1
  · exact ⟨0, hf⟩

theorem succLoop_pc (c : Cfg) (hpc : c.parseComments = true) (nest : Nat) (comment : Option (List Nat))
    (endline : Int) (st : PState) (q : Nat) (hf : Filed c st q) :
    ∃ d, Filed c (succLoop c noCb nest comment endline st ()).2.1 (q + d) ∧
      (succLoop c noCb nest comment endline st ()).2.1.tok ≠ tCOMMENT := by
  generalize hk : () = k
  fun_induction succLoop c noCb nest comment endline st k generalizing q with
  | case1 comment endline st k h r ih =>
    subst hk
    obtain ⟨d, h1, _⟩ := consumeCommentGroup_pc c hpc nest 1 st q hf
    obtain ⟨d', h2, h3⟩ := ih (q + d) h1 rfl
    exact ⟨d + d', by rw [← Nat.add_assoc]; exact h2, h3⟩
  | case2 comment endline st k h =>
    subst hk
    exact ⟨0, hf, h⟩

theorem commentBranch_pc (c : Cfg) (hpc : c.parseComments = true) (nest : Nat) (prev : Option Nat)
    (st : PState) (q : Nat) (hf : Filed c st q) :
    ∃ p, Filed c (commentBranch c noCb nest prev st ()).1 p ∧
      (commentBranch c noCb nest prev st ()).1.tok ≠ tCOMMENT := by
  unfold commentBranch succK
  obtain ⟨d, h1⟩ := lineBranch_pc c hpc nest prev st q hf
  have hu : (lineBranch c noCb nest prev st ()).2.2 = () := rfl
  rw [hu]
  obtain ⟨d', h2, h3⟩ := succLoop_pc c hpc nest (lineBranch c noCb nest prev st ()).1 (-1)
    (lineBranch c noCb nest prev st ()).2.1 (q + d) h1
  refine ⟨q + d + d', ?_⟩
  unfold leadK
  split
  · exact ⟨⟨⟨h2.1.pos, h2.1.idx, h2.1.tok⟩, h2.2⟩, h3⟩
  · exact ⟨h2, h3⟩

/-- between two `next()` calls: nothing scanned yet, or the current token is a non-comment and
every comment before it is filed -/
def Settled (c : Cfg) (st : PState) : Prop :=
  (st.pos = none ∧ st.idx = 0 ∧ st.comments = []) ∨ (∃ p, Filed c st p ∧ st.tok ≠ tCOMMENT)

theorem next_pc (c : Cfg) (hpc : c.parseComments = true) (nest : Nat) (st : PState) (hs : Settled c st) :
    ∃ p, Filed c (next c noCb nest st ()).1 p ∧ (next c noCb nest st ()).1.tok ≠ tCOMMENT := by
  unfold next nextK
  have hn := next0_pc c hpc nest { st with leadComment := none, lineComment := none }
  have hf : Filed c (next0 c noCb nest { st with leadComment := none, lineComment := none } ()).1 st.idx := by
    refine ⟨hn.1, ?_⟩
    rw [hn.2]
    rcases hs with ⟨_, h0, hc⟩ | ⟨p, hp, hne⟩
    · show st.comments.flatten = _
      rw [hc, h0]; rfl
    · show st.comments.flatten = _
      rw [hp.2, hp.1.idx, commentsUpTo_succ]
      have : isComment c p = false := by
        unfold isComment
        rw [← hp.1.tok]
        simpa using hne
      simp [this]
  have hu : (next0 c noCb nest { st with leadComment := none, lineComment := none } ()).2 = () := rfl
  split
  · rw [hu]
    exact commentBranch_pc c hpc nest st.pos _ st.idx hf
  · rename_i hne
    exact ⟨st.idx, hf, hne⟩

/-- the client never overwrites `p.tok` -/
def Prog.noPoke {ρ : Type} : Prog ρ → Prop
  | .ret _ => True
  | .peek f => ∀ st, (f st).noPoke
  | .setTok _ _ => False
  | .next _ p => p.noPoke

theorem run_pc {ρ : Type} (c : Cfg) (hpc : c.parseComments = true) (prog : Prog ρ) (hp : prog.noPoke)
    (st : PState) (hs : ∃ p, Filed c st p ∧ st.tok ≠ tCOMMENT) :
    ∃ p, Filed c (run c noCb prog st ()).final p ∧ (run c noCb prog st ()).final.tok ≠ tCOMMENT := by
  induction prog generalizing st with
  | ret r => exact hs
  | peek f ih => exact ih st (hp st) st hs
  | setTok t p ih => exact absurd hp (by simp [Prog.noPoke])
  | next nest p ih =>
    simp only [run]
    have hu : (next c noCb nest st ()).2 = () := rfl
    rw [hu]
    exact ih hp _ (next_pc c hpc nest st (Or.inr hs))

theorem afterInit_pc (c : Cfg) (hpc : c.parseComments = true) :
    ∃ p, Filed c (afterInit c) p ∧ (afterInit c).tok ≠ tCOMMENT :=
  next_pc c hpc 0 PState.init (Or.inl ⟨rfl, rfl, rfl⟩)

theorem drain_noPoke (n : Nat) : (drain n).noPoke := by
  induction n with
  | zero => trivial
  | succ n ih =>
    intro st
    show (if st.tok = tEOF then Prog.ret () else Prog.next 0 (drain n)).noPoke
    split
    · trivial
    · exact ih

end GnoVerif.C21
