import GnoVerif.Model.C28
import GnoVerif.Proofs.C28Inv
/-!
C28 helper lemmas: the reference counting of `refSnapshot`.

`RInv s`: the reference count of every snapshot equals the number of its owners — the store
(`querySnapshot` points at it), the commit thread (its local `rs` between NewSnapshot and Swap), and
every in-flight query that pinned it — and a snapshot is closed exactly when that number is 0.
-/
namespace GnoVerif.C28

def inFlightB (q : Query) : Bool := q.status == .acquired || q.status == .ready

def holdsB (i : Nat) (q : Query) : Bool := inFlightB q && q.snap == some i

def holders (qs : List Query) (i : Nat) : Nat := qs.countP (holdsB i)

def owner (s : QS) (i : Nat) : Nat :=
  (if s.cur = some i then 1 else 0) + (if s.fresh = some i then 1 else 0)

def expected (s : QS) (i : Nat) : Nat := owner s i + holders s.queries i

structure RInv (s : State) : Prop where
  fresh : s.qs.fresh.isSome = true ↔ s.cons.phase = .snapped
  refs : ∀ (i : Nat) (sn : Snap), s.qs.snaps[i]? = some sn → sn.refs = expected s.qs i
  out : ∀ i, s.qs.snaps.length ≤ i → expected s.qs i = 0
  closed : ∀ (i : Nat) (sn : Snap), s.qs.snaps[i]? = some sn → (sn.closed = true ↔ sn.refs = 0)

theorem rinv_init (a : Bool) (k : Nat) (b : Bool) : RInv (State.init a k b) := by
  refine ⟨by simp [State.init, QS.init, Cons.init], ?_, ?_, ?_⟩
  · intro i sn h
    simp only [State.init, QS.init] at h
    cases i with
    | zero => simp at h; subst h; simp [expected, owner, holders, State.init, QS.init]
    | succ n => simp at h
  · intro i h
    simp only [State.init, QS.init] at h ⊢
    have : i ≠ 0 := by simp at h; omega
    simp [expected, owner, holders]
    omega
  · intro i sn h
    simp only [State.init, QS.init] at h
    cases i with
    | zero => simp at h; subst h; simp
    | succ n => simp at h

/-- replacing the query that `findQ` found changes a count by that query alone. -/
theorem countP_setQ (P : Query → Bool) : ∀ (qs : List Query) (id : Nat) (q0 q : Query),
    findQ qs id = some q0 → q.id = id →
    (setQ qs q).countP P + (if P q0 then 1 else 0) = qs.countP P + (if P q then 1 else 0) := by
  intro qs
  induction qs with
  | nil => intro id q0 q h; simp [findQ] at h
  | cons x r ih =>
    intro id q0 q h hid
    simp only [findQ, List.find?] at h
    by_cases hx : (x.id == id) = true
    · simp [hx] at h
      subst h
      have : (x.id == q.id) = true := by rw [hid]; exact hx
      have hs : setQ (x :: r) q = q :: r := by simp [setQ, this]
      rw [hs]
      simp only [List.countP_cons]
      omega
    · have hx' : (x.id == id) = false := by simpa using hx
      simp [hx'] at h
      have : (x.id == q.id) = false := by rw [hid]; exact hx'
      have hs : setQ (x :: r) q = x :: setQ r q := by simp [setQ, this]
      rw [hs]
      simp only [List.countP_cons]
      have := ih id q0 q (by simpa [findQ] using h) hid
      omega

theorem findQ_id {qs : List Query} {id : Nat} {q : Query} (h : findQ qs id = some q) : q.id = id := by
  unfold findQ at h
  have := List.find?_some h
  simpa using this

theorem getElem?_relSnap (ss : List Snap) (i j : Nat) :
    (relSnap ss j)[i]? = (ss[i]?).map (fun s => if j = i then
      { s with refs := s.refs - 1, closed := s.closed || s.refs - 1 == 0 } else s) := by
  unfold relSnap
  rw [List.getElem?_modify]
  cases ss[i]? <;> simp

theorem getElem?_acqSnap (ss : List Snap) (i j : Nat) :
    (acqSnap ss j)[i]? = (ss[i]?).map (fun s => if j = i then { s with refs := s.refs + 1 } else s) := by
  unfold acqSnap
  rw [List.getElem?_modify]
  cases ss[i]? <;> simp

theorem length_relSnap (ss : List Snap) (j : Nat) : (relSnap ss j).length = ss.length := by
  simp [relSnap]

theorem length_acqSnap (ss : List Snap) (j : Nat) : (acqSnap ss j).length = ss.length := by
  simp [acqSnap]

theorem stepC_phase {c c' : Cons} {e : CEv} (h : stepC c e = some c') :
    (e = .snap ∧ c.phase = .drained ∧ c'.phase = .snapped) ∨
    (e = .swap ∧ c.phase = .snapped ∧ c'.phase = .swapped) ∨
    (e ≠ .snap ∧ e ≠ .swap ∧ c.phase ≠ .snapped ∧ c'.phase ≠ .snapped) := by
  cases e <;> simp only [stepC] at h
  case begin => split at h <;> simp at h; subst h; simp_all
  case tx ops =>
    split at h
    · simp at h; subst h; simp_all
    · simp at h
  case endBlock => split at h <;> simp at h; subst h; simp_all
  case flush => split at h <;> simp at h; subst h; simp_all
  case drain =>
    split at h
    · simp at h; subst h; simp_all
    · simp at h
  case snap => split at h <;> simp at h; subst h; simp_all
  case swap => split at h <;> simp at h; subst h; simp_all
  case publishCid => split at h <;> simp at h; subst h; simp_all
  case publishHdr => split at h <;> simp at h; subst h; simp_all

theorem sideQ_other (c : Cons) (q : QS) (e : CEv) (h1 : e ≠ .snap) (h2 : e ≠ .swap) : sideQ c q e = q := by
  cases e <;> simp_all [sideQ]

theorem rinv_stepC {s s' : State} {e : CEv} (hi : RInv s) (h : step s (.c e) = some s') : RInv s' := by
  have ⟨hc, hq⟩ := step_c_cons h
  rcases stepC_phase hc with ⟨he, hp, hp'⟩ | ⟨he, hp, hp'⟩ | ⟨he1, he2, hp, hp'⟩
  · -- snap
    subst he
    have hfn : s.qs.fresh = none := by
      cases hf : s.qs.fresh with
      | none => rfl
      | some j =>
        have := hi.fresh.mp (by simp [hf])
        rw [hp] at this; cases this
    simp only [sideQ] at hq
    have hexp : ∀ i, expected s'.qs i = expected s.qs i + (if s.qs.snaps.length = i then 1 else 0) := by
      intro i
      rw [hq]
      simp only [expected, owner, hfn]
      by_cases hL : s.qs.snaps.length = i <;> simp [hL] <;> omega
    refine ⟨by rw [hq]; simp [hp'], ?_, ?_, ?_⟩
    · intro i sn hsn
      rw [hexp]
      rw [hq] at hsn
      simp only at hsn
      by_cases hlt : i < s.qs.snaps.length
      · rw [List.getElem?_append_left hlt] at hsn
        have := hi.refs i sn hsn
        have hne : ¬ s.qs.snaps.length = i := by omega
        simp [hne, this]
      · have hge : s.qs.snaps.length ≤ i := Nat.le_of_not_lt hlt
        rw [List.getElem?_append_right hge] at hsn
        have h0 := hi.out i hge
        by_cases hL : s.qs.snaps.length = i
        · subst hL
          simp at hsn
          subst hsn
          simp [h0]
        · have : i - s.qs.snaps.length ≠ 0 := by omega
          cases hd : i - s.qs.snaps.length with
          | zero => exact absurd hd this
          | succ n => simp [hd] at hsn
    · intro i hlen
      rw [hexp]
      rw [hq] at hlen
      simp at hlen
      have := hi.out i (by omega)
      have hne : ¬ s.qs.snaps.length = i := by omega
      simp [hne, this]
    · intro i sn hsn
      rw [hq] at hsn
      simp only at hsn
      by_cases hlt : i < s.qs.snaps.length
      · rw [List.getElem?_append_left hlt] at hsn
        exact hi.closed i sn hsn
      · have hge : s.qs.snaps.length ≤ i := Nat.le_of_not_lt hlt
        rw [List.getElem?_append_right hge] at hsn
        cases hd : i - s.qs.snaps.length with
        | zero => simp [hd] at hsn; subst hsn; simp
        | succ n => simp [hd] at hsn
  · -- swap
    subst he
    have hfs : s.qs.fresh.isSome = true := hi.fresh.mpr hp
    rcases Option.isSome_iff_exists.mp hfs with ⟨j, hj⟩
    simp only [sideQ] at hq
    refine ⟨by rw [hq]; simp [hp'], ?_, ?_, ?_⟩
    · intro k sn' hsn
      rw [hq] at hsn ⊢
      cases hcur : s.qs.cur with
      | none =>
        simp only [hcur] at hsn ⊢
        have := hi.refs k sn' hsn
        simp only [expected, owner, hcur, hj] at this ⊢
        simpa using this
      | some i =>
        simp only [hcur] at hsn ⊢
        rw [getElem?_relSnap] at hsn
        cases hs0 : s.qs.snaps[k]? with
        | none => simp [hs0] at hsn
        | some sn =>
          simp [hs0] at hsn
          have h0 := hi.refs k sn hs0
          simp only [expected, owner, hcur, hj] at h0 ⊢
          by_cases hik : i = k
          · subst hik
            simp at hsn h0 ⊢
            subst hsn
            simp
            omega
          · simp [hik] at hsn h0 ⊢
            subst hsn
            omega
    · intro k hlen
      rw [hq] at hlen ⊢
      have hlen' : s.qs.snaps.length ≤ k := by
        cases hcur : s.qs.cur with
        | none => simpa [hcur] using hlen
        | some i => simpa [hcur, length_relSnap] using hlen
      have := hi.out k hlen'
      simp only [expected, owner, hj] at this ⊢
      by_cases hjk : j = k <;> simp_all
    · intro k sn' hsn
      rw [hq] at hsn
      cases hcur : s.qs.cur with
      | none => simp only [hcur] at hsn; exact hi.closed k sn' hsn
      | some i =>
        simp only [hcur] at hsn
        rw [getElem?_relSnap] at hsn
        cases hs0 : s.qs.snaps[k]? with
        | none => simp [hs0] at hsn
        | some sn =>
          simp [hs0] at hsn
          have hcl := hi.closed k sn hs0
          by_cases hik : i = k
          · subst hik
            simp at hsn
            subst hsn
            have h0 := hi.refs i sn hs0
            simp only [expected, owner, hcur] at h0
            have hpos : sn.refs ≠ 0 := by simp at h0; omega
            have hnc : sn.closed = false := by
              cases hb : sn.closed with
              | false => rfl
              | true => exact absurd (hcl.mp hb) hpos
            simp [hnc]
          · simp [hik] at hsn
            subst hsn
            exact hcl
  · -- the other consensus events do not touch the query side
    have hq' : s'.qs = s.qs := by rw [hq]; exact sideQ_other _ _ _ he1 he2
    have hfn : s.qs.fresh = none := by
      cases hf : s.qs.fresh with
      | none => rfl
      | some j => exact absurd (hi.fresh.mp (by simp [hf])) hp
    refine ⟨?_, by rw [hq']; exact hi.refs, by rw [hq']; exact hi.out, by rw [hq']; exact hi.closed⟩
    rw [hq', hfn]
    simp [hp']

/-- closing argument for query events: `cur`, `fresh`, the consensus side and the number of
snapshots are unchanged; every snapshot's count moved exactly as its holders did. -/
theorem rinv_q_update {s s' : State} (hi : RInv s) (hc : s'.cons = s.cons)
    (hcur : s'.qs.cur = s.qs.cur) (hfr : s'.qs.fresh = s.qs.fresh)
    (hlen : s'.qs.snaps.length = s.qs.snaps.length)
    (hsn : ∀ (k : Nat) (sn' : Snap), s'.qs.snaps[k]? = some sn' → ∃ sn, s.qs.snaps[k]? = some sn ∧
      sn'.refs + holders s.qs.queries k = sn.refs + holders s'.qs.queries k ∧
      (sn'.closed = true ↔ sn'.refs = 0))
    (hout : ∀ k, s.qs.snaps.length ≤ k → holders s'.qs.queries k = holders s.qs.queries k) : RInv s' := by
  have hown : ∀ k, owner s'.qs k = owner s.qs k := by intro k; simp [owner, hcur, hfr]
  refine ⟨by rw [hfr, hc]; exact hi.fresh, ?_, ?_, ?_⟩
  · intro k sn' h
    rcases hsn k sn' h with ⟨sn, h1, h2, _⟩
    have := hi.refs k sn h1
    simp only [expected, hown] at this ⊢
    omega
  · intro k h
    rw [hlen] at h
    have := hi.out k h
    simp only [expected, hown, hout k h] at this ⊢
    exact this
  · intro k sn' h
    exact (hsn k sn' h).choose_spec.2.2

theorem holdsB_of_not_inflight {q : Query} (h : inFlightB q = false) (k : Nat) : holdsB k q = false := by
  simp [holdsB, h]

/-- query events that replace the found query by one with the same holder status and leave the
snapshots alone. -/
theorem rinv_q_same {s s' : State} (hi : RInv s) (hc : s'.cons = s.cons) {id : Nat} {q0 q' : Query}
    (h4 : s'.qs.queries = setQ s.qs.queries q')
    (hf : findQ s.qs.queries id = some q0) (hid : q'.id = id)
    (h1 : s'.qs.snaps = s.qs.snaps) (h2 : s'.qs.cur = s.qs.cur) (h3 : s'.qs.fresh = s.qs.fresh)
    (hsame : ∀ k, holdsB k q' = holdsB k q0) : RInv s' := by
  have hh : ∀ k, holders s'.qs.queries k = holders s.qs.queries k := by
    intro k
    have := countP_setQ (holdsB k) _ id q0 q' hf hid
    rw [h4]; simp only [holders]
    rw [hsame k] at this
    omega
  refine rinv_q_update hi hc h2 h3 (by rw [h1]) ?_ (fun k _ => hh k)
  intro k sn' h
  rw [h1] at h
  exact ⟨sn', h, by rw [hh k], hi.closed k sn' h⟩

theorem rinv_stepQ {s s' : State} {e : QEv} (hi : RInv s) (h : step s (.q e) = some s') : RInv s' := by
  have ⟨hc, hq⟩ := step_q_cons h
  cases e <;> simp only [stepQ] at hq
  case height id sim explicit =>
    have new : ∀ (q : Query), q.status = .gotHeight →
        s'.qs = { s.qs with queries := s.qs.queries ++ [q] } → RInv s' := by
      intro q h1 h3
      have hh : ∀ k, holders s'.qs.queries k = holders s.qs.queries k := by
        intro k
        rw [h3]
        simp [holders, List.countP_append, holdsB, inFlightB, h1]
      refine rinv_q_update hi hc (by rw [h3]) (by rw [h3]) (by rw [h3]) ?_ (fun k _ => hh k)
      intro k sn' h
      rw [h3] at h
      exact ⟨sn', h, by rw [hh k], hi.closed k sn' h⟩
    split at hq
    · simp at hq
    · split at hq
      · split at hq
        · simp at hq
        · simp at hq; exact new _ rfl hq.symm
      · simp at hq; exact new _ rfl hq.symm
  case acquire id =>
    split at hq
    · rename_i q i hf hcur
      split at hq
      · simp at hq
      · rename_i hst
        have hst' : q.status = .gotHeight := by simpa using hst
        have hq0 : ∀ k, holdsB k q = false := holdsB_of_not_inflight (by simp [inFlightB, hst'])
        split at hq
        · simp at hq
        · rename_i sn hsn
          have hilt : i < s.qs.snaps.length := (List.getElem?_eq_some_iff.mp hsn).1
          have hrefs := hi.refs i sn hsn
          have hpos : 1 ≤ sn.refs := by
            simp only [expected, owner, hcur] at hrefs
            simp at hrefs; omega
          have hncl : sn.closed = false := by
            cases hb : sn.closed with
            | false => rfl
            | true => have := (hi.closed i sn hsn).mp hb; omega
          split at hq
          · -- loaded: the query becomes a holder of snapshot i
            simp at hq
            have hq'k : ∀ k, holdsB k { q with snap := some i, status := if q.sim then QStatus.ready else QStatus.acquired } =
                (i == k) := by
              intro k
              by_cases hsim : q.sim = true <;> simp [holdsB, inFlightB, hsim]
            have hh : ∀ k, holders s'.qs.queries k = holders s.qs.queries k + (if i = k then 1 else 0) := by
              intro k
              have := countP_setQ (holdsB k) s.qs.queries id q
                { q with snap := some i, status := if q.sim then QStatus.ready else QStatus.acquired } hf (show q.id = id from findQ_id hf)
              rw [← hq]; simp only [holders]
              rw [hq0 k, hq'k k] at this
              by_cases hik : i = k <;> simp [hik] at this ⊢ <;> omega
            refine rinv_q_update hi hc (by rw [← hq]) (by rw [← hq]) (by rw [← hq]; simp [length_acqSnap]) ?_ ?_
            · intro k sn' h
              rw [← hq] at h
              simp only at h
              rw [getElem?_acqSnap] at h
              cases hs0 : s.qs.snaps[k]? with
              | none => simp [hs0] at h
              | some sn0 =>
                simp [hs0] at h
                refine ⟨sn0, rfl, ?_, ?_⟩
                · rw [hh k]
                  by_cases hik : i = k
                  · simp [hik] at h ⊢; subst h; simp; omega
                  · simp [hik] at h ⊢; subst h; rfl
                · by_cases hik : i = k
                  · subst hik
                    rw [hsn] at hs0; cases hs0
                    simp at h; subst h
                    simp [hncl]
                  · simp [hik] at h; subst h
                    exact hi.closed k sn0 hs0
            · intro k hk
              rw [hh k]
              have : ¬ i = k := by omega
              simp [this]
          · -- load failed: acquire and release at once
            simp at hq
            have hh : ∀ k, holders s'.qs.queries k = holders s.qs.queries k := by
              intro k
              have := countP_setQ (holdsB k) s.qs.queries id q
                { q with snap := some i, status := QStatus.failed } hf (show q.id = id from findQ_id hf)
              rw [← hq]; simp only [holders]
              rw [hq0 k] at this
              simp [holdsB, inFlightB] at this
              omega
            refine rinv_q_update hi hc (by rw [← hq]) (by rw [← hq]) (by rw [← hq]; simp [length_acqSnap, length_relSnap]) ?_ (fun k _ => hh k)
            intro k sn' h
            rw [← hq] at h
            simp only at h
            rw [getElem?_relSnap, getElem?_acqSnap] at h
            cases hs0 : s.qs.snaps[k]? with
            | none => simp [hs0] at h
            | some sn0 =>
              simp [hs0] at h
              refine ⟨sn0, rfl, ?_, ?_⟩
              · rw [hh k]
                by_cases hik : i = k
                · simp [hik] at h; subst h; simp
                · simp [hik] at h; subst h; rfl
              · by_cases hik : i = k
                · subst hik
                  rw [hsn] at hs0; cases hs0
                  simp at h; subst h
                  simp [hncl]
                · simp [hik] at h; subst h
                  exact hi.closed k sn0 hs0
    · simp at hq
  case hdr id =>
    split at hq
    · rename_i q hf
      split at hq
      · rename_i hst
        simp at hq
        exact rinv_q_same hi hc (congrArg QS.queries hq.symm) hf (show q.id = id from findQ_id hf) (by rw [← hq]) (by rw [← hq]) (by rw [← hq]) (by intro k; simp [holdsB, inFlightB, hst])
      · simp at hq
    · simp at hq
  case read id k0 =>
    split at hq
    · rename_i q hf
      split at hq
      · simp at hq
      · split at hq
        · simp at hq
        · split at hq
          · simp at hq
          · simp at hq
            exact rinv_q_same hi hc (congrArg QS.queries hq.symm) hf (show q.id = id from findQ_id hf) (by rw [← hq]) (by rw [← hq]) (by rw [← hq]) (by intro k; simp [holdsB, inFlightB])
    · simp at hq
  case write id k0 v =>
    split at hq
    · rename_i q hf
      split at hq
      · simp at hq
        exact rinv_q_same hi hc (congrArg QS.queries hq.symm) hf (show q.id = id from findQ_id hf) (by rw [← hq]) (by rw [← hq]) (by rw [← hq]) (by intro k; simp [holdsB, inFlightB])
      · simp at hq
    · simp at hq
  case release id =>
    split at hq
    · rename_i q hf
      split at hq
      · simp at hq
      · rename_i hst
        have hst' : q.status = .ready := by simpa using hst
        split at hq
        · simp at hq
        · rename_i i hsnap
          simp at hq
          have hq0 : ∀ k, holdsB k q = (i == k) := by
            intro k; simp [holdsB, inFlightB, hst', hsnap]
          have hh : ∀ k, holders s'.qs.queries k + (if i = k then 1 else 0) = holders s.qs.queries k := by
            intro k
            have := countP_setQ (holdsB k) s.qs.queries id q { q with status := QStatus.released } hf (show q.id = id from findQ_id hf)
            rw [← hq]; simp only [holders]
            rw [hq0 k] at this
            simp [holdsB, inFlightB] at this
            by_cases hik : i = k <;> simp [hik] at this ⊢ <;> omega
          refine rinv_q_update hi hc (by rw [← hq]) (by rw [← hq]) (by rw [← hq]; simp [length_relSnap]) ?_ ?_
          · intro k sn' h
            rw [← hq] at h
            simp only at h
            rw [getElem?_relSnap] at h
            cases hs0 : s.qs.snaps[k]? with
            | none => simp [hs0] at h
            | some sn0 =>
              simp [hs0] at h
              have hr := hi.refs k sn0 hs0
              have hk := hh k
              by_cases hik : i = k
              · subst hik
                simp at h hk; subst h
                have hpos : 1 ≤ sn0.refs := by simp only [expected] at hr; omega
                have hncl : sn0.closed = false := by
                  cases hb : sn0.closed with
                  | false => rfl
                  | true => have := (hi.closed i sn0 hs0).mp hb; omega
                refine ⟨sn0, rfl, by simp; omega, by simp [hncl]⟩
              · simp [hik] at h hk; subst h
                exact ⟨sn0, rfl, by omega, hi.closed k sn0 hs0⟩
          · intro k hk
            have hk' := hh k
            by_cases hik : i = k
            · subst hik
              have := hi.out i hk
              simp only [expected] at this
              simp at hk'
              omega
            · simp [hik] at hk'; exact hk'
    · simp at hq

theorem rinv_step {s s' : State} {e : Ev} (hi : RInv s) (h : step s e = some s') : RInv s' := by
  cases e with
  | c ce => exact rinv_stepC hi h
  | q qe => exact rinv_stepQ hi h

theorem rinv_run : ∀ (tr : List Ev) (s s' : State), RInv s → run s tr = some s' → RInv s' := by
  intro tr
  induction tr with
  | nil => intro s s' hi h; simp [run] at h; subst h; exact hi
  | cons e r ih =>
    intro s s' hi h
    simp only [run] at h
    cases hs : step s e with
    | none => simp [hs] at h
    | some s1 =>
      simp [hs] at h
      exact ih s1 s' (rinv_step hi hs) h

end GnoVerif.C28
