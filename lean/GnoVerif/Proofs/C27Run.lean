import GnoVerif.Proofs.C27Sim
/-!
C27 helper lemmas, part 7: whole runs — InitChain establishes the invariant,
every block is one physical write, the database is the replay of the write
log, a prefix of the log is the log of a prefix of the blocks, and a reopened
copy continues like the original.
-/
namespace GnoVerif.C27

/-! ## InitChain -/

theorem boot_db (cfg : Cfg) (g : List Step) : (boot cfg g).db = [] := by
  simp [boot, App.initChain, App.fresh]

theorem boot_log (cfg : Cfg) (g : List Step) : (boot cfg g).log = [] := by
  simp [boot, App.initChain, App.fresh]

theorem boot_lastVer (cfg : Cfg) (g : List Step) : (boot cfg g).lastVer = 0 := by
  simp [boot, App.initChain, App.fresh]

theorem boot_cfg (cfg : Cfg) (g : List Step) : (boot cfg g).cfg = cfg := by
  simp [boot, App.initChain, App.fresh]

theorem boot_inv (cfg : Cfg) (g : List Step) (hc : cfg.collected = true) : Inv (boot cfg g) := by
  have hst : StagedOk ((Tree.empty .main cfg.fastMain).set cpKey cpVal) :=
    Tree.set_staged _ _ _ (by intro op hop; cases hop)
  unfold boot App.initChain
  by_cases hih : cfg.initialHeight > 1
  · simp only [App.fresh, treeNew, hih, ↓reduceIte]
    refine ⟨hc, rfl, ⟨rfl, rfl, hst, rfl, fun _ => rfl, (fun h => absurd h (Nat.lt_irrefl 0)), ?_, ?_⟩, ?_⟩
    · intro v hv; simp [PDB.get] at hv
    · intro v hv; simp [PDB.get] at hv
    · unfold AuxInv
      cases hcx : cfg.aux with
      | none => simp
      | some f =>
        simp only [Option.map_some]
        refine ⟨rfl, rfl, (by intro op hop; cases hop), rfl, fun _ => rfl, (fun h => absurd h (Nat.lt_irrefl 0)), ?_, ?_⟩
        · intro v hv; simp [PDB.get] at hv
        · intro v hv; simp [PDB.get] at hv
  · simp only [App.fresh, treeNew, hih, ↓reduceIte]
    refine ⟨hc, rfl, ⟨rfl, rfl, hst, rfl, fun _ => rfl, (fun h => absurd h (Nat.lt_irrefl 0)), ?_, ?_⟩, ?_⟩
    · intro v hv; simp [PDB.get] at hv
    · intro v hv; simp [PDB.get] at hv
    · unfold AuxInv
      cases hcx : cfg.aux with
      | none => simp
      | some f =>
        simp only [Option.map_some]
        refine ⟨rfl, rfl, (by intro op hop; cases hop), rfl, fun _ => rfl, (fun h => absurd h (Nat.lt_irrefl 0)), ?_, ?_⟩
        · intro v hv; simp [PDB.get] at hv
        · intro v hv; simp [PDB.get] at hv

/-! ## one block -/

theorem replay_snoc (log : List (List WOp)) (B : List WOp) :
    replay (log ++ [B]) = applyBatch (replay log) B := by
  simp [replay, List.foldl_append]

/-- the database is what the physical write log replays to. -/
def Replayed (a : App) : Prop := a.db = replay a.log

theorem block_inv (a : App) (txs : List Tx) (h : Inv a) (hr : Replayed a) :
    ∃ a' B, a.block txs = .ok a' ∧ Inv a' ∧ Done a' ∧ Replayed a' ∧
      a'.log = a.log ++ [B] ∧ a'.cfg = a.cfg := by
  obtain ⟨a', B, h1, h2, h3, h4, h5, h6, _, _⟩ := commit_inv a (a.deliverTxs txs) a.nextHeight h
  refine ⟨a', B, h1, h2, h3, ?_, h5, h6⟩
  unfold Replayed
  rw [h4, h5, replay_snoc, hr]

theorem Sim.nextHeight {a r : App} (hs : Sim a r) (hpos : 0 < a.lastVer) :
    r.nextHeight = a.nextHeight := by
  unfold App.nextHeight
  rw [hs.lastVer]
  simp [hpos]

theorem block_sim {a r : App} (hs : Sim a r) (h : Inv a) (hpos : 0 < a.lastVer) (txs : List Tx) :
    ∃ a' r', a.block txs = .ok a' ∧ r.block txs = .ok r' ∧ Sim a' r' ∧
      r'.lastVer = a'.lastVer ∧ r'.lastInfo = a'.lastInfo := by
  unfold App.block
  have e1 : r.deliverTxs txs = a.deliverTxs txs := by
    unfold App.deliverTxs; rw [hs.deliver]
  rw [e1, hs.nextHeight hpos]
  exact commit_sim hs h hpos _ _

/-! ## runs -/

theorem runBlocks_nil (a : App) : runBlocks a [] = .ok (a, []) := rfl

theorem runBlocks_cons (a : App) (b : List Tx) (bs : List (List Tx)) :
    runBlocks a (b :: bs) =
      match a.block b with
      | .error e => .error e
      | .ok a1 =>
        match runBlocks a1 bs with
        | .error e => .error e
        | .ok (a', ids) => .ok (a', (a1.lastVer, a1.lastInfo) :: ids) := rfl

/-- a run under the invariant never fails; it keeps the invariant, appends one
write unit per block, and (if it committed anything) ends in a `Done` state. -/
theorem runBlocks_inv (a : App) (bs : List (List Tx)) (h : Inv a) (hr : Replayed a) :
    ∃ a' ids L, runBlocks a bs = .ok (a', ids) ∧ Inv a' ∧ Replayed a' ∧ a'.cfg = a.cfg ∧
      a'.log = a.log ++ L ∧ L.length = bs.length ∧ ids.length = bs.length ∧
      (bs ≠ [] → Done a') := by
  induction bs generalizing a with
  | nil => exact ⟨a, [], [], rfl, h, hr, rfl, by simp, rfl, rfl, fun h => absurd rfl h⟩
  | cons b bs ih =>
    obtain ⟨a1, B, hb, hi1, hd1, hr1, hl1, hc1⟩ := block_inv a b h hr
    obtain ⟨a', ids, L, hrun, hi', hr', hc', hl', hL, hids, hd'⟩ := ih a1 hi1 hr1
    refine ⟨a', (a1.lastVer, a1.lastInfo) :: ids, B :: L, ?_, hi', hr', by rw [hc', hc1], ?_, by simp [hL],
      by simp [hids], ?_⟩
    · rw [runBlocks_cons, hb]; simp only [hrun]
    · rw [hl', hl1]; simp
    · intro _
      cases bs with
      | nil =>
        simp only [runBlocks_nil, Except.ok.injEq, Prod.mk.injEq] at hrun
        rw [← hrun.1]; exact hd1
      | cons b' bs' => exact hd' (by simp)

theorem runBlocks_append (a : App) (bs1 bs2 : List (List Tx)) :
    runBlocks a (bs1 ++ bs2) =
      match runBlocks a bs1 with
      | .error e => .error e
      | .ok (a1, ids1) =>
        match runBlocks a1 bs2 with
        | .error e => .error e
        | .ok (a', ids2) => .ok (a', ids1 ++ ids2) := by
  induction bs1 generalizing a with
  | nil =>
    simp only [List.nil_append, runBlocks_nil]
    cases runBlocks a bs2 with
    | error e => rfl
    | ok p => rfl
  | cons b bs ih =>
    simp only [List.cons_append, runBlocks_cons]
    cases hb : a.block b with
    | error e => rfl
    | ok a1 =>
      simp only [ih a1]
      cases h1 : runBlocks a1 bs with
      | error e => rfl
      | ok p =>
        obtain ⟨a2, ids1⟩ := p
        simp only
        cases h2 : runBlocks a2 bs2 with
        | error e => rfl
        | ok q => rfl

/-- a reopened copy runs the remaining blocks exactly like the original. -/
theorem runBlocks_sim {a r : App} (hs : Sim a r) (h : Inv a) (hr : Replayed a) (hpos : 0 < a.lastVer)
    (bs : List (List Tx)) {a' : App} {ids : List (Nat × List StoreInfo)}
    (hrun : runBlocks a bs = .ok (a', ids)) :
    ∃ r', runBlocks r bs = .ok (r', ids) ∧ Sim a' r' := by
  induction bs generalizing a r a' ids with
  | nil =>
    simp only [runBlocks_nil, Except.ok.injEq, Prod.mk.injEq] at hrun
    obtain ⟨rfl, rfl⟩ := hrun
    exact ⟨r, rfl, hs⟩
  | cons b bs ih =>
    obtain ⟨a1, r1, hb, hrb, hs1, hv1, hi1⟩ := block_sim hs h hpos b
    obtain ⟨a1', B, hb', hinv1, hd1, hr1, _, _⟩ := block_inv a b h hr
    rw [hb] at hb'
    injection hb' with hb'
    subst hb'
    rw [runBlocks_cons, hb] at hrun
    simp only at hrun
    cases h2 : runBlocks a1 bs with
    | error e => rw [h2] at hrun; cases hrun
    | ok p =>
      obtain ⟨a2, ids2⟩ := p
      rw [h2] at hrun
      simp only [Except.ok.injEq, Prod.mk.injEq] at hrun
      obtain ⟨rfl, rfl⟩ := hrun
      obtain ⟨r', hr', hs'⟩ := ih hs1 hinv1 hr1 hd1.pos h2
      refine ⟨r', ?_, hs'⟩
      rw [runBlocks_cons, hrb]
      simp only [hr', hv1, hi1]

theorem Sim.obs {a r : App} (hs : Sim a r) : r.obs = a.obs := by
  unfold App.obs
  rw [hs.lastVer, hs.lastInfo, hs.main, hs.aux, hs.db]
  cases a.aux <;> rfl

/-! ## the crash theorem, indexed by the number of surviving writes -/

theorem recover_empty (cfg : Cfg) : recover cfg [] = .ok (App.fresh cfg []) := by
  simp [recover, PDB.get]

theorem crash_after_k (cfg : Cfg) (hc : cfg.collected = true) (g : List Step) (bs : List (List Tx))
    (a : App) (ids : List (Nat × List StoreInfo)) (hrun : runBlocks (boot cfg g) bs = .ok (a, ids)) :
    a.log.length = bs.length ∧
    ∀ k, k ≤ bs.length →
      ∃ ak idsk r r',
        runBlocks (boot cfg g) (bs.take k) = .ok (ak, idsk) ∧ ak.log = a.log.take k ∧
        recover cfg (replay (a.log.take k)) = .ok r ∧
        r.obs = ak.committedObs ∧
        runBlocks (resume r g) (bs.drop k) = .ok (r', ids.drop k) ∧ r'.obs = a.obs := by
  have hb := boot_inv cfg g hc
  have hbr : Replayed (boot cfg g) := by unfold Replayed; rw [boot_db, boot_log]; rfl
  obtain ⟨a0, ids0, L0, hrun0, _, _, _, hl0, hL0, _, _⟩ := runBlocks_inv (boot cfg g) bs hb hbr
  rw [hrun] at hrun0
  injection hrun0 with hrun0
  injection hrun0 with e1 e2
  subst e1; subst e2
  rw [boot_log, List.nil_append] at hl0
  refine ⟨by rw [hl0, hL0], ?_⟩
  intro k hk
  obtain ⟨ak, idsk, Lk, hrunk, hik, hrk, hck, hlk, hLk, hidsk, hdk⟩ :=
    runBlocks_inv (boot cfg g) (bs.take k) hb hbr
  rw [boot_log, List.nil_append] at hlk
  have hLk' : Lk.length = k := by rw [hLk, List.length_take]; omega
  have hidsk' : idsk.length = k := by rw [hidsk, List.length_take]; omega
  -- split the run
  have hsplit := runBlocks_append (boot cfg g) (bs.take k) (bs.drop k)
  rw [List.take_append_drop, hrun, hrunk] at hsplit
  simp only at hsplit
  obtain ⟨a2, ids2, L2, hrun2, _, _, _, hl2, _, _, _⟩ := runBlocks_inv ak (bs.drop k) hik hrk
  rw [hrun2] at hsplit
  simp only [Except.ok.injEq, Prod.mk.injEq] at hsplit
  obtain ⟨ea, eids⟩ := hsplit
  subst ea
  have hdrop : ids.drop k = ids2 := by rw [eids, ← hidsk']; simp
  have htake : a.log.take k = ak.log := by rw [hl2, hlk, ← hLk']; simp
  have hdb : replay (a.log.take k) = ak.db := by rw [htake]; exact hrk.symm
  have hcfg : ak.cfg = cfg := by rw [hck, boot_cfg]
  rw [hdb, hdrop]
  by_cases hk0 : k = 0
  · subst hk0
    simp only [List.take_zero, runBlocks_nil, Except.ok.injEq, Prod.mk.injEq] at hrunk
    obtain ⟨rfl, rfl⟩ := hrunk
    refine ⟨boot cfg g, [], App.fresh cfg [], a, rfl, by rw [htake], ?_, ?_, ?_, rfl⟩
    · rw [boot_db]; exact recover_empty cfg
    · simp [App.committedObs, boot_lastVer, boot_cfg]
    · have : resume (App.fresh cfg []) g = boot cfg g := by simp [resume, boot, App.fresh]
      rw [this]; simpa using hrun2
  · have hne : bs.take k ≠ [] := by
      intro e
      have hlen : (bs.take k).length = 0 := by rw [e]; rfl
      rw [List.length_take] at hlen
      omega
    have hd := hdk hne
    have hrec := recover_done ak hik hd
    rw [hcfg] at hrec
    have hs : Sim ak ak.recovered := Sim.recovered ak hd.deliver
    obtain ⟨r', hr', hs'⟩ := runBlocks_sim hs hik hrk hd.pos (bs.drop k) hrun2
    refine ⟨ak, idsk, ak.recovered, r', hrunk, htake.symm, hrec, ?_, ?_, hs'.obs⟩
    · have : ak.lastVer ≠ 0 := by have := hd.pos; omega
      simp [App.committedObs, this, hs.obs]
    · have : ak.recovered.lastVer ≠ 0 := by
        have := hd.pos
        show ak.lastVer ≠ 0
        omega
      simp only [resume, this, ↓reduceIte]
      exact hr'

end GnoVerif.C27
