/-
Proofs.C23Ord — consequences of the search-order invariant `Ord`:
the abstraction is a strictly sorted list inside the node's bounds, cached
sizes are exact, and the parts of an inner node left / right of a child are
entirely below / above any key routed to that child.
-/
import GnoVerif.Proofs.C23OMap

namespace GnoVerif.C23
open GnoVerif

/-- concatenated contents of a list of children. -/
def flat (h : Nat) (cs : List (Node h)) : List Entry := (cs.map (abs h)).flatten

@[simp] theorem flat_nil (h : Nat) : flat h [] = [] := rfl
@[simp] theorem flat_cons (h : Nat) (c : Node h) (cs : List (Node h)) :
    flat h (c :: cs) = abs h c ++ flat h cs := by simp [flat]
@[simp] theorem flat_append (h : Nat) (a b : List (Node h)) :
    flat h (a ++ b) = flat h a ++ flat h b := by simp [flat]

theorem abs_succ (h : Nat) (n : Inner (Node h)) : abs (h + 1) n = flat h n.kids := rfl
theorem abs_zero (l : Leaf) : abs 0 l = l.es := rfl
@[simp] theorem Tree.abs_node (h : Nat) (n : Node h) : (Tree.node h n).abs = C23.abs h n := rfl
@[simp] theorem Tree.abs_empty : Tree.empty.abs = [] := rfl

theorem lbOk_of_gap {lo : Option Key} {k x : Key} (h : gapOk lo (some k)) (hx : k ≤ x) : lbOk lo x := by
  cases lo with
  | none => trivial
  | some l => exact Lex.le_trans h hx

theorem ubOk_of_gap {hi : Option Key} {k x : Key} (hx : x < k) (h : gapOk (some k) hi) : ubOk hi x := by
  cases hi with
  | none => trivial
  | some u => exact Lex.lt_of_lt_of_le hx h

theorem gapOk_trans {lo hi : Option Key} {k : Key} (h1 : gapOk lo (some k)) (h2 : gapOk (some k) hi) :
    gapOk lo hi := by
  cases lo with
  | none => cases hi <;> trivial
  | some l =>
    cases hi with
    | none => trivial
    | some u => exact Lex.le_trans h1 h2

/-- the three facts carried through every induction over `Ord`. -/
def Good (es : List Entry) (lo hi : Option Key) : Prop :=
  OMap.Sorted es ∧ (∀ e ∈ es, lbOk lo e.1 ∧ ubOk hi e.1) ∧ gapOk lo hi

theorem chain_good {h : Nat} (ih : ∀ (c : Node h) lo hi, Ord h c lo hi → Good (abs h c) lo hi)
    {ks : List Key} {cs : List (Node h)} {lo hi : Option Key} (hc : Chain (Ord h) ks cs lo hi) :
    Good (flat h cs) lo hi := by
  induction ks generalizing cs lo with
  | nil =>
    match cs, hc with
    | [c], hc => simpa using ih c lo hi hc
  | cons k ks ihk =>
    match cs, hc with
    | c :: cs, hc =>
      obtain ⟨s1, b1, g1⟩ := ih c lo (some k) hc.1
      obtain ⟨s2, b2, g2⟩ := ihk hc.2
      refine ⟨?_, ?_, gapOk_trans g1 g2⟩
      · rw [flat_cons]
        refine List.pairwise_append.2 ⟨s1, s2, ?_⟩
        intro a ha b hb
        exact Lex.lt_of_lt_of_le (b1 a ha).2 (b2 b hb).1
      · intro e he
        rw [flat_cons] at he
        rcases List.mem_append.1 he with he | he
        · exact ⟨(b1 e he).1, ubOk_of_gap (b1 e he).2 g2⟩
        · exact ⟨lbOk_of_gap g1 (b2 e he).1, (b2 e he).2⟩

/-- `Ord` ⇒ sorted abstraction within the bounds, non-inverted interval. -/
theorem Ord.good : ∀ {h : Nat} {c : Node h} {lo hi : Option Key}, Ord h c lo hi → Good (abs h c) lo hi
  | 0, _, _, _, hc => hc
  | h + 1, c, _, _, hc => by
    have : Good (flat h (c : Inner (Node h)).kids) _ _ :=
      chain_good (fun c lo hi hc => Ord.good hc) hc.1
    exact this

theorem Ord.sorted {h : Nat} {c : Node h} {lo hi : Option Key} (hc : Ord h c lo hi) :
    OMap.Sorted (abs h c) := hc.good.1
theorem Ord.bounds {h : Nat} {c : Node h} {lo hi : Option Key} (hc : Ord h c lo hi) :
    ∀ e ∈ abs h c, lbOk lo e.1 ∧ ubOk hi e.1 := hc.good.2.1
theorem Ord.gap {h : Nat} {c : Node h} {lo hi : Option Key} (hc : Ord h c lo hi) :
    gapOk lo hi := hc.good.2.2

theorem Ord.keys_sorted {h : Nat} {n : Inner (Node h)} {lo hi : Option Key}
    (hc : Ord (h + 1) n lo hi) : n.keys.Pairwise (· ≤ ·) :=
  (Chain.keys_sorted (fun _ _ _ hp => Ord.gap hp) hc.1).1

theorem chain_size {h : Nat}
    (ih : ∀ (c : Node h) lo hi, Ord h c lo hi → nodeSize h c = (abs h c).length)
    {ks : List Key} {cs : List (Node h)} {lo hi : Option Key} (hc : Chain (Ord h) ks cs lo hi) :
    (cs.map (nodeSize h)).sum = (flat h cs).length := by
  induction ks generalizing cs lo with
  | nil =>
    match cs, hc with
    | [d], hc => simp [ih d lo hi hc]
  | cons k ks ihk =>
    match cs, hc with
    | d :: cs, hc =>
      simp only [List.map_cons, List.sum_cons, flat_cons, List.length_append]
      rw [ih d lo (some k) hc.1, ihk hc.2]

/-- cached sizes are exact: `nodeSize = |abs|`. -/
theorem Ord.size_eq : ∀ {h : Nat} {c : Node h} {lo hi : Option Key}, Ord h c lo hi →
    nodeSize h c = (abs h c).length
  | 0, _, _, _, _ => rfl
  | h + 1, c, lo, hi, hc => by
    have hs : (c : Inner (Node h)).sizes = (c : Inner (Node h)).kids.map (nodeSize h) := hc.2
    show (c : Inner (Node h)).sizes.sum = (flat h (c : Inner (Node h)).kids).length
    rw [hs]
    exact chain_size (fun c lo hi hc => Ord.size_eq hc) hc.1

/-- everything in front of the child a key is routed to is smaller than the key. -/
theorem pre_lt {h : Nat} {K1 : List Key} {C1 : List (Node h)} {lo : Option Key} {key : Key}
    (hp : Pre (Ord h) K1 C1 lo) (hk : ∀ x ∈ K1, x ≤ key) : ∀ e ∈ flat h C1, e.1 < key := by
  induction K1 generalizing C1 lo with
  | nil =>
    match C1, hp with
    | [], _ => simp
  | cons k K1 ih =>
    match C1, hp with
    | c :: C1, hp =>
      intro e he
      rw [flat_cons] at he
      rcases List.mem_append.1 he with he | he
      · exact Lex.lt_of_lt_of_le (hp.1.bounds e he).2 (hk k (by simp))
      · exact ih hp.2 (fun x hx => hk x (by simp [hx])) e he

/-- everything behind the child a key is routed to is greater than the key. -/
theorem post_gt {h : Nat} {K2 : List Key} {C2 : List (Node h)} {hi : Option Key} {key : Key}
    (hp : Post (Ord h) K2 C2 hi) (hk : ∀ x ∈ K2, key < x) : ∀ e ∈ flat h C2, key < e.1 := by
  induction K2 generalizing C2 with
  | nil =>
    match C2, hp with
    | [], _ => simp
  | cons k K2 ih =>
    match C2, hp with
    | c :: C2, hp =>
      intro e he
      rw [flat_cons] at he
      rcases List.mem_append.1 he with he | he
      · exact Lex.lt_of_lt_of_le (hk k (by simp)) (hp.1.bounds e he).1
      · exact ih hp.2 (fun x hx => hk x (by simp [hx])) e he

end GnoVerif.C23
