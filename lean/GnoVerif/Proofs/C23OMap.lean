/-
Proofs.C23OMap — the ordered-map operations of Spec.OMap on lists given as
`smaller part ++ middle ++ greater part`, and the decomposition of a sorted leaf
around the position found by `searchLeaf`.
-/
import GnoVerif.Proofs.C23Search
import GnoVerif.Proofs.C23Chain

namespace GnoVerif.C23
open GnoVerif

variable {α : Type}

theorem oset_all_gt {C : OMapOf α} {k : Bytes} (v : α) (h : ∀ x ∈ C, k < x.1) :
    OMap.set C k v = (k, v) :: C := by
  cases C with
  | nil => rfl
  | cons p C =>
    obtain ⟨k0, v0⟩ := p
    have : k < k0 := h (k0, v0) (by simp)
    simp [OMap.set, this]

theorem oset_append_lt {A C : OMapOf α} {k : Bytes} (v : α) (h : ∀ x ∈ A, x.1 < k) :
    OMap.set (A ++ C) k v = A ++ OMap.set C k v := by
  induction A with
  | nil => rfl
  | cons p A ih =>
    obtain ⟨k0, v0⟩ := p
    have h0 : k0 < k := h (k0, v0) (by simp)
    have h1 : ¬ k < k0 := Lex.lt_asymm h0
    have h2 : k ≠ k0 := (Lex.ne_of_lt h0).symm
    simp only [List.cons_append, OMap.set, h1, h2, if_false]
    rw [ih (fun x hx => h x (by simp [hx]))]

theorem oset_append_gt {M R : OMapOf α} {k : Bytes} (v : α) (h : ∀ x ∈ R, k < x.1) :
    OMap.set (M ++ R) k v = OMap.set M k v ++ R := by
  induction M with
  | nil => simpa [OMap.set] using oset_all_gt v h
  | cons p M ih =>
    obtain ⟨k0, v0⟩ := p
    simp only [List.cons_append, OMap.set]
    split
    · rfl
    · split
      · rfl
      · rw [ih]; rfl

theorem oset_head_eq (k : Bytes) (v0 v : α) (C : OMapOf α) :
    OMap.set ((k, v0) :: C) k v = (k, v) :: C := by
  simp [OMap.set, Lex.lt_irrefl]

theorem oget_append_lt {A C : OMapOf α} {k : Bytes} (h : ∀ x ∈ A, x.1 < k) :
    OMap.get (A ++ C) k = OMap.get C k := by
  induction A with
  | nil => rfl
  | cons p A ih =>
    obtain ⟨k0, v0⟩ := p
    have h0 : k0 ≠ k := Lex.ne_of_lt (h (k0, v0) (by simp))
    simp only [List.cons_append, OMap.get_cons, h0, if_false]
    exact ih (fun x hx => h x (by simp [hx]))

theorem oget_all_gt {C : OMapOf α} {k : Bytes} (h : ∀ x ∈ C, k < x.1) : OMap.get C k = none :=
  OMap.get_eq_none_of_lt h

theorem oget_append_gt {M R : OMapOf α} {k : Bytes} (h : ∀ x ∈ R, k < x.1) :
    OMap.get (M ++ R) k = OMap.get M k := by
  induction M with
  | nil => simpa using oget_all_gt h
  | cons p M ih =>
    obtain ⟨k0, v0⟩ := p
    simp only [List.cons_append, OMap.get_cons, ih]

theorem odel_append (A C : OMapOf α) (k : Bytes) :
    OMap.del (A ++ C) k = OMap.del A k ++ OMap.del C k := by
  simp [OMap.del]

theorem odel_all_ne {A : OMapOf α} {k : Bytes} (h : ∀ x ∈ A, x.1 ≠ k) : OMap.del A k = A := by
  simp only [OMap.del]
  exact List.filter_eq_self.2 (fun x hx => by simpa using h x hx)

theorem odel_head_eq {C : OMapOf α} (k : Bytes) (v0 : α) (h : ∀ x ∈ C, k < x.1) :
    OMap.del ((k, v0) :: C) k = C := by
  have hC : OMap.del C k = C := odel_all_ne (fun x hx => (Lex.ne_of_lt (h x hx)).symm)
  have : OMap.del ((k, v0) :: C) k = OMap.del C k := by
    simp [OMap.del, List.filter_cons]
  rw [this, hC]

theorem oset_length {m : OMapOf α} (hs : OMap.Sorted m) (k : Bytes) (v : α) :
    (OMap.set m k v).length = if (OMap.get m k).isSome then m.length else m.length + 1 := by
  induction m with
  | nil => simp [OMap.set]
  | cons p m ih =>
    obtain ⟨k0, v0⟩ := p
    have hs' := List.pairwise_cons.1 hs
    simp only [OMap.set, OMap.get_cons]
    split
    · rename_i h
      have hne : k0 ≠ k := (Lex.ne_of_lt h).symm
      have hg : OMap.get m k = none :=
        OMap.get_eq_none_of_lt (fun p hp => Lex.lt_trans h (hs'.1 p hp))
      simp [hne, hg]
    · split
      · rename_i h1 h2; subst h2; simp
      · rename_i h1 h2
        have : k0 ≠ k := fun h => h2 h.symm
        simp only [this, if_false, List.length_cons, ih hs'.2]
        split <;> rfl

theorem odel_length {m : OMapOf α} (hs : OMap.Sorted m) (k : Bytes) :
    (OMap.del m k).length = if (OMap.get m k).isSome then m.length - 1 else m.length := by
  induction m with
  | nil => simp [OMap.del]
  | cons p m ih =>
    obtain ⟨k0, v0⟩ := p
    have hs' := List.pairwise_cons.1 hs
    by_cases h : k0 = k
    · subst h
      rw [odel_head_eq k0 v0 (fun x hx => hs'.1 x hx)]
      simp [OMap.get_cons]
    · have hd : OMap.del ((k0, v0) :: m) k = (k0, v0) :: OMap.del m k := by
        simp [OMap.del, List.filter_cons, h]
      rw [hd, OMap.get_cons]
      simp only [h, if_false, List.length_cons, ih hs'.2]
      split
      · rename_i hg
        have : m ≠ [] := by
          intro hm; subst hm; simp at hg
        have : 0 < m.length := List.length_pos_iff.2 this
        omega
      · rfl

/-! ### a sorted leaf around the position found by `searchLeaf` -/

theorem sorted_keys {es : List Entry} (hs : OMap.Sorted es) : (es.map (·.1)).Pairwise (· < ·) := by
  simpa [OMap.Sorted, List.pairwise_map] using hs

theorem getD_map_fst (es : List Entry) (j : Nat) (h : j < es.length) :
    (es.map (·.1)).getD j [] = es[j].1 := by
  simp [List.getD_eq_getElem?_getD, h]

/-- decomposition of a sorted leaf at `searchLeaf`'s answer. -/
theorem searchLeaf_spec {es : List Entry} (hs : OMap.Sorted es) (key : Key) :
    (searchLeaf ⟨es⟩ key).1 ≤ es.length ∧
    (∀ x ∈ es.take (searchLeaf ⟨es⟩ key).1, x.1 < key) ∧
    ((searchLeaf ⟨es⟩ key).2 = true →
      ∃ v0, es = es.take (searchLeaf ⟨es⟩ key).1 ++ (key, v0) :: es.drop ((searchLeaf ⟨es⟩ key).1 + 1) ∧
        ∀ x ∈ es.drop ((searchLeaf ⟨es⟩ key).1 + 1), key < x.1) ∧
    ((searchLeaf ⟨es⟩ key).2 = false → ∀ x ∈ es.drop (searchLeaf ⟨es⟩ key).1, key < x.1) := by
  have hk := sorted_keys hs
  have h := searchLeafGo_spec (es.map (·.1)) key hk 0 es.length (Nat.zero_le _) (by simp)
    (fun j hj => absurd hj (Nat.not_lt_zero _)) (fun j h1 h2 => absurd h2 (by simp; omega))
  simp only [searchLeaf]
  generalize searchLeafGo (es.map (·.1)) key 0 es.length = r at h
  obtain ⟨pos, found⟩ := r
  simp only [List.length_map] at h
  obtain ⟨_, hle, hL, hT, hF⟩ := h
  refine ⟨hle, ?_, ?_, ?_⟩
  · intro x hx
    obtain ⟨j, hj, rfl⟩ := List.mem_iff_getElem.1 hx
    simp only [List.length_take] at hj
    have := hL j (by omega)
    rw [getD_map_fst es j (by omega)] at this
    simpa [List.getElem_take] using this
  · intro hf
    obtain ⟨hlt, hkey⟩ := hT hf
    rw [getD_map_fst es pos hlt] at hkey
    refine ⟨es[pos].2, ?_, ?_⟩
    · have := split_at es pos hlt
      rw [← hkey]
      exact this
    · intro x hx
      obtain ⟨j, hj, rfl⟩ := List.mem_iff_getElem.1 hx
      simp only [List.length_drop] at hj
      have := (List.pairwise_iff_getElem.1 hs) pos (pos + 1 + j) hlt (by omega) (by omega)
      rw [hkey] at this
      simpa [List.getElem_drop] using this
  · intro hf x hx
    obtain ⟨j, hj, rfl⟩ := List.mem_iff_getElem.1 hx
    simp only [List.length_drop] at hj
    have := hF hf (pos + j) (by omega) (by omega)
    rw [getD_map_fst es (pos + j) (by omega)] at this
    simpa [List.getElem_drop] using this

end GnoVerif.C23
