import GnoVerif.Proofs.C41Load
import GnoVerif.Proofs.C41Block
import GnoVerif.Model.C37
/-! Concrete data for the non-vacuity examples of Props/C41.lean. -/
namespace GnoVerif.C41.Ex

open GnoVerif.C41

/-- toy validator sets: a number that `inc1` counts up -/
def incNat (n : Nat) : Except String Nat := .ok (n + 1)

def pA : Params := ⟨some ⟨1, 2, 3, -1, 5⟩, some ["ed25519"]⟩
def pB : Params := ⟨some ⟨9, 9, 9, 9, 9⟩, none⟩

/-- a chain that starts two blocks below the first checkpoint (InitialHeight 99998) and crosses it:
block 99999 changes the validator set (new set 700, in effect from 100001) and the params. -/
def g0 : St Nat := ⟨99997, 99998, some 10, some 11, 99998, pA, 99998⟩
def g1 : St Nat := ⟨99998, 99998, some 11, some 12, 99998, pA, 99998⟩
def g2 : St Nat := ⟨99999, 99998, some 12, some 700, 100001, pB, 100000⟩
def g3 : St Nat := ⟨100000, 99998, some 700, some 701, 100001, pB, 100000⟩
def g4 : St Nat := ⟨100001, 99998, some 701, some 702, 100001, pB, 100000⟩
def hist : List (St Nat) := [g4, g3, g2, g1, g0]

theorem hist_chain : Chain incNat hist := by
  refine .next (.next (.next (.next (.genesis ?_) ?_) ?_) ?_) ?_
  · exact ⟨by decide, by decide, by decide, by decide, 10, 11, rfl, rfl, rfl⟩
  · exact ⟨by decide, rfl, rfl, ⟨11, 12, rfl, rfl, Or.inl ⟨by decide, rfl⟩⟩, Or.inl ⟨by decide, rfl⟩⟩
  · exact ⟨by decide, rfl, rfl, ⟨12, 700, rfl, rfl, Or.inr (by decide)⟩, Or.inr (by decide)⟩
  · exact ⟨by decide, rfl, rfl, ⟨700, 701, rfl, rfl, Or.inl ⟨by decide, rfl⟩⟩, Or.inl ⟨by decide, rfl⟩⟩
  · exact ⟨by decide, rfl, rfl, ⟨701, 702, rfl, rfl, Or.inl ⟨by decide, rfl⟩⟩, Or.inl ⟨by decide, rfl⟩⟩

/-- blocks for the block-store examples -/
def b1 : Block := ⟨1, 7, .empty⟩
def b2 : Block := ⟨2, 8, .tok 1⟩
def ops : List BOp :=
  [.save (some b1) 2 none (.tok 1), .save none 1 none .empty, .save (some b2) 3 (some 1) (.tok 2)]
def opsAfter : List BOp := [.reopen, .save (some ⟨4, 0, .tok 2⟩) 1 none (.tok 3), .save (some ⟨3, 9, .nil⟩) 2 none (.tok 3)]

/-- C37 sets of the (fixed) replay defect: the set stored at height 5 of the witness history
(genesis powers 10,19,2; block 3 lowers validator #1 to power 1) -/
def w5 : GnoVerif.C37.VSet := ⟨[⟨0, 10, 6⟩, ⟨1, 1, -16⟩, ⟨2, 2, 10⟩], 0, some 0⟩

def prios (r : Except GnoVerif.C37.Err GnoVerif.C37.VSet) : Option (List Int × Option Nat) :=
  match r with
  | .ok s => some (s.vals.map (·.prio), s.proposer)
  | .error _ => none

def twice (s : GnoVerif.C37.VSet) : Except GnoVerif.C37.Err GnoVerif.C37.VSet :=
  match GnoVerif.C37.opInc 1 s with
  | .ok s' => GnoVerif.C37.opInc 1 s'
  | .error e => .error e

end GnoVerif.C41.Ex
