import GnoVerif.Proofs.C06Marks
/-!
C06 — one realm transaction in the abstract: any sequence of slot writes (each
followed by its `DidUpdate`) on objects of the executing realm, then
`FinalizeRealmTransaction`, keeps every reference count exact.
-/
namespace GnoVerif.C06
open State

/-- what a write never changes: heap size and, per object, number of slots, realm stamp,
    deleted flag, id time, kind -/
def SameShape (s s' : State) : Prop :=
  s'.heap.length = s.heap.length ∧
  ∀ x, (s'.get x).kids.length = (s.get x).kids.length ∧ (s'.get x).pkg = (s.get x).pkg ∧
       (s'.get x).deleted = (s.get x).deleted ∧ (s'.get x).time = (s.get x).time

theorem SameShape.refl (s : State) : SameShape s s := ⟨rfl, fun _ => ⟨rfl, rfl, rfl, rfl⟩⟩

theorem SameShape.trans {s1 s2 s3 : State} (h1 : SameShape s1 s2) (h2 : SameShape s2 s3) : SameShape s1 s3 :=
  ⟨h2.1.trans h1.1, fun x =>
    ⟨(h2.2 x).1.trans (h1.2 x).1, (h2.2 x).2.1.trans (h1.2 x).2.1, (h2.2 x).2.2.1.trans (h1.2 x).2.2.1,
     (h2.2 x).2.2.2.trans (h1.2 x).2.2.2⟩⟩

theorem sameShape_modify (s : State) (a : Nat) (f : Obj → Obj)
    (hf : ∀ o, (f o).kids.length = o.kids.length ∧ (f o).pkg = o.pkg ∧ (f o).deleted = o.deleted ∧ (f o).time = o.time) :
    SameShape s (s.modify a f) := by
  refine ⟨length_modify s a f, fun x => ?_⟩
  rw [get_modify]
  split
  · rename_i h; rw [h.1]; exact hf _
  · exact ⟨rfl, rfl, rfl, rfl⟩

theorem sameShape_modMarks (s : State) (r : Nat) (f : Marks → Marks) : SameShape s (s.modMarks r f) :=
  ⟨rfl, fun _ => ⟨rfl, rfl, rfl, rfl⟩⟩

theorem sameShape_markDirty (s : State) (r a : Nat) : SameShape s (markDirty s r a) := by
  unfold markDirty
  split
  · exact SameShape.refl s
  · split
    · exact SameShape.refl s
    · exact (sameShape_modify s a _ (by intro o; exact ⟨rfl, rfl, rfl, rfl⟩)).trans (sameShape_modMarks _ r _)

theorem sameShape_markNewReal (s : State) (r a : Nat) : SameShape s (markNewReal s r a) := by
  unfold markNewReal
  split
  · exact SameShape.refl s
  · exact (sameShape_modify s a _ (by intro o; exact ⟨rfl, rfl, rfl, rfl⟩)).trans (sameShape_modMarks _ r _)

theorem sameShape_markNewDeleted (s : State) (r a : Nat) : SameShape s (markNewDeleted s r a) := by
  unfold markNewDeleted
  split
  · exact SameShape.refl s
  · exact (sameShape_modify s a _ (by intro o; exact ⟨rfl, rfl, rfl, rfl⟩)).trans (sameShape_modMarks _ r _)

theorem sameShape_markNewEscaped (s : State) (r a : Nat) : SameShape s (markNewEscaped s r a) := by
  unfold markNewEscaped
  split
  · exact SameShape.refl s
  · exact (sameShape_modify s a _ (by intro o; exact ⟨rfl, rfl, rfl, rfl⟩)).trans (sameShape_modMarks _ r _)

theorem sameShape_didUpdateCo (s : State) (r po c : Nat) : SameShape s (didUpdateCo s r po c) := by
  unfold didUpdateCo
  simp only []
  have h0 : SameShape s (incRc s c) := sameShape_modify s c _ (by intro o; exact ⟨rfl, rfl, rfl, rfl⟩)
  have h1 : SameShape s (if ((incRc s c).get c).rc > 1 ∧ ¬ ((incRc s c).get c).escaped = true
      then markNewEscaped (incRc s c) r c else incRc s c) := by
    split
    · exact h0.trans (sameShape_markNewEscaped _ _ _)
    · exact h0
  generalize (if ((incRc s c).get c).rc > 1 ∧ ¬ ((incRc s c).get c).escaped = true
      then markNewEscaped (incRc s c) r c else incRc s c) = s1 at h1 ⊢
  split
  · exact h1.trans (sameShape_markDirty _ _ _)
  · have hso : SameShape s1 (setOwner s1 c (some po)) :=
      sameShape_modify s1 c (fun o => { o with owner := some po }) (by intro o; exact ⟨rfl, rfl, rfl, rfl⟩)
    exact h1.trans (hso.trans (sameShape_markNewReal _ _ _))

theorem sameShape_didUpdateXo (s : State) (r x : Nat) : SameShape s (didUpdateXo s r x) := by
  unfold didUpdateXo
  simp only []
  have h0 : SameShape s (decRc s x) := sameShape_modify s x _ (by intro o; exact ⟨rfl, rfl, rfl, rfl⟩)
  split
  · split
    · exact h0.trans (sameShape_markNewDeleted _ _ _)
    · exact h0
  · split
    · exact h0.trans (sameShape_markDirty _ _ _)
    · exact h0

theorem sameShape_didUpdate (s : State) (r po : Nat) (xo co : Option Nat) : SameShape s (didUpdate s r po xo co) := by
  by_cases hreal : s.isReal po = true
  · by_cases hp : (s.get po).pkg = r
    · have h0 := sameShape_markDirty s r po
      cases co with
      | none =>
        cases xo with
        | none =>
          have e : didUpdate s r po none none = markDirty s r po := by simp [didUpdate, hreal, hp]
          rw [e]; exact h0
        | some x =>
          have e : didUpdate s r po (some x) none = didUpdateXo (markDirty s r po) r x := by
            simp [didUpdate, hreal, hp]
          rw [e]; exact h0.trans (sameShape_didUpdateXo _ r x)
      | some c =>
        have h1 := h0.trans (sameShape_didUpdateCo (markDirty s r po) r po c)
        cases xo with
        | none =>
          have e : didUpdate s r po none (some c) = didUpdateCo (markDirty s r po) r po c := by
            simp [didUpdate, hreal, hp]
          rw [e]; exact h1
        | some x =>
          have e : didUpdate s r po (some x) (some c) = didUpdateXo (didUpdateCo (markDirty s r po) r po c) r x := by
            simp [didUpdate, hreal, hp]
          rw [e]; exact h1.trans (sameShape_didUpdateXo _ r x)
    · have e : didUpdate s r po xo co = s.fail := by simp [didUpdate, hreal, hp]
      rw [e]; exact ⟨rfl, fun _ => ⟨rfl, rfl, rfl, rfl⟩⟩
  · have hreal' : s.isReal po = false := by simpa using hreal
    have e : didUpdate s r po xo co = s := by simp [didUpdate, hreal']
    rw [e]; exact SameShape.refl s

theorem sameShape_assign (s : State) (cur po i : Nat) (v : Option Nat) : SameShape s (assign s cur po i v) := by
  unfold assign
  simp only []
  have h0 : SameShape s (setSlot s po i v) :=
    sameShape_modify s po (fun o => { o with kids := o.kids.set i v }) (by intro o; exact ⟨by simp, rfl, rfl, rfl⟩)
  exact h0.trans (sameShape_didUpdate _ cur po _ v)

/-! ### a transaction in the abstract -/

/-- one write `po.slot[i] = v` -/
structure Write where
  po : Nat
  i : Nat
  v : Option Nat

/-- the write is one the VM lets realm `r` do: the slot exists, the target is an object of the
    heap, and an object that already has an id belongs to `r` and is not deleted -/
def Write.valid (s : State) (r : Nat) (w : Write) : Prop :=
  w.po < s.heap.length ∧ w.i < (s.get w.po).kids.length ∧ (∀ c, w.v = some c → c < s.heap.length) ∧
  (s.isReal w.po = true → (s.get w.po).pkg = r ∧ (s.get w.po).deleted = false)

theorem Write.valid_shape {s s' : State} (h : SameShape s s') (r : Nat) (w : Write) (hv : w.valid s r) : w.valid s' r := by
  obtain ⟨h1, h2, h3, h4⟩ := hv
  refine ⟨by rw [h.1]; exact h1, by rw [(h.2 w.po).1]; exact h2, fun c hc => by rw [h.1]; exact h3 c hc, fun hr => ?_⟩
  have : s.isReal w.po = true := by
    unfold State.isReal at hr ⊢
    rw [← (h.2 w.po).2.2.2]; exact hr
  rw [(h.2 w.po).2.1, (h.2 w.po).2.2.1]
  exact h4 this

def applyWrites (s : State) (r : Nat) (ws : List Write) : State :=
  ws.foldl (fun s w => assign s r w.po w.i w.v) s

/-- the invariant of the body of a transaction -/
structure InTx (s : State) (r : Nat) : Prop where
  wf : WF s
  rci : RCI s fun _ => 0
  marks : MarkInv s r

theorem assign_inTx (s : State) (r : Nat) (w : Write) (h : InTx s r) (hv : w.valid s r) :
    InTx (assign s r w.po w.i w.v) r := by
  obtain ⟨h1, h2, h3, h4⟩ := hv
  obtain ⟨_, w', r'⟩ := assign_keeps s r w.po w.i w.v h.wf h.rci h1 h2 h3 h4
  refine ⟨w', r', ?_⟩
  unfold assign
  simp only []
  -- the slot write is quiet for the marks; then DidUpdate
  have q : Quiet s (setSlot s w.po w.i w.v) r → MarkInv (setSlot s w.po w.i w.v) r := fun q => q.markInv h.marks
  have m1 : MarkInv (setSlot s w.po w.i w.v) r := by
    refine ⟨h.marks.realm, fun x hx => ?_, fun x hu hr => ?_, fun a ha => ?_, fun a ha => ?_⟩
    · apply h.marks.flag_listed x
      have : ((setSlot s w.po w.i w.v).get x).newReal = (s.get x).newReal :=
        get_newReal_modify s w.po _ (by intro o; rfl) x
      rw [← this]; exact hx
    · rw [isReal_setSlot] at hu
      have : ((setSlot s w.po w.i w.v).get x).rc = (s.get x).rc := by
        rw [get_setSlot]
        split
        · rename_i h; rw [h.1]
        · rfl
      rw [this] at hr
      exact h.marks.unreal_marked x hu hr
    · rw [isReal_setSlot]; exact h.marks.deleted_real a ha
    · rw [length_setSlot]; exact h.marks.created_in_range a ha
  exact markInv_didUpdate _ r w.po _ w.v m1 (fun c hc => by rw [length_setSlot]; exact h3 c hc)

theorem applyWrites_inTx (r : Nat) : ∀ (ws : List Write) (s : State), InTx s r → (∀ w ∈ ws, w.valid s r) →
    InTx (applyWrites s r ws) r ∧ SameShape s (applyWrites s r ws) := by
  intro ws
  induction ws with
  | nil => intro s h _; exact ⟨h, SameShape.refl s⟩
  | cons w ws ih =>
    intro s h hv
    have h1 := assign_inTx s r w h (hv w List.mem_cons_self)
    have sh := sameShape_assign s r w.po w.i w.v
    obtain ⟨h2, sh2⟩ := ih _ h1 (fun w' hw' => Write.valid_shape sh r w' (hv w' (List.mem_cons_of_mem _ hw')))
    exact ⟨h2, sh.trans sh2⟩

theorem inTx_preFinal {s : State} {r : Nat} (h : InTx s r) : PreFinal s r :=
  ⟨h.wf, h.rci, h.marks.created_in_range, h.marks.unreal_marked, h.marks.deleted_real⟩

/-- Any sequence of writes of realm `r` followed by FinalizeRealmTransaction keeps every count exact. -/
theorem transaction_keeps_refcounts (s : State) (r : Nat) (ws : List Write) (h : InTx s r)
    (hv : ∀ w ∈ ws, w.valid s r) :
    WF (finalize (applyWrites s r ws) r) ∧ RCI (finalize (applyWrites s r ws) r) fun _ => 0 :=
  (finalize_keeps_of_preFinal _ r (inTx_preFinal (applyWrites_inTx r ws s h hv).1)).2

end GnoVerif.C06
