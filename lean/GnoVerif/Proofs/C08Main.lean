import GnoVerif.Proofs.C08Deposit
/-! C08 — assembling the message-level facts: every debit of the final event log is
authorised, balances follow the log, supplies move only under the issuing realm's banker. -/
namespace GnoVerif.C08

/-- the chain's registry of persisted bankers is marked as such -/
def ChainOk (ch : Chain) : Prop :=
  ∀ (bid : Nat) (bi : BankerInfo), ch.persisted[bid]? = some bi → bi.src = .persisted

theorem steps_bankers_prefix {env : Env} {sends : Bool} {a b : St} (h : Steps env sends a b) : ∃ l, b.bankers = a.bankers ++ l := by
  refine steps_inv (fun s => ∃ l, s.bankers = a.bankers ++ l) ?_ h ⟨[], by simp⟩
  intro x y hat ⟨l, hl⟩
  cases hat with
  | tok _ _ => exact ⟨l, hl⟩
  | banker bi _ => exact ⟨l ++ [bi], by simp [hl]⟩
  | move _ _ _ _ _ _ => exact ⟨l, hl⟩
  | supply _ _ _ => exact ⟨l, hl⟩
  | spent _ _ _ => exact ⟨l, hl⟩
  | params _ _ => exact ⟨l, hl⟩

theorem logSum_neg_has_debit : ∀ (log : List Ev) (a : Addr) (d : Str), logSum log a d < 0 →
    ∃ e ∈ log, e.addr = a ∧ e.denom = d ∧ e.amt < 0
  | [], a, d, h => by simp [logSum_nil] at h
  | e :: rest, a, d, h => by
    rw [logSum_cons] at h
    by_cases hh : e.addr = a ∧ e.denom = d
    · by_cases hneg : e.amt < 0
      · exact ⟨e, List.mem_cons_self .., hh.1, hh.2, hneg⟩
      · simp only [hh, and_self, if_true] at h
        obtain ⟨e', he', hx⟩ := logSum_neg_has_debit rest a d (by omega)
        exact ⟨e', List.mem_cons_of_mem _ he', hx⟩
    · simp only [hh, if_false] at h
      obtain ⟨e', he', hx⟩ := logSum_neg_has_debit rest a d (by omega)
      exact ⟨e', List.mem_cons_of_mem _ he', hx⟩

/-- what holds of the running state once a script has finished -/
structure RunFacts (env : Env) (persisted : List BankerInfo) (led0 : Ledger) (log0 : List Ev) (st : St) : Prop where
  toks : ToksInv env st
  bankers : BankersInv persisted.length st
  pfx : ∃ l, st.bankers = persisted ++ l
  log : LogInv log0 st
  bal : BankBal led0 st.bank
  supply : SupplyInv led0 st

theorem RunFacts.steps {env : Env} {sends : Bool} {persisted : List BankerInfo} {led0 : Ledger} {log0 : List Ev} {a b : St}
    (h : Steps env sends a b) (ha : RunFacts env persisted led0 log0 a) : RunFacts env persisted led0 log0 b := by
  obtain ⟨l1, hl1⟩ := ha.pfx
  obtain ⟨l2, hl2⟩ := steps_bankers_prefix h
  have hled : LedgerInv led0 [] b := steps_inv (LedgerInv led0 []) (fun _ _ hat hi => atom_ledgerInv hat hi) h (by
    intro x d; have := ha.bal x d; simp only [logSum_nil]; omega)
  exact {
    toks := steps_inv (ToksInv env) (fun _ _ hat hi => atom_toksInv hat hi) h ha.toks
    bankers := steps_inv (BankersInv persisted.length) (fun _ _ hat hi => atom_bankersInv hat hi) h ha.bankers
    pfx := ⟨l1 ++ l2, by rw [hl2, hl1, List.append_assoc]⟩
    log := steps_inv (LogInv log0) (fun _ _ hat hi => atom_logInv hat hi) h ha.log
    bal := by intro x d; have := hled x d; simp only [logSum_nil] at this; omega
    supply := steps_inv (SupplyInv led0) (fun _ _ hat hi => atom_supplyInv hat hi) h ha.supply }

/-- provenance of a banker of a finished run that is not the readonly one -/
theorem RunFacts.prov {env : Env} {persisted : List BankerInfo} {led0 : Ledger} {log0 : List Ev} {st : St}
    (hf : RunFacts env persisted led0 log0 st) (bid : Nat) (bi : BankerInfo) (hb : st.bankers[bid]? = some bi)
    (hbt : bi.bt ≠ 0) : BankerProv env persisted st.toks bid bi := by
  have hok := hf.bankers bid bi hb
  unfold BankerOk at hok
  split at hok
  · left
    obtain ⟨l, hl⟩ := hf.pfx
    refine ⟨hok, ?_⟩
    rw [hl, List.getElem?_append_left hok] at hb
    exact hb
  · exact absurd hok.1 hbt
  · rename_i t top hsrc
    obtain ⟨ti, h1, h2, h3, _, _, h6, _, _⟩ := hok
    right
    exact ⟨t, top, ti, hsrc, h1, h2, h3, h6, hf.toks t ti h1⟩


/-- what a successful message guarantees -/
structure MsgFacts (env : Env) (persisted : List BankerInfo) (signer : Nat) (w : World) (o : Outcome) : Prop where
  /-- balances changed exactly as the event log says -/
  bal : ∀ a d, o.world.led.bal a d = w.led.bal a d + logSum o.log a d
  /-- every debit of the log is authorised -/
  auth : ∀ e ∈ o.log, e.amt < 0 → Authorised env persisted signer o.diffs o.toks o.bankers e
  /-- a supply changed only under an issue banker bound to the denomination's realm -/
  supply : ∀ d, o.world.led.supply d ≠ w.led.supply d →
    ∃ (bid : Nat) (bi : BankerInfo), o.bankers[bid]? = some bi ∧ bi.bt = 3 ∧ issuable bi.path d = true ∧
      BankerProv env persisted o.toks bid bi

theorem moveOk_authorised {env : Env} {persisted : List BankerInfo} {led0 : Ledger} {log0 : List Ev} {st : St}
    (hf : RunFacts env persisted led0 log0 st) (signer : Nat) (diffs : List (Str × Int)) (e : Ev)
    (hm : MoveOk st.bankers e.addr e.denom e.amt e.cause) (hneg : e.amt < 0) :
    Authorised env persisted signer diffs st.toks st.bankers e := by
  unfold Authorised
  cases hc : e.cause with
  | bankerSend bid =>
    rw [hc] at hm
    obtain ⟨bi, h1, h2, h3⟩ := hm
    exact ⟨bi, h1, h2, h3 hneg, hf.prov bid bi h1 h2⟩
  | mint bid =>
    rw [hc] at hm
    exact absurd hm.1 (by omega)
  | burn bid =>
    rw [hc] at hm
    obtain ⟨bi, h1, h2, h3⟩ := hm
    exact ⟨bi, h1, h2, h3, hf.prov bid bi h1 (by omega)⟩
  | msgSend => rw [hc] at hm; exact absurd hm (by simp [MoveOk])
  | depositLock _ => rw [hc] at hm; exact absurd hm (by simp [MoveOk])
  | depositRefund _ => rw [hc] at hm; exact absurd hm (by simp [MoveOk])
  | bankSend => rw [hc] at hm; exact absurd hm (by simp [MoveOk])

theorem finish_facts (env : Env) (persisted : List BankerInfo) (signer : Nat) (w : World) (maxDeposit : Int)
    (log0 : List Ev) (st : St) (o : Outcome)
    (hf : RunFacts env persisted w.led log0 st)
    (h0 : ∀ e ∈ log0, e.cause = .msgSend ∧ (e.amt < 0 → e.addr = .user signer))
    (h : finish w (.user signer) maxDeposit st = .ok o) : MsgFacts env persisted signer w o := by
  unfold finish at h
  obtain ⟨ds, h1, h2⟩ := bind_ok h
  simp only [pure, Except.pure, Except.ok.injEq] at h2
  subst h2
  obtain ⟨hbal, ⟨ldep, hl, hdep⟩, hsup⟩ := processStorageDeposit_inv w (.user signer) maxDeposit st ds w.led hf.bal h1
  obtain ⟨lexec, hle, hexec⟩ := hf.log
  refine ⟨hbal, ?_, ?_⟩
  · intro e he hneg
    simp only at he
    rw [hl, hle] at he
    rcases List.mem_append.mp he with hd | hr
    · have := hdep e hd
      unfold DepEvOk at this
      unfold Authorised
      split at this
      · rename_i r hc; simp only [hc]; exact this hneg
      · rename_i r hc; simp only [hc]; exact ⟨this.1 hneg, this.2⟩
      · exact absurd this id
    · rcases List.mem_append.mp hr with hx | h00
      · exact moveOk_authorised hf signer _ e (hexec e hx) hneg
      · unfold Authorised
        rw [(h0 e h00).1]
        exact (h0 e h00).2 hneg
  · intro d hd
    simp only at hd
    rw [hsup] at hd
    obtain ⟨bid, bi, hb, hbt, hiss⟩ := hf.supply d hd
    exact ⟨bid, bi, hb, hbt, hiss, hf.prov bid bi hb (by omega)⟩


theorem start_facts (env : Env) (ch : Chain) (hch : ChainOk ch) (w : World) (bank0 : Bank) (o t : TokInfo)
    (hb : BankBal w.led bank0) (hs : bank0.led.supply = w.led.supply)
    (ho : o.kind = .origin ∧ o.prev = none)
    (ht : t.kind = .cur ∧ (t.addr = .pkg t.path ∨ ∃ i, t.addr = .user i ∧ t.path = runPath i)) :
    RunFacts env ch.persisted w.led bank0.log
      { bank := bank0, toks := [o, t], bankers := ch.persisted, spent := [], params := w.params, rmeta := w.rmeta, accum := [] } := by
  refine ⟨?_, ?_, ⟨[], by simp⟩, ⟨[], by simp, by intro e he; cases he⟩, hb, ?_⟩
  · intro i ti hi
    simp only at hi
    match i, hi with
    | 0, hi =>
      simp only [List.getElem?_cons_zero, Option.some.injEq] at hi; subst hi
      unfold TokOk; simp only [ho.1]; exact ho.2
    | 1, hi =>
      simp only [List.getElem?_cons_succ, List.getElem?_cons_zero, Option.some.injEq] at hi; subst hi
      unfold TokOk; simp only [ht.1]; exact ht.2
    | n + 2, hi => simp at hi
  · intro bid bi hbi
    simp only at hbi
    unfold BankerOk
    rw [hch bid bi hbi]
    simp only
    have := (List.getElem?_eq_some_iff.mp hbi).1
    exact this
  · intro d hd
    simp only at hd
    exact absurd (by rw [hs]) hd

/-- MsgCall -/
theorem step_call_facts (ch : Chain) (hch : ChainOk ch) (w : World) (signer : Nat) (realm : Str) (send : Coins)
    (maxDeposit : Int) (prog : List Ins) (o : Outcome)
    (h : step ch w (.call signer realm send maxDeposit prog) = .ok o) :
    MsgFacts (ch.envFor w send) ch.persisted signer w o := by
  simp only [step] at h
  split at h
  · cases h
  · obtain ⟨bank0, h1, h2⟩ := bind_ok h
    simp only [startState, St.addTok, List.nil_append, List.length_nil, List.length_cons, List.cons_append] at h1 h2
    obtain ⟨st1, h3, h4⟩ := bind_ok h2
    have ⟨hb, hn⟩ := sendCoins_spec w.led w.restricted ⟨w.led, []⟩ bank0 (.user signer) (.pkg realm) send .msgSend (BankBal.init w.led) h1
    obtain ⟨⟨l0, hl0, hk0⟩, hs0⟩ := hn
    have hstart := start_facts (ch.envFor w send) ch hch w bank0
      { addr := .user signer, path := [], prev := none, kind := .origin }
      { addr := .pkg realm, path := realm, prev := some 0, kind := .cur }
      hb hs0 ⟨rfl, rfl⟩ ⟨rfl, Or.inl rfl⟩
    have hrun := RunFacts.steps (exec_steps _ _ _ _ _ _ _ h3) hstart
    refine finish_facts (ch.envFor w send) ch.persisted signer w maxDeposit bank0.log st1 o hrun ?_ h4
    intro e he
    rw [hl0] at he
    simp only [List.append_nil] at he
    exact hk0 e he

/-- MsgRun -/
theorem step_run_facts (ch : Chain) (hch : ChainOk ch) (w : World) (signer : Nat) (send : Coins)
    (maxDeposit : Int) (prog : List Ins) (o : Outcome)
    (h : step ch w (.run signer send maxDeposit prog) = .ok o) :
    MsgFacts (ch.envFor w send) ch.persisted signer w o := by
  simp only [step] at h
  split at h
  · cases h
  · split at h
    · cases h
    · obtain ⟨bank0, h1, h2⟩ := bind_ok h
      simp only [startState, St.addTok, List.nil_append, List.length_nil, List.length_cons, List.cons_append] at h1 h2
      obtain ⟨st1, h3, h4⟩ := bind_ok h2
      have ⟨hb, hn⟩ := sendCoins_spec w.led w.restricted ⟨w.led, []⟩ bank0 (.user signer) (.user signer) send .msgSend (BankBal.init w.led) h1
      obtain ⟨⟨l0, hl0, hk0⟩, hs0⟩ := hn
      have hstart := start_facts (ch.envFor w send) ch hch w bank0
        { addr := .user signer, path := runPath signer, prev := none, kind := .origin }
        { addr := .user signer, path := runPath signer, prev := some 0, kind := .cur }
        hb hs0 ⟨rfl, rfl⟩ ⟨rfl, Or.inr ⟨signer, rfl, rfl⟩⟩
      have hrun := RunFacts.steps (exec_steps _ _ _ _ _ _ _ h3) hstart
      refine finish_facts (ch.envFor w send) ch.persisted signer w maxDeposit bank0.log st1 o hrun ?_ h4
      intro e he
      rw [hl0] at he
      simp only [List.append_nil] at he
      exact hk0 e he

/-- bank MsgSend -/
theorem step_send_facts (ch : Chain) (w : World) (signer : Nat) (dst : Str) (amt : Coins) (o : Outcome)
    (h : step ch w (.bankSend signer dst amt) = .ok o) :
    MsgFacts (ch.envFor w []) ch.persisted signer w o := by
  simp only [step] at h
  split at h
  · cases h
  · split at h
    · cases h
    · rename_i d _
      obtain ⟨bank0, h1, h2⟩ := bind_ok h
      simp only [pure, Except.pure, Except.ok.injEq] at h2
      subst h2
      have ⟨hb, hn⟩ := sendCoins_spec w.led w.restricted ⟨w.led, []⟩ bank0 (.user signer) d amt .bankSend (BankBal.init w.led) h1
      obtain ⟨⟨l0, hl0, hk0⟩, hs0⟩ := hn
      refine ⟨hb, ?_, ?_⟩
      · intro e he hneg
        simp only at he
        rw [hl0] at he
        simp only [List.append_nil] at he
        unfold Authorised
        rw [(hk0 e he).1]
        exact (hk0 e he).2 hneg
      · intro dn hd
        simp only at hd
        exact absurd (by rw [hs0]) hd

end GnoVerif.C08
