import GnoVerif.Proofs.C08Bank
/-! C08 — processStorageDeposit: what the storage-deposit step may log. -/
namespace GnoVerif.C08

/-- a storage-deposit event: a lock debits the caller only; a refund debits the realm's own
    deposit address only, and only for a realm whose storage delta of this message is negative -/
def DepEvOk (caller : Addr) (diffs : List (Str × Int)) (e : Ev) : Prop :=
  match e.cause with
  | .depositLock _ => e.amt < 0 → e.addr = caller
  | .depositRefund r => (e.amt < 0 → e.addr = .dep r) ∧ ∃ diff, (r, diff) ∈ diffs ∧ diff < 0
  | _ => False

def DepInv (led0 : Ledger) (log1 : List Ev) (supply1 : Str → Int) (caller : Addr) (diffs : List (Str × Int)) (ds : DepState) : Prop :=
  BankBal led0 ds.bank ∧ (∃ l, ds.bank.log = l ++ log1 ∧ ∀ e ∈ l, DepEvOk caller diffs e) ∧ ds.bank.led.supply = supply1

theorem DepInv.extend {led0 : Ledger} {log1 : List Ev} {supply1 : Str → Int} {caller : Addr} {diffs : List (Str × Int)}
    {ds : DepState} {bank' : Bank} {c : Cause} {src : Addr}
    (h : DepInv led0 log1 supply1 caller diffs ds) (hb : BankBal led0 bank') (hn : NewEvents ds.bank bank' c src)
    (hok : ∀ e : Ev, e.cause = c → (e.amt < 0 → e.addr = src) → DepEvOk caller diffs e) :
    BankBal led0 bank' ∧ (∃ l, bank'.log = l ++ log1 ∧ ∀ e ∈ l, DepEvOk caller diffs e) ∧ bank'.led.supply = supply1 := by
  obtain ⟨_, ⟨l, hl, hk⟩, hs⟩ := h
  obtain ⟨⟨l2, hl2, hk2⟩, hs2⟩ := hn
  refine ⟨hb, ⟨l2 ++ l, by rw [hl2, hl, List.append_assoc], ?_⟩, by rw [hs2, hs]⟩
  intro e he
  rcases List.mem_append.mp he with h1 | h1
  · exact hok e (hk2 e h1).1 (hk2 e h1).2
  · exact hk e h1

theorem flushMeta_bank (accum : List (Str × Accum)) (path : Str) (ds : DepState) : (flushMeta accum path ds).bank = ds.bank := by
  unfold flushMeta; split <;> rfl

theorem depositStep_inv (w : World) (caller : Addr) (accum : List (Str × Accum)) (led0 : Ledger) (log1 : List Ev)
    (supply1 : Str → Int) (diffs : List (Str × Int)) (ds ds' : DepState) (p : Str × Int) (hp : p ∈ diffs)
    (hi : DepInv led0 log1 supply1 caller diffs ds) (h : depositStep w caller accum ds p = .ok ds') :
    DepInv led0 log1 supply1 caller diffs ds' := by
  unfold depositStep at h
  split at h
  · cases h; exact hi
  · split at h
    · cases h; exact hi
    · rename_i rm _
      split at h
      · -- lock
        cases h
        unfold lockStep
        simp only
        split
        · exact hi
        · split
          · exact hi
          · rename_i bank' hsend
            have ⟨hb, hn⟩ := sendUnrestricted_spec led0 ds.bank bank' caller (.dep p.1) _ (.depositLock p.1) hi.1 hsend
            have := hi.extend hb hn (fun e hc hd => by unfold DepEvOk; rw [hc]; exact hd)
            unfold DepInv
            rw [flushMeta_bank]
            exact this
      · -- release
        rename_i hpos
        unfold releaseStep at h
        split at h
        · cases h
        · split at h
          · cases h
          · split at h
            · cases h
            · rename_i bank' hsend
              cases h
              have hneg : p.2 < 0 := by omega
              have ⟨hb, hn⟩ := sendUnrestricted_spec led0 ds.bank bank' (.dep p.1) _ _ (.depositRefund p.1) hi.1 hsend
              have := hi.extend hb hn (fun e hc hd => by
                unfold DepEvOk; rw [hc]; exact ⟨hd, p.2, hp, hneg⟩)
              unfold DepInv
              rw [flushMeta_bank]
              exact this

theorem depositLoop_inv (w : World) (caller : Addr) (accum : List (Str × Accum)) (led0 : Ledger) (log1 : List Ev)
    (supply1 : Str → Int) (diffs : List (Str × Int)) :
    ∀ (rest : List (Str × Int)) (ds ds' : DepState), (∀ p ∈ rest, p ∈ diffs) →
      DepInv led0 log1 supply1 caller diffs ds → depositLoop w caller accum rest ds = .ok ds' →
      DepInv led0 log1 supply1 caller diffs ds'
  | [], ds, ds', _, hi, h => by simp only [depositLoop] at h; cases h; exact hi
  | p :: rest, ds, ds', hsub, hi, h => by
    simp only [depositLoop] at h
    obtain ⟨ds1, h1, h2⟩ := bind_ok h
    exact depositLoop_inv w caller accum led0 log1 supply1 diffs rest ds1 ds'
      (fun q hq => hsub q (List.mem_cons_of_mem _ hq))
      (depositStep_inv w caller accum led0 log1 supply1 diffs ds ds1 p (hsub p (List.mem_cons_self ..)) hi h1) h2

theorem processStorageDeposit_inv (w : World) (caller : Addr) (maxDeposit : Int) (st : St) (ds : DepState) (led0 : Ledger)
    (hb : BankBal led0 st.bank) (h : processStorageDeposit w caller maxDeposit st = .ok ds) :
    DepInv led0 st.bank.log st.bank.led.supply caller (storageDiffs st) ds := by
  unfold processStorageDeposit at h
  simp only at h
  obtain ⟨ds1, h1, h2⟩ := bind_ok h
  have := depositLoop_inv w caller st.accum led0 st.bank.log st.bank.led.supply (storageDiffs st) (storageDiffs st) _ ds1
    (fun p hp => hp) ⟨hb, ⟨[], by simp, by intro e he; cases he⟩, rfl⟩ h1
  split at h2
  · cases h2
  · split at h2
    · cases h2
    · split at h2
      · cases h2
      · simp only [pure, Except.pure, Except.ok.injEq] at h2
        rw [← h2]; exact this

end GnoVerif.C08
