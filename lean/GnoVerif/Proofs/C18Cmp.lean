import GnoVerif.Proofs.C18Canon
/-! `AmountOf` (binary search) and the comparison helpers on valid sets. -/
namespace GnoVerif.C18
open GnoVerif

theorem val_append (xs ys : Coins) (d : Denom) : val (xs ++ ys) d = val xs d + val ys d := by
  induction xs with
  | nil => simp
  | cons x xs ih => rw [List.cons_append, val_cons, val_cons, ih, Int.add_assoc]

/-- every denomination in `cs` is strictly below `k`. -/
def UpperBound (k : Denom) (cs : Coins) : Prop := ∀ c ∈ cs, dlt c.denom k = true

theorem val_of_upperBound {k : Denom} {cs : Coins} (h : UpperBound k cs) : val cs k = 0 :=
  val_eq_zero_of_not_mem (fun c hc => dlt_ne (h c hc))

theorem split_at {l : Coins} {i : Nat} {c : Coin} (h : l[i]? = some c) :
    l = l.take i ++ c :: l.drop (i + 1) := by
  obtain ⟨hi, rfl⟩ := List.getElem?_eq_some_iff.mp h
  rw [← List.drop_eq_getElem_cons hi, List.take_append_drop]

theorem sorted_append_cons {xs ys : Coins} {c : Coin} (hs : Sorted (xs ++ c :: ys)) :
    Sorted xs ∧ Sorted ys ∧ UpperBound c.denom xs ∧ LowerBound c.denom ys := by
  simp only [Sorted, List.pairwise_append, List.pairwise_cons] at hs
  obtain ⟨h1, ⟨h2, h3⟩, h4⟩ := hs
  exact ⟨h1, h3, fun x hx => h4 x hx c List.mem_cons_self, h2⟩

/-- the binary search of `AmountOf` finds the (unique) coin of a strictly sorted list. -/
theorem amountOfGo_spec (cs : Coins) (d : Denom) : Sorted cs → (amountOfGo cs d).toInt = val cs d := by
  fun_induction amountOfGo cs d with
  | case1 => intro _; rfl
  | case2 c h => intro _; rw [val_cons, if_pos h]; simp
  | case3 c h => intro _; rw [val_cons, if_neg h]; simp
  | case4 c0 c1 rest all mid h =>
    intro _
    have : mid < all.length := by simp only [mid, all, List.length_cons]; omega
    rw [List.getElem?_eq_none_iff] at h
    omega
  | case5 c0 c1 rest all mid c h hlt ih =>
    intro hs
    have e := split_at h
    have hs' : Sorted (all.take mid ++ c :: all.drop (mid + 1)) := by rw [← e]; exact hs
    obtain ⟨h1, _, _, h4⟩ := sorted_append_cons hs'
    rw [ih h1]
    have hv : val all d = val (all.take mid) d + val (c :: all.drop (mid + 1)) d := by
      rw [← val_append, ← e]
    have : val (c :: List.drop (mid + 1) all) d = 0 :=
      val_of_lowerBound (lowerBound_cons.mpr ⟨hlt, LowerBound.trans hlt h4⟩)
    show _ = val all d
    rw [hv, this]; simp
  | case6 c0 c1 rest all mid c h hnlt heq =>
    intro hs
    have e := split_at h
    have hs' : Sorted (all.take mid ++ c :: all.drop (mid + 1)) := by rw [← e]; exact hs
    obtain ⟨_, _, h3, h4⟩ := sorted_append_cons hs'
    have hv : val all d = val (all.take mid) d + val (c :: all.drop (mid + 1)) d := by
      rw [← val_append, ← e]
    show _ = val all d
    rw [hv, val_cons, heq, val_of_upperBound h3, val_of_lowerBound h4, if_pos rfl]; simp
  | case7 c0 c1 rest all mid c h hnlt hne ih =>
    intro hs
    have e := split_at h
    have hs' : Sorted (all.take mid ++ c :: all.drop (mid + 1)) := by rw [← e]; exact hs
    obtain ⟨_, h2, h3, _⟩ := sorted_append_cons hs'
    rw [ih h2]
    have hv : val all d = val (all.take mid) d + val (c :: all.drop (mid + 1)) d := by
      rw [← val_append, ← e]
    show _ = val all d
    have hgt : dlt c.denom d = true := by
      cases hh : dlt c.denom d with
      | true => rfl
      | false => exact absurd (dlt_total (by simpa using hnlt) hh) hne
    have hub : UpperBound d (all.take mid) := fun x hx => dlt_trans (h3 x hx) hgt
    rw [hv, val_cons, val_of_upperBound hub, if_neg (fun e' => hne e'.symm)]; simp

/-- `AmountOf` on a strictly sorted set and a well-formed denom: the denoted amount (never a panic). -/
theorem amountOf_ok {cs : Coins} {d : Denom} (hd : DenomOK d) : amountOf cs d = .ok (amountOfGo cs d) := by
  simp only [amountOf, DenomOK] at hd ⊢
  simp [hd]

theorem amountOf_bad {cs : Coins} {d : Denom} (hd : ¬ DenomOK d) : amountOf cs d = .error .denom := by
  simp only [amountOf, DenomOK] at hd ⊢
  simp [hd]

/-! ### valid sets: membership vs `val` -/

theorem Valid.zeroFree {cs : Coins} (h : Valid cs) : ZeroFree cs := by
  intro c hc e
  have := (h.2 c hc).2
  rw [e] at this
  exact absurd this (by decide)

theorem Valid.canonical {cs : Coins} (h : Valid cs) : Canonical cs := ⟨h.1, h.zeroFree⟩

theorem Valid.val_nonneg {cs : Coins} (h : Valid cs) (d : Denom) : 0 ≤ val cs d := by
  by_cases h0 : val cs d = 0
  · omega
  · obtain ⟨c, hc, e⟩ := exists_mem_of_val_ne_zero h0
    subst e
    rw [val_of_mem h.1 hc]
    exact Int.le_of_lt (h.2 c hc).2

theorem forall_mem_iff_val {B : Coins} (hs : Sorted B) (hz : ZeroFree B) (P : Denom → Int → Prop) :
    (∀ b ∈ B, P b.denom b.amount.toInt) ↔ ∀ d, val B d ≠ 0 → P d (val B d) := by
  constructor
  · intro h d hd
    obtain ⟨c, hc, e⟩ := exists_mem_of_val_ne_zero hd
    subst e
    rw [val_of_mem hs hc]; exact h c hc
  · intro h b hb
    have := h b.denom (by rw [val_of_mem hs hb]; exact toInt_ne_zero (hz b hb))
    rwa [val_of_mem hs hb] at this

theorem exists_mem_iff_val {B : Coins} (hs : Sorted B) (hz : ZeroFree B) (P : Denom → Int → Prop) :
    (∃ b ∈ B, P b.denom b.amount.toInt) ↔ ∃ d, val B d ≠ 0 ∧ P d (val B d) := by
  constructor
  · intro ⟨b, hb, hp⟩
    refine ⟨b.denom, ?_, ?_⟩
    · rw [val_of_mem hs hb]; exact toInt_ne_zero (hz b hb)
    · rw [val_of_mem hs hb]; exact hp
  · intro ⟨d, hd, hp⟩
    obtain ⟨c, hc, e⟩ := exists_mem_of_val_ne_zero hd
    subst e
    rw [val_of_mem hs hc] at hp
    exact ⟨c, hc, hp⟩

theorem beq_zero_iff (a : BitVec 64) : (a == 0#64) = true ↔ a.toInt = 0 := by
  rw [beq_iff_eq]
  constructor
  · intro h; rw [h]; rfl
  · intro h; apply BitVec.toInt_inj.mp; rw [h]; rfl

/-! ### the loops -/

theorem denomsSubsetLoop_spec {A : Coins} (hA : Sorted A) (Bs : Coins) (hB : ∀ b ∈ Bs, DenomOK b.denom) :
    ∃ r, denomsSubsetLoop A Bs = .ok r ∧ (r = true ↔ ∀ b ∈ Bs, val A b.denom ≠ 0) := by
  induction Bs with
  | nil => exact ⟨true, rfl, by simp⟩
  | cons b bs ih =>
    obtain ⟨r, hr, hiff⟩ := ih (fun x hx => hB x (List.mem_cons_of_mem _ hx))
    simp only [denomsSubsetLoop, amountOf_ok (hB b List.mem_cons_self)]
    by_cases hz : (amountOfGo A b.denom == 0#64) = true
    · refine ⟨false, by simp [hz], ?_⟩
      simp only [Bool.false_eq_true, false_iff]
      intro h
      exact h b List.mem_cons_self (by rw [← amountOfGo_spec A b.denom hA]; exact (beq_zero_iff _).mp hz)
    · refine ⟨r, by simp [hz, hr], ?_⟩
      rw [hiff]
      constructor
      · intro h x hx
        rcases List.mem_cons.mp hx with e | hx
        · subst e; rw [← amountOfGo_spec A x.denom hA]; exact fun h0 => hz ((beq_zero_iff _).mpr h0)
        · exact h x hx
      · intro h x hx; exact h x (List.mem_cons_of_mem _ hx)

theorem isAllGTLoop_spec {A : Coins} (hA : Sorted A) (Bs : Coins) (hB : ∀ b ∈ Bs, DenomOK b.denom) :
    ∃ r, isAllGTLoop A Bs = .ok r ∧ (r = true ↔ ∀ b ∈ Bs, b.amount.toInt < val A b.denom) := by
  induction Bs with
  | nil => exact ⟨true, rfl, by simp⟩
  | cons b bs ih =>
    obtain ⟨r, hr, hiff⟩ := ih (fun x hx => hB x (List.mem_cons_of_mem _ hx))
    simp only [isAllGTLoop, amountOf_ok (hB b List.mem_cons_self), BitVec.sle_eq_decide,
      amountOfGo_spec A b.denom hA]
    by_cases hz : val A b.denom ≤ b.amount.toInt
    · refine ⟨false, by simp [hz], ?_⟩
      simp only [Bool.false_eq_true, false_iff]
      intro h
      have := h b List.mem_cons_self
      omega
    · refine ⟨r, by simp [hz, hr], ?_⟩
      rw [hiff]
      constructor
      · intro h x hx
        rcases List.mem_cons.mp hx with e | hx
        · subst e; omega
        · exact h x hx
      · intro h x hx; exact h x (List.mem_cons_of_mem _ hx)

theorem isAllGTELoop_spec {A : Coins} (hA : Sorted A) (Bs : Coins) (hB : ∀ b ∈ Bs, DenomOK b.denom) :
    ∃ r, isAllGTELoop A Bs = .ok r ∧ (r = true ↔ ∀ b ∈ Bs, b.amount.toInt ≤ val A b.denom) := by
  induction Bs with
  | nil => exact ⟨true, rfl, by simp⟩
  | cons b bs ih =>
    obtain ⟨r, hr, hiff⟩ := ih (fun x hx => hB x (List.mem_cons_of_mem _ hx))
    simp only [isAllGTELoop, amountOf_ok (hB b List.mem_cons_self), BitVec.slt_eq_decide,
      amountOfGo_spec A b.denom hA]
    by_cases hz : val A b.denom < b.amount.toInt
    · refine ⟨false, by simp [hz], ?_⟩
      simp only [Bool.false_eq_true, false_iff]
      intro h
      have := h b List.mem_cons_self
      omega
    · refine ⟨r, by simp [hz, hr], ?_⟩
      rw [hiff]
      constructor
      · intro h x hx
        rcases List.mem_cons.mp hx with e | hx
        · subst e; omega
        · exact h x hx
      · intro h x hx; exact h x (List.mem_cons_of_mem _ hx)

theorem isAnyLoop_spec (strict : Bool) {B : Coins} (hB : Sorted B) (As : Coins) (hA : ∀ a ∈ As, DenomOK a.denom) :
    ∃ r, isAnyLoop strict B As = .ok r ∧
      (r = true ↔ ∃ a ∈ As, (if strict then val B a.denom < a.amount.toInt else val B a.denom ≤ a.amount.toInt) ∧
        val B a.denom ≠ 0) := by
  induction As with
  | nil => exact ⟨false, rfl, by simp⟩
  | cons a as ih =>
    obtain ⟨r, hr, hiff⟩ := ih (fun x hx => hA x (List.mem_cons_of_mem _ hx))
    have hne : (amountOfGo B a.denom != 0#64) = true ↔ val B a.denom ≠ 0 := by
      rw [← amountOfGo_spec B a.denom hB, bne_iff_ne, ne_eq, ne_eq, ← beq_zero_iff, beq_iff_eq]
    have hcmp : (if strict = true then (amountOfGo B a.denom).slt a.amount else (amountOfGo B a.denom).sle a.amount) = true ↔
        (if strict = true then val B a.denom < a.amount.toInt else val B a.denom ≤ a.amount.toInt) := by
      rw [← amountOfGo_spec B a.denom hB]
      cases strict <;> simp [BitVec.slt_eq_decide, BitVec.sle_eq_decide]
    simp only [isAnyLoop, amountOf_ok (hA a List.mem_cons_self)]
    by_cases hz : ((if strict = true then (amountOfGo B a.denom).slt a.amount else (amountOfGo B a.denom).sle a.amount) &&
        amountOfGo B a.denom != 0#64) = true
    · refine ⟨true, by rw [if_pos hz], ?_⟩
      simp only [true_iff]
      rw [Bool.and_eq_true] at hz
      exact ⟨a, List.mem_cons_self, hcmp.mp hz.1, hne.mp hz.2⟩
    · refine ⟨r, by rw [if_neg hz, hr], ?_⟩
      rw [hiff]
      constructor
      · intro ⟨x, hx, hp⟩; exact ⟨x, List.mem_cons_of_mem _ hx, hp⟩
      · intro ⟨x, hx, hp⟩
        rcases List.mem_cons.mp hx with e | hx
        · subst e
          exfalso; apply hz
          rw [Bool.and_eq_true]
          exact ⟨hcmp.mpr hp.1, hne.mpr hp.2⟩
        · exact ⟨x, hx, hp⟩

end GnoVerif.C18
