import GnoVerif.Proofs.C08Main
import GnoVerif.Proofs.C08Sum
/-! C08 — the origin-send budget over a whole message: what OriginSend bankers debit, per
denomination, is exactly the running total `spent`, which the coins sent along cover. -/
namespace GnoVerif.C08

/-- is `e` a debit (of denomination `d`) caused by SendCoins of an OriginSend banker -/
def isOriginDebit (bankers : List BankerInfo) (d : Str) (e : Ev) : Bool :=
  match e.cause with
  | .bankerSend bid =>
    (match bankers[bid]? with | some bi => decide (bi.bt = 1) | none => false) &&
      decide (e.amt < 0) && decide (e.denom = d)
  | _ => false

/-- what OriginSend bankers debited in denomination `d`, according to the log -/
def originDebits (bankers : List BankerInfo) : List Ev → Str → Int
  | [], _ => 0
  | e :: rest, d => (if isOriginDebit bankers d e then -e.amt else 0) + originDebits bankers rest d

/-- every logged banker send refers to a banker of the registry -/
def LogRef (st : St) : Prop :=
  ∀ e ∈ st.bank.log, ∀ bid, e.cause = .bankerSend bid → bid < st.bankers.length

def OInv (st : St) : Prop :=
  LogRef st ∧ coinsValid st.spent = true ∧ ∀ d, sumOf st.spent d = originDebits st.bankers st.bank.log d

theorem getElem?_append_lt {α : Type} (l l' : List α) (i : Nat) (h : i < l.length) : (l ++ l')[i]? = l[i]? :=
  List.getElem?_append_left h

theorem isOriginDebit_append (bankers l : List BankerInfo) (d : Str) (e : Ev)
    (h : ∀ bid, e.cause = .bankerSend bid → bid < bankers.length) :
    isOriginDebit (bankers ++ l) d e = isOriginDebit bankers d e := by
  unfold isOriginDebit
  cases hc : e.cause with
  | bankerSend bid => simp only [getElem?_append_lt bankers l bid (h bid hc)]
  | _ => rfl

theorem originDebits_append (bankers l : List BankerInfo) (d : Str) :
    ∀ (log : List Ev), (∀ e ∈ log, ∀ bid, e.cause = .bankerSend bid → bid < bankers.length) →
      originDebits (bankers ++ l) log d = originDebits bankers log d
  | [], _ => rfl
  | e :: rest, h => by
    simp only [originDebits]
    rw [isOriginDebit_append bankers l d e (h e (List.mem_cons_self ..)),
      originDebits_append bankers l d rest (fun x hx => h x (List.mem_cons_of_mem _ hx))]

/-- an atomic change that involves no banker send keeps the origin accounting -/
theorem atom_oinv {env : Env} {a b : St} (h : Atom env false a b) (hi : OInv a) : OInv b := by
  obtain ⟨href, hval, hsum⟩ := hi
  cases h with
  | tok _ _ => exact ⟨href, hval, hsum⟩
  | banker bi _ =>
    refine ⟨?_, hval, ?_⟩
    · intro e he bid hc
      have := href e he bid hc
      simp only [List.length_append, List.length_singleton]; omega
    · intro d
      simp only
      rw [originDebits_append a.bankers [bi] d a.bank.log href]
      exact hsum d
  | move x d amt c _ hs =>
    rcases hs with hs | hs
    · cases hs
    · refine ⟨?_, hval, ?_⟩
      · intro e he bid hc
        simp only [Bank.move] at he
        rcases List.mem_cons.mp he with rfl | he'
        · exact absurd hc (hs bid)
        · exact href e he' bid hc
      · intro d'
        simp only [Bank.move, originDebits]
        have : isOriginDebit a.bankers d' ⟨x, d, amt, c⟩ = false := by
          unfold isOriginDebit
          cases c with
          | bankerSend bid => exact absurd rfl (hs bid)
          | _ => rfl
        simp only [this, Bool.false_eq_true, if_false, Int.zero_add]
        exact hsum d'
  | supply _ _ _ => exact ⟨href, hval, hsum⟩
  | spent _ _ hs => cases hs
  | params _ _ => exact ⟨href, hval, hsum⟩

/-! ### the send itself -/

/-- what `debitAll` / `creditAll` log -/
theorem debitAll_log (a : Addr) (c : Cause) : ∀ (cs : Coins) (b : Bank),
    (debitAll b a cs c).log = (cs.map (fun coin => (⟨a, coin.denom, -coin.amount, c⟩ : Ev))).reverse ++ b.log
  | [], b => by simp [debitAll]
  | coin :: rest, b => by
    have := debitAll_log a c rest (b.move a coin.denom (-coin.amount) c)
    simp only [debitAll, List.foldl] at this ⊢
    rw [this]; simp [Bank.move]

theorem creditAll_log (a : Addr) (c : Cause) : ∀ (cs : Coins) (b : Bank),
    (creditAll b a cs c).log = (cs.map (fun coin => (⟨a, coin.denom, coin.amount, c⟩ : Ev))).reverse ++ b.log
  | [], b => by simp [creditAll]
  | coin :: rest, b => by
    have := creditAll_log a c rest (b.move a coin.denom coin.amount c)
    simp only [creditAll, List.foldl] at this ⊢
    rw [this]; simp [Bank.move]

theorem originDebits_append_log (bankers : List BankerInfo) (d : Str) : ∀ (l1 l2 : List Ev),
    originDebits bankers (l1 ++ l2) d = originDebits bankers l1 d + originDebits bankers l2 d
  | [], l2 => by simp [originDebits]
  | e :: l1, l2 => by
    simp only [List.cons_append, originDebits, originDebits_append_log bankers d l1 l2]; omega

/-- the debits of one send through banker `bid`, counted as origin debits -/
theorem originDebits_debits (bankers : List BankerInfo) (bid : Nat) (bi : BankerInfo) (hb : bankers[bid]? = some bi)
    (a : Addr) (d : Str) : ∀ (cs : Coins), (∀ c ∈ cs, 0 < c.amount) →
      originDebits bankers (cs.map (fun coin => (⟨a, coin.denom, -coin.amount, .bankerSend bid⟩ : Ev))).reverse d =
        if bi.bt = 1 then sumOf cs d else 0
  | [], _ => by simp [originDebits, sumOf]
  | c :: rest, hpos => by
    have ih := originDebits_debits bankers bid bi hb a d rest (fun x hx => hpos x (List.mem_cons_of_mem _ hx))
    have hc := hpos c (List.mem_cons_self ..)
    simp only [List.map_cons, List.reverse_cons, originDebits_append_log, ih, originDebits, Int.add_zero]
    unfold isOriginDebit
    simp only [hb]
    by_cases hbt : bi.bt = 1
    · by_cases hd : c.denom = d
      · have : (-c.amount < 0) := by omega
        simp [hbt, hd, this, sumOf]; omega
      · simp [hbt, hd, sumOf]
    · simp [hbt]

theorem originDebits_credits (bankers : List BankerInfo) (bid : Nat) (a : Addr) (d : Str) : ∀ (cs : Coins),
    (∀ c ∈ cs, 0 < c.amount) →
      originDebits bankers (cs.map (fun coin => (⟨a, coin.denom, coin.amount, .bankerSend bid⟩ : Ev))).reverse d = 0
  | [], _ => by simp [originDebits]
  | c :: rest, hpos => by
    have ih := originDebits_credits bankers bid a d rest (fun x hx => hpos x (List.mem_cons_of_mem _ hx))
    have hc := hpos c (List.mem_cons_self ..)
    simp only [List.map_cons, List.reverse_cons, originDebits_append_log, ih, originDebits, Int.add_zero, Int.zero_add]
    unfold isOriginDebit
    have : ¬ (c.amount < 0) := by omega
    simp [this]

theorem sumOf_zero_of_isZero : ∀ (cs : Coins) (d : Str), coinsIsZero cs = true → sumOf cs d = 0
  | [], _, _ => rfl
  | c :: rest, d, h => by
    simp only [coinsIsZero, List.all_cons, Bool.and_eq_true, beq_iff_eq] at h
    have := sumOf_zero_of_isZero rest d (by simpa [coinsIsZero] using h.2)
    simp [sumOf, h.1, this]

/-- a banker send keeps the origin accounting -/
theorem bankerSend_oinv (env : Env) (st st' : St) (b : Option Nat) (src dst : Str) (amt : Coins)
    (h : bankerSend env st b src dst amt = .ok st') (hi : OInv st) : OInv st' := by
  obtain ⟨href, hval, hsum⟩ := hi
  unfold bankerSend at h
  split at h
  · cases h
  · rename_i bid
    split at h
    · cases h
    · rename_i bi hbi
      have hbi' : st.bankers[bid]? = some bi := by simpa [St.banker] using hbi
      have hlt : bid < st.bankers.length := (List.getElem?_eq_some_iff.mp hbi').1
      split at h
      · cases h
      · split at h
        · cases h
        · obtain ⟨spent', h1, h2⟩ := bind_ok h
          split at h2
          · rename_i s d hs hd
            obtain ⟨bank', h3, h4⟩ := bind_ok h2
            simp only [pure, Except.pure, Except.ok.injEq] at h4
            subst h4
            -- the running total
            have hsp : (bi.bt = 1 → (∀ x, sumOf spent' x = sumOf st.spent x + sumOf amt x) ∧ coinsValid spent' = true) ∧
                (bi.bt ≠ 1 → spent' = st.spent) := by
              unfold originCheck at h1
              split at h1
              · rename_i hb1
                split at h1
                · cases h1
                · rename_i s' hs'
                  split at h1
                  · cases h1
                    exact ⟨fun _ => ⟨fun x => (coinsAdd_sum _ _ _ x hs').1, (coinsAdd_sum _ _ _ [] hs').2⟩, fun hne => absurd hb1 hne⟩
                  · cases h1
              · rename_i hb1
                cases h1
                exact ⟨fun h1' => absurd h1' hb1, fun _ => rfl⟩
            -- the log
            unfold sendCoins at h3
            split at h3
            · rename_i hz
              cases h3
              refine ⟨href, ?_, ?_⟩
              · by_cases hb1 : bi.bt = 1
                · exact (hsp.1 hb1).2
                · simp only [hsp.2 hb1]; exact hval
              · intro x
                simp only
                by_cases hb1 : bi.bt = 1
                · rw [(hsp.1 hb1).1 x, sumOf_zero_of_isZero amt x hz, Int.add_zero]; exact hsum x
                · simp only [hsp.2 hb1]; exact hsum x
            · split at h3
              · cases h3
              · unfold sendUnrestricted at h3
                obtain ⟨b1, h5, h6⟩ := bind_ok h3
                unfold subtractCoins at h5
                split at h5
                · cases h5
                · split at h5
                  · cases h5
                  · rename_i hv _
                    cases h5
                    unfold addCoins at h6
                    split at h6
                    · cases h6
                    · cases h6
                      have hpos : ∀ c ∈ amt, 0 < c.amount := coinsValid_pos amt (by simpa using hv)
                      refine ⟨?_, ?_, ?_⟩
                      · intro e he bid' hc
                        simp only [creditAll_log, debitAll_log] at he
                        rcases List.mem_append.mp he with h7 | h7
                        · simp only [List.mem_reverse, List.mem_map] at h7
                          obtain ⟨c, _, rfl⟩ := h7
                          have hbb : bid = bid' := by simpa using hc
                          show bid' < st.bankers.length
                          omega
                        · rcases List.mem_append.mp h7 with h8 | h8
                          · simp only [List.mem_reverse, List.mem_map] at h8
                            obtain ⟨c, _, rfl⟩ := h8
                            have hbb : bid = bid' := by simpa using hc
                            show bid' < st.bankers.length
                            omega
                          · exact href e h8 bid' hc
                      · by_cases hb1 : bi.bt = 1
                        · exact (hsp.1 hb1).2
                        · simp only [hsp.2 hb1]; exact hval
                      · intro x
                        simp only [creditAll_log, debitAll_log, originDebits_append_log,
                          originDebits_credits st.bankers bid d x amt hpos,
                          originDebits_debits st.bankers bid bi hbi' s x amt hpos, Int.zero_add]
                        by_cases hb1 : bi.bt = 1
                        · simp only [hb1, if_true]
                          rw [(hsp.1 hb1).1 x, hsum x]; omega
                        · simp only [hb1, if_false, Int.zero_add, hsp.2 hb1]
                          exact hsum x
          · cases h2


/-! ### along a script, and over a message -/

theorem steps_oinv {env : Env} {a b : St} (h : Steps env false a b) (hi : OInv a) : OInv b :=
  steps_inv OInv (fun _ _ hat hp => atom_oinv hat hp) h hi

theorem exec_oinv (env : Env) (f : Nat) (cx : Ctx) (b : Option Nat) (prog : List Ins) (st st' : St)
    (h : exec env f cx b prog st = .ok st') (hi : OInv st) : OInv st' := by
  refine exec_preserves env OInv ?_ ?_ f cx b prog st st' h hi
  · intro cx b i s b' s' hp hs
    by_cases hsd : ∃ src dst amt, i = .sd src dst amt
    · obtain ⟨src, dst, amt, rfl⟩ := hsd
      simp only [prim] at hp
      obtain ⟨s1, h1, h2⟩ := bind_ok hp
      simp only [pure, Except.pure, Except.ok.injEq, Prod.mk.injEq] at h2
      rw [← h2.2]
      exact bankerSend_oinv env s s1 b src dst amt h1 hs
    · exact steps_oinv (prim_steps env false cx b i s b' s'
        (Or.inr (fun src dst amt heq => hsd ⟨src, dst, amt, heq⟩)) hp) hs
  · intro s cx b mode tgt cx' s' hp hs
    exact steps_oinv (planCall_steps env false s cx b mode tgt cx' s' hp) hs

theorem originDebits_none (bankers : List BankerInfo) (d : Str) : ∀ (log : List Ev),
    (∀ e ∈ log, ∀ bid, e.cause ≠ .bankerSend bid) → originDebits bankers log d = 0
  | [], _ => rfl
  | e :: rest, h => by
    simp only [originDebits]
    have : isOriginDebit bankers d e = false := by
      unfold isOriginDebit
      cases hc : e.cause with
      | bankerSend bid => exact absurd hc (h e (List.mem_cons_self ..) bid)
      | _ => rfl
    simp only [this, Bool.false_eq_true, if_false, Int.zero_add]
    exact originDebits_none bankers d rest (fun x hx => h x (List.mem_cons_of_mem _ hx))

/-- a validated running total that the coins sent along cover is covered per denomination -/
theorem covered_sum (osend spent : Coins) (d : Str) (ho : coinsValid osend = true) (hs : coinsValid spent = true)
    (h : spent = [] ∨ isAllGTE osend spent = true) : sumOf spent d ≤ amountOf osend d := by
  have hnn : 0 ≤ amountOf osend d := by
    rw [coinsValid_amountOf osend d ho]
    exact coinsValid_sum_nonneg osend d (coinsValid_pos osend ho)
  rcases h with rfl | h
  · simpa [sumOf] using hnn
  · rw [← coinsValid_amountOf spent d hs]
    unfold amountOf
    cases hf : spent.find? (fun c => c.denom == d) with
    | none => exact hnn
    | some c =>
      have hm := List.mem_of_find?_eq_some hf
      have hp := List.find?_some hf
      simp only [beq_iff_eq] at hp
      unfold isAllGTE at h
      split at h
      · rename_i he
        simp only [List.isEmpty_iff] at he
        rw [he] at hm; cases hm
      · split at h
        · cases h
        · have := List.all_eq_true.mp h c hm
          simp only [decide_eq_true_eq, hp] at this
          exact this

theorem origin_tail (ch : Chain) (w : World) (o : Outcome) (d : Str)
    (send : Coins) (signer : Nat) (maxDeposit : Int) (st0 st1 : St) (f : Nat) (cx : Ctx) (prog : List Ins)
    (hv : coinsValid send = true) (hsp : st0.spent = [])
    (h0 : ∀ e ∈ st0.bank.log, ∀ bid, e.cause ≠ .bankerSend bid)
    (hex : exec (ch.envFor w send) f cx none prog st0 = .ok st1)
    (hfin : finish w (.user signer) maxDeposit st1 = .ok o) :
    originDebits o.bankers o.log d ≤ amountOf send d := by
  have hstart : OInv st0 := by
    refine ⟨?_, by rw [hsp]; rfl, ?_⟩
    · intro e he bid hc
      exact absurd hc (h0 e he bid)
    · intro x
      rw [hsp, originDebits_none st0.bankers x st0.bank.log h0]; rfl
  obtain ⟨_, hval, hsum⟩ := exec_oinv _ f cx none prog st0 st1 hex hstart
  have hbud : st1.spent = [] ∨ isAllGTE (ch.envFor w send).osend st1.spent = true := by
    refine steps_inv (fun s => s.spent = [] ∨ isAllGTE (ch.envFor w send).osend s.spent = true) ?_
      (exec_steps _ f cx none prog st0 st1 hex) (Or.inl hsp)
    intro x y hat hi
    cases hat with
    | tok _ _ => exact hi
    | banker _ _ => exact hi
    | move _ _ _ _ _ _ => exact hi
    | supply _ _ _ => exact hi
    | spent s hs _ =>
      rcases hs with h1 | h1
      · simp only [h1]; exact hi
      · exact Or.inr h1
    | params _ _ => exact hi
  unfold finish at hfin
  obtain ⟨ds, h1, h2⟩ := bind_ok hfin
  simp only [pure, Except.pure, Except.ok.injEq] at h2
  subst h2
  have hb : BankBal ⟨fun a x => st1.bank.led.bal a x - logSum st1.bank.log a x, st1.bank.led.supply⟩ st1.bank := by
    intro a x; simp only; omega
  obtain ⟨_, ⟨ldep, hl, hdep⟩, _⟩ := processStorageDeposit_inv w (.user signer) maxDeposit st1 ds _ hb h1
  simp only
  rw [hl, originDebits_append_log, ← hsum d]
  have hz : originDebits st1.bankers ldep d = 0 := by
    apply originDebits_none
    intro e he bid hc
    have := hdep e he
    unfold DepEvOk at this
    rw [hc] at this
    exact this
  rw [hz, Int.zero_add]
  exact covered_sum send st1.spent d hv hval hbud

/-- over a whole message: what OriginSend bankers debit is covered by the coins sent along -/
theorem step_origin_budget (ch : Chain) (w : World) (m : Msg) (o : Outcome) (h : step ch w m = .ok o) (d : Str) :
    originDebits o.bankers o.log d ≤ amountOf m.send d := by
  cases m with
  | call signer realm send maxDeposit prog =>
    simp only [step] at h
    split at h
    · cases h
    · rename_i hv
      obtain ⟨bank0, h1, h2⟩ := bind_ok h
      simp only [startState, St.addTok, List.nil_append, List.length_nil, List.length_cons, List.cons_append] at h1 h2
      obtain ⟨st1, h3, h4⟩ := bind_ok h2
      have ⟨_, hn⟩ := sendCoins_spec w.led w.restricted ⟨w.led, []⟩ bank0 (.user signer) (.pkg realm) send .msgSend (BankBal.init w.led) h1
      obtain ⟨⟨l0, hl0, hk0⟩, _⟩ := hn
      refine origin_tail ch w o d send signer maxDeposit _ st1 _ _ prog ?_ rfl ?_ h3 h4
      · simp only [Bool.or_eq_true, Bool.not_eq_true', decide_eq_true_eq, not_or, Bool.not_eq_false] at hv
        exact hv.1
      · intro e he bid hc
        simp only at he
        rw [hl0] at he
        simp only [List.append_nil] at he
        rw [(hk0 e he).1] at hc
        cases hc
  | run signer send maxDeposit prog =>
    simp only [step] at h
    split at h
    · cases h
    · rename_i hv
      split at h
      · cases h
      · obtain ⟨bank0, h1, h2⟩ := bind_ok h
        simp only [startState, St.addTok, List.nil_append, List.length_nil, List.length_cons, List.cons_append] at h1 h2
        obtain ⟨st1, h3, h4⟩ := bind_ok h2
        have ⟨_, hn⟩ := sendCoins_spec w.led w.restricted ⟨w.led, []⟩ bank0 (.user signer) (.user signer) send .msgSend (BankBal.init w.led) h1
        obtain ⟨⟨l0, hl0, hk0⟩, _⟩ := hn
        refine origin_tail ch w o d send signer maxDeposit _ st1 _ _ prog ?_ rfl ?_ h3 h4
        · simp only [Bool.or_eq_true, Bool.not_eq_true', decide_eq_true_eq, not_or, Bool.not_eq_false] at hv
          exact hv.1
        · intro e he bid hc
          simp only at he
          rw [hl0] at he
          simp only [List.append_nil] at he
          rw [(hk0 e he).1] at hc
          cases hc
  | bankSend signer dst amt =>
    simp only [step] at h
    split at h
    · cases h
    · split at h
      · cases h
      · rename_i dd _
        obtain ⟨bank0, h1, h2⟩ := bind_ok h
        simp only [pure, Except.pure, Except.ok.injEq] at h2
        subst h2
        have ⟨_, hn⟩ := sendCoins_spec w.led w.restricted ⟨w.led, []⟩ bank0 (.user signer) dd amt .bankSend (BankBal.init w.led) h1
        obtain ⟨⟨l0, hl0, hk0⟩, _⟩ := hn
        simp only [Msg.send]
        rw [originDebits_none]
        · simp [amountOf]
        · intro e he bid hc
          rw [hl0] at he
          simp only [List.append_nil] at he
          rw [(hk0 e he).1] at hc
          cases hc

end GnoVerif.C08
