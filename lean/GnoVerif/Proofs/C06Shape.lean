import GnoVerif.Proofs.C06Dangle
/-!
C06 — what no step of the finalizer (nor DidUpdate) changes about an object:
its slots, kind and realm stamp; and an id, once given, is never taken back.
Same traversal as C06Prim, for predicates that are stable only under
shape-preserving object updates.
-/
namespace GnoVerif.C06
open State

/-- slots, kind and realm stamp unchanged; an id is never taken back, a deleted flag never cleared -/
def ShapeLe (o o' : Obj) : Prop :=
  o'.kids = o.kids ∧ o'.kind = o.kind ∧ o'.pkg = o.pkg ∧ (o.time ≠ 0 → o'.time ≠ 0) ∧
  (o.deleted = true → o'.deleted = true)

/-- the side condition of a flag / count / owner update -/
macro "shp" : term => `(by intro o; exact ⟨rfl, rfl, rfl, fun hh => hh, fun hh => by first | exact hh | rfl⟩)

structure PrimS (P : State → Prop) : Prop where
  modify : ∀ s a f, (∀ o, ShapeLe o (f o)) → P s → P (s.modify a f)
  modMarks : ∀ s r f, P s → P (s.modMarks r f)
  fail : ∀ s, P s → P s.fail
  time : ∀ s t, P s → P { s with time := t }

theorem PrimS.fold {P : State → Prop} {α : Type} (f : State → α → State) (hf : ∀ s x, P s → P (f s x)) :
    ∀ (l : List α) (s : State), P s → P (l.foldl f s) := Stable.fold f hf

theorem PrimS.markDirty {P : State → Prop} (h : PrimS P) (s : State) (r a : Nat) (hp : P s) : P (C06.markDirty s r a) := by
  unfold GnoVerif.C06.markDirty
  split
  · exact hp
  · split
    · exact hp
    · exact h.modMarks _ r _ (h.modify s a _ shp hp)

theorem PrimS.keepMarkNewEscaped {P : State → Prop} (h : PrimS P) (s : State) (r a : Nat) (hp : P s) :
    P (C06.markNewEscaped s r a) := by
  unfold GnoVerif.C06.markNewEscaped
  split
  · exact hp
  · exact h.modMarks _ r _ (h.modify s a _ shp hp)

theorem PrimS.keepAssignId {P : State → Prop} (h : PrimS P) (s : State) (a : Nat) (hp : P s) : P (C06.assignId s a) := by
  unfold GnoVerif.C06.assignId
  exact h.time _ _ (h.modify s a _ (by intro o; exact ⟨rfl, rfl, rfl, fun _ => by simp, fun hh => hh⟩) hp)

theorem PrimS.keepIncRefChild {P : State → Prop} (h : PrimS P) (recur : State → Nat → State)
    (hrec : ∀ s c, P s → P (recur s c)) (r a : Nat) (s : State) (c : Nat) (hp : P s) :
    P (C06.incRefChild recur r a s c) := by
  have h1 : P (incRc s c) := h.modify s c _ shp hp
  unfold GnoVerif.C06.incRefChild
  simp only []
  split
  · split
    · exact h.markDirty _ r c (h.modify _ c _ shp h1)
    · exact hrec _ c (h.modify _ c _ shp (h.modify _ c _ shp h1))
  · split
    · split
      · exact h.markDirty _ r c h1
      · exact h.keepMarkNewEscaped _ r c (h.markDirty _ r c h1)
    · exact h.fail _ h1

theorem PrimS.keepIncRef {P : State → Prop} (h : PrimS P) (r : Nat) :
    ∀ (fuel : Nat) (s : State) (a : Nat), P s → P (C06.incRef fuel s r a) := by
  intro fuel
  induction fuel with
  | zero => intro s a hp; exact h.fail s hp
  | succ fuel ih =>
    intro s a hp
    rw [incRef_succ]
    split
    · exact hp
    · exact PrimS.fold _ (fun s c hp => h.keepIncRefChild _ (fun s c hp => ih s c hp) r a s c hp) _ _
        (h.modMarks _ r _ (h.keepAssignId s a hp))

theorem PrimS.keepProcessNewCreated {P : State → Prop} (h : PrimS P) (s : State) (r : Nat) (hp : P s) :
    P (C06.processNewCreated s r) := by
  unfold GnoVerif.C06.processNewCreated
  apply PrimS.fold _ _ _ s hp
  intro s a hp
  split
  · exact hp
  · exact h.keepIncRef r _ s a hp

theorem PrimS.decRefChild {P : State → Prop} (h : PrimS P) (recur : State → Nat → State)
    (hrec : ∀ s c, P s → P (recur s c)) (r : Nat) (s : State) (c : Nat) (hp : P s) :
    P (C06.decRefChild recur r s c) := by
  have h1 : P (decRc s c) := h.modify s c _ shp hp
  unfold GnoVerif.C06.decRefChild
  simp only []
  split
  · exact hrec _ c h1
  · split
    · exact h.markDirty _ r c h1
    · exact h.fail _ h1

theorem PrimS.decRef {P : State → Prop} (h : PrimS P) (r : Nat) :
    ∀ (fuel : Nat) (s : State) (a : Nat), P s → P (C06.decRef fuel s r a) := by
  intro fuel
  induction fuel with
  | zero => intro s a hp; exact h.fail s hp
  | succ fuel ih =>
    intro s a hp
    rw [decRef_succ]
    split
    · exact hp
    · exact PrimS.fold _ (fun s c hp => h.decRefChild _ (fun s c hp => ih s c hp) r s c hp) _ _
        (h.modMarks _ r _ (h.modify s a _ shp hp))

theorem PrimS.processNewDeleted {P : State → Prop} (h : PrimS P) (s : State) (r : Nat) (hp : P s) :
    P (C06.processNewDeleted s r) := by
  unfold GnoVerif.C06.processNewDeleted
  apply PrimS.fold _ _ _ s hp
  intro s a hp
  split
  · exact h.modify s a _ shp hp
  · exact h.decRef r _ s a hp

theorem PrimS.escapeOne {P : State → Prop} (h : PrimS P) (s : State) (r e : Nat) (hp : P s) : P (C06.escapeOne s r e) := by
  unfold GnoVerif.C06.escapeOne
  split
  · exact h.modify s e _ shp hp
  · split
    · exact hp
    · rename_i po _
      simp only []
      have h1 : P (if (s.get po).rc = 0 then s else if (s.get po).newReal = true then s else C06.markDirty s r po) := by
        split
        · exact hp
        · split
          · exact hp
          · exact h.markDirty s r po hp
      generalize (if (s.get po).rc = 0 then s else if (s.get po).newReal = true then s else C06.markDirty s r po) = s1 at h1 ⊢
      have h2 : P (if ¬ s1.isReal e = true then
          (incRef s1.fuelFor s1 r e).modify e fun o => { o with newReal := true } else s1) := by
        split
        · exact h.modify _ e _ shp (h.keepIncRef r _ s1 e h1)
        · exact h1
      exact h.modify _ e _ shp h2

theorem PrimS.processNewEscapedLoop {P : State → Prop} (h : PrimS P) (r : Nat) :
    ∀ (fuel : Nat) (s : State) (i : Nat), P s → P (C06.processNewEscapedLoop fuel s r i) := by
  intro fuel
  induction fuel with
  | zero => intro s i hp; exact h.fail s hp
  | succ fuel ih =>
    intro s i hp
    unfold GnoVerif.C06.processNewEscapedLoop
    split
    · exact hp
    · rename_i e _
      exact ih _ (i + 1) (h.escapeOne s r e hp)

theorem PrimS.markAncestors {P : State → Prop} (h : PrimS P) (r : Nat) :
    ∀ (fuel : Nat) (s : State) (a : Nat), P s → P (C06.markAncestors fuel s r a) := by
  intro fuel
  induction fuel with
  | zero => intro s a hp; exact h.fail s hp
  | succ fuel ih =>
    intro s a hp
    unfold GnoVerif.C06.markAncestors
    split
    · exact hp
    · split
      · exact hp
      · rename_i po _
        split
        · exact hp
        · split
          · exact hp
          · split
            · exact hp
            · exact ih _ po (h.markDirty s r po hp)

theorem PrimS.markDirtyAncestors {P : State → Prop} (h : PrimS P) (s : State) (r : Nat) (hp : P s) :
    P (C06.markDirtyAncestors s r) := by
  unfold GnoVerif.C06.markDirtyAncestors
  simp only []
  have hstep : ∀ (s : State) (a : Nat), P s →
      P (if (s.get a).deleted = true then s else C06.markAncestors s.fuelFor s r a) := by
    intro s a hp
    split
    · exact hp
    · exact h.markAncestors r _ s a hp
  exact PrimS.fold _ hstep _ _ (PrimS.fold _ hstep _ s hp)

theorem PrimS.saveObject {P : State → Prop} (h : PrimS P) (s : State) (a : Nat) (hp : P s) : P (C06.saveObject s a) := by
  unfold GnoVerif.C06.saveObject
  split
  · exact h.fail s hp
  · simp only []
    have h1 : P (if (s.get a).newEscaped = true then
        s.modify a fun o => { o with newEscaped := false, escaped := true } else s) := by
      split
      · exact h.modify s a _ shp hp
      · exact hp
    generalize (if (s.get a).newEscaped = true then
        s.modify a fun o => { o with newEscaped := false, escaped := true } else s) = s1 at h1 ⊢
    split
    · exact h1
    · exact h.fail s1 h1

theorem PrimS.saveRec {P : State → Prop} (h : PrimS P) :
    ∀ (fuel : Nat) (s : State) (a : Nat), P s → P (C06.saveRec fuel s a) := by
  intro fuel
  induction fuel with
  | zero => intro s a hp; exact h.fail s hp
  | succ fuel ih =>
    intro s a hp
    unfold GnoVerif.C06.saveRec
    simp only []
    have hstep : ∀ (s : State) (c : Nat), P s → P
        (if (s.get c).newReal = true ∨ (s.get c).dirty = true then
          if (s.get c).escaped = true ∨ (s.get c).newEscaped = true then s else C06.saveRec fuel s c
        else s) := by
      intro s c hp
      split
      · split
        · exact hp
        · exact ih s c hp
      · exact hp
    have h1 := PrimS.fold _ hstep (s.children a) s hp
    generalize List.foldl _ s (s.children a) = s1 at h1 ⊢
    have h2 := h.saveObject s1 a h1
    split
    · exact h.modify _ a _ shp h2
    · exact h.modify _ a _ shp h2

theorem PrimS.saveUnsaved {P : State → Prop} (h : PrimS P) (s : State) (r : Nat) (hp : P s) : P (C06.saveUnsaved s r) := by
  unfold GnoVerif.C06.saveUnsaved
  simp only []
  have h1 : ∀ (s : State) (a : Nat), P s → P
      (if ¬ (s.get a).newReal = true then s else if (s.get a).deleted = true then s else C06.saveRec s.fuelFor s a) := by
    intro s a hp
    split
    · exact hp
    · split
      · exact hp
      · exact h.saveRec _ s a hp
  have h2 : ∀ (s : State) (a : Nat), P s → P
      (if ¬ (s.get a).dirty = true then s else if (s.get a).deleted = true then s
       else (C06.saveObject s a).modify a fun o => { o with dirty := false }) := by
    intro s a hp
    split
    · exact hp
    · split
      · exact hp
      · exact h.modify _ a _ shp (h.saveObject s a hp)
  exact PrimS.fold _ h2 _ _ (PrimS.fold _ h1 _ s hp)

theorem PrimS.removeDeleted {P : State → Prop} (h : PrimS P) (s : State) (r : Nat) (hp : P s) : P (C06.removeDeleted s r) := by
  unfold GnoVerif.C06.removeDeleted
  exact PrimS.fold _ (fun s a hp => h.modify s a _ shp hp) _ s hp

theorem PrimS.finalize {P : State → Prop} (h : PrimS P) (s : State) (r : Nat) (hp : P s) : P (C06.finalize s r) := by
  unfold GnoVerif.C06.finalize
  simp only []
  have h1 := h.keepProcessNewCreated s r hp
  have h2 := h.processNewDeleted _ r h1
  have h3 : P (processNewEscaped (C06.processNewDeleted (processNewCreated s r) r) r) :=
    h.processNewEscapedLoop r _ _ 0 h2
  have h4 := h.markDirtyAncestors _ r h3
  have h5 := h.saveUnsaved _ r h4
  have h6 := h.removeDeleted _ r h5
  exact h.modMarks _ r _ h6

theorem PrimS.keepMarkNewReal {P : State → Prop} (h : PrimS P) (s : State) (r a : Nat) (hp : P s) :
    P (C06.markNewReal s r a) := by
  unfold GnoVerif.C06.markNewReal
  split
  · exact hp
  · exact h.modMarks _ r _ (h.modify s a _ shp hp)

theorem PrimS.keepMarkNewDeleted {P : State → Prop} (h : PrimS P) (s : State) (r a : Nat) (hp : P s) :
    P (C06.markNewDeleted s r a) := by
  unfold GnoVerif.C06.markNewDeleted
  split
  · exact hp
  · exact h.modMarks _ r _ (h.modify s a _ shp hp)

theorem PrimS.keepDidUpdateCo {P : State → Prop} (h : PrimS P) (s : State) (r po c : Nat) (hp : P s) :
    P (C06.didUpdateCo s r po c) := by
  unfold GnoVerif.C06.didUpdateCo
  simp only []
  have h0 : P (incRc s c) := h.modify s c _ shp hp
  have h1 : P (if ((incRc s c).get c).rc > 1 ∧ ¬ ((incRc s c).get c).escaped = true
      then C06.markNewEscaped (incRc s c) r c else incRc s c) := by
    split
    · exact h.keepMarkNewEscaped _ r c h0
    · exact h0
  generalize (if ((incRc s c).get c).rc > 1 ∧ ¬ ((incRc s c).get c).escaped = true
      then C06.markNewEscaped (incRc s c) r c else incRc s c) = s1 at h1 ⊢
  split
  · exact h.markDirty s1 r c h1
  · exact h.keepMarkNewReal _ r c (h.modify s1 c _ shp h1)

theorem PrimS.keepDidUpdateXo {P : State → Prop} (h : PrimS P) (s : State) (r x : Nat) (hp : P s) :
    P (C06.didUpdateXo s r x) := by
  unfold GnoVerif.C06.didUpdateXo
  simp only []
  have h0 : P (decRc s x) := h.modify s x _ shp hp
  split
  · split
    · exact h.keepMarkNewDeleted _ r x h0
    · exact h0
  · split
    · exact h.markDirty _ r x h0
    · exact h0

theorem PrimS.keepDidUpdate {P : State → Prop} (h : PrimS P) (s : State) (r po : Nat) (xo co : Option Nat) (hp : P s) :
    P (C06.didUpdate s r po xo co) := by
  by_cases hreal : s.isReal po = true
  · by_cases hpk : (s.get po).pkg = r
    · have h0 := h.markDirty s r po hp
      cases co with
      | none =>
        cases xo with
        | none =>
          have e : C06.didUpdate s r po none none = C06.markDirty s r po := by simp [didUpdate, hreal, hpk]
          rw [e]; exact h0
        | some x =>
          have e : C06.didUpdate s r po (some x) none = C06.didUpdateXo (C06.markDirty s r po) r x := by
            simp [didUpdate, hreal, hpk]
          rw [e]; exact h.keepDidUpdateXo _ r x h0
      | some c =>
        have h1 := h.keepDidUpdateCo _ r po c h0
        cases xo with
        | none =>
          have e : C06.didUpdate s r po none (some c) = C06.didUpdateCo (C06.markDirty s r po) r po c := by
            simp [didUpdate, hreal, hpk]
          rw [e]; exact h1
        | some x =>
          have e : C06.didUpdate s r po (some x) (some c) =
              C06.didUpdateXo (C06.didUpdateCo (C06.markDirty s r po) r po c) r x := by
            simp [didUpdate, hreal, hpk]
          rw [e]; exact h.keepDidUpdateXo _ r x h1
    · have e : C06.didUpdate s r po xo co = s.fail := by simp [didUpdate, hreal, hpk]
      rw [e]; exact h.fail s hp
  · have hreal' : s.isReal po = false := by simpa using hreal
    have e : C06.didUpdate s r po xo co = s := by simp [didUpdate, hreal']
    rw [e]; exact hp


/-- slots, kinds, realm stamps of all objects and the heap size are unchanged from `s0`; ids only grow,
    deleted flags are never cleared -/
def Shape2 (s0 s : State) : Prop :=
  s.heap.length = s0.heap.length ∧ ∀ x, ShapeLe (s0.get x) (s.get x)

theorem primS_shape2 (s0 : State) : PrimS (Shape2 s0) := by
  refine ⟨fun s a f hf hp => ?_, fun s r f hp => hp, fun s hp => hp, fun s t hp => hp⟩
  refine ⟨by rw [length_modify]; exact hp.1, fun x => ?_⟩
  rw [get_modify]
  split
  · rename_i hx
    have h1 := hp.2 a
    have h2 := hf (s.get a)
    rw [hx.1]
    exact ⟨h2.1.trans h1.1, h2.2.1.trans h1.2.1, h2.2.2.1.trans h1.2.2.1, fun ht => h2.2.2.2.1 (h1.2.2.2.1 ht),
      fun hd => h2.2.2.2.2 (h1.2.2.2.2 hd)⟩
  · exact hp.2 x

end GnoVerif.C06
