import GnoVerif.Proofs.C16Tx
import GnoVerif.Model.C16Spec
/-! Helper lemmas for C16: transactions that are not signed through session `key` leave its
    record alone (or remove it), and decoding keeps signers / auth / create targets. -/
namespace GnoVerif.C16

variable {key : SessKey} {auth : List (Nat × Nat)}

/-- the record of `key` is the same in both worlds -/
def SameAt (key : SessKey) (w w' : World) : Prop := lookupSess w'.sess key = lookupSess w.sess key

/-- … or it has been removed -/
def Keep (key : SessKey) (w w' : World) : Prop := SameAt key w w' ∨ lookupSess w'.sess key = none

theorem SameAt.refl (w : World) : SameAt key w w := rfl
theorem SameAt.trans {a b c : World} (h1 : SameAt key a b) (h2 : SameAt key b c) : SameAt key a c :=
  Eq.trans h2 h1

theorem Keep.trans {a b c : World} (h1 : Keep key a b) (h2 : Keep key b c) : Keep key a c := by
  rcases h2 with s2 | n2
  · rcases h1 with s1 | n1
    · exact Or.inl (s1.trans s2)
    · exact Or.inr (by rw [s2]; exact n1)
  · exact Or.inr n2

/-- the master does not sign this tx through the session `key` -/
def NotVia (auth : List (Nat × Nat)) (key : SessKey) (i : Nat) : Prop :=
  ∀ k', auth.lookup i = some k' → (i, k') ≠ key

theorem hook_same {w w' : World} {a : Acct} {amt : Coins}
    (hT : ∀ i, a = .m i → NotVia auth key i) (h : hookDeduct auth w a amt = .ok w') : SameAt key w w' := by
  rcases hookDeduct_spec h with rfl | ⟨i, k', s, s', rfl, hk, _, _, rfl⟩
  · rfl
  · unfold SameAt
    simp only [lookup_setSess]
    rw [if_neg (fun e => hT i rfl k' hk e.symm)]

theorem debit_same {w w' : World} {a : Acct} {amt : Coins} (h : debit w a amt = .ok w') : SameAt key w w' := by
  unfold SameAt; rw [(debit_spec h).2.2.1]

theorem credit_same {w w' : World} {to : Option Acct} {amt : Coins} (h : credit w to amt = .ok w') :
    SameAt key w w' := by
  unfold SameAt; rw [(credit_spec h).2.2.1]

theorem bankSend_same {w w' : World} {i : Nat} {to : Option Acct} {amt : Coins}
    (hT : NotVia auth key i) (h : bankSend auth w (.m i) to amt = .ok w') : SameAt key w w' := by
  unfold bankSend at h
  split at h
  · cases h; rfl
  · cases h1 : hookDeduct auth w (.m i) amt with
    | error e => simp [h1, bind, Except.bind] at h
    | ok w1 =>
      cases h2 : debit w1 (.m i) amt with
      | error e => simp [h1, h2, bind, Except.bind] at h
      | ok w2 =>
        simp only [h1, h2, bind, Except.bind] at h
        exact ((hook_same (fun j e => by cases e; exact hT) h1).trans (debit_same h2)).trans (credit_same h)

theorem lockDeposit_same {w w' : World} {i : Nat} {req : Int}
    (hT : NotVia auth key i) (h : lockDeposit auth w i req = .ok w') : SameAt key w w' := by
  unfold lockDeposit at h
  cases h1 : hookDeduct auth w (.m i) (ugnot req) with
  | error e => simp [h1] at h
  | ok w1 =>
    simp only [h1] at h
    unfold bankSendUnrestricted at h
    cases h2 : debit w1 (.m i) (ugnot req) with
    | error e => simp [h2, bind, Except.bind] at h
    | ok w2 =>
      simp only [h2, bind, Except.bind] at h
      cases h3 : credit w2 none (ugnot req) with
      | error e => simp [h3] at h
      | ok w3 =>
        simp only [h3] at h
        cases h
        exact ((hook_same (fun j e => by cases e; exact hT) h1).trans (debit_same h2)).trans (credit_same h3)

theorem storageDeposit_same {w w' : World} {i realm : Nat} {n : Int}
    (hT : NotVia auth key i) (h : storageDeposit auth w i realm n = .ok w') : SameAt key w w' := by
  unfold storageDeposit at h
  simp only at h
  have i0 : SameAt key w (setSink w realm n) := rfl
  split at h
  · split at h
    · cases h
    · exact i0.trans (lockDeposit_same hT h)
  · split at h
    · unfold refundDeposit at h
      cases h3 : credit (setSink w realm n) (some (.m i)) (ugnot (-(n - w.sink realm) * Gen.C16.storagePrice)) with
      | error e => simp [h3] at h
      | ok w3 =>
        simp only [h3] at h
        cases h
        exact i0.trans (credit_same h3)
    · cases h; exact i0

theorem execMsg_keep {w w' : World} {msg : Msg} (hT : NotVia auth key msg.signer)
    (hnc : msg.creates key.1 key.2 = false) (h : execMsg auth w msg = .ok w') : Keep key w w' := by
  cases msg with
  | send src to amt => exact Or.inl (bankSend_same hT h)
  | exec src realm fn snd =>
    simp only [execMsg] at h
    cases h1 : bankSend auth w (.m src) none snd with
    | error e => simp [h1, bind, Except.bind] at h
    | ok w1 =>
      simp only [h1, bind, Except.bind] at h
      have i1 : SameAt key w w1 := bankSend_same hT h1
      cases fn with
      | noop => simp only at h; cases h; exact Or.inl i1
      | fail => simp at h
      | grow n => simp only at h; exact Or.inl (i1.trans (storageDeposit_same hT h))
  | run src fn snd =>
    simp only [execMsg] at h
    cases h1 : bankSend auth w (.m src) (some (.m src)) snd with
    | error e => simp [h1, bind, Except.bind] at h
    | ok w1 =>
      simp only [h1, bind, Except.bind] at h
      have i1 : SameAt key w w1 := bankSend_same hT h1
      cases fn with
      | noop => simp only at h; cases h; exact Or.inl i1
      | fail => simp at h
      | pay to coins =>
        simp only at h
        cases h2 : bankSend auth w1 (.m src) (some to) coins with
        | error e => simp [h2] at h
        | ok w2 =>
          simp only [h2] at h
          cases h
          exact Or.inl (i1.trans (bankSend_same hT h2))
  | addpkg src snd => simp [execMsg] at h
  | create src k0 e p l ps =>
    simp only [execMsg] at h
    obtain ⟨_, rfl⟩ := createSession_spec h
    left
    unfold SameAt
    simp only [lookup_setSess]
    have hne : key ≠ (src, k0) := by
      intro e'
      subst e'
      simp [Msg.creates] at hnc
    rw [if_neg hne]
  | revoke src k0 =>
    simp only [execMsg] at h
    split at h
    · cases h
    · cases h
      unfold Keep SameAt
      simp only [lookup_eraseSess]
      by_cases he : key = (src, k0)
      · right; simp [he]
      · left; simp [he]
  | revokeall src =>
    simp only [execMsg] at h
    cases h
    unfold Keep SameAt
    simp only [lookup_filter_master]
    by_cases he : key.1 = src
    · right; simp [he]
    · left; simp [he]

theorem execMsgs_keep {msgs : List Msg} {w w' : World} (hT : ∀ msg ∈ msgs, NotVia auth key msg.signer)
    (hnc : ∀ msg ∈ msgs, msg.creates key.1 key.2 = false) (h : execMsgs auth w msgs = .ok w') : Keep key w w' := by
  induction msgs generalizing w with
  | nil => simp only [execMsgs] at h; cases h; exact Or.inl rfl
  | cons msg r ih =>
    simp only [execMsgs] at h
    cases h1 : execMsg auth w msg with
    | error e => simp [h1] at h
    | ok w1 =>
      simp only [h1] at h
      exact (execMsg_keep (hT msg (List.mem_cons_self ..)) (hnc msg (List.mem_cons_self ..)) h1).trans
        (ih (fun x hx => hT x (List.mem_cons_of_mem _ hx)) (fun x hx => hnc x (List.mem_cons_of_mem _ hx)) h)

/-! ### signers -/

theorem mem_signersOf {msgs : List Msg} {x : Nat} : x ∈ signersOf msgs ↔ ∃ msg ∈ msgs, msg.signer = x := by
  induction msgs with
  | nil => simp [signersOf]
  | cons m r ih =>
    simp only [signersOf, List.mem_cons, List.mem_filter, ih]
    constructor
    · rintro (rfl | ⟨⟨msg, hm, rfl⟩, _⟩)
      · exact ⟨m, Or.inl rfl, rfl⟩
      · exact ⟨msg, Or.inr hm, rfl⟩
    · rintro ⟨msg, rfl | hm, rfl⟩
      · exact Or.inl rfl
      · by_cases he : msg.signer = m.signer
        · exact Or.inl he
        · exact Or.inr ⟨⟨msg, hm, rfl⟩, by simpa using he⟩

theorem head_signersOf {msgs : List Msg} (h : msgs ≠ []) : (signersOf msgs).headD 0 ∈ signersOf msgs := by
  cases msgs with
  | nil => exact absurd rfl h
  | cons m r => simp [signersOf]

theorem bumpSeq_same {w : World} {i : Nat} (hT : NotVia auth key i) : SameAt key w (bumpSeq auth w i) := by
  unfold bumpSeq
  split
  · rfl
  · rename_i k' hk
    split
    · rfl
    · unfold SameAt
      simp only [lookup_setSess]
      rw [if_neg (fun e => hT k' hk e.symm)]

theorem bumpSeq_fold_same {w : World} {l : List Nat} (hT : ∀ i ∈ l, NotVia auth key i) :
    SameAt key w (l.foldl (bumpSeq auth) w) := by
  induction l generalizing w with
  | nil => rfl
  | cons i r ih =>
    exact (bumpSeq_same (hT i (List.mem_cons_self ..))).trans (ih fun j hj => hT j (List.mem_cons_of_mem _ hj))

theorem payFee_same {w w' : World} {tx : Tx} {first : Nat} (hT : NotVia tx.auth key first)
    (h : payFee w tx first = .ok w') : SameAt key w w' := by
  unfold payFee at h
  split at h
  · cases h; rfl
  · cases h1 : hookDeduct tx.auth w (.m first) [tx.fee] with
    | error e => simp [h1] at h
    | ok w1 =>
      simp only [h1] at h
      split at h
      · cases h
      · unfold bankSendUnrestricted at h
        cases h2 : debit w1 (.m first) [tx.fee] with
        | error e => simp [h2, bind, Except.bind] at h
        | ok w2 =>
          simp only [h2, bind, Except.bind] at h
          exact ((hook_same (fun j e => by cases e; exact hT) h1).trans (debit_same h2)).trans (credit_same h)

theorem ante_same {w wa : World} {tx : Tx} (hne : tx.msgs ≠ [])
    (hT : ∀ i ∈ signersOf tx.msgs, NotVia tx.auth key i) (h : ante w tx = .ok wa) : SameAt key w wa := by
  unfold ante at h
  simp only at h
  split at h
  · cases h
  · split at h
    · cases h
    · split at h
      · cases h
      · split at h
        · cases h
        · rename_i w1 hpay
          split at h
          · cases h
            exact (payFee_same (hT _ (head_signersOf hne)) hpay).trans (bumpSeq_fold_same hT)
          · cases h

/-! ### decoding keeps signers, auth and create targets -/

theorem Msg.decode_signer {m m' : Msg} (h : m.decode = some m') :
    m'.signer = m.signer ∧ ∀ a b, m'.creates a b = m.creates a b := by
  cases m <;> simp only [Msg.decode, Option.map_eq_some_iff] at h
  all_goals first
    | (obtain ⟨_, _, rfl⟩ := h; exact ⟨rfl, fun _ _ => rfl⟩)
    | (cases h; exact ⟨rfl, fun _ _ => rfl⟩)

theorem decodeMsgs_spec {msgs msgs' : List Msg} (h : decodeMsgs msgs = some msgs') :
    signersOf msgs' = signersOf msgs ∧ (msgs' = [] ↔ msgs = []) ∧
    ∀ a b, (msgs'.any fun x => x.creates a b) = (msgs.any fun x => x.creates a b) := by
  induction msgs generalizing msgs' with
  | nil => simp only [decodeMsgs] at h; cases h; simp
  | cons m r ih =>
    simp only [decodeMsgs] at h
    cases hm : m.decode with
    | none => simp [hm] at h
    | some m' =>
      cases hr : decodeMsgs r with
      | none => simp [hm, hr] at h
      | some r' =>
        simp only [hm, hr] at h
        cases h
        obtain ⟨hs, _, hc⟩ := ih hr
        obtain ⟨hsm, hcm⟩ := Msg.decode_signer hm
        refine ⟨by simp [signersOf, hs, hsm], by simp, fun a b => ?_⟩
        simp only [List.any_cons, hcm, hc]

theorem Tx.decode_spec {t t' : Tx} (h : t.decode = some t') :
    t'.auth = t.auth ∧ signersOf t'.msgs = signersOf t.msgs ∧ (t'.msgs = [] ↔ t.msgs = []) ∧
    ∀ a b, (t'.msgs.any fun x => x.creates a b) = (t.msgs.any fun x => x.creates a b) := by
  unfold Tx.decode at h
  cases hf : decodeFee t.fee with
  | none => simp [hf] at h
  | some fee =>
    cases hm : decodeMsgs t.msgs with
    | none => simp [hf, hm] at h
    | some msgs =>
      simp only [hf, hm] at h
      cases h
      obtain ⟨a, b, c⟩ := decodeMsgs_spec hm
      exact ⟨rfl, a, b, c⟩

end GnoVerif.C16
