import GnoVerif.Spec.C18Coins
/-! Order facts for `cmpBytes` (Go's bytewise string order). -/
namespace GnoVerif.C18

theorem u8_lt_irrefl (a : UInt8) : ¬ a < a := by
  simp

theorem u8_eq_of_not_lt {a b : UInt8} (h1 : ¬ a < b) (h2 : ¬ b < a) : a = b := by
  apply UInt8.toNat_inj.mp
  simp only [UInt8.lt_iff_toNat_lt] at h1 h2
  omega

theorem cmpBytes_eq_iff (a b : List UInt8) : cmpBytes a b = .eq ↔ a = b := by
  fun_induction cmpBytes a b with
  | case1 => simp
  | case2 => simp
  | case3 => simp
  | case4 a as b bs h => 
    simp only [reduceCtorEq, List.cons.injEq, false_iff, not_and]
    intro e; subst e; exact absurd h (u8_lt_irrefl _)
  | case5 a as b bs h1 h2 =>
    simp only [reduceCtorEq, List.cons.injEq, false_iff, not_and]
    intro e; subst e; exact absurd h2 (u8_lt_irrefl _)
  | case6 a as b bs h1 h2 ih =>
    have := u8_eq_of_not_lt h1 h2
    subst this
    simp [ih]

theorem cmpBytes_refl (a : List UInt8) : cmpBytes a a = .eq := (cmpBytes_eq_iff a a).mpr rfl

theorem cmpBytes_gt_iff (a b : List UInt8) : cmpBytes a b = .gt ↔ cmpBytes b a = .lt := by
  fun_induction cmpBytes a b with
  | case1 => simp [cmpBytes]
  | case2 => simp [cmpBytes]
  | case3 => simp [cmpBytes]
  | case4 a as b bs h =>
    have : ¬ b < a := by simp only [UInt8.lt_iff_toNat_lt] at h ⊢; omega
    simp [cmpBytes, h, this]
  | case5 a as b bs h1 h2 => simp [cmpBytes, h2]
  | case6 a as b bs h1 h2 ih => simp [cmpBytes, h1, h2, ih]

theorem dlt_irrefl (a : Denom) : dlt a a = false := by
  simp [dlt, cmpBytes_refl]

theorem dlt_ne {a b : Denom} (h : dlt a b = true) : a ≠ b := by
  intro e; subst e; simp [dlt_irrefl] at h

theorem cmpBytes_lt_trans {a b c : List UInt8} (h1 : cmpBytes a b = .lt) (h2 : cmpBytes b c = .lt) :
    cmpBytes a c = .lt := by
  induction a generalizing b c with
  | nil =>
    cases b with
    | nil => simp [cmpBytes] at h1
    | cons y ys => cases c with
      | nil => simp [cmpBytes] at h2
      | cons z zs => simp [cmpBytes]
  | cons x xs ih =>
    cases b with
    | nil => simp [cmpBytes] at h1
    | cons y ys => cases c with
      | nil => simp [cmpBytes] at h2
      | cons z zs =>
        simp only [cmpBytes] at h1 h2 ⊢
        simp only [UInt8.lt_iff_toNat_lt] at h1 h2 ⊢
        split at h1
        · split at h2
          · rw [if_pos (by omega)]
          · split at h2
            · simp at h2
            · rw [if_pos (by omega)]
        · split at h1
          · simp at h1
          · split at h2
            · rw [if_pos (by omega)]
            · split at h2
              · simp at h2
              · rw [if_neg (by omega), if_neg (by omega)]
                exact ih h1 h2

theorem dlt_trans {a b c : Denom} (h1 : dlt a b = true) (h2 : dlt b c = true) : dlt a c = true := by
  simp only [dlt, beq_iff_eq] at *
  exact cmpBytes_lt_trans h1 h2

theorem dlt_asymm {a b : Denom} (h : dlt a b = true) : dlt b a = false := by
  cases hb : dlt b a with
  | false => rfl
  | true => have := dlt_trans h hb; simp [dlt_irrefl] at this

/-- trichotomy, in the form the merge uses it. -/
theorem cmpBytes_cases (a b : Denom) :
    (cmpBytes a b = .lt ∧ dlt a b = true) ∨ (cmpBytes a b = .eq ∧ a = b) ∨ (cmpBytes a b = .gt ∧ dlt b a = true) := by
  cases h : cmpBytes a b with
  | lt => left; simp [dlt, h]
  | eq => right; left; exact ⟨rfl, (cmpBytes_eq_iff a b).mp h⟩
  | gt => right; right; refine ⟨rfl, ?_⟩; simp [dlt, (cmpBytes_gt_iff a b).mp h]

theorem dlt_total {a b : Denom} (h1 : dlt a b = false) (h2 : dlt b a = false) : a = b := by
  rcases cmpBytes_cases a b with ⟨_, h⟩ | ⟨_, h⟩ | ⟨_, h⟩
  · simp [h] at h1
  · exact h
  · simp [h] at h2

end GnoVerif.C18
