import GnoVerif.Model.C04Fold
/-!
Helper lemmas for C04: constant folding preserves evaluation.
-/
namespace GnoVerif.C04

variable (P : Program)

/-- the out-of-fuel outcome -/
def Res.isOof {α} : Res α → Bool
  | .err .oof _ => true
  | _ => false

theorem bind_eq {α β} (x : M α) (f : α → M β) (s : St) :
    (x >>= f) s = match x s with
      | .ok a s' => f a s'
      | .err e s' => .err e s' := rfl

theorem liftE_ok {α} (v : α) (s : St) : liftE (.ok v) s = .ok v s := rfl
theorem liftE_error {α} (e : Err) (s : St) : (liftE (.error e) : M α) s = .err e s := rfl

theorem evalE_zero (ctx : Ctx) (e : Expr) (s : St) : evalE P 0 ctx e s = .err .oof s := by
  simp [evalE, throwE]

theorem litVal_valToLit {v : Val} {l : Lit} (h : valToLit v = some l) : litVal l = v := by
  cases v <;> simp [valToLit] at h <;> subst h <;> rfl

/-- a constant expression evaluates to its constant value whenever the fuel suffices -/
theorem constVal_sound : ∀ (n : Nat) (e : Expr) (v : Val), constVal e = some v →
    ∀ (ctx : Ctx) (s : St), evalE P n ctx e s = .ok v s ∨ evalE P n ctx e s = .err .oof s := by
  intro n
  induction n with
  | zero => intro e v _ ctx s; right; exact evalE_zero P ctx e s
  | succ n ih =>
    intro e v h ctx s
    cases e with
    | lit l =>
      simp only [constVal, Option.some.injEq] at h
      left; subst h; rfl
    | bin op a b =>
      simp only [constVal] at h
      split at h
      · rename_i x y hx hy
        split at h
        · rename_i w hw
          simp only [Option.some.injEq] at h; subst h
          have e1 : evalE P (n+1) ctx (.bin op a b) s =
              ((do let x ← evalE P n ctx a; let y ← evalE P n ctx b; binop op x y) : M Val) s := rfl
          rw [e1, bind_eq]
          rcases ih a x hx ctx s with ha | ha
          · rw [ha]; simp only [bind_eq]
            rcases ih b y hy ctx s with hb | hb
            · rw [hb]; left; simp only [binop, hw]; rfl
            · rw [hb]; right; rfl
          · rw [ha]; right; rfl
        · simp at h
      · simp at h
    | un op a =>
      simp only [constVal] at h
      split at h
      · rename_i x hx
        split at h
        · rename_i w hw
          simp only [Option.some.injEq] at h; subst h
          have e1 : evalE P (n+1) ctx (.un op a) s =
              ((do let x ← evalE P n ctx a; unop op x) : M Val) s := rfl
          rw [e1, bind_eq]
          rcases ih a x hx ctx s with ha | ha
          · rw [ha]; left; simp only [unop, hw]; rfl
          · rw [ha]; right; rfl
        · simp at h
      · simp at h
    | conv to a =>
      cases to with
      | int t =>
        simp only [constVal] at h
        split at h
        · rename_i sT v0 hx
          simp only [Option.some.injEq] at h; subst h
          have e1 : evalE P (n+1) ctx (.conv (.int t) a) s =
              ((do let x ← evalE P n ctx a; convert P.types (.int t) x) : M Val) s := rfl
          rw [e1, bind_eq]
          rcases ih a _ hx ctx s with ha | ha
          · rw [ha]; left; rfl
          · rw [ha]; right; rfl
        · simp at h
      | _ => simp [constVal] at h
    | land a b =>
      simp only [constVal] at h
      have e1 : evalE P (n+1) ctx (.land a b) s =
          ((do match (← evalE P n ctx a) with
              | .bool false => pure (.bool false)
              | .bool true => evalE P n ctx b
              | _ => stuck "&& operand") : M Val) s := rfl
      split at h
      · rename_i hx
        simp only [Option.some.injEq] at h; subst h
        rw [e1, bind_eq]
        rcases ih a _ hx ctx s with ha | ha
        · rw [ha]; left; rfl
        · rw [ha]; right; rfl
      · rename_i hx
        split at h
        · rename_i y hy
          simp only [Option.some.injEq] at h; subst h
          rw [e1, bind_eq]
          rcases ih a _ hx ctx s with ha | ha
          · rw [ha]; exact ih b _ hy ctx s
          · rw [ha]; right; rfl
        · simp at h
      · simp at h
    | lor a b =>
      simp only [constVal] at h
      have e1 : evalE P (n+1) ctx (.lor a b) s =
          ((do match (← evalE P n ctx a) with
              | .bool true => pure (.bool true)
              | .bool false => evalE P n ctx b
              | _ => stuck "|| operand") : M Val) s := rfl
      split at h
      · rename_i hx
        simp only [Option.some.injEq] at h; subst h
        rw [e1, bind_eq]
        rcases ih a _ hx ctx s with ha | ha
        · rw [ha]; left; rfl
        · rw [ha]; right; rfl
      · rename_i hx
        split at h
        · rename_i y hy
          simp only [Option.some.injEq] at h; subst h
          rw [e1, bind_eq]
          rcases ih a _ hx ctx s with ha | ha
          · rw [ha]; exact ih b _ hy ctx s
          · rw [ha]; right; rfl
        · simp at h
      · simp at h
    | _ => simp [constVal] at h

theorem bind_cfold {α β} {x x' : M α} {f f' : α → M β} (s : St)
    (h : ((x >>= f) s).isOof = false)
    (hx : (x s).isOof = false → x' s = x s)
    (hf : ∀ a s1, x s = .ok a s1 → (f a s1).isOof = false → f' a s1 = f a s1) :
    (x' >>= f') s = (x >>= f) s := by
  rw [bind_eq] at h
  rw [bind_eq, bind_eq]
  cases hxs : x s with
  | ok a s1 =>
    rw [hxs] at h
    rw [hx (by rw [hxs]; rfl), hxs]
    exact hf a s1 hxs h
  | err e s1 =>
    rw [hxs] at h
    have h' : (Res.err e s1 : Res α).isOof = false := by
      cases e <;> first | rfl | (exact absurd h (by simp [Res.isOof]))
    rw [hx (by rw [hxs]; exact h'), hxs]

theorem foldOr_eval (n : Nat) (ctx : Ctx) (orig rebuilt : Expr) (s : St)
    (h : (evalE P (n+1) ctx orig s).isOof = false)
    (hr : evalE P (n+1) ctx rebuilt s = evalE P (n+1) ctx orig s) :
    evalE P (n+1) ctx (foldOr orig rebuilt) s = evalE P (n+1) ctx orig s := by
  unfold foldOr
  split
  · rename_i v hv
    split
    · rename_i l hl
      rcases constVal_sound P (n+1) orig v hv ctx s with ho | ho
      · rw [ho]
        have : evalE P (n+1) ctx (.lit l) s = .ok (litVal l) s := rfl
        rw [this, litVal_valToLit hl]
      · rw [ho] at h; simp [Res.isOof] at h
    · exact hr
  · exact hr

/-- constant folding does not change what an expression evaluates to (value,
panic, store), whenever the fuel suffices for the unfolded expression -/
theorem evalE_cfold : ∀ (n : Nat) (e : Expr) (ctx : Ctx) (s : St),
    (evalE P n ctx e s).isOof = false → evalE P n ctx (cfold e) s = evalE P n ctx e s := by
  intro n
  induction n with
  | zero => intro e ctx s h; rw [evalE_zero] at h; simp [Res.isOof] at h
  | succ n ih =>
    intro e ctx s h
    cases e with
    | bin op a b =>
      show evalE P (n+1) ctx (foldOr (.bin op a b) (.bin op (cfold a) (cfold b))) s = _
      apply foldOr_eval P n ctx _ _ s h
      have e1 : ∀ a b, evalE P (n+1) ctx (.bin op a b) =
          ((do let x ← evalE P n ctx a; let y ← evalE P n ctx b; binop op x y) : M Val) := fun _ _ => rfl
      rw [e1, e1]
      rw [e1] at h
      apply bind_cfold s h (ih a ctx s)
      intro x s1 _ h2
      exact bind_cfold s1 h2 (ih b ctx s1) (fun _ _ _ _ => rfl)
    | un op a =>
      show evalE P (n+1) ctx (foldOr (.un op a) (.un op (cfold a))) s = _
      apply foldOr_eval P n ctx _ _ s h
      have e1 : ∀ a, evalE P (n+1) ctx (.un op a) =
          ((do let x ← evalE P n ctx a; unop op x) : M Val) := fun _ => rfl
      rw [e1, e1]
      rw [e1] at h
      exact bind_cfold s h (ih a ctx s) (fun _ _ _ _ => rfl)
    | conv t a =>
      show evalE P (n+1) ctx (foldOr (.conv t a) (.conv t (cfold a))) s = _
      apply foldOr_eval P n ctx _ _ s h
      have e1 : ∀ a, evalE P (n+1) ctx (.conv t a) =
          ((do let x ← evalE P n ctx a; convert P.types t x) : M Val) := fun _ => rfl
      rw [e1, e1]
      rw [e1] at h
      exact bind_cfold s h (ih a ctx s) (fun _ _ _ _ => rfl)
    | land a b =>
      show evalE P (n+1) ctx (foldOr (.land a b) (.land (cfold a) (cfold b))) s = _
      apply foldOr_eval P n ctx _ _ s h
      have e1 : ∀ a b, evalE P (n+1) ctx (.land a b) =
          ((evalE P n ctx a >>= fun r => match r with
              | .bool false => pure (.bool false)
              | .bool true => evalE P n ctx b
              | _ => stuck "&& operand") : M Val) := fun _ _ => rfl
      rw [e1, e1]
      rw [e1] at h
      apply bind_cfold s h (ih a ctx s)
      intro r s1 _ h2
      cases r with
      | bool v => cases v with
        | false => rfl
        | true => exact ih b ctx s1 h2
      | _ => rfl
    | lor a b =>
      show evalE P (n+1) ctx (foldOr (.lor a b) (.lor (cfold a) (cfold b))) s = _
      apply foldOr_eval P n ctx _ _ s h
      have e1 : ∀ a b, evalE P (n+1) ctx (.lor a b) =
          ((evalE P n ctx a >>= fun r => match r with
              | .bool true => pure (.bool true)
              | .bool false => evalE P n ctx b
              | _ => stuck "|| operand") : M Val) := fun _ _ => rfl
      rw [e1, e1]
      rw [e1] at h
      apply bind_cfold s h (ih a ctx s)
      intro r s1 _ h2
      cases r with
      | bool v => cases v with
        | true => rfl
        | false => exact ih b ctx s1 h2
      | _ => rfl
    | _ => rfl

end GnoVerif.C04
