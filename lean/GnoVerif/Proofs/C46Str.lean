import GnoVerif.Model.C46Bip39
/-! Proofs.C46Str — strings.Split / Fields / Join on byte strings, the reverse word map. -/
namespace GnoVerif.C46

theorem splitP_ne_nil (p : UInt8 → Bool) (s : Bytes) : splitP p s ≠ [] := by
  cases s with
  | nil => simp [splitP]
  | cons b r =>
    unfold splitP
    split
    · simp
    · split <;> simp

theorem joinSp_cons_cons (b : UInt8) (x : Bytes) (xs : List Bytes) :
    joinSp ((b :: x) :: xs) = b :: joinSp (x :: xs) := by
  cases xs <;> simp [joinSp]

/-- `strings.Join(strings.Split(s, " "), " ") == s` -/
theorem joinSp_splitSpace (m : Bytes) : joinSp (splitSpace m) = m := by
  unfold splitSpace
  induction m with
  | nil => simp [splitP, joinSp]
  | cons b r ih =>
    unfold splitP
    split
    · rename_i hb
      have hb' : b = 32 := by simpa using hb
      cases h : splitP (fun x => x == 32) r with
      | nil => exact absurd h (splitP_ne_nil _ _)
      | cons x xs =>
        rw [h] at ih
        simp only [joinSp, List.nil_append, ih, hb']
    · cases h : splitP (fun x => x == 32) r with
      | nil => exact absurd h (splitP_ne_nil _ _)
      | cons x xs =>
        rw [h] at ih
        simp only [joinSp_cons_cons, ih]

theorem splitP_none (p : UInt8 → Bool) (w : Bytes) (hw : ∀ b ∈ w, p b = false) : splitP p w = [w] := by
  induction w with
  | nil => rfl
  | cons b r ih =>
    have hb : p b = false := hw b (by simp)
    have hr : ∀ x ∈ r, p x = false := fun x hx => hw x (by simp [hx])
    unfold splitP
    simp [hb, ih hr]

theorem splitP_append_sep (p : UInt8 → Bool) (w rest : Bytes) (sep : UInt8)
    (hw : ∀ b ∈ w, p b = false) (hs : p sep = true) :
    splitP p (w ++ sep :: rest) = w :: splitP p rest := by
  induction w with
  | nil => simp [splitP, hs]
  | cons b r ih =>
    have hb : p b = false := hw b (by simp)
    have hr : ∀ x ∈ r, p x = false := fun x hx => hw x (by simp [hx])
    simp only [List.cons_append]
    rw [splitP]
    simp [hb, ih hr]

/-- splitting a joined sentence at a separator class that contains ' ' and meets no word -/
theorem splitP_joinSp (p : UInt8 → Bool) (hsp : p 32 = true) (ws : List Bytes) (hne : ws ≠ [])
    (hw : ∀ w ∈ ws, ∀ b ∈ w, p b = false) : splitP p (joinSp ws) = ws := by
  induction ws with
  | nil => exact absurd rfl hne
  | cons w r ih =>
    cases r with
    | nil => simp only [joinSp]; exact splitP_none p w (hw w (by simp))
    | cons w' r' =>
      simp only [joinSp]
      rw [splitP_append_sep p w _ 32 (hw w (by simp)) hsp]
      rw [ih (by simp) (fun x hx => hw x (by simp [hx]))]

theorem splitSpace_joinSp (ws : List Bytes) (hne : ws ≠ [])
    (hw : ∀ w ∈ ws, ∀ b ∈ w, (b == 32) = false) : splitSpace (joinSp ws) = ws :=
  splitP_joinSp _ (by decide) ws hne hw

theorem fields_joinSp (ws : List Bytes) (hw : ∀ w ∈ ws, w ≠ [] ∧ ∀ b ∈ w, isSpace b = false) :
    fields (joinSp ws) = ws := by
  unfold fields
  by_cases hne : ws = []
  · subst hne; simp [joinSp, splitP]
  · rw [splitP_joinSp isSpace (by decide) ws hne (fun w hx => (hw w hx).2)]
    apply List.filter_eq_self.mpr
    intro w hx
    have := (hw w hx).1
    cases w <;> simp_all

/-! ### ReverseWordMap -/

theorem lookupAux_sound (v : Bytes) (l : List Bytes) (i : Nat) (acc : Option Nat) (k : Nat)
    (h : lookupAux v l i acc = some k) : acc = some k ∨ ∃ j, j < l.length ∧ k = i + j ∧ l[j]? = some v := by
  induction l generalizing i acc with
  | nil => left; simpa [lookupAux] using h
  | cons w r ih =>
    rw [lookupAux] at h
    rcases ih _ _ h with h1 | ⟨j, hj, hk, hv⟩
    · by_cases hwv : (w == v) = true
      · rw [if_pos hwv] at h1
        right
        refine ⟨0, by simp, ?_, ?_⟩
        · simp at h1; omega
        · have : w = v := by simpa using hwv
          simp [this]
      · rw [if_neg hwv] at h1
        left; exact h1
    · right
      exact ⟨j + 1, by simp; omega, by omega, by simpa using hv⟩

/-- a hit of the reverse map is a valid index holding that word -/
theorem lookup_sound (wl : List Bytes) (v : Bytes) (k : Nat) (h : lookup wl v = some k) :
    k < wl.length ∧ wl.getD k [] = v := by
  rcases lookupAux_sound v wl 0 none k h with h1 | ⟨j, hj, hk, hv⟩
  · cases h1
  · have : k = j := by omega
    subst this
    refine ⟨hj, ?_⟩
    simp [List.getD, hv]

theorem lookupAux_not_mem (v : Bytes) (l : List Bytes) (i : Nat) (acc : Option Nat) (h : v ∉ l) :
    lookupAux v l i acc = acc := by
  induction l generalizing i acc with
  | nil => rfl
  | cons w r ih =>
    rw [lookupAux]
    have hw : (w == v) = false := by
      have : w ≠ v := fun e => h (by simp [e])
      simpa using this
    rw [hw]
    exact ih _ _ (fun hm => h (by simp [hm]))

theorem lookupAux_nodup (v : Bytes) (l : List Bytes) (i : Nat) (acc : Option Nat) (j : Nat)
    (hn : l.Nodup) (hj : l[j]? = some v) : lookupAux v l i acc = some (i + j) := by
  induction l generalizing i acc j with
  | nil => simp at hj
  | cons w r ih =>
    rw [lookupAux]
    have hn' := List.nodup_cons.mp hn
    cases j with
    | zero =>
      have hwv : w = v := by simpa using hj
      subst hwv
      simp only [BEq.rfl, if_true]
      rw [lookupAux_not_mem _ _ _ _ hn'.1]
      simp
    | succ j =>
      have hv : r[j]? = some v := by simpa using hj
      have hmem : v ∈ r := List.mem_of_getElem? hv
      have hwv : (w == v) = false := by
        have : w ≠ v := fun e => hn'.1 (e ▸ hmem)
        simpa using this
      rw [hwv]
      simp only [Bool.false_eq_true, if_false]
      rw [ih _ _ _ hn'.2 hv]
      congr 1; omega

/-- in a duplicate-free list the reverse map inverts indexing -/
theorem lookup_nodup (wl : List Bytes) (hn : wl.Nodup) (i : Nat) (hi : i < wl.length) :
    lookup wl (wl.getD i []) = some i := by
  have h : wl[i]? = some (wl.getD i []) := by
    simp [List.getD, List.getElem?_eq_getElem hi]
  have := lookupAux_nodup (wl.getD i []) wl 0 none i hn h
  simpa [lookup] using this

end GnoVerif.C46
