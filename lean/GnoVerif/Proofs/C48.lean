/- Helper lemmas for C48: boolean-vector spec facts and the abstraction of each
`BitArray` operation. -/
import GnoVerif.Proofs.C48Bits
namespace GnoVerif.C48

/-! ### boolean vectors -/

theorem bget_of_lt (v : List Bool) (i : Nat) (h : i < v.length) : bget v i = v[i] := by
  simp [bget, List.getD_eq_getElem?_getD, List.getElem?_eq_getElem h]

theorem bget_of_ge (v : List Bool) (i : Nat) (h : v.length ≤ i) : bget v i = false := by
  simp [bget, List.getD_eq_getElem?_getD, List.getElem?_eq_none h]

theorem vec_ext (x y : List Bool) (hl : x.length = y.length)
    (h : ∀ i, i < x.length → bget x i = bget y i) : x = y := by
  apply List.ext_getElem hl
  intro i h1 h2
  have := h i h1
  rwa [bget_of_lt x i h1, bget_of_lt y i h2] at this

@[simp] theorem bget_nil (i : Nat) : bget [] i = false := by simp [bget]
@[simp] theorem bget_cons_zero (x : Bool) (xs : List Bool) : bget (x :: xs) 0 = x := by simp [bget]
@[simp] theorem bget_cons_succ (x : Bool) (xs : List Bool) (i : Nat) :
    bget (x :: xs) (i + 1) = bget xs i := by simp [bget]

theorem length_specOr : ∀ x y : List Bool, (specOr x y).length = max x.length y.length
  | [], ys => by simp [specOr]
  | x :: xs, [] => by simp [specOr]
  | x :: xs, y :: ys => by simp [specOr, length_specOr xs ys]

theorem bget_specOr : ∀ (x y : List Bool) (i : Nat), bget (specOr x y) i = (bget x i || bget y i)
  | [], ys, i => by simp [specOr]
  | x :: xs, [], i => by simp [specOr]
  | x :: xs, y :: ys, 0 => by simp [specOr]
  | x :: xs, y :: ys, i + 1 => by simp [specOr, bget_specOr xs ys i]

theorem length_specAnd (x y : List Bool) : (specAnd x y).length = min x.length y.length := by
  simp [specAnd]

theorem bget_specAnd : ∀ (x y : List Bool) (i : Nat), bget (specAnd x y) i = (bget x i && bget y i)
  | [], ys, i => by simp [specAnd]
  | x :: xs, [], i => by simp [specAnd]
  | x :: xs, y :: ys, 0 => by simp [specAnd]
  | x :: xs, y :: ys, i + 1 => by
    have := bget_specAnd xs ys i
    simp only [specAnd] at this
    simp [specAnd, this]

theorem length_specSub : ∀ x y : List Bool, (specSub x y).length = x.length
  | [], ys => by simp [specSub]
  | x :: xs, [] => by simp [specSub]
  | x :: xs, y :: ys => by simp [specSub, length_specSub xs ys]

theorem bget_specSub : ∀ (x y : List Bool) (i : Nat), bget (specSub x y) i = (bget x i && !bget y i)
  | [], ys, i => by simp [specSub]
  | x :: xs, [], i => by simp [specSub]
  | x :: xs, y :: ys, 0 => by simp [specSub]
  | x :: xs, y :: ys, i + 1 => by simp [specSub, bget_specSub xs ys i]

theorem length_specNot (x : List Bool) : (specNot x).length = x.length := by simp [specNot]

theorem bget_specNot (x : List Bool) (i : Nat) (h : i < x.length) :
    bget (specNot x) i = !bget x i := by
  rw [bget_of_lt _ _ (by simpa [specNot] using h), bget_of_lt _ _ h]
  simp [specNot]

/-! ### abstraction -/

theorem length_abs (b : BA) : b.abs.length = b.bits := by simp [BA.abs]

theorem bget_abs (b : BA) (i : Nat) : bget b.abs i = (decide (i < b.bits) && bitAt b.elems i) := by
  by_cases h : i < b.bits
  · rw [bget_of_lt _ _ (by simpa [length_abs] using h)]
    simp [BA.abs, h]
  · rw [bget_of_ge _ _ (by simpa [length_abs] using Nat.le_of_not_lt h)]
    simp [h]

theorem BA.WF.bget_abs {b : BA} (h : b.WF) (i : Nat) : bget b.abs i = bitAt b.elems i := by
  rw [GnoVerif.C48.bget_abs]
  by_cases hi : i < b.bits
  · simp [hi]
  · simp [hi, h.pad i (Nat.le_of_not_lt hi)]

/-- a vector is determined by bits and `bitAt` below `bits` -/
theorem abs_eq_of (b : BA) (v : List Bool) (hl : v.length = b.bits)
    (h : ∀ i, i < b.bits → bget v i = bitAt b.elems i) : b.abs = v := by
  apply vec_ext _ _ (by rw [length_abs, hl])
  intro i hi
  rw [length_abs] at hi
  rw [bget_abs, h i hi]; simp [hi]

/-- two well-formed arrays with the same vector are the same array (raw words included) -/
theorem BA.WF.abs_inj {a b : BA} (ha : a.WF) (hb : b.WF) (h : a.abs = b.abs) : a = b := by
  have hbits : a.bits = b.bits := by rw [← length_abs a, ← length_abs b, h]
  cases a with | mk ab ae =>
  cases b with | mk bb be =>
  simp only at hbits
  subst hbits
  congr 1
  apply words_ext
  · rw [ha.len, hb.len]
  · intro i
    have h1 := ha.bget_abs i
    have h2 := hb.bget_abs i
    rw [h] at h1
    simp only at h1 h2
    rw [← h1, ← h2]

theorem numElements_mono {a b : Nat} (h : a ≤ b) : numElements a ≤ numElements b := by
  unfold numElements; omega

theorem lt_numElements {i bits : Nat} (h : i < bits) : i / 64 < numElements bits := by
  unfold numElements; omega

/-! ### NewBitArray, GetIndex, SetIndex -/

theorem bitAt_replicate_zero (n i : Nat) : bitAt (List.replicate n 0) i = false := by
  unfold bitAt
  rw [getD_replicate_zero]; simp

theorem wf_zero (n : Nat) : (⟨n, List.replicate (numElements n) 0⟩ : BA).WF :=
  ⟨by simp, fun i _ => bitAt_replicate_zero _ i⟩

theorem BA.getIndex_eq (b : BA) (hl : b.elems.length = numElements b.bits) (i : Nat) :
    b.getIndex i = (decide (i < b.bits) && bitAt b.elems i) := by
  unfold BA.getIndex
  by_cases h : i < b.bits
  · have h2 : i / 64 < b.elems.length := by rw [hl]; exact lt_numElements h
    rw [if_neg (by omega), wordBit_eq _ _ (by omega)]
    simp [h, bitAt]
  · rw [if_pos (by omega)]; simp [h]

/-- the bit written by `setIndex` and all the others -/
theorem BA.setIndex_spec (b : BA) (hl : b.elems.length = numElements b.bits) (k : Nat) (v : Bool)
    (hk : k < b.bits) :
    (b.setIndex k v).2 = true ∧ (b.setIndex k v).1.bits = b.bits ∧
    (b.setIndex k v).1.elems.length = b.elems.length ∧
    ∀ i, bitAt (b.setIndex k v).1.elems i = if i = k then v else bitAt b.elems i := by
  have h2 : k / 64 < b.elems.length := by rw [hl]; exact lt_numElements hk
  unfold BA.setIndex
  rw [if_neg (by omega)]
  refine ⟨rfl, rfl, by simp, ?_⟩
  intro i
  simp only
  rw [bitAt_set]
  have hk64 : k % 64 < 64 := by omega
  have hi64 : i % 64 < 64 := by omega
  have hg : b.elems.getD (k / 64) 0 = b.elems.getD (k / 64) 0 := rfl
  by_cases hw : i / 64 = k / 64
  · simp only [hw, h2, and_self, if_true]
    have hb : bitAt b.elems i = (b.elems.getD (k / 64) 0).getLsbD (i % 64) := by
      unfold bitAt; rw [hw]
    rw [hb]
    have hiff : (k % 64 = i % 64) ↔ i = k := by omega
    cases v
    · simp only [Bool.false_eq_true, if_false]
      rw [getLsbD_clearBit _ _ _ hk64 hi64]
      by_cases hik : i = k
      · simp [hik]
      · simp [hik, hiff]
    · simp only [if_true]
      rw [getLsbD_setBit _ _ _ hk64]
      by_cases hik : i = k
      · simp [hik]
      · simp [hik, hiff]
  · have hik : ¬ i = k := fun e => hw (by rw [e])
    simp [hw, hik]

theorem BA.setIndex_oob (b : BA) (k : Nat) (v : Bool) (hk : b.bits ≤ k) :
    b.setIndex k v = (b, false) := by
  unfold BA.setIndex
  rw [if_pos (Or.inl hk)]

/-! ### Or, And, Sub -/

theorem bitAt_mapPrefix (f : Word → Word → Word) (g : Bool → Bool → Bool)
    (hfg : ∀ x y k, k < 64 → (f x y).getLsbD k = g (x.getLsbD k) (y.getLsbD k))
    (n : Nat) (c o : List Word) (hc : n ≤ c.length) (ho : n ≤ o.length) :
    ∃ r, mapPrefix f n c o = .ok r ∧ r.length = c.length ∧
      ∀ i, bitAt r i = if i / 64 < n then g (bitAt c i) (bitAt o i) else bitAt c i := by
  obtain ⟨r, hr, hl, hg⟩ := mapPrefix_ok f n c o hc ho
  refine ⟨r, hr, hl, fun i => ?_⟩
  unfold bitAt
  rw [hg]
  split
  · exact hfg _ _ _ (by omega)
  · rfl

theorem BA.WF.bitAt_of_ge_bits {b : BA} (h : b.WF) {i : Nat} (hi : b.bits ≤ i) :
    bitAt b.elems i = false := h.pad i hi

/-- bits of a word list are false from `64 * length` on; for a well-formed array that
is implied by being `≥ bits` -/
theorem BA.WF.bitAt_copyBits {a : BA} (ha : a.WF) (bits : Nat) (hb : a.bits ≤ bits) (i : Nat) :
    bitAt (a.copyBits bits).elems i = bitAt a.elems i := by
  unfold BA.copyBits
  simp only
  rw [bitAt_goCopy_zero]
  by_cases h : i / 64 < numElements bits
  · simp [h]
  · simp only [h, decide_false, Bool.false_and]
    symm
    apply bitAt_of_ge
    rw [ha.len]
    have := numElements_mono hb
    omega

theorem or_some_spec (a o : BA) (ha : a.WF) (ho : o.WF) :
    ∃ c, or (some a) (some o) = .ok (some c) ∧ c.WF ∧ c.abs = specOr a.abs o.abs := by
  have hlen : ((a.copyBits (max a.bits o.bits)).elems).length = numElements (max a.bits o.bits) := by
    simp [BA.copyBits, length_goCopy]
  have hol : o.elems.length ≤ numElements (max a.bits o.bits) := by
    rw [ho.len]; exact numElements_mono (by omega)
  obtain ⟨r, hr, hl, hg⟩ := bitAt_mapPrefix (· ||| ·) (· || ·)
    (fun x y k _ => by simp) (min (a.copyBits (max a.bits o.bits)).elems.length o.elems.length)
    (a.copyBits (max a.bits o.bits)).elems o.elems (by omega) (by omega)
  have hbit : ∀ i, bitAt r i = (bitAt a.elems i || bitAt o.elems i) := by
    intro i
    rw [hg, ha.bitAt_copyBits _ (by omega)]
    split
    · rfl
    · rw [bitAt_of_ge o.elems i (by omega)]; simp
  refine ⟨⟨max a.bits o.bits, r⟩, ?_, ⟨by simp [hl, hlen], ?_⟩, ?_⟩
  · simp only [or, hr]; rfl
  · intro i hi
    simp only at hi ⊢
    rw [hbit, ha.pad i (by omega), ho.pad i (by omega)]; rfl
  · apply abs_eq_of
    · simp [length_specOr, length_abs]
    · intro i _
      simp only
      rw [bget_specOr, ha.bget_abs, ho.bget_abs, hbit]

theorem and_some_spec (a o : BA) (ha : a.WF) (ho : o.WF) :
    ∃ c, and (some a) (some o) = .ok (some c) ∧ c.WF ∧ c.abs = specAnd a.abs o.abs := by
  have hlen : ((a.copyBits (min a.bits o.bits)).elems).length = numElements (min a.bits o.bits) := by
    simp [BA.copyBits, length_goCopy]
  have hol : numElements (min a.bits o.bits) ≤ o.elems.length := by
    rw [ho.len]; exact numElements_mono (by omega)
  obtain ⟨r, hr, hl, hg⟩ := bitAt_mapPrefix (· &&& ·) (· && ·)
    (fun x y k _ => by simp) (a.copyBits (min a.bits o.bits)).elems.length
    (a.copyBits (min a.bits o.bits)).elems o.elems (by omega) (by omega)
  have hbit : ∀ i, bitAt r i =
      (decide (i / 64 < numElements (min a.bits o.bits)) && (bitAt a.elems i && bitAt o.elems i)) := by
    intro i
    rw [hg, hlen]
    simp only [BA.copyBits]
    rw [bitAt_goCopy_zero]
    split <;> simp [*]
  refine ⟨⟨min a.bits o.bits, r⟩, ?_, ⟨by simp [hl, hlen], ?_⟩, ?_⟩
  · simp only [and, hr]; rfl
  · intro i hi
    simp only at hi ⊢
    rw [hbit]
    rcases Nat.lt_or_ge i a.bits with h1 | h1
    · rw [ho.pad i (by omega)]; simp
    · rw [ha.pad i h1]; simp
  · apply abs_eq_of
    · simp [length_specAnd, length_abs]
    · intro i hi
      simp only at hi ⊢
      rw [bget_specAnd, ha.bget_abs, ho.bget_abs, hbit]
      simp [lt_numElements hi]

theorem sub_some_spec (a o : BA) (ha : a.WF) (ho : o.WF) :
    ∃ c, sub (some a) (some o) = .ok (some c) ∧ c.WF ∧ c.abs = specSub a.abs o.abs := by
  have hlen : ((a.copyBits a.bits).elems).length = a.elems.length := by
    simp [BA.copyBits, length_goCopy, ha.len]
  obtain ⟨r, hr, hl, hg⟩ := bitAt_mapPrefix (fun x y => x &&& ~~~y) (fun p q => p && !q)
    (fun x y k hk => by simp [hk]) (min a.elems.length o.elems.length)
    (a.copyBits a.bits).elems o.elems (by omega) (by omega)
  have hbit : ∀ i, bitAt r i = (bitAt a.elems i && !bitAt o.elems i) := by
    intro i
    rw [hg, ha.bitAt_copyBits _ (Nat.le_refl _)]
    split
    · rfl
    · rcases Nat.lt_or_ge (i / 64) a.elems.length with h1 | h1
      · rw [bitAt_of_ge o.elems i (by omega)]; simp
      · rw [bitAt_of_ge a.elems i h1]; simp
  refine ⟨⟨a.bits, r⟩, ?_, ⟨by simp [hl, hlen, ha.len], ?_⟩, ?_⟩
  · simp only [sub, hr]; rfl
  · intro i hi
    simp only at hi ⊢
    rw [hbit, ha.pad i hi]; rfl
  · apply abs_eq_of
    · simp [length_specSub, length_abs]
    · intro i _
      simp only
      rw [bget_specSub, ha.bget_abs, ho.bget_abs, hbit]

theorem BA.copy_eq (b : BA) : b.copy = b := by
  unfold BA.copy
  rw [goCopy_self_zero]

/-! ### the padding mask; Not, Update -/

theorem length_maskLast (bits : Nat) (es : List Word) : (maskLast bits es).length = es.length := by
  unfold maskLast
  simp only
  split <;> simp

/-- on a word list of the right length, `maskLast` clears exactly the positions `≥ bits` -/
theorem bitAt_maskLast (bits : Nat) (es : List Word) (hl : es.length = numElements bits) (i : Nat) :
    bitAt (maskLast bits es) i = (bitAt es i && decide (i < bits)) := by
  unfold maskLast
  simp only
  unfold numElements at hl
  by_cases hc : bits % 64 ≠ 0 ∧ es.length > 0
  · rw [if_pos hc, bitAt_set]
    by_cases hw : i / 64 = es.length - 1
    · rw [if_pos ⟨hw, by omega⟩, BitVec.getLsbD_and, getLsbD_mask _ _ (by omega)]
      have : bitAt es i = (es.getD (es.length - 1) 0).getLsbD (i % 64) := by
        unfold bitAt; rw [hw]
      rw [this]
      congr 1
      have : (i % 64 < bits % 64) ↔ i < bits := by omega
      simp [this]
    · rw [if_neg (fun h => hw h.1)]
      rcases Nat.lt_or_ge (i / 64) es.length with h1 | h1
      · have : i < bits := by omega
        simp [this]
      · rw [bitAt_of_ge es i h1]; rfl
  · rw [if_neg hc]
    rcases Nat.lt_or_ge (i / 64) es.length with h1 | h1
    · have : i < bits := by omega
      simp [this]
    · rw [bitAt_of_ge es i h1]; rfl

theorem bitAt_map_not (es : List Word) (i : Nat) :
    bitAt (es.map (~~~ ·)) i = (decide (i / 64 < es.length) && !bitAt es i) := by
  unfold bitAt
  simp only [List.getD_eq_getElem?_getD, List.getElem?_map]
  rcases Nat.lt_or_ge (i / 64) es.length with h1 | h1
  · rw [List.getElem?_eq_getElem h1]
    simp [h1, show i % 64 < 64 by omega]
  · rw [List.getElem?_eq_none h1]
    simp [show ¬ i / 64 < es.length by omega]

theorem BA.not_spec (b : BA) (hb : b.WF) : b.not.WF ∧ b.not.abs = specNot b.abs := by
  have hl : (b.elems.map (~~~ ·)).length = numElements b.bits := by simp [hb.len]
  have hbit : ∀ i, bitAt b.not.elems i = (!bitAt b.elems i && decide (i < b.bits)) := by
    intro i
    unfold BA.not
    simp only [BA.copy_eq]
    rw [bitAt_maskLast _ _ hl, bitAt_map_not]
    by_cases hi : i < b.bits
    · have : i / 64 < b.elems.length := by rw [hb.len]; exact lt_numElements hi
      simp [hi, this]
    · simp [hi]
  have hbits : b.not.bits = b.bits := by simp [BA.not, BA.copy_eq]
  refine ⟨⟨?_, ?_⟩, ?_⟩
  · rw [hbits]; simp [BA.not, BA.copy_eq, length_maskLast, hb.len]
  · intro i hi
    rw [hbits] at hi
    rw [hbit]; simp [show ¬ i < b.bits by omega]
  · apply abs_eq_of
    · simp [length_specNot, length_abs, hbits]
    · intro i hi
      rw [hbits] at hi
      rw [bget_specNot _ _ (by simpa [length_abs] using hi), hb.bget_abs, hbit]
      simp [hi]

theorem bitAt_goCopy (dst src : List Word) (i : Nat) :
    bitAt (goCopy dst src) i =
      if i / 64 < min dst.length src.length then bitAt src i else bitAt dst i := by
  unfold bitAt
  rw [getD_goCopy]
  split <;> rfl

/-- `Update`: well-formedness is kept (this is where the mask after `copy` matters);
the words that `o` also has come from `o`, the others stay. -/
theorem update_some_spec (a o : BA) (ha : a.WF) :
    ∃ c, update (some a) (some o) = some c ∧ c.WF ∧ c.bits = a.bits ∧
      ∀ i, i < a.bits → bget c.abs i =
        if i / 64 < o.elems.length then bitAt o.elems i else bitAt a.elems i := by
  have hl : (goCopy a.elems o.elems).length = numElements a.bits := by
    rw [length_goCopy, ha.len]
  refine ⟨_, rfl, ⟨?_, ?_⟩, rfl, ?_⟩
  · simp [length_maskLast, hl]
  · intro i hi
    simp only at hi ⊢
    rw [bitAt_maskLast _ _ hl]
    simp [show ¬ i < a.bits by omega]
  · intro i hi
    rw [bget_abs]
    simp only
    rw [bitAt_maskLast _ _ hl, bitAt_goCopy]
    have : i / 64 < a.elems.length := by rw [ha.len]; exact lt_numElements hi
    by_cases h : i / 64 < o.elems.length
    · rw [if_pos (by omega), if_pos h]; simp [hi]
    · rw [if_neg (by omega), if_neg h]; simp [hi]

/-! ### IsEmpty, IsFull -/

theorem word_eq_zero_iff (e : Word) : e = 0 ↔ ∀ k, k < 64 → e.getLsbD k = false := by
  constructor
  · intro h k _; subst h; simp
  · intro h
    apply BitVec.eq_of_getLsbD_eq
    intro k hk
    rw [h k hk]; simp

theorem not_pos_iff (e : Word) : (!decide (e > 0)) = true ↔ e = 0 := by
  simp only [Bool.not_eq_true', decide_eq_false_iff_not, gt_iff_lt]
  have := BitVec.pos_iff_ne_zero e
  constructor
  · intro h
    exact Decidable.byContradiction (fun hne => h (this.2 hne))
  · intro h hp
    exact (this.1 hp) h

theorem all_words_zero_iff (es : List Word) :
    es.all (fun e => !decide (e > 0)) = true ↔ ∀ i, bitAt es i = false := by
  rw [List.all_eq_true]
  constructor
  · intro h i
    rcases Nat.lt_or_ge (i / 64) es.length with h1 | h1
    · have hm : es[i / 64] ∈ es := List.getElem_mem h1
      have := (not_pos_iff _).1 (h _ hm)
      unfold bitAt
      rw [List.getD_eq_getElem?_getD, List.getElem?_eq_getElem h1]
      simp only [Option.getD_some]
      rw [this]; simp
    · exact bitAt_of_ge es i h1
  · intro h e he
    rw [not_pos_iff, word_eq_zero_iff]
    intro k hk
    obtain ⟨j, hj, rfl⟩ := List.getElem_of_mem he
    have := h (64 * j + k)
    unfold bitAt at this
    rw [show (64 * j + k) / 64 = j by omega, show (64 * j + k) % 64 = k by omega,
      List.getD_eq_getElem?_getD, List.getElem?_eq_getElem hj] at this
    simpa using this

theorem isEmpty_some_spec (b : BA) (hb : b.WF) :
    isEmpty (some b) = b.abs.all (fun x => !x) := by
  rw [Bool.eq_iff_iff]
  simp only [isEmpty]
  rw [all_words_zero_iff, List.all_eq_true]
  constructor
  · intro h x hx
    obtain ⟨i, hi, rfl⟩ := List.getElem_of_mem hx
    have h2 := bget_of_lt b.abs i hi
    rw [hb.bget_abs, h i] at h2
    rw [← h2]; rfl
  · intro h i
    rcases Nat.lt_or_ge i b.bits with hi | hi
    · have hi' : i < b.abs.length := by rw [length_abs]; exact hi
      have h2 := bget_of_lt b.abs i hi'
      rw [hb.bget_abs] at h2
      have := h _ (List.getElem_mem hi')
      rw [h2]
      simpa using this
    · exact hb.pad i hi

theorem abs_all_iff (b : BA) (p : Bool → Bool) :
    b.abs.all p = true ↔ ∀ i, i < b.bits → p (bitAt b.elems i) = true := by
  unfold BA.abs
  rw [List.all_map, List.all_eq_true]
  constructor
  · intro h i hi; exact h i (List.mem_range.2 hi)
  · intro h i hi; exact h i (List.mem_range.1 hi)

theorem word_allones_iff (e : Word) : ~~~e = 0 ↔ ∀ k, k < 64 → e.getLsbD k = true := by
  rw [word_eq_zero_iff]
  constructor
  · intro h k hk
    have := h k hk
    rw [BitVec.getLsbD_not] at this
    simpa [hk] using this
  · intro h k hk
    rw [BitVec.getLsbD_not, h k hk]; simp

/-- IsFull's test of the last word: `(w+1) & ((1<<k)-1) == 0` says the low `k` bits are all set -/
theorem last_full_iff (w : Word) (k : Nat) (hk1 : 1 ≤ k) (hk : k ≤ 64) :
    (w + 1) &&& (((1 : Word) <<< k) - 1) = 0 ↔ ∀ j, j < k → w.getLsbD j = true := by
  have hm : (((1 : Word) <<< k) - 1).toNat = 2 ^ k - 1 := by
    apply Nat.eq_of_testBit_eq
    intro j
    rw [Nat.testBit_two_pow_sub_one, ← BitVec.getLsbD, getLsbD_mask _ _ hk]
  have hdvd : 2 ^ k ∣ 2 ^ 64 := Nat.pow_dvd_pow 2 hk
  have h2 : 2 ≤ 2 ^ k := by
    calc 2 = 2 ^ 1 := rfl
      _ ≤ 2 ^ k := Nat.pow_le_pow_right (by omega) hk1
  have htn : ((w + 1) &&& (((1 : Word) <<< k) - 1)).toNat = (w.toNat + 1) % 2 ^ k := by
    rw [BitVec.toNat_and, hm, Nat.and_two_pow_sub_one_eq_mod, BitVec.toNat_add]
    have : BitVec.toNat (1 : Word) = 1 := rfl
    rw [this, Nat.mod_mod_of_dvd _ hdvd]
  have hz : (w + 1) &&& (((1 : Word) <<< k) - 1) = 0 ↔ (w.toNat + 1) % 2 ^ k = 0 := by
    rw [← htn]
    constructor
    · intro h; rw [h]; rfl
    · intro h; exact BitVec.eq_of_toNat_eq (by rw [h]; rfl)
  rw [hz]
  have hr : (w.toNat + 1) % 2 ^ k = 0 ↔ w.toNat % 2 ^ k = 2 ^ k - 1 := by
    have hlt : w.toNat % 2 ^ k < 2 ^ k := Nat.mod_lt _ (by omega)
    rw [Nat.add_mod, Nat.mod_eq_of_lt (show 1 < 2 ^ k by omega)]
    generalize w.toNat % 2 ^ k = r at *
    generalize 2 ^ k = p at *
    constructor
    · intro h
      rcases Nat.lt_or_ge (r + 1) p with h3 | h3
      · rw [Nat.mod_eq_of_lt h3] at h; omega
      · omega
    · intro h
      have : r + 1 = p := by omega
      rw [this, Nat.mod_self]
  rw [hr]
  constructor
  · intro h j hj
    have := congrArg (fun n => n.testBit j) h
    simp only [Nat.testBit_mod_two_pow, Nat.testBit_two_pow_sub_one, hj, decide_true,
      Bool.true_and] at this
    exact this
  · intro h
    apply Nat.eq_of_testBit_eq
    intro j
    rw [Nat.testBit_mod_two_pow, Nat.testBit_two_pow_sub_one]
    by_cases hj : j < k
    · have := h j hj
      unfold BitVec.getLsbD at this
      simp [hj, this]
    · simp [hj]

theorem all_dropLast_iff (p : Word → Bool) : ∀ es : List Word,
    es.dropLast.all p = true ↔ ∀ j, j + 1 < es.length → p (es.getD j 0) = true
  | [] => by simp
  | [x] => by simp
  | x :: y :: l => by
    rw [List.dropLast_cons_cons, List.all_cons, Bool.and_eq_true, all_dropLast_iff p (y :: l)]
    constructor
    · rintro ⟨h0, h⟩ j hj
      cases j with
      | zero => simpa using h0
      | succ j => simpa using h j (by simpa using hj)
    · intro h
      refine ⟨by simpa using h 0 (by simp), fun j hj => ?_⟩
      simpa using h (j + 1) (by simpa using hj)

theorem isFull_some_spec (b : BA) (hb : b.WF) : isFull (some b) = b.abs.all id := by
  have hlen := hb.len
  unfold numElements at hlen
  simp only [isFull]
  by_cases h0 : b.elems.length = 0
  · rw [if_pos h0]
    have : b.bits = 0 := by omega
    simp [BA.abs, this]
  · rw [if_neg h0, Bool.eq_iff_iff, Bool.and_eq_true, decide_eq_true_eq, all_dropLast_iff,
      last_full_iff _ _ (by omega) (by omega), abs_all_iff]
    constructor
    · rintro ⟨h1, h2⟩ i hi
      simp only [id]
      unfold bitAt
      rcases Nat.lt_or_ge (i / 64 + 1) b.elems.length with hj | hj
      · have := h1 _ hj
        rw [decide_eq_true_eq, word_allones_iff] at this
        exact this _ (by omega)
      · have : i / 64 = b.elems.length - 1 := by omega
        rw [this]
        exact h2 _ (by omega)
    · intro h
      constructor
      · intro j hj
        rw [decide_eq_true_eq, word_allones_iff]
        intro k hk
        have := h (64 * j + k) (by omega)
        simp only [id] at this
        unfold bitAt at this
        rwa [show (64 * j + k) / 64 = j by omega, show (64 * j + k) % 64 = k by omega] at this
      · intro j hj
        have := h (64 * (b.elems.length - 1) + j) (by omega)
        simp only [id] at this
        unfold bitAt at this
        rwa [show (64 * (b.elems.length - 1) + j) / 64 = b.elems.length - 1 by omega,
          show (64 * (b.elems.length - 1) + j) % 64 = j by omega] at this

/-! ### true indices -/

theorem bitAt_cons_lt (e : Word) (es : List Word) (j : Nat) (hj : j < 64) :
    bitAt (e :: es) j = e.getLsbD j := by
  unfold bitAt
  rw [show j / 64 = 0 by omega, show j % 64 = j by omega]; rfl

theorem bitAt_cons_add (e : Word) (es : List Word) (j : Nat) :
    bitAt (e :: es) (64 + j) = bitAt es j := by
  unfold bitAt
  rw [show (64 + j) / 64 = j / 64 + 1 by omega, show (64 + j) % 64 = j % 64 by omega]; rfl

theorem wordTrue_eq (e : Word) (es : List Word) (cur n : Nat) (hn : n ≤ 64) :
    wordTrue e cur n = ((List.range n).filter (fun j => bitAt (e :: es) j)).map (cur + ·) := by
  unfold wordTrue
  congr 1
  apply List.filter_congr
  intro j hj
  have : j < 64 := by have := List.mem_range.1 hj; omega
  rw [wordBit_eq _ _ this, bitAt_cons_lt _ _ _ this]

theorem trueIdxLoop_eq : ∀ (es : List Word) (cur m : Nat), es ≠ [] →
    (es.length - 1) * 64 < m → m ≤ es.length * 64 →
    trueIdxLoop es cur (cur + m) = ((List.range m).filter (fun j => bitAt es j)).map (cur + ·)
  | [], _, _, h, _, _ => absurd rfl h
  | [last], cur, m, _, _, h2 => by
    simp only [trueIdxLoop]
    rw [show cur + m - cur = m by omega]
    exact wordTrue_eq last [] cur m (by simpa using h2)
  | e :: e' :: rest, cur, m, _, h1, h2 => by
    simp only [List.length_cons] at h1 h2
    obtain ⟨m', rfl⟩ : ∃ m', m = 64 + m' := ⟨m - 64, by omega⟩
    simp only [trueIdxLoop]
    rw [show cur + (64 + m') = (cur + 64) + m' by omega,
      trueIdxLoop_eq (e' :: rest) (cur + 64) m' (by simp) (by simp only [List.length_cons]; omega)
        (by simp only [List.length_cons]; omega),
      List.range_add, List.filter_append, List.map_append, List.filter_map, List.map_map]
    congr 1
    · rw [← wordTrue_eq e (e' :: rest) cur 64 (Nat.le_refl _)]
      split
      · rename_i h0
        subst h0
        unfold wordTrue
        have : (List.range 64).filter (fun j => wordBit 0 j) = [] := by
          apply List.filter_eq_nil_iff.2
          intro j hj
          rw [wordBit_eq _ _ (List.mem_range.1 hj)]; simp
        rw [this]; rfl
      · rfl
    · have : ((fun j => bitAt (e :: e' :: rest) j) ∘ fun x => 64 + x) = fun j => bitAt (e' :: rest) j := by
        funext j; simp only [Function.comp]; exact bitAt_cons_add _ _ _
      rw [this]
      apply List.map_congr_left
      intro j _
      simp only [Function.comp]; omega

theorem trueIndices_some_spec (b : BA) (hb : b.WF) :
    trueIndices (some b) = specTrueIdx b.abs := by
  have hlen := hb.len
  simp only [trueIndices]
  rw [if_neg (by simp [hlen])]
  unfold specTrueIdx
  rw [length_abs]
  have hcongr : (List.range b.bits).filter (fun i => bget b.abs i) =
      (List.range b.bits).filter (fun j => bitAt b.elems j) :=
    List.filter_congr (fun i _ => hb.bget_abs i)
  rw [hcongr]
  unfold numElements at hlen
  by_cases h0 : b.elems = []
  · have : b.bits = 0 := by rw [h0] at hlen; simp at hlen; omega
    rw [h0, this]; rfl
  · have hpos : 0 < b.elems.length := List.length_pos_iff.2 h0
    have := trueIdxLoop_eq b.elems 0 b.bits h0 (by omega) (by omega)
    rw [Nat.zero_add] at this
    rw [this]
    simp

end GnoVerif.C48
