import GnoVerif.Proofs.C45Poly
/-!
C45 helper lemmas, part 2: iterating the linear part `shiftMix`.

* `iter_ne_zero`   : `shiftMix^k e ≠ 0` for a non-zero 30-bit `e` (injectivity);
* `iter_ne_cross`  : `shiftMix^k e ≠ 1 ⊕ 0x2bc830a3` for a non-zero 5-bit symbol `e`
  and EVERY `k` — one walk of 1024 steps along the orbit of that constant
  (kernel-evaluated on `Nat`), periodicity, and injectivity.
-/
namespace GnoVerif.C45

/-- `f` applied `n` times. -/
def iter {α : Type} (f : α → α) : Nat → α → α
  | 0, x => x
  | n + 1, x => iter f n (f x)

theorem iter_add {α : Type} (f : α → α) (a b : Nat) (x : α) : iter f (a + b) x = iter f b (iter f a x) := by
  induction a generalizing x with
  | zero => simp [iter]
  | succ a ih => rw [Nat.succ_add]; simp only [iter]; exact ih (f x)

theorem iter_succ' {α : Type} (f : α → α) (n : Nat) (x : α) : iter f (n + 1) x = f (iter f n x) := by
  rw [iter_add f n 1 x]; rfl

def Small (c : BitVec 32) : Prop := c.toNat < 2 ^ 30

theorem small_iter (k : Nat) (x : BitVec 32) (hx : Small x) : Small (iter shiftMix k x) := by
  induction k generalizing x with
  | zero => exact hx
  | succ k ih => exact ih _ (shiftMix_lt x)

theorem iter_shiftMix_xor (k : Nat) (a b : BitVec 32) :
    iter shiftMix k (a ^^^ b) = iter shiftMix k a ^^^ iter shiftMix k b := by
  induction k generalizing a b with
  | zero => rfl
  | succ k ih => simp only [iter]; rw [shiftMix_xor]; exact ih _ _

theorem iter_shiftMix_zero (k : Nat) : iter shiftMix k 0#32 = 0#32 := by
  induction k with
  | zero => rfl
  | succ k ih => simp only [iter]; rw [shiftMix_zero]; exact ih

theorem iter_injective (k : Nat) (a b : BitVec 32) (ha : Small a) (hb : Small b)
    (h : iter shiftMix k a = iter shiftMix k b) : a = b := by
  induction k generalizing a b with
  | zero => exact h
  | succ k ih =>
    simp only [iter] at h
    exact shiftMix_injective a b ha hb (ih _ _ (shiftMix_lt a) (shiftMix_lt b) h)

theorem iter_ne_zero (k : Nat) (e : BitVec 32) (he : Small e) (hne : e ≠ 0#32) :
    iter shiftMix k e ≠ 0#32 := by
  intro h
  apply hne
  apply iter_injective k e 0#32 he (by unfold Small; decide)
  rw [h, iter_shiftMix_zero]

/-! ### the same step on `Nat`, written with arithmetic the kernel evaluates natively -/

def genMixN (b : Nat) : Nat :=
  (b % 2 * 0x3b6a57b2) ^^^ (b / 2 % 2 * 0x26508e6d) ^^^ (b / 4 % 2 * 0x1ea119fa) ^^^
  (b / 8 % 2 * 0x3d4233dd) ^^^ (b / 16 % 2 * 0x2a1462b3)

def shiftMixN (c : Nat) : Nat := (c % 2 ^ 25 * 32) ^^^ genMixN (c / 2 ^ 25)

theorem ite_testBit (n i g : Nat) :
    (if n.testBit i = true then BitVec.ofNat 32 g else 0#32).toNat = n / 2 ^ i % 2 * (g % 2 ^ 32) := by
  rw [Nat.testBit_eq_decide_div_mod_eq]
  have : n / 2 ^ i % 2 = 0 ∨ n / 2 ^ i % 2 = 1 := by omega
  rcases this with h | h <;> simp [h]

theorem genMix_toNat (b : BitVec 32) : (genMix b).toNat = genMixN b.toNat := by
  simp only [genMix, genMixN, BitVec.getLsbD, BitVec.toNat_xor, gen0, gen1, gen2, gen3, gen4, ite_testBit]
  simp

theorem shiftMix_toNat (c : BitVec 32) : (shiftMix c).toNat = shiftMixN c.toNat := by
  unfold shiftMix shiftMixN
  rw [BitVec.toNat_xor, shiftPart_toNat, genMix_toNat, BitVec.toNat_ushiftRight, Nat.shiftRight_eq_div_pow]

theorem iter_toNat (k : Nat) (x : BitVec 32) : (iter shiftMix k x).toNat = iter shiftMixN k x.toNat := by
  induction k generalizing x with
  | zero => rfl
  | succ k ih => simp only [iter]; rw [ih, shiftMix_toNat]

/-- walk `2^d` points of the orbit of `x`; `none` as soon as a point is below 32. -/
def walk : Nat → Nat → Option Nat
  | 0, x => if x < 32 then none else some (shiftMixN x)
  | d + 1, x =>
    match walk d x with
    | none => none
    | some y => walk d y

theorem walk_spec (d : Nat) (x y : Nat) (h : walk d x = some y) :
    (∀ j, j < 2 ^ d → 32 ≤ iter shiftMixN j x) ∧ y = iter shiftMixN (2 ^ d) x := by
  induction d generalizing x y with
  | zero =>
    simp only [walk] at h
    split at h
    · cases h
    · rename_i hx
      cases h
      refine ⟨?_, rfl⟩
      intro j hj
      have : j = 0 := by omega
      subst this
      simp only [iter]; omega
  | succ d ih =>
    simp only [walk] at h
    split at h
    · cases h
    · rename_i z hz
      obtain ⟨h1, h2⟩ := ih x z hz
      obtain ⟨h3, h4⟩ := ih z y h
      subst h2
      refine ⟨?_, ?_⟩
      · intro j hj
        by_cases hlt : j < 2 ^ d
        · exact h1 j hlt
        · have : j = 2 ^ d + (j - 2 ^ d) := by omega
          rw [this, iter_add]
          apply h3
          rw [Nat.pow_succ] at hj
          omega
      · rw [h4, ← iter_add, Nat.pow_succ]; congr 1; omega

/-- `1 ⊕ 0x2bc830a3`: the difference between the two accepted checksum constants. -/
def crossN : Nat := 0x2bc830a2

/-- 1024 consecutive points of the orbit of `crossN` are all ≥ 32, and the orbit closes up
(`A^1024 T = A T`). -/
theorem walk_cross : walk 10 crossN = some (shiftMixN crossN) := by decide +kernel

/-- the difference between the two accepted checksum constants, as a state. -/
def cross : BitVec 32 := const0 ^^^ constM

theorem cross_toNat : cross.toNat = crossN := by decide
theorem cross_small : Small cross := by unfold Small; decide

theorem iter_cross_ge (j : Nat) (hj : j < 1024) : 32 ≤ (iter shiftMix j cross).toNat := by
  rw [iter_toNat, cross_toNat]
  exact (walk_spec 10 crossN _ walk_cross).1 j hj

theorem cross_period : iter shiftMix 1023 cross = cross := by
  have h := (walk_spec 10 crossN _ walk_cross).2
  have h2 : iter shiftMix 1024 cross = shiftMix cross := by
    apply BitVec.eq_of_toNat_eq
    rw [iter_toNat, shiftMix_toNat, cross_toNat]
    exact h.symm
  rw [show (1024 : Nat) = 1023 + 1 from rfl, iter_succ'] at h2
  exact shiftMix_injective _ _ (small_iter 1023 cross cross_small) cross_small h2

theorem cross_period_mul (n : Nat) : iter shiftMix (1023 * n) cross = cross := by
  induction n with
  | zero => rfl
  | succ n ih => rw [Nat.mul_succ, iter_add, ih, cross_period]

theorem iter_cross_mod (m : Nat) : iter shiftMix m cross = iter shiftMix (m % 1023) cross := by
  have : m = 1023 * (m / 1023) + m % 1023 := by omega
  rw [this, iter_add, cross_period_mul]
  congr 1
  omega

/-- a non-zero 5-bit symbol difference, pushed through any number of rounds, never equals the
difference of the two accepted constants. -/
theorem iter_ne_cross (k : Nat) (e : BitVec 32) (he : e.toNat < 32) : iter shiftMix k e ≠ cross := by
  intro h
  have hs : Small e := by unfold Small; omega
  have h1 : cross = iter shiftMix k (iter shiftMix (1022 * k) cross) := by
    rw [← iter_add]
    have : 1022 * k + k = 1023 * k := by omega
    rw [this, cross_period_mul]
  rw [h1] at h
  have h2 := iter_injective k _ _ hs (small_iter _ _ cross_small) h
  rw [iter_cross_mod] at h2
  have h3 := iter_cross_ge (1022 * k % 1023) (by omega)
  rw [← h2] at h3
  omega

end GnoVerif.C45
