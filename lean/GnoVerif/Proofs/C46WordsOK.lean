import GnoVerif.Proofs.C46Words
import GnoVerif.Proofs.C46Bip39
/-! Proofs.C46WordsOK — the generated word list satisfies what the BIP-39 theorems need. -/
namespace GnoVerif.C46
open GnoVerif.Gen.C46 (wordList)

theorem wordList_ok : WordListOK wordList := ⟨wordList_length, wordList_nodup, wordList_word_ok⟩

/-- "zzz" is not a listed word -/
theorem zzz_not_listed : ([122, 122, 122] : Bytes) ∉ wordList := by decide +kernel

end GnoVerif.C46
