/-
C37, T tie: the clipping adders regenerated from validator_set.go by the T-int translator
(Gen/C37.lean, over BitVec 64) compute exactly the model's `clip (a ± b)`.
-/
import GnoVerif.Gen.C37
import GnoVerif.Proofs.C37Basic
namespace GnoVerif.C37
open GnoVerif GnoVerif.GoInt

theorem slt_dec (x y : BitVec 64) : x.slt y = decide (x.toInt < y.toInt) := rfl

theorem bmod64_mid {x : Int} (h1 : -9223372036854775808 ≤ x) (h2 : x ≤ 9223372036854775807) :
    x.bmod (2 ^ 64) = x := by
  rw [Int.bmod_def]
  split <;> omega

theorem bmod64_hi {x : Int} (h1 : 9223372036854775808 ≤ x) (h2 : x ≤ 18446744073709551615) :
    x.bmod (2 ^ 64) = x - 18446744073709551616 := by
  rw [Int.bmod_def]
  split <;> omega

theorem bmod64_lo {x : Int} (h1 : -18446744073709551616 ≤ x) (h2 : x < -9223372036854775808) :
    x.bmod (2 ^ 64) = x + 18446744073709551616 := by
  rw [Int.bmod_def]
  split <;> omega

theorem lit_toInt (v : Int) (h1 : -9223372036854775808 ≤ v) (h2 : v ≤ 9223372036854775807) :
    (lit 64 v).toInt = v := by
  unfold lit
  rw [BitVec.toInt_ofInt]
  exact bmod64_mid h1 h2

theorem gen_safeAddClip (a b : BitVec 64) : (Gen.C37.safeAddClip a b).toInt = clip (a.toInt + b.toInt) := by
  have ha := BitVec.toInt_lt (x := a); have ha' := BitVec.le_toInt (x := a)
  have hb := BitVec.toInt_lt (x := b); have hb' := BitVec.le_toInt (x := b)
  have e0 : (lit 64 0).toInt = 0 := lit_toInt 0 (by omega) (by omega)
  have emax : (lit 64 9223372036854775807).toInt = 9223372036854775807 := lit_toInt _ (by omega) (by omega)
  have emin : (lit 64 (-9223372036854775808)).toInt = -9223372036854775808 := lit_toInt _ (by omega) (by omega)
  have s3 : (a + b).toInt = (a.toInt + b.toInt).bmod (2^64) := BitVec.toInt_add a b
  have i1 : (0 < b.toInt ∧ (lit 64 9223372036854775807 - b).toInt < a.toInt) ↔
      (0 < b.toInt ∧ a.toInt + b.toInt > 9223372036854775807) := by
    constructor
    · rintro ⟨h1, h2⟩
      rw [BitVec.toInt_sub, emax, bmod64_mid (by omega) (by omega)] at h2
      exact ⟨h1, by omega⟩
    · rintro ⟨h1, h2⟩
      rw [BitVec.toInt_sub, emax, bmod64_mid (by omega) (by omega)]
      exact ⟨h1, by omega⟩
  have i2 : (b.toInt < 0 ∧ a.toInt < (lit 64 (-9223372036854775808) - b).toInt) ↔
      (b.toInt < 0 ∧ a.toInt + b.toInt < -9223372036854775808) := by
    constructor
    · rintro ⟨h1, h2⟩
      rw [BitVec.toInt_sub, emin, bmod64_mid (by omega) (by omega)] at h2
      exact ⟨h1, by omega⟩
    · rintro ⟨h1, h2⟩
      rw [BitVec.toInt_sub, emin, bmod64_mid (by omega) (by omega)]
      exact ⟨h1, by omega⟩
  unfold Gen.C37.safeAddClip Gen.C37.safeAdd
  simp only [GoInt.gt, GoInt.lt, if_true, slt_dec, e0, Bool.and_eq_true, decide_eq_true_eq, i1, i2]
  unfold clip maxInt64 minInt64
  by_cases c1 : (0 < b.toInt ∧ a.toInt + b.toInt > 9223372036854775807)
  · simp only [c1, and_self, if_true]
    rw [if_neg (by omega), emax]
  · simp only [c1, if_false]
    by_cases c2 : (b.toInt < 0 ∧ a.toInt + b.toInt < -9223372036854775808)
    · simp only [c2, and_self, if_true]
      rw [emin, if_neg (by omega)]
    · simp only [c2, if_false, Bool.false_eq_true]
      rw [s3, bmod64_mid (by omega) (by omega), if_neg (by omega), if_neg (by omega)]

theorem gen_safeSubClip (a b : BitVec 64) : (Gen.C37.safeSubClip a b).toInt = clip (a.toInt - b.toInt) := by
  have ha := BitVec.toInt_lt (x := a); have ha' := BitVec.le_toInt (x := a)
  have hb := BitVec.toInt_lt (x := b); have hb' := BitVec.le_toInt (x := b)
  have e0 : (lit 64 0).toInt = 0 := lit_toInt 0 (by omega) (by omega)
  have emax : (lit 64 9223372036854775807).toInt = 9223372036854775807 := lit_toInt _ (by omega) (by omega)
  have emin : (lit 64 (-9223372036854775808)).toInt = -9223372036854775808 := lit_toInt _ (by omega) (by omega)
  have s3 : (a - b).toInt = (a.toInt - b.toInt).bmod (2^64) := BitVec.toInt_sub
  have i1 : (0 < b.toInt ∧ a.toInt < (lit 64 (-9223372036854775808) + b).toInt) ↔
      (0 < b.toInt ∧ a.toInt - b.toInt < -9223372036854775808) := by
    constructor
    · rintro ⟨h1, h2⟩
      rw [BitVec.toInt_add, emin, bmod64_mid (by omega) (by omega)] at h2
      exact ⟨h1, by omega⟩
    · rintro ⟨h1, h2⟩
      rw [BitVec.toInt_add, emin, bmod64_mid (by omega) (by omega)]
      exact ⟨h1, by omega⟩
  have i2 : (b.toInt < 0 ∧ (lit 64 9223372036854775807 + b).toInt < a.toInt) ↔
      (b.toInt < 0 ∧ a.toInt - b.toInt > 9223372036854775807) := by
    constructor
    · rintro ⟨h1, h2⟩
      rw [BitVec.toInt_add, emax, bmod64_mid (by omega) (by omega)] at h2
      exact ⟨h1, by omega⟩
    · rintro ⟨h1, h2⟩
      rw [BitVec.toInt_add, emax, bmod64_mid (by omega) (by omega)]
      exact ⟨h1, by omega⟩
  unfold Gen.C37.safeSubClip Gen.C37.safeSub
  simp only [GoInt.gt, GoInt.lt, if_true, slt_dec, e0, Bool.and_eq_true, decide_eq_true_eq, i1, i2]
  unfold clip maxInt64 minInt64
  by_cases c1 : (0 < b.toInt ∧ a.toInt - b.toInt < -9223372036854775808)
  · simp only [c1, and_self, if_true]
    rw [emin, if_neg (by omega)]
  · simp only [c1, if_false]
    by_cases c2 : (b.toInt < 0 ∧ a.toInt - b.toInt > 9223372036854775807)
    · simp only [c2, and_self, if_true]
      rw [if_neg (by omega), emax]
    · simp only [c2, if_false, Bool.false_eq_true]
      rw [s3, bmod64_mid (by omega) (by omega), if_neg (by omega), if_neg (by omega)]

end GnoVerif.C37
