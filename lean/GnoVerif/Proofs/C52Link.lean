import GnoVerif.Proofs.C52Esc
import GnoVerif.Proofs.C52Tok
import GnoVerif.Proofs.C52Url
import GnoVerif.Proofs.C52Dec
/-!
C52 helper lemmas, part 5: what the tokenizer sees in the element `renderGnoLink` writes.

The opening tag is exactly ONE start tag `a` whose attributes are `href` (the value of
`linkHref`), optionally `rel`, optionally `title` (the escaped title) — whatever the
destination and the title are: neither can add an attribute or a tag.
-/
namespace GnoVerif.C52

/-- escape first, check the escaped bytes: never script-capable as the browser reads it -/
theorem hrefEscCheck_safe (lk lk' : Lookup) (hk : KnowsBasic lk') (dest : Bytes) :
    scriptCapable (decodeRefs lk' (hrefEscCheck lk dest)) = false := by
  unfold hrefEscCheck
  simp only
  by_cases hd : isDangerousURL (urlEscape lk dest) = true
  · rw [if_pos hd]; rfl
  · rw [if_neg hd, decodeRefs_gesc lk' hk]
    have hclean : Pre37Clean (urlEscape lk dest) :=
      pre37Clean_of_cleanPrefix _ (escLoop_clean _)
    rw [scriptCapable_nulFix _ hclean]
    cases hv : schemeVerdict (urlEscape lk dest) with
    | false => rfl
    | true => exact absurd (dangerous_of_verdict _ hv) hd

theorem linkHref_no_quote (lk : Lookup) (dest : Bytes) : ∀ b ∈ linkHref lk dest, b ≠ 34 := by
  intro b hb
  unfold linkHref hrefEscCheck at hb
  simp only at hb
  split at hb
  · simp at hb
  · exact (gesc_clean _ b hb).2.2.1

/-- the tokenizer state inside the value of `href` of an `<a` tag, with `v` (reversed) read so far -/
def inHref (rawName rawBuf : Bytes) (out : List Tag) (v : Bytes) : Tok :=
  { st := .attrDQ, closing := false, name := [97], attrs := [], hasCur := true,
    an := [102, 101, 114, 104], av := v, rawName := rawName, rawBuf := rawBuf, out := out }

/-- the state after a complete start tag `a` with attributes `as` -/
def afterA (out : List Tag) (as : List (Bytes × Bytes)) : Tok :=
  { st := .data, out := { name := [97], closing := false, attrs := as } :: out }

def relBytes : Bytes := B!"noopener nofollow ugc"

theorem gesc_rel : gesc relBytes = relBytes := by decide

theorem run_close_plain (rn rb : Bytes) (out : List Tag) (v : Bytes) :
    run (inHref rn rb out v) (B!"\">") = afterA out [(B!"href", v.reverse)] := by
  simp [run, step, inHref, afterA, emitTag, finishAttr, rawTextElems, isWs]

theorem run_close_rel (rn rb : Bytes) (out : List Tag) (v : Bytes) :
    run (inHref rn rb out v) (B!"\" rel=\"noopener nofollow ugc\">") =
      afterA out [(B!"href", v.reverse), (B!"rel", relBytes)] := by
  simp [run, step, inHref, afterA, emitTag, finishAttr, rawTextElems, stepBeforeAttrName, stepAfterAttrName,
    startAttr, isWs, lowerB, relBytes]

/-- inside the value of `title`, after `href` (and possibly `rel`) -/
def inTitle (rn rb : Bytes) (out : List Tag) (as : List (Bytes × Bytes)) (v : Bytes) : Tok :=
  { st := .attrDQ, closing := false, name := [97], attrs := as, hasCur := true,
    an := [101, 108, 116, 105, 116], av := v, rawName := rn, rawBuf := rb, out := out }

theorem run_title_plain (rn rb : Bytes) (out : List Tag) (v : Bytes) :
    run (inHref rn rb out v) (B!"\" title=\"") = inTitle rn rb out [(B!"href", v.reverse)] [] := by
  simp [run, step, inHref, inTitle, finishAttr, stepBeforeAttrName, stepAfterAttrName, startAttr, isWs, lowerB]

theorem run_title_rel (rn rb : Bytes) (out : List Tag) (v : Bytes) :
    run (inHref rn rb out v) (B!"\" rel=\"noopener nofollow ugc\" title=\"") =
      inTitle rn rb out [(B!"rel", relBytes), (B!"href", v.reverse)] [] := by
  simp [run, step, inHref, inTitle, finishAttr, stepBeforeAttrName, stepAfterAttrName, startAttr, isWs, lowerB,
    relBytes]

theorem run_title_close (rn rb : Bytes) (out : List Tag) (as : List (Bytes × Bytes)) (v : Bytes)
    (hdup : as.any (fun a => a.1 == B!"title") = false) :
    run (inTitle rn rb out as v) (B!"\">") = afterA out (((B!"title", v.reverse) :: as).reverse) := by
  simp [run, step, inTitle, afterA, emitTag, finishAttr, rawTextElems, hdup, isWs]

/-- `<a href="` read from the data state -/
theorem run_a_href (t : Tok) (h : t.st = .data) :
    run t (B!"<a href=\"") = inHref t.rawName t.rawBuf t.out [] := by
  cases t; simp only at h; subst h
  simp [run, step, stepData, stepBeforeAttrName, stepAfterAttrName, startAttr, finishAttr, isAlpha, isWs, lowerB,
    inHref]

theorem run_href_value (rn rb : Bytes) (out : List Tag) (v : Bytes) (hv : ∀ b ∈ v, b ≠ 34) :
    run (inHref rn rb out []) v = inHref rn rb out v.reverse := by
  rw [run_attrDQ _ _ rfl hv]; simp [inHref]

theorem run_title_value (rn rb : Bytes) (out : List Tag) (as : List (Bytes × Bytes)) (v : Bytes)
    (hv : ∀ b ∈ v, b ≠ 34) : run (inTitle rn rb out as []) v = inTitle rn rb out as v.reverse := by
  rw [run_attrDQ _ _ rfl hv]; simp [inTitle]

theorem gesc_rel_lit : gesc (B!"noopener nofollow ugc") = B!"noopener nofollow ugc" := by decide

/-- The opening tag `renderGnoLink` writes is read as exactly one start tag `a` with the
    attributes `linkAttrs` — for every destination and every title. -/
theorem linkOpen_run (lk : Lookup) (n : LinkIn) (hty : n.ty ≠ 0) (t : Tok) (h : t.st = .data) :
    run t (linkOpen lk n) = afterA t.out (linkAttrs lk n) := by
  have hH := linkHref_no_quote lk n.dest
  unfold linkOpen linkAttrs
  rw [if_neg hty]
  by_cases hrel : n.ty = 1 ∨ n.untrusted = true
  · rw [if_pos hrel]
    cases htitle : n.title with
    | none =>
      have e : B!"<a href=\"" ++ linkHref lk n.dest ++ [34] ++
            renderAttrs ([(B!"rel", B!"noopener nofollow ugc")] ++ []) ++ [62]
          = B!"<a href=\"" ++ (linkHref lk n.dest ++ B!"\" rel=\"noopener nofollow ugc\">") := by
        simp [renderAttrs, renderAttr, gesc_rel_lit]
      simp only [e]
      rw [run_append, run_a_href t h, run_append, run_href_value _ _ _ _ hH, run_close_rel]
      simp [relBytes]
    | some ti =>
      have hT : ∀ b ∈ gesc ti, b ≠ 34 := fun b hb => (gesc_clean ti b hb).2.2.1
      have e : B!"<a href=\"" ++ linkHref lk n.dest ++ [34] ++
            renderAttrs ([(B!"rel", B!"noopener nofollow ugc")] ++ [(B!"title", ti)]) ++ [62]
          = B!"<a href=\"" ++ (linkHref lk n.dest ++
              (B!"\" rel=\"noopener nofollow ugc\" title=\"" ++ (gesc ti ++ B!"\">"))) := by
        simp [renderAttrs, renderAttr, gesc_rel_lit]
      simp only [e]
      rw [run_append, run_a_href t h, run_append, run_href_value _ _ _ _ hH, run_append, run_title_rel,
        run_append, run_title_value _ _ _ _ _ hT, run_title_close _ _ _ _ _ (by simp)]
      simp [relBytes]
  · rw [if_neg hrel]
    cases htitle : n.title with
    | none =>
      have e : B!"<a href=\"" ++ linkHref lk n.dest ++ [34] ++ renderAttrs ([] ++ []) ++ [62]
          = B!"<a href=\"" ++ (linkHref lk n.dest ++ B!"\">") := by
        simp [renderAttrs]
      simp only [e]
      rw [run_append, run_a_href t h, run_append, run_href_value _ _ _ _ hH, run_close_plain]
      simp
    | some ti =>
      have hT : ∀ b ∈ gesc ti, b ≠ 34 := fun b hb => (gesc_clean ti b hb).2.2.1
      have e : B!"<a href=\"" ++ linkHref lk n.dest ++ [34] ++ renderAttrs ([] ++ [(B!"title", ti)]) ++ [62]
          = B!"<a href=\"" ++ (linkHref lk n.dest ++ (B!"\" title=\"" ++ (gesc ti ++ B!"\">"))) := by
        simp [renderAttrs, renderAttr]
      simp only [e]
      rw [run_append, run_a_href t h, run_append, run_href_value _ _ _ _ hH, run_append, run_title_plain,
        run_append, run_title_value _ _ _ _ _ hT, run_title_close _ _ _ _ _ (by simp)]
      simp

/-! ## the rest of the element: constant icons and `</a>` -/

theorem afterA_eq_app (out : List Tag) (as : List (Bytes × Bytes)) :
    afterA out as = app {} ({ name := [97], closing := false, attrs := as } :: out) := rfl

/-- a tag that is harmless whatever the entity table is: its URL attributes contain no `&` -/
def attrPlainOK (a : Bytes × Bytes) : Bool :=
  !isEventAttr a.1 && (!urlAttrs.contains a.1 || (!a.2.contains 38 && !scriptCapable a.2))

def tagPlainOK (t : Tag) : Bool :=
  t.closing || (!forbiddenTags.contains t.name && t.attrs.all attrPlainOK)

theorem decodeRefsAux_noamp (lk : Lookup) : ∀ (f : Nat) (s : Bytes), s.contains 38 = false →
    decodeRefsAux lk f s = s
  | 0, s, _ => rfl
  | _ + 1, [], _ => rfl
  | f + 1, c :: r, h => by
    have hc : c ≠ 38 := by
      intro e; subst e; simp at h
    have hr : r.contains 38 = false := by
      simp only [List.contains_cons, Bool.or_eq_false_iff] at h
      exact h.2
    simp [decodeRefsAux, hc, decodeRefsAux_noamp lk f r hr]

theorem attrProblem_of_plain (lk : Lookup) (a : Bytes × Bytes) (h : attrPlainOK a = true) :
    attrProblem lk a = 0 := by
  unfold attrPlainOK at h
  simp only [Bool.and_eq_true, Bool.or_eq_true, Bool.not_eq_true'] at h
  obtain ⟨h1, h2⟩ := h
  unfold attrProblem
  rw [if_neg (by simp [h1])]
  rcases h2 with h2 | ⟨h3, h4⟩
  · rw [h2]; simp
  · have : decodeRefs lk a.2 = a.2 := decodeRefsAux_noamp lk _ _ h3
    simp [this, h4]

theorem foldr_first_zero (ps : List Nat) (h : ∀ p ∈ ps, p = 0) :
    ps.foldr (fun p acc => if p ≠ 0 then p else acc) 0 = 0 := by
  induction ps with
  | nil => rfl
  | cons p r ih =>
    have hp : p = 0 := h p (by simp)
    simp only [List.foldr]
    rw [ih (fun q hq => h q (by simp [hq]))]
    simp [hp]

theorem tagProblem_of_plain (lk : Lookup) (t : Tag) (h : tagPlainOK t = true) : tagProblem lk t = 0 := by
  unfold tagPlainOK at h
  unfold tagProblem
  cases hc : t.closing with
  | true => simp
  | false =>
    simp only [hc, Bool.false_or, Bool.and_eq_true, Bool.not_eq_true'] at h
    obtain ⟨h1, h2⟩ := h
    simp only [h1, Bool.not_false, Bool.and_false, Bool.false_eq_true, if_false]
    apply foldr_first_zero
    intro p hp
    obtain ⟨a, ha, rfl⟩ := List.mem_map.1 hp
    exact attrProblem_of_plain lk a (List.all_eq_true.1 h2 a ha)

theorem firstProblem_zero (lk : Lookup) (ts : List Tag) (h : ∀ t ∈ ts, tagProblem lk t = 0) :
    firstProblem lk ts = 0 := by
  unfold firstProblem
  apply foldr_first_zero
  intro p hp
  obtain ⟨t, ht, rfl⟩ := List.mem_map.1 hp
  exact h t ht

/-- the closing halves `renderGnoLink` can write -/
def closeVariants : List Bytes :=
  [[], [iconExternal], [iconInternal], [iconUser], [iconTx], [iconInternal, iconTx], [iconUser, iconTx]].map
    (fun is => is.flatMap renderIcon ++ B!"</a>")

theorem getLinkIcons_mem (n : LinkIn) :
    (getLinkIcons n).flatMap renderIcon ++ B!"</a>" ∈ closeVariants := by
  unfold getLinkIcons closeVariants
  by_cases hu : n.untrusted = true
  · rw [if_pos hu]
    by_cases h1 : n.ty = 1 <;> simp [h1]
  · rw [if_neg hu]
    by_cases h1 : n.ty = 1
    · simp [h1]
    · by_cases h3 : n.ty = 3
      · by_cases hh : n.help = true <;> simp [h3, hh]
      · by_cases h4 : n.ty = 4
        · by_cases hh : n.help = true <;> simp [h4, hh]
        · by_cases hh : n.help = true <;> simp [h1, h3, h4, hh]

set_option maxRecDepth 100000 in
theorem closeVariants_plain : ∀ bs ∈ closeVariants, (tokenize bs).all tagPlainOK = true := by decide

theorem linkClose_mem (n : LinkIn) (hty : n.ty ≠ 0) : linkClose n ∈ closeVariants := by
  unfold linkClose; rw [if_neg hty]; exact getLinkIcons_mem n

/-! ## the whole element -/

theorem linkAttrs_safe (lk lk' : Lookup) (hk : KnowsBasic lk') (n : LinkIn) :
    ∀ a ∈ linkAttrs lk n, attrProblem lk' a = 0 := by
  intro a ha
  unfold linkAttrs at ha
  simp only [List.mem_append, List.mem_singleton] at ha
  rcases ha with (ha | ha) | ha
  · subst ha
    have hsafe : scriptCapable (decodeRefs lk' (linkHref lk n.dest)) = false :=
      hrefEscCheck_safe lk lk' hk n.dest
    simp [attrProblem, isEventAttr, hsafe]
  · split at ha
    · simp only [List.mem_singleton] at ha
      subst ha
      simp [attrProblem, isEventAttr, urlAttrs]
    · simp at ha
  · split at ha
    · simp only [List.mem_singleton] at ha
      subst ha
      simp [attrProblem, isEventAttr, urlAttrs]
    · simp at ha

theorem linkOpen_tag_safe (lk lk' : Lookup) (hk : KnowsBasic lk') (n : LinkIn) :
    tagProblem lk' { name := [97], closing := false, attrs := linkAttrs lk n } = 0 := by
  unfold tagProblem
  have hf : forbiddenTags.contains [97] = false := by decide
  simp only [hf, Bool.not_false, Bool.and_false, Bool.false_eq_true, if_false]
  apply foldr_first_zero
  intro p hp
  obtain ⟨a, ha, rfl⟩ := List.mem_map.1 hp
  exact linkAttrs_safe lk lk' hk n a ha

theorem link_tokens (lk : Lookup) (n : LinkIn) (hty : n.ty ≠ 0) (txt : Bytes) (htxt : ∀ b ∈ txt, b ≠ 60) :
    tokenize (renderGnoLink lk n txt) =
      { name := [97], closing := false, attrs := linkAttrs lk n } :: tokenize (linkClose n) := by
  unfold renderGnoLink tokenize
  rw [if_neg hty, run_append, run_append, linkOpen_run lk n hty {} rfl,
    run_data _ txt rfl htxt, afterA_eq_app, run_app]
  simp [app]

end GnoVerif.C52
