import GnoVerif.Model.C08Coins
/-! C08 — string lemmas on realm denominations `"/" + pkgPath + ":" + base`. -/
namespace GnoVerif.C08

theorem hasPrefix_split : ∀ (s p : Str), hasPrefix s p = true → s = p ++ s.drop p.length
  | _, [], _ => by simp
  | [], _ :: _, h => by simp [hasPrefix] at h
  | c :: s, d :: p, h => by
    simp only [hasPrefix, Bool.and_eq_true, beq_iff_eq] at h
    have := hasPrefix_split s p h.2
    simp only [List.cons_append, List.length_cons, List.drop_succ_cons]
    rw [← this, h.1]

theorem hasPrefix_append (p r : Str) : hasPrefix (p ++ r) p = true := by
  induction p with
  | nil => cases r <;> simp [hasPrefix]
  | cons c p ih => simp [hasPrefix, ih]

/-- a valid base name has no colon (it is lowercase letters and digits) -/
theorem validBase_no_colon (b : Str) (h : validBaseDenom b = true) : ∀ c ∈ b, c ≠ ':' := by
  unfold validBaseDenom at h
  cases b with
  | nil => intro c hc; cases hc
  | cons x rest =>
    simp only [Bool.and_eq_true, decide_eq_true_eq] at h
    have hx := h.2.1
    have hr := h.2.2
    intro c hc hcolon
    subst hcolon
    rcases List.mem_cons.mp hc with h1 | h1
    · subst h1; revert hx; decide
    · have := List.all_eq_true.mp hr ':' h1
      revert this; decide

theorem append_colon_inj : ∀ (p q bp bq : Str), (∀ c ∈ bp, c ≠ ':') → (∀ c ∈ bq, c ≠ ':') →
    p ++ ':' :: bp = q ++ ':' :: bq → p = q
  | [], [], _, _, _, _, _ => rfl
  | [], c :: q, bp, bq, hp, _, h => by
    simp only [List.nil_append, List.cons_append, List.cons.injEq] at h
    exact absurd rfl (hp ':' (by rw [h.2]; simp))
  | c :: p, [], bp, bq, _, hq, h => by
    simp only [List.nil_append, List.cons_append, List.cons.injEq] at h
    exact absurd rfl (hq ':' (by rw [← h.2]; simp))
  | c :: p, c' :: q, bp, bq, hp, hq, h => by
    simp only [List.cons_append, List.cons.injEq] at h
    rw [h.1, append_colon_inj p q bp bq hp hq h.2]

theorem issuable_shape (p d : Str) (h : issuable p d = true) :
    ∃ base, d = '/' :: (p ++ ':' :: base) ∧ validBaseDenom base = true := by
  unfold issuable assertCoinDenom at h
  split at h
  · simp [Except.isOk, Except.toBool] at h
  · rename_i hp
    split at h
    · simp [Except.isOk, Except.toBool] at h
    · rename_i hb
      refine ⟨d.drop (denomPrefix p).length, ?_, by simpa using hb⟩
      have := hasPrefix_split d (denomPrefix p) (by simpa using hp)
      rw [this]
      simp [denomPrefix]

end GnoVerif.C08
