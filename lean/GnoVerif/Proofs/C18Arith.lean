import GnoVerif.Proofs.C18Canon
/-! Characterisation of `AddUnsafe`/`Add`/`SubUnsafe`/`Sub` outcomes by the denoted functions. -/
namespace GnoVerif.C18
open GnoVerif

theorem represents_unique {R R' : Coins} {f : Denom → Int} (h : Represents R f) (h' : Represents R' f) : R = R' :=
  canonical_unique h.1 h'.1 (fun d => by rw [h.2, h'.2])

/-- outcome of an unchecked merge whose exact per-denomination result is `f`. -/
structure UnsafeChar (x : Except Err Coins) (f : Denom → Int) : Prop where
  err : ∀ e, x = .error e → e = .overflow
  err_iff : (∃ e, x = .error e) ↔ Overflows f
  ok_iff : ∀ R, x = .ok R ↔ ¬ Overflows f ∧ Represents R f

theorem addUnsafe_char {A B : Coins} (hA : Sorted A) (hB : Sorted B) :
    UnsafeChar (addUnsafe A B) (fun d => val A d + val B d) := by
  have post := addUnsafe_post A B hA hB
  cases h : addUnsafe A B with
  | error e =>
    rw [h] at post
    obtain ⟨he, hd⟩ := post
    refine ⟨?_, ?_, ?_⟩
    · intro e' h'; cases h'; exact he
    · exact ⟨fun _ => hd, fun _ => ⟨e, rfl⟩⟩
    · intro R
      constructor
      · intro h'; cases h'
      · intro ⟨hno, _⟩; exact absurd hd hno
  | ok R0 =>
    rw [h] at post
    obtain ⟨h1, h2, h3, h4, _⟩ := post
    have hno : ¬ Overflows (fun d => val A d + val B d) := fun ⟨d, hd⟩ => hd (h1 d)
    have hrep : Represents R0 (fun d => val A d + val B d) := ⟨⟨h2, h3⟩, h4⟩
    refine ⟨?_, ?_, ?_⟩
    · intro e' h'; cases h'
    · constructor
      · intro ⟨e, h'⟩; cases h'
      · intro ho; exact absurd ho hno
    · intro R
      constructor
      · intro h'; cases h'; exact ⟨hno, hrep⟩
      · intro ⟨_, hr⟩; rw [represents_unique hr hrep]

/-- the validity check `Add`/`Sub` put behind the unchecked merge. -/
def checked (x : Except Err Coins) : Except Err Coins :=
  match x with
  | .error e => .error e
  | .ok r => if validate r then .ok r else .error .invalid

theorem add_eq_checked (A B : Coins) : add A B = checked (addUnsafe A B) := rfl
theorem sub_eq_checked (A B : Coins) : sub A B = checked (subUnsafe A B) := rfl

structure CheckedChar (x : Except Err Coins) (f : Denom → Int) : Prop where
  overflow_iff : x = .error .overflow ↔ Overflows f
  invalid_iff : x = .error .invalid ↔ ¬ Overflows f ∧ InvalidFn f
  err : ∀ e, x = .error e → e = .overflow ∨ e = .invalid
  ok_iff : ∀ R, x = .ok R ↔ ¬ Overflows f ∧ ¬ InvalidFn f ∧ Represents R f

theorem represents_valid_iff {R : Coins} {f : Denom → Int} (h : Represents R f) : Valid R ↔ ¬ InvalidFn f := by
  rw [valid_iff_val h.1]
  simp only [InvalidFn, not_exists, not_and, h.2]
  constructor
  · intro hv d hd hn; exact hn (hv d hd).1 (hv d hd).2
  · intro hv d hd; exact Classical.byContradiction (fun hn => hv d hd (fun h1 h2 => hn ⟨h1, h2⟩))

theorem checked_char {x : Except Err Coins} {f : Denom → Int} (h : UnsafeChar x f) : CheckedChar (checked x) f := by
  cases hx : x with
  | error e =>
    have he : e = .overflow := h.err e hx
    subst he
    have ho : Overflows f := h.err_iff.mp ⟨_, hx⟩
    simp only [checked]
    refine ⟨⟨fun _ => ho, fun _ => rfl⟩, ⟨?_, fun ⟨hn, _⟩ => absurd ho hn⟩, ?_, fun R => ⟨?_, fun ⟨hn, _⟩ => absurd ho hn⟩⟩
    · intro h'; cases h'
    · intro e h'; cases h'; exact Or.inl rfl
    · intro h'; cases h'
  | ok R0 =>
    obtain ⟨hno, hrep⟩ := (h.ok_iff R0).mp hx
    simp only [checked]
    by_cases hv : validate R0 = true
    · have hval : ¬ InvalidFn f := (represents_valid_iff hrep).mp ((validate_iff R0).mp hv)
      simp only [hv, if_true]
      refine ⟨⟨?_, fun ho => absurd ho hno⟩, ⟨?_, fun ⟨_, hi⟩ => absurd hi hval⟩, ?_, fun R => ⟨?_, ?_⟩⟩
      · intro h'; cases h'
      · intro h'; cases h'
      · intro e h'; cases h'
      · intro h'; cases h'; exact ⟨hno, hval, hrep⟩
      · intro ⟨_, _, hr⟩; rw [represents_unique hr hrep]
    · have hinv : InvalidFn f := by
        apply Classical.byContradiction
        intro hn
        exact hv ((validate_iff R0).mpr ((represents_valid_iff hrep).mpr hn))
      simp only [hv]
      refine ⟨⟨?_, fun ho => absurd ho hno⟩, ⟨fun _ => ⟨hno, hinv⟩, fun _ => rfl⟩, ?_, fun R => ⟨?_, fun ⟨_, hn, _⟩ => absurd hinv hn⟩⟩
      · intro h'; cases h'
      · intro e h'; cases h'; exact Or.inr rfl
      · intro h'; cases h'

theorem subUnsafe_char {A B : Coins} (hA : Sorted A) (hB : Sorted B) :
    UnsafeChar (subUnsafe A B) (fun d => val A d + negWrap (val B d)) := by
  have h := addUnsafe_char hA (sorted_negative.mpr hB)
  have e : (fun d => val A d + val (negative B) d) = (fun d => val A d + negWrap (val B d)) := by
    funext d; rw [val_negative hB]
  rw [e] at h
  exact h

/-- without MinInt64 in the subtrahend, `negative` is exact negation. -/
theorem negWrap_val_of_noMin {B : Coins} (hB : Sorted B) (hmin : ∀ b ∈ B, b.amount.toInt ≠ i64Min) (d : Denom) :
    negWrap (val B d) = - val B d := by
  apply negWrap_of_ne
  by_cases h0 : val B d = 0
  · rw [h0]; decide
  · obtain ⟨c, hc, e⟩ := exists_mem_of_val_ne_zero h0
    subst e
    rw [val_of_mem hB hc]
    exact hmin c hc

end GnoVerif.C18
