import GnoVerif.Proofs.C18Cmp
/-! The comparison helpers on valid sets = per-denomination comparison of the denoted functions. -/
namespace GnoVerif.C18
open GnoVerif

theorem Valid.denoms {cs : Coins} (h : Valid cs) : ∀ c ∈ cs, DenomOK c.denom := fun c hc => (h.2 c hc).1

theorem val_nil_fun : (fun d => val [] d) = fun _ => 0 := rfl

/-- pigeonhole: if every denomination of `B` carries a non-zero amount in `A` (both strictly sorted), `B` is no longer than `A`. -/
theorem length_le_of_support {A B : Coins} (hB : Sorted B) (h : ∀ b ∈ B, val A b.denom ≠ 0) :
    B.length ≤ A.length := by
  have hn : (B.map Coin.denom).Nodup := by
    rw [List.nodup_iff_pairwise_ne, List.pairwise_map]
    exact List.Pairwise.imp (fun h => dlt_ne h) hB
  have hsub : B.map Coin.denom ⊆ A.map Coin.denom := by
    intro d hd
    obtain ⟨b, hb, e⟩ := List.mem_map.mp hd
    subst e
    obtain ⟨a, ha, e⟩ := exists_mem_of_val_ne_zero (h b hb)
    exact List.mem_map.mpr ⟨a, ha, e⟩
  have := List.Nodup.length_le_of_subset hn hsub
  simpa using this

theorem isAllGT_valid {A B : Coins} (hA : Valid A) (hB : Valid B) :
    ∃ r, isAllGT A B = .ok r ∧ (r = true ↔ A ≠ [] ∧ ∀ d, val B d ≠ 0 → val B d < val A d) := by
  unfold isAllGT
  cases A with
  | nil => exact ⟨false, by simp, by simp⟩
  | cons a as =>
    cases B with
    | nil => exact ⟨true, by simp, by simp⟩
    | cons b bs =>
      have hspec := forall_mem_iff_val hB.1 hB.zeroFree (fun d v => v < val (a :: as) d)
      simp only [List.length_cons, Nat.succ_ne_zero, if_false, ne_eq,
        reduceCtorEq, not_false_eq_true, true_and]
      obtain ⟨r2, hr2, hiff2⟩ := isAllGTLoop_spec hA.1 (b :: bs) hB.denoms
      rw [hspec] at hiff2
      unfold denomsSubsetOf
      by_cases hlen : (b :: bs).length > (a :: as).length
      · refine ⟨false, by simp only [if_pos hlen], ?_⟩
        simp only [Bool.false_eq_true, false_iff]
        intro h
        have : (b :: bs).length ≤ (a :: as).length := by
          apply length_le_of_support hB.1
          intro x hx
          have h1 := hspec.mpr h x hx
          have h2 := (hB.2 x hx).2
          omega
        omega
      · obtain ⟨r1, hr1, hiff1⟩ := denomsSubsetLoop_spec hA.1 (b :: bs) hB.denoms
        rw [if_neg hlen, hr1]
        cases r1 with
        | false =>
          refine ⟨false, rfl, ?_⟩
          simp only [Bool.false_eq_true, false_iff]
          intro h
          have : ∀ x ∈ b :: bs, val (a :: as) x.denom ≠ 0 := by
            intro x hx
            have h1 := hspec.mpr h x hx
            have h2 := (hB.2 x hx).2
            omega
          exact absurd (hiff1.mpr this) (by simp)
        | true => exact ⟨r2, hr2, hiff2⟩

theorem isAllGTE_valid {A B : Coins} (hA : Valid A) (hB : Valid B) :
    ∃ r, isAllGTE A B = .ok r ∧ (r = true ↔ ∀ d, val B d ≤ val A d) := by
  unfold isAllGTE
  cases B with
  | nil => exact ⟨true, by simp, by simpa using hA.val_nonneg⟩
  | cons b bs =>
    cases A with
    | nil =>
      refine ⟨false, by simp, ?_⟩
      simp only [Bool.false_eq_true, val_nil, false_iff]
      intro h
      have h1 := h b.denom
      rw [val_of_mem hB.1 List.mem_cons_self] at h1
      have h2 := (hB.2 b List.mem_cons_self).2
      omega
    | cons a as =>
      obtain ⟨r, hr, hiff⟩ := isAllGTELoop_spec hA.1 (b :: bs) hB.denoms
      rw [forall_mem_iff_val hB.1 hB.zeroFree (fun d v => v ≤ val (a :: as) d)] at hiff
      refine ⟨r, by simpa using hr, ?_⟩
      rw [hiff]
      constructor
      · intro h d
        by_cases h0 : val (b :: bs) d = 0
        · rw [h0]; exact hA.val_nonneg d
        · exact h d h0
      · intro h d _; exact h d

theorem isAny_valid (strict : Bool) {A B : Coins} (hA : Valid A) (hB : Valid B) :
    ∃ r, (if B.length = 0 then .ok false else isAnyLoop strict B A) = Except.ok (ε := Err) r ∧
      (r = true ↔ ∃ d, val A d ≠ 0 ∧ val B d ≠ 0 ∧
        (if strict then val B d < val A d else val B d ≤ val A d)) := by
  cases B with
  | nil => exact ⟨false, by simp, by simp⟩
  | cons b bs =>
    obtain ⟨r, hr, hiff⟩ := isAnyLoop_spec strict hB.1 A hA.denoms
    refine ⟨r, by simpa using hr, ?_⟩
    rw [hiff, exists_mem_iff_val hA.1 hA.zeroFree
      (fun d v => (if strict = true then val (b :: bs) d < v else val (b :: bs) d ≤ v) ∧ val (b :: bs) d ≠ 0)]
    constructor
    · intro ⟨d, h1, h2, h3⟩; exact ⟨d, h1, h3, h2⟩
    · intro ⟨d, h1, h3, h2⟩; exact ⟨d, h1, h2, h3⟩

theorem denomsSubsetOf_valid {A B : Coins} (hA : Valid A) (hB : Valid B) :
    ∃ r, denomsSubsetOf A B = .ok r ∧ (r = true ↔ ∀ d, val A d ≠ 0 → val B d ≠ 0) := by
  unfold denomsSubsetOf
  have hspec := forall_mem_iff_val hA.1 hA.zeroFree (fun d _ => val B d ≠ 0)
  by_cases hlen : A.length > B.length
  · refine ⟨false, by simp only [if_pos hlen], ?_⟩
    simp only [Bool.false_eq_true, false_iff]
    intro h
    have := length_le_of_support hA.1 (hspec.mpr h)
    omega
  · obtain ⟨r1, hr1, hiff1⟩ := denomsSubsetLoop_spec hB.1 A hA.denoms
    rw [hspec] at hiff1
    exact ⟨r1, by rw [if_neg hlen, hr1], hiff1⟩

/-! ### sort, IsEqual -/

theorem insertCoin_append {x : Coin} {acc : Coins} (h : UpperBound x.denom acc) : insertCoin x acc = acc ++ [x] := by
  induction acc with
  | nil => rfl
  | cons p ps ih =>
    have hp : dlt p.denom x.denom = true := h p List.mem_cons_self
    simp only [insertCoin, dlt_asymm hp, Bool.false_eq_true, if_false, List.cons_append]
    rw [ih (fun c hc => h c (List.mem_cons_of_mem _ hc))]

theorem foldl_insert_sorted (acc cs : Coins) (h : Sorted (acc ++ cs)) :
    cs.foldl (fun acc x => insertCoin x acc) acc = acc ++ cs := by
  induction cs generalizing acc with
  | nil => simp
  | cons c cs ih =>
    obtain ⟨_, _, hub, _⟩ := sorted_append_cons h
    rw [List.foldl_cons, insertCoin_append hub, ih]
    · simp
    · simpa using h

/-- sorting a strictly sorted set leaves it as it is. -/
theorem sortCoins_of_sorted {cs : Coins} (h : Sorted cs) : sortCoins cs = cs := by
  have := foldl_insert_sorted [] cs (by simpa using h)
  simpa [sortCoins] using this

/-- whenever the pairwise loop of `IsEqual` returns, it returns the right answer. -/
theorem isEqualLoop_sound (A B : Coins) (hlen : A.length = B.length) (r : Bool) :
    isEqualLoop A B = .ok r → (r = true ↔ A = B) := by
  fun_induction isEqualLoop A B with
  | case1 a as b bs h => intro h'; cases h'
  | case2 a as b bs h1 h2 =>
    intro h'; cases h'
    simp only [Bool.false_eq_true, List.cons.injEq, false_iff, not_and]
    intro e; subst e; exact absurd rfl h2
  | case3 a as b bs h1 h2 ih =>
    intro h'
    have := ih (by simpa using hlen) h'
    rw [this]
    have hab : a = b := by
      cases a; cases b
      simp only [ne_eq, Decidable.not_not] at h1 h2
      simp only [Coin.mk.injEq]; exact ⟨h1, h2⟩
    subst hab
    simp
  | case4 A B hne =>
    intro h'; cases h'
    simp only [true_iff]
    cases A with
    | nil => cases B with
      | nil => rfl
      | cons b bs => simp at hlen
    | cons a as => cases B with
      | nil => simp at hlen
      | cons b bs => exact (hne a as b bs rfl rfl).elim

/-- with the same denominations in the same order the loop never panics. -/
theorem isEqualLoop_total (A B : Coins) (h : A.map Coin.denom = B.map Coin.denom) :
    ∃ r, isEqualLoop A B = .ok r := by
  fun_induction isEqualLoop A B with
  | case1 a as b bs h1 => simp at h; exact absurd h.1 h1
  | case2 a as b bs h1 h2 => exact ⟨false, rfl⟩
  | case3 a as b bs h1 h2 ih => simp at h; exact ih h.2
  | case4 A B hne => exact ⟨true, rfl⟩

theorem isEqual_valid_sound {A B : Coins} (hA : Valid A) (hB : Valid B) (r : Bool) :
    isEqual A B = .ok r → (r = true ↔ ∀ d, val A d = val B d) := by
  have hcanon : (∀ d, val A d = val B d) ↔ A = B :=
    ⟨fun h => canonical_unique hA.canonical hB.canonical h, fun h => by rw [h]; intro _; rfl⟩
  rw [hcanon]
  simp only [isEqual, isEqualFull]
  by_cases hlen : A.length = B.length
  · simp only [hlen, ne_eq, not_true_eq_false, if_false, sortCoins_of_sorted hA.1, sortCoins_of_sorted hB.1]
    exact isEqualLoop_sound A B hlen r
  · simp only [ne_eq, hlen, not_false_eq_true, if_true]
    intro h'; cases h'
    simp only [Bool.false_eq_true, false_iff]
    intro e; subst e; exact hlen rfl

theorem isEqual_valid_total {A B : Coins} (hA : Valid A) (hB : Valid B)
    (h : A.length ≠ B.length ∨ A.map Coin.denom = B.map Coin.denom) : ∃ r, isEqual A B = .ok r := by
  simp only [isEqual, isEqualFull]
  by_cases hlen : A.length = B.length
  · simp only [hlen, ne_eq, not_true_eq_false, if_false, sortCoins_of_sorted hA.1, sortCoins_of_sorted hB.1]
    rcases h with h | h
    · exact absurd hlen h
    · exact isEqualLoop_total A B h
  · simp only [ne_eq, hlen, not_false_eq_true, if_true]
    exact ⟨false, rfl⟩

/-- `IsEqual` leaves valid operands as they are (its in-place `Sort` is the identity on sorted sets). -/
theorem isEqualFull_operands {A B : Coins} (hA : Sorted A) (hB : Sorted B) :
    (isEqualFull A B).2 = (A, B) := by
  simp only [isEqualFull]
  split
  · rfl
  · simp [sortCoins_of_sorted hA, sortCoins_of_sorted hB]

theorem val_zero_of_all_zero {cs : Coins} (h : ∀ c ∈ cs, c.amount.toInt = 0) (d : Denom) : val cs d = 0 := by
  induction cs with
  | nil => rfl
  | cons c cs ih =>
    rw [val_cons, ih (fun x hx => h x (List.mem_cons_of_mem _ hx)), h c List.mem_cons_self]
    simp

end GnoVerif.C18
