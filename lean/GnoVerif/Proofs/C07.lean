import GnoVerif.Model.C07Authority
/-! Helper lemmas for Props/C07.lean (core Lean only; no Mathlib needed). -/
namespace GnoVerif.C07

/-! ### DidUpdate -/

theorem didUpdate_true_inv {W : World} {s : St} {o : OID}
    (h : didUpdate W s (some o) = .ok true) :
    o.isReal = true ∧ o.pkg = s.realm ∧ s.realm.isSome = true := by
  unfold didUpdate at h
  cases hr : s.realm with
  | none =>
    simp only [hr] at h
    split at h <;> simp at h
  | some r =>
    simp only [hr] at h
    by_cases h1 : o.isReal = true
    · simp only [h1, Bool.not_true] at h
      by_cases h2 : o.pkg = some r
      · simp [h1, h2]
      · have : (o.pkg != some r) = true := by simp [bne_iff_ne, h2]
        simp only [this] at h
        repeat (split at h <;> try simp at h)
    · simp only [Bool.not_eq_true] at h1
      simp [h1] at h

/-! ### IsReadonlyBy -/

/-- the object ids `IsReadonlyBy` puts through its final gate -/
def TV.gated : TV → List OID
  | .prim => []
  | .ptrFree => []
  | .ptrHIV hiv inner => (if hiv.isReal then [hiv] else []) ++ TV.gated inner
  | .ptrBase b => [b]
  | .obj o => [o]
  | .refPkg _ => []

theorem roGate_false {rid : Nat} {own : PkgID} {o : OID} (h : roGate rid own o = false) :
    o.isZero = true ∨ o.pkg = some rid ∨ o.pkg = own := by
  unfold roGate at h
  by_cases hz : o.isZero = true
  · exact Or.inl hz
  · simp only [hz] at h
    right
    simp only [Bool.false_eq_true, ↓reduceIte, Bool.and_eq_false_iff, bne_eq_false_iff_eq] at h
    exact h

theorem isReadonlyBy_false_gated {rid : Nat} {own : PkgID} :
    ∀ (tv : TV), isReadonlyBy rid own tv = false →
      ∀ o ∈ TV.gated tv, o.isZero = true ∨ o.pkg = some rid ∨ o.pkg = own
  | .prim, _, o, ho => by simp [TV.gated] at ho
  | .ptrFree, _, o, ho => by simp [TV.gated] at ho
  | .refPkg _, _, o, ho => by simp [TV.gated] at ho
  | .ptrBase b, h, o, ho => by
    simp only [TV.gated, List.mem_singleton] at ho
    subst ho
    exact roGate_false (by simpa [isReadonlyBy] using h)
  | .obj b, h, o, ho => by
    simp only [TV.gated, List.mem_singleton] at ho
    subst ho
    exact roGate_false (by simpa [isReadonlyBy] using h)
  | .ptrHIV hiv inner, h, o, ho => by
    simp only [isReadonlyBy] at h
    by_cases hi : isReadonlyBy rid own inner = true
    · simp [hi] at h
    · simp only [Bool.not_eq_true] at hi
      simp only [hi, Bool.false_eq_true, ↓reduceIte] at h
      simp only [TV.gated, List.mem_append] at ho
      rcases ho with ho | ho
      · by_cases hr : hiv.isReal = true
        · simp only [hr, ↓reduceIte, List.mem_singleton] at ho
          subst ho
          simp only [hr, Bool.not_true, Bool.false_eq_true, ↓reduceIte] at h
          exact roGate_false h
        · simp [hr] at ho
      · exact isReadonlyBy_false_gated inner hi o ho

/-! ### PushFrameCall -/

theorem realmOfPid_some {W : World} {pid : PkgID} {r : Nat} (h : W.realmOfPid pid = some r) :
    pid = some r := by
  cases pid with
  | none => simp [World.realmOfPid] at h
  | some p =>
    simp only [World.realmOfPid, World.realmOf] at h
    split at h <;> simp_all

theorem realmOf_some {W : World} {p r : Nat} (h : W.realmOf p = some r) : p = r := by
  simp only [World.realmOf] at h
  split at h <;> simp_all

/-- which rule fired -/
theorem rule2_cases (W : World) (cur : Option Nat) (recv : Recv) :
    rule2 W cur recv = cur ∨
    ∃ oid, recv = .obj oid ∧ oid.isZero = false ∧ W.isStdlibPkg oid.pkg = false ∧
      rule2 W cur recv = W.realmOfPid oid.pkg := by
  cases recv with
  | undef => left; rfl
  | noObj => left; rfl
  | obj oid =>
    simp only [rule2]
    split
    · rename_i h
      right
      refine ⟨oid, rfl, ?_, ?_, rfl⟩
      · simp only [Bool.and_eq_true, Bool.not_eq_eq_eq_not, Bool.not_true] at h; exact h.1.1
      · simp only [Bool.and_eq_true, Bool.not_eq_eq_eq_not, Bool.not_true] at h; exact h.1.2
    · left; rfl

theorem rule3_cases (W : World) (cur : Option Nat) (cl : Option PkgID) :
    rule3 W cur cl = cur ∨
    ∃ pid, cl = some pid ∧ pid.isSome = true ∧ W.isStdlibPkg pid = false ∧
      rule3 W cur cl = W.realmOfPid pid := by
  cases cl with
  | none => left; rfl
  | some pid =>
    simp only [rule3]
    split
    · rename_i h
      right
      refine ⟨pid, rfl, ?_, ?_, rfl⟩
      · simp only [Bool.and_eq_true, Bool.not_eq_eq_eq_not, Bool.not_true] at h; exact h.1.1
      · simp only [Bool.and_eq_true, Bool.not_eq_eq_eq_not, Bool.not_true] at h; exact h.1.2
    · left; rfl


/-! ### who is running: covered / sanctioned frames -/

/-- the callee of this frame is covered by the cross / cur-call logic or by one of the
    three borrow rules *as coded*: it is declared in a /r/ package (rule #1), it is
    immutable-library code (/p/, stdlib — rules #2/#3 or plain inheritance from its
    caller), or — for an ephemeral (/e/, MsgRun) package — it is a crossing function,
    a closure carrying a non-zero non-stdlib stamp (rule #3) or a method whose
    receiver has a non-zero non-stdlib stamp (rule #2). -/
def covered (W : World) (f : Frame) : Bool :=
  match W.kind f.fn.pkg with
  | .eph => f.fn.crossing ||
            (match f.fn.closure with
             | some pid => pid.isSome && !W.isStdlibPkg pid
             | none => false) ||
            (match f.recv with
             | .obj oid => !oid.isZero && !W.isStdlibPkg oid.pkg
             | _ => false)
  | _ => true

/-- "code that runs with R's storage authority, as the interrealm specification
    defines": the innermost frame is a function / method / closure DECLARED in R, or a
    library (not /r/) method invoked on an R-stamped receiver, or a closure minted
    under R, or immutable library code called by such code. -/
def sanctioned (W : World) (R : Nat) : List Frame → Prop
  | [] => False
  | f :: rest =>
      f.fn.pkg = R
    ∨ (∃ oid, f.recv = .obj oid ∧ oid.pkg = some R ∧ W.isRealmPath f.fn.pkg = false)
    ∨ f.fn.closure = some (some R)
    ∨ ((W.kind f.fn.pkg = .pure ∨ W.kind f.fn.pkg = .stdlib) ∧ sanctioned W R rest)

def framesInv (W : World) : List Frame → Prop
  | [] => True
  | f :: rest =>
    (∀ R, f.realm = some R → (∀ g ∈ f :: rest, covered W g = true) → sanctioned W R (f :: rest))
    ∧ framesInv W rest

/-- context well-formedness: the frame invariant, and the innermost frame's realm is `m.Realm` -/
def Ctx.wf (W : World) (c : Ctx) : Prop :=
  framesInv W c.frames ∧ ∃ g rest, c.frames = g :: rest ∧ g.realm = c.st.realm

theorem kind_of_not_realmPath_not_eph {W : World} {p : Nat}
    (h1 : W.isRealmPath p = false) (h2 : W.kind p ≠ .eph) :
    W.kind p = .pure ∨ W.kind p = .stdlib := by
  simp only [World.isRealmPath, beq_eq_false_iff_ne, ne_eq] at h1
  cases hk : W.kind p <;> simp_all

/-- PushFrameCall preserves the frame invariant. -/
theorem framesInv_push {W : World} {g : Frame} {rest : List Frame} {fn : Fn} {wc : Bool}
    {recv : Recv} {r : Option Nat}
    (hinv : framesInv W (g :: rest))
    (hp : pushFrameCall W g.realm fn wc recv = .ok r) :
    framesInv W ({ fn := fn, recv := recv, realm := r } :: g :: rest) := by
  refine ⟨?_, hinv⟩
  intro R hR hcov
  simp only at hR
  unfold pushFrameCall at hp
  by_cases hwc : wc = true
  · -- cross-call
    simp only [hwc, ↓reduceIte] at hp
    split at hp
    · simp at hp
    · simp only [Except.ok.injEq] at hp
      rw [← hp] at hR
      exact Or.inl (realmOf_some hR)
  · simp only [hwc, Bool.false_eq_true, ↓reduceIte] at hp
    by_cases hcr : fn.crossing = true
    · -- cur-call
      simp only [hcr, ↓reduceIte] at hp
      split at hp
      · simp at hp
      · rename_i hne
        simp only [Except.ok.injEq] at hp
        simp only [bne_iff_ne, ne_eq, Decidable.not_not] at hne
        rw [← hp, hne] at hR
        exact Or.inl (realmOf_some hR)
    · simp only [hcr, Bool.false_eq_true, ↓reduceIte] at hp
      by_cases hrp : W.isRealmPath fn.pkg = true
      · -- rule #1
        simp only [hrp, ↓reduceIte] at hp
        split at hp
        · simp only [Except.ok.injEq] at hp
          rw [← hp] at hR
          exact Or.inl (realmOf_some hR)
        · rename_i hne
          simp only [Except.ok.injEq] at hp
          simp only [bne_iff_ne, ne_eq, Decidable.not_not] at hne
          rw [← hp, hne] at hR
          simp only [Option.some.injEq] at hR
          exact Or.inl hR
      · -- rules #2 / #3 / inheritance
        simp only [Bool.not_eq_true] at hrp
        simp only [hrp, Bool.false_eq_true, ↓reduceIte, Except.ok.injEq] at hp
        rcases rule3_cases W (rule2 W g.realm recv) fn.closure with h3 | ⟨pid, hcl, _, _, h3⟩
        · rcases rule2_cases W g.realm recv with h2 | ⟨oid, hrecv, _, _, h2⟩
          · -- nothing fired: the callee inherits the caller's realm
            have hrg : g.realm = some R := by rw [← h2, ← h3, hp]; exact hR
            by_cases he : W.kind fn.pkg = .eph
            · -- ephemeral callee: `covered` says a rule WOULD have applied; since it did not
              -- fire, the stamp already equals the current realm
              have hc := hcov _ (List.mem_cons_self)
              simp only [covered, he, hcr, Bool.false_or, Bool.or_eq_true] at hc
              rcases hc with hc | hc
              · -- stamped closure
                cases hcl : fn.closure with
                | none => simp [hcl] at hc
                | some pid =>
                  simp only [hcl, Bool.and_eq_true, Bool.not_eq_eq_eq_not, Bool.not_true] at hc
                  have h3' := h3
                  simp only [hcl, rule3, hc.1, hc.2, Bool.not_false, Bool.and_self, Bool.true_and] at h3'
                  split at h3'
                  · rename_i hfire
                    -- fired but returned the same realm: then the stamp's realm is R anyway
                    have : W.realmOfPid pid = some R := by rw [h3', h2, hrg]
                    right; right; left
                    show fn.closure = _
                    rw [hcl, realmOfPid_some this]
                  · rename_i hnf
                    simp only [Bool.or_eq_true, Option.isNone_iff_eq_none, bne_iff_ne, ne_eq, not_or,
                      Decidable.not_not] at hnf
                    right; right; left
                    show fn.closure = _
                    rw [hcl, hnf.2, h2, hrg]
              · -- method with a stamped receiver
                cases hrv : recv with
                | undef => simp [hrv] at hc
                | noObj => simp [hrv] at hc
                | obj oid =>
                  simp only [hrv, Bool.and_eq_true, Bool.not_eq_eq_eq_not, Bool.not_true] at hc
                  have h2' := h2
                  simp only [hrv, rule2, hc.1, hc.2, Bool.not_false, Bool.and_self, Bool.true_and] at h2'
                  right; left
                  refine ⟨oid, rfl, ?_, hrp⟩
                  split at h2'
                  · have : W.realmOfPid oid.pkg = some R := by rw [h2', hrg]
                    exact realmOfPid_some this
                  · rename_i hnf
                    simp only [Bool.or_eq_true, Option.isNone_iff_eq_none, bne_iff_ne, ne_eq, not_or,
                      Decidable.not_not] at hnf
                    rw [hnf.2, hrg]
            · -- library callee: sanctioned through its caller
              right; right; right
              refine ⟨kind_of_not_realmPath_not_eph hrp he, ?_⟩
              exact hinv.1 R hrg (fun x hx => hcov x (List.mem_cons_of_mem _ hx))
          · -- rule #2 fired (and #3 did not)
            have : W.realmOfPid oid.pkg = some R := by rw [← h2, ← h3, hp]; exact hR
            right; left
            exact ⟨oid, hrecv, realmOfPid_some this, hrp⟩
        · -- rule #3 fired
          have : W.realmOfPid pid = some R := by rw [← h3, hp]; exact hR
          right; right; left
          show fn.closure = _
          rw [hcl, realmOfPid_some this]


/-! ### the machine-level invariant -/

/-- a recorded write is GOOD if (1) the machine's realm was the owner of the real
    object it dirtied and (2) the code running was sanctioned for that realm —
    the latter under the `covered` guard on the frames of that very stack. -/
def GoodWrite (W : World) (w : WriteRec) : Prop :=
  (w.po.isReal = true ∧ w.po.pkg = w.realm ∧ w.realm.isSome = true) ∧
  (∀ R, w.po.pkg = some R → (∀ g ∈ w.frames, covered W g = true) → sanctioned W R w.frames)

theorem goodWrite_new {W : World} {c : Ctx} {o : OID} {tag : Nat}
    (hwf : c.wf W) (hd : didUpdate W c.st (some o) = .ok true) :
    GoodWrite W { realm := c.st.realm, pkg := c.st.pkg, po := o, tag := tag, frames := c.frames } := by
  obtain ⟨hreal, hpkg, hsome⟩ := didUpdate_true_inv hd
  refine ⟨⟨hreal, hpkg, hsome⟩, ?_⟩
  intro R hR hcov
  obtain ⟨hinv, g, rest, hfr, hg⟩ := hwf
  simp only at hR hcov ⊢
  rw [hfr] at hinv hcov ⊢
  exact hinv.1 R (by rw [hg, ← hpkg, hR]) hcov

theorem attachEffect_writes (W : World) (c : Ctx) (co : OID) :
    (attachEffect W c co).writes = c.writes := by
  unfold attachEffect
  split
  · rfl
  · split <;> rfl

theorem attachEffect_st (W : World) (c : Ctx) (co : OID) :
    (attachEffect W c co).st = c.st := by
  unfold attachEffect
  split
  · rfl
  · split <;> rfl

theorem attachEffect_frames (W : World) (c : Ctx) (co : OID) :
    (attachEffect W c co).frames = c.frames := by
  unfold attachEffect
  split
  · rfl
  · split <;> rfl

theorem run_good (W : World) :
    ∀ (ev : Ev) (c c' : Ctx), run W ev c = .ok c' → c.wf W →
      (∀ w ∈ c.writes, GoodWrite W w) → ∀ w ∈ c'.writes, GoodWrite W w := by
  intro ev
  induction ev with
  | done =>
    intro c c' h _ hg
    simp only [run, Except.ok.injEq] at h
    subst h; exact hg
  | static next _ =>
    intro c c' h
    simp [run] at h
  | call pkg crossing closure withCross recv body next ihb ihn =>
    intro c c' h hwf hg
    simp only [run] at h
    split at h
    · simp at h
    · rename_i r hp
      split at h
      · simp at h
      · rename_i c'' hb
        obtain ⟨hinv, g, rest, hfr, hgr⟩ := hwf
        have hwf_in : Ctx.wf W
            { c with st := { c.st with realm := r, pkg := pkg },
                     frames := { fn := { pkg := pkg, crossing := crossing, closure := closure.map (resolvePid c) },
                                 recv := resolveRecv W c recv, realm := r } :: c.frames } := by
          refine ⟨?_, _, _, rfl, rfl⟩
          simp only
          rw [hfr]
          rw [hfr] at hinv
          rw [← hgr] at hp
          exact framesInv_push hinv hp
        have hg'' := ihb _ _ hb hwf_in hg
        exact ihn _ _ h ⟨hinv, g, rest, hfr, hgr⟩ hg''
  | lit k next ih =>
    intro c c' h hwf hg
    simp only [run] at h
    exact ih _ _ h hwf hg
  | alloc decl next ih =>
    intro c c' h hwf hg
    simp only [run] at h
    split at h
    · simp at h
    · exact ih _ _ h hwf hg
  | ro tv next ih =>
    intro c c' h hwf hg
    simp only [run] at h
    split at h
    · simp at h
    · exact ih _ _ h hwf hg
  | roName hiv base next ih =>
    intro c c' h hwf hg
    simp only [run] at h
    split at h
    · simp at h
    · exact ih _ _ h hwf hg
  | conv tv own next ih =>
    intro c c' h hwf hg
    simp only [run] at h
    split at h
    · simp at h
    · exact ih _ _ h hwf hg
  | convTo decl imm next ih =>
    intro c c' h hwf hg
    simp only [run] at h
    split at h
    · simp at h
    · exact ih _ _ h hwf hg
  | upd po tag next ih =>
    intro c c' h hwf hg
    simp only [run] at h
    split at h
    · simp at h
    · rename_i marked hd
      refine ih _ _ h ?_ ?_
      · split <;> exact hwf
      · intro w hw
        split at hw
        · rename_i hm
          subst hm
          simp only [List.mem_cons] at hw
          rcases hw with hw | hw
          · subst hw; exact goodWrite_new hwf hd
          · exact hg w hw
        · exact hg w hw
  | attach po co next ih =>
    intro c c' h hwf hg
    simp only [run] at h
    split at h
    · simp at h
    · rename_i marked hd
      refine ih _ _ h ?_ ?_
      · split
        · unfold Ctx.wf
          rw [attachEffect_st, attachEffect_frames]
          exact hwf
        · exact hwf
      · intro w hw
        split at hw
        · rename_i hm
          subst hm
          rw [attachEffect_writes] at hw
          simp only [List.mem_cons] at hw
          rcases hw with hw | hw
          · subst hw; exact goodWrite_new hwf hd
          · exact hg w hw
        · exact hg w hw
  | adopt co next ih =>
    intro c c' h hwf hg
    simp only [run] at h
    exact ih _ _ h hwf hg
  | persistRealm origin next ih =>
    intro c c' h hwf hg
    simp only [run] at h
    split at h
    · simp at h
    · exact ih _ _ h hwf hg

end GnoVerif.C07
