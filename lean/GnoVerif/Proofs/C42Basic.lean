import GnoVerif.Model.C42
/-!
C42 helper lemmas, part 1: constants, little-endian integers, nonces.
-/
namespace GnoVerif.C42

theorem dataLenSize_eq : dataLenSize = 4 := by decide
theorem dataMaxSize_eq : dataMaxSize = 1024 := by decide
theorem totalFrameSize_eq : totalFrameSize = 1028 := by decide
theorem aeadSizeOverhead_eq : aeadSizeOverhead = 16 := by decide
theorem sealedFrameSize_eq : sealedFrameSize = 1044 := by decide
theorem maxUint64_eq : maxUint64 = 2^64 - 1 := rfl

/-! ### little-endian -/

theorem leBytes_length (n x : Nat) : (leBytes n x).length = n := by
  induction n generalizing x with
  | zero => rfl
  | succ n ih => simp [leBytes, ih]

theorem leNat_leBytes (n x : Nat) : leNat (leBytes n x) = x % 256 ^ n := by
  induction n generalizing x with
  | zero => simp [leBytes, leNat, Nat.mod_one]
  | succ n ih =>
    simp only [leBytes, leNat, ih]
    have h1 : (UInt8.ofNat (x % 256)).toNat = x % 256 := by
      simp [UInt8.toNat_ofNat']
    rw [h1, Nat.pow_succ, Nat.mul_comm (256 ^ n) 256, Nat.mod_mul]

theorem leNat_leBytes_of_lt (n x : Nat) (h : x < 256 ^ n) : leNat (leBytes n x) = x := by
  rw [leNat_leBytes, Nat.mod_eq_of_lt h]

theorem leNat_append (a b : Bytes) : leNat (a ++ b) = leNat a + 256 ^ a.length * leNat b := by
  induction a with
  | nil => simp [leNat]
  | cons x xs ih =>
    simp only [List.cons_append, leNat, ih, List.length_cons, Nat.pow_succ]
    rw [Nat.mul_add, Nat.add_assoc, ← Nat.mul_assoc, Nat.mul_comm 256 (256 ^ xs.length)]

/-! ### nonces -/

theorem nonceOf_length (c : Nat) : (nonceOf c).length = 12 := by
  simp [nonceOf, leBytes_length]

theorem nonceOf_counter (c : Nat) : leNat (((nonceOf c).drop 4).take 8) = c % 2 ^ 64 := by
  have h : ((nonceOf c).drop 4).take 8 = leBytes 8 c := by
    simp only [nonceOf]
    rw [show ([0, 0, 0, 0] ++ leBytes 8 c : Bytes).drop 4 = leBytes 8 c from rfl]
    exact List.take_of_length_le (by rw [leBytes_length]; exact Nat.le_refl 8)
  rw [h, leNat_leBytes]

theorem nonceOf_take4 (c : Nat) : (nonceOf c).take 4 = [0, 0, 0, 0] := rfl

/-- `incrNonce` on the nonce with counter `c`: next counter, or the panic at 2^64-1 -/
theorem incrNonce_nonceOf (c : Nat) (h : c < maxUint64) :
    incrNonce (nonceOf c) = some (nonceOf (c + 1)) := by
  have hc : c % 2 ^ 64 = c := Nat.mod_eq_of_lt (by rw [maxUint64_eq] at h; omega)
  unfold incrNonce
  simp only [nonceOf_counter, hc, nonceOf_take4]
  rw [if_neg (by omega)]
  rfl

theorem incrNonce_max : incrNonce (nonceOf maxUint64) = none := by
  unfold incrNonce
  simp only [nonceOf_counter]
  rw [if_pos (by decide)]

theorem nonceOf_injective (c c' : Nat) (h : c < 2 ^ 64) (h' : c' < 2 ^ 64)
    (e : nonceOf c = nonceOf c') : c = c' := by
  have h1 := nonceOf_counter c
  have h2 := nonceOf_counter c'
  rw [e] at h1
  rw [h1] at h2
  rw [Nat.mod_eq_of_lt h, Nat.mod_eq_of_lt h'] at h2
  exact h2

end GnoVerif.C42
