import GnoVerif.Proofs.C05RoundInt32
import GnoVerif.Proofs.C05Conv
/-! C05: narrowing `f64to32` and `fintto32` are correctly rounded (through `fpack32`). -/
set_option linter.unusedSimpArgs false
namespace GnoVerif.C05.L
open GnoVerif.Gen.C05

theorem sign32_of_sign64 (f : BitVec 64) :
    BitVec.setWidth 32 ((f &&& 9223372036854775808#64) >>> 32) = 0#32 ∨
    BitVec.setWidth 32 ((f &&& 9223372036854775808#64) >>> 32) = 2147483648#32 := by
  rcases sign64_cases' f with h | h <;> rw [h]
  · left; decide
  · right; decide

theorem toInt_sub_one' (e : BitVec 64) (h1 : -(2^40) ≤ e.toInt) (h2 : e.toInt ≤ 2^40) : (e - 1#64).toInt = e.toInt - 1 :=
  toInt_sub_one e (by omega)

/-- (g, first half) `f64to32` of a finite non-zero value is the correctly rounded binary32 value:
the 53-bit mantissa `fm` (value `fm·2^(fe−52)`) is rounded once to 24 bits, with overflow to Inf and
gradual underflow at 2^−149 -/
theorem f64to32_rounded (f : BitVec 64) (hf : isFinite64 f) (hfz : ¬ isZero64 f) :
    f64to32 f = BitVec.setWidth 32 ((f &&& 9223372036854775808#64) >>> 32) |||
      BitVec.ofNat 32 (roundInt32 (funpack64 f).2.1.toNat ((funpack64 f).2.2.1.toInt - 29)) := by
  obtain ⟨fm, fe, hF, hfm1, hfm2, hfe1, hfe2⟩ := funpack64_fin f hf hfz
  unfold f64to32
  rw [hF]
  simp only [Bool.false_eq_true, if_false]
  have hM : (BitVec.setWidth 32 (fm >>> 28)).toNat = fm.toNat / 2^28 := by
    rw [BitVec.toNat_setWidth, BitVec.toNat_ushiftRight, Nat.shiftRight_eq_div_pow]
    exact Nat.mod_eq_of_lt (by omega)
  have hT : (BitVec.setWidth 32 (fm &&& 268435455#64)) = 0#32 ↔ fm.toNat % 2^28 = 0 := by
    have e1 : (fm &&& 268435455#64).toNat = fm.toNat % 2^28 := by
      rw [BitVec.toNat_and]; exact Nat.and_two_pow_sub_one_eq_mod fm.toNat 28
    have e2 : (BitVec.setWidth 32 (fm &&& 268435455#64)).toNat = fm.toNat % 2^28 := by
      rw [BitVec.toNat_setWidth, e1]; exact Nat.mod_eq_of_lt (by omega)
    constructor
    · intro h; rw [← e2, h]; rfl
    · intro h; apply BitVec.eq_of_toNat_eq; rw [e2, h]; rfl
  rw [fpack32_roundInt _ _ (fe - 1#64) _ fm.toNat 28 (sign32_of_sign64 f)
    (by rw [toInt_sub_one' fe (by omega) (by omega)]; omega) (by rw [toInt_sub_one' fe (by omega) (by omega)]; omega)
    hM hT (by rw [hM]; omega) (Or.inr (by rw [hM]; omega)), toInt_sub_one' fe (by omega) (by omega)]
  have : fe.toInt - 1 - ((28 : Nat) : Int) = fe.toInt - 29 := by omega
  rw [this]


theorem setWidth_and_one_eq_zero_iff (m : BitVec 64) :
    ((BitVec.setWidth 32 m) &&& 1#32) = 0#32 ↔ m.toNat % 2 = 0 := by
  have e : ((BitVec.setWidth 32 m) &&& 1#32).toNat = m.toNat % 2 := by
    rw [BitVec.toNat_and, BitVec.toNat_setWidth]
    have h1 : (1#32).toNat = 1 := by decide
    rw [h1, Nat.and_one_is_mod]
    omega
  constructor
  · intro h; rw [← e, h]; rfl
  · intro h; apply BitVec.eq_of_toNat_eq; rw [e, h]; rfl

/-- the mantissa-shrinking loop of `fintto32` -/
theorem fintto32_loop1_spec (fuel : Nat) : ∀ (e m : BitVec 64) (t : BitVec 32), m.toNat < 2^32 * 2^fuel →
    ∃ c t', c ≤ fuel ∧ fintto32_loop1 fuel e m t = (e + BitVec.ofNat 64 c, m >>> c, t') ∧
      (m >>> c).toNat < 2^32 ∧ (c ≠ 0 → 2^31 ≤ (m >>> c).toNat) ∧
      (t' = 0#32 ↔ (t = 0#32 ∧ m.toNat % 2^c = 0)) := by
  induction fuel with
  | zero =>
    intro e m t h
    refine ⟨0, t, Nat.le_refl _, ?_, ?_, ?_, ?_⟩
    · simp [fintto32_loop1]
    · simpa using h
    · intro h; exact absurd rfl h
    · simp [Nat.mod_one]
  | succ n ih =>
    intro e m t h
    rw [fintto32_loop1_succ]
    by_cases hge : 2^32 ≤ m.toNat
    · have c : BitVec.ule 4294967296#64 m = true := by simp [BitVec.ule]; omega
      simp only [c, if_true]
      have hm1 : (m >>> 1).toNat = m.toNat / 2 := by
        rw [BitVec.toNat_ushiftRight, Nat.shiftRight_eq_div_pow]
      obtain ⟨c', t', hc', heq, hlt, hge', ht'⟩ := ih (e + 1#64) (m >>> 1) (t ||| ((BitVec.setWidth 32 m) &&& 1#32))
        (by rw [hm1]; rw [Nat.pow_succ] at h; omega)
      refine ⟨c' + 1, t', by omega, ?_, ?_, ?_, ?_⟩
      · rw [heq]
        congr 1
        · rw [BitVec.add_assoc]; congr 1
          apply BitVec.eq_of_toNat_eq; simp [BitVec.toNat_add]; omega
        · congr 1
          rw [← BitVec.shiftRight_add, Nat.add_comm]
      · rw [show m >>> (c' + 1) = m >>> 1 >>> c' by rw [← BitVec.shiftRight_add, Nat.add_comm]]; exact hlt
      · intro _
        rw [show m >>> (c' + 1) = m >>> 1 >>> c' by rw [← BitVec.shiftRight_add, Nat.add_comm]]
        by_cases hc0 : c' = 0
        · subst hc0; simp only [BitVec.ushiftRight_zero]; rw [hm1]; omega
        · exact hge' hc0
      · rw [ht', or_eq_zero_iff32, setWidth_and_one_eq_zero_iff, hm1, mod_two_pow_succ_eq_zero]
        constructor
        · rintro ⟨⟨h1, h2⟩, h3⟩; exact ⟨h1, h2, h3⟩
        · rintro ⟨h1, h2, h3⟩; exact ⟨⟨h1, h2⟩, h3⟩
    · have c : BitVec.ule 4294967296#64 m = false := by simp [BitVec.ule]; omega
      simp only [c]
      refine ⟨0, t, by omega, ?_, ?_, ?_, ?_⟩
      · simp
      · simp; omega
      · intro h; exact absurd rfl h
      · simp [Nat.mod_one]

/-- int64 → float32: the correctly rounded integer with its sign (`fint64to32`, `fint32to32`, `Fintto32`) -/
theorem fintto32_rounded (v : BitVec 64) (hv : v ≠ 0#64) :
    fintto32 v = BitVec.setWidth 32 ((v &&& 9223372036854775808#64) >>> 32) |||
      BitVec.ofNat 32 (roundInt32 v.toInt.natAbs 23) := by
  have hv0 : v.toInt ≠ 0 := by
    intro h; apply hv; apply BitVec.eq_of_toInt_eq; simpa using h
  have h23 : (23#64).toInt = 23 := by decide
  -- the magnitude as a 64-bit word
  obtain ⟨mag, hmag, hmagdef⟩ : ∃ mag : BitVec 64, mag.toNat = v.toInt.natAbs ∧
      (if ((v &&& 9223372036854775808#64) != 0#64) = true then -v else v) = mag := by
    rw [sign_ne_zero_iff_neg]
    by_cases hneg : v.toInt < 0
    · exact ⟨-v, toNat_neg_of_neg v hneg, by simp [hneg]⟩
    · exact ⟨v, toNat_of_nonneg v (by omega), by simp [hneg]⟩
  unfold fintto32
  simp only [hmagdef, loopFuel]
  obtain ⟨c, t', hc, hloop, hlt, hge, ht'⟩ := fintto32_loop1_spec 128 23#64 mag 0#32 (by
    have := mag.isLt
    have : (2:Nat)^32 * 2^32 ≤ 2^32 * 2^128 := Nat.mul_le_mul_left _ (Nat.pow_le_pow_right (by decide) (by decide))
    omega)
  rw [hloop]
  simp only []
  have hm : (mag >>> c).toNat = mag.toNat / 2^c := by
    rw [BitVec.toNat_ushiftRight, Nat.shiftRight_eq_div_pow]
  have hM : (BitVec.setWidth 32 (mag >>> c)).toNat = v.toInt.natAbs / 2^c := by
    rw [BitVec.toNat_setWidth, Nat.mod_eq_of_lt hlt, hm, hmag]
  have hT : t' = 0#32 ↔ v.toInt.natAbs % 2^c = 0 := by rw [ht', hmag]; simp
  have hE : (23#64 + BitVec.ofNat 64 c).toInt = 23 + c := by
    rw [toInt_add_small _ _ (by rw [h23]; omega) (by rw [h23]; omega) (by omega), h23]
  have hM0 : (BitVec.setWidth 32 (mag >>> c)).toNat ≠ 0 := by
    rw [hM, ← hmag, ← hm]
    by_cases hc0 : c = 0
    · subst hc0; simp; rw [hmag]; omega
    · have := hge hc0; omega
  rw [fpack32_roundInt _ _ (23#64 + BitVec.ofNat 64 c) t' v.toInt.natAbs c (sign32_of_sign64 v)
    (by rw [hE]; omega) (by rw [hE]; omega) hM hT hM0 (by
      by_cases hc0 : c = 0
      · left; subst hc0; exact Nat.mod_one _
      · right; rw [hM, ← hmag, ← hm]; have := hge hc0; omega), hE]
  have : (23 : Int) + (c : Int) - (c : Int) = 23 := by omega
  rw [this]

end GnoVerif.C05.L
