/-
Helper lemmas for C37: clip / wrap64, sums, max/min folds, `most`.
-/
import GnoVerif.Spec.C37
namespace GnoVerif.C37

theorem clip_id {x : Int} (h1 : minInt64 ≤ x) (h2 : x ≤ maxInt64) : clip x = x := by
  unfold clip
  rw [if_neg (by omega), if_neg (by omega)]

theorem clip_range (x : Int) : minInt64 ≤ clip x ∧ clip x ≤ maxInt64 := by
  unfold clip
  by_cases h1 : x > maxInt64
  · rw [if_pos h1]; unfold minInt64 maxInt64; omega
  · rw [if_neg h1]
    by_cases h2 : x < minInt64
    · rw [if_pos h2]; unfold minInt64 maxInt64; omega
    · rw [if_neg h2]; omega

theorem wrap64_id {x : Int} (h1 : minInt64 ≤ x) (h2 : x ≤ maxInt64) : wrap64 x = x := by
  unfold wrap64; unfold minInt64 at h1; unfold maxInt64 at h2; omega

@[simp] theorem setPrio_addr (v : Val) (p : Int) : (setPrio v p).addr = v.addr := rfl
@[simp] theorem setPrio_power (v : Val) (p : Int) : (setPrio v p).power = v.power := rfl
@[simp] theorem setPrio_prio (v : Val) (p : Int) : (setPrio v p).prio = p := rfl

theorem setPrio_self (v : Val) : setPrio v v.prio = v := rfl

/-! ### sums -/

theorem sumPrio_map (vs : List Val) (g : Val → Int) :
    sumPrio (vs.map fun v => setPrio v (g v)) = (vs.map g).sum := by
  induction vs with
  | nil => rfl
  | cons v vs ih => simp [sumPrio, ih]

theorem sumPower_map_setPrio (vs : List Val) (g : Val → Int) :
    sumPower (vs.map fun v => setPrio v (g v)) = sumPower vs := by
  induction vs with
  | nil => rfl
  | cons v vs ih => simp [sumPower, ih]

theorem sumPrio_eq_sum (vs : List Val) : sumPrio vs = (vs.map (·.prio)).sum := by
  induction vs with
  | nil => rfl
  | cons v vs ih => simp [sumPrio, ih]

theorem sumPower_eq_sum (vs : List Val) : sumPower vs = (vs.map (·.power)).sum := by
  induction vs with
  | nil => rfl
  | cons v vs ih => simp [sumPower, ih]

theorem sum_le_of_forall_le (l : List Int) (M : Int) (h : ∀ x ∈ l, x ≤ M) :
    l.sum ≤ l.length * M := by
  induction l with
  | nil => simp
  | cons x xs ih =>
    have hx := h x (by simp)
    have := ih (fun y hy => h y (by simp [hy]))
    simp only [List.sum_cons, List.length_cons]
    have : ((xs.length + 1 : Nat) : Int) * M = xs.length * M + M := by
      rw [Int.natCast_add]; simp [Int.add_mul]
    omega

theorem sum_nonpos_of_forall_nonpos (l : List Int) (h : ∀ x ∈ l, x ≤ 0) : l.sum ≤ 0 := by
  have := sum_le_of_forall_le l 0 h
  simpa using this

theorem all_zero_of_nonneg_sum_zero (l : List Int) (h : ∀ x ∈ l, 0 ≤ x) (hs : l.sum = 0) :
    ∀ x ∈ l, x = 0 := by
  induction l with
  | nil => simp
  | cons x xs ih =>
    have hx := h x (by simp)
    have hxs : ∀ y ∈ xs, 0 ≤ y := fun y hy => h y (by simp [hy])
    have hnn : 0 ≤ xs.sum := by
      have := sum_nonpos_of_forall_nonpos (xs.map (fun y => -y)) (by
        intro y hy; simp only [List.mem_map] at hy; obtain ⟨z, hz, rfl⟩ := hy; have := hxs z hz; omega)
      have h2 : (xs.map (fun y => -y)).sum = - xs.sum := by
        clear ih h hs hxs this
        induction xs with
        | nil => simp
        | cons a as iha => simp [iha]; omega
      omega
    simp only [List.sum_cons] at hs
    intro y hy
    simp only [List.mem_cons] at hy
    rcases hy with rfl | hy
    · omega
    · exact ih hxs (by omega) y hy

/-! ### max / min folds -/

theorem foldl_max_spec (vs : List Val) (m : Int) :
    m ≤ vs.foldl (fun m v => if v.prio > m then v.prio else m) m ∧
    (∀ v ∈ vs, v.prio ≤ vs.foldl (fun m v => if v.prio > m then v.prio else m) m) ∧
    (vs.foldl (fun m v => if v.prio > m then v.prio else m) m = m ∨
      ∃ u ∈ vs, vs.foldl (fun m v => if v.prio > m then v.prio else m) m = u.prio) := by
  induction vs generalizing m with
  | nil => simp
  | cons x xs ih =>
    simp only [List.foldl_cons]
    by_cases hx : x.prio > m
    · rw [if_pos hx]
      obtain ⟨h1, h2, h3⟩ := ih x.prio
      refine ⟨by omega, ?_, ?_⟩
      · intro v hv
        simp only [List.mem_cons] at hv
        rcases hv with rfl | hv
        · exact h1
        · exact h2 v hv
      · right
        rcases h3 with h3 | ⟨u, hu, h3⟩
        · exact ⟨x, by simp, h3⟩
        · exact ⟨u, by simp [hu], h3⟩
    · rw [if_neg hx]
      obtain ⟨h1, h2, h3⟩ := ih m
      refine ⟨h1, ?_, ?_⟩
      · intro v hv
        simp only [List.mem_cons] at hv
        rcases hv with rfl | hv
        · omega
        · exact h2 v hv
      · rcases h3 with h3 | ⟨u, hu, h3⟩
        · left; exact h3
        · right; exact ⟨u, by simp [hu], h3⟩

theorem foldl_min_spec (vs : List Val) (m : Int) :
    vs.foldl (fun m v => if v.prio < m then v.prio else m) m ≤ m ∧
    (∀ v ∈ vs, vs.foldl (fun m v => if v.prio < m then v.prio else m) m ≤ v.prio) ∧
    (vs.foldl (fun m v => if v.prio < m then v.prio else m) m = m ∨
      ∃ u ∈ vs, vs.foldl (fun m v => if v.prio < m then v.prio else m) m = u.prio) := by
  induction vs generalizing m with
  | nil => simp
  | cons x xs ih =>
    simp only [List.foldl_cons]
    by_cases hx : x.prio < m
    · rw [if_pos hx]
      obtain ⟨h1, h2, h3⟩ := ih x.prio
      refine ⟨by omega, ?_, ?_⟩
      · intro v hv
        simp only [List.mem_cons] at hv
        rcases hv with rfl | hv
        · exact h1
        · exact h2 v hv
      · right
        rcases h3 with h3 | ⟨u, hu, h3⟩
        · exact ⟨x, by simp, h3⟩
        · exact ⟨u, by simp [hu], h3⟩
    · rw [if_neg hx]
      obtain ⟨h1, h2, h3⟩ := ih m
      refine ⟨h1, ?_, ?_⟩
      · intro v hv
        simp only [List.mem_cons] at hv
        rcases hv with rfl | hv
        · omega
        · exact h2 v hv
      · rcases h3 with h3 | ⟨u, hu, h3⟩
        · left; exact h3
        · right; exact ⟨u, by simp [hu], h3⟩

/-- on a non-empty list of in-range priorities `maxPrio` is attained and is an upper bound -/
theorem maxPrio_spec {vs : List Val} (hne : vs ≠ []) (hr : ∀ v ∈ vs, minInt64 ≤ v.prio) :
    (∃ u ∈ vs, maxPrio vs = u.prio) ∧ ∀ v ∈ vs, v.prio ≤ maxPrio vs := by
  obtain ⟨h1, h2, h3⟩ := foldl_max_spec vs minInt64
  refine ⟨?_, h2⟩
  rcases h3 with h3 | h3
  · cases vs with
    | nil => exact absurd rfl hne
    | cons x xs =>
      have hx := h2 x (by simp)
      have := hr x (by simp)
      exact ⟨x, by simp, by unfold maxPrio; omega⟩
  · exact h3

theorem minPrio_spec {vs : List Val} (hne : vs ≠ []) (hr : ∀ v ∈ vs, v.prio ≤ maxInt64) :
    (∃ u ∈ vs, minPrio vs = u.prio) ∧ ∀ v ∈ vs, minPrio vs ≤ v.prio := by
  obtain ⟨h1, h2, h3⟩ := foldl_min_spec vs maxInt64
  refine ⟨?_, h2⟩
  rcases h3 with h3 | h3
  · cases vs with
    | nil => exact absurd rfl hne
    | cons x xs =>
      have hx := h2 x (by simp)
      have := hr x (by simp)
      exact ⟨x, by simp, by unfold minPrio; omega⟩
  · exact h3

/-- if every priority is within `[-B, B]` with `2B` below the int64 range, `prioDiff` is the
exact `max − min`, attained by two members. -/
theorem prioDiff_spec {vs : List Val} {B : Int} (hne : vs ≠ []) (hB : B ≤ 4611686018427387903)
    (hb : PrioBound vs B) :
    ∃ u ∈ vs, ∃ w ∈ vs, prioDiff vs = u.prio - w.prio ∧
      (∀ v ∈ vs, v.prio ≤ u.prio) ∧ (∀ v ∈ vs, w.prio ≤ v.prio) := by
  obtain ⟨⟨u, hu, hue⟩, hmax⟩ := maxPrio_spec hne (fun v hv => by
    have := (hb v hv).1; unfold minInt64; omega)
  obtain ⟨⟨w, hw, hwe⟩, hmin⟩ := minPrio_spec hne (fun v hv => by
    have := (hb v hv).2; unfold maxInt64; omega)
  refine ⟨u, hu, w, hw, ?_, fun v hv => hue ▸ hmax v hv, fun v hv => hwe ▸ hmin v hv⟩
  have h1 := hb u hu
  have h2 := hb w hw
  have h3 : w.prio ≤ u.prio := hwe ▸ hmin u hu
  unfold prioDiff
  rw [hue, hwe]
  have : wrap64 (u.prio - w.prio) = u.prio - w.prio :=
    wrap64_id (by unfold minInt64; omega) (by unfold maxInt64; omega)
  simp only [this]
  split
  · omega
  · rfl

/-! ### `most` -/

theorem better_cases (a b : Val) : better a b = a ∨ better a b = b := by
  unfold better; split
  · left; rfl
  · split
    · right; rfl
    · split
      · left; rfl
      · right; rfl

theorem better_ge (a b : Val) : a.prio ≤ (better a b).prio ∧ b.prio ≤ (better a b).prio := by
  unfold better; split
  · constructor <;> omega
  · split
    · constructor <;> omega
    · split <;> constructor <;> omega

theorem foldl_better_spec (vs : List Val) (a : Val) :
    (vs.foldl better a = a ∨ vs.foldl better a ∈ vs) ∧
    a.prio ≤ (vs.foldl better a).prio ∧ ∀ v ∈ vs, v.prio ≤ (vs.foldl better a).prio := by
  induction vs generalizing a with
  | nil => simp
  | cons x xs ih =>
    simp only [List.foldl_cons]
    obtain ⟨h1, h2, h3⟩ := ih (better a x)
    have hg := better_ge a x
    refine ⟨?_, by omega, ?_⟩
    · rcases h1 with h1 | h1
      · rcases better_cases a x with hc | hc
        · left; rw [h1, hc]
        · right; rw [h1, hc]; simp
      · right; simp [h1]
    · intro v hv
      simp only [List.mem_cons] at hv
      rcases hv with rfl | hv
      · omega
      · exact h3 v hv

theorem most_spec {vs : List Val} {m : Val} (h : most vs = some m) :
    m ∈ vs ∧ ∀ v ∈ vs, v.prio ≤ m.prio := by
  cases vs with
  | nil => simp [most] at h
  | cons x xs =>
    simp only [most, Option.some.injEq] at h
    obtain ⟨h1, h2, h3⟩ := foldl_better_spec xs x
    subst h
    refine ⟨?_, ?_⟩
    · rcases h1 with h1 | h1
      · rw [h1]; simp
      · simp [h1]
    · intro v hv
      simp only [List.mem_cons] at hv
      rcases hv with rfl | hv
      · exact h2
      · exact h3 v hv

theorem most_isSome {vs : List Val} (hne : vs ≠ []) : ∃ m, most vs = some m := by
  cases vs with
  | nil => exact absurd rfl hne
  | cons x xs => exact ⟨_, rfl⟩

/-! ### sorted addresses -/

theorem addr_inj {vs : List Val} (hs : SortedAddr vs) {v w : Val} (hv : v ∈ vs) (hw : w ∈ vs)
    (h : v.addr = w.addr) : v = w := by
  induction vs with
  | nil => simp at hv
  | cons x xs ih =>
    simp only [SortedAddr, List.pairwise_cons] at hs
    simp only [List.mem_cons] at hv hw
    rcases hv with rfl | hv <;> rcases hw with rfl | hw
    · rfl
    · have := hs.1 w hw; omega
    · have := hs.1 v hv; omega
    · exact ih hs.2 hv hw

theorem foldl_better_lowest (xs : List Val) : ∀ (a : Val), (∀ x ∈ xs, a.addr < x.addr) → SortedAddr xs →
    ∀ v ∈ a :: xs, v.prio ≤ (xs.foldl better a).prio ∧
      (v.prio = (xs.foldl better a).prio → (xs.foldl better a).addr ≤ v.addr) := by
  induction xs with
  | nil => intro a _ _ v hv; simp only [List.mem_singleton] at hv; subst hv; simp
  | cons x xs ih =>
    intro a ha hs v hv
    simp only [SortedAddr, List.pairwise_cons] at hs
    simp only [List.foldl_cons]
    have hax := ha x (by simp)
    by_cases hge : a.prio ≥ x.prio
    · have hb : better a x = a := by
        unfold better
        by_cases h1 : a.prio > x.prio
        · rw [if_pos h1]
        · rw [if_neg h1, if_neg (by omega), if_pos hax]
      rw [hb]
      have IH := ih a (fun y hy => ha y (by simp [hy])) hs.2
      simp only [List.mem_cons] at hv
      rcases hv with rfl | rfl | hv
      · exact IH v (by simp)
      · have h1 := IH a (by simp)
        refine ⟨by omega, fun he => ?_⟩
        have := h1.2 (by omega)
        omega
      · exact IH v (by simp [hv])
    · have hb : better a x = x := by
        unfold better
        rw [if_neg (by omega), if_pos (by omega)]
      rw [hb]
      have IH := ih x hs.1 hs.2
      simp only [List.mem_cons] at hv
      rcases hv with rfl | rfl | hv
      · have h1 := IH x (by simp)
        exact ⟨by omega, fun he => by omega⟩
      · exact IH v (by simp)
      · exact IH v (by simp [hv])

/-- `getValWithMostPriority` returns a validator of maximal priority and, among those, the one
with the lowest address. -/
theorem most_lowest_address {vs : List Val} {m : Val} (hs : SortedAddr vs) (h : most vs = some m) :
    ∀ v ∈ vs, v.prio ≤ m.prio ∧ (v.prio = m.prio → m.addr ≤ v.addr) := by
  cases vs with
  | nil => simp [most] at h
  | cons x xs =>
    simp only [most, Option.some.injEq] at h
    subst h
    simp only [SortedAddr, List.pairwise_cons] at hs
    exact foldl_better_lowest xs x hs.1 hs.2

/-- number of members with address `a` -/
def cntAddr (a : Nat) : List Val → Int
  | [] => 0
  | v :: vs => (if v.addr = a then 1 else 0) + cntAddr a vs

theorem cntAddr_zero {a : Nat} {vs : List Val} (h : ∀ v ∈ vs, v.addr ≠ a) : cntAddr a vs = 0 := by
  induction vs with
  | nil => rfl
  | cons x xs ih =>
    have := h x (by simp)
    simp [cntAddr, this, ih (fun v hv => h v (by simp [hv]))]

theorem cntAddr_one {a : Nat} {vs : List Val} (hs : SortedAddr vs) (h : ∃ v ∈ vs, v.addr = a) :
    cntAddr a vs = 1 := by
  induction vs with
  | nil => simp at h
  | cons x xs ih =>
    simp only [SortedAddr, List.pairwise_cons] at hs
    by_cases hx : x.addr = a
    · have : cntAddr a xs = 0 := cntAddr_zero (fun v hv => by have := hs.1 v hv; omega)
      simp [cntAddr, hx, this]
    · obtain ⟨v, hv, hva⟩ := h
      simp only [List.mem_cons] at hv
      rcases hv with rfl | hv
      · exact absurd hva hx
      · simp [cntAddr, hx, ih hs.2 ⟨v, hv, hva⟩]

end GnoVerif.C37
