import GnoVerif.Proofs.C05Neg
import GnoVerif.Proofs.C05Pack
/-! C05: binary32 — negation, classification by `funpack32`. -/
namespace GnoVerif.C05.L
open GnoVerif.Gen.C05

@[simp] theorem ge_mant32 (i : Nat) (h : i < 32) : (8388607#32)[i] = decide (i < 23) :=
  getElem_lit_mask 23 _ (by decide) (by decide) i h
@[simp] theorem ge_sign32 (i : Nat) (h : i < 32) : (2147483648#32)[i] = decide (i = 31) :=
  getElem_lit_pow 31 _ (by decide) (by decide) i h
@[simp] theorem gl_sign32 (i : Nat) : (2147483648#32).getLsbD i = decide (i = 31) :=
  getLsbD_lit_pow 31 _ (by decide) (by decide) i
@[simp] theorem gl_sign32_64 (i : Nat) : (2147483648#64).getLsbD i = decide (i = 31) :=
  getLsbD_lit_pow 31 _ (by decide) (by decide) i
@[simp] theorem ge_exp32 (i : Nat) (h : i < 64) : (255#64)[i] = decide (i < 8) :=
  getElem_lit_mask 8 _ (by decide) (by decide) i h

theorem neg_sign32 (f : BitVec 32) :
    (f ^^^ 2147483648#32) &&& 2147483648#32 = (f &&& 2147483648#32) ^^^ 2147483648#32 := by
  ext i hi; simp; grind
theorem neg_mant32 (f : BitVec 32) :
    (f ^^^ 2147483648#32) &&& 8388607#32 = f &&& 8388607#32 := by
  ext i hi; simp; grind
theorem neg_exp32 (f : BitVec 32) :
    (BitVec.setWidth 64 ((f ^^^ 2147483648#32) >>> 23)) &&& 255#64 = (BitVec.setWidth 64 (f >>> 23)) &&& 255#64 := by
  ext i hi; simp; grind

theorem Fneg32_involutive (f : BitVec 32) : Fneg32 (Fneg32 f) = f := by
  simp [Fneg32, BitVec.xor_assoc]

theorem funpack32_Fneg32 (f : BitVec 32) :
    funpack32 (Fneg32 f) =
      ((funpack32 f).1 ^^^ 2147483648#32, (funpack32 f).2.1, (funpack32 f).2.2.1,
       (funpack32 f).2.2.2.1, (funpack32 f).2.2.2.2) := by
  unfold Fneg32 funpack32
  simp only [neg_sign32, neg_mant32, neg_exp32]
  split
  · split <;> rfl
  · rfl

theorem toNat_exp32 (f : BitVec 32) :
    ((BitVec.setWidth 64 (f >>> 23)) &&& 255#64).toNat = f.toNat / 2^23 % 2^8 := by
  rw [BitVec.toNat_and, BitVec.toNat_setWidth, BitVec.toNat_ushiftRight, Nat.shiftRight_eq_div_pow]
  have : (f.toNat / 2^23) % 2^64 = f.toNat / 2^23 := Nat.mod_eq_of_lt (by have := f.isLt; omega)
  rw [this]
  exact Nat.and_two_pow_sub_one_eq_mod _ 8

theorem exp32_eq (f : BitVec 32) :
    (BitVec.setWidth 64 (f >>> 23)) &&& 255#64 = BitVec.ofNat 64 (expF32 f) := by
  apply BitVec.eq_of_toNat_eq
  rw [toNat_exp32, BitVec.toNat_ofNat, expF32]; omega

theorem mant32_eq (f : BitVec 32) : f &&& 8388607#32 = BitVec.ofNat 32 (mantF32 f) := by
  apply BitVec.eq_of_toNat_eq
  rw [toNat_and_mant32, BitVec.toNat_ofNat, mantF32]; omega

/-- the Inf / NaN flags and the sign reported by `funpack32` -/
theorem funpack32_class (f : BitVec 32) :
    (funpack32 f).1 = f &&& 2147483648#32 ∧
    (funpack32 f).2.2.2.1 = decide (isInf32 f) ∧
    (funpack32 f).2.2.2.2 = decide (isNaN32 f) := by
  have he : expF32 f < 256 := by unfold expF32; omega
  have hm : mantF32 f < 2^23 := by unfold mantF32; omega
  unfold funpack32
  simp only [exp32_eq, mant32_eq]
  by_cases h1 : expF32 f = 255
  · simp only [h1]
    by_cases h0 : mantF32 f = 0
    · simp [h0, isInf32, isNaN32, h1]
    · have : (BitVec.ofNat 32 (mantF32 f) != 0#32) = true := by
        simp only [bne, Bool.not_eq_true', beq_eq_false_iff_ne, ne_eq]
        intro h
        have := congrArg BitVec.toNat h
        simp [BitVec.toNat_ofNat] at this; omega
      simp [this, isInf32, isNaN32, h1, h0]
  · have c : (BitVec.ofNat 64 (expF32 f) == 255#64) = false :=
      ofNat64_ne_lit _ 255 (by omega) (by omega) h1
    simp [c, isInf32, isNaN32, h1]

end GnoVerif.C05.L
