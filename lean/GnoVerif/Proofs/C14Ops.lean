import GnoVerif.Proofs.C14Keeper
/-! Helper lemmas for C14: every successful ledger operation preserves the invariant. -/
namespace GnoVerif.C14
set_option linter.unusedSimpArgs false
set_option linter.unusedVariables false

/-- what a successful supply-neutral operation guarantees. -/
def Neutral (tier : Denom → Bool) (s s' : State) : Prop :=
  WF tier s' ∧ s'.supply = s.supply ∧ (∀ d, total s' d = total s d)

theorem Inv_of_neutral {tier : Denom → Bool} {s s' : State} (h : Inv tier s) (hn : Neutral tier s s') :
    Inv tier s' := by
  refine ⟨hn.1, ?_, ?_⟩
  · intro d; rw [getSupply_congr _ _ hn.2.1, hn.2.2 d]; exact h.2.1 d
  · intro d; rw [getSupply_congr _ _ hn.2.1]; exact h.2.2 d

theorem sendCore_ok {tier : Denom → Bool} {s s' : State} {f t : Addr} {amt : Coins} {vest : Bool}
    (h : WF tier s) (hr : sendCore tier s f t amt vest = (s', none)) : Neutral tier s s' := by
  unfold sendCore at hr
  cases hsub : subtractCoins tier s f amt vest with
  | mk s1 r1 =>
    rw [hsub] at hr
    cases r1 with
    | some e => simp at hr
    | none =>
      simp only at hr
      obtain ⟨hwf1, hsup1, htot1, _, _⟩ := subtractCoins_ok h hsub
      obtain ⟨hwf2, hsup2, htot2, _, _⟩ := addCoins_ok hwf1 hr
      refine ⟨hwf2, by rw [hsup2, hsup1], ?_⟩
      intro d; rw [htot2 d, htot1 d]; omega

theorem sendCoins_ok {tier : Denom → Bool} {s s' : State} {f t : Addr} {amt : Coins}
    (h : WF tier s) (hr : sendCoins tier s f t amt = (s', none)) : Neutral tier s s' := by
  unfold sendCoins at hr
  split at hr
  · simp at hr; subst hr; exact ⟨h, rfl, fun _ => rfl⟩
  · split at hr
    · simp at hr
    · exact sendCore_ok h hr

theorem sendCoinsUnrestricted_ok {tier : Denom → Bool} {s s' : State} {f t : Addr} {amt : Coins}
    (h : WF tier s) (hr : sendCoinsUnrestricted tier s f t amt = (s', none)) : Neutral tier s s' :=
  sendCore_ok h hr

theorem deductFees_ok {tier : Denom → Bool} {s s' : State} {a c : Addr} {fees : Coins}
    (h : WF tier s) (hr : deductFees tier s a c fees = (s', none)) : Neutral tier s s' := by
  unfold deductFees at hr
  split at hr
  · simp at hr
  · split at hr
    · simp at hr
    · split at hr
      · simp at hr
      · exact sendCoinsUnrestricted_ok h hr

theorem subInputs_ok {tier : Denom → Bool} {s s' : State} {ins : List (Addr × Coins)}
    (h : WF tier s) (hr : subInputs tier s ins = (s', none)) :
    WF tier s' ∧ s'.supply = s.supply ∧ (∀ d, total s' d = total s d - sideSum ins d) := by
  induction ins generalizing s with
  | nil => simp [subInputs] at hr; subst hr; simp [h]
  | cons e ins ih =>
    obtain ⟨a, cs⟩ := e
    unfold subInputs at hr
    split at hr
    · simp at hr
    · cases hsub : subtractCoins tier s a cs true with
      | mk s1 r1 =>
        rw [hsub] at hr
        cases r1 with
        | some e => simp at hr
        | none =>
          simp only at hr
          obtain ⟨hwf1, hsup1, htot1, _, _⟩ := subtractCoins_ok h hsub
          obtain ⟨hwf2, hsup2, htot2⟩ := ih hwf1 hr
          refine ⟨hwf2, by rw [hsup2, hsup1], ?_⟩
          intro d; rw [htot2 d, htot1 d]; simp; omega

theorem addOutputs_ok {tier : Denom → Bool} {s s' : State} {outs : List (Addr × Coins)}
    (h : WF tier s) (hr : addOutputs tier s outs = (s', none)) :
    WF tier s' ∧ s'.supply = s.supply ∧ (∀ d, total s' d = total s d + sideSum outs d) := by
  induction outs generalizing s with
  | nil => simp [addOutputs] at hr; subst hr; simp [h]
  | cons e outs ih =>
    obtain ⟨a, cs⟩ := e
    unfold addOutputs at hr
    cases hadd : addCoins tier s a cs with
    | mk s1 r1 =>
      rw [hadd] at hr
      cases r1 with
      | some e => simp at hr
      | none =>
        simp only at hr
        obtain ⟨hwf1, hsup1, htot1, _, _⟩ := addCoins_ok h hadd
        obtain ⟨hwf2, hsup2, htot2⟩ := ih hwf1 hr
        refine ⟨hwf2, by rw [hsup2, hsup1], ?_⟩
        intro d; rw [htot2 d, htot1 d]; simp; omega

theorem inputOutput_ok {tier : Denom → Bool} {s s' : State} {ins outs : List (Addr × Coins)}
    (h : WF tier s) (hr : inputOutput tier s ins outs = (s', none)) : Neutral tier s s' := by
  unfold inputOutput at hr
  cases hval : validateIO ins outs with
  | error f => rw [hval] at hr; simp at hr
  | ok u =>
    rw [hval] at hr
    simp only at hr
    have hbal := (validateIO_ok ins outs hval).2.2
    cases hsub : subInputs tier s ins with
    | mk s1 r1 =>
      rw [hsub] at hr
      cases r1 with
      | some e => simp at hr
      | none =>
        simp only at hr
        obtain ⟨hwf1, hsup1, htot1⟩ := subInputs_ok h hsub
        obtain ⟨hwf2, hsup2, htot2⟩ := addOutputs_ok hwf1 hr
        refine ⟨hwf2, by rw [hsup2, hsup1], ?_⟩
        intro d; rw [htot2 d, htot1 d, hbal d]; omega

theorem exists_mem_of_sumOf_ne_zero (cs : Coins) (d : Denom) (h : sumOf cs d ≠ 0) : ∃ c ∈ cs, c.denom = d := by
  apply Classical.byContradiction
  intro hne
  apply h
  apply sumOf_eq_zero
  intro c hc hd
  exact hne ⟨c, hc, hd⟩

/-- a successful mint or burn (sign = ±1), given the two halves it is made of. -/
theorem issuance_finish {tier : Denom → Bool} {s s1 : State} {amt : Coins} {sign : Int} {next : List (Denom × Int)}
    (h : Inv tier s) (hsign : sign = 1 ∨ sign = -1) (hv : coinsValid amt = true)
    (hnext : nextSupply s sign amt = .ok next)
    (hwf1 : WF tier s1) (hsup1 : s1.supply = s.supply) (htot1 : ∀ d, total s1 d = total s d + sign * sumOf amt d) :
    Inv tier (writeSupplies s1 next) ∧
    ∀ d, getSupply (writeSupplies s1 next) d = getSupply s d + sign * sumOf amt d := by
  obtain ⟨hnexteq, hrange⟩ := nextSupply_ok _ _ _ _ hnext
  have hmem := coinsValid_mem _ hv
  have hnd := coinsValid_nodup _ hv
  have hget : ∀ d, getSupply (writeSupplies s1 next) d = getSupply s d + sign * sumOf amt d := by
    intro d
    rw [hnexteq, getSupply_writeSupplies_delta s sign amt s1 hwf1 hnd
      (fun c hc => ⟨(hrange c hc).1, (hmem c hc).1⟩)
      (fun c _ => getSupply_congr _ _ hsup1 c.denom) d, getSupply_congr _ _ hsup1]
  refine ⟨⟨?_, ?_, ?_⟩, hget⟩
  · rw [hnexteq]
    apply WF_writeSupplies hwf1
    intro w hw
    simp only [List.mem_map] at hw
    obtain ⟨c, hc, rfl⟩ := hw
    exact ⟨(hrange c hc).1, (hmem c hc).1⟩
  · intro d
    rw [hget d, total_writeSupplies, htot1 d, h.2.1 d]
  · intro d
    rw [hget d]
    by_cases hz : sumOf amt d = 0
    · rw [hz]; have := h.2.2 d; simp; exact this
    · obtain ⟨c, hc, hd⟩ := exists_mem_of_sumOf_ne_zero amt d hz
      have := sumOf_of_mem_nodup amt hnd c hc
      rw [← hd, this]
      exact (hrange c hc).2

theorem mintCoins_ok {tier : Denom → Bool} {s s' : State} {a : Addr} {amt : Coins}
    (h : Inv tier s) (hr : mintCoins tier s a amt = (s', none)) :
    Inv tier s' ∧ ∀ d, getSupply s' d = getSupply s d + sumOf amt d := by
  unfold mintCoins at hr
  by_cases hv : coinsValid amt = true
  case neg => simp [hv] at hr
  simp only [hv, Bool.not_true, Bool.false_eq_true, ↓reduceIte] at hr
  cases hnext : nextSupply s 1 amt with
  | error f => rw [hnext] at hr; simp at hr
  | ok next =>
    rw [hnext] at hr
    simp only at hr
    cases hadd : addCoins tier s a amt with
    | mk s1 r1 =>
      rw [hadd] at hr
      cases r1 with
      | some e => simp at hr
      | none =>
        simp only at hr
        have hs' : s' = writeSupplies s1 next := by
          have := congrArg Prod.fst hr; simpa using this.symm
        obtain ⟨hwf1, hsup1, htot1, _, _⟩ := addCoins_ok h.1 hadd
        have := issuance_finish h (Or.inl rfl) hv hnext hwf1 hsup1 (by intro d; rw [htot1 d]; simp)
        rw [hs']
        refine ⟨this.1, ?_⟩
        intro d; rw [this.2 d]; simp

theorem burnCoins_ok {tier : Denom → Bool} {s s' : State} {a : Addr} {amt : Coins}
    (h : Inv tier s) (hr : burnCoins tier s a amt = (s', none)) :
    Inv tier s' ∧ ∀ d, getSupply s' d = getSupply s d - sumOf amt d := by
  unfold burnCoins at hr
  by_cases hv : coinsValid amt = true
  case neg => simp [hv] at hr
  simp only [hv, Bool.not_true, Bool.false_eq_true, ↓reduceIte] at hr
  cases hnext : nextSupply s (-1) amt with
  | error f => rw [hnext] at hr; simp at hr
  | ok next =>
    rw [hnext] at hr
    simp only at hr
    cases hsub : subtractCoins tier s a amt true with
    | mk s1 r1 =>
      rw [hsub] at hr
      cases r1 with
      | some e => simp at hr
      | none =>
        simp only at hr
        have hs' : s' = writeSupplies s1 next := by
          have := congrArg Prod.fst hr; simpa using this.symm
        obtain ⟨hwf1, hsup1, htot1, _, _⟩ := subtractCoins_ok h.1 hsub
        have := issuance_finish h (Or.inr rfl) hv hnext hwf1 hsup1 (by intro d; rw [htot1 d]; omega)
        rw [hs']
        refine ⟨this.1, ?_⟩
        intro d; rw [this.2 d]; omega


/-! ### administrative operations -/

theorem WF_congr {tier : Denom → Bool} {s s' : State} (h : WF tier s) (ha : s'.accts = s.accts)
    (hs : s'.split = s.split) (hp : s'.supply = s.supply) (hn : s'.nextNum = s.nextNum) : WF tier s' := by
  obtain ⟨a1, b1, c1, n1, r1, u1⟩ := s
  obtain ⟨a2, b2, c2, n2, r2, u2⟩ := s'
  simp only at ha hs hp hn
  subst ha hs hp hn
  exact ⟨h.acct_key, h.acct_nodup, h.acct_num, h.acct_num_inj, h.acct_coins, h.split_pos, h.split_key,
    h.split_nodup, h.supply_pos, h.supply_nodup⟩

theorem vestOp_ok {tier : Denom → Bool} {s s' : State} {a : Addr} {l : Coins}
    (h : WF tier s) (hr : vestOp s a l = (s', none)) : Neutral tier s s' := by
  unfold vestOp at hr
  cases hg : getAcct s a with
  | some x =>
    rw [hg] at hr
    simp only at hr
    have hs' : s' = setAccount s { x with kind := .vesting l } := by
      have := congrArg Prod.fst hr; simpa using this.symm
    have hxm : (a, x) ∈ s.accts := find_some_mem _ _ _ hg
    have hxa : x.addr = a := h.acct_key _ hxm
    have hgx : getAcct s ({ x with kind := Kind.vesting l } : Account).addr = some x := by
      show getAcct s x.addr = some x
      rw [hxa]; exact hg
    rw [hs']
    refine ⟨WF_setAccount_existing h _ x hgx rfl (h.acct_coins _ hxm).1 (h.acct_coins _ hxm).2, rfl, ?_⟩
    intro d
    unfold total
    rw [splitTotal_setAccount, acctTotal_setAccount, hgx]
    simp only
    omega
  | none =>
    rw [hg] at hr
    simp only [newAccount] at hr
    have hs' : s' = setAccount { s with nextNum := s.nextNum + 1 } ⟨a, s.nextNum, [], .vesting l⟩ := by
      have := congrArg Prod.fst hr; simpa using this.symm
    rw [hs']
    refine ⟨WF_setAccount_new h ⟨a, s.nextNum, [], .vesting l⟩ hg rfl rfl (by simp), rfl, ?_⟩
    intro d
    unfold total
    rw [splitTotal_setAccount, acctTotal_setAccount]
    have : getAcct { s with nextNum := s.nextNum + 1 } a = none := hg
    simp only [this]
    have e1 : splitTotal { s with nextNum := s.nextNum + 1 } d = splitTotal s d := rfl
    have e2 : acctTotal { s with nextNum := s.nextNum + 1 } d = acctTotal s d := rfl
    rw [e1, e2]; simp

theorem whitelistOp_ok {tier : Denom → Bool} {s s' : State} {a : Addr}
    (h : WF tier s) (hr : whitelistOp s a = (s', none)) : Neutral tier s s' := by
  unfold whitelistOp at hr
  cases hg : getAcct s a with
  | none => rw [hg] at hr; simp at hr
  | some x =>
    rw [hg] at hr
    simp only at hr
    cases hk : x.kind with
    | vesting l => rw [hk] at hr; simp at hr
    | base => rw [hk] at hr; simp at hr
    | gno w =>
      rw [hk] at hr
      simp only at hr
      have hs' : s' = setAccount s { x with kind := .gno true } := by
        have := congrArg Prod.fst hr; simpa using this.symm
      have hxm : (a, x) ∈ s.accts := find_some_mem _ _ _ hg
      have hxa : x.addr = a := h.acct_key _ hxm
      have hgx : getAcct s ({ x with kind := Kind.gno true } : Account).addr = some x := by
        show getAcct s x.addr = some x
        rw [hxa]; exact hg
      rw [hs']
      refine ⟨WF_setAccount_existing h _ x hgx rfl (h.acct_coins _ hxm).1 (h.acct_coins _ hxm).2, rfl, ?_⟩
      intro d
      unfold total
      rw [splitTotal_setAccount, acctTotal_setAccount, hgx]
      simp only
      omega

theorem unlockOp_ok {tier : Denom → Bool} {s s' : State}
    (h : WF tier s) (hr : unlockOp s = (s', none)) : Neutral tier s s' := by
  unfold unlockOp at hr
  have hs' : s' = { s with unlocked := true } := by
    have := congrArg Prod.fst hr; simpa using this.symm
  rw [hs']
  exact ⟨WF_congr h rfl rfl rfl rfl, rfl, fun _ => rfl⟩

theorem restrictOp_ok {tier : Denom → Bool} {s s' : State} {ds : List Denom}
    (h : WF tier s) (hr : restrictOp s ds = (s', none)) : Neutral tier s s' := by
  unfold restrictOp at hr
  split at hr
  · have hs' : s' = { s with restricted := ds } := by
      have := congrArg Prod.fst hr; simpa using this.symm
    rw [hs']
    exact ⟨WF_congr h rfl rfl rfl rfl, rfl, fun _ => rfl⟩
  · simp at hr

/-! ### the step -/

theorem rawStep_ok_neutral {tier : Denom → Bool} {s s' : State} {op : Op} (h : WF tier s)
    (hmb : op.isMintBurn = false) (hr : rawStep tier s op = (s', none)) : Neutral tier s s' := by
  cases op with
  | send f t amt => exact sendCoins_ok h hr
  | sendU f t amt => exact sendCoinsUnrestricted_ok h hr
  | fee a c fees => exact deductFees_ok h hr
  | multi ins outs => exact inputOutput_ok h hr
  | mint a amt => simp [Op.isMintBurn] at hmb
  | burn a amt => simp [Op.isMintBurn] at hmb
  | vest a l => exact vestOp_ok h hr
  | unlock => exact unlockOp_ok h hr
  | restrict ds => exact restrictOp_ok h hr
  | whitelist a => exact whitelistOp_ok h hr

theorem rawStep_ok_inv {tier : Denom → Bool} {s s' : State} {op : Op} (h : Inv tier s)
    (hr : rawStep tier s op = (s', none)) : Inv tier s' := by
  cases hop : op.isMintBurn with
  | false => exact Inv_of_neutral h (rawStep_ok_neutral h.1 hop hr)
  | true =>
    cases op with
    | mint a amt => exact (mintCoins_ok h hr).1
    | burn a amt => exact (burnCoins_ok h hr).1
    | _ => simp [Op.isMintBurn] at hop

theorem txStep_cases (tier : Denom → Bool) (s : State) (op : Op) :
    txStep tier s op = s ∨ ∃ s', rawStep tier s op = (s', none) ∧ txStep tier s op = s' := by
  unfold txStep
  cases hr : rawStep tier s op with
  | mk s1 r1 =>
    cases r1 with
    | none => exact Or.inr ⟨s1, rfl, rfl⟩
    | some e => exact Or.inl rfl

theorem rawBatch_ok_inv {tier : Denom → Bool} {s s' : State} {ops : List Op} (h : Inv tier s)
    (hr : rawBatch tier s ops = (s', none)) : Inv tier s' := by
  induction ops generalizing s with
  | nil => simp [rawBatch] at hr; subst hr; exact h
  | cons op ops ih =>
    unfold rawBatch at hr
    cases h1 : rawStep tier s op with
    | mk s1 r1 =>
      rw [h1] at hr
      cases r1 with
      | some e => simp at hr
      | none => exact ih (rawStep_ok_inv h h1) hr

end GnoVerif.C14
