import GnoVerif.Proofs.C46Lines
/-! Proofs.C46Armor — `DecodeArmor(EncodeArmor(type, headers, data)) = (type, headers, data)`. -/
namespace GnoVerif.C46

def beginLine (ty : Bytes) : Bytes := armorStart ++ ty ++ armorEOL
def endLine (ty : Bytes) : Bytes := armorEnd ++ ty ++ armorEOL
def hline (kv : Bytes × Bytes) : Bytes := kv.1 ++ [58, 32] ++ kv.2
def crcLine (data : Bytes) : Bytes := 61 :: b64enc (crcBytes (crc24 data))
def hdrText (hdrs : List (Bytes × Bytes)) : Bytes := (hdrs.map (fun kv => kv.1 ++ [58, 32] ++ kv.2 ++ [10])).flatten

/-- a header the decoder reads back unchanged -/
structure HdrOK (k v : Bytes) : Prop where
  nl : ∀ b ∈ hline (k, v), (b == 10) = false
  short : (hline (k, v)).length < 100
  first : ∀ c, (hline (k, v)).head? = some c → isSpace c = false
  last : ∀ c, (hline (k, v)).getLast? = some c → isSpace c = false
  idx : indexColonSp (hline (k, v)) = some k.length

/-- the blocks for which `parse ∘ format = id` is claimed -/
structure ArmorOK (ty : Bytes) (hdrs : List (Bytes × Bytes)) : Prop where
  tyne : ty ≠ []
  tynl : ∀ b ∈ ty, (b == 10) = false
  tylen : ty.length ≤ 83
  hdr : ∀ kv ∈ hdrs, HdrOK kv.1 kv.2
  keys : (hdrs.map (·.1)).Nodup

theorem encode_shape (ty : Bytes) (hdrs : List (Bytes × Bytes)) (data : Bytes) :
    encodeArmor ty hdrs data =
      beginLine ty ++ 10 :: (hdrText hdrs ++ 10 :: (joinNL (chunksOf 64 (b64enc data)) ++ 10 ::
        (crcLine data ++ 10 :: endLine ty))) := by
  simp [encodeArmor, beginLine, endLine, hdrText, crcLine, List.append_assoc]

theorem getLast_append_eol (x : Bytes) : (x ++ armorEOL).getLast? = some 45 := by
  simp [armorEOL, List.getLast?_append]

theorem goodLine_begin (ty : Bytes) (hnl : ∀ b ∈ ty, (b == 10) = false) (hlen : ty.length ≤ 83) :
    GoodLine (beginLine ty) := by
  refine ⟨?_, ?_, ?_⟩
  · intro b hb
    simp only [beginLine, List.mem_append] at hb
    rcases hb with (hb | hb) | hb
    · revert b; decide
    · exact hnl b hb
    · revert b; decide
  · simp [beginLine, armorStart, armorEOL]; omega
  · rw [beginLine, getLast_append_eol]; decide

theorem goodLine_end (ty : Bytes) (hnl : ∀ b ∈ ty, (b == 10) = false) (hlen : ty.length ≤ 83) :
    GoodLine (endLine ty) := by
  refine ⟨?_, ?_, ?_⟩
  · intro b hb
    simp only [endLine, List.mem_append] at hb
    rcases hb with (hb | hb) | hb
    · revert b; decide
    · exact hnl b hb
    · revert b; decide
  · simp [endLine, armorEnd, armorEOL]; omega
  · rw [endLine, getLast_append_eol]; decide

theorem goodLine_hdr (k v : Bytes) (h : HdrOK k v) : GoodLine (hline (k, v)) := by
  refine ⟨h.nl, h.short, ?_⟩
  cases hl : (hline (k, v)).getLast? with
  | none => rfl
  | some c =>
    have := h.last c hl
    have hc : c ≠ 13 := by intro e; subst e; revert this; decide
    simp [hc]

theorem goodLine_b64 (c : Bytes) (hc : c.length ≤ 48) : GoodLine (b64enc c) := by
  have hch := b64enc_chars c
  refine ⟨?_, ?_, ?_⟩
  · intro b hb
    have := hch b hb
    simp only [Bool.and_eq_true, bne_iff_ne, ne_eq] at this
    simpa using this.1.1
  · rw [b64enc_length]; omega
  · cases hl : (b64enc c).getLast? with
    | none => rfl
    | some x =>
      have hx : x ∈ b64enc c := List.mem_of_getLast? hl
      have := hch x hx
      simp only [Bool.and_eq_true, bne_iff_ne, ne_eq] at this
      simp [this.1.2]

theorem goodLine_crc (data : Bytes) : GoodLine (crcLine data) := by
  have hg := goodLine_b64 (crcBytes (crc24 data)) (by simp [crcBytes])
  have hlen : (b64enc (crcBytes (crc24 data))).length = 4 := by rw [b64enc_length]; simp [crcBytes]
  refine ⟨?_, ?_, ?_⟩
  · intro b hb
    simp only [crcLine, List.mem_cons] at hb
    rcases hb with rfl | hb
    · decide
    · exact hg.nl b hb
  · simp [crcLine, hlen]
  · have hne : b64enc (crcBytes (crc24 data)) ≠ [] := by
      intro e; rw [e] at hlen; simp at hlen
    rw [crcLine, List.getLast?_cons_of_ne_nil hne]  
    exact hg.cr

/-! ### readLines of an encoded block -/

def pairs (ls : List Bytes) : List (Bytes × Bool) := ls.map (fun l => (l, false))

def bodyPairs (data : Bytes) : List (Bytes × Bool) :=
  if chunksOf 64 (b64enc data) = [] then [([], false)] else pairs (chunksOf 64 (b64enc data))

theorem readLines_hdrs (hdrs : List (Bytes × Bytes)) (rest : Bytes) (h : ∀ kv ∈ hdrs, HdrOK kv.1 kv.2) :
    readLines (hdrText hdrs ++ rest) = pairs (hdrs.map hline) ++ readLines rest := by
  induction hdrs with
  | nil => simp [hdrText, pairs]
  | cons kv r ih =>
    have hk := goodLine_hdr kv.1 kv.2 (h kv (by simp))
    have : hdrText (kv :: r) ++ rest = hline kv ++ 10 :: (hdrText r ++ rest) := by
      simp [hdrText, hline, List.append_assoc]
    rw [this, readLines_line _ _ hk, ih (fun x hx => h x (by simp [hx]))]
    simp [pairs]

theorem readLines_body (ls : List Bytes) (T : Bytes) (h : ∀ l ∈ ls, GoodLine l) :
    readLines (joinNL ls ++ 10 :: T) = (if ls = [] then [([], false)] else pairs ls) ++ readLines T := by
  induction ls with
  | nil => simp [joinNL, readLines_blank]
  | cons l r ih =>
    cases r with
    | nil =>
      simp only [joinNL, List.cons_ne_self, reduceCtorEq, if_false]
      rw [readLines_line _ _ (h l (by simp))]
      simp [pairs]
    | cons l' r' =>
      have : joinNL (l :: l' :: r') ++ 10 :: T = l ++ 10 :: (joinNL (l' :: r') ++ 10 :: T) := by
        simp [joinNL, List.append_assoc]
      rw [this, readLines_line _ _ (h l (by simp)), ih (fun x hx => h x (by simp [hx]))]
      simp [pairs]

theorem body_lines_good (data : Bytes) : ∀ l ∈ chunksOf 64 (b64enc data), GoodLine l := by
  intro l hl
  rw [chunks64_enc] at hl
  obtain ⟨c, hc, rfl⟩ := List.mem_map.mp hl
  exact goodLine_b64 c (chunksOf_mem 48 (by decide) data c hc).2

theorem readLines_encode (ty : Bytes) (hdrs : List (Bytes × Bytes)) (data : Bytes) (ok : ArmorOK ty hdrs) :
    readLines (encodeArmor ty hdrs data) =
      (beginLine ty, false) :: (pairs (hdrs.map hline) ++ ([], false) :: (bodyPairs data ++
        [(crcLine data, false), (endLine ty, false)])) := by
  rw [encode_shape, readLines_line _ _ (goodLine_begin ty ok.tynl ok.tylen), readLines_hdrs _ _ ok.hdr,
    readLines_blank, readLines_body _ _ (body_lines_good data), readLines_line _ _ (goodLine_crc data),
    readLines_last _ (goodLine_end ty ok.tynl ok.tylen) (by simp [endLine, armorEnd])]
  rfl

/-! ### the three loops on that line list -/

theorem hasPrefix_end_false (l : Bytes) (h : ∀ c, l.head? = some c → (c != 45) = true) :
    hasPrefix l armorEnd = false := by
  cases l with
  | nil => rfl
  | cons c t =>
    have := h c rfl
    simp only [bne_iff_ne, ne_eq] at this
    simp only [hasPrefix, armorEnd, List.isPrefixOf]
    have : ((45 : UInt8) == c) = false := by simpa using fun e => this e.symm
    simp [this]

theorem hasPrefix_end_true (ty : Bytes) : hasPrefix (endLine ty) armorEnd = true := by
  simp [hasPrefix, endLine, List.append_assoc]

theorem b64Feed_line (out c : Bytes) (hne : c ≠ []) :
    b64Feed ⟨[], out⟩ (b64enc c) = some ⟨[], out ++ c⟩ := by
  have hch := b64enc_chars c
  have hfil : (b64enc c).filter (fun b => !isNL b) = b64enc c := by
    apply List.filter_eq_self.mpr
    intro b hb
    have := hch b hb
    simp only [Bool.and_eq_true, bne_iff_ne, ne_eq] at this
    simp [isNL, this.1.1, this.1.2]
  have hlen := b64enc_length c
  have hpos : 0 < c.length := List.length_pos_iff.mpr hne
  unfold b64Feed
  simp only [List.nil_append, hfil]
  have h4 : ¬ (b64enc c).length < 4 := by rw [hlen]; omega
  have hnr : (b64enc c).length / 4 * 4 = (b64enc c).length := by rw [hlen]; omega
  simp only [h4, if_false, hnr, List.take_length, List.drop_length, b64decode_enc]

theorem readBody_feed (chunks : List Bytes) (tail : List (Bytes × Bool)) (out : Bytes)
    (h : ∀ c ∈ chunks, c ≠ [] ∧ c.length ≤ 48) :
    readBody (pairs (chunks.map b64enc) ++ tail) ⟨[], out⟩ = readBody tail ⟨[], out ++ chunks.flatten⟩ := by
  induction chunks generalizing out with
  | nil => simp [pairs]
  | cons c r ih =>
    have hc := h c (by simp)
    have hhead := b64enc_head c
    have hlen := b64enc_length c
    simp only [List.map_cons, pairs, List.cons_append]
    rw [readBody]
    have hp : hasPrefix (b64enc c) armorEnd = false :=
      hasPrefix_end_false _ (fun x hx => by
        have := hhead x hx
        simp only [Bool.and_eq_true] at this
        exact this.1)
    have h5 : ((b64enc c).length = 5 && (b64enc c).head? == some 61) = false := by
      have : (b64enc c).length ≠ 5 := by rw [hlen]; omega
      simp [this]
    have h96 : ¬ (b64enc c).length > 96 := by rw [hlen]; omega
    simp only [Bool.false_eq_true, if_false, hp, h5, h96, b64Feed_line out c hc.1]
    have := ih (out ++ c) (fun x hx => h x (by simp [hx]))
    simp only [pairs] at this
    rw [this]
    simp [List.append_assoc]

theorem readBody_blank (tail : List (Bytes × Bool)) (out : Bytes) :
    readBody (([], false) :: tail) ⟨[], out⟩ = readBody tail ⟨[], out⟩ := by
  rw [readBody]
  simp [hasPrefix, armorEnd, b64Feed]

theorem crc24_lt (d : Bytes) : crc24 d < 16777216 := by
  unfold crc24
  exact Nat.mod_lt _ (by decide)

theorem fromBE_crcBytes (c : Nat) (h : c < 16777216) : fromBE (crcBytes c) = c := by
  have h1 : (UInt8.ofNat (c / 65536 % 256)).toNat = c / 65536 % 256 := by simp [UInt8.toNat_ofNat']
  have h2 : (UInt8.ofNat (c / 256 % 256)).toNat = c / 256 % 256 := by simp [UInt8.toNat_ofNat']
  have h3 : (UInt8.ofNat (c % 256)).toNat = c % 256 := by simp [UInt8.toNat_ofNat']
  simp only [crcBytes, fromBE, List.foldl_cons, List.foldl_nil, h1, h2, h3]
  omega

theorem readBody_tail (ty data : Bytes) :
    readBody [(crcLine data, false), (endLine ty, false)] ⟨[], data⟩ = .ok data := by
  have hlen : (b64enc (crcBytes (crc24 data))).length = 4 := by rw [b64enc_length]; simp [crcBytes]
  rw [readBody]
  have hp : hasPrefix (crcLine data) armorEnd = false :=
    hasPrefix_end_false _ (fun c hc => by simp [crcLine] at hc; subst hc; decide)
  have h5 : ((crcLine data).length = 5 && (crcLine data).head? == some 61) = true := by
    simp [crcLine, hlen]
  have hdrop : (crcLine data).drop 1 = b64enc (crcBytes (crc24 data)) := by simp [crcLine]
  simp only [Bool.false_eq_true, if_false, hp, h5, if_true, hdrop, b64decode_enc]
  have h3 : ¬ (crcBytes (crc24 data)).length ≠ 3 := by simp [crcBytes]
  simp only [h3, if_false, hasPrefix_end_true, Bool.not_true, Bool.false_eq_true]
  simp [b64Finish, fromBE_crcBytes _ (crc24_lt data)]

theorem readBody_encode (ty data : Bytes) :
    readBody (bodyPairs data ++ [(crcLine data, false), (endLine ty, false)]) ⟨[], []⟩ = .ok data := by
  unfold bodyPairs
  split
  · rename_i he
    have hd : data = [] := by
      rw [chunks64_enc] at he
      have h2 : chunksOf 48 data = [] := by simpa using he
      have := chunksOf_flatten 48 (by decide) data
      rw [h2] at this
      simpa using this.symm
    subst hd
    simp only [List.cons_append, List.nil_append]
    rw [readBody_blank]
    exact readBody_tail ty []
  · rw [chunks64_enc, readBody_feed _ _ _ (chunksOf_mem 48 (by decide) data), List.nil_append,
      chunksOf_flatten 48 (by decide)]
    exact readBody_tail ty data

theorem hdrSet_append (acc : List (Bytes × Bytes)) (k v : Bytes) (h : k ∉ acc.map (·.1)) :
    hdrSet acc k v = acc ++ [(k, v)] := by
  induction acc with
  | nil => rfl
  | cons a r ih =>
    have hne : (a.1 == k) = false := by
      have : a.1 ≠ k := fun e => h (by simp [e])
      simpa using this
    have hr : k ∉ r.map (·.1) := fun hm => h (by simp [hm])
    obtain ⟨k', v'⟩ := a
    simp only [hdrSet, hne, Bool.false_eq_true, if_false, ih hr, List.cons_append]

theorem readHeaders_encode (hdrs : List (Bytes × Bytes)) (rest : List (Bytes × Bool)) (ty : Bytes)
    (acc : List (Bytes × Bytes)) (lk : Bytes) (h : ∀ kv ∈ hdrs, HdrOK kv.1 kv.2)
    (hk : ((acc ++ hdrs).map (·.1)).Nodup) :
    readHeaders (pairs (hdrs.map hline) ++ ([], false) :: rest) ty acc false lk =
      match readBody rest ⟨[], []⟩ with
      | .ok data => .ok (ty, acc ++ hdrs, data)
      | .error e => .error e := by
  induction hdrs generalizing acc lk with
  | nil =>
    simp only [List.map_nil, pairs, List.nil_append, List.append_nil]
    rw [readHeaders]
    simp only [Bool.false_eq_true, if_false, trimSpace, List.dropWhile_nil, List.reverse_nil, List.isEmpty_nil, if_true]
    cases readBody rest ⟨[], []⟩ <;> rfl
  | cons kv r ih =>
    obtain ⟨k, v⟩ := kv
    have hok := h (k, v) (by simp)
    simp only [List.map_cons, pairs, List.cons_append]
    rw [readHeaders]
    have htrim : trimSpace (hline (k, v)) = hline (k, v) := trimSpace_id _ hok.first hok.last
    have hne : (hline (k, v)).isEmpty = false := by simp [hline]
    have htake : (hline (k, v)).take k.length = k := by simp [hline, List.append_assoc]
    have hdrop : (hline (k, v)).drop (k.length + 2) = v := by
      have e : hline (k, v) = (k ++ [58, 32]) ++ v := rfl
      rw [e, List.drop_left' (by simp)]
    simp only [Bool.false_eq_true, if_false, htrim, hne, hok.idx, htake, hdrop]
    have hknot : k ∉ acc.map (·.1) := by
      intro hm
      rw [List.map_append, List.map_cons] at hk
      have := (List.nodup_append.mp hk).2.2 k hm k (by simp)
      exact this rfl
    rw [hdrSet_append acc k v hknot]
    have := ih (acc ++ [(k, v)]) k (fun x hx => h x (by simp [hx])) (by simpa [List.append_assoc] using hk)
    simp only [pairs] at this
    rw [this]
    simp [List.append_assoc]

theorem skipGarbage_begin (ty : Bytes) (rest : List (Bytes × Bool)) (hne : ty ≠ []) :
    skipGarbage ((beginLine ty, false) :: rest) false = readHeaders rest ty [] false [] := by
  rw [skipGarbage]
  have htrim : trimSpace (beginLine ty) = beginLine ty := by
    apply trimSpace_id
    · intro c hc
      simp [beginLine, armorStart] at hc
      subst hc; decide
    · intro c hc
      rw [beginLine, getLast_append_eol] at hc
      injection hc with hc; subst hc; decide
  have hpos : 0 < ty.length := List.length_pos_iff.mpr hne
  have hlen : (beginLine ty).length = 11 + ty.length + 5 := by
    simp only [beginLine, armorStart, armorEOL, List.length_append, List.length_cons, List.length_nil]
  have hpre : hasPrefix (beginLine ty) armorStart = true := by
    simp [hasPrefix, beginLine, List.append_assoc]
  have hty : ((beginLine ty).drop armorStart.length).take ((beginLine ty).length - armorStart.length - armorEOL.length) = ty := by
    have e1 : armorStart.length = 11 := rfl
    have e2 : armorEOL.length = 5 := rfl
    rw [hlen, e1, e2]
    have e3 : 11 + ty.length + 5 - 11 - 5 = ty.length := by omega
    rw [e3]
    show ((armorStart ++ ty ++ armorEOL).drop 11).take ty.length = ty
    rw [List.append_assoc, List.drop_left' e1, List.take_left' rfl]
  have hgt : (beginLine ty).length > armorStart.length + armorEOL.length := by
    have e1 : armorStart.length = 11 := rfl
    have e2 : armorEOL.length = 5 := rfl
    rw [hlen, e1, e2]; omega
  simp only [Bool.false_eq_true, Bool.or_self, if_false, htrim, hgt, hpre, decide_true, Bool.and_self, if_true, hty]

/-- parse ∘ format = id -/
theorem decode_encode (ty : Bytes) (hdrs : List (Bytes × Bytes)) (data : Bytes) (ok : ArmorOK ty hdrs) :
    decodeArmor (encodeArmor ty hdrs data) = .ok (ty, hdrs, data) := by
  unfold decodeArmor
  rw [readLines_encode ty hdrs data ok, skipGarbage_begin ty _ ok.tyne,
    readHeaders_encode hdrs _ ty [] [] ok.hdr (by simpa using ok.keys), readBody_encode]
  simp

end GnoVerif.C46
