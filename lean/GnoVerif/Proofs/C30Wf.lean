import GnoVerif.Proofs.C30Hist
/-!
C30 helper lemmas, part 7: every tree the state holds anywhere (working tree, last
saved tree, every root in the database and in the write batch, every surviving leaf) is
well-formed, at every state reachable by the protocol.
-/
namespace GnoVerif.C30
open GnoVerif

namespace Node

theorem assignKeys_toC50 (version : Int) (n : Node) (nonce : Nat) :
    toC50 (assignKeys version n nonce).1 = toC50 n := by
  induction n generalizing nonce with
  | leaf k v nk => cases nk <;> rfl
  | inner k h s nk l r ihl ihr =>
    cases nk with
    | some x => rfl
    | none =>
      simp only [assignKeys, toC50_inner, ihl, ihr]

theorem assignKeys_wf {version : Int} {n : Node} {nonce : Nat} (h : n.WF) : (assignKeys version n nonce).1.WF := by
  rw [wf_toC50, assignKeys_toC50, ← wf_toC50]; exact h

theorem assignKeys_toList (version : Int) (n : Node) (nonce : Nat) :
    (assignKeys version n nonce).1.toList = n.toList := by
  rw [← toList_toC50, assignKeys_toC50, toList_toC50]

end Node

namespace DB

theorem mem_of_lookup {β : Type} {v : Int} {x : β} {l : List (Int × β)} (h : lookup v l = some x) : (v, x) ∈ l := by
  induction l with
  | nil => simp [lookup] at h
  | cons q t ih =>
    obtain ⟨w, y⟩ := q
    simp only [lookup] at h
    by_cases hw : w = v
    · simp only [hw, if_true, Option.some.injEq] at h
      subst hw; subst h; simp
    · simp only [hw, if_false] at h
      exact List.mem_cons_of_mem _ (ih h)

theorem mem_insertRoot {v : Int} {r : Option Node} {l : List (Int × Option Node)} {p : Int × Option Node}
    (h : p ∈ insertRoot v r l) : p = (v, r) ∨ p ∈ l := by
  induction l with
  | nil => simp [insertRoot] at h; exact Or.inl h
  | cons q t ih =>
    obtain ⟨w, y⟩ := q
    simp only [insertRoot] at h
    split at h
    · simp only [List.mem_cons] at h
      rcases h with h | h | h
      · exact Or.inl h
      · exact Or.inr (by simp [h])
      · exact Or.inr (by simp [h])
    · split at h
      · simp only [List.mem_cons] at h
        rcases h with h | h
        · exact Or.inl h
        · exact Or.inr (by simp [h])
      · simp only [List.mem_cons] at h
        rcases h with h | h
        · exact Or.inr (by simp [h])
        · rcases ih h with h | h
          · exact Or.inl h
          · exact Or.inr (by simp [h])

/-- every tree in the database is well-formed -/
def AllWF (d : DB) : Prop := (∀ p ∈ d.roots, WFo p.2) ∧ (∀ p ∈ d.stuck, p.2.WF)

theorem allWF_empty : DB.empty.AllWF := ⟨by simp [DB.empty], by simp [DB.empty]⟩

theorem getRoot_wf {d : DB} (h : d.AllWF) {v : Int} {r : Option Node} (hr : d.getRoot v = .ok r) : WFo r := by
  unfold getRoot at hr
  split at hr
  · rename_i x hx
    simp only [Except.ok.injEq] at hr; subst hr
    exact h.1 _ (mem_of_lookup hx)
  · split at hr
    · rename_i lf hl
      simp only [Except.ok.injEq] at hr; subst hr
      exact h.2 _ (mem_of_lookup hl)
    · simp at hr

theorem allWF_setRoot {d : DB} (h : d.AllWF) (v : Int) {r : Option Node} (hr : WFo r) : (d.setRoot v r).AllWF := by
  refine ⟨?_, h.2⟩
  intro p hp
  rcases mem_insertRoot hp with e | e
  · rw [e]; exact hr
  · exact h.1 p e

theorem allWF_restrict {d : DB} (h : d.AllWF) (p : Int → Bool) : (d.restrict p).AllWF :=
  ⟨fun q hq => h.1 q (List.mem_filter.1 hq).1, fun q hq => h.2 q (List.mem_filter.1 hq).1⟩

theorem allWF_addStuck {d : DB} (h : d.AllWF) (v : Int) {n : Node} (hn : n.WF) : (d.addStuck v n).AllWF := by
  refine ⟨h.1, ?_⟩
  intro q hq
  simp only [addStuck, List.mem_append, List.mem_singleton] at hq
  rcases hq with hq | hq
  · exact h.2 q hq
  · rw [hq]; exact hn

end DB

namespace St

/-- every tree the state holds is well-formed -/
def AllWF (s : St) : Prop := s.db.AllWF ∧ s.batch.AllWF ∧ WFo s.root ∧ WFo s.lsRoot

theorem init_allWF (iv : Int) : (St.init iv).AllWF :=
  ⟨DB.allWF_empty, DB.allWF_empty, trivial, trivial⟩

theorem allWF_of_same {s s' : St} (h : Same s s') (hw : s.AllWF) : s'.AllWF := by
  obtain ⟨h1, h2, h3, h4⟩ := hw
  refine ⟨?_, ?_, ?_, ?_⟩
  · rw [h.1]; exact h1
  · rw [h.batch]; exact h2
  · rw [h.2.2.1]; exact h3
  · rw [h.2.2.2.2.1]; exact h4

theorem savedRoot_wf {s : St} (h : WFo s.root) : WFo s.savedRoot := by
  unfold savedRoot
  cases hr : s.root with
  | none => trivial
  | some r =>
    rw [hr] at h
    simp only
    cases r.nk with
    | some k => exact h
    | none => exact Node.assignKeys_wf h

theorem savedRoot_abs (s : St) : abs s.savedRoot = abs s.root := by
  unfold savedRoot
  cases hr : s.root with
  | none => rfl
  | some r =>
    simp only
    cases r.nk with
    | some k => rfl
    | none => simp only [abs, Node.assignKeys_toList]

/-- where working tree and last saved tree come from after `SaveVersion` -/
theorem saveVersion_roots (H : Bytes → Bytes) (s : St) :
    ((s.saveVersion H).2.root = s.root ∧ (s.saveVersion H).2.lsRoot = s.lsRoot) ∨
    (∃ r, s.db.getRoot s.workingVersion = .ok r ∧ (s.saveVersion H).2.root = r ∧ (s.saveVersion H).2.lsRoot = r) ∨
    ((s.saveVersion H).2.root = s.savedRoot ∧ (s.saveVersion H).2.lsRoot = s.savedRoot) := by
  have hsm := versionExists_same { s with ivSet := false } s.workingVersion
  obtain ⟨h1, h2, h3, h4, h5, h6, h7, h8⟩ := hsm
  simp only at h1 h2 h3 h4 h5 h6 h7 h8
  unfold saveVersion
  simp only
  cases hex : (({ s with ivSet := false } : St).versionExists s.workingVersion).1 with
  | true =>
    simp only [if_true]
    cases hg : (({ s with ivSet := false } : St).versionExists s.workingVersion).2.db.getRoot s.workingVersion with
    | error e => exact Or.inl ⟨h3, h5⟩
    | ok existingRoot =>
      simp only
      rw [h1] at hg
      split
      · exact Or.inr (Or.inl ⟨existingRoot, hg, rfl, rfl⟩)
      · exact Or.inl ⟨h3, h5⟩
  | false =>
    right; right
    simp only [Bool.false_eq_true, if_false, savedRoot, h3]
    cases hr : s.root with
    | none => simp
    | some r =>
      cases hk : r.nk with
      | some k => simp [hk]
      | none => simp [hk]

theorem allWF_of_parts {s s' : St} (hw : s.AllWF) (h1 : s'.db = s.db) (h2 : s'.pend = s.pend)
    (h3 : WFo s'.root) (h4 : WFo s'.lsRoot) : s'.AllWF := by
  refine ⟨?_, ?_, h3, h4⟩
  · rw [h1]; exact hw.1
  · simp only [St.batch, h1, h2]; exact hw.2.1

theorem set_wf {s s' : St} {k : Bytes} {v : Option Bytes} {u : Bool} (h : s.set k v = .ok (u, s')) (hw : s.AllWF) :
    s'.AllWF := by
  obtain ⟨h1, h2, -, -, -, h6, -⟩ := set_frame h
  refine allWF_of_parts hw h1 h2 ?_ (h6 ▸ hw.2.2.2)
  unfold St.set at h
  cases v with
  | none => simp at h
  | some val =>
    simp only at h
    cases hr : s.root with
    | none =>
      rw [hr] at h
      simp only [Except.ok.injEq, Prod.mk.injEq] at h
      obtain ⟨-, h⟩ := h; subst h
      exact ⟨trivial, by simp [Node.new, OMap.Sorted]⟩
    | some n =>
      rw [hr] at h
      have hn : n.WF := by have := hw.2.2.1; rw [hr] at this; exact this
      obtain ⟨m, u', hset, hm, -, -⟩ := Node.set_spec hn k val
      simp only at h
      rw [hset] at h
      simp only [Except.ok.injEq, Prod.mk.injEq] at h
      obtain ⟨-, h⟩ := h; subst h
      exact hm

theorem remove_wf {s s' : St} {k : Bytes} {x : Option Bytes × Bool} (h : s.remove k = .ok (x, s')) (hw : s.AllWF) :
    s'.AllWF := by
  obtain ⟨h1, h2, -, -, -, h6, -⟩ := remove_frame h
  refine allWF_of_parts hw h1 h2 ?_ (h6 ▸ hw.2.2.2)
  unfold St.remove at h
  cases hr : s.root with
  | none =>
    rw [hr] at h
    simp only [Except.ok.injEq, Prod.mk.injEq] at h
    obtain ⟨-, h⟩ := h; subst h; rw [hr]; trivial
  | some n =>
    rw [hr] at h
    have hn : n.WF := by have := hw.2.2.1; rw [hr] at this; exact this
    obtain ⟨nn, nkey, val, rem, hrm, hnn, -⟩ := Node.remove_spec hn k
    simp only at h
    rw [hrm] at h
    simp only at h
    cases rem with
    | false =>
      simp only [Bool.not_false, if_true, Except.ok.injEq, Prod.mk.injEq] at h
      obtain ⟨-, h⟩ := h; subst h; rw [hr]; exact hn
    | true =>
      simp only [Bool.not_true, Bool.false_eq_true, if_false, Except.ok.injEq, Prod.mk.injEq] at h
      obtain ⟨-, h⟩ := h; subst h; exact hnn

theorem rollback_wf (s : St) (hw : s.AllWF) : s.rollback.AllWF := by
  obtain ⟨h1, h2, -⟩ := rollback_frame s
  refine allWF_of_parts hw h1 h2 ?_ ?_
  · unfold rollback; split
    · exact hw.2.2.2
    · trivial
  · unfold rollback; split <;> exact hw.2.2.2

theorem loadVersion_wf (s : St) (t : Int) (hw : s.AllWF) : (s.loadVersion t).2.AllWF := by
  obtain ⟨h1, h2⟩ := loadVersion_frame s t
  rcases loadVersion_root s t with ⟨a, b, -⟩ | ⟨v, r, hr, a, b, -⟩
  · exact allWF_of_parts hw h1 h2 (a ▸ hw.2.2.1) (b ▸ hw.2.2.2)
  · have := DB.getRoot_wf hw.1 hr
    exact allWF_of_parts hw h1 h2 (a ▸ this) (b ▸ this)

theorem reopen_wf (s : St) (hw : s.AllWF) : s.reopen.2.AllWF := by
  unfold reopen
  apply loadVersion_wf
  exact ⟨hw.1, hw.1, trivial, trivial⟩

theorem saveVersion_wf (H : Bytes → Bytes) (s : St) (hw : s.AllWF) : (s.saveVersion H).2.AllWF := by
  have hroots : WFo (s.saveVersion H).2.root ∧ WFo (s.saveVersion H).2.lsRoot := by
    rcases saveVersion_roots H s with ⟨a, b⟩ | ⟨r, hr, a, b⟩ | ⟨a, b⟩
    · exact ⟨a ▸ hw.2.2.1, b ▸ hw.2.2.2⟩
    · have := DB.getRoot_wf hw.1 hr
      exact ⟨a ▸ this, b ▸ this⟩
    · have := savedRoot_wf hw.2.2.1
      exact ⟨a ▸ this, b ▸ this⟩
  rcases saveVersion_cases H s with ⟨-, h1, h2⟩ | ⟨-, h1, h2, -⟩
  · exact allWF_of_parts hw h1 h2 hroots.1 hroots.2
  · have hdb : (s.saveVersion H).2.db.AllWF := by
      rw [h1]; exact DB.allWF_setRoot hw.2.1 _ (savedRoot_wf hw.2.2.1)
    refine ⟨hdb, ?_, hroots.1, hroots.2⟩
    simp only [St.batch, h2, Option.getD_none]; exact hdb

theorem deleteVersion_wf {s s' : St} {v : Int} (h : s.deleteVersion v = .ok s') (hw : s.AllWF) : s'.AllWF := by
  unfold deleteVersion at h
  cases hp : s.db.getRoot v with
  | error e => rw [hp] at h; simp at h
  | ok prev =>
    rw [hp] at h
    simp only at h
    cases hc : s.db.getRoot (v + 1) with
    | error e => rw [hc] at h; simp at h
    | ok cur =>
      rw [hc] at h
      simp only [Except.ok.injEq] at h
      subst h
      refine ⟨hw.1, ?_, hw.2.2.1, hw.2.2.2⟩
      simp only [St.batch, Option.getD_some]
      have hr := DB.allWF_restrict hw.2.1 (fun x => decide (x ≠ v))
      cases hst : staysKey v prev cur with
      | none => exact hr
      | some p =>
        simp only
        have hprev := staysKey_some hst
        have hpw : WFo prev := DB.getRoot_wf hw.1 hp
        rw [hprev] at hpw
        exact DB.allWF_addStuck hr v hpw

theorem deleteLoop_wf (to : Int) : ∀ (fuel : Nat) (s : St) (v : Int), s.AllWF → (deleteLoop to fuel s v).2.AllWF := by
  intro fuel
  induction fuel with
  | zero => intro s v hw; exact hw
  | succ f ih =>
    intro s v hw
    simp only [deleteLoop]
    split
    · cases hd : s.deleteVersion v with
      | error e => exact hw
      | ok s1 =>
        simp only
        have h1 := deleteVersion_wf hd hw
        exact ih { s1 with first := v + 1 } (v + 1) h1
    · exact hw

theorem commit_wf {s : St} (hw : s.AllWF) : s.commit.AllWF :=
  ⟨hw.2.1, by simp only [St.batch, commit, Option.getD_none]; exact hw.2.1, hw.2.2.1, hw.2.2.2⟩

theorem deleteVersionsTo_wf (s : St) (to : Int) (hw : s.AllWF) : (s.deleteVersionsTo to).2.AllWF := by
  unfold deleteVersionsTo
  split
  · exact commit_wf hw
  · have ab := (getFirstVersion_same s).trans (getLatestVersion_same s.getFirstVersion.2)
    have hw2 := allWF_of_same ab hw
    simp only
    split
    · exact hw2
    · have hl := deleteLoop_wf to ((to - s.getFirstVersion.1 + 1).toNat) _ s.getFirstVersion.1 hw2
      split
      · rename_i e s' heq
        rw [heq] at hl; exact hl
      · rename_i u s' heq
        rw [heq] at hl; exact commit_wf hl

theorem deleteVersionsToGuarded_wf (s : St) (to : Int) (hw : s.AllWF) : (s.deleteVersionsToGuarded to).2.AllWF := by
  unfold deleteVersionsToGuarded
  have hw1 := allWF_of_same (getLatestVersion_same s) hw
  simp only
  split
  · exact hw1
  · exact deleteVersionsTo_wf _ to hw1

theorem deleteVersionsFrom_wf (s : St) (f : Int) (hw : s.AllWF) : (s.deleteVersionsFrom f).AllWF := by
  unfold deleteVersionsFrom
  have hw1 := allWF_of_same (getLatestVersion_same s) hw
  simp only
  split
  · exact hw1
  · refine ⟨hw1.1, ?_, hw1.2.2.1, hw1.2.2.2⟩
    simp only [St.batch, Option.getD_some]
    exact DB.allWF_restrict hw1.2.1 _

theorem loadVersionForOverwriting_wf (s : St) (t : Int) (hw : s.AllWF) :
    (s.loadVersionForOverwriting t).2.AllWF := by
  unfold loadVersionForOverwriting
  have hl := loadVersion_wf s t hw
  split
  · rename_i e s' heq
    rw [heq] at hl; exact hl
  · rename_i u s' heq
    rw [heq] at hl
    exact commit_wf (deleteVersionsFrom_wf s' (t + 1) hl)

theorem step_wf (H : Bytes → Bytes) (s : St) (op : Op) (hw : s.AllWF) : (s.step H op).AllWF := by
  cases op with
  | set k v =>
    simp only [step]
    cases h : s.set k v with
    | error e => exact hw
    | ok p => obtain ⟨u, s'⟩ := p; exact set_wf h hw
  | remove k =>
    simp only [step]
    cases h : s.remove k with
    | error e => exact hw
    | ok p => obtain ⟨x, s'⟩ := p; exact remove_wf h hw
  | save => exact saveVersion_wf H s hw
  | load t => exact loadVersion_wf s t hw
  | lvo t =>
    simp only [step]
    split
    · exact hw
    · exact loadVersionForOverwriting_wf s t hw
  | delto t => exact deleteVersionsToGuarded_wf s t hw
  | rollback => exact rollback_wf s hw
  | reopen => exact reopen_wf s hw

theorem run_wf (H : Bytes → Bytes) (s : St) (ops : List Op) (hw : s.AllWF) : (s.run H ops).AllWF := by
  induction ops generalizing s with
  | nil => exact hw
  | cons op ops ih => exact ih _ (step_wf H s op hw)

end St
end GnoVerif.C30
