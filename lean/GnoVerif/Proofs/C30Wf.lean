import GnoVerif.Proofs.C30Hist
/-!
C30 helper lemmas, part 7: every tree the state holds anywhere (working tree, last
saved tree, every root in the database and in the write batch, every surviving leaf) is
well-formed, at every state reachable by the protocol.
-/
namespace GnoVerif.C30
open GnoVerif

namespace Node

theorem assignKeys_toC50 (version : Int) (n : Node) (nonce : Nat) :
    toC50 (assignKeys version n nonce).1 = toC50 n := by
  induction n generalizing nonce with
  | leaf k v nk => cases nk <;> rfl
  | inner k h s nk l r ihl ihr =>
    cases nk with
    | some x => rfl
    | none =>
      simp only [assignKeys, toC50_inner, ihl, ihr]

theorem assignKeys_wf {version : Int} {n : Node} {nonce : Nat} (h : n.WF) : (assignKeys version n nonce).1.WF := by
  rw [wf_toC50, assignKeys_toC50, ← wf_toC50]; exact h

theorem assignKeys_toList (version : Int) (n : Node) (nonce : Nat) :
    (assignKeys version n nonce).1.toList = n.toList := by
  rw [← toList_toC50, assignKeys_toC50, toList_toC50]

end Node

/-- a property of the trees the state holds: `P` for stored trees (roots in the database
and the batch, surviving leaves, the last saved tree), `Q` for the working tree -/
structure TreeInv where
  P : Option Node → Prop
  Q : Option Node → Prop
  P_none : P none
  Q_none : Q none
  P_Q : ∀ r, P r → Q r
  Q_set : ∀ (n m : Node) (k v : Bytes) (u : Bool), Q (some n) → n.set k v = .ok (m, u) → Q (some m)
  Q_new : ∀ k v : Bytes, Q (some (Node.new k v))
  Q_remove : ∀ (n : Node) (k : Bytes) (nn : Option Node) (nkey val : Option Bytes) (rem : Bool),
    Q (some n) → n.remove k = .ok (nn, nkey, val, rem) → Q nn
  P_assign : ∀ (version : Int) (n : Node), Q (some n) → n.nk = none → P (some (Node.assignKeys version n 0).1)
  P_ref : ∀ (n : Node), Q (some n) → n.nk.isSome → P (some n)

namespace DB

theorem mem_of_lookup {β : Type} {v : Int} {x : β} {l : List (Int × β)} (h : lookup v l = some x) : (v, x) ∈ l := by
  induction l with
  | nil => simp [lookup] at h
  | cons q t ih =>
    obtain ⟨w, y⟩ := q
    simp only [lookup] at h
    by_cases hw : w = v
    · simp only [hw, if_true, Option.some.injEq] at h
      subst hw; subst h; simp
    · simp only [hw, if_false] at h
      exact List.mem_cons_of_mem _ (ih h)

theorem mem_insertRoot {v : Int} {r : Option Node} {l : List (Int × Option Node)} {p : Int × Option Node}
    (h : p ∈ insertRoot v r l) : p = (v, r) ∨ p ∈ l := by
  induction l with
  | nil => simp [insertRoot] at h; exact Or.inl h
  | cons q t ih =>
    obtain ⟨w, y⟩ := q
    simp only [insertRoot] at h
    split at h
    · simp only [List.mem_cons] at h
      rcases h with h | h | h
      · exact Or.inl h
      · exact Or.inr (by simp [h])
      · exact Or.inr (by simp [h])
    · split at h
      · simp only [List.mem_cons] at h
        rcases h with h | h
        · exact Or.inl h
        · exact Or.inr (by simp [h])
      · simp only [List.mem_cons] at h
        rcases h with h | h
        · exact Or.inr (by simp [h])
        · rcases ih h with h | h
          · exact Or.inl h
          · exact Or.inr (by simp [h])

/-- every tree in the database has the property -/
def AllP (I : TreeInv) (d : DB) : Prop := (∀ p ∈ d.roots, I.P p.2) ∧ (∀ p ∈ d.stuck, I.P (some p.2))

theorem allP_empty (I : TreeInv) : AllP I DB.empty := ⟨by simp [DB.empty], by simp [DB.empty]⟩

theorem getRoot_P {I : TreeInv} {d : DB} (h : AllP I d) {v : Int} {r : Option Node} (hr : d.getRoot v = .ok r) : I.P r := by
  unfold getRoot at hr
  split at hr
  · rename_i x hx
    simp only [Except.ok.injEq] at hr; subst hr
    exact h.1 _ (mem_of_lookup hx)
  · split at hr
    · rename_i lf hl
      simp only [Except.ok.injEq] at hr; subst hr
      exact h.2 _ (mem_of_lookup hl)
    · simp at hr

theorem allP_setRoot {I : TreeInv} {d : DB} (h : AllP I d) (v : Int) {r : Option Node} (hr : I.P r) :
    AllP I (d.setRoot v r) := by
  refine ⟨?_, h.2⟩
  intro p hp
  rcases mem_insertRoot hp with e | e
  · rw [e]; exact hr
  · exact h.1 p e

theorem allP_restrict {I : TreeInv} {d : DB} (h : AllP I d) (p : Int → Bool) : AllP I (d.restrict p) :=
  ⟨fun q hq => h.1 q (List.mem_filter.1 hq).1, fun q hq => h.2 q (List.mem_filter.1 hq).1⟩

theorem allP_addStuck {I : TreeInv} {d : DB} (h : AllP I d) (v : Int) {n : Node} (hn : I.P (some n)) :
    AllP I (d.addStuck v n) := by
  refine ⟨h.1, ?_⟩
  intro q hq
  simp only [addStuck, List.mem_append, List.mem_singleton] at hq
  rcases hq with hq | hq
  · exact h.2 q hq
  · rw [hq]; exact hn

end DB

namespace St

/-- every tree the state holds has the property -/
def Holds (I : TreeInv) (s : St) : Prop := DB.AllP I s.db ∧ DB.AllP I s.batch ∧ I.Q s.root ∧ I.P s.lsRoot

theorem init_holds (I : TreeInv) (iv : Int) : Holds I (St.init iv) :=
  ⟨DB.allP_empty I, DB.allP_empty I, I.Q_none, I.P_none⟩

theorem holds_of_same {I : TreeInv} {s s' : St} (h : Same s s') (hw : Holds I s) : Holds I s' := by
  obtain ⟨h1, h2, h3, h4⟩ := hw
  refine ⟨?_, ?_, ?_, ?_⟩
  · rw [h.1]; exact h1
  · rw [h.batch]; exact h2
  · rw [h.2.2.1]; exact h3
  · rw [h.2.2.2.2.1]; exact h4

theorem savedRoot_P {I : TreeInv} {s : St} (h : I.Q s.root) : I.P s.savedRoot := by
  unfold savedRoot
  cases hr : s.root with
  | none => exact I.P_none
  | some r =>
    rw [hr] at h
    simp only
    cases hk : r.nk with
    | some k => exact I.P_ref r h (by rw [hk]; rfl)
    | none => exact I.P_assign _ r h hk

theorem savedRoot_abs (s : St) : abs s.savedRoot = abs s.root := by
  unfold savedRoot
  cases hr : s.root with
  | none => rfl
  | some r =>
    simp only
    cases r.nk with
    | some k => rfl
    | none => simp only [abs, Node.assignKeys_toList]

/-- where working tree and last saved tree come from after `SaveVersion` -/
theorem saveVersion_roots (H : Bytes → Bytes) (s : St) :
    ((s.saveVersion H).2.root = s.root ∧ (s.saveVersion H).2.lsRoot = s.lsRoot) ∨
    (∃ r, s.db.getRoot s.workingVersion = .ok r ∧ (s.saveVersion H).2.root = r ∧ (s.saveVersion H).2.lsRoot = r) ∨
    ((s.saveVersion H).2.root = s.savedRoot ∧ (s.saveVersion H).2.lsRoot = s.savedRoot) := by
  have hsm := versionExists_same { s with ivSet := false } s.workingVersion
  obtain ⟨h1, h2, h3, h4, h5, h6, h7, h8⟩ := hsm
  simp only at h1 h2 h3 h4 h5 h6 h7 h8
  unfold saveVersion
  simp only
  cases hex : (({ s with ivSet := false } : St).versionExists s.workingVersion).1 with
  | true =>
    simp only [if_true]
    cases hg : (({ s with ivSet := false } : St).versionExists s.workingVersion).2.db.getRoot s.workingVersion with
    | error e => exact Or.inl ⟨h3, h5⟩
    | ok existingRoot =>
      simp only
      rw [h1] at hg
      split
      · exact Or.inr (Or.inl ⟨existingRoot, hg, rfl, rfl⟩)
      · exact Or.inl ⟨h3, h5⟩
  | false =>
    right; right
    simp only [Bool.false_eq_true, if_false, savedRoot, h3]
    cases hr : s.root with
    | none => simp
    | some r =>
      cases hk : r.nk with
      | some k => simp [hk]
      | none => simp [hk]

theorem holds_of_parts {I : TreeInv} {s s' : St} (hw : Holds I s) (h1 : s'.db = s.db) (h2 : s'.pend = s.pend)
    (h3 : I.Q s'.root) (h4 : I.P s'.lsRoot) : Holds I s' := by
  refine ⟨?_, ?_, h3, h4⟩
  · rw [h1]; exact hw.1
  · simp only [St.batch, h1, h2]; exact hw.2.1

theorem set_holds {I : TreeInv} {s s' : St} {k : Bytes} {v : Option Bytes} {u : Bool}
    (h : s.set k v = .ok (u, s')) (hw : Holds I s) : Holds I s' := by
  obtain ⟨h1, h2, -, -, -, h6, -⟩ := set_frame h
  refine holds_of_parts hw h1 h2 ?_ (h6 ▸ hw.2.2.2)
  unfold St.set at h
  cases v with
  | none => simp at h
  | some val =>
    simp only at h
    cases hr : s.root with
    | none =>
      rw [hr] at h
      simp only [Except.ok.injEq, Prod.mk.injEq] at h
      obtain ⟨-, h⟩ := h; subst h
      exact I.Q_new k val
    | some n =>
      rw [hr] at h
      have hn : I.Q (some n) := by have := hw.2.2.1; rw [hr] at this; exact this
      simp only at h
      cases hset : n.set k val with
      | error e => rw [hset] at h; simp at h
      | ok p =>
        obtain ⟨m, u'⟩ := p
        rw [hset] at h
        simp only [Except.ok.injEq, Prod.mk.injEq] at h
        obtain ⟨-, h⟩ := h; subst h
        exact I.Q_set n m k val u' hn hset

theorem remove_holds {I : TreeInv} {s s' : St} {k : Bytes} {x : Option Bytes × Bool}
    (h : s.remove k = .ok (x, s')) (hw : Holds I s) : Holds I s' := by
  obtain ⟨h1, h2, -, -, -, h6, -⟩ := remove_frame h
  refine holds_of_parts hw h1 h2 ?_ (h6 ▸ hw.2.2.2)
  unfold St.remove at h
  cases hr : s.root with
  | none =>
    rw [hr] at h
    simp only [Except.ok.injEq, Prod.mk.injEq] at h
    obtain ⟨-, h⟩ := h; subst h; rw [hr]; exact I.Q_none
  | some n =>
    rw [hr] at h
    have hn : I.Q (some n) := by have := hw.2.2.1; rw [hr] at this; exact this
    simp only at h
    cases hrm : n.remove k with
    | error e => rw [hrm] at h; simp at h
    | ok p =>
      obtain ⟨nn, nkey, val, rem⟩ := p
      rw [hrm] at h
      simp only at h
      cases rem with
      | false =>
        simp only [Bool.not_false, if_true, Except.ok.injEq, Prod.mk.injEq] at h
        obtain ⟨-, h⟩ := h; subst h; rw [hr]; exact hn
      | true =>
        simp only [Bool.not_true, Bool.false_eq_true, if_false, Except.ok.injEq, Prod.mk.injEq] at h
        obtain ⟨-, h⟩ := h; subst h
        exact I.Q_remove n k nn nkey val true hn hrm

theorem rollback_holds {I : TreeInv} (s : St) (hw : Holds I s) : Holds I s.rollback := by
  obtain ⟨h1, h2, -⟩ := rollback_frame s
  refine holds_of_parts hw h1 h2 ?_ ?_
  · unfold rollback; split
    · exact I.P_Q _ hw.2.2.2
    · exact I.Q_none
  · unfold rollback; split <;> exact hw.2.2.2

theorem loadVersion_holds {I : TreeInv} (s : St) (t : Int) (hw : Holds I s) : Holds I (s.loadVersion t).2 := by
  obtain ⟨h1, h2⟩ := loadVersion_frame s t
  rcases loadVersion_root s t with ⟨a, b, -⟩ | ⟨v, r, hr, a, b, -⟩
  · exact holds_of_parts hw h1 h2 (a ▸ hw.2.2.1) (b ▸ hw.2.2.2)
  · have := DB.getRoot_P hw.1 hr
    exact holds_of_parts hw h1 h2 (a ▸ I.P_Q _ this) (b ▸ this)

theorem reopen_holds {I : TreeInv} (s : St) (hw : Holds I s) : Holds I s.reopen.2 := by
  unfold reopen
  apply loadVersion_holds
  exact ⟨hw.1, hw.1, I.Q_none, I.P_none⟩

theorem saveVersion_holds {I : TreeInv} (H : Bytes → Bytes) (s : St) (hw : Holds I s) :
    Holds I (s.saveVersion H).2 := by
  have hroots : I.Q (s.saveVersion H).2.root ∧ I.P (s.saveVersion H).2.lsRoot := by
    rcases saveVersion_roots H s with ⟨a, b⟩ | ⟨r, hr, a, b⟩ | ⟨a, b⟩
    · exact ⟨a ▸ hw.2.2.1, b ▸ hw.2.2.2⟩
    · have := DB.getRoot_P hw.1 hr
      exact ⟨a ▸ I.P_Q _ this, b ▸ this⟩
    · have := savedRoot_P hw.2.2.1
      exact ⟨a ▸ I.P_Q _ this, b ▸ this⟩
  rcases saveVersion_cases H s with ⟨-, h1, h2⟩ | ⟨-, h1, h2, -⟩
  · exact holds_of_parts hw h1 h2 hroots.1 hroots.2
  · have hdb : DB.AllP I (s.saveVersion H).2.db := by
      rw [h1]; exact DB.allP_setRoot hw.2.1 _ (savedRoot_P hw.2.2.1)
    refine ⟨hdb, ?_, hroots.1, hroots.2⟩
    simp only [St.batch, h2, Option.getD_none]; exact hdb

theorem deleteVersion_holds {I : TreeInv} {s s' : St} {v : Int} (h : s.deleteVersion v = .ok s') (hw : Holds I s) :
    Holds I s' := by
  unfold deleteVersion at h
  cases hp : s.db.getRoot v with
  | error e => rw [hp] at h; simp at h
  | ok prev =>
    rw [hp] at h
    simp only at h
    cases hc : s.db.getRoot (v + 1) with
    | error e => rw [hc] at h; simp at h
    | ok cur =>
      rw [hc] at h
      simp only [Except.ok.injEq] at h
      subst h
      refine ⟨hw.1, ?_, hw.2.2.1, hw.2.2.2⟩
      simp only [St.batch, Option.getD_some]
      have hr := DB.allP_restrict hw.2.1 (fun x => decide (x ≠ v))
      cases hst : staysKey v prev cur with
      | none => exact hr
      | some p =>
        simp only
        have hprev := staysKey_some hst
        have hpw : I.P prev := DB.getRoot_P hw.1 hp
        rw [hprev] at hpw
        exact DB.allP_addStuck hr v hpw

theorem deleteLoop_holds {I : TreeInv} (to : Int) : ∀ (fuel : Nat) (s : St) (v : Int), Holds I s →
    Holds I (deleteLoop to fuel s v).2 := by
  intro fuel
  induction fuel with
  | zero => intro s v hw; exact hw
  | succ f ih =>
    intro s v hw
    simp only [deleteLoop]
    split
    · cases hd : s.deleteVersion v with
      | error e => exact hw
      | ok s1 =>
        simp only
        have h1 := deleteVersion_holds hd hw
        exact ih { s1 with first := v + 1 } (v + 1) h1
    · exact hw

theorem commit_holds {I : TreeInv} {s : St} (hw : Holds I s) : Holds I s.commit :=
  ⟨hw.2.1, by simp only [St.batch, commit, Option.getD_none]; exact hw.2.1, hw.2.2.1, hw.2.2.2⟩

theorem deleteVersionsTo_holds {I : TreeInv} (s : St) (to : Int) (hw : Holds I s) :
    Holds I (s.deleteVersionsTo to).2 := by
  unfold deleteVersionsTo
  split
  · exact commit_holds hw
  · have ab := (getFirstVersion_same s).trans (getLatestVersion_same s.getFirstVersion.2)
    have hw2 := holds_of_same ab hw
    simp only
    split
    · exact hw2
    · have hl := deleteLoop_holds to ((to - s.getFirstVersion.1 + 1).toNat) _ s.getFirstVersion.1 hw2
      split
      · rename_i e s' heq
        rw [heq] at hl; exact hl
      · rename_i u s' heq
        rw [heq] at hl; exact commit_holds hl

theorem deleteVersionsToGuarded_holds {I : TreeInv} (s : St) (to : Int) (hw : Holds I s) :
    Holds I (s.deleteVersionsToGuarded to).2 := by
  unfold deleteVersionsToGuarded
  have hw1 := holds_of_same (getLatestVersion_same s) hw
  simp only
  split
  · exact hw1
  · exact deleteVersionsTo_holds _ to hw1

theorem deleteVersionsFrom_holds {I : TreeInv} (s : St) (f : Int) (hw : Holds I s) :
    Holds I (s.deleteVersionsFrom f) := by
  unfold deleteVersionsFrom
  have hw1 := holds_of_same (getLatestVersion_same s) hw
  simp only
  split
  · exact hw1
  · refine ⟨hw1.1, ?_, hw1.2.2.1, hw1.2.2.2⟩
    simp only [St.batch, Option.getD_some]
    exact DB.allP_restrict hw1.2.1 _

theorem loadVersionForOverwriting_holds {I : TreeInv} (s : St) (t : Int) (hw : Holds I s) :
    Holds I (s.loadVersionForOverwriting t).2 := by
  unfold loadVersionForOverwriting
  have hl := loadVersion_holds s t hw
  split
  · rename_i e s' heq
    rw [heq] at hl; exact hl
  · rename_i u s' heq
    rw [heq] at hl
    exact commit_holds (deleteVersionsFrom_holds s' (t + 1) hl)

theorem step_holds {I : TreeInv} (H : Bytes → Bytes) (s : St) (op : Op) (hw : Holds I s) : Holds I (s.step H op) := by
  cases op with
  | set k v =>
    simp only [step]
    cases h : s.set k v with
    | error e => exact hw
    | ok p => obtain ⟨u, s'⟩ := p; exact set_holds h hw
  | remove k =>
    simp only [step]
    cases h : s.remove k with
    | error e => exact hw
    | ok p => obtain ⟨x, s'⟩ := p; exact remove_holds h hw
  | save => exact saveVersion_holds H s hw
  | load t => exact loadVersion_holds s t hw
  | lvo t =>
    simp only [step]
    split
    · exact hw
    · exact loadVersionForOverwriting_holds s t hw
  | delto t => exact deleteVersionsToGuarded_holds s t hw
  | rollback => exact rollback_holds s hw
  | reopen => exact reopen_holds s hw

theorem run_holds {I : TreeInv} (H : Bytes → Bytes) (s : St) (ops : List Op) (hw : Holds I s) :
    Holds I (s.run H ops) := by
  induction ops generalizing s with
  | nil => exact hw
  | cons op ops ih => exact ih _ (step_holds H s op hw)

/-! ### instance: well-formedness -/

/-- stored trees and the working tree are well-formed -/
def wfInv : TreeInv where
  P := WFo
  Q := WFo
  P_none := trivial
  Q_none := trivial
  P_Q := fun _ h => h
  Q_set := fun n m k v u hn hset => by
    obtain ⟨m', u', hset', hm, -, -⟩ := Node.set_spec (n := n) hn k v
    rw [hset] at hset'
    simp only [Except.ok.injEq, Prod.mk.injEq] at hset'
    rw [hset'.1]; exact hm
  Q_new := fun k v => ⟨trivial, by simp [Node.new, OMap.Sorted]⟩
  Q_remove := fun n k nn nkey val rem hn hrm => by
    obtain ⟨nn', nkey', val', rem', hrm', hnn, -⟩ := Node.remove_spec (n := n) hn k
    rw [hrm] at hrm'
    simp only [Except.ok.injEq, Prod.mk.injEq] at hrm'
    rw [hrm'.1]; exact hnn
  P_assign := fun _ _ hn _ => Node.assignKeys_wf hn
  P_ref := fun _ hn _ => hn

end St
end GnoVerif.C30
