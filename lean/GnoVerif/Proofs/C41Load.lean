import GnoVerif.Proofs.C41Chain
/-! From the database invariant to the results of `LoadConsensusParams` / `LoadValidators` (C41). -/
namespace GnoVerif.C41

open GnoVerif.Gen.C41 (valSetCheckpointInterval)

variable {VS : Type}

theorem loadInfoP_of_get {db : DB VS} {j : Int} {i : ParamsInfo} (h : get db.params j = some i) (hl : i.lhc ≠ 0) :
    loadConsensusParamsInfo db j = some i := by
  have : i.encEmpty = false := by simp [ParamsInfo.encEmpty, hl]
  simp [loadConsensusParamsInfo, h, this]

theorem loadInfoV_of_get {db : DB VS} {j : Int} {i : ValInfo VS} (h : get db.vals j = some i) (hl : i.lhc ≠ 0) :
    loadValidatorsInfo db j = some i := by
  have : i.encEmpty = false := by simp [ValInfo.encEmpty, hl]
  simp [loadValidatorsInfo, h, this]

theorem load_params_of_spec {db : DB VS} {hist : List (St VS)} {s : St VS} {Lp : Int → Int} {Pf : Int → Params}
    (hP : PSpec db hist s Lp Pf) (ih1 : 1 ≤ s.ih) (j : Int) (hj1 : s.ih ≤ j) (hj2 : j ≤ s.lbh + 1) :
    loadConsensusParams db j = .ok (Pf j) := by
  obtain ⟨hE, -, -, -⟩ := hP
  obtain ⟨g, b1, b2, b3, b4⟩ := hE j hj1 hj2
  obtain ⟨g', c1, c2, c3, -⟩ := hE (Lp j) b1 (by omega)
  have l1 := loadInfoP_of_get g (by show Lp j ≠ 0; omega)
  have l2 := loadInfoP_of_get g' (by show Lp (Lp j) ≠ 0; omega)
  unfold loadConsensusParams
  rw [l1]
  dsimp only
  by_cases hc : Lp j = j
  · simp only [hc, ↓reduceIte]
    split
    · rw [hc] at l2; rw [l2]; simp only [hc, ↓reduceIte]
    · rfl
  · have he : Params.empty.isEmpty = true := rfl
    simp only [hc, ↓reduceIte, he]
    rw [l2]
    simp only [b3, ↓reduceIte, b4]

theorem lastStored_cases (j L : Int) :
    (lastStoredHeightFor j L = j - Int.tmod j valSetCheckpointInterval ∧ L ≤ j - Int.tmod j valSetCheckpointInterval) ∨
    (lastStoredHeightFor j L = L ∧ j - Int.tmod j valSetCheckpointInterval < L) := by
  unfold lastStoredHeightFor
  dsimp only
  split
  · left; exact ⟨rfl, by omega⟩
  · right; exact ⟨rfl, by omega⟩

theorem load_vals_of_spec {inc1 : VS → Except String VS} {db : DB VS} {hist : List (St VS)} {s : St VS}
    {Lf : Int → Int} {Nf : Int → VS}
    (hV : VSpec inc1 db hist s Lf Nf) (ih1 : 1 ≤ s.ih) (j : Int) (hj1 : s.ih ≤ j) (hj2 : j ≤ s.lbh + 2) :
    loadValidators inc1 db j = .ok (Nf j) := by
  obtain ⟨hE, hW, -, -, -, -⟩ := hV
  obtain ⟨g, b1, b2⟩ := hE j hj1 hj2
  have l1 := loadInfoV_of_get g (by show Lf j ≠ 0; omega)
  unfold loadValidators
  rw [l1]
  dsimp only
  by_cases hc : j = Lf j ∨ Int.tmod j valSetCheckpointInterval = 0
  · simp only [hc, ↓reduceIte]
  · simp only [hc, ↓reduceIte]
    have hc1 : j ≠ Lf j := fun h => hc (Or.inl h)
    have hc2 : Int.tmod j valSetCheckpointInterval ≠ 0 := fun h => hc (Or.inr h)
    have hI := interval_pos
    have ht := tmod_nonneg_lt (j := j) (by omega) hI
    -- the height the replay starts from lies in the window [Lf j, j) and holds a stored set
    have key : ∃ ls, lastStoredHeightFor j (Lf j) = ls ∧ Lf j ≤ ls ∧ ls < j ∧
        (ls = Lf j ∨ Int.tmod ls valSetCheckpointInterval = 0) := by
      rcases lastStored_cases j (Lf j) with ⟨e, h⟩ | ⟨e, h⟩
      · exact ⟨_, e, h, by omega, Or.inr (checkpoint_tmod (by omega) hI)⟩
      · exact ⟨_, e, Int.le_refl _, by omega, Or.inl rfl⟩
    obtain ⟨ls, els, w1, w2, w3⟩ := key
    obtain ⟨wL, wR⟩ := hW j ls hj1 hj2 w1 (by omega)
    obtain ⟨g2, -, -⟩ := hE ls (by omega) (by omega)
    have stored : (ls = Lf ls ∨ Int.tmod ls valSetCheckpointInterval = 0) := by
      rcases w3 with h | h
      · left; rw [wL]; exact h
      · right; exact h
    have l2 := loadInfoV_of_get g2 (by show Lf ls ≠ 0; omega)
    have hb : replayBase db j (Lf j) = some (Nf ls, ls) := by
      unfold replayBase
      simp only [els, l2, Option.bind_some, stored, ↓reduceIte]
    rw [hb]
    dsimp only
    rw [wR]

end GnoVerif.C41
