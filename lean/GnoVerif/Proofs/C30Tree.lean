import GnoVerif.Proofs.C30Iter
/-!
C30 helper lemmas, part 5: the version layer (`Model/C30Tree.lean`).

* database lookups under insertion / filtering;
* `DB.Sub`: the write batch never holds anything the database does not hold
  (it only differs by deletions), so committing it cannot change a version;
* which operations leave the database alone.
-/
namespace GnoVerif.C30
open GnoVerif

namespace DB

theorem lookup_filter {β : Type} (p : Int → Bool) (v : Int) (l : List (Int × β)) :
    lookup v (l.filter (fun q => p q.1)) = if p v then lookup v l else none := by
  induction l with
  | nil => simp [lookup]
  | cons q t ih =>
    obtain ⟨w, x⟩ := q
    by_cases hw : p w = true
    · simp only [List.filter_cons, hw, if_true, lookup]
      by_cases hv : w = v
      · subst hv; simp [hw]
      · simp [hv, ih]
    · simp only [List.filter_cons, hw, Bool.false_eq_true, if_false, lookup, ih]
      by_cases hv : w = v
      · subst hv; simp [hw]
      · simp [hv]

theorem lookup_append {β : Type} (v : Int) (a b : List (Int × β)) :
    lookup v (a ++ b) = (lookup v a).orElse (fun _ => lookup v b) := by
  induction a with
  | nil => simp [lookup]
  | cons q t ih =>
    obtain ⟨w, x⟩ := q
    by_cases hv : w = v
    · simp [lookup, hv]
    · simp [lookup, hv, ih]

theorem lookup_insertRoot (v w : Int) (r : Option Node) (l : List (Int × Option Node)) :
    lookup w (insertRoot v r l) = if v = w then some r else lookup w l := by
  induction l with
  | nil => simp [insertRoot, lookup]
  | cons q t ih =>
    obtain ⟨u, x⟩ := q
    simp only [insertRoot]
    split
    · rename_i hlt
      simp only [lookup]
    · split
      · rename_i hnlt heq
        subst heq
        simp only [lookup]
        by_cases hvw : v = w <;> simp [hvw]
      · rename_i hnlt hne
        simp only [lookup, ih]
        by_cases huw : u = w
        · subst huw
          have : ¬ v = u := hne
          simp [this]
        · simp [huw]

theorem getRoot_error {d : DB} {v : Int} {e : Err} (h : d.getRoot v = .error e) : e = .noVersion := by
  unfold getRoot at h
  split at h
  · simp at h
  · split at h
    · simp at h
    · simp only [Except.error.injEq] at h; exact h.symm

theorem getRoot_cases (d : DB) (v : Int) : (∃ r, d.getRoot v = .ok r) ∨ d.getRoot v = .error .noVersion := by
  cases h : d.getRoot v with
  | ok r => exact Or.inl ⟨r, rfl⟩
  | error e => rw [getRoot_error h]; exact Or.inr rfl

theorem getRoot_setRoot (d : DB) (v w : Int) (r : Option Node) (h : v ≠ w) :
    (d.setRoot v r).getRoot w = d.getRoot w := by
  simp only [getRoot, setRoot, lookup_insertRoot, h, if_false]

theorem getRoot_setRoot_self (d : DB) (v : Int) (r : Option Node) :
    (d.setRoot v r).getRoot v = .ok r := by
  simp [getRoot, setRoot, lookup_insertRoot]

/-- `b` holds nothing that `d` does not hold -/
def Sub (b d : DB) : Prop := ∀ v r, b.getRoot v = .ok r → d.getRoot v = .ok r

theorem Sub.refl (d : DB) : Sub d d := fun _ _ h => h

theorem Sub.trans {a b c : DB} (h1 : Sub a b) (h2 : Sub b c) : Sub a c := fun v r h => h2 v r (h1 v r h)

theorem getRoot_restrict (p : Int → Bool) (d : DB) (v : Int) :
    (restrict p d).getRoot v = if p v then d.getRoot v else .error .noVersion := by
  simp only [getRoot, restrict, lookup_filter]
  by_cases h : p v = true <;> simp [h]

theorem sub_restrict (p : Int → Bool) (d : DB) : Sub (restrict p d) d := by
  intro v r h
  rw [getRoot_restrict] at h
  by_cases hp : p v = true
  · simpa [hp] using h
  · simp [hp] at h

theorem getRoot_addStuck (d : DB) (v w : Int) (n : Node) :
    (d.addStuck v n).getRoot w =
      match d.getRoot w with
      | .ok r => .ok r
      | .error _ => if v = w then .ok (some n) else .error .noVersion := by
  simp only [getRoot, addStuck, lookup_append]
  cases h1 : lookup w d.roots with
  | some r => simp
  | none =>
    cases h2 : lookup w d.stuck with
    | some l => simp
    | none =>
      by_cases hvw : v = w <;> simp [lookup, hvw]

end DB

namespace St

/-- the write batch only ever differs from the database by deletions -/
def BatchSub (s : St) : Prop := s.batch.Sub s.db

theorem batchSub_of_pend_none {s : St} (h : s.pend = none) : s.BatchSub := by
  simp only [BatchSub, batch, h, Option.getD_none]; exact DB.Sub.refl _

theorem commit_db (s : St) : s.commit.db = s.batch := rfl
theorem commit_pend (s : St) : s.commit.pend = none := rfl

/-! ### the read-only helpers only touch the two version caches -/

/-- equal up to the cached first / latest version -/
def Same (s s' : St) : Prop :=
  s'.db = s.db ∧ s'.pend = s.pend ∧ s'.root = s.root ∧ s'.version = s.version ∧
  s'.lsRoot = s.lsRoot ∧ s'.lsVersion = s.lsVersion ∧ s'.optIV = s.optIV ∧ s'.ivSet = s.ivSet

theorem Same.refl (s : St) : Same s s := ⟨rfl, rfl, rfl, rfl, rfl, rfl, rfl, rfl⟩

theorem Same.trans {a b c : St} (h1 : Same a b) (h2 : Same b c) : Same a c := by
  obtain ⟨a1, a2, a3, a4, a5, a6, a7, a8⟩ := h1
  obtain ⟨b1, b2, b3, b4, b5, b6, b7, b8⟩ := h2
  exact ⟨b1.trans a1, b2.trans a2, b3.trans a3, b4.trans a4, b5.trans a5, b6.trans a6, b7.trans a7, b8.trans a8⟩

theorem Same.batch {s s' : St} (h : Same s s') : s'.batch = s.batch := by
  simp only [St.batch, h.1, h.2.1]

theorem getLatestVersion_same (s : St) : Same s s.getLatestVersion.2 := by
  unfold getLatestVersion
  by_cases h1 : s.latest > 0
  · simp [h1, Same]
  · by_cases h2 : s.db.latest > 0 <;> simp [h1, h2, Same]

theorem getFirstVersion_same (s : St) : Same s s.getFirstVersion.2 := by
  unfold getFirstVersion
  by_cases h1 : s.first > 0
  · simp [h1, Same]
  · have := getLatestVersion_same s
    simp only [h1, if_false]
    exact this

theorem versionExists_same (s : St) (v : Int) : Same s (s.versionExists v).2 := by
  unfold versionExists
  by_cases h1 : v ≤ -1
  · simp [h1, Same]
  · have a := getFirstVersion_same s
    have b := getLatestVersion_same s.getFirstVersion.2
    simp only [h1, if_false]
    split <;> exact a.trans b

theorem availableVersions_same (s : St) : Same s s.availableVersions.2 := by
  unfold availableVersions
  exact (getFirstVersion_same s).trans (getLatestVersion_same _)

/-! ### what the cached lookups answer, as functions of database and caches -/

/-- the answer of `getLatestVersion` -/
def latestOf (d : DB) (latest : Int) : Bool × Int :=
  if latest > 0 then (true, latest) else if d.latest > 0 then (true, d.latest) else (false, 0)

/-- the answer of `getFirstVersion` -/
def firstOf (d : DB) (first latest : Int) : Int :=
  if first > 0 then first
  else searchFirst d ((latestOf d latest).2.toNat + 1) 0 (latestOf d latest).2

/-- the answer of `VersionExists` -/
def existsOf (d : DB) (first latest v : Int) : Bool :=
  if v ≤ -1 then false
  else if !(latestOf d latest).1 then false
  else decide (firstOf d first latest ≤ v ∧ v ≤ (latestOf d latest).2)

theorem getLatestVersion_val (s : St) : s.getLatestVersion.1 = latestOf s.db s.latest := by
  unfold getLatestVersion latestOf
  by_cases h1 : s.latest > 0
  · simp [h1]
  · by_cases h2 : s.db.latest > 0 <;> simp [h1, h2]

theorem getLatestVersion_first (s : St) : s.getLatestVersion.2.first = s.first := by
  unfold getLatestVersion
  by_cases h1 : s.latest > 0
  · simp [h1]
  · by_cases h2 : s.db.latest > 0 <;> simp [h1, h2]

/-- asking again gives the same answer -/
theorem latestOf_idem (s : St) : latestOf s.getLatestVersion.2.db s.getLatestVersion.2.latest = latestOf s.db s.latest := by
  unfold getLatestVersion latestOf
  by_cases h1 : s.latest > 0
  · simp [h1]
  · by_cases h2 : s.db.latest > 0 <;> simp [h1, h2]

theorem getFirstVersion_val (s : St) : s.getFirstVersion.1 = firstOf s.db s.first s.latest := by
  unfold getFirstVersion firstOf
  by_cases h1 : s.first > 0
  · simp [h1]
  · simp only [h1, if_false]
    have hdb := (getLatestVersion_same s).1
    have hv := getLatestVersion_val s
    simp only [hdb, hv]

theorem latestOf_after_first (s : St) :
    latestOf s.getFirstVersion.2.db s.getFirstVersion.2.latest = latestOf s.db s.latest := by
  unfold getFirstVersion
  by_cases h1 : s.first > 0
  · simp [h1]
  · simp only [h1, if_false]
    exact latestOf_idem s

theorem versionExists_val (s : St) (v : Int) : (s.versionExists v).1 = existsOf s.db s.first s.latest v := by
  unfold versionExists existsOf
  by_cases h1 : v ≤ -1
  · simp [h1]
  · simp only [h1, if_false]
    have hl := getLatestVersion_val s.getFirstVersion.2
    rw [latestOf_after_first] at hl
    have hf := getFirstVersion_val s
    rw [← hl, ← hf]
    cases hfound : s.getFirstVersion.2.getLatestVersion.1.1 <;> simp [hfound]

/-! ### what each operation does to database and batch -/

theorem set_frame {s s' : St} {k : Bytes} {v : Option Bytes} {u : Bool} (h : s.set k v = .ok (u, s')) :
    s'.db = s.db ∧ s'.pend = s.pend ∧ s'.first = s.first ∧ s'.latest = s.latest ∧ s'.version = s.version ∧
    s'.lsRoot = s.lsRoot ∧ s'.lsVersion = s.lsVersion := by
  unfold St.set at h
  cases v with
  | none => simp at h
  | some val =>
    simp only at h
    cases hr : s.root with
    | none =>
      rw [hr] at h
      simp only [Except.ok.injEq, Prod.mk.injEq] at h
      obtain ⟨-, h⟩ := h; subst h; simp
    | some n =>
      rw [hr] at h
      simp only at h
      cases hs : n.set k val with
      | error e => rw [hs] at h; simp at h
      | ok p =>
        rw [hs] at h
        simp only [Except.ok.injEq, Prod.mk.injEq] at h
        obtain ⟨-, h⟩ := h; subst h; simp

theorem remove_frame {s s' : St} {k : Bytes} {x : Option Bytes × Bool} (h : s.remove k = .ok (x, s')) :
    s'.db = s.db ∧ s'.pend = s.pend ∧ s'.first = s.first ∧ s'.latest = s.latest ∧ s'.version = s.version ∧
    s'.lsRoot = s.lsRoot ∧ s'.lsVersion = s.lsVersion := by
  unfold St.remove at h
  cases hr : s.root with
  | none =>
    rw [hr] at h
    simp only [Except.ok.injEq, Prod.mk.injEq] at h
    obtain ⟨-, h⟩ := h; subst h; simp
  | some n =>
    rw [hr] at h
    simp only at h
    cases hs : n.remove k with
    | error e => rw [hs] at h; simp at h
    | ok p =>
      obtain ⟨a, b, c, d⟩ := p
      rw [hs] at h
      simp only at h
      cases d with
      | false =>
        simp only [Bool.not_false, if_true, Except.ok.injEq, Prod.mk.injEq] at h
        obtain ⟨-, h⟩ := h; subst h; simp
      | true =>
        simp only [Bool.not_true, Bool.false_eq_true, if_false, Except.ok.injEq, Prod.mk.injEq] at h
        obtain ⟨-, h⟩ := h; subst h; simp

theorem rollback_frame (s : St) : s.rollback.db = s.db ∧ s.rollback.pend = s.pend ∧
    s.rollback.first = s.first ∧ s.rollback.latest = s.latest := by
  unfold rollback; split <;> simp

theorem loadVersion_frame (s : St) (t : Int) : (s.loadVersion t).2.db = s.db ∧ (s.loadVersion t).2.pend = s.pend := by
  unfold loadVersion
  have a := getFirstVersion_same s
  have ab := a.trans (getLatestVersion_same s.getFirstVersion.2)
  simp only
  repeat' split
  all_goals first
    | exact ⟨a.1, a.2.1⟩
    | exact ⟨ab.1, ab.2.1⟩
    | exact ⟨(ab.trans (versionExists_same _ _)).1, (ab.trans (versionExists_same _ _)).2.1⟩

theorem reopen_frame (s : St) : s.reopen.2.db = s.db ∧ s.reopen.2.pend = none := by
  unfold reopen
  have := loadVersion_frame
    { db := s.db, pend := none, first := 0, latest := 0, root := none, version := 0,
      lsRoot := none, lsVersion := 0, optIV := s.optIV, ivSet := s.optIV ≠ 0 } 0
  exact this

theorem staysKey_some {v : Int} {prev cur : Option Node} {p : Node} (h : staysKey v prev cur = some p) :
    prev = some p := by
  unfold staysKey at h
  cases prev with
  | none => simp at h
  | some q =>
    simp only at h
    split at h
    · cases cur with
      | none => simp at h
      | some c =>
        simp only at h
        split at h
        · simp at h
        · split at h
          · simp only [Option.some.injEq] at h; rw [h]
          · simp at h
    · simp at h

/-- `deleteVersion` writes to the batch only, and the new batch still holds nothing the
database does not hold -/
theorem deleteVersion_frame {s s' : St} {v : Int} (h : s.deleteVersion v = .ok s') (hb : s.BatchSub) :
    s'.db = s.db ∧ s'.BatchSub ∧ s'.latest = s.latest ∧ s'.first = s.first := by
  unfold deleteVersion at h
  cases hp : s.db.getRoot v with
  | error e => rw [hp] at h; simp at h
  | ok prev =>
    rw [hp] at h
    simp only at h
    cases hc : s.db.getRoot (v + 1) with
    | error e => rw [hc] at h; simp at h
    | ok cur =>
      rw [hc] at h
      simp only [Except.ok.injEq] at h
      subst h
      refine ⟨rfl, ?_, rfl, rfl⟩
      intro w r hw
      simp only [St.batch, Option.getD_some] at hw
      have hsub : ∀ r, (DB.restrict (fun x => decide (x ≠ v)) (s.pend.getD s.db)).getRoot w = .ok r →
          s.db.getRoot w = .ok r := fun r hr => hb w r (DB.sub_restrict _ _ w r hr)
      cases hst : staysKey v prev cur with
      | none =>
        rw [hst] at hw
        exact hsub r hw
      | some p =>
        rw [hst] at hw
        have hprev := staysKey_some hst
        simp only [DB.getRoot_addStuck] at hw
        cases hr : (DB.restrict (fun x => decide (x ≠ v)) (s.pend.getD s.db)).getRoot w with
        | ok r' =>
          rw [hr] at hw
          simp only [Except.ok.injEq] at hw
          subst hw
          exact hsub _ hr
        | error e =>
          rw [hr] at hw
          simp only at hw
          by_cases hvw : v = w
          · subst hvw
            simp only [if_true, Except.ok.injEq] at hw
            subst hw
            rw [hp, hprev]
          · simp [hvw] at hw

theorem deleteLoop_frame (to : Int) : ∀ (fuel : Nat) (s : St) (v : Int), s.BatchSub →
    (deleteLoop to fuel s v).2.db = s.db ∧ (deleteLoop to fuel s v).2.BatchSub := by
  intro fuel
  induction fuel with
  | zero => intro s v hb; exact ⟨rfl, hb⟩
  | succ f ih =>
    intro s v hb
    simp only [deleteLoop]
    split
    · cases hd : s.deleteVersion v with
      | error e => exact ⟨rfl, hb⟩
      | ok s1 =>
        simp only
        obtain ⟨h1, h2, -, -⟩ := deleteVersion_frame hd hb
        have hb1 : ({ s1 with first := v + 1 } : St).BatchSub := h2
        have := ih { s1 with first := v + 1 } (v + 1) hb1
        exact ⟨this.1.trans h1, this.2⟩
    · exact ⟨rfl, hb⟩

/-- `DeleteVersionsTo`: the database afterwards holds nothing it did not hold before -/
theorem deleteVersionsTo_frame (s : St) (to : Int) (hb : s.BatchSub) :
    (s.deleteVersionsTo to).2.db.Sub s.db ∧ (s.deleteVersionsTo to).2.BatchSub := by
  unfold deleteVersionsTo
  split
  · exact ⟨hb, batchSub_of_pend_none rfl⟩
  · have a := getFirstVersion_same s
    have ab := a.trans (getLatestVersion_same s.getFirstVersion.2)
    have hb2 : s.getFirstVersion.2.getLatestVersion.2.BatchSub := by
      simp only [BatchSub, ab.batch, ab.1]; exact hb
    simp only
    split
    · simp only [ab.1]; exact ⟨DB.Sub.refl _, hb2⟩
    · have hl := deleteLoop_frame to ((to - s.getFirstVersion.1 + 1).toNat) _ s.getFirstVersion.1 hb2
      split
      · rename_i e s' heq
        rw [heq] at hl
        simp only at hl ⊢
        rw [hl.1, ab.1]
        exact ⟨DB.Sub.refl _, hl.2⟩
      · rename_i u s' heq
        rw [heq] at hl
        simp only at hl ⊢
        refine ⟨?_, batchSub_of_pend_none rfl⟩
        have : s'.batch.Sub s'.db := hl.2
        rw [hl.1, ab.1] at this
        exact this

theorem deleteVersionsToGuarded_frame (s : St) (to : Int) (hb : s.BatchSub) :
    (s.deleteVersionsToGuarded to).2.db.Sub s.db ∧ (s.deleteVersionsToGuarded to).2.BatchSub := by
  unfold deleteVersionsToGuarded
  have a := getLatestVersion_same s
  have hb1 : s.getLatestVersion.2.BatchSub := by simp only [BatchSub, a.batch, a.1]; exact hb
  simp only
  split
  · simp only [a.1]; exact ⟨DB.Sub.refl _, hb1⟩
  · have := deleteVersionsTo_frame s.getLatestVersion.2 to hb1
    simp only [a.1] at this
    exact this

theorem deleteVersionsFrom_frame (s : St) (f : Int) (hb : s.BatchSub) :
    (s.deleteVersionsFrom f).commit.db.Sub s.db ∧ (s.deleteVersionsFrom f).commit.BatchSub := by
  refine ⟨?_, batchSub_of_pend_none rfl⟩
  unfold deleteVersionsFrom
  have a := getLatestVersion_same s
  simp only
  split
  · simp only [commit_db, a.batch]; exact hb
  · simp only [commit_db, St.batch, Option.getD_some]
    have : (s.getLatestVersion.2.pend.getD s.getLatestVersion.2.db) = s.batch := a.batch
    rw [this]
    exact (DB.sub_restrict _ _).trans hb

theorem loadVersionForOverwriting_frame (s : St) (t : Int) (hb : s.BatchSub) :
    (s.loadVersionForOverwriting t).2.db.Sub s.db ∧ (s.loadVersionForOverwriting t).2.BatchSub := by
  unfold loadVersionForOverwriting
  have hl := loadVersion_frame s t
  have hbl : (s.loadVersion t).2.BatchSub := by
    simp only [BatchSub, St.batch, hl.1, hl.2]; exact hb
  split
  · rename_i e s' heq
    rw [heq] at hl hbl
    simp only at hl hbl ⊢
    rw [hl.1]; exact ⟨DB.Sub.refl _, hbl⟩
  · rename_i u s' heq
    rw [heq] at hl hbl
    simp only at hl hbl ⊢
    have := deleteVersionsFrom_frame s' (t + 1) hbl
    rw [hl.1] at this
    exact this

/-- the root written by a `SaveVersion` that creates a new version -/
def savedRoot (s : St) : Option Node :=
  match s.root with
  | none => none
  | some r =>
    match r.nk with
    | some _ => some r
    | none => some (Node.assignKeys s.workingVersion r 0).1

/-- `SaveVersion`, case analysis: either the version already exists and the database is
left alone, or a new entry for the working version is written (and the batch committed) -/
theorem saveVersion_cases (H : Bytes → Bytes) (s : St) :
    ((s.versionExists s.workingVersion).1 = true ∧
        (s.saveVersion H).2.db = s.db ∧ (s.saveVersion H).2.pend = s.pend) ∨
    ((s.versionExists s.workingVersion).1 = false ∧
        (s.saveVersion H).2.db = s.batch.setRoot s.workingVersion s.savedRoot ∧
        (s.saveVersion H).2.pend = none ∧ (s.saveVersion H).2.root = s.savedRoot ∧
        (s.saveVersion H).2.version = s.workingVersion ∧
        (s.saveVersion H).1 = .ok (rootHash H (s.workingVersion + 1) s.savedRoot, s.workingVersion)) := by
  have hsm := versionExists_same { s with ivSet := false } s.workingVersion
  have hval : (({ s with ivSet := false } : St).versionExists s.workingVersion).1 =
      (s.versionExists s.workingVersion).1 := by
    rw [versionExists_val, versionExists_val]
  obtain ⟨h1, h2, h3, h4, h5, h6, h7, h8⟩ := hsm
  simp only at h1 h2 h3 h4 h5 h6 h7 h8
  unfold saveVersion
  simp only
  cases hex : (({ s with ivSet := false } : St).versionExists s.workingVersion).1 with
  | true =>
    left
    rw [← hval, hex]
    refine ⟨rfl, ?_⟩
    simp only [if_true]
    repeat' split
    all_goals exact ⟨h1, h2⟩
  | false =>
    right
    rw [← hval, hex]
    refine ⟨rfl, ?_⟩
    simp only [Bool.false_eq_true, if_false, commit, St.batch, savedHash, h1, h2, h3, savedRoot]
    cases hr : s.root with
    | none => simp
    | some r =>
      cases hk : r.nk with
      | some k => simp [hk]
      | none => simp [hk]

/-- `SaveVersion` of a new version, as one equation -/
theorem saveVersion_new_eq (H : Bytes → Bytes) (s : St)
    (hex : (({ s with ivSet := false } : St).versionExists s.workingVersion).1 = false) :
    (s.saveVersion H).2 =
      { (({ s with ivSet := false } : St).versionExists s.workingVersion).2 with
        db := (({ s with ivSet := false } : St).versionExists s.workingVersion).2.batch.setRoot s.workingVersion s.savedRoot,
        pend := none, latest := s.workingVersion, version := s.workingVersion,
        root := s.savedRoot, lsRoot := s.savedRoot, lsVersion := s.workingVersion } := by
  have hsm := versionExists_same { s with ivSet := false } s.workingVersion
  obtain ⟨h1, h2, h3, h4, h5, h6, h7, h8⟩ := hsm
  simp only at h1 h2 h3 h4 h5 h6 h7 h8
  unfold saveVersion
  simp only [hex, Bool.false_eq_true, if_false, commit, savedRoot, h3]
  cases hr : s.root with
  | none => simp [St.batch]
  | some r =>
    cases hk : r.nk with
    | some k => simp [hk, St.batch]
    | none => simp [hk, St.batch]

/-- where the working tree of a `LoadVersion` comes from: it is left alone (all the
error cases and the empty database), or it is the root the database holds for the
version that was loaded — which the tree reports as existing -/
theorem loadVersion_root (s : St) (t : Int) :
    ((s.loadVersion t).2.root = s.root ∧ (s.loadVersion t).2.lsRoot = s.lsRoot ∧
      (s.loadVersion t).2.version = s.version ∧ (s.loadVersion t).2.lsVersion = s.lsVersion) ∨
    (∃ v r, s.db.getRoot v = .ok r ∧ (s.loadVersion t).2.root = r ∧ (s.loadVersion t).2.lsRoot = r ∧
      (s.loadVersion t).2.version = v ∧ (s.loadVersion t).2.lsVersion = v ∧ ∃ l, (s.loadVersion t).1 = .ok l) := by
  unfold loadVersion
  have a := getFirstVersion_same s
  have ab := a.trans (getLatestVersion_same s.getFirstVersion.2)
  simp only
  repeat' split
  all_goals first
    | exact Or.inl ⟨a.2.2.1, a.2.2.2.2.1, a.2.2.2.1, a.2.2.2.2.2.1⟩
    | exact Or.inl ⟨ab.2.2.1, ab.2.2.2.2.1, ab.2.2.2.1, ab.2.2.2.2.2.1⟩
    | exact Or.inl ⟨(ab.trans (versionExists_same _ _)).2.2.1, (ab.trans (versionExists_same _ _)).2.2.2.2.1,
        (ab.trans (versionExists_same _ _)).2.2.2.1, (ab.trans (versionExists_same _ _)).2.2.2.2.2.1⟩
    | (rename_i r heq
       rw [(ab.trans (versionExists_same _ _)).1] at heq
       exact Or.inr ⟨_, r, heq, rfl, rfl, rfl, rfl, _, rfl⟩)

end St
end GnoVerif.C30
