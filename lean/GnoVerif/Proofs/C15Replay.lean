import GnoVerif.Proofs.C15Hist
/-! C15: an accepted transaction is rejected in every later state. -/
namespace GnoVerif.C15

variable {π σ β : Type} [DecidableEq π]

theorem All2.head_inv {α γ : Type} {P : α → γ → Prop} {as : List α} {gs : List γ}
    (h : All2 P as gs) (hne : gs.length ≠ 0) :
    ∃ a g as' gs', as = a :: as' ∧ gs = g :: gs' ∧ P a g := by
  cases h with
  | nil => simp at hne
  | cons hp _ => exact ⟨_, _, _, _, rfl, rfl, hp⟩

/-- The key a `SigOk` signature verifies under hashes to the signing address. -/
theorem replay_core (cr : Crypto π σ β) (hc : CryptoOk cr) (cfg : Config) (s : State π) (tx : Tx π σ)
    (hi : Inv cr s) (hh : s.height ≠ 0) (hacc : Accepted (deliver cr cfg s tx).2)
    (s2 : State π) (hev : Evolves (deliver cr cfg s tx).1 s2) (hi2 : Inv cr s2) (hh2 : s2.height ≠ 0)
    (s3 : State π) : ante cr cfg s2 tx ≠ .ok s3 := by
  intro hante2
  obtain ⟨s1, hante, hmsgs⟩ := deliver_accepted cr cfg s tx hacc
  have hok := ante_ok_inv cr cfg s tx s1 hante
  have hv := ante_sigs_valid cr cfg s tx s1 hh hante
  have hv2 := ante_sigs_valid cr cfg s2 tx s3 hh2 hante2
  have heff := ante_seq_effect cr cfg s tx s1 (fun h => hh h.1) hante
  obtain ⟨a0, g0, as', gs', eA, eG, hs0⟩ := hv.head_inv hok.sigsNe
  obtain ⟨a0', g0', as'', gs'', eA', eG', hs2⟩ := hv2.head_inv hok.sigsNe
  rw [eA] at eA'
  rw [eG] at eG'
  injection eA' with eA' _
  injection eG' with eG' _
  subst eA' eG'
  have hmem : (a0, g0) ∈ (signersOf tx.msgs).zip tx.sigs := by
    rw [eA, eG]
    simp
  unfold SigOk at hs0 hs2
  cases hsess : g0.session with
  | none =>
    simp only [hsess] at hs0 hs2
    obtain ⟨acc, pk, hacc0, hpk, hver⟩ := hs0
    obtain ⟨acc2, pk2, hacc2, hpk2, hver2⟩ := hs2
    have hpa : cr.addrOf pk = a0 := by
      rcases hpk with h | ⟨_, _, h⟩
      · exact hi.accKey a0 acc pk hacc0 h
      · exact h
    have hpa2 : cr.addrOf pk2 = a0 := by
      rcases hpk2 with h | ⟨_, _, h⟩
      · exact hi2.accKey a0 acc2 pk2 hacc2 h
      · exact h
    have hpeq : pk = pk2 := hc.addr pk pk2 (hpa.trans hpa2.symm)
    subst hpeq
    have hb := hc.unique pk _ _ _ hver hver2
    have hns := hc.inj _ _ hb
    simp only at hns
    -- the sequence moved
    obtain ⟨acc1, h1, _, hseq, _⟩ := heff.accounts a0 acc hacc0
    have hseq1 : acc1.seq = acc.seq + 1 := by
      rcases hseq with ⟨_, e⟩ | ⟨hn, _⟩
      · exact e
      · exact absurd ⟨g0, hmem, hsess⟩ hn
    have h1' : (deliver cr cfg s tx).1.accounts a0 = some acc1 := by
      rw [hmsgs.accounts]
      exact h1
    obtain ⟨acc2', h2', _, hge⟩ := hev.acc a0 acc1 h1'
    rw [hacc2] at h2'
    injection h2' with h2'
    subst h2'
    omega
  | some sa =>
    simp only [hsess] at hs0 hs2
    obtain ⟨_, ss, pk, _, hss, _, hpk, hver⟩ := hs0
    obtain ⟨_, ss2, pk2, _, hss2, _, hpk2, hver2⟩ := hs2
    obtain ⟨key, hkey, hka⟩ := hi.sessKey a0 sa ss hss
    obtain ⟨key2, hkey2, hka2⟩ := hi2.sessKey a0 sa ss2 hss2
    have hpkk : pk = key := by
      rcases hpk with h | ⟨h, _⟩
      · rw [hkey] at h
        injection h with h
        exact h.symm
      · rw [hkey] at h
        cases h
    have hpkk2 : pk2 = key2 := by
      rcases hpk2 with h | ⟨h, _⟩
      · rw [hkey2] at h
        injection h with h
        exact h.symm
      · rw [hkey2] at h
        cases h
    have hpeq : pk = pk2 := by
      rw [hpkk, hpkk2]
      exact hc.addr key key2 (hka.trans hka2.symm)
    subst hpeq
    have hb := hc.unique pk _ _ _ hver hver2
    have hns := hc.inj _ _ hb
    simp only at hns
    have hlt := hi.sessLt a0 sa ss hss
    -- s → s1: the session's sequence moved
    have h1 := heff.sessions a0 sa
    rw [hss] at h1
    simp only at h1
    obtain ⟨ss1, hss1, hn1, hseq, _⟩ := h1
    have hseq1 : ss1.seq = ss.seq + 1 := by
      rcases hseq with ⟨_, e⟩ | ⟨hn, _⟩
      · exact e
      · exact absurd ⟨g0, hmem, hsess⟩ hn
    have hnext1 : s.nextAccNum ≤ s1.nextAccNum := heff.evolves.next
    -- s_after → s2
    rcases hev.sess a0 sa ss2 hss2 with ⟨ssA, hssA, hnA, hgeA⟩ | hge
    · -- s1 → s_after
      rcases hmsgs.sess a0 sa with e | e | ⟨ssF, e, hgeF, _, _⟩
      · rw [e, hss1] at hssA
        injection hssA with hssA
        subst hssA
        omega
      · rw [e] at hssA
        cases hssA
      · rw [e] at hssA
        injection hssA with hssA
        subst hssA
        omega
    · have := hmsgs.next
      omega

end GnoVerif.C15
