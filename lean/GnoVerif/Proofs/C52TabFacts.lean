import GnoVerif.Spec.C52Html
/-!
C52 helper lemmas: facts about goldmark's `urlEscapeTable` / `utf8lenTable`, decided on the
GENERATED tables (so a changed table re-checks them).
-/
namespace GnoVerif.C52
open GnoVerif.Gen.C52

/-! ## table facts -/

set_option maxRecDepth 8192 in
theorem urlEscapeTable_length : urlEscapeTable.length = 256 := by decide +kernel
set_option maxRecDepth 8192 in
theorem utf8lenTable_length : utf8lenTable.length = 256 := by decide +kernel

set_option maxRecDepth 8192 in
theorem urlSafe_small : ∀ c, c < 256 → urlSafe c = true → (32 < c ∧ c ≠ 37) := by decide +kernel

theorem urlSafe_big (c : Nat) (h : ¬ c < 256) : urlSafe c = false := by
  have hlen : urlEscapeTable.length ≤ c := by rw [urlEscapeTable_length]; omega
  unfold urlSafe
  rw [List.getD_eq_getElem?_getD, List.getElem?_eq_none hlen]; rfl

theorem urlSafe_gt (c : Nat) (h : urlSafe c = true) : 32 < c ∧ c ≠ 37 := by
  by_cases hc : c < 256
  · exact urlSafe_small c hc h
  · rw [urlSafe_big c hc] at h; cases h

set_option maxRecDepth 8192 in
theorem unreserved_urlSafe_small : ∀ c, c < 256 →
    (isAlnum c = true ∨ c = 45 ∨ c = 95 ∨ c = 46 ∨ c = 126) → urlSafe c = true := by decide +kernel

theorem isAlnum_lt (c : Nat) (h : isAlnum c = true) : c < 256 := by
  simp [isAlnum, isAlpha, isDigit] at h; omega

theorem unreserved_urlSafe (c : Nat) (h : isAlnum c = true ∨ c = 45 ∨ c = 95 ∨ c = 46 ∨ c = 126) :
    urlSafe c = true := by
  have hc : c < 256 := by
    rcases h with h | h | h | h | h
    · exact isAlnum_lt c h
    all_goals omega
  exact unreserved_urlSafe_small c hc h

set_option maxRecDepth 8192 in
theorem utf8len_small : ∀ c, c < 256 →
    (utf8len c = 1 ∨ (utf8len c = 99 ∧ 128 ≤ c) ∨ (2 ≤ utf8len c ∧ utf8len c ≤ 4 ∧ 192 ≤ c)) := by decide +kernel

theorem utf8len_big (c : Nat) (h : ¬ c < 256) : utf8len c = 0 := by
  have hlen : utf8lenTable.length ≤ c := by rw [utf8lenTable_length]; omega
  unfold utf8len
  rw [List.getD_eq_getElem?_getD, List.getElem?_eq_none hlen]; rfl

end GnoVerif.C52
