import GnoVerif.Proofs.C45Subst
/-!
C45 helper lemmas, part 8: the two concrete witnesses on which the literal
property statement fails for the code as it is.
-/
namespace GnoVerif.C45

instance {α : Type} [DecidableEq α] : DecidableEq (Except Err α) := fun a b =>
  match a, b with
  | .ok x, .ok y => if h : x = y then isTrue (by rw [h]) else isFalse (by intro e; cases e; exact h rfl)
  | .error x, .error y => if h : x = y then isTrue (by rw [h]) else isFalse (by intro e; cases e; exact h rfl)
  | .ok _, .error _ => isFalse (by intro e; cases e)
  | .error _, .ok _ => isFalse (by intro e; cases e)

theorem convertBits_nil (f t : Nat) (pad : Bool) (hf : ¬ (f < 1 ∨ f > 8 ∨ t < 1 ∨ t > 8)) :
    convertBits f t pad [] = .ok [] := by
  unfold convertBits
  rw [if_neg hf]
  simp only [List.flatMap_nil]
  rw [chunks_small t [] (by right; simp; omega)]
  simp

/-! ### "a1lqfn3a": a BIP-350 (bech32m) string -/

/-- `"a1lqfn3a"` -/
def bech32mVector : Bytes := [97, 49, 108, 113, 102, 110, 51, 97]

theorem bech32m_decode5 : decode5 bech32mVector = .ok ([97], []) := by decide +kernel

theorem bech32m_decode : decode bech32mVector = .ok ([97], []) := by
  unfold decode
  rw [bech32m_decode5]
  simp only
  rw [convertBits_nil 5 8 false (by decide)]
  rfl

theorem bech32m_toBytes : toBytes (lowerAll [108, 113, 102, 110, 51, 97]) = .ok [31, 0, 9, 19, 17, 29] := by
  decide +kernel

theorem bech32m_polymod : polymod (lowerAll [97]) [31, 0, 9, 19, 17, 29] = constM := by decide +kernel

/-! ### a 1022-character prefix -/

def longHrp (c : UInt8) : Bytes := c :: List.replicate 1021 120

set_option maxRecDepth 100000 in
/-- replacing the first prefix character `'a'` by `'@'` changes the two checksum inputs that
are 1023 positions apart by the same value; the final state is the same. -/
theorem long_polymod : polymod (longHrp 97) [0, 0, 0, 0, 0, 0] = polymod (longHrp 64) [0, 0, 0, 0, 0, 0] := by
  decide +kernel

theorem longHrp_valid (c : UInt8) (hc : InRange c ∧ isUpper c = false) : ValidHrp (longHrp c) := by
  refine ⟨List.cons_ne_nil _ _, ?_⟩
  intro x hx
  simp only [longHrp, List.mem_cons, List.mem_replicate] at hx
  rcases hx with rfl | ⟨_, rfl⟩
  · exact hc
  · exact ⟨by decide, by decide⟩

theorem encode_empty (hrp : Bytes) (hv : ValidHrp hrp) :
    encode hrp [] = .ok (hrp ++ 49 :: (createChecksum hrp []).map charAt) := by
  unfold encode
  simp only [List.map_nil]
  rw [convertBits_nil 8 5 true (by decide)]
  simp only [encode5, lowerAll_eq_self hrp (fun c hc => (hv.2 c hc).2)]
  simp

theorem long_witness :
    ∃ s : Bytes, 0 < s.length ∧ decode s = .ok (longHrp 97, []) ∧
      decode (s.set 0 64) = .ok (longHrp 64, []) := by
  have v1 := longHrp_valid 97 ⟨by decide, by decide⟩
  have v2 := longHrp_valid 64 ⟨by decide, by decide⟩
  obtain ⟨s1, e1, d1⟩ := decode_encode' (longHrp 97) [] v1
  obtain ⟨s2, e2, d2⟩ := decode_encode' (longHrp 64) [] v2
  rw [encode_empty _ v1] at e1
  rw [encode_empty _ v2] at e2
  cases e1; cases e2
  have hcs : createChecksum (longHrp 64) [] = createChecksum (longHrp 97) [] := by
    unfold createChecksum
    simp only [List.nil_append]
    rw [long_polymod]
  refine ⟨_, by simp only [longHrp, List.cons_append, List.length_cons]; omega, d1, ?_⟩
  rw [hcs] at d2
  exact d2

/-! ### addresses: round trip, and a concrete accepted string for the non-vacuity examples -/

theorem addrPrefix_valid : ValidHrp addrPrefix :=
  ⟨List.cons_ne_nil _ _, by intro c hc; simp only [addrPrefix, List.mem_singleton] at hc; subst hc; exact ⟨by decide, by decide⟩⟩

theorem address_roundtrip' (d : Bytes) (hd : d.length = 20) :
    ∃ s, encode addrPrefix d = .ok s ∧ addressFromBech32 s = .ok d := by
  obtain ⟨s, e1, e2⟩ := decode_encode' addrPrefix d addrPrefix_valid
  refine ⟨s, e1, ?_⟩
  obtain ⟨hl, _, _⟩ := decode_ok_shape s _ _ e2
  unfold addressFromBech32 getFromBech32
  rw [if_neg (by omega), e2]
  simp [hd]

/-- `"a12uel5l"` (BIP-173 test vector) -/
def bech32Vector : Bytes := [97, 49, 50, 117, 101, 108, 53, 108]

theorem bech32_decode5 : decode5 bech32Vector = .ok ([97], []) := by decide +kernel

theorem bech32_decode : decode bech32Vector = .ok ([97], []) := by
  unfold decode
  rw [bech32_decode5]
  simp only
  rw [convertBits_nil 5 8 false (by decide)]
  rfl

end GnoVerif.C45
