import GnoVerif.Proofs.C14Frame
/-! Helper lemmas for C14: under the invariant a credit that follows a successful
debit of the same coins cannot fail, so raw `sendCoins` is atomic there. -/
namespace GnoVerif.C14
set_option linter.unusedSimpArgs false
set_option linter.unusedVariables false

theorem String.lt_of_not_lt_of_ne' {a b : String} (h1 : ¬ a < b) (h2 : a ≠ b) : b < a := by
  apply Classical.byContradiction
  intro h3
  exact h2 (String.le_antisymm (String.not_lt.1 h3) (String.not_lt.1 h1))

theorem empty_lt_of_validDenom (d : Denom) (h : validDenom d = true) : "" < d := by
  unfold validDenom at h
  rw [String.lt_iff]
  cases hd : d.toList with
  | nil => rw [hd] at h; simp at h
  | cons c rest => simp

theorem validFrom_empty_of_coinsValid (cs : Coins) (h : coinsValid cs = true) : validFrom "" cs = true := by
  cases cs with
  | nil => rfl
  | cons c cs =>
    simp [coinsValid] at h
    simp [validFrom, h.1.1, h.1.2, h.2, empty_lt_of_validDenom c.denom h.1.1]

theorem removeZero_of_validFrom (low : Denom) (cs : Coins) (h : validFrom low cs = true) : removeZero cs = cs :=
  removeZero_of_valid cs (coinsValid_of_validFrom low cs h)

theorem sumOf_nonneg_of_validFrom (low : Denom) (cs : Coins) (h : validFrom low cs = true) (d : Denom) :
    0 ≤ sumOf cs d :=
  sumOf_nonneg cs (fun c hc => (validFrom_mem low cs h c hc).2.1) d

/-- merging two validated sets whose per-denom sums fit int64 succeeds and validates. -/
theorem addUnsafe_valid (a b : Coins) (low : Denom) (ha : validFrom low a = true) (hb : validFrom low b = true)
    (hbound : ∀ d, sumOf a d + sumOf b d ≤ maxInt64) :
    ∃ r, addUnsafe a b = .ok r ∧ validFrom low r = true := by
  fun_induction addUnsafe a b generalizing low with
  | case1 b => exact ⟨b, by rw [removeZero_of_validFrom low b hb], hb⟩
  | case2 a ra => exact ⟨a :: ra, by rw [removeZero_of_validFrom low _ ha], ha⟩
  | case3 a ra b rb hlt f herr ih =>
    exfalso
    simp [validFrom] at ha hb
    have hb' : validFrom a.denom (b :: rb) = true := by simp [validFrom, hb.1.1.1, hb.1.2, hb.2, hlt]
    have hnn : 0 < a.amount := ha.1.2
    obtain ⟨r, hr, _⟩ := ih a.denom ha.2 hb' (by
      intro d
      have hbd : sumOf ra d ≤ sumOf (a :: ra) d := by simp; split <;> omega
      have := hbound d; omega)
    rw [hr] at herr; cases herr
  | case4 a ra b rb hlt rest hrest ih =>
    simp [validFrom] at ha hb
    have hb' : validFrom a.denom (b :: rb) = true := by simp [validFrom, hb.1.1.1, hb.1.2, hb.2, hlt]
    have hnn : 0 < a.amount := ha.1.2
    obtain ⟨r, hr, hvr⟩ := ih a.denom ha.2 hb' (by
      intro d
      have hbd : sumOf ra d ≤ sumOf (a :: ra) d := by simp; split <;> omega
      have := hbound d; omega)
    rw [hr] at hrest
    obtain rfl := Except.ok.inj hrest
    have : ¬ a.amount = 0 := by omega
    exact ⟨a :: r, by simp [this], by simp [validFrom, ha.1.1.1, ha.1.1.2, ha.1.2, hvr]⟩
  | case5 a ra b rb hlt heq hin f herr ih =>
    exfalso
    simp [validFrom] at ha hb
    have hb' : validFrom a.denom rb = true := by rw [heq]; exact hb.2
    have h1 := sumOf_nonneg_of_validFrom _ _ ha.2
    have h2 := sumOf_nonneg_of_validFrom _ _ hb.2
    obtain ⟨r, hr, _⟩ := ih a.denom ha.2 hb' (by
      intro d
      have hpa : 0 < a.amount := ha.1.2
      have hpb : 0 < b.amount := hb.1.2
      have hbd1 : sumOf ra d ≤ sumOf (a :: ra) d := by simp; split <;> omega
      have hbd2 : sumOf rb d ≤ sumOf (b :: rb) d := by simp; split <;> omega
      have := hbound d; omega)
    rw [hr] at herr; cases herr
  | case6 a ra b rb hlt heq hin rest hrest ih =>
    simp [validFrom] at ha hb
    have hb' : validFrom a.denom rb = true := by rw [heq]; exact hb.2
    have h1 := sumOf_nonneg_of_validFrom _ _ ha.2
    have h2 := sumOf_nonneg_of_validFrom _ _ hb.2
    obtain ⟨r, hr, hvr⟩ := ih a.denom ha.2 hb' (by
      intro d
      have hpa : 0 < a.amount := ha.1.2
      have hpb : 0 < b.amount := hb.1.2
      have hbd1 : sumOf ra d ≤ sumOf (a :: ra) d := by simp; split <;> omega
      have hbd2 : sumOf rb d ≤ sumOf (b :: rb) d := by simp; split <;> omega
      have := hbound d; omega)
    rw [hr] at hrest
    obtain rfl := Except.ok.inj hrest
    have hpa : 0 < a.amount := ha.1.2
    have hpb : 0 < b.amount := hb.1.2
    have : ¬ a.amount + b.amount = 0 := by omega
    refine ⟨⟨a.denom, a.amount + b.amount⟩ :: r, by simp [this], ?_⟩
    simp [validFrom, ha.1.1.1, ha.1.1.2, hvr]; omega
  | case7 a ra b rb hlt heq hin =>
    exfalso
    simp [validFrom] at ha hb
    have h1 := sumOf_nonneg_of_validFrom _ _ ha.2 a.denom
    have h2 := sumOf_nonneg_of_validFrom _ _ hb.2 a.denom
    have hpa : 0 < a.amount := ha.1.2
    have hpb : 0 < b.amount := hb.1.2
    have hb1 : a.amount + sumOf ra a.denom = sumOf (a :: ra) a.denom := by simp
    have hb2 : b.amount + sumOf rb a.denom = sumOf (b :: rb) a.denom := by simp [heq]
    have := hbound a.denom
    have hmax : maxInt64 = 9223372036854775807 := rfl
    have hin' : inI64 (a.amount + b.amount) = true := by
      simp only [inI64, minInt64, Bool.and_eq_true, decide_eq_true_eq]
      rw [hmax] at this ⊢
      constructor
      · apply decide_eq_true; omega
      · omega
    exact hin hin'
  | case8 a ra b rb hlt heq f herr ih =>
    exfalso
    simp [validFrom] at ha hb
    have hgt : b.denom < a.denom := String.lt_of_not_lt_of_ne' hlt heq
    have ha' : validFrom b.denom (a :: ra) = true := by simp [validFrom, ha.1.1.1, ha.1.2, ha.2, hgt]
    have hnn : 0 < b.amount := hb.1.2
    obtain ⟨r, hr, _⟩ := ih b.denom ha' hb.2 (by
      intro d
      have hbd : sumOf rb d ≤ sumOf (b :: rb) d := by simp; split <;> omega
      have := hbound d; omega)
    rw [hr] at herr; cases herr
  | case9 a ra b rb hlt heq rest hrest ih =>
    simp [validFrom] at ha hb
    have hgt : b.denom < a.denom := String.lt_of_not_lt_of_ne' hlt heq
    have ha' : validFrom b.denom (a :: ra) = true := by simp [validFrom, ha.1.1.1, ha.1.2, ha.2, hgt]
    have hnn : 0 < b.amount := hb.1.2
    obtain ⟨r, hr, hvr⟩ := ih b.denom ha' hb.2 (by
      intro d
      have hbd : sumOf rb d ≤ sumOf (b :: rb) d := by simp; split <;> omega
      have := hbound d; omega)
    rw [hr] at hrest
    obtain rfl := Except.ok.inj hrest
    have : ¬ b.amount = 0 := by omega
    exact ⟨b :: r, by simp [this], by simp [validFrom, hb.1.1.1, hb.1.1.2, hb.1.2, hvr]⟩

theorem coinsAdd_succeeds (a b : Coins) (ha : coinsValid a = true) (hb : coinsValid b = true)
    (hbound : ∀ d, sumOf a d + sumOf b d ≤ maxInt64) : ∃ r, coinsAdd a b = .ok r := by
  obtain ⟨r, hr, hv⟩ := addUnsafe_valid a b "" (validFrom_empty_of_coinsValid a ha)
    (validFrom_empty_of_coinsValid b hb) hbound
  refine ⟨r, ?_⟩
  unfold coinsAdd
  rw [hr]
  simp [coinsValid_of_validFrom "" r hv]


theorem find_le_sumBy {κ ν : Type} [DecidableEq κ] (f : κ → ν → Int) (m : List (κ × ν))
    (hnn : ∀ e ∈ m, 0 ≤ f e.1 e.2) (k : κ) (v : ν) (h : find m k = some v) : f k v ≤ sumBy f m := by
  induction m with
  | nil => simp [find] at h
  | cons e m ih =>
    obtain ⟨k0, v0⟩ := e
    have h0 := hnn (k0, v0) (by simp)
    have hrest : 0 ≤ sumBy f m := by
      clear ih h
      induction m with
      | nil => simp
      | cons e' m' ih' =>
        have := hnn e' (by simp)
        have := ih' (fun e he => hnn e (by
          rcases List.mem_cons.1 he with he | he
          · simp [he]
          · simp [he]))
        simp at *; omega
    by_cases hk : k0 = k
    · subst hk
      simp [find] at h; subst h
      simp; omega
    · simp [find, hk] at h
      have := ih (fun e he => hnn e (List.mem_cons_of_mem _ he)) h
      simp at *; omega

theorem sumBy_nonneg {κ ν : Type} [DecidableEq κ] (f : κ → ν → Int) (m : List (κ × ν))
    (hnn : ∀ e ∈ m, 0 ≤ f e.1 e.2) : 0 ≤ sumBy f m := by
  induction m with
  | nil => simp
  | cons e m ih =>
    have := hnn e (by simp)
    have := ih (fun e' he => hnn e' (List.mem_cons_of_mem _ he))
    simp; omega

theorem splitTotal_nonneg {tier : Denom → Bool} {s : State} (h : WF tier s) (d : Denom) : 0 ≤ splitTotal s d := by
  rw [splitTotal_eq_sumBy]
  apply sumBy_nonneg
  intro e he
  have := h.split_pos e he
  show 0 ≤ (if e.1.2 = d then e.2 else 0)
  split <;> omega

theorem acctTotal_nonneg {tier : Denom → Bool} {s : State} (h : WF tier s) (d : Denom) : 0 ≤ acctTotal s d := by
  rw [acctTotal_eq_sumBy]
  apply sumBy_nonneg
  intro e he
  exact sumOf_nonneg _ (fun c hc => (coinsValid_mem _ (h.acct_coins e he).1 c hc).2) d

theorem getSplit_le_splitTotal {tier : Denom → Bool} {s : State} (h : WF tier s) (a : Addr) (d : Denom) :
    getSplit s a d ≤ splitTotal s d := by
  unfold getSplit
  cases hf : find s.split (a, d) with
  | none => simpa using splitTotal_nonneg h d
  | some v =>
    rw [splitTotal_eq_sumBy]
    have := find_le_sumBy (fun (k : Addr × Denom) (v : Int) => if k.2 = d then v else 0) s.split (by
      intro e he
      have := h.split_pos e he
      show 0 ≤ (if e.1.2 = d then e.2 else 0)
      split <;> omega) (a, d) v hf
    simpa using this

theorem acct_le_acctTotal {tier : Denom → Bool} {s : State} (h : WF tier s) (a : Addr) (x : Account)
    (hg : getAcct s a = some x) (d : Denom) : sumOf x.coins d ≤ acctTotal s d := by
  rw [acctTotal_eq_sumBy]
  exact find_le_sumBy (fun (_ : Addr) (x : Account) => sumOf x.coins d) s.accts (by
    intro e he
    exact sumOf_nonneg _ (fun c hc => (coinsValid_mem _ (h.acct_coins e he).1 c hc).2) d) a x hg

theorem creditSplit_succeeds (s : State) (a : Addr) (sp : Coins)
    (hb : ∀ c ∈ sp, 0 ≤ getSplit s a c.denom + c.amount ∧ getSplit s a c.denom + c.amount ≤ maxInt64) :
    ∃ ws, creditSplit s a sp = .ok ws := by
  induction sp with
  | nil => exact ⟨[], rfl⟩
  | cons c sp ih =>
    obtain ⟨ws, hws⟩ := ih (fun x hx => hb x (List.mem_cons_of_mem _ hx))
    have hc := hb c (by simp)
    have hin : inI64 (getSplit s a c.denom + c.amount) = true := by
      have hmax : maxInt64 = 9223372036854775807 := rfl
      simp only [inI64, minInt64, Bool.and_eq_true]
      rw [hmax] at hc ⊢
      constructor
      · apply decide_eq_true; omega
      · apply decide_eq_true; omega
    refine ⟨(c.denom, getSplit s a c.denom + c.amount) :: ws, ?_⟩
    unfold creditSplit
    rw [if_pos hin, hws]

/-- a credit that keeps every per-denom total within int64 cannot fail. -/
theorem addCoins_succeeds {tier : Denom → Bool} {s : State} (h : WF tier s) (a : Addr) (amt : Coins)
    (hv : coinsValid amt = true) (hb : ∀ d, total s d + sumOf amt d ≤ maxInt64) :
    (addCoins tier s a amt).2 = none := by
  have hspv := coinsValid_filter (fun c => !tier c.denom) amt hv
  have hacv := coinsValid_filter (fun c => tier c.denom) amt hv
  have hspn := coinsValid_nodup _ hspv
  have hspm := coinsValid_mem _ hspv
  have hsplitsum : ∀ d, sumOf amt d = sumOf (amt.filter (fun c => tier c.denom)) d + sumOf (amt.filter (fun c => !tier c.denom)) d :=
    fun d => sumOf_filter_split (fun c => tier c.denom) amt d
  have hacnn : ∀ d, 0 ≤ sumOf (amt.filter (fun c => tier c.denom)) d :=
    fun d => sumOf_nonneg _ (fun c hc => (coinsValid_mem _ hacv c hc).2) d
  have hspnn : ∀ d, 0 ≤ sumOf (amt.filter (fun c => !tier c.denom)) d :=
    fun d => sumOf_nonneg _ (fun c hc => (hspm c hc).2) d
  obtain ⟨credited, hcred⟩ := creditSplit_succeeds s a (amt.filter (fun c => !tier c.denom)) (by
    intro c hc
    have h1 := getSplit_nonneg h a c.denom
    have h2 := (hspm c hc).2
    have h3 := getSplit_le_splitTotal h a c.denom
    have h4 := acctTotal_nonneg h c.denom
    have h5 := sumOf_of_mem_nodup _ hspn c hc
    have h6 := hb c.denom
    have h7 := hsplitsum c.denom
    have h8 := hacnn c.denom
    unfold total at h6
    constructor <;> omega)
  unfold addCoins
  simp only [hv, Bool.not_true, Bool.false_eq_true, ↓reduceIte, hcred]
  by_cases hac : (amt.filter (fun c => tier c.denom)).isEmpty = true
  · simp only [hac, ↓reduceIte]
  · simp only [hac, Bool.false_eq_true, ↓reduceIte]
    obtain ⟨hwf1, hget1, haddr1, hsplit1, hsupply1, htot1, hsome1, _⟩ := ensureAccount_spec h a
    generalize ensureAccount s a = r at hwf1 hget1 haddr1 hsplit1 hsupply1 htot1 hsome1
    have hr1mem : (a, r.1) ∈ r.2.accts := find_some_mem _ _ _ hget1
    have hr1c := hwf1.acct_coins _ hr1mem
    have hold : acctTierCoins tier r.1 = .ok r.1.coins := by
      unfold acctTierCoins
      have : r.1.coins.all (fun c => tier c.denom) = true := by
        rw [List.all_eq_true]; intro c hc; exact hr1c.2 c hc
      rw [if_pos this]
    rw [hold]
    simp only
    obtain ⟨new, hnew⟩ := coinsAdd_succeeds r.1.coins _ hr1c.1 hacv (by
      intro d
      have h1 := acct_le_acctTotal hwf1 a r.1 hget1 d
      have h2 := htot1 d
      have h3 := splitTotal_nonneg h d
      have h4 := hb d
      have h5 := hsplitsum d
      have h6 := hspnn d
      unfold total at h4
      omega)
    rw [hnew]

/-- under the invariant, raw `sendCoins` / `SendCoinsUnrestricted` (subtract, then add)
is atomic: if it fails, nothing was written — the add after a successful subtract of
the same coins cannot overflow, because Σ balances = supply ≤ MaxInt64. -/
theorem sendCore_fail_under_inv {tier : Denom → Bool} {s s' : State} {f t : Addr} {amt : Coins} {vest : Bool}
    {e : Fail} (h : Inv tier s) (hr : sendCore tier s f t amt vest = (s', some e)) : s' = s := by
  unfold sendCore at hr
  cases hsub : subtractCoins tier s f amt vest with
  | mk s1 r1 =>
    rw [hsub] at hr
    cases r1 with
    | some e' =>
      simp at hr
      rw [← hr.1]
      exact subtractCoins_fail _ _ _ _ _ _ _ hsub
    | none =>
      exfalso
      simp only at hr
      obtain ⟨hwf1, hsup1, htot1, hv, _⟩ := subtractCoins_ok h.1 hsub
      have := addCoins_succeeds hwf1 t amt hv (by
        intro d
        rw [htot1 d]
        have := h.2.2 d
        rw [h.2.1 d] at this
        omega)
      rw [hr] at this
      cases this

end GnoVerif.C14
