import GnoVerif.Proofs.C25Split
/-! Helper lemmas for C25: the iterative (level-pairing) hash equals the recursive (split) hash. -/
namespace GnoVerif.C25

/-- the split recursion over already-hashed leaves -/
def mth (H : Bytes → Bytes) (hs : List Bytes) : Bytes :=
  match hs with
  | [] => []
  | [h] => h
  | x :: y :: rest =>
    let k := getSplitPoint (x :: y :: rest).length
    innerHash H (mth H ((x :: y :: rest).take k)) (mth H ((x :: y :: rest).drop k))
termination_by hs.length
decreasing_by
  · have := getSplitPoint_lt (n := (x :: y :: rest).length) (by simp)
    simp only [List.length_take, List.length_cons] at *; omega
  · have := getSplitPoint_pos (n := (x :: y :: rest).length) (by simp)
    simp only [List.length_drop, List.length_cons] at *; omega

theorem mth_two {H : Bytes → Bytes} {hs : List Bytes} (h : 2 ≤ hs.length) :
    mth H hs = innerHash H (mth H (hs.take (getSplitPoint hs.length))) (mth H (hs.drop (getSplitPoint hs.length))) := by
  match hs, h with
  | x :: y :: rest, _ => rw [mth]

theorem treeHash_eq_mth (H : Bytes → Bytes) : ∀ (n : Nat) (items : List Bytes), items.length = n →
    treeHash H items = mth H (items.map (leafHash H)) := by
  intro n
  induction n using Nat.strongRecOn with
  | _ n ih =>
    intro items hn
    match items with
    | [] => simp [treeHash, mth]
    | [x] => simp [treeHash, mth]
    | x :: y :: rest =>
      have h2 : 2 ≤ (x :: y :: rest).length := by simp
      have hlt := getSplitPoint_lt h2
      have hpos := getSplitPoint_pos h2
      have h2' : 2 ≤ ((x :: y :: rest).map (leafHash H)).length := by simp
      rw [mth_two h2', List.length_map, ← List.map_take, ← List.map_drop]
      rw [← ih _ (by rw [List.length_take]; omega) _ rfl, ← ih _ (by rw [List.length_drop]; omega) _ rfl]
      rw [treeHash]

theorem iterLevel_append (H : Bytes → Bytes) : ∀ (m : Nat) (xs ys : List Bytes), xs.length = 2 * m →
    iterLevel H (xs ++ ys) = iterLevel H xs ++ iterLevel H ys := by
  intro m
  induction m with
  | zero => intro xs ys h; have : xs = [] := List.length_eq_zero_iff.mp (by omega); subst this; simp [iterLevel]
  | succ m ih =>
    intro xs ys h
    match xs, h with
    | a :: b :: xs', h =>
      have : xs'.length = 2 * m := by simp at h; omega
      simp [iterLevel, ih xs' ys this]

theorem iterLevel_single (H : Bytes → Bytes) {l : List Bytes} (h : l.length = 1) : iterLevel H l = l := by
  match l, h with
  | [a], _ => rfl

theorem mth_iterLevel (H : Bytes → Bytes) : ∀ (n : Nat) (hs : List Bytes), hs.length = n → 2 ≤ n →
    mth H (iterLevel H hs) = mth H hs := by
  intro n
  induction n using Nat.strongRecOn with
  | _ n ih =>
    intro hs hn h2
    by_cases h3 : n = 2
    · subst h3
      obtain ⟨a, b, rfl⟩ : ∃ a b, hs = [a, b] := by
        match hs, hn with
        | [a, b], _ => exact ⟨a, b, rfl⟩
      have : getSplitPoint 2 = 1 := getSplitPoint_two
      simp [iterLevel, mth, this]
    · have hn3 : 3 ≤ hs.length := by omega
      obtain ⟨k', hk, hk'⟩ := getSplitPoint_half hn3
      have hlt := getSplitPoint_lt (n := hs.length) (by omega)
      have hpos := getSplitPoint_pos (n := hs.length) (by omega)
      have hsplit : hs = hs.take (2 * k') ++ hs.drop (2 * k') := (List.take_append_drop _ _).symm
      have hlenL : (hs.take (2 * k')).length = 2 * k' := by rw [List.length_take]; omega
      have hlenR : (hs.drop (2 * k')).length = hs.length - 2 * k' := by rw [List.length_drop]
      have hlev : iterLevel H hs = iterLevel H (hs.take (2 * k')) ++ iterLevel H (hs.drop (2 * k')) := by
        conv => lhs; rw [hsplit]
        exact iterLevel_append H k' _ _ hlenL
      have hlenA : (iterLevel H (hs.take (2 * k'))).length = k' := by
        rw [iterLevel_length, hlenL]; omega
      have hlen : (iterLevel H hs).length = (hs.length + 1) / 2 := iterLevel_length H hs
      have h2' : 2 ≤ (iterLevel H hs).length := by omega
      rw [mth_two h2', hlen, hk', mth_two (hs := hs) (by omega), hk]
      have htake : (iterLevel H hs).take k' = iterLevel H (hs.take (2 * k')) := by
        rw [hlev, List.take_left' hlenA]
      have hdrop : (iterLevel H hs).drop k' = iterLevel H (hs.drop (2 * k')) := by
        rw [hlev, List.drop_left' hlenA]
      rw [htake, hdrop]
      have hk2 : 1 ≤ k' := by omega
      -- left part: length 2k' ≥ 2
      have hL : mth H (iterLevel H (hs.take (2 * k'))) = mth H (hs.take (2 * k')) :=
        ih (2 * k') (by omega) _ hlenL (by omega)
      -- right part: length n - 2k' ≥ 1
      have hR : mth H (iterLevel H (hs.drop (2 * k'))) = mth H (hs.drop (2 * k')) := by
        by_cases h1 : hs.length - 2 * k' = 1
        · rw [iterLevel_single H (by omega)]
        · exact ih (hs.length - 2 * k') (by omega) _ hlenR (by omega)
      rw [hL, hR]

theorem iterLoop_eq (H : Bytes → Bytes) : ∀ (n : Nat) (hs : List Bytes), hs.length = n → hs ≠ [] →
    iterLoop H hs = some (mth H hs) := by
  intro n
  induction n using Nat.strongRecOn with
  | _ n ih =>
    intro hs hn hne
    match hs, hne with
    | [x], _ => simp [iterLoop, mth]
    | x :: y :: rest, _ =>
      rw [iterLoop]
      have hlen := iterLevel_length H (x :: y :: rest)
      have hne' : iterLevel H (x :: y :: rest) ≠ [] := by
        intro hc; rw [hc] at hlen; simp at hlen; omega
      rw [ih _ (by rw [← hn, hlen]; simp; omega) _ rfl hne']
      rw [mth_iterLevel H _ _ rfl (by simp)]

end GnoVerif.C25
