import GnoVerif.Spec.C32
import GnoVerif.Proofs.C36
/-!
Helper lemmas for Props/C32.lean.  Core Lean only.
-/
namespace GnoVerif.C32
open GnoVerif.C36 (ValSet Validator wrap64 sortSearch)

/-! ### Block.ValidateBasic -/

theorem validHash_iff (h : Bytes) : validHash h = true ↔ HashShape h := by
  unfold validHash HashShape; grind

theorem lastBlockIDBasic_ok_iff (l : LastBlockID) :
    lastBlockIDBasic l = .ok () ↔ LastBlockIDShape l := by
  constructor
  · intro h
    unfold lastBlockIDBasic at h
    refine ⟨?_, ?_, ?_, ?_⟩ <;> grind
  · rintro ⟨h1, h2, h3, h4⟩
    unfold lastBlockIDBasic
    grind

theorem commitShape_iff (c : Commit) : C36.validateBasic c.toC36 = .ok () ↔ CommitShape c := by
  rw [C36.validateBasic_ok_iff]
  rfl

theorem validateBasic_ok_iff_aux (b : Block) :
    validateBasic b = .ok () ↔
      b.header.chainID.length ≤ maxChainIDLen ∧ 0 < b.header.height ∧ b.header.numTxs = (b.nTxs : Int) ∧
      b.header.numTxs ≤ b.header.totalTxs ∧ lastBlockIDBasic b.header.lastBlockID = .ok () ∧
      (∃ c, b.lastCommit = some c ∧ C36.validateBasic c.toC36 = .ok ()) ∧
      validHash b.header.lastCommitHash = true ∧ b.header.lastCommitHash = b.lastCommitHashC ∧
      validHash b.header.dataHash = true ∧ b.header.dataHash = b.dataHashC ∧
      validHash b.header.validatorsHash = true ∧ validHash b.header.nextValidatorsHash = true ∧
      validHash b.header.consensusHash = true ∧ validHash b.header.lastResultsHash = true := by
  unfold validateBasic
  grind (splits := 40)

theorem validateBasic_ok_iff (b : Block) : validateBasic b = .ok () ↔ BasicOK b := by
  rw [validateBasic_ok_iff_aux]
  simp only [validHash_iff, lastBlockIDBasic_ok_iff, commitShape_iff]
  constructor
  · rintro ⟨h1, h2, h3, h4, h5, h6, h7, h8, h9, h10, h11, h12, h13, h14⟩
    exact ⟨h1, h2, h3, h4, h5, h6, h8, h10, h7, h9, h11, h12, h13, h14⟩
  · rintro ⟨h1, h2, h3, h4, h5, h6, h8, h10, h7, h9, h11, h12, h13, h14⟩
    exact ⟨h1, h2, h3, h4, h5, h6, h7, h8, h9, h10, h11, h12, h13, h14⟩

/-- `Block.ValidateBasic` never returns one of `VerifyCommit`'s classes (in particular
nothing that stands for a panic). -/
theorem validateBasic_not_commit {b : Block} {e' : C36.Err} : validateBasic b ≠ .error (.commit e') := by
  intro h
  unfold validateBasic lastBlockIDBasic at h
  grind (splits := 60)

/-! ### HasAddress -/

theorem hasAddress_eq (vals : ValSet) (a : Nat) :
    hasAddress vals a = (C36.getByAddress vals a).isSome := by
  unfold hasAddress C36.getByAddress
  simp only []
  generalize sortSearch _ 0 vals.length = idx
  cases hv : vals[idx]? with
  | none => simp
  | some v => by_cases ha : v.addr = a <;> simp [ha]

theorem hasAddress_iff {vals : ValSet} (hv : C36.validSet vals = true) (a : Nat) :
    hasAddress vals a = true ↔ ∃ v ∈ vals, v.addr = a := by
  have hs := C36.sortedAddrs_pairwise ((C36.validSet_iff vals).1 hv).sorted
  rw [hasAddress_eq]
  constructor
  · intro h
    cases hg : C36.getByAddress vals a with
    | none => rw [hg] at h; cases h
    | some p =>
      obtain ⟨i, v⟩ := p
      have := (C36.getByAddress_some_iff hs a i v).1 hg
      exact ⟨v, List.mem_of_getElem? this.1, this.2⟩
  · rintro ⟨v, hv, ha⟩
    cases hg : C36.getByAddress vals a with
    | none => exact absurd ha (C36.getByAddress_none hs a hg v hv)
    | some p => rfl

/-! ### ValidateBlock -/

theorem toC36_length (c : Commit) : c.toC36.precommits.length = c.precommits.length := by
  simp [Commit.toC36]

theorem validateCommitAndTime_ok_iff {s : State} (hs : C36.validSet s.lastValidators = true)
    (b : Block) (c : Commit) :
    validateCommitAndTime s b c = .ok () ↔ LastCommitOK s b c := by
  have hv := (C36.validSet_iff _).1 hs
  have key := C36.verifyCommit_ok_iff_aux hv s.lastBlockID (wrap64 (b.header.height - 1)) c.toC36
  have hsize : C36.WellFormed s.lastValidators s.lastBlockID (wrap64 (b.header.height - 1)) c.toC36 →
      c.precommits.length = s.lastValidators.length := fun h => by
    have := h.size; rwa [toC36_length] at this
  unfold validateCommitAndTime LastCommitOK
  by_cases hg : b.header.height = s.initialHeight
  · simp only [hg, decide_true, if_true]
    by_cases hp : c.precommits = []
    · simp [hp]
    · have : c.precommits.length ≠ 0 := by simpa using hp
      simp [hp, this]
  · simp only [hg, decide_false, if_false]
    by_cases hsz : c.precommits.length = s.lastValidators.length
    · cases hvc : C36.verifyCommit s.lastValidators s.lastBlockID (wrap64 (b.header.height - 1)) c.toC36 with
      | error e =>
        have hn : ¬ (C36.WellFormed s.lastValidators s.lastBlockID (wrap64 (b.header.height - 1)) c.toC36 ∧
            3 * C36.signedPower s.lastValidators s.lastBlockID (wrap64 (b.header.height - 1)) c.toC36
              > 2 * C36.sumPowers s.lastValidators) := fun h => by
          rw [key.2 h] at hvc; cases hvc
        simp [hsz]
        intro h1 h2; exact absurd ⟨h1, h2⟩ hn
      | ok u =>
        have hy := key.1 (by rw [hvc])
        simp [hsz, hy.1, hy.2]
        grind
    · have hn : ¬ C36.WellFormed s.lastValidators s.lastBlockID (wrap64 (b.header.height - 1)) c.toC36 :=
        fun h => hsz (hsize h)
      simp [hsz, hn]
theorem validateBlock_ok_flat (s : State) (b : Block) :
    validateBlock s b = .ok () ↔
      s.initialHeight ≤ b.header.height ∧ validateBasic b = .ok () ∧
      b.header.version = s.blockVersion ∧ b.header.appVersion = s.appVersion ∧
      b.header.chainID = s.chainID ∧ b.header.height = wrap64 (s.lastBlockHeight + 1) ∧
      b.header.lastBlockID.id = s.lastBlockID ∧
      b.header.totalTxs = wrap64 (s.lastBlockTotalTx + (b.nTxs : Int)) ∧
      b.header.appHash = s.appHash ∧ b.header.consensusHash = s.consensusHashC ∧
      b.header.lastResultsHash = s.lastResultsHash ∧ b.header.validatorsHash = s.validatorsHashC ∧
      b.header.nextValidatorsHash = s.nextValidatorsHashC ∧
      (∃ c, b.lastCommit = some c ∧ validateCommitAndTime s b c = .ok ()) ∧
      hasAddress s.validators b.header.proposer = true := by
  unfold validateBlock
  grind (splits := 40)

theorem validateBlock_ok_iff_aux {s : State} (hs : StateOK s) (b : Block) :
    validateBlock s b = .ok () ↔ Valid s b := by
  rw [validateBlock_ok_flat]
  simp only [validateBasic_ok_iff, validateCommitAndTime_ok_iff hs.2, hasAddress_iff hs.1]
  constructor
  · rintro ⟨h1, h2, h3, h4, h5, h6, h7, h8, h9, h10, h11, h12, h13, h14, h15⟩
    exact ⟨h1, h2, h3, h4, h5, h6, h7, h8, h9, h10, h11, h12, h13, h14, h15⟩
  · rintro ⟨h1, h2, h3, h4, h5, h6, h7, h8, h9, h10, h11, h12, h13, h14, h15⟩
    exact ⟨h1, h2, h3, h4, h5, h6, h7, h8, h9, h10, h11, h12, h13, h14, h15⟩
/-! ### no panic -/

theorem validateCommitAndTime_commit_err {s : State} {b : Block} {c : Commit} {e' : C36.Err}
    (h : validateCommitAndTime s b c = .error (.commit e')) :
    C36.verifyCommit s.lastValidators s.lastBlockID (wrap64 (b.header.height - 1)) c.toC36 = .error e' := by
  unfold validateCommitAndTime at h
  grind (splits := 30)

theorem validateBlock_commit_err {s : State} {b : Block} {e' : C36.Err}
    (h : validateBlock s b = .error (.commit e')) :
    ∃ c, b.lastCommit = some c ∧
      C36.verifyCommit s.lastValidators s.lastBlockID (wrap64 (b.header.height - 1)) c.toC36 = .error e' := by
  have hb := @validateBasic_not_commit b e'
  have hc := fun c => @validateCommitAndTime_commit_err s b c e'
  unfold validateBlock at h
  grind (splits := 40)

theorem validateBlock_not_panic {s : State} (hs : StateOK s) (b : Block) (e : Err)
    (h : validateBlock s b = .error e) : e.isPanic = false := by
  cases e with
  | commit e' =>
    obtain ⟨c, _, hvc⟩ := validateBlock_commit_err h
    have hv := (C36.validSet_iff _).1 hs.2
    rw [C36.verifyCommit_eq_spec_aux hv] at hvc
    have := C36.spec_not_internal hvc
    cases e' <;> simp_all [Err.isPanic]
  | _ => rfl
/-! ### the weighted median -/

theorem totalWeight_cons (w : WT) (l : List WT) : totalWeight (w :: l) = w.weight + totalWeight l := by
  simp [totalWeight]

theorem weightUpTo_cons (w : WT) (l : List WT) (t : Int) :
    weightUpTo (w :: l) t = (if w.time ≤ t then w.weight else 0) + weightUpTo l t := by
  unfold weightUpTo
  by_cases h : w.time ≤ t <;> simp [h]

theorem weightUpTo_nonneg {l : List WT} (hp : ∀ w ∈ l, 0 < w.weight) (t : Int) : 0 ≤ weightUpTo l t := by
  induction l with
  | nil => simp [weightUpTo]
  | cons w ws ih =>
    rw [weightUpTo_cons]
    have := hp w (by simp)
    have := ih (fun x hx => hp x (by simp [hx]))
    split <;> omega

theorem totalWeight_nonneg {l : List WT} (hp : ∀ w ∈ l, 0 < w.weight) : 0 ≤ totalWeight l := by
  induction l with
  | nil => simp [totalWeight]
  | cons w ws ih =>
    rw [totalWeight_cons]
    have := hp w (by simp)
    have := ih (fun x hx => hp x (by simp [hx]))
    omega

theorem totalWeight_pos {l : List WT} (hp : ∀ w ∈ l, 0 < w.weight) (hne : l ≠ []) : 0 < totalWeight l := by
  cases l with
  | nil => exact absurd rfl hne
  | cons w ws =>
    rw [totalWeight_cons]
    have := hp w (by simp)
    have := totalWeight_nonneg (l := ws) (fun x hx => hp x (by simp [hx]))
    omega

/-- no element at or before `t` ⇒ weight 0 -/
theorem weightUpTo_eq_zero {l : List WT} {t : Int} (h : ∀ w ∈ l, t < w.time) : weightUpTo l t = 0 := by
  induction l with
  | nil => simp [weightUpTo]
  | cons w ws ih =>
    rw [weightUpTo_cons, ih (fun x hx => h x (by simp [hx]))]
    have := h w (by simp)
    split <;> omega

/-- The selection loop on a list sorted by time returns the weighted median. -/
theorem pickMedian_spec (l : List WT) (hs : l.Pairwise (fun a b => a.time ≤ b.time))
    (hp : ∀ w ∈ l, 0 < w.weight) (m : Int) (hm : m ≤ totalWeight l) (hne : l ≠ []) :
    (∃ w ∈ l, w.time = pickMedian l m) ∧ m ≤ weightUpTo l (pickMedian l m) ∧
    (∀ w ∈ l, w.time < pickMedian l m → weightUpTo l w.time < m) := by
  induction l generalizing m with
  | nil => exact absurd rfl hne
  | cons w ws ih =>
    have hw := hp w (by simp)
    have hps : ∀ x ∈ ws, 0 < x.weight := fun x hx => hp x (by simp [hx])
    have hmin : ∀ x ∈ ws, w.time ≤ x.time := (List.pairwise_cons.1 hs).1
    have hss := (List.pairwise_cons.1 hs).2
    unfold pickMedian
    by_cases hc : m ≤ w.weight
    · simp only [hc, if_true]
      refine ⟨⟨w, by simp, rfl⟩, ?_, ?_⟩
      · rw [weightUpTo_cons]
        have := weightUpTo_nonneg hps w.time
        simp; omega
      · intro x hx hlt
        rcases List.mem_cons.1 hx with rfl | hx
        · omega
        · have := hmin x hx; omega
    · simp only [hc, if_false]
      rw [totalWeight_cons] at hm
      have hne' : ws ≠ [] := by
        intro h; subst h; simp [totalWeight] at hm; omega
      obtain ⟨⟨y, hy, hyt⟩, hreach, hleast⟩ := ih hss hps (m - w.weight) (by omega) hne'
      have hwt : w.time ≤ pickMedian ws (m - w.weight) := by rw [← hyt]; exact hmin y hy
      refine ⟨⟨y, by simp [hy], hyt⟩, ?_, ?_⟩
      · rw [weightUpTo_cons]; simp [hwt]; omega
      · intro x hx hlt
        rcases List.mem_cons.1 hx with rfl | hx
        · rw [weightUpTo_cons]
          simp only [Int.le_refl, if_true]
          by_cases hex : ∃ z ∈ ws, z.time ≤ x.time
          · obtain ⟨z, hz, hzt⟩ := hex
            have : z.time = x.time := Int.le_antisymm hzt (hmin z hz)
            have := hleast z hz (by omega)
            rw [‹z.time = x.time›] at this
            omega
          · have : weightUpTo ws x.time = 0 := weightUpTo_eq_zero (fun z hz => by
              have : ¬ z.time ≤ x.time := fun h => hex ⟨z, hz, h⟩
              omega)
            omega
        · rw [weightUpTo_cons]
          have h1 := hmin x hx
          have h2 := hleast x hx hlt
          simp [h1]; omega

/-! insertion sort keeps members, weights, and sorts by time when `UnixNano()` does not wrap -/

theorem mem_insertWT (x : WT) (l : List WT) (w : WT) : w ∈ insertWT x l ↔ w = x ∨ w ∈ l := by
  induction l with
  | nil => simp [insertWT]
  | cons y ys ih =>
    unfold insertWT
    split
    · simp [ih]; grind
    · simp

theorem totalWeight_insertWT (x : WT) (l : List WT) : totalWeight (insertWT x l) = x.weight + totalWeight l := by
  induction l with
  | nil => simp [insertWT, totalWeight]
  | cons y ys ih =>
    unfold insertWT
    split
    · rw [totalWeight_cons, ih, totalWeight_cons]; omega
    · simp [totalWeight_cons]

theorem weightUpTo_insertWT (x : WT) (l : List WT) (t : Int) :
    weightUpTo (insertWT x l) t = weightUpTo (x :: l) t := by
  induction l with
  | nil => simp [insertWT]
  | cons y ys ih =>
    unfold insertWT
    split
    · rw [weightUpTo_cons, ih, weightUpTo_cons, weightUpTo_cons, weightUpTo_cons]; omega
    · rfl

theorem mem_sortWT (l : List WT) (w : WT) : w ∈ sortWT l ↔ w ∈ l := by
  induction l with
  | nil => simp [sortWT]
  | cons x xs ih => simp [sortWT, mem_insertWT, ih]

theorem totalWeight_sortWT (l : List WT) : totalWeight (sortWT l) = totalWeight l := by
  induction l with
  | nil => simp [sortWT]
  | cons x xs ih => simp [sortWT, totalWeight_insertWT, ih, totalWeight_cons]

theorem weightUpTo_sortWT (l : List WT) (t : Int) : weightUpTo (sortWT l) t = weightUpTo l t := by
  induction l with
  | nil => simp [sortWT]
  | cons x xs ih => simp [sortWT, weightUpTo_insertWT, weightUpTo_cons, ih]

theorem sorted_insertWT (x : WT) (l : List WT)
    (hs : l.Pairwise (fun a b => a.time ≤ b.time)) :
    (insertWT x l).Pairwise (fun a b => a.time ≤ b.time) := by
  induction l with
  | nil => simp [insertWT]
  | cons y ys ih =>
    have hmin := (List.pairwise_cons.1 hs).1
    unfold insertWT
    split
    · rename_i hlt
      refine List.pairwise_cons.2 ⟨?_, ih (List.pairwise_cons.1 hs).2⟩
      intro w hw
      rcases (mem_insertWT x ys w).1 hw with rfl | hw
      · omega
      · exact hmin w hw
    · rename_i hge
      refine List.pairwise_cons.2 ⟨?_, hs⟩
      intro w hw
      rcases List.mem_cons.1 hw with rfl | hw
      · omega
      · have := hmin w hw; omega

theorem sorted_sortWT (l : List WT) : (sortWT l).Pairwise (fun a b => a.time ≤ b.time) := by
  induction l with
  | nil => simp [sortWT]
  | cons x xs ih =>
    unfold sortWT
    exact sorted_insertWT x _ ih

/-- `WeightedMedian` returns the weighted median of its (non-nil) entries. -/
theorem weightedMedian_spec (l : List WT) (hp : ∀ w ∈ l, 0 < w.weight) (hne : l ≠ []) :
    IsWeightedMedian l (weightedMedian l (totalWeight l)) := by
  have hne' : sortWT l ≠ [] := by
    cases l with
    | nil => exact absurd rfl hne
    | cons x xs =>
      intro h
      have : x ∈ sortWT (x :: xs) := (mem_sortWT _ x).2 (by simp)
      rw [h] at this; cases this
  have htot := totalWeight_pos hp hne
  have hm : Int.tdiv (totalWeight l) 2 ≤ totalWeight (sortWT l) := by
    rw [totalWeight_sortWT, Int.tdiv_eq_ediv_of_nonneg (by omega)]; omega
  obtain ⟨⟨w, hw, hwt⟩, h2, h3⟩ := pickMedian_spec (sortWT l) (sorted_sortWT l)
    (fun w hw => hp w ((mem_sortWT l w).1 hw)) _ hm hne'
  unfold weightedMedian
  refine ⟨⟨w, (mem_sortWT l w).1 hw, hwt⟩, ?_, ?_⟩
  · rw [weightUpTo_sortWT] at h2; exact h2
  · intro x hx hlt
    have := h3 x ((mem_sortWT l x).2 hx) hlt
    rw [weightUpTo_sortWT] at this; exact this
/-! ### MedianTime -/

theorem slotTimes_nil (ps : List (Option Precommit)) : slotTimes [] ps = [] := by
  cases ps <;> rfl

theorem medianCollect_eq (ps : List (Option Precommit)) (vals : List Validator) (total : Int) (acc : List WT)
    (hp : ∀ v ∈ vals, 0 < v.power) (h0 : 0 ≤ total) (hb : total + C36.sumPowers vals ≤ C36.maxInt64) :
    medianCollect vals ps total acc =
      (total + totalWeight (slotTimes vals ps), acc.reverse ++ slotTimes vals ps) := by
  induction ps generalizing vals total acc with
  | nil => cases vals <;> simp [medianCollect, slotTimes, totalWeight]
  | cons o ps ih =>
    cases vals with
    | nil =>
      cases o with
      | none =>
        rw [medianCollect, ih [] total acc hp h0 hb]
        simp [slotTimes_nil]
      | some p =>
        rw [medianCollect, ih [] total acc hp h0 hb]
        simp [slotTimes_nil]
    | cons v vs =>
      have hv := hp v (by simp)
      have hps : ∀ x ∈ vs, 0 < x.power := fun x hx => hp x (by simp [hx])
      have hnn := C36.sumPowers_nonneg hps
      rw [C36.sumPowers_cons] at hb
      cases o with
      | none =>
        rw [medianCollect, ih vs total acc hps h0 (by omega)]
        simp [slotTimes]
      | some p =>
        have hw : wrap64 (total + v.power) = total + v.power :=
          C36.wrap64_id (by unfold C36.minInt64; omega) (by omega)
        rw [medianCollect, hw, ih vs (total + v.power) _ hps (by omega) (by omega)]
        simp [slotTimes, totalWeight_cons]
        omega

theorem medianTime_eq {vals : ValSet} (hv : C36.Valid vals) (c : Commit) :
    medianTime c vals =
      weightedMedian (slotTimes vals c.precommits) (totalWeight (slotTimes vals c.precommits)) := by
  unfold medianTime
  have hb : (0 : Int) + C36.sumPowers vals ≤ C36.maxInt64 := by
    have := hv.total; rw [C36.maxTotal_eq] at this; unfold C36.maxInt64; omega
  rw [medianCollect_eq c.precommits vals 0 [] hv.pos (by omega) hb]
  simp

theorem slotTimes_weight_pos {vals : List Validator} (hp : ∀ v ∈ vals, 0 < v.power)
    (ps : List (Option Precommit)) : ∀ w ∈ slotTimes vals ps, 0 < w.weight := by
  induction ps generalizing vals with
  | nil => cases vals <;> simp [slotTimes]
  | cons o ps ih =>
    cases vals with
    | nil => simp [slotTimes]
    | cons v vs =>
      have hps : ∀ x ∈ vs, 0 < x.power := fun x hx => hp x (by simp [hx])
      cases o with
      | none => simpa [slotTimes] using ih hps
      | some p =>
        intro w hw
        simp only [slotTimes, List.mem_cons] at hw
        rcases hw with rfl | hw
        · exact hp v (by simp)
        · exact ih hps w hw

theorem slotTimes_time_mem (vals : List Validator) (ps : List (Option Precommit)) :
    ∀ w ∈ slotTimes vals ps, ∃ p, some p ∈ ps ∧ p.ts = w.time := by
  induction ps generalizing vals with
  | nil => cases vals <;> simp [slotTimes]
  | cons o ps ih =>
    cases vals with
    | nil => simp [slotTimes]
    | cons v vs =>
      cases o with
      | none =>
        intro w hw
        simp only [slotTimes] at hw
        obtain ⟨p, hp, ht⟩ := ih vs w hw
        exact ⟨p, by simp [hp], ht⟩
      | some q =>
        intro w hw
        simp only [slotTimes, List.mem_cons] at hw
        rcases hw with rfl | hw
        · exact ⟨q, by simp, rfl⟩
        · obtain ⟨p, hp, ht⟩ := ih vs w hw
          exact ⟨p, by simp [hp], ht⟩

/-- no signed slot ⇒ nothing tallied. -/
theorem signedPower_eq_zero (B : Nat) (H : Int) (id : Nat) (ps : List (Option Precommit)) (vals : List Validator)
    (h : slotTimes vals ps = []) :
    C36.signedPower vals B H (Commit.toC36 ⟨id, ps⟩) = 0 := by
  unfold C36.signedPower Commit.toC36
  simp only []
  induction ps generalizing vals with
  | nil => simp
  | cons o ps ih =>
    cases vals with
    | nil => simp
    | cons v vs =>
      cases o with
      | none =>
        simp only [slotTimes] at h
        simpa [C36.countsFor] using ih vs h
      | some p => simp [slotTimes] at h
/-! ### histories -/

theorem stateOK_advance {s : State} (hs : StateOK s) (b : Block) (bid : Nat) (o : AppOut)
    (ho : C36.validSet o.validators = true) : StateOK (advance s b bid o) :=
  ⟨ho, hs.1⟩

theorem applyAll_some_iff (steps : List Step) (s : State) (hs : StateOK s)
    (ho : ∀ st ∈ steps, C36.validSet st.out.validators = true) (sN : State) :
    applyAll s steps = some sN ↔ Applied s steps ∧ sN = finalState s steps := by
  induction steps generalizing s with
  | nil => simp [applyAll, Applied, finalState, eq_comm]
  | cons st rest ih =>
    have ho' : ∀ x ∈ rest, C36.validSet x.out.validators = true := fun x hx => ho x (by simp [hx])
    have hst := ho st (by simp)
    unfold applyAll applyBlock Applied finalState
    cases hv : validateBlock s st.block with
    | error e =>
      have : ¬ Valid s st.block := fun h => by
        rw [(validateBlock_ok_iff_aux hs st.block).2 h] at hv; cases hv
      simp [this]
    | ok u =>
      have hval := (validateBlock_ok_iff_aux hs st.block).1 (by rw [hv])
      simp only []
      rw [ih _ (stateOK_advance hs _ _ _ hst) ho']
      simp [hval]
end GnoVerif.C32
