import GnoVerif.Spec.C51
import GnoVerif.Proofs.C51Map
/-! Helper lemmas for C51: consequences of the invariant, and the panic-free,
    wrap-free NORMAL FORM of every ledger operation on a ledger satisfying the
    invariant (`*_nf`).  Core only. -/
namespace GnoVerif.C51
set_option linter.unusedVariables false

theorem isI64_max : isI64 maxInt64 := by unfold isI64 minInt64 maxInt64; omega

theorem init_inv : Inv init := by
  refine ⟨?_, ?_, ?_, ?_, ?_, ?_, ?_, ?_⟩ <;> simp [init, keys, sumBalances, total, maxInt64]

section Inv
variable {L : Ledger} (h : Inv L)
include h

theorem Inv.bal_nonneg (a : Addr) : 0 ≤ balanceOf L a := getD0_nonneg h.balNonneg a

theorem Inv.bal_le_supply (a : Addr) : balanceOf L a ≤ L.totalSupply := by
  rw [h.supplySum]; exact getD0_le_total h.balKeys h.balNonneg a

theorem Inv.bal_pair {a b : Addr} (hne : b ≠ a) : balanceOf L a + balanceOf L b ≤ L.totalSupply := by
  rw [h.supplySum]; exact getD0_add_le_total h.balKeys h.balNonneg hne

theorem Inv.supply_nonneg : 0 ≤ L.totalSupply := by
  rw [h.supplySum]; exact total_nonneg h.balNonneg

theorem Inv.supply_i64 : isI64 L.totalSupply := by
  have := h.supply_nonneg; have := h.supplyMax
  unfold isI64 minInt64; unfold maxInt64 at *; omega

theorem Inv.bal_i64 (a : Addr) : isI64 (balanceOf L a) := by
  have := h.bal_nonneg a; have := h.bal_le_supply a; have := h.supplyMax
  unfold isI64 minInt64; unfold maxInt64 at *; omega

theorem Inv.alw_range (o s : Addr) : 0 ≤ allowance L o s ∧ allowance L o s ≤ maxInt64 := by
  unfold allowance getD0
  cases hf : find L.allowances (o, s) with
  | none => simp [maxInt64]
  | some v => simpa using h.alwRange _ (find_some_mem hf)

theorem Inv.alw_i64 (o s : Addr) : isI64 (allowance L o s) := by
  have := h.alw_range o s
  unfold isI64 minInt64; unfold maxInt64 at *; omega

/-- an invalid address never holds a balance -/
theorem Inv.bal_invalid {a : Addr} (ha : a.valid = false) : balanceOf L a = 0 := by
  unfold balanceOf getD0
  cases hf : find L.balances a with
  | none => rfl
  | some v =>
    have := h.balValid _ (find_some_mem hf)
    simp [ha] at this

/-- an allowance involving an invalid address is never stored -/
theorem Inv.alw_invalid {o s : Addr} (hv : o.valid = false ∨ s.valid = false) : allowance L o s = 0 := by
  unfold allowance getD0
  cases hf : find L.allowances (o, s) with
  | none => rfl
  | some v =>
    have := h.alwValid _ (find_some_mem hf)
    rcases hv with hv | hv <;> simp [hv] at this

end Inv

/-! ### normal forms -/

theorem mint_nf {L : Ledger} (h : Inv L) (a : Addr) {n : Int} (hn : isI64 n) :
    mint L a n =
      if !a.valid then (L, .err .invalidAddress)
      else if n < 0 then (L, .err .invalidAmount)
      else if n > maxInt64 - L.totalSupply then (L, .err .mintOverflow)
      else ({ L with totalSupply := L.totalSupply + n,
                     balances := set L.balances a (balanceOf L a + n) }, .ok) := by
  have hts := h.supply_i64
  have hts0 := h.supply_nonneg
  have hroom : sub64p maxInt64 L.totalSupply = some (maxInt64 - L.totalSupply) :=
    sub64p_some isI64_max hts (by unfold isI64 minInt64 maxInt64 at *; omega)
  unfold mint
  rw [hroom]
  by_cases hv : a.valid = true
  · by_cases hneg : n < 0
    · simp [hv, hneg]
    · by_cases hov : n > maxInt64 - L.totalSupply
      · simp [hv, hneg, hov]
      · have hsum : isI64 (L.totalSupply + n) := by
          unfold isI64 minInt64 maxInt64 at *; omega
        have hb := h.bal_i64 a
        have hble := h.bal_le_supply a
        have hb0 := h.bal_nonneg a
        have hadd : add64p (balanceOf L a) n = some (balanceOf L a + n) :=
          add64p_some hb hn (by unfold isI64 minInt64 maxInt64 at *; omega)
        have hbal : ∀ ts, balanceOf { L with totalSupply := ts } a = balanceOf L a := fun _ => rfl
        simp [hv, hneg, hov, hbal, hadd, wrap64_of_isI64 hsum]
  · simp [hv]

theorem burn_nf {L : Ledger} (h : Inv L) (a : Addr) {n : Int} (hn : isI64 n) :
    burn L a n =
      if !a.valid then (L, .err .invalidAddress)
      else if n < 0 then (L, .err .invalidAmount)
      else if balanceOf L a < n then (L, .err .insufficientBalance)
      else ({ L with totalSupply := L.totalSupply - n,
                     balances := put L.balances a (balanceOf L a - n) }, .ok) := by
  unfold put
  have hts := h.supply_i64
  have hb := h.bal_i64 a
  have hble := h.bal_le_supply a
  unfold burn
  by_cases hv : a.valid = true
  · by_cases hneg : n < 0
    · simp [hv, hneg]
    · by_cases hlt : balanceOf L a < n
      · simp [hv, hneg, hlt]
      · have h1 : sub64p L.totalSupply n = some (L.totalSupply - n) :=
          sub64p_some hts hn (by unfold isI64 minInt64 maxInt64 at *; omega)
        have h2 : sub64p (balanceOf L a) n = some (balanceOf L a - n) :=
          sub64p_some hb hn (by unfold isI64 minInt64 maxInt64 at *; omega)
        simp only [hv, hneg, hlt, h1, h2]
        by_cases hz : balanceOf L a - n = 0 <;> simp [hz]
  · simp [hv]

theorem transfer_nf {L : Ledger} (h : Inv L) (f t : Addr) {n : Int} (hn : isI64 n) :
    transfer L f t n =
      if !f.valid then (L, .err .invalidAddress)
      else if !t.valid then (L, .err .invalidAddress)
      else if f = t then (L, .err .cannotTransferToSelf)
      else if n < 0 then (L, .err .invalidAmount)
      else if balanceOf L f < n then (L, .err .insufficientBalance)
      else ({ L with balances := put (set L.balances t (balanceOf L t + n)) f (balanceOf L f - n) }, .ok) := by
  unfold put
  unfold transfer
  by_cases hvf : f.valid = true
  · by_cases hvt : t.valid = true
    · by_cases hft : f = t
      · simp [hvf, hvt, hft]
      · by_cases hneg : n < 0
        · simp [hvf, hvt, hft, hneg]
        · by_cases hlt : balanceOf L f < n
          · simp [hvf, hvt, hft, hneg, hlt]
          · have hbf := h.bal_i64 f
            have hbt := h.bal_i64 t
            have hpair := h.bal_pair (a := f) (b := t) (fun e => hft e.symm)
            have hmax := h.supplyMax
            have hbt0 := h.bal_nonneg t
            have h1 : add64p (balanceOf L t) n = some (balanceOf L t + n) :=
              add64p_some hbt hn (by unfold isI64 minInt64 maxInt64 at *; omega)
            have h2 : sub64p (balanceOf L f) n = some (balanceOf L f - n) :=
              sub64p_some hbf hn (by unfold isI64 minInt64 maxInt64 at *; omega)
            simp only [hvf, hvt, hft, hneg, hlt, h1, h2]
            by_cases hz : balanceOf L f - n = 0 <;> simp [hz]
    · simp [hvf, hvt]
  · simp [hvf]

theorem spendAllowance_nf {L : Ledger} (h : Inv L) (o s : Addr) {n : Int} (hn : isI64 n) :
    spendAllowance L o s n =
      if !o.valid || !s.valid then (L, .err .invalidAddress)
      else if n < 0 then (L, .err .invalidAmount)
      else if n = 0 then (L, .ok)
      else if allowance L o s < n then (L, .err .insufficientAllowance)
      else ({ L with allowances := put L.allowances (o, s) (allowance L o s - n) }, .ok) := by
  unfold put
  unfold spendAllowance
  by_cases hv : (!o.valid || !s.valid) = true
  · simp [hv]
  · by_cases hneg : n < 0
    · simp [hv, hneg]
    · by_cases hz : n = 0
      · simp [hv, hz]
      · by_cases hlt : allowance L o s < n
        · simp [hv, hneg, hz, hlt]
        · have ha := h.alw_i64 o s
          have h1 : sub64p (allowance L o s) n = some (allowance L o s - n) :=
            sub64p_some ha hn (by unfold isI64 minInt64 maxInt64 at *; omega)
          simp only [hv, hneg, hz, hlt, h1]
          by_cases hz2 : allowance L o s - n = 0 <;> simp [hz2, hz]

theorem approve_nf (L : Ledger) (o s : Addr) (n : Int) :
    approve L o s n =
      if !o.valid || !s.valid then (L, .err .invalidAddress)
      else if n < 0 then (L, .err .invalidAmount)
      else ({ L with allowances := set L.allowances (o, s) n }, .ok) := rfl

end GnoVerif.C51
