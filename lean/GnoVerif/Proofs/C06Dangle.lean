import GnoVerif.Proofs.C06Hist
/-!
C06 — the no-dangling clause for histories that never attach an object that is
already deleted: at every transaction boundary every slot of a counted object
points to a counted object (real, not deleted).  The dangling finding is
exactly the failure of that side condition.
-/
namespace GnoVerif.C06
open State

/-- a deleted object is not referenced -/
def DZ (s : State) : Prop := ∀ x, (s.get x).deleted = true → (s.get x).rc ≤ 0

/-- slots of objects allocated in this transaction (addresses from `n0` on) that have no id yet
    point neither to deleted objects nor to id-less objects of earlier transactions -/
def UD (n0 : Nat) (s : State) : Prop :=
  ∀ p, n0 ≤ p → p < s.heap.length → s.isReal p = false →
    ∀ c ∈ s.children p, (s.get c).deleted = false ∧ (s.isReal c = false → n0 ≤ c)

theorem SameCore.deleted {s s' : State} (h : SameCore s s') (x : Nat) : (s'.get x).deleted = (s.get x).deleted :=
  congrArg Core.deleted (h.2 x)

theorem SameCore.dz {s s' : State} (h : SameCore s s') (hd : DZ s) : DZ s' := by
  intro x hx
  rw [h.deleted] at hx
  rw [h.rc]; exact hd x hx

theorem SameCore.ud {s s' : State} {n0 : Nat} (h : SameCore s s') (hu : UD n0 s) : UD n0 s' := by
  intro p hn hp hr c hc
  rw [h.1] at hp
  rw [h.isReal] at hr
  rw [h.children] at hc
  rw [h.deleted, h.isReal]; exact hu p hn hp hr c hc

/-! ### the creating crawl -/

theorem deleted_incRc (s : State) (c x : Nat) : ((incRc s c).get x).deleted = (s.get x).deleted := by
  rw [get_incRc]
  split
  · rename_i h; rw [h.1]
  · rfl

theorem dz_incRc (s : State) (c : Nat) (hd : DZ s) (hc : (s.get c).deleted = false) : DZ (incRc s c) := by
  intro x hx
  rw [deleted_incRc] at hx
  rw [get_incRc]
  split
  · rename_i h; rw [h.1] at hx; rw [hc] at hx; exact absurd hx (by decide)
  · exact hd x hx

theorem ud_incRc (n0 : Nat) (s : State) (c : Nat) (hu : UD n0 s) : UD n0 (incRc s c) := by
  intro p hn hp hr x hx
  rw [show (incRc s c).heap.length = s.heap.length from length_modify _ _ _] at hp
  rw [isReal_incRc] at hr
  have : (incRc s c).children p = s.children p := by
    unfold State.children
    rw [get_incRc]
    split
    · rename_i h; rw [h.1]
    · rfl
  rw [this] at hx
  rw [deleted_incRc, isReal_incRc]; exact hu p hn hp hr x hx

/-- what the creating crawl keeps, beyond `Keeps`: the deleted flags (frozen as `D`), the objects
    that had an id when the crawl started (`R`) keep it and every other object with an id is fresh,
    DZ, UD -/
structure DU (n0 : Nat) (D R : Nat → Bool) (s : State) : Prop where
  frozen : ∀ x, (s.get x).deleted = D x
  realMono : ∀ x, R x = true → s.isReal x = true
  realFresh : ∀ x, s.isReal x = true → R x = true ∨ n0 ≤ x
  dz : DZ s
  ud : UD n0 s

theorem SameCore.du {s s' : State} {n0 : Nat} {D R : Nat → Bool} (h : SameCore s s') (hd : DU n0 D R s) : DU n0 D R s' :=
  ⟨fun x => by rw [h.deleted]; exact hd.frozen x, fun x hx => by rw [h.isReal]; exact hd.realMono x hx,
   fun x hx => hd.realFresh x (by rw [← h.isReal]; exact hx), h.dz hd.dz, h.ud hd.ud⟩

theorem incRefChild_du (n0 : Nat) (D R : Nat → Bool) (recur : State → Nat → State)
    (hrec : ∀ s c, DU n0 D R s → (n0 ≤ c ∨ R c = true) → DU n0 D R (recur s c))
    (r a : Nat) (s : State) (c : Nat) (h : DU n0 D R s) (hc : D c = false) (hf : n0 ≤ c ∨ R c = true) :
    DU n0 D R (incRefChild recur r a s c) := by
  have hcd : (s.get c).deleted = false := by rw [h.frozen]; exact hc
  have h1 : DU n0 D R (incRc s c) :=
    ⟨fun x => by rw [deleted_incRc]; exact h.frozen x, fun x hx => by rw [isReal_incRc]; exact h.realMono x hx,
     fun x hx => h.realFresh x (by rw [← isReal_incRc s c x]; exact hx), dz_incRc s c h.dz hcd, ud_incRc n0 s c h.ud⟩
  unfold incRefChild
  simp only []
  split
  · split
    · exact ((sameCore_setOwner _ _ _).trans (sameCore_markDirty _ _ _)).du h1
    · have sc : SameCore (incRc s c) ((setOwner (incRc s c) c (some a)).modify c fun o => { o with newReal := true }) :=
        (sameCore_setOwner _ _ _).trans (sameCore_modify _ _ _ (by intro o; rfl))
      exact hrec _ c (sc.du h1) hf
  · split
    · have sc1 : SameCore (incRc s c) (markDirty (incRc s c) r c) := sameCore_markDirty _ _ _
      split
      · exact sc1.du h1
      · exact (sc1.trans (sameCore_markNewEscaped (markDirty (incRc s c) r c) r c)).du h1
    · exact (sameCore_fail (incRc s c)).du h1

theorem incRef_fold_du (n0 : Nat) (D R : Nat → Bool) (recur : State → Nat → State)
    (hrec : ∀ s c, DU n0 D R s → (n0 ≤ c ∨ R c = true) → DU n0 D R (recur s c)) (r a : Nat) :
    ∀ (cs : List Nat) (s : State), DU n0 D R s → (∀ c ∈ cs, D c = false ∧ (n0 ≤ c ∨ R c = true)) →
      DU n0 D R (cs.foldl (incRefChild recur r a) s) := by
  intro cs
  induction cs with
  | nil => intro s h _; exact h
  | cons c cs ih =>
    intro s h hin
    simp only [List.foldl_cons]
    have hc := hin c List.mem_cons_self
    exact ih _ (incRefChild_du n0 D R recur hrec r a s c h hc.1 hc.2)
      (fun c' hc' => hin c' (List.mem_cons_of_mem _ hc'))

theorem deleted_assignId (s : State) (a x : Nat) : ((assignId s a).get x).deleted = (s.get x).deleted := by
  rw [get_assignId]
  split
  · rename_i h; rw [h.1]
  · rfl

theorem incRef_du (n0 : Nat) (D R : Nat → Bool) (r : Nat) :
    ∀ (fuel : Nat) (s : State) (a : Nat), DU n0 D R s → (n0 ≤ a ∨ R a = true) → DU n0 D R (incRef fuel s r a) := by
  intro fuel
  induction fuel with
  | zero => intro s a h _; exact (sameCore_fail s).du h
  | succ fuel ih =>
    intro s a h hfa
    rw [incRef_succ]
    split
    · exact h
    · rename_i hreal
      have hu : s.isReal a = false := by simpa using hreal
      have hn0 : n0 ≤ a := by
        rcases hfa with h1 | h1
        · exact h1
        · rw [h.realMono a h1] at hu; exact absurd hu (by decide)
      have sc := sameCore_modMarks (assignId s a) r fun m => { m with created := m.created ++ [a] }
      by_cases ha : a < s.heap.length
      · have hkids : ∀ c ∈ ((assignId s a).modMarks r fun m => { m with created := m.created ++ [a] }).children a,
            D c = false ∧ (n0 ≤ c ∨ R c = true) := by
          intro c hc
          rw [sc.children, children_assignId] at hc
          obtain ⟨hd, hfr⟩ := h.ud a hn0 ha hu c hc
          refine ⟨by rw [← h.frozen c]; exact hd, ?_⟩
          cases hrc : s.isReal c with
          | false => exact Or.inl (hfr hrc)
          | true => exact (h.realFresh c hrc).symm
        have h1 : DU n0 D R (assignId s a) := by
          refine ⟨fun x => by rw [deleted_assignId]; exact h.frozen x, fun x hx => ?_, fun x hx => ?_, fun x hx => ?_,
            fun p hn hp hr c hc => ?_⟩
          · rw [isReal_assignId s a x ha]
            by_cases hxa : x = a
            · simp [hxa]
            · simp only [hxa, if_false]; exact h.realMono x hx
          · rw [isReal_assignId s a x ha] at hx
            by_cases hxa : x = a
            · right; rw [hxa]; exact hn0
            · simp only [hxa, if_false] at hx; exact h.realFresh x hx
          · rw [deleted_assignId] at hx
            have : ((assignId s a).get x).rc = (s.get x).rc := by
              rw [get_assignId]
              split
              · rename_i hh; rw [hh.1]
              · rfl
            rw [this]; exact h.dz x hx
          · rw [length_assignId] at hp
            rw [children_assignId] at hc
            rw [deleted_assignId]
            rw [isReal_assignId s a p ha] at hr
            have hpa : p ≠ a := by intro e; simp [e] at hr
            simp only [hpa, if_false] at hr
            obtain ⟨hd, hfr⟩ := h.ud p hn hp hr c hc
            refine ⟨hd, fun hcr => ?_⟩
            rw [isReal_assignId s a c ha] at hcr
            by_cases hca : c = a
            · simp [hca] at hcr
            · simp only [hca, if_false] at hcr; exact hfr hcr
        exact incRef_fold_du n0 D R (fun s c => incRef fuel s r c) (fun s c hd hf => ih s c hd hf) r a _ _ (sc.du h1) hkids
      · -- out of range: nothing there
        have hlen : s.heap.length ≤ a := by omega
        have hnone : s.children a = [] := by
          unfold State.children; rw [get_default_of_ge s a hlen]; rfl
        have hsame : SameCore s ((assignId s a).modMarks r fun m => { m with created := m.created ++ [a] }) := by
          refine ⟨by simp, fun x => ?_⟩
          simp only [get_modMarks, get_assignId]
          have : ¬ (x = a ∧ a < s.heap.length) := fun hh => ha hh.2
          rw [if_neg this]
        rw [hsame.children, hnone]
        exact hsame.du h

theorem processNewCreated_du (n0 : Nat) (D R : Nat → Bool) (s : State) (r : Nat) (h : DU n0 D R s)
    (hm : ∀ a ∈ (s.marksOf r).newCreated, n0 ≤ a ∨ R a = true) : DU n0 D R (processNewCreated s r) := by
  unfold processNewCreated
  generalize (s.marksOf r).newCreated = l at hm
  induction l generalizing s with
  | nil => exact h
  | cons a l ih =>
    simp only [List.foldl_cons]
    apply ih
    · split
      · exact h
      · exact incRef_du n0 D R r _ s a h (hm a List.mem_cons_self)
    · exact fun a' ha' => hm a' (List.mem_cons_of_mem _ ha')

/-! ### the deleting crawl -/

theorem dz_decRefChild (recur : State → Nat → State) (hrec : ∀ s c, DZ s → (s.get c).rc ≤ 0 → DZ (recur s c)) (r : Nat)
    (s : State) (c : Nat) (h : DZ s) : DZ (decRefChild recur r s c) := by
  have h1 : DZ (decRc s c) := by
    intro x hx
    have hd : ((decRc s c).get x).deleted = (s.get x).deleted := by
      show ((s.modify c fun o => { o with rc := o.rc - 1 }).get x).deleted = _
      rw [get_modify]
      split
      · rename_i hh; rw [hh.1]
      · rfl
    rw [hd] at hx
    have := (shrink_decRc s c).2 x
    exact Int.le_trans this.2 (h x hx)
  unfold decRefChild
  simp only []
  split
  · rename_i hz
    exact hrec _ c h1 (by rw [hz]; exact Int.le_refl _)
  · split
    · exact (sameCore_markDirty _ r c).dz h1
    · exact (sameCore_fail _).dz h1

theorem dz_fold {α : Type} (f : State → α → State) (hf : ∀ s x, DZ s → DZ (f s x)) :
    ∀ (l : List α) (s : State), DZ s → DZ (l.foldl f s) := Stable.fold f hf

theorem dz_decRef (r : Nat) : ∀ (fuel : Nat) (s : State) (a : Nat), DZ s → (s.get a).rc ≤ 0 → DZ (decRef fuel s r a) := by
  intro fuel
  induction fuel with
  | zero => intro s a h _; exact (sameCore_fail s).dz h
  | succ fuel ih =>
    intro s a h hrc
    rw [decRef_succ]
    split
    · exact h
    · have h0 : DZ ((s.modify a delMark).modMarks r fun m => { m with deleted := m.deleted ++ [a] }) := by
        intro x hx
        rw [get_modMarks, get_delete] at hx ⊢
        by_cases hxa : x = a ∧ a < s.heap.length
        · rw [if_pos hxa]; exact hrc
        · rw [if_neg hxa] at hx ⊢; exact h x hx
      exact dz_fold _ (fun s c hd => dz_decRefChild _ (fun s c hd hr => ih s c hd hr) r s c hd) _ _ h0

theorem dz_processNewDeleted (s : State) (r : Nat) (h : DZ s) : DZ (processNewDeleted s r) := by
  unfold processNewDeleted
  apply dz_fold _ _ _ s h
  intro s a h
  split
  · exact (sameCore_modify s a _ (by intro o; rfl)).dz h
  · rename_i hrc
    exact dz_decRef r _ s a h (by omega)

/-- after FinalizeRealmTransaction a deleted object is not referenced -/
theorem finalize_dz (s : State) (r : Nat) (h : PreFinal s r) (n0 : Nat) (D R : Nat → Bool) (hd : DU n0 D R s)
    (hm : ∀ a ∈ (s.marksOf r).newCreated, n0 ≤ a ∨ R a = true) : DZ (finalize s r) := by
  obtain ⟨hnur, _, _⟩ := processNewCreated_strong r (s.marksOf r).newCreated s h.wf h.created_in_range h.unreal_marked
  have e : processNewCreated s r = List.foldl (fun s a => if (s.get a).rc = 0 then s else incRef s.fuelFor s r a) s
      (s.marksOf r).newCreated := rfl
  rw [← e] at hnur
  have h1 := (processNewCreated_du n0 D R s r hd hm).dz
  have h2 := dz_processNewDeleted _ r h1
  have hn2 := (shrink_processNewDeleted (processNewCreated s r) r).nur hnur
  have sc3 : SameCore (processNewDeleted (processNewCreated s r) r)
      (processNewEscaped (processNewDeleted (processNewCreated s r) r) r) :=
    processNewEscapedLoop_sameCore r _ _ 0 hn2
  have sc := sc3.trans ((sameCore_markDirtyAncestors _ r).trans
    ((sameCore_saveUnsaved _ r).trans ((sameCore_removeDeleted _ r).trans (sameCore_clearMarks _ r))))
  exact sc.dz h2

/-- exact counts, nothing unreal referenced, nothing deleted referenced ⇒ no dangling slot -/
def NoDangling (s : State) : Prop :=
  ∀ p, p < s.heap.length → counted (s.get p) = true → ∀ c ∈ s.children p, counted (s.get c) = true

theorem noDangling_of (s : State) (hw : WF s) (hr : RCI s fun _ => 0) (hn : NUR s) (hd : DZ s) : NoDangling s := by
  intro p hp hcnt c hmem
  have hreal := closed_of_nur s hr hw hn p hp hcnt c hmem
  have hc : c < s.heap.length := hw.kids_in_range p hp c hmem
  have h1 : (s.get c).rc + 0 = refs s c + pinned (s.get c) := hr c hc
  have h2 : (1 : Int) ≤ contrib (s.get p) c := by
    simp only [contrib, hcnt, if_true]
    rw [count_children]
    have : 0 < (s.children p).count c := List.count_pos_iff.2 hmem
    omega
  have h3 : contrib (s.get p) c ≤ refs s c :=
    sumTo_ge_term s.heap.length (fun q => contrib (s.get q) c) (fun q => contrib_nonneg _ _) p hp
  have h4 := pinned_nonneg (s.get c)
  have hnd : (s.get c).deleted = false := by
    cases hdel : (s.get c).deleted with
    | false => rfl
    | true => have := hd c hdel; omega
  simp only [State.isReal] at hreal
  simp [counted, hreal, hnd]

/-! ### writes: what DidUpdate does to DZ, UD and the new-created list -/

/-- same size; slots, ids and deleted flags of every object unchanged -/
def Frame (s s' : State) : Prop :=
  s'.heap.length = s.heap.length ∧
  ∀ x, (s'.get x).kids = (s.get x).kids ∧ (s'.get x).time = (s.get x).time ∧ (s'.get x).deleted = (s.get x).deleted

theorem Frame.refl (s : State) : Frame s s := ⟨rfl, fun _ => ⟨rfl, rfl, rfl⟩⟩

theorem Frame.trans {s1 s2 s3 : State} (h1 : Frame s1 s2) (h2 : Frame s2 s3) : Frame s1 s3 :=
  ⟨h2.1.trans h1.1, fun x => ⟨(h2.2 x).1.trans (h1.2 x).1, (h2.2 x).2.1.trans (h1.2 x).2.1, (h2.2 x).2.2.trans (h1.2 x).2.2⟩⟩

theorem SameCore.frame {s s' : State} (h : SameCore s s') : Frame s s' :=
  ⟨h.1, fun x => ⟨congrArg Core.kids (h.2 x), congrArg Core.time (h.2 x), congrArg Core.deleted (h.2 x)⟩⟩

theorem frame_modify_rc (s : State) (c : Nat) (g : Int → Int) : Frame s (s.modify c fun o => { o with rc := g o.rc }) := by
  refine ⟨length_modify _ _ _, fun x => ?_⟩
  rw [get_modify]
  split
  · rename_i h; rw [h.1]; exact ⟨rfl, rfl, rfl⟩
  · exact ⟨rfl, rfl, rfl⟩

theorem Frame.isReal {s s' : State} (h : Frame s s') (x : Nat) : s'.isReal x = s.isReal x := by
  unfold State.isReal; rw [(h.2 x).2.1]

theorem Frame.children {s s' : State} (h : Frame s s') (x : Nat) : s'.children x = s.children x := by
  unfold State.children; rw [(h.2 x).1]

theorem Frame.ud {s s' : State} {n0 : Nat} (h : Frame s s') (hu : UD n0 s) : UD n0 s' := by
  intro p hn hp hr c hc
  rw [h.1] at hp
  rw [h.isReal] at hr
  rw [h.children] at hc
  rw [(h.2 c).2.2, h.isReal]; exact hu p hn hp hr c hc

theorem frame_didUpdateCo (s : State) (r po c : Nat) : Frame s (didUpdateCo s r po c) :=
  (frame_modify_rc s c (· + 1)).trans (sameCore_didUpdateCo_after s r po c).frame

theorem frame_didUpdateXo (s : State) (r x : Nat) : Frame s (didUpdateXo s r x) :=
  (frame_modify_rc s x (· - 1)).trans (sameCore_didUpdateXo_after s r x).frame

theorem dz_didUpdateCo (s : State) (r po c : Nat) (h : DZ s) (hc : (s.get c).deleted = false) :
    DZ (didUpdateCo s r po c) :=
  (sameCore_didUpdateCo_after s r po c).dz (dz_incRc s c h hc)

theorem dz_decRc (s : State) (c : Nat) (h : DZ s) : DZ (decRc s c) := by
  intro x hx
  have hd : ((decRc s c).get x).deleted = (s.get x).deleted := ((frame_modify_rc s c (· - 1)).2 x).2.2
  rw [hd] at hx
  exact Int.le_trans ((shrink_decRc s c).2 x).2 (h x hx)

theorem dz_didUpdateXo (s : State) (r x : Nat) (h : DZ s) : DZ (didUpdateXo s r x) :=
  (sameCore_didUpdateXo_after s r x).dz (dz_decRc s x h)

/-- the objects that a step marks new-real: only `c`, and only if it has no id -/
def AddsOnly (s s' : State) (r : Nat) (c : Option Nat) : Prop :=
  ∀ a ∈ (s'.marksOf r).newCreated, a ∈ (s.marksOf r).newCreated ∨ (c = some a ∧ s.isReal a = false)

theorem addsOnly_of_eq {s s' : State} {r : Nat} (c : Option Nat) (h : (s'.marksOf r).newCreated = (s.marksOf r).newCreated) :
    AddsOnly s s' r c := fun a ha => Or.inl (by rw [← h]; exact ha)

theorem quiet_markNewDeleted (s : State) (r a : Nat) (hr : r < s.marks.length) :
    (( markNewDeleted s r a).marksOf r).newCreated = (s.marksOf r).newCreated := by
  unfold markNewDeleted
  split
  · rfl
  · rw [marksOf_modMarks_lt _ _ _ (by simpa using hr)]; rfl

theorem addsOnly_didUpdateCo (s : State) (r po c : Nat) (hr : r < s.marks.length) :
    AddsOnly s (didUpdateCo s r po c) r (some c) := by
  unfold didUpdateCo
  simp only []
  have q1 : ∃ s1, s1 = (if ((incRc s c).get c).rc > 1 ∧ ¬ ((incRc s c).get c).escaped = true
      then markNewEscaped (incRc s c) r c else incRc s c) ∧ Quiet (incRc s c) s1 r := by
    refine ⟨_, rfl, ?_⟩
    split
    · exact quiet_markNewEscaped _ r c hr
    · exact Quiet.refl _ r
  obtain ⟨s1, hs1, q1⟩ := q1
  rw [← hs1]
  have e1 : (s1.marksOf r).newCreated = (s.marksOf r).newCreated := q1.newCreated
  split
  · have q2 := quiet_markDirty s1 r c (by rw [q1.marksLen]; exact hr)
    exact addsOnly_of_eq _ (q2.newCreated.trans e1)
  · rename_i hreal
    have hu : s.isReal c = false := by
      have : s1.isReal c = false := by simpa using hreal
      rw [q1.core.isReal, isReal_incRc] at this; exact this
    intro a ha
    unfold markNewReal at ha
    split at ha
    · left; rw [← e1]; exact ha
    · rw [marksOf_modMarks_lt _ _ _ (by
        show r < (setOwner s1 c (some po)).marks.length
        rw [show (setOwner s1 c (some po)).marks.length = s1.marks.length from rfl, q1.marksLen]; exact hr)] at ha
      simp only [List.mem_append, List.mem_singleton] at ha
      rcases ha with h | h
      · left; rw [← e1]; exact h
      · right; rw [h]; exact ⟨rfl, hu⟩

theorem newCreated_didUpdateXo (s : State) (r x : Nat) (hr : r < s.marks.length) :
    ((didUpdateXo s r x).marksOf r).newCreated = (s.marksOf r).newCreated := by
  unfold didUpdateXo
  simp only []
  have hl : (decRc s x).marks.length = s.marks.length := rfl
  split
  · split
    · exact quiet_markNewDeleted _ r x (by rw [hl]; exact hr)
    · rfl
  · split
    · exact (quiet_markDirty _ r x (by rw [hl]; exact hr)).newCreated
    · rfl

theorem marksLength_didUpdateCo (s : State) (r po c : Nat) : (didUpdateCo s r po c).marks.length = s.marks.length :=
  (prim_marksLength s.marks.length).keepDidUpdateCo s r po c rfl

/-- DidUpdate, all at once -/
theorem didUpdate_dangle (s : State) (r po : Nat) (xo co : Option Nat) (n0 : Nat) (hr : r < s.marks.length)
    (hd : DZ s) (hco : ∀ c, co = some c → (s.get c).deleted = false) :
    DZ (didUpdate s r po xo co) ∧ Frame s (didUpdate s r po xo co) ∧ AddsOnly s (didUpdate s r po xo co) r co := by
  by_cases hreal : s.isReal po = true
  · by_cases hp : (s.get po).pkg = r
    · have q0 := quiet_markDirty s r po hr
      have f0 : Frame s (markDirty s r po) := q0.core.frame
      have d0 : DZ (markDirty s r po) := q0.core.dz hd
      have e0 : ((markDirty s r po).marksOf r).newCreated = (s.marksOf r).newCreated := q0.newCreated
      cases co with
      | none =>
        cases xo with
        | none =>
          have e : didUpdate s r po none none = markDirty s r po := by simp [didUpdate, hreal, hp]
          rw [e]; exact ⟨d0, f0, addsOnly_of_eq _ e0⟩
        | some x =>
          have e : didUpdate s r po (some x) none = didUpdateXo (markDirty s r po) r x := by
            simp [didUpdate, hreal, hp]
          rw [e]
          exact ⟨dz_didUpdateXo _ r x d0, f0.trans (frame_didUpdateXo _ r x),
            addsOnly_of_eq _ ((newCreated_didUpdateXo _ r x (by rw [q0.marksLen]; exact hr)).trans e0)⟩
      | some c =>
        have hcd : ((markDirty s r po).get c).deleted = false := by rw [(f0.2 c).2.2]; exact hco c rfl
        have d1 := dz_didUpdateCo _ r po c d0 hcd
        have f1 := f0.trans (frame_didUpdateCo (markDirty s r po) r po c)
        have a1 : AddsOnly s (didUpdateCo (markDirty s r po) r po c) r (some c) := by
          intro a ha
          rcases addsOnly_didUpdateCo (markDirty s r po) r po c (by rw [q0.marksLen]; exact hr) a ha with h | h
          · left; rw [← e0]; exact h
          · right; exact ⟨h.1, by rw [← f0.isReal]; exact h.2⟩
        cases xo with
        | none =>
          have e : didUpdate s r po none (some c) = didUpdateCo (markDirty s r po) r po c := by
            simp [didUpdate, hreal, hp]
          rw [e]; exact ⟨d1, f1, a1⟩
        | some x =>
          have e : didUpdate s r po (some x) (some c) = didUpdateXo (didUpdateCo (markDirty s r po) r po c) r x := by
            simp [didUpdate, hreal, hp]
          rw [e]
          refine ⟨dz_didUpdateXo _ r x d1, f1.trans (frame_didUpdateXo _ r x), ?_⟩
          intro a ha
          rw [newCreated_didUpdateXo _ r x (by rw [marksLength_didUpdateCo, q0.marksLen]; exact hr)] at ha
          exact a1 a ha
    · have e : didUpdate s r po xo co = s.fail := by simp [didUpdate, hreal, hp]
      rw [e]; exact ⟨(sameCore_fail s).dz hd, (sameCore_fail s).frame, addsOnly_of_eq _ rfl⟩
  · have hreal' : s.isReal po = false := by simpa using hreal
    have e : didUpdate s r po xo co = s := by simp [didUpdate, hreal']
    rw [e]; exact ⟨hd, Frame.refl s, addsOnly_of_eq _ rfl⟩

/-! ### transactions that never attach a deleted object -/

/-- the in-transaction invariant of the no-dangling argument; `n0` = heap size when the
    transaction started -/
structure InTx2 (n0 : Nat) (s : State) (r : Nat) : Prop where
  base : InTx s r
  start : n0 ≤ s.heap.length
  dz : DZ s
  ud : UD n0 s
  /-- only fresh or real objects are marked new-real -/
  marked : ∀ a ∈ (s.marksOf r).newCreated, n0 ≤ a ∨ s.isReal a = true

/-- the value `v` may be attached: it is not deleted and, if it has no id, it was allocated in this transaction -/
def attachable (n0 : Nat) (s : State) (v : Option Nat) : Prop :=
  ∀ c, v = some c → (s.get c).deleted = false ∧ (s.isReal c = false → n0 ≤ c)

def Op.valid2 (n0 : Nat) (s : State) (r : Nat) : Op → Prop
  | .alloc k p kids => (Op.alloc k p kids).valid s r ∧ ∀ c, some c ∈ kids → c < s.heap.length → attachable n0 s (some c)
  | .write w => (Op.write w).valid s r ∧ attachable n0 s w.v

def validOps2 (n0 : Nat) (s : State) (r : Nat) : List Op → Prop
  | [] => True
  | op :: rest => op.valid2 n0 s r ∧ validOps2 n0 (op.apply s r) r rest

theorem validOps2_validOps (n0 : Nat) (r : Nat) : ∀ (ops : List Op) (s : State), validOps2 n0 s r ops → validOps s r ops := by
  intro ops
  induction ops with
  | nil => intro s _; trivial
  | cons op ops ih =>
    intro s h
    refine ⟨?_, ih _ h.2⟩
    cases op with
    | alloc k p kids => exact h.1.1
    | write w => exact h.1.1

theorem alloc_inTx2 (n0 : Nat) (s : State) (r : Nat) (k : Kind) (p : Nat) (kids : List (Option Nat))
    (h : InTx2 n0 s r) (hv : (Op.alloc k p kids).valid2 n0 s r) : InTx2 n0 (allocObj s k p kids) r := by
  obtain ⟨hv1, hv2⟩ := hv
  have hget := get_alloc s k p kids
  have hold : ∀ x, x < s.heap.length → (allocObj s k p kids).get x = s.get x := fun x hx => by rw [hget]; simp [hx]
  have hnew : (allocObj s k p kids).get s.heap.length = freshObj k p kids := by rw [hget]; simp
  have hbig : ∀ x, s.heap.length < x → (allocObj s k p kids).get x = default := fun x hx => by
    rw [hget]; simp [Nat.not_lt.2 (Nat.le_of_lt hx), Nat.ne_of_gt hx]
  have hdef : ∀ x, s.heap.length ≤ x → s.get x = default := fun x hx => get_default_of_ge s x hx
  have hreal : ∀ x, (allocObj s k p kids).isReal x = s.isReal x := by
    intro x
    unfold State.isReal
    rcases Nat.lt_trichotomy x s.heap.length with hx | hx | hx
    · rw [hold x hx]
    · subst hx; rw [hnew, hdef _ (Nat.le_refl _)]; rfl
    · rw [hbig x hx, hdef x (Nat.le_of_lt hx)]
  have hdel : ∀ x, ((allocObj s k p kids).get x).deleted = (s.get x).deleted := by
    intro x
    rcases Nat.lt_trichotomy x s.heap.length with hx | hx | hx
    · rw [hold x hx]
    · subst hx; rw [hnew, hdef _ (Nat.le_refl _)]; rfl
    · rw [hbig x hx, hdef x (Nat.le_of_lt hx)]
  have hrc : ∀ x, ((allocObj s k p kids).get x).rc = (s.get x).rc := by
    intro x
    rcases Nat.lt_trichotomy x s.heap.length with hx | hx | hx
    · rw [hold x hx]
    · subst hx; rw [hnew, hdef _ (Nat.le_refl _)]; rfl
    · rw [hbig x hx, hdef x (Nat.le_of_lt hx)]
  refine ⟨alloc_inTx s r k p kids h.base hv1.1 hv1.2, by rw [length_alloc]; exact Nat.le_succ_of_le h.start,
    fun x hx => by rw [hdel] at hx; rw [hrc]; exact h.dz x hx, ?_, fun a ha => ?_⟩
  · intro q hn hq hr c hc
    rw [length_alloc] at hq
    rw [hreal] at hr
    rw [hdel, hreal]
    unfold State.children at hc
    rcases Nat.lt_or_ge q s.heap.length with hlt | hge
    · rw [hold q hlt] at hc
      exact h.ud q hn hlt hr c hc
    · have : q = s.heap.length := by omega
      subst this
      rw [hnew] at hc
      simp only [freshObj, List.mem_filterMap, id_eq] at hc
      obtain ⟨o, ho, he⟩ := hc
      subst he
      have hcr := hv1.2 c ho
      rcases Nat.lt_or_ge c s.heap.length with hcl | hcg
      · exact hv2 c ho hcl c rfl
      · have : c = s.heap.length := by omega
        subst this
        rw [hdef _ (Nat.le_refl _)]
        exact ⟨rfl, fun _ => hn⟩
  · rw [hreal]; exact h.marked a ha

theorem assign_inTx2 (n0 : Nat) (s : State) (r : Nat) (w : Write) (h : InTx2 n0 s r)
    (hv : (Op.write w).valid2 n0 s r) : InTx2 n0 (assign s r w.po w.i w.v) r := by
  obtain ⟨hv1, hv2⟩ := hv
  have hbase := assign_inTx s r w h.base hv1
  have sh := sameShape_assign s r w.po w.i w.v
  -- the slot write
  have hslot : Frame s (setSlot s w.po w.i w.v) → False → True := fun _ _ => trivial
  have hdel0 : ∀ x, ((setSlot s w.po w.i w.v).get x).deleted = (s.get x).deleted := by
    intro x
    rw [get_setSlot]
    split
    · rename_i hh; rw [hh.1]
    · rfl
  have hrc0 : ∀ x, ((setSlot s w.po w.i w.v).get x).rc = (s.get x).rc := by
    intro x
    rw [get_setSlot]
    split
    · rename_i hh; rw [hh.1]
    · rfl
  have dz0 : DZ (setSlot s w.po w.i w.v) := fun x hx => by rw [hdel0] at hx; rw [hrc0]; exact h.dz x hx
  have ud0 : UD n0 (setSlot s w.po w.i w.v) := by
    intro q hn hq hr c hc
    rw [length_setSlot] at hq
    rw [isReal_setSlot] at hr
    rw [hdel0, isReal_setSlot]
    rw [mem_children_iff, get_setSlot] at hc
    by_cases hqa : q = w.po ∧ w.po < s.heap.length
    · rw [if_pos hqa] at hc
      simp only at hc
      rcases List.mem_or_eq_of_mem_set hc with hm | he
      · exact h.ud q hn hq hr c (by rw [hqa.1]; exact (mem_children_iff s w.po c).2 hm)
      · exact hv2 c he.symm
    · rw [if_neg hqa] at hc
      exact h.ud q hn hq hr c ((mem_children_iff s q c).2 hc)
  have hco : ∀ c, w.v = some c → ((setSlot s w.po w.i w.v).get c).deleted = false := fun c hc => by
    rw [hdel0]; exact (hv2 c hc).1
  obtain ⟨d1, f1, a1⟩ := didUpdate_dangle (setSlot s w.po w.i w.v) r w.po (slot s w.po w.i) w.v n0
    (by exact h.base.marks.realm) dz0 hco
  refine ⟨hbase, by rw [sh.1]; exact h.start, ?_, ?_, ?_⟩
  · exact d1
  · exact f1.ud ud0
  · intro a ha
    have hr : ∀ x, (assign s r w.po w.i w.v).isReal x = s.isReal x := by
      intro x; unfold State.isReal; rw [(sh.2 x).2.2.2]
    rw [hr]
    rcases a1 a ha with hm | hm
    · exact h.marked a hm
    · obtain ⟨hva, hua⟩ := hm
      rw [isReal_setSlot] at hua
      exact Or.inl ((hv2 a hva).2 hua)

theorem runOps_inTx2 (n0 r : Nat) : ∀ (ops : List Op) (s : State), InTx2 n0 s r → validOps2 n0 s r ops →
    InTx2 n0 (runOps s r ops) r := by
  intro ops
  induction ops with
  | nil => intro s h _; exact h
  | cons op ops ih =>
    intro s h hv
    apply ih _ _ hv.2
    cases op with
    | alloc k p kids => exact alloc_inTx2 n0 s r k p kids h hv.1
    | write w => exact assign_inTx2 n0 s r w h hv.1

/-- the boundary invariant of the no-dangling argument -/
structure Quiescent2 (s : State) (r : Nat) : Prop where
  base : Quiescent s r
  dz : DZ s

theorem Quiescent2.inTx2 {s : State} {r : Nat} (h : Quiescent2 s r) : InTx2 s.heap.length s r := by
  refine ⟨h.base.inTx, Nat.le_refl _, h.dz, fun p hn hp => by omega, fun a ha => ?_⟩
  rw [h.base.marks] at ha; cases ha

def validHistory2 (s : State) (r : Nat) : List (List Op) → Prop
  | [] => True
  | tx :: rest => validOps2 s.heap.length s r tx ∧ validHistory2 (commitTx s r tx) r rest

theorem validHistory2_cons (s : State) (r : Nat) (tx : List Op) (txs : List (List Op)) :
    validHistory2 s r (tx :: txs) = (validOps2 s.heap.length s r tx ∧ validHistory2 (commitTx s r tx) r txs) := by
  simp only [validHistory2]

theorem commitTx_quiescent2 (s : State) (r : Nat) (ops : List Op) (h : Quiescent2 s r)
    (hv : validOps2 s.heap.length s r ops) : Quiescent2 (commitTx s r ops) r := by
  have hq := commitTx_quiescent s r ops h.base (validOps2_validOps _ r ops s hv)
  have hin := runOps_inTx2 s.heap.length r ops s h.inTx2 hv
  have hpf := inTx_preFinal hin.base
  have hdz := finalize_dz (runOps s r ops) r hpf s.heap.length (fun x => ((runOps s r ops).get x).deleted)
    (fun x => (runOps s r ops).isReal x)
    ⟨fun _ => rfl, fun _ hx => hx, fun _ hx => Or.inl hx, hin.dz, hin.ud⟩
    (fun a ha => by
      rcases hin.marked a ha with hh | hh
      · exact Or.inl hh
      · exact Or.inr hh)
  refine ⟨hq, ?_⟩
  unfold commitTx
  generalize finalize (runOps s r ops) r = sf at hdz ⊢
  show DZ (if sf.err = true then s else endTx sf)
  split
  · exact h.dz
  · exact (sameCore_endTx sf).dz hdz

theorem runHistory_quiescent2 (r : Nat) : ∀ (txs : List (List Op)) (s : State), Quiescent2 s r → validHistory2 s r txs →
    Quiescent2 (runHistory s r txs) r := by
  intro txs
  induction txs with
  | nil => intro s h _; exact h
  | cons tx txs ih =>
    intro s h hv
    rw [runHistory_cons]
    rw [validHistory2_cons] at hv
    exact ih (commitTx s r tx) (commitTx_quiescent2 s r tx h hv.1) hv.2

/-- at a boundary of such a history no slot of a counted object dangles -/
theorem Quiescent2.noDangling {s : State} {r : Nat} (h : Quiescent2 s r) : NoDangling s :=
  noDangling_of s h.base.wf h.base.rci h.base.nur h.dz

end GnoVerif.C06
