/-
Proofs.C23Iter — the stack iterator of iterator.go enumerates exactly
`OMap.range` of the tree's contents (ascending and descending, any bounds,
with early stop).

Method.  An iterator without the far bound (`end` when ascending, `start`
when descending) is described by the list of entries it still has to deliver:
the rest of the current leaf followed by, for every stack frame from the top,
the children right of (ascending) / left of (descending) the frame's position.
`descendLeft`/`nextLeaf`/`seekFirst` (and their mirror images) are shown to
produce exactly that list; the far bound is a `checkEnd`/`checkStart` applied
on top (`*_check` lemmas), which turns the enumeration into a `takeWhile`; on a
sorted list `takeWhile (< end) ∘ dropWhile (< start)` is the range filter.
Non-empty leaves (from `Occ`) are essential: `descendLeft` declares the
iterator valid at index 0 of whatever leaf it reaches.
-/
import GnoVerif.Proofs.C23Versions

namespace GnoVerif.C23
open GnoVerif

/-! ### non-empty nodes -/

/-- every leaf below is non-empty and every inner node has `numKeys + 1` children. -/
def NE : (k : Nat) → Node k → Prop
  | 0, (l : Leaf) => l.es ≠ []
  | k + 1, (n : Inner (Node k)) => n.kids.length = n.keys.length + 1 ∧ ∀ c ∈ n.kids, NE k c

theorem NE_of_ord_occ {B : Nat} : ∀ {k : Nat} {c : Node k} {lo hi : Option Key},
    Ord k c lo hi → Occ B k c → NE k c
  | 0, c, _, _, _, ho => by
    have : 1 ≤ (c : Leaf).es.length := ho.1
    show (c : Leaf).es ≠ []
    intro h0; rw [h0] at this; simp at this
  | k + 1, c, _, _, hord, ho => by
    refine ⟨hord.1.length_eq, ?_⟩
    intro d hd
    obtain ⟨lo', hi', hd'⟩ := hord.1.forall_mem d hd
    exact NE_of_ord_occ hd' (ho.2.2 d hd)

theorem NE.abs_ne_nil : ∀ {k : Nat} {c : Node k}, NE k c → abs k c ≠ []
  | 0, _, h => h
  | k + 1, c, h => by
    obtain ⟨hlen, hall⟩ := h
    match hk : (c : Inner (Node k)).kids, hlen, hall with
    | [], hlen, _ => simp at hlen
    | d :: ds, _, hall =>
      show flat k (c : Inner (Node k)).kids ≠ []
      rw [hk, flat_cons]
      intro h0
      exact (NE.abs_ne_nil (hall d (by simp))) (List.append_eq_nil_iff.1 h0).1

/-! ### the far-bound check commutes with everything -/

@[simp] theorem checkEnd_none (it : Iter) : it.checkEnd none = it := rfl
@[simp] theorem checkStart_none (it : Iter) : it.checkStart none = it := rfl

@[simp] theorem checkEnd_invalid (e : Option Key) : Iter.invalid.checkEnd e = Iter.invalid := by
  cases e <;> simp [Iter.checkEnd, Iter.invalid]

@[simp] theorem checkStart_invalid (s : Option Key) : Iter.invalid.checkStart s = Iter.invalid := by
  cases s <;> simp [Iter.checkStart, Iter.invalid]

theorem descendLeft_check (e : Option Key) : ∀ (k : Nat) (c : Node k) (stk : Stk k),
    descendLeft e k c stk = (descendLeft none k c stk).checkEnd e
  | 0, _, _ => rfl
  | k + 1, n, stk => by
    simp only [descendLeft]
    cases (n : Inner (Node k)).kids[0]? with
    | none => simp
    | some c => exact descendLeft_check e k c _

theorem nextLeaf_check (e : Option Key) : ∀ (k : Nat) (stk : Stk k),
    nextLeaf e k stk = (nextLeaf none k stk).checkEnd e
  | _, .nil => by simp [nextLeaf]
  | k, .push n idx rest => by
    simp only [nextLeaf]
    by_cases h : idx + 1 < n.numChildren
    · simp only [h, if_true]
      cases n.kids[idx + 1]? with
      | none => simp
      | some c => exact descendLeft_check e k c _
    · simp only [h, if_false]
      exact nextLeaf_check e (k + 1) rest

theorem seekFirst_check (s e : Option Key) : ∀ (k : Nat) (c : Node k) (stk : Stk k),
    seekFirst s e k c stk = (seekFirst s none k c stk).checkEnd e
  | 0, l, stk => by
    simp only [seekFirst]
    by_cases h : seekFirstIdx s l ≥ (l : Leaf).es.length
    · simp only [h, if_true]; exact nextLeaf_check e 0 stk
    · simp only [h, if_false]; rfl
  | k + 1, n, stk => by
    simp only [seekFirst]
    cases (n : Inner (Node k)).kids[seekFirstChild s (n : Inner (Node k))]? with
    | none => simp
    | some c => exact seekFirst_check s e k c _

theorem descendRight_check (s : Option Key) : ∀ (k : Nat) (c : Node k) (stk : Stk k),
    descendRight s k c stk = (descendRight none k c stk).checkStart s
  | 0, _, _ => rfl
  | k + 1, n, stk => by
    simp only [descendRight]
    cases (n : Inner (Node k)).kids[(n : Inner (Node k)).numChildren - 1]? with
    | none => simp
    | some c => exact descendRight_check s k c _

theorem prevLeaf_check (s : Option Key) : ∀ (k : Nat) (stk : Stk k),
    prevLeaf s k stk = (prevLeaf none k stk).checkStart s
  | _, .nil => by simp [prevLeaf]
  | k, .push n idx rest => by
    simp only [prevLeaf]
    by_cases h : idx ≥ 1
    · simp only [h, if_true]
      cases n.kids[idx - 1]? with
      | none => simp
      | some c => exact descendRight_check s k c _
    · simp only [h, if_false]
      exact prevLeaf_check s (k + 1) rest

theorem seekLast_check (s e : Option Key) : ∀ (k : Nat) (c : Node k) (stk : Stk k),
    seekLast s e k c stk = (seekLast none e k c stk).checkStart s
  | 0, l, stk => by
    simp only [seekLast]
    by_cases h : seekLastPos e l = 0
    · simp only [h, if_true]; exact prevLeaf_check s 0 stk
    · simp only [h, if_false]; rfl
  | k + 1, n, stk => by
    simp only [seekLast]
    cases (n : Inner (Node k)).kids[seekLastChild e (n : Inner (Node k))]? with
    | none => simp
    | some c => exact seekLast_check s e k c _

/-! ### ascending: what the iterator still has to deliver -/

/-- entries to the right of the stack's positions, nearest first. -/
def stkAfter : (k : Nat) → Stk k → List Entry
  | _, .nil => []
  | k, .push n idx rest => flat k (n.kids.drop (idx + 1)) ++ stkAfter (k + 1) rest

/-- stack frames are inner nodes with `numKeys + 1` children; everything to the
right of the positions has non-empty leaves. -/
def StkOkA : (k : Nat) → Stk k → Prop
  | _, .nil => True
  | k, .push n idx rest =>
    n.kids.length = n.keys.length + 1 ∧ (∀ c ∈ n.kids.drop (idx + 1), NE k c) ∧ StkOkA (k + 1) rest

/-- the entries an ascending iterator without end bound still delivers. -/
def remA (it : Iter) : List Entry :=
  if it.valid then it.leaf.es.drop it.leafIdx ++ stkAfter 0 it.stack else []

def ItOkA (it : Iter) : Prop :=
  it.valid = true → it.leafIdx < it.leaf.es.length ∧ StkOkA 0 it.stack

theorem remA_invalid : remA Iter.invalid = [] := rfl
theorem itOkA_invalid : ItOkA Iter.invalid := by intro h; cases h

theorem descendLeft_spec : ∀ (k : Nat) (c : Node k) (stk : Stk k), NE k c → StkOkA k stk →
    ItOkA (descendLeft none k c stk) ∧
    remA (descendLeft none k c stk) = abs k c ++ stkAfter k stk
  | 0, l, stk, hne, hstk => by
    have hpos : 0 < (l : Leaf).es.length := List.length_pos_iff.2 hne
    refine ⟨fun _ => ⟨hpos, hstk⟩, ?_⟩
    simp only [descendLeft, checkEnd_none, remA, if_true, List.drop_zero]
    rfl
  | k + 1, n, stk, hne, hstk => by
    obtain ⟨hlen, hall⟩ := hne
    simp only [descendLeft]
    match hk : (n : Inner (Node k)).kids, hlen, hall with
    | [], hlen, _ => simp at hlen
    | c0 :: cs, hlen, hall =>
      simp only [List.getElem?_cons_zero]
      have hstk' : StkOkA k (.push n 0 stk) := by
        refine ⟨by rw [hk]; exact hlen, ?_, hstk⟩
        intro c hc
        rw [hk] at hc
        exact hall c (by simpa using Or.inr hc)
      obtain ⟨i1, i2⟩ := descendLeft_spec k c0 (.push n 0 stk) (hall c0 (by simp)) hstk'
      refine ⟨i1, ?_⟩
      rw [i2]
      show abs k c0 ++ (flat k ((n : Inner (Node k)).kids.drop 1) ++ stkAfter (k + 1) stk) =
        flat k (n : Inner (Node k)).kids ++ stkAfter (k + 1) stk
      rw [hk]
      simp

theorem nextLeaf_spec : ∀ (k : Nat) (stk : Stk k), StkOkA k stk →
    ItOkA (nextLeaf none k stk) ∧ remA (nextLeaf none k stk) = stkAfter k stk
  | _, .nil, _ => ⟨itOkA_invalid, rfl⟩
  | k, .push n idx rest, hstk => by
    obtain ⟨hlen, hall, hrest⟩ := hstk
    simp only [nextLeaf, Inner.numChildren]
    by_cases h : idx + 1 < n.keys.length + 1
    · simp only [h, if_true]
      have hlt : idx + 1 < n.kids.length := by omega
      rw [List.getElem?_eq_getElem hlt]
      simp only
      have hdrop : n.kids.drop (idx + 1) = n.kids[idx + 1] :: n.kids.drop (idx + 2) :=
        (List.getElem_cons_drop (h := hlt)).symm
      have hc : NE k n.kids[idx + 1] := hall _ (by rw [hdrop]; exact List.mem_cons_self)
      have hstk' : StkOkA k (.push n (idx + 1) rest) :=
        ⟨hlen, fun c hc' => hall c (by rw [hdrop]; exact List.mem_cons_of_mem _ hc'), hrest⟩
      obtain ⟨i1, i2⟩ := descendLeft_spec k _ (.push n (idx + 1) rest) hc hstk'
      refine ⟨i1, ?_⟩
      rw [i2]
      show abs k n.kids[idx + 1] ++ (flat k (n.kids.drop (idx + 2)) ++ stkAfter (k + 1) rest) =
        flat k (n.kids.drop (idx + 1)) ++ stkAfter (k + 1) rest
      rw [hdrop]; simp only [flat_cons, List.append_assoc]
    · simp only [h, if_false]
      obtain ⟨i1, i2⟩ := nextLeaf_spec (k + 1) rest hrest
      refine ⟨i1, ?_⟩
      rw [i2]
      show stkAfter (k + 1) rest = flat k (n.kids.drop (idx + 1)) ++ stkAfter (k + 1) rest
      rw [List.drop_eq_nil_of_le (by omega)]
      rfl

/-- `key < start` (false without a start). -/
def belowS (s : Option Key) (k : Key) : Bool :=
  match s with
  | some s => decide (k < s)
  | none => false

/-- `key < end` (true without an end). -/
def belowE (e : Option Key) (k : Key) : Bool :=
  match e with
  | some e => decide (k < e)
  | none => true

/-- the entries `≥ start` of a sorted list. -/
def dropS (s : Option Key) (l : List Entry) : List Entry := l.dropWhile (fun x => belowS s x.1)

/-- the entries `< end` of a sorted list. -/
def takeE (e : Option Key) (l : List Entry) : List Entry := l.takeWhile (fun x => belowE e x.1)

theorem dropWhile_append_all {α : Type} (p : α → Bool) {A R : List α} (hA : ∀ x ∈ A, p x = true) :
    (A ++ R).dropWhile p = R.dropWhile p := by
  induction A with
  | nil => rfl
  | cons a A ih =>
    simp only [List.cons_append, List.dropWhile_cons, hA a (by simp), if_true]
    exact ih (fun x hx => hA x (by simp [hx]))

theorem dropWhile_none {α : Type} (p : α → Bool) {R : List α} (hR : ∀ x ∈ R, p x = false) :
    R.dropWhile p = R := by
  cases R with
  | nil => rfl
  | cons a R => simp [List.dropWhile_cons, hR a (by simp)]

theorem dropWhile_append_none {α : Type} (p : α → Bool) {M R : List α} (hR : ∀ x ∈ R, p x = false) :
    (M ++ R).dropWhile p = M.dropWhile p ++ R := by
  induction M with
  | nil => simpa using dropWhile_none p hR
  | cons a M ih =>
    simp only [List.cons_append, List.dropWhile_cons]
    split
    · exact ih
    · rfl

theorem takeWhile_append_all {α : Type} (p : α → Bool) {A R : List α} (hA : ∀ x ∈ A, p x = true) :
    (A ++ R).takeWhile p = A ++ R.takeWhile p := by
  induction A with
  | nil => rfl
  | cons a A ih =>
    simp only [List.cons_append, List.takeWhile_cons, hA a (by simp), if_true]
    rw [ih (fun x hx => hA x (by simp [hx]))]

theorem takeWhile_none {α : Type} (p : α → Bool) {R : List α} (hR : ∀ x ∈ R, p x = false) :
    R.takeWhile p = [] := by
  cases R with
  | nil => rfl
  | cons a R => simp [List.takeWhile_cons, hR a (by simp)]

theorem takeWhile_all {α : Type} (p : α → Bool) {R : List α} (hR : ∀ x ∈ R, p x = true) :
    R.takeWhile p = R := by
  induction R with
  | nil => rfl
  | cons a R ih =>
    simp only [List.takeWhile_cons, hR a (by simp), if_true]
    rw [ih (fun x hx => hR x (by simp [hx]))]

theorem takeWhile_append_none {α : Type} (p : α → Bool) {M R : List α} (hR : ∀ x ∈ R, p x = false) :
    (M ++ R).takeWhile p = M.takeWhile p := by
  induction M with
  | nil => simpa using takeWhile_none p hR
  | cons a M ih =>
    simp only [List.cons_append, List.takeWhile_cons]
    split
    · rw [ih]
    · rfl

@[simp] theorem dropS_none (l : List Entry) : dropS none l = l := dropWhile_none _ (fun _ _ => rfl)
@[simp] theorem takeE_none (l : List Entry) : takeE none l = l := takeWhile_all _ (fun _ _ => rfl)
theorem dropS_some (s : Key) (l : List Entry) :
    dropS (some s) l = l.dropWhile (fun e => decide (e.1 < s)) := rfl
theorem takeE_some (e : Key) (l : List Entry) :
    takeE (some e) l = l.takeWhile (fun x => decide (x.1 < e)) := rfl

/-- in a sorted leaf, the entries from `searchLeaf`'s position on are those `≥ key`,
the ones before it those `< key`. -/
theorem searchLeaf_drop_take {es : List Entry} (hs : OMap.Sorted es) (key : Key) :
    es.drop (searchLeaf ⟨es⟩ key).1 = es.dropWhile (fun e => decide (e.1 < key)) ∧
    es.take (searchLeaf ⟨es⟩ key).1 = es.takeWhile (fun e => decide (e.1 < key)) ∧
    (searchLeaf ⟨es⟩ key).1 ≤ es.length := by
  cases hf : (searchLeaf ⟨es⟩ key).2 with
  | true =>
    obtain ⟨A, v0, C, rfl, hA, hAlt, hCgt⟩ := searchLeaf_found hs hf
    have hp : ∀ x ∈ A, (fun e : Entry => decide (e.1 < key)) x = true := fun x hx => by simpa using hAlt x hx
    have hq : ∀ x ∈ (key, v0) :: C, (fun e : Entry => decide (e.1 < key)) x = false := by
      intro x hx
      rcases List.mem_cons.1 hx with rfl | hx
      · simpa using Lex.lt_irrefl _
      · simpa using Lex.lt_asymm (hCgt x hx)
    refine ⟨?_, ?_, by rw [← hA]; simp⟩
    · rw [drop_mid hA, dropWhile_append_all _ hp, dropWhile_none _ hq]
    · rw [take_mid hA, takeWhile_append_all _ hp, takeWhile_none _ hq]; simp
  | false =>
    obtain ⟨A, C, rfl, hA, hAlt, hCgt⟩ := searchLeaf_notfound hs hf
    have hp : ∀ x ∈ A, (fun e : Entry => decide (e.1 < key)) x = true := fun x hx => by simpa using hAlt x hx
    have hq : ∀ x ∈ C, (fun e : Entry => decide (e.1 < key)) x = false :=
      fun x hx => by simpa using Lex.lt_asymm (hCgt x hx)
    refine ⟨?_, ?_, by rw [← hA]; simp⟩
    · rw [← hA, List.drop_left, dropWhile_append_all _ hp, dropWhile_none _ hq]
    · rw [← hA, List.take_left, takeWhile_append_all _ hp, takeWhile_none _ hq]; simp

theorem seekFirst_spec (s : Option Key) : ∀ (k : Nat) (c : Node k) (lo hi : Option Key) (stk : Stk k),
    Ord k c lo hi → NE k c → StkOkA k stk → (∀ s', s = some s' → lbOk lo s' ∧ ubOk hi s') →
    ItOkA (seekFirst s none k c stk) ∧
    remA (seekFirst s none k c stk) = dropS s (abs k c) ++ stkAfter k stk
  | 0, l, lo, hi, stk, hord, hne, hstk, _ => by
    obtain ⟨es⟩ := l
    have h' : LeafOrd es lo hi := hord
    simp only [seekFirst, abs_zero]
    have hidx : es.drop (seekFirstIdx s ⟨es⟩) = dropS s es ∧ seekFirstIdx s ⟨es⟩ ≤ es.length := by
      cases s with
      | none => exact ⟨by simp [seekFirstIdx], Nat.zero_le _⟩
      | some s' => exact ⟨(searchLeaf_drop_take h'.1 s').1, (searchLeaf_drop_take h'.1 s').2.2⟩
    generalize seekFirstIdx s ⟨es⟩ = idx at hidx
    by_cases h : idx ≥ es.length
    · simp only [h, if_true]
      obtain ⟨i1, i2⟩ := nextLeaf_spec 0 stk hstk
      refine ⟨i1, ?_⟩
      rw [i2, ← hidx.1, List.drop_eq_nil_of_le h]; rfl
    · simp only [h, if_false, checkEnd_none]
      refine ⟨fun _ => ⟨by show idx < es.length; omega, hstk⟩, ?_⟩
      simp [remA, hidx.1]
  | k + 1, n, lo, hi, stk, hord, hne, hstk, hb => by
    obtain ⟨keys, kids, sizes⟩ := (n : Inner (Node k))
    obtain ⟨hch, hsz⟩ := hord
    obtain ⟨hlen, hall⟩ := hne
    simp only at hch hsz hlen hall
    simp only [seekFirst]
    cases s with
    | none =>
      simp only [seekFirstChild]
      match kids, hlen, hall, hch with
      | [], hlen, _, _ => simp at hlen
      | c0 :: cs, hlen, hall, hch =>
        simp only [List.getElem?_cons_zero]
        obtain ⟨lo', hi', hc0⟩ := hch.forall_mem c0 (by simp)
        have hstk' : StkOkA k (.push (⟨keys, c0 :: cs, sizes⟩ : Inner (Node k)) 0 stk) :=
          ⟨hlen, fun c hc => hall c (by simpa using Or.inr hc), hstk⟩
        obtain ⟨i1, i2⟩ := seekFirst_spec none k c0 lo' hi' _ hc0 (hall c0 (by simp)) hstk'
          (fun s' h => by cases h)
        refine ⟨i1, ?_⟩
        rw [i2]
        show dropS none (abs k c0) ++ (flat k ((c0 :: cs).drop 1) ++ stkAfter (k + 1) stk) = _
        simp [abs_succ]
    | some s' =>
      obtain ⟨hlo, hhi⟩ := hb s' rfl
      obtain ⟨K1, K2, C1, c, C2, rfl, rfl, hK1, hC1, hKL, hKR, hpre, hc, hpost, hlo', hhi'⟩ :=
        inner_focus hch hlo hhi
      simp only [seekFirstChild]
      rw [getElem?_mid hC1]
      simp only
      have hstk' : StkOkA k (.push (⟨K1 ++ K2, C1 ++ c :: C2, sizes⟩ : Inner (Node k))
          (searchInner (K1 ++ K2) s') stk) := by
        refine ⟨hlen, ?_, hstk⟩
        intro d hd
        simp only at hd
        rw [drop_mid_succ hC1] at hd
        exact hall d (by simp [hd])
      obtain ⟨i1, i2⟩ := seekFirst_spec (some s') k c _ _ _ hc (hall c (by simp)) hstk'
        (fun s'' h => by cases h; exact ⟨hlo', hhi'⟩)
      refine ⟨i1, ?_⟩
      rw [i2]
      show dropS (some s') (abs k c) ++
        (flat k ((C1 ++ c :: C2).drop (searchInner (K1 ++ K2) s' + 1)) ++ stkAfter (k + 1) stk) = _
      rw [drop_mid_succ hC1, abs_succ]
      show _ = dropS (some s') (flat k (C1 ++ c :: C2)) ++ stkAfter (k + 1) stk
      simp only [dropS_some, flat_append, flat_cons]
      have hp : ∀ x ∈ flat k C1, (fun e : Entry => decide (e.1 < s')) x = true :=
        fun x hx => by simpa using pre_lt hpre hKL x hx
      have hq : ∀ x ∈ flat k C2, (fun e : Entry => decide (e.1 < s')) x = false :=
        fun x hx => by simpa using Lex.lt_asymm (post_gt hpost hKR x hx)
      rw [dropWhile_append_all _ hp, dropWhile_append_none _ hq, List.append_assoc]

/-! ### ascending: one step and the loop -/

theorem checkEnd_fields (e : Option Key) (it : Iter) :
    (it.checkEnd e).leaf = it.leaf ∧ (it.checkEnd e).leafIdx = it.leafIdx ∧
    (it.checkEnd e).stack = it.stack := by
  cases e with
  | none => exact ⟨rfl, rfl, rfl⟩
  | some e => simp only [Iter.checkEnd]; split <;> exact ⟨rfl, rfl, rfl⟩

theorem checkEnd_valid (e : Option Key) (it : Iter) :
    (it.checkEnd e).valid = (it.valid && belowE e it.key) := by
  cases e with
  | none => simp [belowE]
  | some e =>
    simp only [Iter.checkEnd, belowE]
    by_cases h : (it.valid && decide (e ≤ it.key)) = true
    · rw [if_pos h]
      simp only [Bool.and_eq_true, decide_eq_true_eq] at h
      have : ¬ it.key < e := Lex.not_lt.2 h.2
      simp [h.1, this]
    · rw [if_neg h]
      cases hv : it.valid with
      | false => simp
      | true =>
        simp only [hv, Bool.true_and, decide_eq_true_eq] at h
        have : it.key < e := Lex.not_le.1 h
        simp [this]

/-- a still-valid checked iterator is the unchecked one. -/
theorem checkEnd_of_valid {e : Option Key} {it : Iter} (h : (it.checkEnd e).valid = true) :
    it.checkEnd e = it := by
  cases e with
  | none => rfl
  | some e =>
    simp only [Iter.checkEnd] at h ⊢
    split at h
    · cases h
    · rename_i hc; rw [if_neg hc]

theorem next_asc_check (s e : Option Key) {it : Iter} (hv : it.valid = true) :
    it.next s e true = (it.next s none true).checkEnd e := by
  simp only [Iter.next, hv, Bool.not_true, Bool.false_eq_true, if_false, if_true]
  by_cases h : it.leafIdx + 1 ≥ it.leaf.es.length
  · simp only [h, if_true]; exact nextLeaf_check e 0 _
  · simp only [h, if_false]; rfl

/-- the entry the iterator is positioned at. -/
def Iter.cur (it : Iter) : Entry := it.leaf.es.getD it.leafIdx ([], [])

theorem next_asc_spec (s : Option Key) {it : Iter} (hv : it.valid = true) (hok : ItOkA it) :
    ItOkA (it.next s none true) ∧ remA it = it.cur :: remA (it.next s none true) := by
  obtain ⟨hlt, hstk⟩ := hok hv
  have hdrop : it.leaf.es.drop it.leafIdx = it.leaf.es[it.leafIdx] :: it.leaf.es.drop (it.leafIdx + 1) :=
    (List.getElem_cons_drop (h := hlt)).symm
  have hget : it.cur = it.leaf.es[it.leafIdx] := by
    simp [Iter.cur, List.getD_eq_getElem?_getD, hlt]
  simp only [Iter.next, hv, Bool.not_true, Bool.false_eq_true, if_false, if_true]
  by_cases h : it.leafIdx + 1 ≥ it.leaf.es.length
  · simp only [h, if_true]
    obtain ⟨i1, i2⟩ := nextLeaf_spec 0 it.stack hstk
    refine ⟨i1, ?_⟩
    rw [i2, hget]
    simp only [remA, hv, if_true, hdrop, List.drop_eq_nil_of_le h]
    rfl
  · simp only [h, if_false, checkEnd_none]
    refine ⟨fun _ => ⟨by show it.leafIdx + 1 < it.leaf.es.length; omega, hstk⟩, ?_⟩
    rw [hget]
    simp only [remA, hv, if_true, hdrop]
    rfl

/-- the `IterateRange` loop, ascending: the callback sees the pending entries
below `end`, in order, until it stops. -/
theorem iterLoop_asc {σ : Type} (s e : Option Key) (fn : σ → Key → Val → σ × Bool) :
    ∀ (fuel : Nat) (it : Iter) (st : σ), ItOkA it → (remA it).length < fuel →
      iterLoop s e true fn fuel (it.checkEnd e) st =
        iterList (fun (en : Entry) s => fn s en.1 en.2) (takeE e (remA it)) st
  | 0, _, _, _, h => absurd h (Nat.not_lt_zero _)
  | fuel + 1, it, st, hok, hfuel => by
    simp only [iterLoop]
    by_cases hv : it.valid = true
    · obtain ⟨hok', hrem⟩ := next_asc_spec s hv hok
      have hkey : it.key = it.cur.1 := rfl
      have hvalid := checkEnd_valid e it
      rw [hv, Bool.true_and, hkey] at hvalid
      rw [hrem] at hfuel ⊢
      by_cases hc : belowE e it.cur.1 = true
      · -- the current entry is below the end bound
        have hcv : (it.checkEnd e).valid = true := by rw [hvalid]; exact hc
        have heq := checkEnd_of_valid hcv
        simp only [hcv, Bool.not_true, Bool.false_eq_true, if_false]
        rw [heq]
        have hin : takeE e (it.cur :: remA (it.next s none true)) =
            it.cur :: takeE e (remA (it.next s none true)) := by
          simp only [takeE, List.takeWhile_cons, hc, if_true]
        rw [hin]
        simp only [iterList]
        show (match fn st it.cur.1 it.cur.2 with
          | (st', stop) => if stop = true then (st', true)
              else iterLoop s e true fn fuel (it.next s e true) st') = _
        cases hfn : fn st it.cur.1 it.cur.2 with
        | mk st' stop =>
          simp only
          cases stop with
          | true => simp
          | false =>
            simp only [Bool.false_eq_true, if_false]
            rw [next_asc_check s e hv]
            exact iterLoop_asc s e fn fuel _ st' hok' (by simp at hfuel; omega)
      · -- the end bound cuts the iteration here
        have hc' : belowE e it.cur.1 = false := by simpa using hc
        have hcv : (it.checkEnd e).valid = false := by rw [hvalid]; exact hc'
        simp only [hcv, Bool.not_false, if_true]
        simp only [takeE, List.takeWhile_cons, hc', Bool.false_eq_true, if_false, iterList]
    · have hv' : it.valid = false := by simpa using hv
      have : (it.checkEnd e).valid = false := by rw [checkEnd_valid, hv']; rfl
      simp only [this, Bool.not_false, if_true]
      simp only [remA, hv', Bool.false_eq_true, if_false, takeE, List.takeWhile_nil, iterList]

/-! ### ranges of a sorted list -/

/-- on a sorted list a predicate that is downward closed holds exactly on a prefix. -/
theorem filter_eq_takeWhile {l : List Entry} (hs : OMap.Sorted l) (q : Key → Bool)
    (hq : ∀ x y : Key, x < y → q y = true → q x = true) :
    l.filter (fun e => q e.1) = l.takeWhile (fun e => q e.1) := by
  induction l with
  | nil => rfl
  | cons x l ih =>
    have hs' := List.pairwise_cons.1 hs
    rw [List.filter_cons, List.takeWhile_cons]
    by_cases hx : q x.1 = true
    · simp only [hx, if_true]; rw [ih hs'.2]
    · simp only [hx, Bool.false_eq_true, if_false]
      rw [List.filter_eq_nil_iff]
      intro y hy hqy
      exact hx (hq _ _ (hs'.1 y hy) hqy)

theorem range_filter_eq {l : List Entry} (hs : OMap.Sorted l) (p q : Key → Bool)
    (hp : ∀ x y : Key, x < y → p y = true → p x = true)
    (hq : ∀ x y : Key, x < y → q y = true → q x = true) :
    l.filter (fun e => !p e.1 && q e.1) =
      (l.dropWhile (fun e => p e.1)).takeWhile (fun e => q e.1) := by
  induction l with
  | nil => rfl
  | cons x l ih =>
    have hs' := List.pairwise_cons.1 hs
    by_cases hx : p x.1 = true
    · rw [List.filter_cons, List.dropWhile_cons]
      simp only [hx, Bool.not_true, Bool.false_and, Bool.false_eq_true, if_false, if_true]
      exact ih hs'.2
    · have hx' : p x.1 = false := by simpa using hx
      have hall : ∀ y ∈ x :: l, p y.1 = false := by
        intro y hy
        rcases List.mem_cons.1 hy with rfl | hy
        · exact hx'
        · cases hpy : p y.1 with
          | false => rfl
          | true => exact absurd (hp _ _ (hs'.1 y hy) hpy) hx
      rw [List.dropWhile_cons]
      simp only [hx', Bool.false_eq_true, if_false]
      rw [← filter_eq_takeWhile hs q hq]
      apply List.filter_congr
      intro y hy
      simp [hall y hy]

theorem belowS_down (s : Option Key) : ∀ x y : Key, x < y → belowS s y = true → belowS s x = true := by
  intro x y hxy h
  cases s with
  | none => simp [belowS] at h
  | some s' =>
    simp only [belowS, decide_eq_true_eq] at h ⊢
    exact Lex.lt_trans hxy h

theorem belowE_down (e : Option Key) : ∀ x y : Key, x < y → belowE e y = true → belowE e x = true := by
  intro x y hxy h
  cases e with
  | none => rfl
  | some e' =>
    simp only [belowE, decide_eq_true_eq] at h ⊢
    exact Lex.lt_trans hxy h

theorem inDomain_eq (k : Key) (s e : Option Key) :
    Lex.inDomain k s e = (!belowS s k && belowE e k) := by
  cases s with
  | none => cases e <;> simp [Lex.inDomain, belowS, belowE]
  | some s' =>
    have : decide (s' ≤ k) = !decide (k < s') := by
      by_cases h : k < s'
      · simp [h, Lex.not_le.2 h]
      · simp [h, Lex.not_lt.1 h]
    cases e <;> simp [Lex.inDomain, belowS, belowE, this]

/-- on a sorted list, the range filter is `takeWhile (< end) ∘ dropWhile (< start)`. -/
theorem range_asc_eq {l : List Entry} (hs : OMap.Sorted l) (s e : Option Key) :
    OMap.range l s e true = takeE e (dropS s l) := by
  simp only [OMap.range, if_true, takeE, dropS]
  rw [← range_filter_eq hs (belowS s) (belowE e) (belowS_down s) (belowE_down e)]
  apply List.filter_congr
  intro x _
  exact inDomain_eq x.1 s e

/-- `IterateRange`, ascending. -/
theorem iterateRange_asc {B : Nat} {σ : Type} {t : Tree} (ht : t.WF B)
    (s e : Option Key) (fn : σ → Key → Val → σ × Bool) (st : σ) :
    t.iterateRange s e true fn st =
      iterList (fun (en : Entry) s => fn s en.1 en.2) (OMap.range t.abs s e true) st := by
  cases t with
  | empty =>
    simp only [Tree.iterateRange, newIterator, Tree.size, iterLoop, Iter.invalid]
    simp [OMap.range, iterList]
  | node h root =>
    obtain ⟨hord, hocc⟩ := ht
    have hne := NE_of_ord_occ hord hocc
    obtain ⟨i1, i2⟩ := seekFirst_spec s h root none none .nil hord hne trivial
      (fun _ _ => ⟨trivial, trivial⟩)
    simp only [Tree.iterateRange, newIterator, if_true, Tree.abs_node]
    rw [seekFirst_check, range_asc_eq hord.sorted]
    have hrem : remA (seekFirst s none h root .nil) = dropS s (abs h root) := by
      rw [i2]; simp [stkAfter]
    rw [← hrem]
    apply iterLoop_asc s e fn _ _ st i1
    rw [hrem]
    have : (dropS s (abs h root)).length ≤ (abs h root).length :=
      (List.dropWhile_sublist _).length_le
    show _ < nodeSize h root + 1
    rw [hord.size_eq]; omega

/-! ### descending: the mirror image -/

/-- entries to the left of the stack's positions, nearest (largest) first. -/
def stkBefore : (k : Nat) → Stk k → List Entry
  | _, .nil => []
  | k, .push n idx rest => (flat k (n.kids.take idx)).reverse ++ stkBefore (k + 1) rest

def StkOkD : (k : Nat) → Stk k → Prop
  | _, .nil => True
  | k, .push n idx rest =>
    n.kids.length = n.keys.length + 1 ∧ idx < n.kids.length ∧
      (∀ c ∈ n.kids.take idx, NE k c) ∧ StkOkD (k + 1) rest

/-- the entries a descending iterator without start bound still delivers (largest first). -/
def remD (it : Iter) : List Entry :=
  if it.valid then (it.leaf.es.take (it.leafIdx + 1)).reverse ++ stkBefore 0 it.stack else []

def ItOkD (it : Iter) : Prop :=
  it.valid = true → it.leafIdx < it.leaf.es.length ∧ StkOkD 0 it.stack

theorem itOkD_invalid : ItOkD Iter.invalid := by intro h; cases h

theorem take_succ_last {α : Type} (l : List α) (i : Nat) (h : i < l.length) :
    l.take (i + 1) = l.take i ++ [l[i]] := by
  rw [List.take_succ, List.getElem?_eq_getElem h]; rfl

theorem descendRight_spec : ∀ (k : Nat) (c : Node k) (stk : Stk k), NE k c → StkOkD k stk →
    ItOkD (descendRight none k c stk) ∧
    remD (descendRight none k c stk) = (abs k c).reverse ++ stkBefore k stk
  | 0, l, stk, hne, hstk => by
    have hpos : 0 < (l : Leaf).es.length := List.length_pos_iff.2 hne
    refine ⟨fun _ => ⟨by show (l : Leaf).es.length - 1 < (l : Leaf).es.length; omega, hstk⟩, ?_⟩
    simp only [descendRight, checkStart_none, remD, if_true]
    have : (l : Leaf).es.length - 1 + 1 = (l : Leaf).es.length := by omega
    rw [this, List.take_length]
    rfl
  | k + 1, n, stk, hne, hstk => by
    obtain ⟨hlen, hall⟩ := hne
    simp only [descendRight, Inner.numChildren]
    have hidx : (n : Inner (Node k)).keys.length + 1 - 1 < (n : Inner (Node k)).kids.length := by omega
    rw [List.getElem?_eq_getElem hidx]
    simp only
    generalize hi : (n : Inner (Node k)).keys.length + 1 - 1 = idx at hidx
    have hkids : (n : Inner (Node k)).kids = (n : Inner (Node k)).kids.take idx ++ [(n : Inner (Node k)).kids[idx]] := by
      rw [← take_succ_last _ _ hidx, List.take_of_length_le (by omega)]
    have hstk' : StkOkD k (.push n idx stk) :=
      ⟨hlen, hidx, fun c hc => hall c (List.mem_of_mem_take hc), hstk⟩
    obtain ⟨i1, i2⟩ := descendRight_spec k _ (.push n idx stk) (hall _ (List.getElem_mem hidx)) hstk'
    refine ⟨i1, ?_⟩
    rw [i2]
    show (abs k (n : Inner (Node k)).kids[idx]).reverse ++
      ((flat k ((n : Inner (Node k)).kids.take idx)).reverse ++ stkBefore (k + 1) stk) =
      (flat k (n : Inner (Node k)).kids).reverse ++ stkBefore (k + 1) stk
    have hfl : flat k (n : Inner (Node k)).kids =
        flat k ((n : Inner (Node k)).kids.take idx) ++ abs k (n : Inner (Node k)).kids[idx] := by
      conv => lhs; rw [hkids]
      rw [flat_append, flat_cons, flat_nil, List.append_nil]
    rw [hfl, List.reverse_append, List.append_assoc]

theorem prevLeaf_spec : ∀ (k : Nat) (stk : Stk k), StkOkD k stk →
    ItOkD (prevLeaf none k stk) ∧ remD (prevLeaf none k stk) = stkBefore k stk
  | _, .nil, _ => ⟨itOkD_invalid, rfl⟩
  | k, .push n idx rest, hstk => by
    obtain ⟨hlen, hidx, hall, hrest⟩ := hstk
    simp only [prevLeaf]
    by_cases h : idx ≥ 1
    · simp only [h, if_true]
      have hlt : idx - 1 < n.kids.length := by omega
      rw [List.getElem?_eq_getElem hlt]
      simp only
      have htake : n.kids.take idx = n.kids.take (idx - 1) ++ [n.kids[idx - 1]] := by
        have := take_succ_last n.kids (idx - 1) hlt
        rwa [show idx - 1 + 1 = idx by omega] at this
      have hc : NE k n.kids[idx - 1] :=
        hall _ (by rw [htake]; exact List.mem_append_right _ (List.mem_singleton.2 rfl))
      have hstk' : StkOkD k (.push n (idx - 1) rest) :=
        ⟨hlen, hlt, fun c hc' => hall c (by rw [htake]; exact List.mem_append_left _ hc'), hrest⟩
      obtain ⟨i1, i2⟩ := descendRight_spec k _ (.push n (idx - 1) rest) hc hstk'
      refine ⟨i1, ?_⟩
      rw [i2]
      show (abs k n.kids[idx - 1]).reverse ++
        ((flat k (n.kids.take (idx - 1))).reverse ++ stkBefore (k + 1) rest) =
        (flat k (n.kids.take idx)).reverse ++ stkBefore (k + 1) rest
      rw [htake, flat_append, flat_cons, flat_nil, List.append_nil, List.reverse_append,
        List.append_assoc]
    · simp only [h, if_false]
      obtain ⟨i1, i2⟩ := prevLeaf_spec (k + 1) rest hrest
      refine ⟨i1, ?_⟩
      rw [i2]
      have : idx = 0 := by omega
      subst this
      show stkBefore (k + 1) rest = (flat k (n.kids.take 0)).reverse ++ stkBefore (k + 1) rest
      simp

theorem seekLast_spec (e : Option Key) : ∀ (k : Nat) (c : Node k) (lo hi : Option Key) (stk : Stk k),
    Ord k c lo hi → NE k c → StkOkD k stk → (∀ e', e = some e' → lbOk lo e' ∧ ubOk hi e') →
    ItOkD (seekLast none e k c stk) ∧
    remD (seekLast none e k c stk) = (takeE e (abs k c)).reverse ++ stkBefore k stk
  | 0, l, lo, hi, stk, hord, hne, hstk, _ => by
    obtain ⟨es⟩ := l
    have h' : LeafOrd es lo hi := hord
    simp only [seekLast, abs_zero]
    have hpos : es.take (seekLastPos e ⟨es⟩) = takeE e es ∧ seekLastPos e ⟨es⟩ ≤ es.length := by
      cases e with
      | none => exact ⟨by simp [seekLastPos], Nat.le_refl _⟩
      | some e' => exact ⟨(searchLeaf_drop_take h'.1 e').2.1, (searchLeaf_drop_take h'.1 e').2.2⟩
    generalize seekLastPos e ⟨es⟩ = pos at hpos
    by_cases h : pos = 0
    · simp only [h, if_true]
      obtain ⟨i1, i2⟩ := prevLeaf_spec 0 stk hstk
      refine ⟨i1, ?_⟩
      rw [i2, ← hpos.1, h]; rfl
    · simp only [h, if_false, checkStart_none]
      refine ⟨fun _ => ⟨by show pos - 1 < es.length; omega, hstk⟩, ?_⟩
      simp only [remD, if_true]
      rw [show pos - 1 + 1 = pos by omega, hpos.1]
  | k + 1, n, lo, hi, stk, hord, hne, hstk, hb => by
    obtain ⟨keys, kids, sizes⟩ := (n : Inner (Node k))
    obtain ⟨hch, hsz⟩ := hord
    obtain ⟨hlen, hall⟩ := hne
    simp only at hch hsz hlen hall
    simp only [seekLast]
    cases e with
    | none =>
      simp only [seekLastChild, Inner.numChildren]
      have hidx : keys.length + 1 - 1 < kids.length := by omega
      rw [List.getElem?_eq_getElem hidx]
      simp only
      generalize hi' : keys.length + 1 - 1 = idx at hidx
      have hkids : kids = kids.take idx ++ [kids[idx]] := by
        rw [← take_succ_last _ _ hidx, List.take_of_length_le (by omega)]
      obtain ⟨lo', hi'', hc0⟩ := hch.forall_mem _ (List.getElem_mem hidx)
      have hstk' : StkOkD k (.push (⟨keys, kids, sizes⟩ : Inner (Node k)) idx stk) :=
        ⟨hlen, hidx, fun c hc => hall c (List.mem_of_mem_take hc), hstk⟩
      obtain ⟨i1, i2⟩ := seekLast_spec none k _ lo' hi'' _ hc0 (hall _ (List.getElem_mem hidx)) hstk'
        (fun e' h => by cases h)
      refine ⟨i1, ?_⟩
      rw [i2]
      show (takeE none (abs k kids[idx])).reverse ++
        ((flat k (kids.take idx)).reverse ++ stkBefore (k + 1) stk) =
        (takeE none (flat k kids)).reverse ++ stkBefore (k + 1) stk
      simp only [takeE_none]
      have hfl : flat k kids = flat k (kids.take idx) ++ abs k kids[idx] := by
        conv => lhs; rw [hkids]
        rw [flat_append, flat_cons, flat_nil, List.append_nil]
      rw [hfl, List.reverse_append, List.append_assoc]
    | some e' =>
      obtain ⟨hlo, hhi⟩ := hb e' rfl
      obtain ⟨K1, K2, C1, c, C2, rfl, rfl, hK1, hC1, hKL, hKR, hpre, hc, hpost, hlo', hhi'⟩ :=
        inner_focus hch hlo hhi
      have hci : seekLastChild (some e') (⟨K1 ++ K2, C1 ++ c :: C2, sizes⟩ : Inner (Node k)) =
          searchInner (K1 ++ K2) e' := by
        simp only [seekLastChild, Inner.numChildren]
        have : ¬ searchInner (K1 ++ K2) e' ≥ (K1 ++ K2).length + 1 := by
          rw [← hK1]; simp only [List.length_append]; omega
        have hlt' : searchInner (K1 ++ K2) e' < (K1 ++ K2).length + 1 := by omega
        simp only [List.length_append] at hlt'
        simp
        intro hcontra
        omega
      rw [hci, getElem?_mid hC1]
      simp only
      have hstk' : StkOkD k (.push (⟨K1 ++ K2, C1 ++ c :: C2, sizes⟩ : Inner (Node k))
          (searchInner (K1 ++ K2) e') stk) := by
        refine ⟨hlen, by rw [← hC1]; simp only [List.length_append, List.length_cons]; omega, ?_, hstk⟩
        intro d hd
        simp only at hd
        rw [take_mid hC1] at hd
        exact hall d (by simp [hd])
      obtain ⟨i1, i2⟩ := seekLast_spec (some e') k c _ _ _ hc (hall c (by simp)) hstk'
        (fun e'' h => by cases h; exact ⟨hlo', hhi'⟩)
      refine ⟨i1, ?_⟩
      rw [i2]
      show (takeE (some e') (abs k c)).reverse ++
        ((flat k ((C1 ++ c :: C2).take (searchInner (K1 ++ K2) e'))).reverse ++ stkBefore (k + 1) stk) =
        (takeE (some e') (flat k (C1 ++ c :: C2))).reverse ++ stkBefore (k + 1) stk
      rw [take_mid hC1]
      simp only [takeE_some, flat_append, flat_cons]
      have hp : ∀ x ∈ flat k C1, (fun e : Entry => decide (e.1 < e')) x = true :=
        fun x hx => by simpa using pre_lt hpre hKL x hx
      have hq : ∀ x ∈ flat k C2, (fun e : Entry => decide (e.1 < e')) x = false :=
        fun x hx => by simpa using Lex.lt_asymm (post_gt hpost hKR x hx)
      rw [takeWhile_append_all _ hp, takeWhile_append_none _ hq]
      simp

theorem checkStart_valid (s : Option Key) (it : Iter) :
    (it.checkStart s).valid = (it.valid && !belowS s it.key) := by
  cases s with
  | none => simp [belowS]
  | some s =>
    simp only [Iter.checkStart, belowS]
    by_cases h : (it.valid && decide (it.key < s)) = true
    · rw [if_pos h]
      simp only [Bool.and_eq_true, decide_eq_true_eq] at h
      simp [h.1, h.2]
    · rw [if_neg h]
      cases hv : it.valid with
      | false => simp
      | true =>
        simp only [hv, Bool.true_and, decide_eq_true_eq] at h
        simp [h]

theorem checkStart_of_valid {s : Option Key} {it : Iter} (h : (it.checkStart s).valid = true) :
    it.checkStart s = it := by
  cases s with
  | none => rfl
  | some s =>
    simp only [Iter.checkStart] at h ⊢
    split at h
    · cases h
    · rename_i hc; rw [if_neg hc]

theorem next_desc_check (s e : Option Key) {it : Iter} (hv : it.valid = true) :
    it.next s e false = (it.next none e false).checkStart s := by
  simp only [Iter.next, hv, Bool.not_true, Bool.false_eq_true, if_false]
  by_cases h : it.leafIdx = 0
  · simp only [h, if_true]; exact prevLeaf_check s 0 _
  · simp only [h, if_false]; rfl

theorem next_desc_spec (e : Option Key) {it : Iter} (hv : it.valid = true) (hok : ItOkD it) :
    ItOkD (it.next none e false) ∧ remD it = it.cur :: remD (it.next none e false) := by
  obtain ⟨hlt, hstk⟩ := hok hv
  have htake : it.leaf.es.take (it.leafIdx + 1) = it.leaf.es.take it.leafIdx ++ [it.leaf.es[it.leafIdx]] :=
    take_succ_last _ _ hlt
  have hget : it.cur = it.leaf.es[it.leafIdx] := by
    simp [Iter.cur, List.getD_eq_getElem?_getD, hlt]
  have hrem : remD it = it.cur :: ((it.leaf.es.take it.leafIdx).reverse ++ stkBefore 0 it.stack) := by
    simp only [remD, hv, if_true]
    rw [htake, hget, List.reverse_append]
    rfl
  rw [hrem]
  simp only [Iter.next, hv, Bool.not_true, Bool.false_eq_true, if_false]
  by_cases h : it.leafIdx = 0
  · rw [if_pos h]
    obtain ⟨i1, i2⟩ := prevLeaf_spec 0 it.stack hstk
    refine ⟨i1, ?_⟩
    rw [i2, h, List.take_zero]
    rfl
  · rw [if_neg h]
    simp only [checkStart_none]
    refine ⟨fun _ => ⟨by show it.leafIdx - 1 < it.leaf.es.length; omega, hstk⟩, ?_⟩
    simp only [remD, if_true]
    rw [show it.leafIdx - 1 + 1 = it.leafIdx by omega]

/-- the `IterateRange` loop, descending. -/
theorem iterLoop_desc {σ : Type} (s e : Option Key) (fn : σ → Key → Val → σ × Bool) :
    ∀ (fuel : Nat) (it : Iter) (st : σ), ItOkD it → (remD it).length < fuel →
      iterLoop s e false fn fuel (it.checkStart s) st =
        iterList (fun (en : Entry) s => fn s en.1 en.2)
          ((remD it).takeWhile (fun x => !belowS s x.1)) st
  | 0, _, _, _, h => absurd h (Nat.not_lt_zero _)
  | fuel + 1, it, st, hok, hfuel => by
    simp only [iterLoop]
    by_cases hv : it.valid = true
    · obtain ⟨hok', hrem⟩ := next_desc_spec e hv hok
      have hkey : it.key = it.cur.1 := rfl
      have hvalid := checkStart_valid s it
      rw [hv, Bool.true_and, hkey] at hvalid
      rw [hrem] at hfuel ⊢
      by_cases hc : (!belowS s it.cur.1) = true
      · have hcv : (it.checkStart s).valid = true := by rw [hvalid]; exact hc
        have heq := checkStart_of_valid hcv
        simp only [hcv, Bool.not_true, Bool.false_eq_true, if_false]
        rw [heq]
        simp only [List.takeWhile_cons, hc, if_true, iterList]
        show (match fn st it.cur.1 it.cur.2 with
          | (st', stop) => if stop = true then (st', true)
              else iterLoop s e false fn fuel (it.next s e false) st') = _
        cases hfn : fn st it.cur.1 it.cur.2 with
        | mk st' stop =>
          simp only
          cases stop with
          | true => simp
          | false =>
            simp only [Bool.false_eq_true, if_false]
            rw [next_desc_check s e hv]
            exact iterLoop_desc s e fn fuel _ st' hok' (by simp at hfuel; omega)
      · have hc' : (!belowS s it.cur.1) = false := by simpa using hc
        have hcv : (it.checkStart s).valid = false := by rw [hvalid]; exact hc'
        simp only [hcv, Bool.not_false, if_true]
        simp only [List.takeWhile_cons, hc', Bool.false_eq_true, if_false, iterList]
    · have hv' : it.valid = false := by simpa using hv
      have : (it.checkStart s).valid = false := by rw [checkStart_valid, hv']; rfl
      simp only [this, Bool.not_false, if_true]
      simp only [remD, hv', Bool.false_eq_true, if_false, List.takeWhile_nil, iterList]

theorem range_filter_eq' {l : List Entry} (hs : OMap.Sorted l) (p q : Key → Bool)
    (hp : ∀ x y : Key, x < y → p y = true → p x = true)
    (hq : ∀ x y : Key, x < y → q y = true → q x = true) :
    l.filter (fun e => !p e.1 && q e.1) =
      (l.takeWhile (fun e => q e.1)).dropWhile (fun e => p e.1) := by
  induction l with
  | nil => rfl
  | cons x l ih =>
    have hs' := List.pairwise_cons.1 hs
    by_cases hqx : q x.1 = true
    · rw [List.takeWhile_cons]
      simp only [hqx, if_true]
      by_cases hx : p x.1 = true
      · rw [List.filter_cons, List.dropWhile_cons]
        simp only [hx, Bool.not_true, Bool.false_and, Bool.false_eq_true, if_false, if_true]
        exact ih hs'.2
      · have hx' : p x.1 = false := by simpa using hx
        have hall : ∀ y ∈ x :: l, p y.1 = false := by
          intro y hy
          rcases List.mem_cons.1 hy with rfl | hy
          · exact hx'
          · cases hpy : p y.1 with
            | false => rfl
            | true => exact absurd (hp _ _ (hs'.1 y hy) hpy) hx
        rw [List.dropWhile_cons]
        simp only [hx', Bool.false_eq_true, if_false]
        have h1 : x :: l.takeWhile (fun e => q e.1) = (x :: l).takeWhile (fun e => q e.1) := by
          rw [List.takeWhile_cons]; simp only [hqx, if_true]
        rw [h1, ← filter_eq_takeWhile hs q hq]
        apply List.filter_congr
        intro y hy
        simp [hall y hy]
    · have hqx' : q x.1 = false := by simpa using hqx
      rw [List.takeWhile_cons]
      simp only [hqx', Bool.false_eq_true, if_false, List.dropWhile_nil]
      rw [List.filter_eq_nil_iff]
      intro y hy
      have : q y.1 = false := by
        rcases List.mem_cons.1 hy with rfl | hy
        · exact hqx'
        · cases hqy : q y.1 with
          | false => rfl
          | true => exact absurd (hq _ _ (hs'.1 y hy) hqy) hqx
      simp [this]

theorem reverse_takeWhile_not {m : List Entry} (hs : OMap.Sorted m) (p : Key → Bool)
    (hp : ∀ x y : Key, x < y → p y = true → p x = true) :
    m.reverse.takeWhile (fun x => !p x.1) = (m.dropWhile (fun x => p x.1)).reverse := by
  induction m with
  | nil => rfl
  | cons x m ih =>
    have hs' := List.pairwise_cons.1 hs
    rw [List.reverse_cons, List.dropWhile_cons]
    by_cases hx : p x.1 = true
    · simp only [hx, if_true]
      rw [takeWhile_append_none _ (by intro y hy; simp at hy; subst hy; simp [hx])]
      exact ih hs'.2
    · have hx' : p x.1 = false := by simpa using hx
      simp only [hx', Bool.false_eq_true, if_false]
      rw [takeWhile_all, List.reverse_cons]
      intro y hy
      simp only [List.mem_append, List.mem_reverse, List.mem_cons, List.mem_nil_iff, or_false] at hy
      rcases hy with hy | rfl
      · cases hpy : p y.1 with
        | false => rfl
        | true => exact absurd (hp _ _ (hs'.1 y hy) hpy) hx
      · simp [hx']

theorem range_desc_eq {l : List Entry} (hs : OMap.Sorted l) (s e : Option Key) :
    OMap.range l s e false = ((takeE e l).reverse).takeWhile (fun x => !belowS s x.1) := by
  have hfil : l.filter (fun p => Lex.inDomain p.1 s e) =
      l.filter (fun x => !belowS s x.1 && belowE e x.1) :=
    List.filter_congr (fun x _ => inDomain_eq x.1 s e)
  simp only [OMap.range, Bool.false_eq_true, if_false, takeE]
  rw [hfil, range_filter_eq' hs (belowS s) (belowE e) (belowS_down s) (belowE_down e)]
  have hsub : OMap.Sorted (l.takeWhile (fun x => belowE e x.1)) :=
    List.Pairwise.sublist (List.takeWhile_sublist _) hs
  rw [reverse_takeWhile_not hsub (belowS s) (belowS_down s)]

/-- `IterateRange`, descending. -/
theorem iterateRange_desc {B : Nat} {σ : Type} {t : Tree} (ht : t.WF B)
    (s e : Option Key) (fn : σ → Key → Val → σ × Bool) (st : σ) :
    t.iterateRange s e false fn st =
      iterList (fun (en : Entry) s => fn s en.1 en.2) (OMap.range t.abs s e false) st := by
  cases t with
  | empty =>
    simp only [Tree.iterateRange, newIterator, Tree.size, iterLoop, Iter.invalid]
    simp [OMap.range, iterList]
  | node h root =>
    obtain ⟨hord, hocc⟩ := ht
    have hne := NE_of_ord_occ hord hocc
    obtain ⟨i1, i2⟩ := seekLast_spec e h root none none .nil hord hne trivial
      (fun _ _ => ⟨trivial, trivial⟩)
    simp only [Tree.iterateRange, newIterator, Bool.false_eq_true, if_false, Tree.abs_node]
    rw [seekLast_check, range_desc_eq hord.sorted]
    have hrem : remD (seekLast none e h root .nil) = (takeE e (abs h root)).reverse := by
      rw [i2]; simp [stkBefore]
    rw [← hrem]
    apply iterLoop_desc s e fn _ _ st i1
    rw [hrem]
    have : (takeE e (abs h root)).length ≤ (abs h root).length :=
      (List.takeWhile_sublist _).length_le
    show _ < nodeSize h root + 1
    rw [hord.size_eq, List.length_reverse]; omega

/-- `IterateRange` in both directions. -/
theorem iterateRange_ok {B : Nat} (_hB : 4 ≤ B) {σ : Type} {t : Tree} (ht : t.WF B)
    (s e : Option Key) (asc : Bool) (fn : σ → Key → Val → σ × Bool) (st : σ) :
    t.iterateRange s e asc fn st =
      iterList (fun (en : Entry) s => fn s en.1 en.2) (OMap.range t.abs s e asc) st := by
  cases asc with
  | true => exact iterateRange_asc ht s e fn st
  | false => exact iterateRange_desc ht s e fn st

end GnoVerif.C23
