import GnoVerif.Proofs.C06Shape
/-!
C06 — the heap-machine programs of realm 0 (harness/c06env/realms.go, realm ha):
every script performs only writes that the abstract theorems call valid, so the
reference-count clause and the no-dangling clause hold after every committed
transaction of every history of such scripts.
-/
namespace GnoVerif.C06
open State

/-! ### nodes and storable values -/

/-- `h` is the heap item of a node: past the ten deployment objects, of kind hiv, its only slot a
    struct (two slots, realm 0) past the deployment objects -/
def NodeH (s : State) (h : Nat) : Prop :=
  10 ≤ h ∧ h < s.heap.length ∧ (s.get h).kind = .hiv ∧
  ∃ S, (s.get h).kids = [some S] ∧ 10 ≤ S ∧ S < s.heap.length ∧ (s.get S).kind = .struct ∧
    (s.get S).kids.length = 2 ∧ (s.get S).pkg = 0

/-- a pointer value the program may hold or store: a node, neither its heap item nor its struct
    deleted, both with an id or both allocated in this transaction (addresses from `n0`) -/
def GoodVal (n0 : Nat) (s : State) (h : Nat) : Prop :=
  NodeH s h ∧ (s.get h).deleted = false ∧ (s.get (structOf s h)).deleted = false ∧
  ((s.isReal h = true ∧ s.isReal (structOf s h) = true) ∨ (n0 ≤ h ∧ n0 ≤ structOf s h))

/-- the state grew or changed counts/flags/one slot of a struct or root, but: size not smaller; per old
    object kind, realm stamp, deleted flag, id time and number of slots unchanged; slots of heap items
    past the deployment objects unchanged -/
def Ext (s s' : State) : Prop :=
  s.heap.length ≤ s'.heap.length ∧
  ∀ x, x < s.heap.length →
    (s'.get x).kind = (s.get x).kind ∧ (s'.get x).pkg = (s.get x).pkg ∧ (s'.get x).deleted = (s.get x).deleted ∧
    (s'.get x).time = (s.get x).time ∧ (s'.get x).kids.length = (s.get x).kids.length ∧
    (10 ≤ x → (s.get x).kind = .hiv → (s'.get x).kids = (s.get x).kids)

theorem Ext.refl (s : State) : Ext s s := ⟨Nat.le_refl _, fun _ _ => ⟨rfl, rfl, rfl, rfl, rfl, fun _ _ => rfl⟩⟩

theorem Ext.trans {s1 s2 s3 : State} (h1 : Ext s1 s2) (h2 : Ext s2 s3) : Ext s1 s3 := by
  refine ⟨Nat.le_trans h1.1 h2.1, fun x hx => ?_⟩
  have a := h1.2 x hx
  have b := h2.2 x (Nat.lt_of_lt_of_le hx h1.1)
  refine ⟨b.1.trans a.1, b.2.1.trans a.2.1, b.2.2.1.trans a.2.2.1, b.2.2.2.1.trans a.2.2.2.1,
    b.2.2.2.2.1.trans a.2.2.2.2.1, fun h10 hk => ?_⟩
  rw [b.2.2.2.2.2 h10 (by rw [a.1]; exact hk), a.2.2.2.2.2 h10 hk]

theorem Ext.nodeH {s s' : State} (e : Ext s s') {h : Nat} (hn : NodeH s h) : NodeH s' h := by
  obtain ⟨h10, hl, hk, S, hkids, hS10, hSl, hSk, hSn, hSp⟩ := hn
  have a := e.2 h hl
  have b := e.2 S hSl
  exact ⟨h10, Nat.lt_of_lt_of_le hl e.1, by rw [a.1]; exact hk, S, by rw [a.2.2.2.2.2 h10 hk]; exact hkids, hS10,
    Nat.lt_of_lt_of_le hSl e.1, by rw [b.1]; exact hSk, by rw [b.2.2.2.2.1]; exact hSn, by rw [b.2.1]; exact hSp⟩

theorem structOf_nodeH {s : State} {h : Nat} (hn : NodeH s h) :
    ∃ S, structOf s h = S ∧ (s.get h).kids = [some S] ∧ 10 ≤ S ∧ S < s.heap.length ∧ (s.get S).kind = .struct ∧
      (s.get S).kids.length = 2 ∧ (s.get S).pkg = 0 := by
  obtain ⟨_, _, _, S, hkids, r⟩ := hn
  exact ⟨S, by simp [structOf, hkids], hkids, r⟩

theorem Ext.structOf {s s' : State} (e : Ext s s') {h : Nat} (hn : NodeH s h) : structOf s' h = structOf s h := by
  obtain ⟨h10, hl, hk, S, hkids, _⟩ := hn
  unfold GnoVerif.C06.structOf
  rw [(e.2 h hl).2.2.2.2.2 h10 hk]

theorem Ext.isReal {s s' : State} (e : Ext s s') {x : Nat} (hx : x < s.heap.length) : s'.isReal x = s.isReal x := by
  unfold State.isReal; rw [(e.2 x hx).2.2.2.1]

theorem Ext.goodVal {s s' : State} (e : Ext s s') {n0 h : Nat} (hg : GoodVal n0 s h) : GoodVal n0 s' h := by
  obtain ⟨hn, hd, hsd, hr⟩ := hg
  obtain ⟨S, hS, _, _, hSl, _⟩ := structOf_nodeH hn
  have hl := hn.2.1
  rw [hS] at hsd hr
  refine ⟨e.nodeH hn, by rw [(e.2 h hl).2.2.1]; exact hd, ?_, ?_⟩
  · rw [e.structOf hn, hS, (e.2 S hSl).2.2.1]; exact hsd
  · rw [e.structOf hn, hS, e.isReal hl, e.isReal hSl]; exact hr

/-! ### the steps of a script keep old objects recognisable -/

theorem ext_didUpdate (s : State) (r po : Nat) (xo co : Option Nat) : Ext s (didUpdate s r po xo co) := by
  have sh := sameShape_didUpdate s r po xo co
  have s2 : Shape2 s (didUpdate s r po xo co) := (primS_shape2 s).keepDidUpdate s r po xo co ⟨rfl, fun _ => ⟨rfl, rfl, rfl, id, id⟩⟩
  refine ⟨Nat.le_of_eq sh.1.symm, fun x _ => ?_⟩
  have a := sh.2 x
  have b := s2.2 x
  exact ⟨b.2.1, a.2.1, a.2.2.1, a.2.2.2, a.1, fun _ _ => b.1⟩

theorem ext_setSlot (s : State) (po i : Nat) (v : Option Nat) (hpo : ¬ (10 ≤ po ∧ (s.get po).kind = .hiv)) :
    Ext s (setSlot s po i v) := by
  refine ⟨Nat.le_of_eq (length_setSlot s po i v).symm, fun x _ => ?_⟩
  rw [get_setSlot]
  split
  · rename_i h
    rw [h.1]
    refine ⟨rfl, rfl, rfl, rfl, by simp, fun h10 hk => ?_⟩
    have : 10 ≤ po ∧ (s.get po).kind = .hiv := ⟨h10, hk⟩
    exact absurd this hpo
  · exact ⟨rfl, rfl, rfl, rfl, rfl, fun _ _ => rfl⟩

theorem ext_assign (s : State) (cur po i : Nat) (v : Option Nat) (hpo : ¬ (10 ≤ po ∧ (s.get po).kind = .hiv)) :
    Ext s (assign s cur po i v) := by
  unfold assign
  simp only []
  exact (ext_setSlot s po i v hpo).trans (ext_didUpdate _ cur po _ v)

theorem ext_alloc (s : State) (k : Kind) (p : Nat) (kids : List (Option Nat)) : Ext s (allocObj s k p kids) := by
  refine ⟨by rw [length_alloc]; omega, fun x hx => ?_⟩
  rw [get_alloc]; simp [hx]

/-! ### the invariant of a running script of realm 0 -/

/-- an object whose slots the script can read: a root variable of realm 0, or the struct of a node
    that is not deleted and has an id or is new -/
def Holder (n0 : Nat) (s : State) (x : Nat) : Prop :=
  (∃ i, i < 4 ∧ x = rootAddr 0 i) ∨
  (10 ≤ x ∧ x < s.heap.length ∧ (s.get x).kind = .struct ∧ (s.get x).deleted = false ∧ (s.isReal x = true ∨ n0 ≤ x))

/-- the package block of realm 0 is where deployment left it -/
def BlockOK (s : State) : Prop :=
  (s.get 0).kind = .block ∧ s.isReal 0 = true ∧ (s.get 0).kids = [some 1, some 2, some 3, some 4]

/-- a root variable of realm 0, or a struct past the deployment objects -/
def SlotOwner (s : State) (x : Nat) : Prop :=
  (∃ i, i < 4 ∧ x = rootAddr 0 i) ∨ (10 ≤ x ∧ x < s.heap.length ∧ (s.get x).kind = .struct)

/-- every slot of a root or of a struct holds nil or a node -/
def Typed (s : State) : Prop := ∀ x, SlotOwner s x → ∀ h, some h ∈ (s.get x).kids → NodeH s h

theorem Ext.slotOwner {s s' : State} (e : Ext s s') (hl : s'.heap.length = s.heap.length) {x : Nat}
    (h : SlotOwner s' x) : SlotOwner s x := by
  rcases h with h | ⟨h10, hx, hk⟩
  · exact Or.inl h
  · rw [hl] at hx
    exact Or.inr ⟨h10, hx, by rw [← (e.2 x hx).1]; exact hk⟩

structure ProgInv (n0 : Nat) (m : Tx) : Prop where
  tx : InTx2 n0 m.s 0
  old : 10 ≤ n0
  roots : ∀ i, i < 4 → rootAddr 0 i < m.s.heap.length ∧ (m.s.get (rootAddr 0 i)).kids.length = 1 ∧
    (m.s.get (rootAddr 0 i)).pkg = 0 ∧ (m.s.get (rootAddr 0 i)).deleted = false
  regs : ∀ i h, m.reg i = some h → GoodVal n0 m.s h
  slots : ∀ x, Holder n0 m.s x → ∀ h, some h ∈ (m.s.get x).kids → GoodVal n0 m.s h
  block : BlockOK m.s
  typed : Typed m.s
  rootsReal : ∀ i, i < 4 → m.s.isReal (rootAddr 0 i) = true

theorem Ext.holder {s s' : State} (e : Ext s s') (hl : s'.heap.length = s.heap.length) {n0 x : Nat}
    (h : Holder n0 s' x) : Holder n0 s x := by
  rcases h with h | ⟨h10, hx, hk, hd, hr⟩
  · exact Or.inl h
  · rw [hl] at hx
    have a := e.2 x hx
    exact Or.inr ⟨h10, hx, by rw [← a.1]; exact hk, by rw [← a.2.2.1]; exact hd, by rw [← e.isReal hx]; exact hr⟩

theorem goodVal_attachable {n0 : Nat} {s : State} {h : Nat} (g : GoodVal n0 s h) : attachable n0 s (some h) := by
  intro c hc
  cases hc
  refine ⟨g.2.1, fun hu => ?_⟩
  rcases g.2.2.2 with hr | hr
  · rw [hr.1] at hu; exact absurd hu (by decide)
  · exact hr.1

theorem reg_setReg (m : Tx) (i j : Nat) (v : Option Nat) :
    (m.setReg i v).reg j = if j = i ∧ i < m.regs.length then v else m.reg j := by
  unfold Tx.setReg Tx.reg
  simp only [List.getD_eq_getElem?_getD, List.getElem?_set]
  by_cases h : j = i
  · subst h
    by_cases hl : j < m.regs.length
    · simp [hl]
    · simp [hl]
  · have : ¬ i = j := fun e => h e.symm
    simp [h, this]

/-- storing a good value (or nil) in a register -/
theorem progInv_setReg (n0 : Nat) (m : Tx) (i : Nat) (v : Option Nat) (h : ProgInv n0 m)
    (hv : ∀ c, v = some c → GoodVal n0 m.s c) : ProgInv n0 (m.setReg i v) := by
  refine ⟨h.tx, h.old, h.roots, fun j c hj => ?_, h.slots, h.block, h.typed, h.rootsReal⟩
  rw [reg_setReg] at hj
  split at hj
  · exact hv c hj
  · exact h.regs j c hj

theorem mem_of_getD {l : List (Option Nat)} {i h : Nat} (e : l.getD i none = some h) : some h ∈ l := by
  rw [List.getD_eq_getElem?_getD] at e
  cases hg : l[i]? with
  | none => rw [hg] at e; cases e
  | some v =>
    rw [hg] at e
    simp only [Option.getD_some] at e
    rw [← e]
    exact List.mem_of_getElem? hg

/-- a value read from a slot of a holder is good -/
theorem progInv_slot (n0 : Nat) (m : Tx) (x i : Nat) (h : ProgInv n0 m) (hx : Holder n0 m.s x) :
    ∀ c, slot m.s x i = some c → GoodVal n0 m.s c :=
  fun c hc => h.slots x hx c (mem_of_getD hc)

/-- the struct behind a good value is a holder with two slots in realm 0 -/
theorem goodVal_holder {n0 : Nat} {s : State} {h : Nat} (g : GoodVal n0 s h) :
    Holder n0 s (structOf s h) ∧ (s.get (structOf s h)).kids.length = 2 ∧ (s.get (structOf s h)).pkg = 0 ∧
      structOf s h < s.heap.length ∧ (s.get (structOf s h)).kind = .struct := by
  obtain ⟨S, hS, _, hS10, hSl, hSk, hSn, hSp⟩ := structOf_nodeH g.1
  rw [hS]
  have hd := g.2.2.1
  rw [hS] at hd
  refine ⟨Or.inr ⟨hS10, hSl, hSk, hd, ?_⟩, hSn, hSp, hSl, hSk⟩
  rcases g.2.2.2 with hr | hr
  · left; rw [← hS]; exact hr.2
  · right; rw [← hS]; exact hr.2

/-! ### the instructions -/

theorem shape2_refl (s : State) : Shape2 s s := ⟨rfl, fun _ => ⟨rfl, rfl, rfl, id, id⟩⟩

theorem kids_assign (s : State) (cur po i : Nat) (v : Option Nat) (x : Nat) :
    ((assign s cur po i v).get x).kids = ((setSlot s po i v).get x).kids := by
  unfold assign
  simp only []
  exact (((primS_shape2 (setSlot s po i v)).keepDidUpdate (setSlot s po i v) cur po (slot s po i) v (shape2_refl _)).2 x).1

/-- `po.slot[i] = t[b]` for a root or a node's struct -/
theorem progInv_assign (n0 : Nat) (m : Tx) (po i : Nat) (v : Option Nat) (h : ProgInv n0 m)
    (hpo : po < m.s.heap.length) (hi : i < (m.s.get po).kids.length) (hpk : (m.s.get po).pkg = 0)
    (hpd : (m.s.get po).deleted = false) (hnh : ¬ (10 ≤ po ∧ (m.s.get po).kind = .hiv)) (hp0 : po ≠ 0)
    (hv : ∀ c, v = some c → GoodVal n0 m.s c) :
    ProgInv n0 { m with s := assign m.s 0 po i v } := by
  have hvalid : (Op.write ⟨po, i, v⟩).valid2 n0 m.s 0 := by
    refine ⟨⟨hpo, hi, fun c hc => (hv c hc).1.2.1, fun _ => ⟨hpk, hpd⟩⟩, fun c hc => ?_⟩
    exact goodVal_attachable (hv c hc) c rfl
  have htx := assign_inTx2 n0 m.s 0 ⟨po, i, v⟩ h.tx hvalid
  have e := ext_assign m.s 0 po i v hnh
  have hl : (assign m.s 0 po i v).heap.length = m.s.heap.length := (sameShape_assign m.s 0 po i v).1
  have h0l : 0 < m.s.heap.length := by have := h.tx.start; have := h.old; omega
  refine ⟨htx, h.old, fun j hj => ?_, fun j c hj => e.goodVal (h.regs j c hj), fun x hx c hc => ?_, ?_, fun x hx c hc => ?_,
    fun j hj => by rw [e.isReal (h.roots j hj).1]; exact h.rootsReal j hj⟩
  · obtain ⟨r1, r2, r3, r4⟩ := h.roots j hj
    have a := e.2 (rootAddr 0 j) r1
    exact ⟨by rw [hl]; exact r1, by rw [a.2.2.2.2.1]; exact r2, by rw [a.2.1]; exact r3, by rw [a.2.2.1]; exact r4⟩
  · have hx0 := e.holder hl hx
    rw [kids_assign, get_setSlot] at hc
    by_cases hxp : x = po ∧ po < m.s.heap.length
    · rw [if_pos hxp] at hc
      simp only at hc
      rcases List.mem_or_eq_of_mem_set hc with hm | he
      · exact e.goodVal (h.slots x hx0 c (by rw [hxp.1]; exact hm))
      · exact e.goodVal (hv c he.symm)
    · rw [if_neg hxp] at hc
      exact e.goodVal (h.slots x hx0 c hc)
  · obtain ⟨b1, b2, b3⟩ := h.block
    refine ⟨by rw [(e.2 0 h0l).1]; exact b1, by rw [e.isReal h0l]; exact b2, ?_⟩
    rw [kids_assign, get_setSlot, if_neg (fun hh => hp0 hh.1.symm)]; exact b3
  · have hx0 := e.slotOwner hl hx
    rw [kids_assign, get_setSlot] at hc
    by_cases hxp : x = po ∧ po < m.s.heap.length
    · rw [if_pos hxp] at hc
      simp only at hc
      rcases List.mem_or_eq_of_mem_set hc with hm | he
      · exact e.nodeH (h.typed x hx0 c (by rw [hxp.1]; exact hm))
      · exact e.nodeH (hv c he.symm).1
    · rw [if_neg hxp] at hc
      exact e.nodeH (h.typed x hx0 c hc)

theorem allocNode_eq (s : State) :
    allocNode s 0 = (allocObj (allocObj s .struct 0 [none, none]) .hiv 0 [some s.heap.length], s.heap.length + 1) := by
  unfold allocNode allocObj freshObj
  simp [List.append_assoc]

/-- `t[a] = &Node{}` -/
theorem progInv_alloc (n0 : Nat) (m : Tx) (a : Nat) (h : ProgInv n0 m) :
    ProgInv n0 ({ m with s := (allocNode m.s 0).1 }.setReg a (some (allocNode m.s 0).2)) := by
  rw [allocNode_eq]
  simp only []
  have hn0 := h.tx.start
  have hold10 := h.old
  -- two allocations
  have v1 : (Op.alloc .struct 0 [none, none]).valid2 n0 m.s 0 := by
    refine ⟨⟨by decide, fun c hc => by simp at hc⟩, fun c hc => by simp at hc⟩
  have t1 := alloc_inTx2 n0 m.s 0 .struct 0 [none, none] h.tx v1
  have e1 := ext_alloc m.s .struct 0 [none, none]
  generalize hs1 : allocObj m.s .struct 0 [none, none] = s1 at t1 e1
  have hl1 : s1.heap.length = m.s.heap.length + 1 := by rw [← hs1]; exact length_alloc _ _ _ _
  have hget1 : s1.get m.s.heap.length = freshObj .struct 0 [none, none] := by
    rw [← hs1, get_alloc]; simp
  have v2 : (Op.alloc .hiv 0 [some m.s.heap.length]).valid2 n0 s1 0 := by
    refine ⟨⟨by decide, fun c hc => ?_⟩, fun c hc _ => ?_⟩
    · simp only [List.mem_singleton, Option.some.injEq] at hc; rw [hc, hl1]; omega
    · simp only [List.mem_singleton, Option.some.injEq] at hc
      intro c' hc'
      cases hc'
      rw [hc, hget1]
      exact ⟨rfl, fun _ => hn0⟩
  have t2 := alloc_inTx2 n0 s1 0 .hiv 0 [some m.s.heap.length] t1 v2
  have e2 := ext_alloc s1 .hiv 0 [some m.s.heap.length]
  generalize hs2 : allocObj s1 .hiv 0 [some m.s.heap.length] = s2 at t2 e2
  have e := e1.trans e2
  have hl2 : s2.heap.length = m.s.heap.length + 2 := by rw [← hs2, length_alloc, hl1]
  have hgetS : s2.get m.s.heap.length = freshObj .struct 0 [none, none] := by
    rw [← hs2, get_alloc]; simp [hl1, hget1]
  have hgetH : s2.get (m.s.heap.length + 1) = freshObj .hiv 0 [some m.s.heap.length] := by
    rw [← hs2, get_alloc]; simp [hl1]
  have hgood : GoodVal n0 s2 (m.s.heap.length + 1) := by
    have hstruct : structOf s2 (m.s.heap.length + 1) = m.s.heap.length := by
      simp [structOf, hgetH, freshObj]
    refine ⟨⟨by omega, by rw [hl2]; omega, by rw [hgetH]; rfl, m.s.heap.length, by rw [hgetH]; rfl, by omega,
      by rw [hl2]; omega, by rw [hgetS]; rfl, by rw [hgetS]; rfl, by rw [hgetS]; rfl⟩, by rw [hgetH]; rfl,
      by rw [hstruct, hgetS]; rfl, Or.inr ⟨by omega, by rw [hstruct]; exact hn0⟩⟩
  have hkidsOld : ∀ x, x < m.s.heap.length → (s2.get x).kids = (m.s.get x).kids := fun x hx => by
    rw [← hs2, get_alloc, hl1, if_pos (by omega), ← hs1, get_alloc, if_pos hx]
  have h0l : 0 < m.s.heap.length := by omega
  apply progInv_setReg n0 { m with s := s2 } a (some (m.s.heap.length + 1)) ?_ (fun c hc => by cases hc; exact hgood)
  refine ⟨t2, h.old, fun j hj => ?_, fun j c hj => e.goodVal (h.regs j c hj), fun x hx c hc => ?_, ?_, fun x hx c hc => ?_,
    fun j hj => by rw [e.isReal (h.roots j hj).1]; exact h.rootsReal j hj⟩
  · obtain ⟨r1, r2, r3, r4⟩ := h.roots j hj
    have a := e.2 (rootAddr 0 j) r1
    exact ⟨by rw [hl2]; omega, by rw [a.2.2.2.2.1]; exact r2, by rw [a.2.1]; exact r3, by rw [a.2.2.1]; exact r4⟩
  · -- holders of the larger heap: old holders, or the new struct (whose slots are nil)
    by_cases hold : x < m.s.heap.length
    · have hx0 : Holder n0 m.s x := by
        rcases hx with hx | ⟨h10, _, hk, hd, hr⟩
        · exact Or.inl hx
        · have a := e.2 x hold
          exact Or.inr ⟨h10, hold, by rw [← a.1]; exact hk, by rw [← a.2.2.1]; exact hd, by rw [← e.isReal hold]; exact hr⟩
      have hk : (s2.get x).kids = (m.s.get x).kids := by
        rw [← hs2, get_alloc, hl1, if_pos (by omega), ← hs1, get_alloc, if_pos hold]
      rw [hk] at hc
      exact e.goodVal (h.slots x hx0 c hc)
    · rcases hx with ⟨j, hj, hxj⟩ | ⟨_, hxl, hk, _, _⟩
      · have := (h.roots j hj).1; omega
      · rw [hl2] at hxl
        have : x = m.s.heap.length ∨ x = m.s.heap.length + 1 := by omega
        rcases this with hx | hx
        · rw [hx, hgetS] at hc; simp [freshObj] at hc
        · rw [hx, hgetH] at hk; simp [freshObj] at hk
  · obtain ⟨b1, b2, b3⟩ := h.block
    exact ⟨by rw [(e.2 0 h0l).1]; exact b1, by rw [e.isReal h0l]; exact b2, by rw [hkidsOld 0 h0l]; exact b3⟩
  · by_cases hold : x < m.s.heap.length
    · have hx0 : SlotOwner m.s x := by
        rcases hx with hx | ⟨h10, _, hk⟩
        · exact Or.inl hx
        · exact Or.inr ⟨h10, hold, by rw [← (e.2 x hold).1]; exact hk⟩
      rw [hkidsOld x hold] at hc
      exact e.nodeH (h.typed x hx0 c hc)
    · rcases hx with ⟨j, hj, hxj⟩ | ⟨_, hxl, hk⟩
      · have := (h.roots j hj).1; omega
      · rw [hl2] at hxl
        have : x = m.s.heap.length ∨ x = m.s.heap.length + 1 := by omega
        rcases this with hx | hx
        · rw [hx, hgetS] at hc; simp [freshObj] at hc
        · rw [hx, hgetH] at hk; simp [freshObj] at hk

/-- a step that only marks an object dirty -/
theorem progInv_quiet (n0 : Nat) (m : Tx) (s' : State) (h : ProgInv n0 m) (q : Quiet m.s s' 0) :
    ProgInv n0 { m with s := s' } := by
  have sc := q.core
  have hreal := sc.isReal
  have hfull : ∀ x, (s'.get x).kind = (m.s.get x).kind ∧ (s'.get x).pkg = (m.s.get x).pkg ∧
      (s'.get x).deleted = (m.s.get x).deleted ∧ (s'.get x).time = (m.s.get x).time ∧ (s'.get x).kids = (m.s.get x).kids :=
    fun x => ⟨congrArg Core.kind (sc.2 x), congrArg Core.pkg (sc.2 x), congrArg Core.deleted (sc.2 x),
      congrArg Core.time (sc.2 x), congrArg Core.kids (sc.2 x)⟩
  have e : Ext m.s s' := ⟨Nat.le_of_eq sc.1.symm, fun x _ =>
    ⟨(hfull x).1, (hfull x).2.1, (hfull x).2.2.1, (hfull x).2.2.2.1, by rw [(hfull x).2.2.2.2], fun _ _ => (hfull x).2.2.2.2⟩⟩
  refine ⟨⟨⟨sc.wf h.tx.base.wf, sc.rci h.tx.base.rci, q.markInv h.tx.base.marks⟩, by rw [sc.1]; exact h.tx.start,
      sc.dz h.tx.dz, sc.ud h.tx.ud, fun a ha => ?_⟩, h.old, fun j hj => ?_,
    fun j c hj => e.goodVal (h.regs j c hj), fun x hx c hc => ?_, ?_, fun x hx c hc => ?_,
    fun j hj => by rw [hreal]; exact h.rootsReal j hj⟩
  · rw [hreal]; exact h.tx.marked a (by rw [← q.newCreated]; exact ha)
  · obtain ⟨r1, r2, r3, r4⟩ := h.roots j hj
    exact ⟨by rw [sc.1]; exact r1, by rw [(hfull _).2.2.2.2]; exact r2, by rw [(hfull _).2.1]; exact r3,
      by rw [(hfull _).2.2.1]; exact r4⟩
  · rw [(hfull x).2.2.2.2] at hc
    exact e.goodVal (h.slots x (e.holder sc.1 hx) c hc)
  · obtain ⟨b1, b2, b3⟩ := h.block
    exact ⟨by rw [(hfull 0).1]; exact b1, by rw [hreal]; exact b2, by rw [(hfull 0).2.2.2.2]; exact b3⟩
  · rw [(hfull x).2.2.2.2] at hc
    exact e.nodeH (h.typed x (e.slotOwner sc.1 hx) c hc)

theorem quiet_didUpdate_nn (s : State) (r po : Nat) (hp : (s.get po).pkg = r) (hr : r < s.marks.length) :
    Quiet s (didUpdate s r po none none) r := by
  by_cases hreal : s.isReal po = true
  · have e : didUpdate s r po none none = markDirty s r po := by simp [didUpdate, hreal, hp]
    rw [e]; exact quiet_markDirty s r po hr
  · have hreal' : s.isReal po = false := by simpa using hreal
    have e : didUpdate s r po none none = s := by simp [didUpdate, hreal']
    rw [e]; exact Quiet.refl s r

theorem rootAddr0_lt (i : Nat) : rootAddr 0 (i % 4) < 10 := by
  unfold rootAddr; omega

theorem holder_root (n0 : Nat) (s : State) (i : Nat) : Holder n0 s (rootAddr 0 (i % 4)) :=
  Or.inl ⟨i % 4, Nat.mod_lt _ (by decide), rfl⟩

/-- one instruction of a script of realm 0: either the script panics, or the invariant is kept -/
theorem step0_progInv (n0 : Nat) (m : Tx) (op : Char) (a b : Nat) (h : ProgInv n0 m) :
    (step 0 m op a b).s.err = true ∨ ProgInv n0 (step 0 m op a b) := by
  have hregs := h.regs
  have hstore : ∀ i, i < 2 → (match m.reg a with
      | none => m.fail
      | some hh => ({ m with s := assign m.s 0 (structOf m.s hh) i (m.reg b) } : Tx)).s.err = true ∨
      ProgInv n0 (match m.reg a with
      | none => m.fail
      | some hh => ({ m with s := assign m.s 0 (structOf m.s hh) i (m.reg b) } : Tx)) := by
    intro i hi
    cases hra : m.reg a with
    | none => exact Or.inl rfl
    | some hh =>
      right
      obtain ⟨_, hk2, hpk, hSl, hSk⟩ := goodVal_holder (hregs a hh hra)
      have hd := (hregs a hh hra).2.2.1
      have hS10 : 10 ≤ structOf m.s hh := by
        obtain ⟨S, hS, _, h10, _⟩ := structOf_nodeH (hregs a hh hra).1
        rw [hS]; exact h10
      exact progInv_assign n0 m (structOf m.s hh) i (m.reg b) h hSl (by rw [hk2]; exact hi) hpk hd
        (fun hc => by rw [hSk] at hc; exact absurd hc.2 (by decide)) (by omega) (fun c hc => hregs b c hc)
  have hload : ∀ i, (match m.reg b with
      | none => m.fail
      | some hh => m.setReg a (slot m.s (structOf m.s hh) i)).s.err = true ∨
      ProgInv n0 (match m.reg b with
      | none => m.fail
      | some hh => m.setReg a (slot m.s (structOf m.s hh) i)) := by
    intro i
    cases hrb : m.reg b with
    | none => exact Or.inl rfl
    | some hh =>
      right
      exact progInv_setReg n0 m a _ h (progInv_slot n0 m _ i h (goodVal_holder (hregs b hh hrb)).1)
  unfold step
  simp only []
  split
  · exact Or.inr (progInv_setReg n0 m a (m.reg b) h (fun c hc => hregs b c hc))
  · exact Or.inr (progInv_setReg n0 m a none h (fun c hc => by cases hc))
  · exact Or.inr (progInv_setReg n0 m a _ h (progInv_slot n0 m _ 0 h (holder_root n0 m.s b)))
  · right
    obtain ⟨r1, r2, r3, r4⟩ := h.roots (a % 4) (Nat.mod_lt _ (by decide))
    exact progInv_assign n0 m (rootAddr 0 (a % 4)) 0 (m.reg b) h r1 (by rw [r2]; decide) r3 r4
      (fun hc => by have := rootAddr0_lt a; omega) (by unfold rootAddr; omega) (fun c hc => hregs b c hc)
  · exact hload 0
  · exact hload 1
  · simp only [if_true]
    exact Or.inr (progInv_alloc n0 m a h)
  · simp only [if_true]
    exact hstore 0 (by decide)
  · simp only [if_true]
    exact hstore 1 (by decide)
  · simp only [if_true]
    cases hra : m.reg a with
    | none => exact Or.inl rfl
    | some hh =>
      right
      obtain ⟨_, _, hpk, _, _⟩ := goodVal_holder (hregs a hh hra)
      exact progInv_quiet n0 m _ h (quiet_didUpdate_nn m.s 0 (structOf m.s hh) hpk h.tx.base.marks.realm)
  · exact Or.inl rfl
  · exact Or.inl rfl
  · exact Or.inl rfl

/-- a whole script -/
theorem runScript0_progInv (n0 : Nat) : ∀ (n : Nat) (script : List Char) (m : Tx), script.length ≤ n → ProgInv n0 m →
    (runScript 0 script m).s.err = true ∨ ProgInv n0 (runScript 0 script m) := by
  intro n
  induction n with
  | zero =>
    intro script m hl h
    have : script = [] := List.eq_nil_of_length_eq_zero (by omega)
    subst this
    exact Or.inr h
  | succ n ih =>
    intro script m hl h
    match script with
    | [] => exact Or.inr h
    | [_] => exact Or.inr h
    | [_, _] => exact Or.inr h
    | op :: a :: b :: rest =>
      show (if m.s.err then m else runScript 0 rest (step 0 m op (operand a) (operand b))).s.err = true ∨
        ProgInv n0 (if m.s.err then m else runScript 0 rest (step 0 m op (operand a) (operand b)))
      split
      · exact Or.inr h
      · rcases step0_progInv n0 m op (operand a) (operand b) h with he | hp
        · -- a panicked machine stays panicked: the rest of the script is skipped
          left
          have hskip : ∀ (k : Nat) (sc : List Char) (m' : Tx), sc.length ≤ k → m'.s.err = true →
              (runScript 0 sc m').s.err = true := by
            intro k
            induction k with
            | zero =>
              intro sc m' hk he'
              have : sc = [] := List.eq_nil_of_length_eq_zero (by omega)
              subst this; exact he'
            | succ k ihk =>
              intro sc m' hk he'
              match sc with
              | [] => exact he'
              | [_] => exact he'
              | [_, _] => exact he'
              | o :: x :: y :: r =>
                show (if m'.s.err then m' else runScript 0 r (step 0 m' o (operand x) (operand y))).s.err = true
                rw [if_pos he']; exact he'
          exact hskip rest.length rest _ (Nat.le_refl _) he
        · exact ih rest _ (by simp only [List.length_cons] at hl; omega) hp

/-! ### transaction boundaries of realm 0 programs -/

/-- the boundary invariant: the abstract one plus what the scripts need about roots and slots -/
structure Boundary (s : State) : Prop where
  q : Quiescent2 s 0
  old : 10 ≤ s.heap.length
  block : BlockOK s
  roots : ∀ i, i < 4 → (s.get (rootAddr 0 i)).kids.length = 1 ∧ (s.get (rootAddr 0 i)).pkg = 0 ∧
    s.isReal (rootAddr 0 i) = true
  typed : Typed s

theorem counted_iff (o : Obj) : counted o = true ↔ (o.time ≠ 0 ∧ o.deleted = false) := by
  unfold counted
  cases o.deleted <;> simp

theorem reg_fresh (s : State) (i : Nat) : ({ s := s } : Tx).reg i = none := by
  unfold Tx.reg
  simp only [List.getD_eq_getElem?_getD, List.getElem?_replicate]
  split <;> rfl

/-- at a boundary the block and the roots of realm 0 are counted -/
theorem Boundary.anchors {s : State} (b : Boundary s) :
    counted (s.get 0) = true ∧ ∀ i, i < 4 → counted (s.get (rootAddr 0 i)) = true := by
  have hq := b.q.base
  have h0l : 0 < s.heap.length := by have := b.old; omega
  obtain ⟨bk, br, bkids⟩ := b.block
  have hblock : counted (s.get 0) = true := by
    rw [counted_iff]
    refine ⟨by simpa [State.isReal] using br, ?_⟩
    cases hd : (s.get 0).deleted with
    | false => rfl
    | true =>
      have h1 := b.q.dz 0 hd
      have h2 : (s.get 0).rc + 0 = refs s 0 + pinned (s.get 0) := hq.rci 0 h0l
      have h3 : pinned (s.get 0) = 2 := by simp [pinned, bk]
      have h4 : 0 ≤ refs s 0 := sumTo_nonneg _ _ (fun q => contrib_nonneg _ _)
      omega
  refine ⟨hblock, fun i hi => ?_⟩
  have hr := b.roots i hi
  have hil : rootAddr 0 i < s.heap.length := by unfold rootAddr; have := b.old; omega
  rw [counted_iff]
  refine ⟨by simpa [State.isReal] using hr.2.2, ?_⟩
  cases hd : (s.get (rootAddr 0 i)).deleted with
  | false => rfl
  | true =>
    have h1 := b.q.dz _ hd
    have h2 : (s.get (rootAddr 0 i)).rc + 0 = refs s (rootAddr 0 i) + pinned (s.get (rootAddr 0 i)) := hq.rci _ hil
    have h3 := pinned_nonneg (s.get (rootAddr 0 i))
    have h4 : (1 : Int) ≤ contrib (s.get 0) (rootAddr 0 i) := by
      simp only [contrib, hblock, if_true, bkids]
      have : i = 0 ∨ i = 1 ∨ i = 2 ∨ i = 3 := by omega
      rcases this with h | h | h | h <;> subst h <;> decide
    have h5 : contrib (s.get 0) (rootAddr 0 i) ≤ refs s (rootAddr 0 i) :=
      sumTo_ge_term s.heap.length (fun q => contrib (s.get q) (rootAddr 0 i)) (fun q => contrib_nonneg _ _) 0 h0l
    omega

/-- a boundary is a good start for a script -/
theorem Boundary.progInv {s : State} (b : Boundary s) : ProgInv s.heap.length { s := s } := by
  obtain ⟨hblock, hroots⟩ := b.anchors
  have nd := b.q.noDangling
  refine ⟨b.q.inTx2, b.old, fun i hi => ?_, fun i h hr => ?_, fun x hx h hh => ?_, b.block, b.typed,
    fun i hi => (b.roots i hi).2.2⟩
  · have hr := b.roots i hi
    have hlt : rootAddr 0 i < s.heap.length := by unfold rootAddr; have := b.old; omega
    exact ⟨hlt, hr.1, hr.2.1, ((counted_iff _).1 (hroots i hi)).2⟩
  · rw [reg_fresh] at hr; cases hr
  · -- the holder is counted, so by no-dangling its slot values are counted nodes
    have hxl : x < s.heap.length := by
      rcases hx with ⟨i, hi, rfl⟩ | ⟨_, hl, _⟩
      · unfold rootAddr; have := b.old; omega
      · exact hl
    have hxc : counted (s.get x) = true := by
      rcases hx with ⟨i, hi, rfl⟩ | ⟨_, hl, _, hd, hr⟩
      · exact hroots i hi
      · rw [counted_iff]
        refine ⟨?_, hd⟩
        rcases hr with hr | hr
        · simpa [State.isReal] using hr
        · omega
    have hso : SlotOwner s x := by
      rcases hx with hx | ⟨h10, hl, hk, _, _⟩
      · exact Or.inl hx
      · exact Or.inr ⟨h10, hl, hk⟩
    have hn : NodeH s h := b.typed x hso h hh
    have hhc : counted (s.get h) = true := nd x hxl hxc h ((mem_children_iff s x h).2 hh)
    obtain ⟨S, hS, hkids, _, _, _⟩ := structOf_nodeH hn
    have hSc : counted (s.get S) = true :=
      nd h hn.2.1 hhc S ((mem_children_iff s h S).2 (by rw [hkids]; simp))
    have h1 := (counted_iff _).1 hhc
    have h2 := (counted_iff _).1 hSc
    refine ⟨hn, h1.2, by rw [hS]; exact h2.2, Or.inl ⟨?_, ?_⟩⟩
    · simpa [State.isReal] using h1.1
    · rw [hS]; simpa [State.isReal] using h2.1

/-- same size; slots, kind and realm stamp of every object equal; ids only gained -/
def ShapeEq (s s' : State) : Prop :=
  s'.heap.length = s.heap.length ∧
  ∀ x, (s'.get x).kids = (s.get x).kids ∧ (s'.get x).kind = (s.get x).kind ∧ (s'.get x).pkg = (s.get x).pkg ∧
       (s.isReal x = true → s'.isReal x = true)

theorem ShapeEq.nodeH {s s' : State} (e : ShapeEq s s') {h : Nat} (hn : NodeH s h) : NodeH s' h := by
  obtain ⟨h10, hl, hk, S, hkids, hS10, hSl, hSk, hSn, hSp⟩ := hn
  exact ⟨h10, by rw [e.1]; exact hl, by rw [(e.2 h).2.1]; exact hk, S, by rw [(e.2 h).1]; exact hkids, hS10,
    by rw [e.1]; exact hSl, by rw [(e.2 S).2.1]; exact hSk, by rw [(e.2 S).1]; exact hSn, by rw [(e.2 S).2.2.1]; exact hSp⟩

theorem shapeEq_finalize_endTx (s : State) (r : Nat) : ShapeEq s (endTx (finalize s r)) := by
  have s2 : Shape2 s (finalize s r) := (primS_shape2 s).finalize s r (shape2_refl s)
  generalize finalize s r = sf at s2 ⊢
  have sc := sameCore_endTx sf
  refine ⟨sc.1.trans s2.1, fun x => ?_⟩
  have a := s2.2 x
  have ck : ((endTx sf).get x).kids = (sf.get x).kids := congrArg Core.kids (sc.2 x)
  have cn : ((endTx sf).get x).kind = (sf.get x).kind := congrArg Core.kind (sc.2 x)
  have cp : ((endTx sf).get x).pkg = (sf.get x).pkg := congrArg Core.pkg (sc.2 x)
  refine ⟨ck.trans a.1, cn.trans a.2.1, cp.trans a.2.2.1, fun hr => ?_⟩
  rw [sc.isReal]
  unfold State.isReal at hr ⊢
  have := a.2.2.2.1 (by simpa using hr)
  simpa using this

/-- a script that ran to its end without panic, then the finalizer, then the end of the transaction:
    a boundary again -/
theorem progInv_boundary (n0 : Nat) (m : Tx) (h : ProgInv n0 m) : Boundary (endTx (finalize m.s 0)) := by
  have hin := h.tx
  have hpf := inTx_preFinal hin.base
  obtain ⟨hlen, w, rc⟩ := finalize_keeps_of_preFinal m.s 0 hpf
  have hn := finalize_nur m.s 0 hpf
  obtain ⟨ml, mk⟩ := finalize_marks m.s 0 hin.base.marks.realm
  have hdz := finalize_dz m.s 0 hpf n0 (fun x => (m.s.get x).deleted) (fun x => m.s.isReal x)
    ⟨fun _ => rfl, fun _ hx => hx, fun _ hx => Or.inl hx, hin.dz, hin.ud⟩
    (fun a ha => by
      rcases hin.marked a ha with hh | hh
      · exact Or.inl hh
      · exact Or.inr hh)
  have e := shapeEq_finalize_endTx m.s 0
  have hrl : 0 < (finalize m.s 0).marks.length := by rw [ml]; exact hin.base.marks.realm
  generalize finalize m.s 0 = sf at w rc hn mk hdz e hrl ⊢
  have sc := sameCore_endTx sf
  have hq : Quiescent2 (endTx sf) 0 :=
    ⟨⟨sc.wf w, sc.rci rc, sc.nur hn, hrl, mk, newReal_endTx sf⟩, sc.dz hdz⟩
  refine ⟨hq, by rw [e.1]; have := hin.start; have := h.old; omega, ?_, fun i hi => ?_, fun x hx c hc => ?_⟩
  · obtain ⟨b1, b2, b3⟩ := h.block
    exact ⟨by rw [(e.2 0).2.1]; exact b1, (e.2 0).2.2.2 b2, by rw [(e.2 0).1]; exact b3⟩
  · obtain ⟨_, r2, r3, _⟩ := h.roots i hi
    exact ⟨by rw [(e.2 _).1]; exact r2, by rw [(e.2 _).2.2.1]; exact r3, (e.2 _).2.2.2 (h.rootsReal i hi)⟩
  · have hx0 : SlotOwner m.s x := by
      rcases hx with hx | ⟨h10, hl, hk⟩
      · exact Or.inl hx
      · exact Or.inr ⟨h10, by rw [← e.1]; exact hl, by rw [← (e.2 x).2.1]; exact hk⟩
    rw [(e.2 x).1] at hc
    exact e.nodeH (h.typed x hx0 c hc)

/-- one transaction of a realm-0 program: `MsgCall Exec(script)` -/
theorem execTx0_boundary (s : State) (script : List Char) (b : Boundary s) : Boundary (execTx s 0 script).1 := by
  unfold execTx
  simp only []
  rcases runScript0_progInv s.heap.length script.length script { s := s } (Nat.le_refl _) b.progInv with he | hp
  · rw [if_pos he, if_pos he]; exact b
  · by_cases he : (runScript 0 script { s := s }).s.err = true
    · rw [if_pos he, if_pos he]; exact b
    · rw [if_neg he]
      by_cases hf : (finalize (runScript 0 script { s := s }).s 0).err = true
      · rw [if_pos hf]; exact b
      · rw [if_neg hf]
        exact progInv_boundary _ _ hp

/-- every history of realm-0 scripts, each committed iff it did not panic -/
def history0 (s : State) (scripts : List (List Char)) : State :=
  scripts.foldl (fun s c => (execTx s 0 c).1) s

theorem history0_boundary : ∀ (scripts : List (List Char)) (s : State), Boundary s → Boundary (history0 s scripts) := by
  intro scripts
  induction scripts with
  | nil => intro s b; exact b
  | cons c cs ih =>
    intro s b
    unfold history0
    rw [List.foldl_cons]
    exact ih _ (execTx0_boundary s c b)

end GnoVerif.C06
