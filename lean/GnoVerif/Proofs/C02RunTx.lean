import GnoVerif.Model.C02RunTx
import GnoVerif.Proofs.C10Gas
/-! Helper lemmas about the runTx model (`Model/C02RunTx.lean`), used by Props/C02 and Props/C10. -/
namespace GnoVerif.C02
open GnoVerif.C10

/-! ### stores -/

theorem Store.get_cons_self (s : Store) (k : Key) (v : Option Val) : Store.get ((k, v) :: s) k = v := by
  simp [Store.get]

theorem Store.get_cons_ne (s : Store) (k k' : Key) (v : Option Val) (h : k' ≠ k) :
    Store.get ((k', v) :: s) k = Store.get s k := by
  simp [Store.get, h]

theorem writesOf_append (a b : List Step) : writesOf (a ++ b) = writesOf b ++ writesOf a := by
  induction a with
  | nil => simp [writesOf]
  | cons s rest ih => cases s <;> simp [writesOf, ih]

/-! ### runSteps -/

theorem runSteps_parent (mirror : Bool) (steps : List Step) (e : Env) :
    (runSteps mirror steps e).1.parent = e.parent := by
  induction steps generalizing e with
  | nil => simp [runSteps]
  | cons s rest ih =>
    cases s with
    | write k v => simp [runSteps, ih]
    | del k => simp [runSteps, ih]
    | consume n =>
      simp only [runSteps]
      cases (e.meter.consume n).2 <;> simp [ih]
    | refund n =>
      simp only [runSteps]
      cases (e.meter.refund n).2 <;> simp [ih]
    | require k v =>
      simp only [runSteps]
      split <;> simp [ih]
    | fail => simp [runSteps]
    | panic => simp [runSteps]
    | oogPanic => simp [runSteps]
    | zeroCtx => simp [runSteps]
    | abortNoErr => simp [runSteps]

/-- when every step ran, the tx cache holds exactly the step list's writes (and so
does the side cache, for message handlers) -/
theorem runSteps_ok (mirror : Bool) (steps : List Step) (e : Env)
    (h : (runSteps mirror steps e).2 = .ok) :
    (runSteps mirror steps e).1.cache = writesOf steps ++ e.cache ∧
    (runSteps mirror steps e).1.side = (if mirror then writesOf steps ++ e.side else e.side) := by
  induction steps generalizing e with
  | nil => cases mirror <;> simp [runSteps, writesOf]
  | cons s rest ih =>
    cases s with
    | write k v =>
      simp only [runSteps] at h ⊢
      have := ih _ h
      cases mirror <;> simp_all [writesOf]
    | del k =>
      simp only [runSteps] at h ⊢
      have := ih _ h
      cases mirror <;> simp_all [writesOf]
    | consume n =>
      simp only [runSteps] at h ⊢
      cases hc : (e.meter.consume n).2 with
      | none => simp only [hc] at h ⊢; have := ih _ h; simp_all [writesOf]
      | some g => simp [hc] at h
    | refund n =>
      simp only [runSteps] at h ⊢
      cases hc : (e.meter.refund n).2 with
      | none => simp only [hc] at h ⊢; have := ih _ h; simp_all [writesOf]
      | some g => simp [hc] at h
    | require k v =>
      simp only [runSteps] at h ⊢
      by_cases hq : e.get k = v
      · simp only [hq, if_true] at h ⊢; have := ih _ h; simp_all [writesOf]
      · simp [hq] at h
    | fail => simp [runSteps] at h
    | panic => simp [runSteps] at h
    | oogPanic => simp [runSteps] at h
    | zeroCtx => simp [runSteps] at h
    | abortNoErr => simp [runSteps] at h

/-! ### the ante handler -/

theorem anteOutOf_done (r : Bool) (o : StepOut) (h : anteOutOf r o = .done) : o = .ok := by
  cases o with
  | ok => rfl
  | err => simp [anteOutOf] at h
  | pan p => cases p <;> cases r <;> simp [anteOutOf] at h
  | zero => simp [anteOutOf] at h
  | noerr => simp [anteOutOf] at h

/-- an ante that returns without abort has run all its steps: its cache is the
write list of `pre ++ steps` -/
theorem runAnte_done (a : Ante) (gw : Int) (parent : Store) (inc : Meter)
    (h : (runAnte a gw parent inc).out = .done) :
    (runAnte a gw parent inc).cache = writesOf (a.pre ++ a.steps) := by
  unfold runAnte at h ⊢
  cases h1 : (runSteps false a.pre (anteEnv parent inc)).2 with
  | ok =>
    simp only [h1] at h ⊢
    have hp := (runSteps_ok false a.pre (anteEnv parent inc) h1).1
    cases hi : installMeter a.kind gw (runSteps false a.pre (anteEnv parent inc)).1.meter with
    | error e => simp [hi] at h
    | ok cur =>
      simp only [hi, anteAfterInstall] at h ⊢
      have h2 := anteOutOf_done _ _ h
      have hs := (runSteps_ok false a.steps _ h2).1
      rw [hs, hp]
      simp [anteEnv, writesOf_append]
  | err => simp [h1, anteOutOf] at h
  | pan p => cases p <;> simp [h1, anteOutOf] at h
  | zero => simp [h1, anteOutOf] at h
  | noerr => simp [h1, anteOutOf] at h

/-! ### runMsgs -/

def msgSteps (msgs : List Msg) : List Step := msgs.flatMap (fun m => m.steps)

theorem runMsgs_ok (msgs : List Msg) (e : Env) (n : Nat)
    (hp : (runMsgs msgs e n).pan = none) (hr : (runMsgs msgs e n).res = .ok) :
    (runMsgs msgs e n).env.cache = writesOf (msgSteps msgs) ++ e.cache ∧
    (runMsgs msgs e n).env.side = writesOf (msgSteps msgs) ++ e.side := by
  induction msgs generalizing e n with
  | nil => simp [runMsgs, msgSteps, writesOf]
  | cons m rest ih =>
    unfold runMsgs at hp hr ⊢
    by_cases hroute : m.routable = true
    · simp only [hroute, Bool.not_true, Bool.false_eq_true, if_false] at hp hr ⊢
      cases hs : (runSteps true m.steps e).2 with
      | ok =>
        simp only [hs] at hp hr ⊢
        have h1 := runSteps_ok true m.steps e hs
        have h2 := ih _ _ hp hr
        simp only [msgSteps, List.flatMap_cons, writesOf_append] at h2 ⊢
        simp [h2.1, h2.2, h1.1, h1.2]
      | err => simp [hs] at hr
      | pan p => simp [hs] at hp
      | zero => simp [hs] at hr
      | noerr => simp [hs] at hr
    · simp [hroute] at hr


/-! ### frames: what the defers do -/

theorem consumeBlockGas_frame (f : Frame) :
    (consumeBlockGas f).parent = f.parent ∧ (consumeBlockGas f).cp = f.cp ∧
    (consumeBlockGas f).cpDefer = f.cpDefer ∧ (consumeBlockGas f).vm = f.vm ∧
    (consumeBlockGas f).hook = f.hook ∧ (consumeBlockGas f).mode = f.mode ∧
    (consumeBlockGas f).cache = f.cache ∧ (consumeBlockGas f).result = f.result ∧
    (consumeBlockGas f).anteDone = f.anteDone ∧ (consumeBlockGas f).cur = f.cur ∧
    (consumeBlockGas f).gasWanted = f.gasWanted ∧ (consumeBlockGas f).anteRan = f.anteRan ∧
    (consumeBlockGas f).msgsRan = f.msgsRan ∧ (consumeBlockGas f).incoming = f.incoming ∧
    (consumeBlockGas f).startingGas = f.startingGas := by
  unfold consumeBlockGas
  split
  · cases (f.block.consume f.cur.consumedToLimit).2 with
    | some g => simp
    | none => simp only; split <;> simp
  · simp

theorem consumeBlockGas_noop (f : Frame) (h : f.blockGasConsumed = true) : consumeBlockGas f = f := by
  simp [consumeBlockGas, h]

theorem consumeBlockGas_noop_mode (f : Frame) (h : f.mode ≠ .deliver) : consumeBlockGas f = f := by
  simp [consumeBlockGas, h]

theorem consumeBlockGas_pan (f : Frame) (h : f.pan ≠ none) : (consumeBlockGas f).pan ≠ none := by
  unfold consumeBlockGas
  split
  · cases (f.block.consume f.cur.consumedToLimit).2 with
    | some g => simp
    | none => simp only; split <;> simp [h]
  · exact h

theorem consumeBlockGas_consumed (f : Frame) (h : f.mode = .deliver) :
    (consumeBlockGas f).blockGasConsumed = true := by
  unfold consumeBlockGas
  by_cases hb : f.blockGasConsumed = true
  · simp [hb]
  · have hb' : f.blockGasConsumed = false := by simpa using hb
    simp only [h, hb', and_self, if_true]
    cases (f.block.consume f.cur.consumedToLimit).2 with
    | some g => simp
    | none => simp only; split <;> simp

theorem deferWriteCheckpoint_frame (f : Frame) :
    (deferWriteCheckpoint f).vm = f.vm ∧ (deferWriteCheckpoint f).hook = f.hook ∧
    (deferWriteCheckpoint f).mode = f.mode ∧ (deferWriteCheckpoint f).result = f.result ∧
    (deferWriteCheckpoint f).pan = f.pan ∧ (deferWriteCheckpoint f).anteDone = f.anteDone ∧
    (deferWriteCheckpoint f).blockGasConsumed = f.blockGasConsumed ∧
    (deferWriteCheckpoint f).cur = f.cur ∧ (deferWriteCheckpoint f).gasWanted = f.gasWanted ∧
    (deferWriteCheckpoint f).anteRan = f.anteRan ∧ (deferWriteCheckpoint f).msgsRan = f.msgsRan ∧
    (deferWriteCheckpoint f).block = f.block ∧ (deferWriteCheckpoint f).incoming = f.incoming ∧
    (deferWriteCheckpoint f).startingGas = f.startingGas := by
  unfold deferWriteCheckpoint
  split
  · cases f.cp <;> simp
  · simp

theorem deferWriteCheckpoint_parent (f : Frame) :
    (deferWriteCheckpoint f).parent =
      (if f.cpDefer = true ∧ f.mode = .deliver then (f.cp.getD []) ++ f.parent else f.parent) := by
  unfold deferWriteCheckpoint
  split
  · cases f.cp <;> simp
  · rfl

theorem deferRecover_frame (f : Frame) :
    (deferRecover f).parent = f.parent ∧ (deferRecover f).vm = f.vm ∧ (deferRecover f).hook = f.hook ∧
    (deferRecover f).anteDone = f.anteDone ∧ (deferRecover f).cur = f.cur ∧
    (deferRecover f).gasWanted = f.gasWanted ∧ (deferRecover f).anteRan = f.anteRan ∧
    (deferRecover f).msgsRan = f.msgsRan ∧ (deferRecover f).block = f.block ∧
    (deferRecover f).incoming = f.incoming := by
  unfold deferRecover
  cases f.pan with
  | none => simp
  | some p => cases p <;> simp

theorem deferRecover_result (f : Frame) :
    (deferRecover f).result = (match f.pan with
      | some .oog => .oog | some .other => .internal | none => f.result) := by
  unfold deferRecover
  cases f.pan with
  | none => rfl
  | some p => cases p <;> rfl

/-- the three defers in LIFO order -/
def post (f : Frame) : Frame := deferRecover (deferConsumeBlockGas (deferWriteCheckpoint f))

theorem runFrame_eq (fin : Frame → Store → Frame) (tx : Tx) (f : Frame) :
    runFrame fin tx f = (post (body fin tx f)).out := rfl

theorem post_frame (f : Frame) :
    (post f).vm = f.vm ∧ (post f).hook = f.hook ∧ (post f).anteDone = f.anteDone ∧
    (post f).anteRan = f.anteRan ∧ (post f).msgsRan = f.msgsRan ∧ (post f).cur = f.cur ∧
    (post f).gasWanted = f.gasWanted ∧ (post f).incoming = f.incoming ∧
    (post f).parent = (if f.cpDefer = true ∧ f.mode = .deliver then (f.cp.getD []) ++ f.parent else f.parent) := by
  have h1 := deferRecover_frame (deferConsumeBlockGas (deferWriteCheckpoint f))
  have h2 := consumeBlockGas_frame (deferWriteCheckpoint f)
  have h3 := deferWriteCheckpoint_frame f
  have h4 := deferWriteCheckpoint_parent f
  simp only [post, deferConsumeBlockGas] at *
  refine ⟨?_, ?_, ?_, ?_, ?_, ?_, ?_, ?_, ?_⟩
  · rw [h1.2.1, h2.2.2.2.1, h3.1]
  · rw [h1.2.2.1, h2.2.2.2.2.1, h3.2.1]
  · rw [h1.2.2.2.1, h2.2.2.2.2.2.2.2.2.1, h3.2.2.2.2.2.1]
  · rw [h1.2.2.2.2.2.2.1, h2.2.2.2.2.2.2.2.2.2.2.2.1, h3.2.2.2.2.2.2.2.2.2.1]
  · rw [h1.2.2.2.2.2.2.2.1, h2.2.2.2.2.2.2.2.2.2.2.2.2.1, h3.2.2.2.2.2.2.2.2.2.2.1]
  · rw [h1.2.2.2.2.1, h2.2.2.2.2.2.2.2.2.2.1, h3.2.2.2.2.2.2.2.1]
  · rw [h1.2.2.2.2.2.1, h2.2.2.2.2.2.2.2.2.2.2.1, h3.2.2.2.2.2.2.2.2.1]
  · rw [h1.2.2.2.2.2.2.2.2.2, h2.2.2.2.2.2.2.2.2.2.2.2.2.2.1, h3.2.2.2.2.2.2.2.2.2.2.2.2.1]
  · rw [h1.1, h2.1, h4]

/-- the final result is OK only if the body returned OK without a panic in flight
and the deferred block-gas charge did not panic either -/
theorem post_result_ok (f : Frame) (h : (post f).result = .ok) :
    f.result = .ok ∧ f.pan = none ∧ (consumeBlockGas (deferWriteCheckpoint f)).pan = none := by
  simp only [post, deferConsumeBlockGas, deferRecover_result] at h
  have h2 := consumeBlockGas_frame (deferWriteCheckpoint f)
  have h3 := deferWriteCheckpoint_frame f
  cases hp : (consumeBlockGas (deferWriteCheckpoint f)).pan with
  | some p => rw [hp] at h; cases p <;> simp at h
  | none =>
    rw [hp] at h
    simp only at h
    rw [h2.2.2.2.2.2.2.2.1, h3.2.2.2.1] at h
    refine ⟨h, ?_, rfl⟩
    by_cases hf : f.pan = none
    · exact hf
    · have : (deferWriteCheckpoint f).pan ≠ none := by rw [h3.2.2.2.2.1]; exact hf
      exact absurd hp (consumeBlockGas_pan _ this)

theorem post_result_eq_of_settled (f : Frame) (hp : f.pan = none) (hc : f.blockGasConsumed = true) :
    (post f).result = f.result := by
  have h3 := deferWriteCheckpoint_frame f
  have hb : (deferWriteCheckpoint f).blockGasConsumed = true := by rw [h3.2.2.2.2.2.2.1]; exact hc
  simp only [post, deferConsumeBlockGas, consumeBlockGas_noop _ hb, deferRecover_result]
  rw [h3.2.2.2.2.1, hp]
  simp only
  exact h3.2.2.2.1


/-! ### the body of runTx in DeliverTx mode -/

/-- the ante's writes / all message writes of a tx, most recent first -/
def anteW (tx : Tx) : Store := writesOf (tx.ante.pre ++ tx.ante.steps)
def msgW (tx : Tx) : Store := writesOf (msgSteps tx.msgs)

theorem preAnte_ne_ok (tx : Tx) (r : Res) (h : preAnte tx = some r) : r ≠ .ok := by
  unfold preAnte at h
  split at h
  · cases h; simp
  · split at h
    · cases h; simp
    · split at h
      · cases h; simp
      · cases h

theorem finishDeliver_cases (f : Frame) (side : Store) (hm : f.mode = .deliver) (hp : f.pan = none) :
    (f.result = .ok ∧ (finishDeliver f side).pan ≠ none ∧ (finishDeliver f side).parent = f.parent ∧
      (finishDeliver f side).cp = f.cp ∧ (finishDeliver f side).cpDefer = f.cpDefer ∧
      (finishDeliver f side).hook = f.hook ∧ (finishDeliver f side).vm = f.vm ∧
      (finishDeliver f side).anteDone = f.anteDone ∧ (finishDeliver f side).mode = f.mode) ∨
    (f.result = .ok ∧ (finishDeliver f side).pan = none ∧ (finishDeliver f side).result = .ok ∧
      (finishDeliver f side).parent = f.cache ++ f.parent ∧ (finishDeliver f side).cp = none ∧
      (finishDeliver f side).hook = .ok ∧ (finishDeliver f side).vm = side ++ f.vm ∧
      (finishDeliver f side).blockGasConsumed = true ∧
      (finishDeliver f side).anteDone = f.anteDone ∧ (finishDeliver f side).mode = f.mode) ∨
    (f.result ≠ .ok ∧ (finishDeliver f side).pan = none ∧ (finishDeliver f side).result = f.result ∧
      (finishDeliver f side).parent = f.cp.getD [] ++ f.parent ∧ (finishDeliver f side).cp = none ∧
      (finishDeliver f side).hook = .fail ∧ (finishDeliver f side).vm = f.vm ∧
      (finishDeliver f side).anteDone = f.anteDone ∧ (finishDeliver f side).mode = f.mode) := by
  have hc := consumeBlockGas_frame f
  have hb := consumeBlockGas_consumed f hm
  by_cases hr : f.result = .ok
  · cases hcp : (consumeBlockGas f).pan with
    | some p =>
      have e : finishDeliver f side = consumeBlockGas f := by simp [finishDeliver, hr, hcp]
      rw [e]
      exact .inl ⟨hr, by simp [hcp], hc.1, hc.2.1, hc.2.2.1, hc.2.2.2.2.1, hc.2.2.2.1, hc.2.2.2.2.2.2.2.2.1,
        hc.2.2.2.2.2.1⟩
    | none =>
      have hres : (consumeBlockGas f).result = .ok := by rw [hc.2.2.2.2.2.2.2.1]; exact hr
      have e : finishDeliver f side =
          { (consumeBlockGas f) with
            hook := .ok
            vm := side ++ (consumeBlockGas f).vm
            parent := (consumeBlockGas f).cache ++ (consumeBlockGas f).parent
            cache := []
            cp := none } := by
        simp [finishDeliver, hr, hcp, hres]
      rw [e]
      refine .inr (.inl ⟨hr, hcp, hres, ?_, rfl, rfl, ?_, hb, hc.2.2.2.2.2.2.2.2.1, hc.2.2.2.2.2.1⟩)
      · simp [hc.1, hc.2.2.2.2.2.2.1]
      · simp [hc.2.2.2.1]
  · have e : finishDeliver f side =
        { f with
          hook := .fail
          parent := (f.cp.getD []) ++ f.parent
          cache := []
          cp := none } := by
      simp [finishDeliver, hr, hp]
    rw [e]
    exact .inr (.inr ⟨hr, hp, rfl, rfl, rfl, rfl, rfl, rfl, rfl⟩)

/-- a frame on which runTx's body starts in DeliverTx mode -/
structure Fresh (f : Frame) : Prop where
  mode : f.mode = .deliver
  cp : f.cp = none
  cpDefer : f.cpDefer = false
  pan : f.pan = none
  hook : f.hook = .none
  anteDone : f.anteDone = false
  result : f.result = .ok
  bgc : f.blockGasConsumed = false

/-- the four shapes of the frame when the body of runTx returns (or panics) in DeliverTx mode -/
inductive BodyCase (tx : Tx) (f fb : Frame) : Prop
  /-- the ante did not complete (or was never reached) -/
  | noAnte (h1 : fb.anteDone = false) (h2 : fb.parent = f.parent) (h3 : fb.cp = none) (h4 : fb.vm = f.vm)
      (h5 : fb.hook = .none) (h6 : fb.mode = .deliver) (h7 : fb.result ≠ .ok ∨ fb.pan ≠ none)
  /-- everything succeeded, block gas charged, hook committed, MultiWrite done -/
  | committed (h1 : fb.anteDone = true) (h2 : fb.pan = none) (h3 : fb.result = .ok)
      (h4 : fb.parent = msgW tx ++ (anteW tx ++ f.parent)) (h5 : fb.cp = none) (h6 : fb.hook = .ok)
      (h7 : fb.vm = msgW tx ++ f.vm) (h8 : fb.blockGasConsumed = true) (h9 : fb.mode = .deliver)
  /-- a message returned an error: endTxHook(fail), WriteCheckpoint done -/
  | handled (h1 : fb.anteDone = true) (h2 : fb.pan = none) (h3 : fb.result ≠ .ok)
      (h4 : fb.parent = anteW tx ++ f.parent) (h5 : fb.cp = none) (h6 : fb.hook = .fail)
      (h7 : fb.vm = f.vm) (h8 : fb.mode = .deliver)
  /-- a panic is in flight (message panic or the explicit block-gas charge): nothing flushed yet -/
  | pending (h1 : fb.anteDone = true) (h2 : fb.pan ≠ none) (h3 : fb.parent = f.parent)
      (h4 : fb.cp = some (anteW tx)) (h5 : fb.cpDefer = true) (h6 : fb.hook = .none)
      (h7 : fb.vm = f.vm) (h8 : fb.mode = .deliver)

/-- from the return of runMsgs on, in DeliverTx mode -/
theorem afterMsgs_cases (f : Frame) (r : MsgsRes) (hm : f.mode = .deliver) (hp : f.pan = none) :
    ((afterMsgs finishDeliver f r).pan ≠ none ∧ (afterMsgs finishDeliver f r).parent = f.parent ∧
      (afterMsgs finishDeliver f r).cp = f.cp ∧ (afterMsgs finishDeliver f r).cpDefer = f.cpDefer ∧
      (afterMsgs finishDeliver f r).hook = f.hook ∧ (afterMsgs finishDeliver f r).vm = f.vm ∧
      (afterMsgs finishDeliver f r).anteDone = f.anteDone ∧ (afterMsgs finishDeliver f r).mode = f.mode) ∨
    (r.pan = none ∧ r.res = .ok ∧ (afterMsgs finishDeliver f r).pan = none ∧
      (afterMsgs finishDeliver f r).result = .ok ∧
      (afterMsgs finishDeliver f r).parent = f.cache ++ f.parent ∧ (afterMsgs finishDeliver f r).cp = none ∧
      (afterMsgs finishDeliver f r).hook = .ok ∧ (afterMsgs finishDeliver f r).vm = r.env.side ++ f.vm ∧
      (afterMsgs finishDeliver f r).blockGasConsumed = true ∧
      (afterMsgs finishDeliver f r).anteDone = f.anteDone ∧ (afterMsgs finishDeliver f r).mode = f.mode) ∨
    ((afterMsgs finishDeliver f r).pan = none ∧ (afterMsgs finishDeliver f r).result ≠ .ok ∧
      (afterMsgs finishDeliver f r).parent = f.cp.getD [] ++ f.parent ∧ (afterMsgs finishDeliver f r).cp = none ∧
      (afterMsgs finishDeliver f r).hook = .fail ∧ (afterMsgs finishDeliver f r).vm = f.vm ∧
      (afterMsgs finishDeliver f r).anteDone = f.anteDone ∧ (afterMsgs finishDeliver f r).mode = f.mode) := by
  cases hrp : r.pan with
  | some p =>
    have e : afterMsgs finishDeliver f r = { f with pan := some p } := by simp [afterMsgs, hrp]
    rw [e]
    exact .inl ⟨by simp, rfl, rfl, rfl, rfl, rfl, rfl, rfl⟩
  | none =>
    have e : afterMsgs finishDeliver f r = finishDeliver { f with result := r.res } r.env.side := by
      simp [afterMsgs, hrp, hm]
    rw [e]
    rcases finishDeliver_cases { f with result := r.res } r.env.side hm hp with h | h | h
    · exact .inl ⟨h.2.1, h.2.2.1, h.2.2.2.1, h.2.2.2.2.1, h.2.2.2.2.2.1, h.2.2.2.2.2.2.1, h.2.2.2.2.2.2.2.1,
        h.2.2.2.2.2.2.2.2⟩
    · exact .inr (.inl ⟨rfl, h.1, h.2.1, h.2.2.1, h.2.2.2.1, h.2.2.2.2.1, h.2.2.2.2.2.1, h.2.2.2.2.2.2.1,
        h.2.2.2.2.2.2.2.1, h.2.2.2.2.2.2.2.2.1, h.2.2.2.2.2.2.2.2.2⟩)
    · refine .inr (.inr ⟨h.2.1, ?_, h.2.2.2.1, h.2.2.2.2.1, h.2.2.2.2.2.1, h.2.2.2.2.2.2.1, h.2.2.2.2.2.2.2.1,
        h.2.2.2.2.2.2.2.2⟩)
      rw [h.2.2.1]; exact h.1

theorem body_cases (tx : Tx) (f : Frame) (hf : Fresh f) : BodyCase tx f (body finishDeliver tx f) := by
  unfold body
  cases hpre : preAnte tx with
  | some r =>
    exact .noAnte hf.anteDone rfl hf.cp rfl hf.hook hf.mode (.inl (preAnte_ne_ok tx r hpre))
  | none =>
    simp only
    cases hout : (runAnte tx.ante tx.gasWanted f.parent f.cur).out with
    | pan p =>
      exact .noAnte hf.anteDone rfl hf.cp rfl hf.hook hf.mode (.inr (by simp))
    | abort oog =>
      refine .noAnte hf.anteDone rfl hf.cp rfl hf.hook hf.mode (.inl ?_)
      cases oog <;> simp
    | done =>
      have hcache := runAnte_done _ _ _ _ hout
      simp only
      generalize hA : anteFrame tx f (runAnte tx.ante tx.gasWanted f.parent f.cur) = fa
      have ha_mode : fa.mode = .deliver := by rw [← hA]; exact hf.mode
      have ha_pan : fa.pan = none := by rw [← hA]; exact hf.pan
      have ha_hook : fa.hook = .none := by rw [← hA]; exact hf.hook
      have ha_parent : fa.parent = f.parent := by rw [← hA]; rfl
      have ha_vm : fa.vm = f.vm := by rw [← hA]; rfl
      have ha_done : fa.anteDone = true := by rw [← hA]; rfl
      have ha_cache : fa.cache = anteW tx := by rw [← hA]; exact hcache
      have e : afterAnte finishDeliver tx fa =
          afterMsgs finishDeliver (msgsFrame tx fa (runMsgs tx.msgs (msgsEnv fa) 0))
            (runMsgs tx.msgs (msgsEnv fa) 0) := by
        simp [afterAnte, ha_mode]
      rw [e]
      generalize hR : runMsgs tx.msgs (msgsEnv fa) 0 = r
      have hok := runMsgs_ok tx.msgs (msgsEnv fa) 0
      rw [hR] at hok
      have hm_mode : (msgsFrame tx fa r).mode = .deliver := ha_mode
      have hm_pan : (msgsFrame tx fa r).pan = none := ha_pan
      rcases afterMsgs_cases (msgsFrame tx fa r) r hm_mode hm_pan with h | h | h
      · refine .pending ?_ h.1 ?_ ?_ ?_ ?_ ?_ ?_
        · rw [h.2.2.2.2.2.2.1]; exact ha_done
        · rw [h.2.1]; exact ha_parent
        · rw [h.2.2.1]; simp [msgsFrame, ha_cache]
        · rw [h.2.2.2.1]; rfl
        · rw [h.2.2.2.2.1]; exact ha_hook
        · rw [h.2.2.2.2.2.1]; exact ha_vm
        · rw [h.2.2.2.2.2.2.2]; exact ha_mode
      · have hw := hok h.1 h.2.1
        refine .committed ?_ h.2.2.1 h.2.2.2.1 ?_ h.2.2.2.2.2.1 h.2.2.2.2.2.2.1 ?_ h.2.2.2.2.2.2.2.2.1 ?_
        · rw [h.2.2.2.2.2.2.2.2.2.1]; exact ha_done
        · rw [h.2.2.2.2.1]
          simp [msgsFrame, hw.1, msgsEnv, ha_cache, ha_parent, msgW]
        · rw [h.2.2.2.2.2.2.2.1]
          simp [msgsFrame, hw.2, msgsEnv, ha_vm, msgW]
        · rw [h.2.2.2.2.2.2.2.2.2.2]; exact ha_mode
      · refine .handled ?_ h.1 h.2.1 ?_ h.2.2.2.1 h.2.2.2.2.1 ?_ ?_
        · rw [h.2.2.2.2.2.2.1]; exact ha_done
        · rw [h.2.2.1]; simp [msgsFrame, ha_cache, ha_parent]
        · rw [h.2.2.2.2.2.1]; exact ha_vm
        · rw [h.2.2.2.2.2.2.2]; exact ha_mode


/-! ### runFrame / runTx in DeliverTx mode -/

theorem post_result_ne_ok (f : Frame) (h : f.result ≠ .ok ∨ f.pan ≠ none) : (post f).result ≠ .ok := by
  intro hok
  have := post_result_ok f hok
  rcases h with h | h
  · exact h this.1
  · exact h this.2.1

/-- body + the three defers on a fresh DeliverTx frame -/
theorem runFrame_spec (tx : Tx) (f : Frame) (hf : Fresh f) :
    ((runFrame finishDeliver tx f).res = .ok →
        (runFrame finishDeliver tx f).anteDone = true ∧
        (runFrame finishDeliver tx f).store = msgW tx ++ (anteW tx ++ f.parent) ∧
        (runFrame finishDeliver tx f).vm = msgW tx ++ f.vm ∧
        (runFrame finishDeliver tx f).hook = .ok) ∧
    ((runFrame finishDeliver tx f).res ≠ .ok →
        (runFrame finishDeliver tx f).store =
          (if (runFrame finishDeliver tx f).anteDone = true then anteW tx ++ f.parent else f.parent) ∧
        (runFrame finishDeliver tx f).vm = f.vm ∧
        (runFrame finishDeliver tx f).hook ≠ .ok) := by
  rw [runFrame_eq]
  have pf := post_frame (body finishDeliver tx f)
  have hres : (post (body finishDeliver tx f)).out.res = (post (body finishDeliver tx f)).result := rfl
  have hstore : (post (body finishDeliver tx f)).out.store = (post (body finishDeliver tx f)).parent := rfl
  have hvm : (post (body finishDeliver tx f)).out.vm = (post (body finishDeliver tx f)).vm := rfl
  have hhook : (post (body finishDeliver tx f)).out.hook = (post (body finishDeliver tx f)).hook := rfl
  have hdone : (post (body finishDeliver tx f)).out.anteDone = (post (body finishDeliver tx f)).anteDone := rfl
  rw [hres, hstore, hvm, hhook, hdone, pf.1, pf.2.1, pf.2.2.1, pf.2.2.2.2.2.2.2.2]
  cases body_cases tx f hf with
  | noAnte h1 h2 h3 h4 h5 h6 h7 =>
    have hne := post_result_ne_ok _ h7
    refine ⟨fun h => absurd h hne, fun _ => ?_⟩
    simp [h1, h2, h3, h4, h5]
  | committed h1 h2 h3 h4 h5 h6 h7 h8 h9 =>
    have hok : (post (body finishDeliver tx f)).result = .ok := by
      rw [post_result_eq_of_settled _ h2 h8]; exact h3
    refine ⟨fun _ => ?_, fun h => absurd hok h⟩
    simp [h1, h4, h5, h6, h7]
  | handled h1 h2 h3 h4 h5 h6 h7 h8 =>
    have hne := post_result_ne_ok _ (.inl h3)
    refine ⟨fun h => absurd h hne, fun _ => ?_⟩
    simp [h1, h4, h5, h6, h7]
  | pending h1 h2 h3 h4 h5 h6 h7 h8 =>
    have hne := post_result_ne_ok _ (.inr h2)
    refine ⟨fun h => absurd h hne, fun _ => ?_⟩
    simp [h1, h3, h4, h5, h6, h7, h8]

/-- the three ways DeliverTx's runTx starts: a crash of the prelude (impossible for a
well-formed block meter), the "no block gas left" early exit, or body + defers -/
theorem runTx_deliver_cases (fin : Frame → Store → Frame) (tx : Tx) (parent : Store) (block ctxMeter : Meter)
    (vm : Store) :
    (runTxWith fin .deliver tx parent block ctxMeter vm =
        { (Frame.init .deliver parent block ctxMeter vm).out with crash := true }) ∨
    (∃ head, block.isOutOfGas = true ∧ block.remaining = .ok head.limit ∧ head.consumed = 0 ∧
      runTxWith fin .deliver tx parent block ctxMeter vm =
        { (Frame.init .deliver parent block (Meter.pass ctxMeter head) vm).out with res := .oog }) ∨
    (∃ head, block.isOutOfGas = false ∧ block.remaining = .ok head.limit ∧ head.consumed = 0 ∧
      runTxWith fin .deliver tx parent block ctxMeter vm =
        runFrame fin tx { Frame.init .deliver parent block (Meter.pass ctxMeter head) vm with
                          startingGas := block.gasConsumed }) := by
  unfold runTxWith
  simp only
  cases hrem : block.remaining with
  | error e => exact .inl rfl
  | ok gasleft =>
    simp only
    cases hnew : Basic.new gasleft with
    | error e => exact .inl rfl
    | ok head =>
      simp only
      have hh : head.limit = gasleft ∧ head.consumed = 0 := by
        unfold Basic.new at hnew
        split at hnew
        · cases hnew
        · cases hnew; exact ⟨rfl, rfl⟩
      by_cases hoog : block.isOutOfGas = true
      · exact .inr (.inl ⟨head, hoog, by rw [hh.1], hh.2, by simp [hoog]⟩)
      · have hf : block.isOutOfGas = false := by simpa using hoog
        exact .inr (.inr ⟨head, hf, by rw [hh.1], hh.2, by simp [hf]⟩)

theorem fresh_init (parent : Store) (block inc : Meter) (vm : Store) (s : Int) :
    Fresh { Frame.init .deliver parent block inc vm with startingGas := s } :=
  ⟨rfl, rfl, rfl, rfl, rfl, rfl, rfl, rfl⟩


/-! ### CheckTx and Simulate -/

theorem post_of_not_deliver (f : Frame) (hm : f.mode ≠ .deliver) :
    (post f).parent = f.parent ∧ (post f).block = f.block ∧
    (post f).result = (match f.pan with | some .oog => .oog | some .other => .internal | none => f.result) := by
  have h1 : deferWriteCheckpoint f = f := by simp [deferWriteCheckpoint, hm]
  have h2 : consumeBlockGas f = f := consumeBlockGas_noop_mode f hm
  simp only [post, deferConsumeBlockGas, h1, h2]
  have := deferRecover_frame f
  exact ⟨this.1, this.2.2.2.2.2.2.2.2.1, deferRecover_result f⟩

theorem afterMsgs_not_deliver (fin : Frame → Store → Frame) (f : Frame) (r : MsgsRes) (hm : f.mode ≠ .deliver) :
    (afterMsgs fin f r).parent = f.parent ∧ (afterMsgs fin f r).vm = f.vm ∧ (afterMsgs fin f r).hook = f.hook ∧
    (afterMsgs fin f r).mode = f.mode ∧ (afterMsgs fin f r).block = f.block := by
  unfold afterMsgs
  cases r.pan with
  | some p => simp
  | none => simp [hm]

/-- Simulate: body + defers leave the store, the side cache and the block meter alone -/
theorem runFrame_simulate (fin : Frame → Store → Frame) (tx : Tx) (f : Frame) (hm : f.mode = .simulate)
    (hh : f.hook = .none) :
    (runFrame fin tx f).store = f.parent ∧ (runFrame fin tx f).vm = f.vm ∧
    (runFrame fin tx f).hook = .none ∧ (runFrame fin tx f).block = f.block := by
  rw [runFrame_eq]
  have hne : ∀ g : Frame, g.mode = .simulate → g.mode ≠ .deliver := by intro g h; rw [h]; simp
  suffices hb : (body fin tx f).parent = f.parent ∧ (body fin tx f).vm = f.vm ∧
      (body fin tx f).hook = .none ∧ (body fin tx f).block = f.block ∧ (body fin tx f).mode = .simulate by
    have hp := post_of_not_deliver _ (hne _ hb.2.2.2.2)
    have pf := post_frame (body fin tx f)
    refine ⟨?_, ?_, ?_, ?_⟩
    · show (post (body fin tx f)).parent = _; rw [hp.1]; exact hb.1
    · show (post (body fin tx f)).vm = _; rw [pf.1]; exact hb.2.1
    · show (post (body fin tx f)).hook = _; rw [pf.2.1]; exact hb.2.2.1
    · show (post (body fin tx f)).block = _; rw [hp.2.1]; exact hb.2.2.2.1
  unfold body
  cases preAnte tx with
  | some r => exact ⟨rfl, rfl, hh, rfl, hm⟩
  | none =>
    simp only
    cases (runAnte tx.ante tx.gasWanted f.parent f.cur).out with
    | pan p => exact ⟨rfl, rfl, hh, rfl, hm⟩
    | abort oog => exact ⟨rfl, rfl, hh, rfl, hm⟩
    | done =>
      simp only
      generalize hA : anteFrame tx f (runAnte tx.ante tx.gasWanted f.parent f.cur) = fa
      have ha_mode : fa.mode = .simulate := by rw [← hA]; exact hm
      have e : afterAnte fin tx fa =
          afterMsgs fin (msgsFrame tx fa (runMsgs tx.msgs (msgsEnv fa) 0)) (runMsgs tx.msgs (msgsEnv fa) 0) := by
        simp [afterAnte, ha_mode]
      rw [e]
      have hmm : (msgsFrame tx fa (runMsgs tx.msgs (msgsEnv fa) 0)).mode ≠ .deliver := hne _ ha_mode
      have := afterMsgs_not_deliver fin _ (runMsgs tx.msgs (msgsEnv fa) 0) hmm
      refine ⟨?_, ?_, ?_, ?_, ?_⟩
      · rw [this.1, ← hA]; rfl
      · rw [this.2.1, ← hA]; rfl
      · rw [this.2.2.1, ← hA]; exact hh
      · rw [this.2.2.2.2, ← hA]; rfl
      · rw [this.2.2.2.1]; exact ha_mode

/-- CheckTx: only the ante runs; its writes are flushed iff it completed -/
theorem runFrame_check (fin : Frame → Store → Frame) (tx : Tx) (f : Frame) (hm : f.mode = .check)
    (hh : f.hook = .none) (hp : f.pan = none) (hr : f.result = .ok) (_hd : f.anteDone = false) (hn : f.msgsRan = 0) :
    ((runFrame fin tx f).res = .ok →
        (runFrame fin tx f).anteDone = true ∧ (runFrame fin tx f).store = anteW tx ++ f.parent) ∧
    ((runFrame fin tx f).res ≠ .ok → (runFrame fin tx f).store = f.parent) ∧
    (runFrame fin tx f).vm = f.vm ∧ (runFrame fin tx f).hook = .none ∧
    (runFrame fin tx f).block = f.block ∧ (runFrame fin tx f).msgsRan = 0 := by
  rw [runFrame_eq]
  have hne : ∀ g : Frame, g.mode = .check → g.mode ≠ .deliver := by intro g h; rw [h]; simp
  suffices hb : (body fin tx f).vm = f.vm ∧ (body fin tx f).hook = .none ∧ (body fin tx f).block = f.block ∧
      (body fin tx f).mode = .check ∧ (body fin tx f).msgsRan = 0 ∧
      (((body fin tx f).result ≠ .ok ∨ (body fin tx f).pan ≠ none) ∧ (body fin tx f).parent = f.parent ∨
       ((body fin tx f).result = .ok ∧ (body fin tx f).pan = none ∧ (body fin tx f).anteDone = true ∧
        (body fin tx f).parent = anteW tx ++ f.parent)) by
    have hp' := post_of_not_deliver _ (hne _ hb.2.2.2.1)
    have pf := post_frame (body fin tx f)
    have hres : (post (body fin tx f)).out.res = (post (body fin tx f)).result := rfl
    have hstore : (post (body fin tx f)).out.store = (post (body fin tx f)).parent := rfl
    have hdone : (post (body fin tx f)).out.anteDone = (post (body fin tx f)).anteDone := rfl
    rw [hres, hstore, hdone, hp'.1, pf.2.2.1]
    refine ⟨?_, ?_, ?_, ?_, ?_, ?_⟩
    · intro hok
      rcases hb.2.2.2.2.2 with h | h
      · exact absurd hok (post_result_ne_ok _ h.1)
      · exact ⟨h.2.2.1, h.2.2.2⟩
    · intro hnok
      rcases hb.2.2.2.2.2 with h | h
      · exact h.2
      · exfalso; apply hnok; rw [hp'.2.2, h.2.1]; exact h.1
    · show (post (body fin tx f)).vm = _; rw [pf.1]; exact hb.1
    · show (post (body fin tx f)).hook = _; rw [pf.2.1]; exact hb.2.1
    · show (post (body fin tx f)).block = _; rw [hp'.2.1]; exact hb.2.2.1
    · show (post (body fin tx f)).msgsRan = _; rw [pf.2.2.2.2.1]; exact hb.2.2.2.2.1
  unfold body
  cases hpre : preAnte tx with
  | some r => exact ⟨rfl, hh, rfl, hm, hn, .inl ⟨.inl (preAnte_ne_ok tx r hpre), rfl⟩⟩
  | none =>
    simp only
    cases hout : (runAnte tx.ante tx.gasWanted f.parent f.cur).out with
    | pan p => exact ⟨rfl, hh, rfl, hm, hn, .inl ⟨.inr (by simp), rfl⟩⟩
    | abort oog => exact ⟨rfl, hh, rfl, hm, hn, .inl ⟨.inl (by cases oog <;> simp), rfl⟩⟩
    | done =>
      have hcache := runAnte_done _ _ _ _ hout
      simp only
      generalize hA : anteFrame tx f (runAnte tx.ante tx.gasWanted f.parent f.cur) = fa
      have ha_mode : fa.mode = .check := by rw [← hA]; exact hm
      have e : afterAnte fin tx fa = { fa with parent := fa.cache ++ fa.parent, cache := [] } := by
        simp [afterAnte, ha_mode]
      rw [e, ← hA]
      refine ⟨rfl, hh, rfl, hm, hn, .inr ⟨hr, hp, rfl, ?_⟩⟩
      simp [anteFrame, hcache, anteW]


/-! ### the block gas meter through runTx -/

theorem consumeBlockGas_block (f : Frame) (hm : f.mode = .deliver) (hb : f.blockGasConsumed = false) :
    (consumeBlockGas f).block = (f.block.consume f.cur.consumedToLimit).1 ∧
    ((consumeBlockGas f).pan = none → (f.block.consume f.cur.consumedToLimit).2 = none) := by
  unfold consumeBlockGas
  simp only [hm, hb, and_self, if_true]
  cases hc : (f.block.consume f.cur.consumedToLimit).2 with
  | some g => simp
  | none => simp only; split <;> simp

theorem finishDeliver_block (f : Frame) (side : Store) (hm : f.mode = .deliver) (hb : f.blockGasConsumed = false)
    (hp : f.pan = none) :
    (finishDeliver f side).cur = f.cur ∧ (finishDeliver f side).startingGas = f.startingGas ∧
    (((finishDeliver f side).blockGasConsumed = false ∧ (finishDeliver f side).block = f.block) ∨
     ((finishDeliver f side).blockGasConsumed = true ∧
      (finishDeliver f side).block = (f.block.consume f.cur.consumedToLimit).1 ∧
      ((finishDeliver f side).pan = none → (f.block.consume f.cur.consumedToLimit).2 = none))) := by
  have hc := consumeBlockGas_frame f
  have hcb := consumeBlockGas_block f hm hb
  have hflag := consumeBlockGas_consumed f hm
  by_cases hr : f.result = .ok
  · cases hcp : (consumeBlockGas f).pan with
    | some p =>
      have e : finishDeliver f side = consumeBlockGas f := by simp [finishDeliver, hr, hcp]
      rw [e]
      exact ⟨hc.2.2.2.2.2.2.2.2.2.1, hc.2.2.2.2.2.2.2.2.2.2.2.2.2.2, .inr ⟨hflag, hcb.1, hcb.2⟩⟩
    | none =>
      have hres : (consumeBlockGas f).result = .ok := by rw [hc.2.2.2.2.2.2.2.1]; exact hr
      have e : finishDeliver f side =
          { (consumeBlockGas f) with
            hook := .ok
            vm := side ++ (consumeBlockGas f).vm
            parent := (consumeBlockGas f).cache ++ (consumeBlockGas f).parent
            cache := []
            cp := none } := by
        simp [finishDeliver, hr, hcp, hres]
      rw [e]
      exact ⟨hc.2.2.2.2.2.2.2.2.2.1, hc.2.2.2.2.2.2.2.2.2.2.2.2.2.2, .inr ⟨hflag, hcb.1, fun _ => hcb.2 hcp⟩⟩
  · have e : finishDeliver f side =
        { f with
          hook := .fail
          parent := (f.cp.getD []) ++ f.parent
          cache := []
          cp := none } := by
      simp [finishDeliver, hr, hp]
    rw [e]
    exact ⟨rfl, rfl, .inl ⟨hb, rfl⟩⟩

theorem afterMsgs_block (f : Frame) (r : MsgsRes) (hm : f.mode = .deliver) (hb : f.blockGasConsumed = false)
    (hp : f.pan = none) :
    (afterMsgs finishDeliver f r).cur = f.cur ∧ (afterMsgs finishDeliver f r).startingGas = f.startingGas ∧
    (((afterMsgs finishDeliver f r).blockGasConsumed = false ∧ (afterMsgs finishDeliver f r).block = f.block) ∨
     ((afterMsgs finishDeliver f r).blockGasConsumed = true ∧
      (afterMsgs finishDeliver f r).block = (f.block.consume f.cur.consumedToLimit).1 ∧
      ((afterMsgs finishDeliver f r).pan = none → (f.block.consume f.cur.consumedToLimit).2 = none))) := by
  cases hrp : r.pan with
  | some p =>
    have e : afterMsgs finishDeliver f r = { f with pan := some p } := by simp [afterMsgs, hrp]
    rw [e]
    exact ⟨rfl, rfl, .inl ⟨hb, rfl⟩⟩
  | none =>
    have e : afterMsgs finishDeliver f r = finishDeliver { f with result := r.res } r.env.side := by
      simp [afterMsgs, hrp, hm]
    rw [e]
    exact finishDeliver_block { f with result := r.res } r.env.side hm hb hp

/-- when the body of runTx is left, either the block meter is untouched and still to be
charged by the defer, or it has been charged (explicit call) with the final tx meter -/
theorem body_block (tx : Tx) (f : Frame) (hf : Fresh f) :
    (body finishDeliver tx f).startingGas = f.startingGas ∧
    (((body finishDeliver tx f).blockGasConsumed = false ∧ (body finishDeliver tx f).block = f.block) ∨
     ((body finishDeliver tx f).blockGasConsumed = true ∧
      (body finishDeliver tx f).block = (f.block.consume (body finishDeliver tx f).cur.consumedToLimit).1 ∧
      ((body finishDeliver tx f).pan = none →
        (f.block.consume (body finishDeliver tx f).cur.consumedToLimit).2 = none))) := by
  unfold body
  cases preAnte tx with
  | some r => exact ⟨rfl, .inl ⟨hf.bgc, rfl⟩⟩
  | none =>
    simp only
    cases (runAnte tx.ante tx.gasWanted f.parent f.cur).out with
    | pan p => exact ⟨rfl, .inl ⟨hf.bgc, rfl⟩⟩
    | abort oog => exact ⟨rfl, .inl ⟨hf.bgc, rfl⟩⟩
    | done =>
      simp only
      generalize hA : anteFrame tx f (runAnte tx.ante tx.gasWanted f.parent f.cur) = fa
      have ha_mode : fa.mode = .deliver := by rw [← hA]; exact hf.mode
      have ha_pan : fa.pan = none := by rw [← hA]; exact hf.pan
      have ha_flag : fa.blockGasConsumed = false := by rw [← hA]; exact hf.bgc
      have ha_block : fa.block = f.block := by rw [← hA]; rfl
      have ha_sg : fa.startingGas = f.startingGas := by rw [← hA]; rfl
      have e : afterAnte finishDeliver tx fa =
          afterMsgs finishDeliver (msgsFrame tx fa (runMsgs tx.msgs (msgsEnv fa) 0))
            (runMsgs tx.msgs (msgsEnv fa) 0) := by
        simp [afterAnte, ha_mode]
      rw [e]
      generalize runMsgs tx.msgs (msgsEnv fa) 0 = r
      have hmb : (msgsFrame tx fa r).block = f.block := ha_block
      have := afterMsgs_block (msgsFrame tx fa r) r ha_mode ha_flag ha_pan
      refine ⟨this.2.1.trans ha_sg, ?_⟩
      rcases this.2.2 with h | h
      · exact .inl ⟨h.1, h.2.trans hmb⟩
      · refine .inr ⟨h.1, ?_, ?_⟩
        · rw [h.2.1, this.1, hmb]
        · intro hp; have h2 := h.2.2 hp; rw [this.1, ← hmb]; exact h2

/-- after body and defers the block meter has been charged exactly once, with
`GasConsumedToLimit` of the tx's final gas meter; an OK result means that charge
returned normally -/
theorem runFrame_block (tx : Tx) (f : Frame) (hf : Fresh f) :
    (runFrame finishDeliver tx f).block =
      (f.block.consume (runFrame finishDeliver tx f).cur.consumedToLimit).1 ∧
    ((runFrame finishDeliver tx f).res = .ok →
      (f.block.consume (runFrame finishDeliver tx f).cur.consumedToLimit).2 = none) := by
  rw [runFrame_eq]
  have pf := post_frame (body finishDeliver tx f)
  have hcur : (post (body finishDeliver tx f)).out.cur = (body finishDeliver tx f).cur := pf.2.2.2.2.2.1
  have hbm : (body finishDeliver tx f).mode = .deliver := by
    cases body_cases tx f hf with
    | noAnte _ _ _ _ _ h6 _ => exact h6
    | committed _ _ _ _ _ _ _ _ h9 => exact h9
    | handled _ _ _ _ _ _ _ h8 => exact h8
    | pending _ _ _ _ _ _ _ h8 => exact h8
  have h3 := deferWriteCheckpoint_frame (body finishDeliver tx f)
  have hrec := deferRecover_frame (deferConsumeBlockGas (deferWriteCheckpoint (body finishDeliver tx f)))
  have hblock : (post (body finishDeliver tx f)).out.block =
      (consumeBlockGas (deferWriteCheckpoint (body finishDeliver tx f))).block := hrec.2.2.2.2.2.2.2.2.1
  rw [hcur, hblock]
  have hres : (post (body finishDeliver tx f)).out.res = (post (body finishDeliver tx f)).result := rfl
  rw [hres]
  rcases (body_block tx f hf).2 with h | h
  · have hflag : (deferWriteCheckpoint (body finishDeliver tx f)).blockGasConsumed = false := by
      rw [h3.2.2.2.2.2.2.1]; exact h.1
    have hmode : (deferWriteCheckpoint (body finishDeliver tx f)).mode = .deliver := by rw [h3.2.2.1]; exact hbm
    have hcb := consumeBlockGas_block _ hmode hflag
    rw [h3.2.2.2.2.2.2.2.2.2.2.2.1, h3.2.2.2.2.2.2.2.1, h.2] at hcb
    exact ⟨hcb.1, fun hok => hcb.2 (post_result_ok _ hok).2.2⟩
  · have hflag : (deferWriteCheckpoint (body finishDeliver tx f)).blockGasConsumed = true := by
      rw [h3.2.2.2.2.2.2.1]; exact h.1
    rw [consumeBlockGas_noop _ hflag, h3.2.2.2.2.2.2.2.2.2.2.2.1]
    exact ⟨h.2.1, fun hok => h.2.2 (post_result_ok _ hok).2.1⟩


/-! ### the tx gas meter (production shape: the ante installs `NewGasMeter(gasWanted)`) -/

/-- a basic meter of limit `L` with `0 ≤ consumed` -/
def IsBasicL (m : Meter) (L : Int) : Prop := ∃ b, m = .basic b ∧ b.limit = L ∧ 0 ≤ L ∧ 0 ≤ b.consumed
/-- … that is not past its limit -/
def Within (m : Meter) (L : Int) : Prop := ∃ b, m = .basic b ∧ b.limit = L ∧ 0 ≤ L ∧ 0 ≤ b.consumed ∧ b.consumed ≤ L

theorem Within.isBasicL {m : Meter} {L : Int} (h : Within m L) : IsBasicL m L := by
  obtain ⟨b, h1, h2, h3, h4, _⟩ := h; exact ⟨b, h1, h2, h3, h4⟩

/-- running steps on a basic meter within its limit: the meter stays basic with the same
limit, and it is past the limit only if the step list ended in an out-of-gas panic -/
theorem runSteps_basic (mirror : Bool) (steps : List Step) (e : Env) (L : Int) (h : Within e.meter L) :
    IsBasicL (runSteps mirror steps e).1.meter L ∧
    ((runSteps mirror steps e).2 ≠ .pan .oog → Within (runSteps mirror steps e).1.meter L) := by
  induction steps generalizing e with
  | nil => exact ⟨h.isBasicL, fun _ => h⟩
  | cons s rest ih =>
    cases s with
    | write k v => simp only [runSteps]; exact ih _ h
    | del k => simp only [runSteps]; exact ih _ h
    | consume n =>
      obtain ⟨b, hb, hl, hL, h0, hle⟩ := h
      simp only [runSteps, hb, Meter.consume]
      rcases Basic.consume_cases b n with ⟨_, hc⟩ | ⟨_, _, hc⟩ | ⟨hn, _, hc⟩
      · rw [hc]; simp only [toPan]
        exact ⟨⟨b, rfl, hl, hL, h0⟩, fun _ => ⟨b, rfl, hl, hL, h0, hle⟩⟩
      · rw [hc]; simp only [toPan]
        exact ⟨⟨b, rfl, hl, hL, h0⟩, fun _ => ⟨b, rfl, hl, hL, h0, hle⟩⟩
      · rw [hc]
        by_cases hgt : b.consumed + n > b.limit
        · simp only [hgt, if_true, toPan]
          exact ⟨⟨_, rfl, hl, hL, by simp; omega⟩, fun hne => absurd rfl hne⟩
        · simp only [hgt, if_false]
          exact ih _ ⟨_, rfl, hl, hL, by simp; omega, by simp; omega⟩
    | refund n =>
      obtain ⟨b, hb, hl, hL, h0, hle⟩ := h
      simp only [runSteps, hb, Meter.refund]
      by_cases hn : n < 0
      · have hr : b.refund n = (b, some .negative) := by simp [Basic.refund, hn]
        rw [hr]; simp only [toPan]
        exact ⟨⟨b, rfl, hl, hL, h0⟩, fun _ => ⟨b, rfl, hl, hL, h0, hle⟩⟩
      · have hr : b.refund n =
            ({ b with consumed := b.consumed - (if n > b.consumed then b.consumed else n) }, none) := by
          simp [Basic.refund, hn]
        rw [hr]
        simp only
        refine ih _ ⟨_, rfl, hl, hL, ?_, ?_⟩
        · simp only; split <;> omega
        · simp only; split <;> omega
    | require k v =>
      simp only [runSteps]
      split
      · exact ih _ h
      · exact ⟨h.isBasicL, fun _ => h⟩
    | fail => simp only [runSteps]; exact ⟨h.isBasicL, fun _ => h⟩
    | panic => simp only [runSteps]; exact ⟨h.isBasicL, fun _ => h⟩
    | oogPanic => simp only [runSteps]; exact ⟨h.isBasicL, fun _ => h⟩
    | zeroCtx => simp only [runSteps]; exact ⟨h.isBasicL, fun _ => h⟩
    | abortNoErr => simp only [runSteps]; exact ⟨h.isBasicL, fun _ => h⟩

theorem runMsgs_basic (msgs : List Msg) (e : Env) (n : Nat) (L : Int) (h : Within e.meter L) :
    IsBasicL (runMsgs msgs e n).env.meter L ∧
    ((runMsgs msgs e n).pan ≠ some .oog → Within (runMsgs msgs e n).env.meter L) := by
  induction msgs generalizing e n with
  | nil => exact ⟨h.isBasicL, fun _ => h⟩
  | cons m rest ih =>
    unfold runMsgs
    by_cases hroute : m.routable = true
    · simp only [hroute, Bool.not_true, Bool.false_eq_true, if_false]
      have hs := runSteps_basic true m.steps e L h
      cases ho : (runSteps true m.steps e).2 with
      | ok => simp only; exact ih _ _ (hs.2 (by rw [ho]; simp))
      | err => simp only; exact ⟨hs.1, fun _ => hs.2 (by rw [ho]; simp)⟩
      | pan p =>
        simp only
        refine ⟨hs.1, fun hne => hs.2 ?_⟩
        rw [ho]; intro hp; apply hne; cases hp; rfl
      | zero => simp only; exact ⟨hs.1, fun _ => hs.2 (by rw [ho]; simp)⟩
      | noerr => simp only; exact ⟨hs.1, fun _ => hs.2 (by rw [ho]; simp)⟩
    · simp only [hroute, Bool.not_false, if_true]
      exact ⟨h.isBasicL, fun _ => h⟩

/-- an ante that installs `NewGasMeter(gasWanted)` and returns without abort hands
over a basic meter of that limit, not past it -/
theorem runAnte_done_basic (a : Ante) (gw : Int) (parent : Store) (inc : Meter) (hk : a.kind = .basic)
    (h : (runAnte a gw parent inc).out = .done) : Within (runAnte a gw parent inc).cur gw := by
  unfold runAnte at h ⊢
  cases h1 : (runSteps false a.pre (anteEnv parent inc)).2 with
  | ok =>
    simp only [h1] at h ⊢
    cases hi : installMeter a.kind gw (runSteps false a.pre (anteEnv parent inc)).1.meter with
    | error e => simp [hi] at h
    | ok cur =>
      simp only [hi, anteAfterInstall] at h ⊢
      have h2 := anteOutOf_done _ _ h
      have hcur : Within cur gw := by
        simp only [installMeter, hk, Basic.new] at hi
        by_cases hneg : gw < 0
        · simp [hneg, Except.map] at hi
        · simp only [hneg, if_false, Except.map, Except.ok.injEq] at hi
          rw [← hi]
          exact ⟨_, rfl, rfl, by omega, by simp, by simp; omega⟩
      exact (runSteps_basic false a.steps _ gw hcur).2 (by rw [h2]; simp)
  | err => simp [h1, anteOutOf] at h
  | pan p => cases p <;> simp [h1, anteOutOf] at h
  | zero => simp [h1, anteOutOf] at h
  | noerr => simp [h1, anteOutOf] at h

theorem finishDeliver_gw (f : Frame) (side : Store) : (finishDeliver f side).gasWanted = f.gasWanted := by
  have hc := consumeBlockGas_frame f
  unfold finishDeliver
  by_cases hr : f.result = .ok
  · simp only [hr, if_true]
    cases (consumeBlockGas f).pan with
    | some p => exact hc.2.2.2.2.2.2.2.2.2.2.1
    | none => simp only; split <;> exact hc.2.2.2.2.2.2.2.2.2.2.1
  · simp only [hr, if_false]
    cases f.pan <;> simp [hr]

theorem afterMsgs_gw (f : Frame) (r : MsgsRes) : (afterMsgs finishDeliver f r).gasWanted = f.gasWanted := by
  unfold afterMsgs
  cases r.pan with
  | some p => rfl
  | none =>
    simp only
    by_cases hm : f.mode = .deliver
    · simp only [hm, if_true]; exact finishDeliver_gw _ _
    · simp [hm]

theorem afterMsgs_pan_some (f : Frame) (r : MsgsRes) (p : Pan) (h : r.pan = some p) :
    afterMsgs finishDeliver f r = { f with pan := some p } := by simp [afterMsgs, h]

/-- the tx gas meter when the body of runTx is left (production-shaped ante that completed):
within the limit, or past it with an out-of-gas panic in flight and the block not yet charged -/
theorem body_gas (tx : Tx) (f : Frame) (hf : Fresh f) (hk : tx.ante.kind = .basic)
    (hd : (body finishDeliver tx f).anteDone = true) :
    (body finishDeliver tx f).gasWanted = tx.gasWanted ∧
    (Within (body finishDeliver tx f).cur tx.gasWanted ∨
     (IsBasicL (body finishDeliver tx f).cur tx.gasWanted ∧ (body finishDeliver tx f).pan = some .oog ∧
      (body finishDeliver tx f).blockGasConsumed = false ∧ (body finishDeliver tx f).block = f.block ∧
      (body finishDeliver tx f).startingGas = f.startingGas ∧ (body finishDeliver tx f).mode = .deliver)) := by
  unfold body at hd ⊢
  cases hpre : preAnte tx with
  | some r => simp [hpre, hf.anteDone] at hd
  | none =>
    simp only [hpre] at hd ⊢
    cases hout : (runAnte tx.ante tx.gasWanted f.parent f.cur).out with
    | pan p => simp [hout, hf.anteDone] at hd
    | abort oog => simp [hout, hf.anteDone] at hd
    | done =>
      have hw := runAnte_done_basic _ _ _ _ hk hout
      simp only
      generalize hA : anteFrame tx f (runAnte tx.ante tx.gasWanted f.parent f.cur) = fa
      have ha_mode : fa.mode = .deliver := by rw [← hA]; exact hf.mode
      have ha_pan : fa.pan = none := by rw [← hA]; exact hf.pan
      have ha_flag : fa.blockGasConsumed = false := by rw [← hA]; exact hf.bgc
      have ha_block : fa.block = f.block := by rw [← hA]; rfl
      have ha_sg : fa.startingGas = f.startingGas := by rw [← hA]; rfl
      have ha_gw : fa.gasWanted = tx.gasWanted := by rw [← hA]; rfl
      have ha_cur : Within fa.cur tx.gasWanted := by rw [← hA]; exact hw
      have e : afterAnte finishDeliver tx fa =
          afterMsgs finishDeliver (msgsFrame tx fa (runMsgs tx.msgs (msgsEnv fa) 0))
            (runMsgs tx.msgs (msgsEnv fa) 0) := by
        simp [afterAnte, ha_mode]
      rw [e]
      have hmb := runMsgs_basic tx.msgs (msgsEnv fa) 0 tx.gasWanted ha_cur
      generalize runMsgs tx.msgs (msgsEnv fa) 0 = r at hmb
      have hgw : (afterMsgs finishDeliver (msgsFrame tx fa r) r).gasWanted = tx.gasWanted := by
        rw [afterMsgs_gw]; exact ha_gw
      refine ⟨hgw, ?_⟩
      have hblk := afterMsgs_block (msgsFrame tx fa r) r ha_mode ha_flag ha_pan
      have hcur : (afterMsgs finishDeliver (msgsFrame tx fa r) r).cur = r.env.meter := hblk.1
      rw [hcur]
      cases hrp : r.pan with
      | none => exact .inl (hmb.2 (by rw [hrp]; simp))
      | some p =>
        cases p with
        | other => exact .inl (hmb.2 (by rw [hrp]; simp))
        | oog =>
          rw [afterMsgs_pan_some _ _ _ hrp]
          exact .inr ⟨hmb.1, rfl, ha_flag, ha_block, ha_sg, ha_mode⟩

/-- the block meters BeginBlock installs -/
def BlockSimple (m : Meter) : Prop := (∃ b, m = .basic b) ∨ (∃ c, m = .infinite c)

/-- charging a basic or infinite meter with a non-negative amount that cannot overflow
int64 adds the amount and either returns normally or panics out-of-gas -/
theorem consume_simple (m : Meter) (T : Int) (hb : BlockSimple m) (hT : 0 ≤ T)
    (hno : inI64 (m.gasConsumed + T) = true) :
    (m.consume T).1.gasConsumed = m.gasConsumed + T ∧
    ((m.consume T).2 = none ∨ (m.consume T).2 = some .oog) := by
  rcases hb with ⟨b, hb⟩ | ⟨c, hb⟩
  · rw [hb] at hno ⊢
    simp only [Meter.gasConsumed] at hno
    simp only [Meter.consume, Meter.gasConsumed]
    rw [Basic.consume_fits b _ hT hno]
    refine ⟨rfl, ?_⟩
    by_cases hgt : b.consumed + T > b.limit <;> simp [hgt]
  · rw [hb] at hno ⊢
    simp only [Meter.gasConsumed] at hno
    simp [Meter.consume, Meter.gasConsumed, hno]

/-- an out-of-gas panic in flight survives the deferred block charge (it can only be
replaced by another out-of-gas panic) when that charge cannot overflow int64 -/
theorem consumeBlockGas_keeps_oog (f : Frame) (hp : f.pan = some .oog) (hm : f.mode = .deliver)
    (hb : BlockSimple f.block) (hT : 0 ≤ f.cur.consumedToLimit)
    (hno : inI64 (f.block.gasConsumed + f.cur.consumedToLimit) = true)
    (hsg : f.startingGas ≤ f.block.gasConsumed) :
    (consumeBlockGas f).pan = some .oog := by
  have hc := consume_simple f.block f.cur.consumedToLimit hb hT hno
  unfold consumeBlockGas
  by_cases hflag : f.blockGasConsumed = false
  · simp only [hm, hflag, and_self, if_true]
    cases h2 : (f.block.consume f.cur.consumedToLimit).2 with
    | some g =>
      rcases hc.2 with h | h
      · rw [h2] at h; cases h
      · rw [h2] at h; cases h; rfl
    | none =>
      have : ¬ ((f.block.consume f.cur.consumedToLimit).1.gasConsumed < f.startingGas) := by
        rw [hc.1]; omega
      simp [this, hp]
  · have : f.blockGasConsumed = true := by simpa using hflag
    simp [this, hp]

/-- GasUsed ≤ GasWanted for every outcome except out-of-gas (production-shaped ante that
completed; the block charge cannot overflow int64) -/
theorem runFrame_gas (tx : Tx) (f : Frame) (hf : Fresh f) (hk : tx.ante.kind = .basic)
    (hb : BlockSimple f.block) (h0 : 0 ≤ f.block.gasConsumed)
    (hno : inI64 (f.block.gasConsumed + tx.gasWanted) = true) (hsg : f.startingGas ≤ f.block.gasConsumed)
    (hd : (runFrame finishDeliver tx f).anteDone = true) (hne : (runFrame finishDeliver tx f).res ≠ .oog) :
    (runFrame finishDeliver tx f).gasUsed ≤ (runFrame finishDeliver tx f).gasWanted := by
  rw [runFrame_eq] at hd hne ⊢
  have pf := post_frame (body finishDeliver tx f)
  have hd' : (body finishDeliver tx f).anteDone = true := by
    have : (post (body finishDeliver tx f)).out.anteDone = (post (body finishDeliver tx f)).anteDone := rfl
    rw [this, pf.2.2.1] at hd; exact hd
  have hg := body_gas tx f hf hk hd'
  have hgu : (post (body finishDeliver tx f)).out.gasUsed = (body finishDeliver tx f).cur.gasConsumed := by
    show (post (body finishDeliver tx f)).cur.gasConsumed = _; rw [pf.2.2.2.2.2.1]
  have hgw : (post (body finishDeliver tx f)).out.gasWanted = tx.gasWanted := by
    show (post (body finishDeliver tx f)).gasWanted = _; rw [pf.2.2.2.2.2.2.1]; exact hg.1
  rw [hgu, hgw]
  rcases hg.2 with ⟨b, hb1, hb2, _, _, hb5⟩ | ⟨⟨b, hb1, hb2, hb3, hb4⟩, hpan, hflag, hblock, hsg', hmode⟩
  · rw [hb1]; simp only [Meter.gasConsumed]; omega
  · exfalso; apply hne
    show (post (body finishDeliver tx f)).result = .oog
    have h3 := deferWriteCheckpoint_frame (body finishDeliver tx f)
    simp only [post, deferConsumeBlockGas, deferRecover_result]
    have hT : (body finishDeliver tx f).cur.consumedToLimit = (if b.consumed > b.limit then b.limit else b.consumed) := by
      rw [hb1]; simp only [Meter.consumedToLimit]; exact Basic.consumedToLimit_eq b
    have hkeep := consumeBlockGas_keeps_oog (deferWriteCheckpoint (body finishDeliver tx f))
      (by rw [h3.2.2.2.2.1]; exact hpan) (by rw [h3.2.2.1]; exact hmode)
      (by rw [h3.2.2.2.2.2.2.2.2.2.2.2.1, hblock]; exact hb)
      (by rw [h3.2.2.2.2.2.2.2.1, hT]; split <;> omega)
      (by
        rw [h3.2.2.2.2.2.2.2.2.2.2.2.1, hblock, h3.2.2.2.2.2.2.2.1, hT]
        rw [inI64_iff] at hno ⊢
        unfold minI64 maxI64 at *
        split <;> omega)
      (by rw [h3.2.2.2.2.2.2.2.2.2.2.2.2.2, h3.2.2.2.2.2.2.2.2.2.2.2.1, hblock, hsg']; exact hsg)
    rw [hkeep]


/-! ### well-formed block meters: the prelude of runTx cannot panic -/

/-- the block meters BeginBlock installs, in any state reachable by charging them -/
def BlockWF (m : Meter) : Prop :=
  (∃ b, m = .basic b ∧ 0 ≤ b.consumed ∧ b.limit ≤ maxI64) ∨ (∃ c, m = .infinite c)

theorem BlockWF.simple {m : Meter} (h : BlockWF m) : BlockSimple m := by
  rcases h with ⟨b, h, _⟩ | ⟨c, h⟩
  · exact .inl ⟨b, h⟩
  · exact .inr ⟨c, h⟩

theorem blockWF_remaining (m : Meter) (h : BlockWF m) :
    ∃ g, m.remaining = .ok g ∧ 0 ≤ g := by
  rcases h with ⟨b, hb, h0, hl⟩ | ⟨c, hc⟩
  · rw [hb]
    simp only [Meter.remaining, Basic.remaining, Basic.consumedToLimit_eq]
    have hin : inI64 (b.limit - if b.consumed > b.limit then b.limit else b.consumed) = true := by
      rw [inI64_iff]; unfold minI64 maxI64 at *; split <;> omega
    rw [hin]
    refine ⟨_, rfl, ?_⟩
    split <;> omega
  · rw [hc]; exact ⟨maxI64, rfl, by unfold maxI64; omega⟩

theorem runTx_no_crash (fin : Frame → Store → Frame) (tx : Tx) (parent : Store) (block ctxMeter : Meter)
    (vm : Store) (h : BlockWF block) : (runTxWith fin .deliver tx parent block ctxMeter vm).crash = false := by
  obtain ⟨g, hg, hg0⟩ := blockWF_remaining block h
  unfold runTxWith
  simp only [hg]
  have hnew : Basic.new g = .ok { limit := g, consumed := 0 } := by
    have : ¬ g < 0 := by omega
    simp [Basic.new, this]
  rw [hnew]
  simp only
  split
  · rfl
  · rfl

theorem blockWF_consume (m : Meter) (a : Int) (h : BlockWF m) : BlockWF (m.consume a).1 := by
  rcases h with ⟨b, hb, h0, hl⟩ | ⟨c, hc⟩
  · rw [hb]
    refine .inl ⟨(b.consume a).1, rfl, Basic.consume_nonneg b a h0, ?_⟩
    rw [Basic.consume_limit]; exact hl
  · rw [hc]
    simp only [Meter.consume]
    split
    · exact .inr ⟨_, rfl⟩
    · exact .inr ⟨_, rfl⟩

end GnoVerif.C02
