/-
Proofs.C26Run — the working session, the reads, and the induction over histories.
-/
import GnoVerif.Proofs.C26Step

set_option linter.unusedSimpArgs false
set_option linter.unusedVariables false

namespace GnoVerif.C26
open GnoVerif

/-! ### the working session (no DB change) -/

theorem set_hinv {db : DB} {h : Handle} (hh : HInv db h) (k val : Bytes) : HInv db (h.set k val).1 := by
  refine ⟨hh.savedOk, ?_, ?_, ?_, ?_, hh.covered⟩
  · intro ht; simp [Handle.set] at ht
  · intro k'
    simp only [Handle.set, OMap.get_set]
    by_cases hk : k = k'
    · simp only [hk, if_true]; exact Or.inr (Or.inr ⟨val, rfl⟩)
    · simp only [hk, if_false]; exact hh.delta k'
  · intro hp hf k'
    have hf' : h.fastOpt = true := hf
    have hst := hh.stage hp hf' k'
    simp only [Handle.set, hf', if_true, netFast_append_setF, OMap.get_set]
    by_cases hk : k = k'
    · simp only [hk, if_true]
      refine ⟨trivial, ?_⟩
      intro x hx
      simp only [Option.some.injEq] at hx
      rw [← hx]
    · simp only [hk, if_false]; exact hst
  · intro hf
    have hf' : h.fastOpt = false := hf
    simp only [Handle.set, hf', Bool.false_eq_true, if_false]
    exact hh.nostage hf'

theorem set_winv {db : DB} {h : Handle} (hw : WInv db h) (k val : Bytes) : WInv db (h.set k val).1 :=
  ⟨hw.zero, hw.firstLe, hw.firstZero, hw.firstNext, hw.current⟩

theorem remove_hinv {db : DB} {h : Handle} (hh : HInv db h) (k : Bytes) : HInv db (h.remove k).1 := by
  unfold Handle.remove
  cases hg : OMap.get h.work k with
  | none => exact hh
  | some r =>
    simp only
    refine ⟨hh.savedOk, ?_, ?_, ?_, ?_, hh.covered⟩
    · intro ht; simp at ht
    · intro k'
      simp only [OMap.get_del]
      by_cases hk : k = k'
      · simp only [hk, if_true]; exact Or.inr (Or.inl trivial)
      · simp only [hk, if_false]; exact hh.delta k'
    · intro hp hf k'
      have hf' : h.fastOpt = true := hf
      have hst := hh.stage hp hf' k'
      simp only [hf', if_true, netFast_append_delF, OMap.get_del]
      by_cases hk : k = k'
      · simp only [hk, if_true]
        exact ⟨trivial, fun x hx => by simp at hx⟩
      · simp only [hk, if_false]; exact hst
    · intro hf
      have hf' : h.fastOpt = false := hf
      simp only [hf', Bool.false_eq_true, if_false]
      exact hh.nostage hf'

theorem remove_winv {db : DB} {h : Handle} (hw : WInv db h) (k : Bytes) : WInv db (h.remove k).1 := by
  unfold Handle.remove
  cases hg : OMap.get h.work k with
  | none => exact hw
  | some r => exact ⟨hw.zero, hw.firstLe, hw.firstZero, hw.firstNext, hw.current⟩

theorem rollback_hinv {db : DB} {h : Handle} (hh : HInv db h) : HInv db h.rollback := by
  refine ⟨hh.savedOk, fun _ => ⟨rfl, rfl⟩, fun k => Or.inl rfl, ?_, fun _ => rfl, hh.covered⟩
  intro _ _ k
  simp [Handle.rollback, netFast]

theorem rollback_winv {db : DB} {h : Handle} (hw : WInv db h) : WInv db h.rollback :=
  ⟨hw.zero, hw.firstLe, hw.firstZero, hw.firstNext, hw.current⟩

theorem poison_hinv {db : DB} {h : Handle} (hh : HInv db h) :
    HInv db { h with poisoned := true, batch := [] } := by
  refine ⟨hh.savedOk, ?_, hh.delta, ?_, fun _ => rfl, hh.covered⟩
  · intro ht; exact ⟨(hh.cleanOk ht).1, rfl⟩
  · intro hp; simp at hp

theorem poison_winv {db : DB} {h : Handle} (hw : WInv db h) :
    WInv db { h with poisoned := true, batch := [] } :=
  ⟨hw.zero, hw.firstLe, hw.firstZero, hw.firstNext, hw.current⟩

/-- `SaveVersion` (all exits). -/
theorem save_spec {db : DB} {h : Handle} (kind : SaveKind) (hi : DBInv db) (hh : HInv db h)
    (hw : WInv db h) (hc : h.fastOpt = true → h.ensured = true) :
    DBInv (save db h kind).1 ∧ Frame db (save db h kind).1 ∧
    HInv (save db h kind).1 (save db h kind).2.1 ∧ WInv (save db h kind).1 (save db h kind).2.1 := by
  unfold save
  by_cases hp : h.poisoned = true
  · simp only [hp, if_true]; exact ⟨hi, Frame.refl _, hh, hw⟩
  · have hp' : h.poisoned = false := by simpa using hp
    rw [if_neg hp]
    dsimp only
    cases hn : db.tree (h.version + 1) with
    | some ex =>
      simp only
      by_cases hs : strip ex = strip h.work
      · -- idempotent save: adopt the persisted version
        simp only [hs, if_true]
        have hmem := tree_mem hn
        refine ⟨hi, Frame.refl _, ?_, ?_⟩
        · refine ⟨?_, fun _ => ⟨rfl, rfl⟩, fun k => Or.inl rfl, ?_, fun _ => rfl, ?_⟩
          · simp only [Nat.succ_ne_zero, if_false]; exact hn
          · intro _ _ k; simp [netFast]
          · intro hf he _
            rcases hw.current hf he with ⟨hnil, _⟩ | ⟨S, hS, hall⟩
            · rw [hnil] at hmem; simp at hmem
            · exact ⟨S, hS, hall _ hmem⟩
        · exact ⟨fun h0 => absurd h0 (Nat.succ_ne_zero _), hw.firstLe, hw.firstZero,
            Nat.le_trans hw.firstNext (Nat.le_succ _), hw.current⟩
      · simp only [hs, if_false]
        exact ⟨hi, Frame.refl _, poison_hinv hh, poison_winv hw⟩
    | none =>
      simp only
      cases kind with
      | fail => exact ⟨hi, Frame.refl _, poison_hinv hh, poison_winv hw⟩
      | normal =>
        dsimp only
        exact ⟨commit_inv hi hh hw hp' hn hc, commit_frame hi hh hw hn, commit_hinv db h,
          commit_winv hi hh hw hn⟩

/-! ### immutable views and reads -/

theorem getImmutable_vinv {db : DB} {fo : Bool} {ver : Ver} {v : View}
    (hg : getImmutable db fo ver = some v) : VInv db v := by
  unfold getImmutable at hg
  cases ht : db.tree ver with
  | none => rw [ht] at hg; simp at hg
  | some m =>
    rw [ht] at hg
    simp only at hg
    split at hg
    · simp only [Option.some.injEq] at hg
      subst hg
      exact ⟨ht, fun hf => by simp at hf⟩
    · simp only [Option.some.injEq] at hg
      subst hg
      refine ⟨ht, ?_⟩
      intro hf
      simp only [Bool.and_eq_true] at hf
      cases hs : db.stamp with
      | none => rw [hs] at hf; simp at hf
      | some S =>
        rw [hs] at hf
        simp only [decide_eq_true_eq] at hf
        exact ⟨S, rfl, hf.2⟩

theorem walk_of_isEmpty {t : Tree} (h : t.isEmpty = true) (k : Bytes) : walk t k = none := by
  have : t = [] := by simpa using h
  subst this; rfl

/-- `ImmutableTree.Get` returns what the tree walk returns. -/
theorem view_get_eq_walk' {db : DB} (hi : DBInv db) {v : View} (hv : VInv db v) (k : Bytes) :
    v.get db k = walk v.root k := by
  unfold View.get
  by_cases he : v.root.isEmpty = true
  · simp only [he, if_true]; exact (walk_of_isEmpty he k).symm
  · simp only [he, Bool.false_eq_true, if_false]
    by_cases hf : v.fast = true
    · simp only [hf, if_true]
      cases hg : fastGet db k v.version with
      | none => rfl
      | some x =>
        obtain ⟨S, hS, hle⟩ := hv.covered hf
        exact (fastGet_sound hi hS hle hv.rootOk hg).symm
    · simp only [hf, Bool.false_eq_true, if_false]

/-- `MutableTree.Get` of a handle opened in contract returns what the tree walk returns. -/
theorem handle_get_eq_walk' {db : DB} (hi : DBInv db) {h : Handle} (hh : HInv db h)
    (hc : h.fastOpt = true → h.ensured = true) (k : Bytes) : h.get db k = walk h.work k := by
  unfold Handle.get
  by_cases he : h.work.isEmpty = true
  · simp only [he, if_true]; exact (walk_of_isEmpty he k).symm
  · have he' : h.work.isEmpty = false := by simpa using he
    simp only [he', Bool.false_eq_true, if_false]
    by_cases hf : (h.fastOpt && h.clean) = true
    · simp only [hf, if_true]
      simp only [Bool.and_eq_true] at hf
      obtain ⟨hfo, hcl⟩ := hf
      cases hg : fastGet db k h.version with
      | none => rfl
      | some x =>
        -- clean and non-empty ⇒ untouched ⇒ the working tree IS the saved version
        have ht : h.touched = false := by
          unfold Handle.clean at hcl
          simp only [he', Bool.false_and, Bool.or_false, Bool.not_eq_true'] at hcl
          exact hcl
        have hws := (hh.cleanOk ht).1
        have h0 : h.version ≠ 0 := by
          intro h0
          have := hh.saved_nil h0
          rw [← hws] at this
          rw [this] at he'; simp at he'
        obtain ⟨S, hS, hle⟩ := hh.covered hfo (hc hfo) h0
        have htree := hh.saved_tree h0
        rw [← hws] at htree
        exact (fastGet_sound hi hS hle htree hg).symm
    · simp only [hf, Bool.false_eq_true, if_false]

/-! ### updating the state -/

theorem inv_set_handle {st : State} (hi : Inv st) (slot : Nat) (h' : Handle)
    (hh : HInv st.db h') (hw : slot = 0 → WInv st.db h') :
    Inv { st with hs := upd st.hs slot (some h') } := by
  refine ⟨hi.db, ?_, ?_, hi.vs⟩
  · intro i g hg
    have hg : upd st.hs slot (some h') i = some g := hg
    by_cases e : i = slot
    · subst e; rw [upd_same] at hg; cases hg; exact hh
    · rw [upd_other _ _ e] at hg; exact hi.hs i g hg
  · intro g hg
    have hg : upd st.hs slot (some h') 0 = some g := hg
    by_cases e : (0 : Nat) = slot
    · subst e; rw [upd_same] at hg; cases hg; exact hw rfl
    · rw [upd_other _ _ e] at hg; exact hi.w g hg

theorem WInv.transport {db db' : DB} {g : Handle} (hv : db'.vers = db.vers)
    (hs : StampCurrent db → StampCurrent db') (hw : WInv db g) : WInv db' g :=
  ⟨fun h0 => by rw [hv]; exact hw.zero h0, fun p hp => hw.firstLe p (by rw [← hv]; exact hp),
   fun hz => by rw [hv]; exact hw.firstZero hz, hw.firstNext, fun hf he => hs (hw.current hf he)⟩

theorem inv_change {st : State} (hi : Inv st) {db' : DB} (hd : DBInv db') (hf : Frame st.db db')
    (slot : Nat) (ho : Option Handle)
    (hh : ∀ h, ho = some h → HInv db' h) (hw : ∀ h, ho = some h → slot = 0 → WInv db' h)
    (hw0 : slot ≠ 0 → ∀ g, st.hs 0 = some g → WInv db' g) :
    Inv { st with db := db', hs := upd st.hs slot ho } := by
  refine ⟨hd, ?_, ?_, ?_⟩
  · intro i g hg
    have hg : upd st.hs slot ho i = some g := hg
    by_cases e : i = slot
    · subst e; rw [upd_same] at hg; exact hh g hg
    · rw [upd_other _ _ e] at hg; exact (hi.hs i g hg).frame hf
  · intro g hg
    have hg : upd st.hs slot ho 0 = some g := hg
    by_cases e : (0 : Nat) = slot
    · subst e; rw [upd_same] at hg; exact hw g hg rfl
    · rw [upd_other _ _ e] at hg; exact hw0 (fun e' => e e'.symm) g hg
  · intro i v hv; exact (hi.vs i v hv).frame hf

theorem inv_dropAll {st : State} {db' : DB} (hd : DBInv db') :
    Inv (dropAll { st with db := db' }) :=
  ⟨hd, fun i h hh => by simp [dropAll] at hh, fun h hh => by simp [dropAll] at hh,
   fun i v hv => by simp [dropAll] at hv⟩

theorem inv_init' : Inv State.init := by
  refine ⟨⟨?_, ?_, ?_, ?_, ?_, ?_, ?_⟩, ?_, ?_, ?_⟩ <;>
    simp [State.init, DB.empty, HistInv, FastInv]

end GnoVerif.C26
