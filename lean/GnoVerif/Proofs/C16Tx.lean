import GnoVerif.Proofs.C16World
/-! Helper lemmas for C16: one transaction signed through session `(m,k)` keeps `TxInv`. -/
namespace GnoVerif.C16

variable {m k : Nat} {d : Denom} {auth : List (Nat × Nat)}

theorem bankSend_inv (hauth : auth.lookup m = some k) {w w' : World} {src : Acct} {to : Option Acct} {amt : Coins}
    (hh : Has m k w) (h : bankSend auth w src to amt = .ok w') : TxInv m k d w w' := by
  unfold bankSend at h
  split at h
  · cases h; exact TxInv.refl hh
  · cases h1 : hookDeduct auth w src amt with
    | error e => simp [h1, bind, Except.bind] at h
    | ok w1 =>
      cases h2 : debit w1 src amt with
      | error e => simp [h1, h2, bind, Except.bind] at h
      | ok w2 =>
        simp only [h1, h2, bind, Except.bind] at h
        by_cases hs : src = .m m
        · subst hs
          have i1 : TxInv m k d w w2 := inv_hook_debit_self hh hauth h1 h2
          exact i1.trans (inv_credit i1.has h)
        · have i1 : TxInv m k d w w1 := inv_hook_other hh hs h1
          have i2 : TxInv m k d w1 w2 := inv_debit_other i1.has hs h2
          exact (i1.trans i2).trans (inv_credit i2.has h)

theorem setSink_inv {w : World} (hh : Has m k w) (realm : Nat) (n : Int) :
    TxInv m k d w (setSink w realm n) :=
  TxInv.of_same hh rfl rfl (Int.le_refl _)

theorem lockDeposit_inv (hauth : auth.lookup m = some k) {w w' : World} {caller : Nat} {req : Int}
    (hh : Has m k w) (h : lockDeposit auth w caller req = .ok w') : TxInv m k d w w' := by
  unfold lockDeposit at h
  cases h1 : hookDeduct auth w (.m caller) (ugnot req) with
  | error e => simp [h1] at h
  | ok w1 =>
    simp only [h1] at h
    unfold bankSendUnrestricted at h
    cases h2 : debit w1 (.m caller) (ugnot req) with
    | error e => simp [h2, bind, Except.bind] at h
    | ok w2 =>
      simp only [h2, bind, Except.bind] at h
      cases h3 : credit w2 none (ugnot req) with
      | error e => simp [h3] at h
      | ok w3 =>
        simp only [h3] at h
        cases h
        by_cases hc : caller = m
        · subst hc
          have i1 := inv_hook_debit_self (d := d) hh hauth h1 h2
          exact i1.trans (inv_credit i1.has h3)
        · have hne : Acct.m caller ≠ Acct.m m := fun e => hc (by cases e; rfl)
          have i1 := inv_hook_other (d := d) hh hne h1
          have i2 := inv_debit_other (d := d) i1.has hne h2
          exact (i1.trans i2).trans (inv_credit i2.has h3)

theorem refundDeposit_inv {w w' : World} {caller : Nat} {amt : Int}
    (hh : Has m k w) (h : refundDeposit w caller amt = .ok w') : TxInv m k d w w' := by
  unfold refundDeposit at h
  cases h3 : credit w (some (.m caller)) (ugnot amt) with
  | error e => simp [h3] at h
  | ok w3 =>
    simp only [h3] at h
    cases h
    exact inv_credit hh h3

theorem storageDeposit_inv (hauth : auth.lookup m = some k) {w w' : World} {caller realm : Nat} {n : Int}
    (hh : Has m k w) (h : storageDeposit auth w caller realm n = .ok w') : TxInv m k d w w' := by
  unfold storageDeposit at h
  simp only at h
  have i0 : TxInv m k d w (setSink w realm n) := setSink_inv hh realm n
  split at h
  · split at h
    · cases h
    · exact i0.trans (lockDeposit_inv hauth i0.has h)
  · split at h
    · exact i0.trans (refundDeposit_inv i0.has h)
    · cases h; exact i0

/-- the three auth messages are exactly the ones with route "auth" -/
theorem alwaysDenied_auth (msg : Msg) :
    (∃ s key e p l ps, msg = .create s key e p l ps) ∨ (∃ s key, msg = .revoke s key) ∨ (∃ s, msg = .revokeall s) →
    alwaysDenied msg = true := by
  rintro (⟨s, key, e, p, l, ps, rfl⟩ | ⟨s, key, rfl⟩ | ⟨s, rfl⟩) <;> simp [alwaysDenied, Msg.route]

theorem createSession_spec {w w' : World} {src key : Nat} {e p : Int} {l : Coins} {ps : List String}
    (h : createSession w src key e p l ps = .ok w') :
    lookupSess w.sess (src, key) = none ∧
    w' = { w with sess := setSess w.sess (src, key) (newSession e p l ps w.now) } := by
  unfold createSession at h
  repeat (split at h; · cases h)
  rename_i hdup _ _ _ _ _
  cases h
  refine ⟨?_, rfl⟩
  cases hl : lookupSess w.sess (src, key) with
  | none => rfl
  | some s => simp [hl] at hdup

theorem execMsg_inv (hauth : auth.lookup m = some k) {w w' : World} {msg : Msg}
    (hh : Has m k w) (hden : msg.signer = m → alwaysDenied msg = false)
    (h : execMsg auth w msg = .ok w') : TxInv m k d w w' := by
  cases msg with
  | send src to amt => exact bankSend_inv hauth hh h
  | exec src realm fn snd =>
    simp only [execMsg] at h
    cases h1 : bankSend auth w (.m src) none snd with
    | error e => simp [h1, bind, Except.bind] at h
    | ok w1 =>
      simp only [h1, bind, Except.bind] at h
      have i1 : TxInv m k d w w1 := bankSend_inv hauth hh h1
      cases fn with
      | noop => simp only at h; cases h; exact i1
      | fail => simp at h
      | grow n => simp only at h; exact i1.trans (storageDeposit_inv hauth i1.has h)
  | run src fn snd =>
    simp only [execMsg] at h
    cases h1 : bankSend auth w (.m src) (some (.m src)) snd with
    | error e => simp [h1, bind, Except.bind] at h
    | ok w1 =>
      simp only [h1, bind, Except.bind] at h
      have i1 : TxInv m k d w w1 := bankSend_inv hauth hh h1
      cases fn with
      | noop => simp only at h; cases h; exact i1
      | fail => simp at h
      | pay to coins =>
        simp only at h
        cases h2 : bankSend auth w1 (.m src) (some to) coins with
        | error e => simp [h2] at h
        | ok w2 =>
          simp only [h2] at h
          cases h
          exact i1.trans (bankSend_inv hauth i1.has h2)
  | addpkg src snd => simp [execMsg] at h
  | create src key e p l ps =>
    have hsrc : src ≠ m := by
      intro e'
      have := hden e'
      rw [alwaysDenied_auth _ (Or.inl ⟨_, _, _, _, _, _, rfl⟩)] at this
      cases this
    simp only [execMsg] at h
    obtain ⟨_, rfl⟩ := createSession_spec h
    have hne : (m, k) ≠ (src, key) := fun e' => hsrc (by cases e'; rfl)
    refine TxInv.of_same hh rfl ?_ (Int.le_refl _)
    simp only [lookup_setSess, if_neg hne]
  | revoke src key =>
    have hsrc : src ≠ m := by
      intro e'
      have := hden e'
      rw [alwaysDenied_auth _ (Or.inr (Or.inl ⟨_, _, rfl⟩))] at this
      cases this
    simp only [execMsg] at h
    split at h
    · cases h
    · cases h
      have hne : (m, k) ≠ (src, key) := fun e' => hsrc (by cases e'; rfl)
      refine TxInv.of_same hh rfl ?_ (Int.le_refl _)
      simp only [lookup_eraseSess, if_neg hne]
  | revokeall src =>
    have hsrc : src ≠ m := by
      intro e'
      have := hden e'
      rw [alwaysDenied_auth _ (Or.inr (Or.inr ⟨_, rfl⟩))] at this
      cases this
    simp only [execMsg] at h
    cases h
    refine TxInv.of_same hh rfl ?_ (Int.le_refl _)
    rw [lookup_filter_master]
    simp only [if_neg (fun (e' : (m, k).1 = src) => hsrc e'.symm)]

theorem execMsgs_inv (hauth : auth.lookup m = some k) {msgs : List Msg} {w w' : World}
    (hh : Has m k w) (hden : ∀ msg ∈ msgs, msg.signer = m → alwaysDenied msg = false)
    (h : execMsgs auth w msgs = .ok w') : TxInv m k d w w' := by
  induction msgs generalizing w with
  | nil => simp only [execMsgs] at h; cases h; exact TxInv.refl hh
  | cons msg r ih =>
    simp only [execMsgs] at h
    cases h1 : execMsg auth w msg with
    | error e => simp [h1] at h
    | ok w1 =>
      simp only [h1] at h
      have i1 : TxInv m k d w w1 := execMsg_inv hauth hh (hden msg (List.mem_cons_self ..)) h1
      exact i1.trans (ih i1.has (fun x hx => hden x (List.mem_cons_of_mem _ hx)) h)

/-! ### ante -/

theorem bumpSeq_inv {w : World} (hh : Has m k w) (i : Nat) : TxInv m k d w (bumpSeq auth w i) := by
  unfold bumpSeq
  split
  · exact TxInv.refl hh
  · rename_i k' _
    split
    · exact TxInv.refl hh
    · rename_i s hs
      by_cases hk : (m, k) = (i, k')
      · cases hk
        obtain ⟨s0, hl, hw⟩ := hh
        have hs' : s = s0 := Option.some.inj (hs.symm.trans hl)
        subst hs'
        refine ⟨rfl, s, { s with seq := s.seq + 1 }, hl, by simp [lookup_setSess], ?_, ?_⟩
        · exact ⟨⟨rfl, rfl, rfl, rfl⟩, ⟨hw.used, hw.limit, hw.le⟩, Or.inl ⟨rfl, rfl⟩⟩
        · have : U { s with seq := s.seq + 1 } w.now d = U s w.now d :=
            U_congr (s := s) (s' := { s with seq := s.seq + 1 }) rfl rfl rfl d
          simp only [this]
          exact Int.le_refl _
      · refine TxInv.of_same hh rfl ?_ (Int.le_refl _)
        simp only [lookup_setSess, if_neg hk]

theorem bumpSeq_fold_inv {w : World} (hh : Has m k w) (l : List Nat) :
    TxInv m k d w (l.foldl (bumpSeq auth) w) := by
  induction l generalizing w with
  | nil => exact TxInv.refl hh
  | cons i r ih =>
    have i1 : TxInv m k d w (bumpSeq auth w i) := bumpSeq_inv hh i
    exact i1.trans (ih i1.has)

theorem payFee_inv (hauth : auth.lookup m = some k) {w w' : World} {tx : Tx} {first : Nat} (ha : tx.auth = auth)
    (hh : Has m k w) (h : payFee w tx first = .ok w') : TxInv m k d w w' := by
  unfold payFee at h
  split at h
  · cases h; exact TxInv.refl hh
  · rw [ha] at h
    cases h1 : hookDeduct auth w (.m first) [tx.fee] with
    | error e => simp [h1] at h
    | ok w1 =>
      simp only [h1] at h
      split at h
      · cases h
      · unfold bankSendUnrestricted at h
        cases h2 : debit w1 (.m first) [tx.fee] with
        | error e => simp [h2, bind, Except.bind] at h
        | ok w2 =>
          simp only [h2, bind, Except.bind] at h
          by_cases hf : first = m
          · subst hf
            have i1 := inv_hook_debit_self (d := d) hh hauth h1 h2
            exact i1.trans (inv_credit i1.has h)
          · have hne : Acct.m first ≠ Acct.m m := fun e => hf (by cases e; rfl)
            have i1 := inv_hook_other (d := d) hh hne h1
            have i2 := inv_debit_other (d := d) i1.has hne h2
            exact (i1.trans i2).trans (inv_credit i2.has h)

theorem resolve_has {w : World} {signers : List Nat}
    (h : signers.findSome? (resolveSigner auth w) = none) (hm : m ∈ signers) (hauth : auth.lookup m = some k) :
    ∃ s, lookupSess w.sess (m, k) = some s := by
  have := (List.findSome?_eq_none_iff.mp h) m hm
  unfold resolveSigner at this
  split at this
  · cases this
  · simp only [hauth] at this
    cases hl : lookupSess w.sess (m, k) with
    | none => simp [hl] at this
    | some s => exact ⟨s, rfl⟩

/-- the restriction filter of the ante: a message signed by a session master is never an auth message -/
theorem restriction_denies_auth {w : World} {msg : Msg} (hh : Has m k w) (hauth : auth.lookup m = some k)
    (h : restrictionOK auth w msg = true) (hs : msg.signer = m) : alwaysDenied msg = false := by
  obtain ⟨s, hl, _⟩ := hh
  unfold restrictionOK at h
  rw [hs, hauth] at h
  simp only [hl] at h
  unfold msgAllowed at h
  cases hd : alwaysDenied msg with
  | false => rfl
  | true => simp [hd] at h

/-- a successful ante of a tx that `m` signs through session `k` -/
theorem ante_inv {w wa : World} {tx : Tx} (hauth : tx.auth.lookup m = some k) (hm : m ∈ signersOf tx.msgs)
    (hwf : ∀ s, lookupSess w.sess (m, k) = some s → WFS s) (h : ante w tx = .ok wa) :
    TxInv m k d w wa ∧ (∀ msg ∈ tx.msgs, msg.signer = m → alwaysDenied msg = false) ∧
      tx.msgs.all (restrictionOK tx.auth wa) = true := by
  unfold ante at h
  simp only at h
  split at h
  · cases h
  · split at h
    · cases h
    · rename_i hres
      obtain ⟨s, hl⟩ := resolve_has (k := k) hres hm hauth
      have hh : Has m k w := ⟨s, hl, hwf s hl⟩
      split at h
      · cases h
      · split at h
        · cases h
        · rename_i w1 hpay
          have i1 : TxInv m k d w w1 := payFee_inv hauth rfl hh hpay
          have i2 : TxInv m k d w1 ((signersOf tx.msgs).foldl (bumpSeq tx.auth) w1) := bumpSeq_fold_inv i1.has _
          split at h
          · rename_i hall
            cases h
            refine ⟨i1.trans i2, fun msg hmsg hs => ?_, hall⟩
            exact restriction_denies_auth i2.has hauth ((List.all_eq_true.mp hall) msg hmsg) hs
          · cases h

end GnoVerif.C16
