import GnoVerif.Proofs.C05Bits
/-!
C05: the fuel (128) that `gvx tint2` gives to every translated loop suffices.

For every `for` loop of the softfloat sources, under the precondition that holds
at its call site, the result does not depend on the fuel once it is ≥ 128:
`loop n st = loop 128 st` for all `n ≥ 128` — i.e. the loop has exited (its
condition is false) before the fuel runs out, exactly like the Go loop.
-/
set_option linter.unusedSimpArgs false
namespace GnoVerif.C05.L
open GnoVerif.Gen.C05

theorem stable_from {α : Type} (L : Nat → α) (k : Nat) (h : ∀ n, k ≤ n → L (n + 1) = L n) :
    ∀ n, k ≤ n → L n = L k := by
  intro n hn
  induction n with
  | zero => have : k = 0 := by omega
            subst this; rfl
  | succ m ih =>
    by_cases hk : k = m + 1
    · subst hk; rfl
    · rw [h m (by omega), ih (by omega)]

theorem two_pow_le_mul (x a b : Nat) (hx : x ≠ 0) (h : a ≤ b) : 2^a ≤ x * 2^b := by
  have h1 : 2^a ≤ 2^b := Nat.pow_le_pow_right (by decide) h
  have h2 : 1 * 2^b ≤ x * 2^b := Nat.mul_le_mul_right _ (by omega)
  omega

/-! ### left-normalising loops: `for mant < 1<<mantbits { mant <<= 1; exp-- }` -/

theorem funpack64_loop1_succ (n : Nat) (e m : BitVec 64) :
    funpack64_loop1 (n + 1) e m =
      if BitVec.ult m 4503599627370496#64 then funpack64_loop1 n (e - 1#64) (m <<< 1) else (e, m) := by
  rw [funpack64_loop1]

theorem funpack64_loop1_step (fuel : Nat) : ∀ (e m : BitVec 64), 2^52 ≤ m.toNat * 2^fuel →
    funpack64_loop1 (fuel + 1) e m = funpack64_loop1 fuel e m := by
  induction fuel with
  | zero =>
    intro e m h
    have c : BitVec.ult m 4503599627370496#64 = false := by simp [BitVec.ult]; omega
    simp [funpack64_loop1_succ, funpack64_loop1, c]
  | succ n ih =>
    intro e m h
    rw [funpack64_loop1_succ (n + 1) e m, funpack64_loop1_succ n e m]
    by_cases hlt : m.toNat < 2^52
    · have c : BitVec.ult m 4503599627370496#64 = true := by simp [BitVec.ult, hlt]
      simp only [c, if_true]
      apply ih
      have : (m <<< 1).toNat = m.toNat * 2 := by
        rw [BitVec.toNat_shiftLeft, Nat.shiftLeft_eq]; simp; omega
      rw [this, Nat.mul_assoc, Nat.mul_comm 2, ← Nat.pow_succ]; exact h
    · have c : BitVec.ult m 4503599627370496#64 = false := by simp [BitVec.ult]; omega
      simp [c]

theorem funpack64_loop1_fuel (e m : BitVec 64) (hm : m ≠ 0#64) (n : Nat) (hn : 128 ≤ n) :
    funpack64_loop1 n e m = funpack64_loop1 128 e m := by
  have h0 : m.toNat ≠ 0 := fun h => hm (BitVec.eq_of_toNat_eq (by simpa using h))
  exact stable_from (fun k => funpack64_loop1 k e m) 128
    (fun k hk => funpack64_loop1_step k e m (two_pow_le_mul _ _ _ h0 (by omega))) n hn

theorem fpack64_loop1_succ (n : Nat) (e m : BitVec 64) :
    fpack64_loop1 (n + 1) e m =
      if BitVec.ult m 4503599627370496#64 then fpack64_loop1 n (e - 1#64) (m <<< 1) else (e, m) := by
  rw [fpack64_loop1]

theorem fpack64_loop1_step (fuel : Nat) : ∀ (e m : BitVec 64), 2^52 ≤ m.toNat * 2^fuel →
    fpack64_loop1 (fuel + 1) e m = fpack64_loop1 fuel e m := by
  induction fuel with
  | zero =>
    intro e m h
    have c : BitVec.ult m 4503599627370496#64 = false := by simp [BitVec.ult]; omega
    simp [fpack64_loop1_succ, fpack64_loop1, c]
  | succ n ih =>
    intro e m h
    rw [fpack64_loop1_succ (n + 1) e m, fpack64_loop1_succ n e m]
    by_cases hlt : m.toNat < 2^52
    · have c : BitVec.ult m 4503599627370496#64 = true := by simp [BitVec.ult, hlt]
      simp only [c, if_true]
      apply ih
      have : (m <<< 1).toNat = m.toNat * 2 := by
        rw [BitVec.toNat_shiftLeft, Nat.shiftLeft_eq]; simp; omega
      rw [this, Nat.mul_assoc, Nat.mul_comm 2, ← Nat.pow_succ]; exact h
    · have c : BitVec.ult m 4503599627370496#64 = false := by simp [BitVec.ult]; omega
      simp [c]

theorem fpack64_loop1_fuel (e m : BitVec 64) (hm : m ≠ 0#64) (n : Nat) (hn : 128 ≤ n) :
    fpack64_loop1 n e m = fpack64_loop1 128 e m := by
  have h0 : m.toNat ≠ 0 := fun h => hm (BitVec.eq_of_toNat_eq (by simpa using h))
  exact stable_from (fun k => fpack64_loop1 k e m) 128
    (fun k hk => fpack64_loop1_step k e m (two_pow_le_mul _ _ _ h0 (by omega))) n hn


theorem funpack32_loop1_succ (n : Nat) (e : BitVec 64) (m : BitVec 32) :
    funpack32_loop1 (n + 1) e m =
      if BitVec.ult m 8388608#32 then funpack32_loop1 n (e - 1#64) (m <<< 1) else (e, m) := by
  rw [funpack32_loop1]

theorem funpack32_loop1_step (fuel : Nat) : ∀ (e : BitVec 64) (m : BitVec 32), 2^23 ≤ m.toNat * 2^fuel →
    funpack32_loop1 (fuel + 1) e m = funpack32_loop1 fuel e m := by
  induction fuel with
  | zero =>
    intro e m h
    have c : BitVec.ult m 8388608#32 = false := by simp [BitVec.ult]; omega
    simp [funpack32_loop1_succ, funpack32_loop1, c]
  | succ n ih =>
    intro e m h
    rw [funpack32_loop1_succ (n + 1) e m, funpack32_loop1_succ n e m]
    by_cases hlt : m.toNat < 2^23
    · have c : BitVec.ult m 8388608#32 = true := by simp [BitVec.ult, hlt]
      simp only [c, if_true]
      apply ih
      have : (m <<< 1).toNat = m.toNat * 2 := by
        rw [BitVec.toNat_shiftLeft, Nat.shiftLeft_eq]; simp; omega
      rw [this, Nat.mul_assoc, Nat.mul_comm 2, ← Nat.pow_succ]; exact h
    · have c : BitVec.ult m 8388608#32 = false := by simp [BitVec.ult]; omega
      simp [c]

theorem funpack32_loop1_fuel (e : BitVec 64) (m : BitVec 32) (hm : m ≠ 0#32) (n : Nat) (hn : 128 ≤ n) :
    funpack32_loop1 n e m = funpack32_loop1 128 e m := by
  have h0 : m.toNat ≠ 0 := fun h => hm (BitVec.eq_of_toNat_eq (by simpa using h))
  exact stable_from (fun k => funpack32_loop1 k e m) 128
    (fun k hk => funpack32_loop1_step k e m (two_pow_le_mul _ _ _ h0 (by omega))) n hn

theorem fpack32_loop1_succ (n : Nat) (e : BitVec 64) (m : BitVec 32) :
    fpack32_loop1 (n + 1) e m =
      if BitVec.ult m 8388608#32 then fpack32_loop1 n (e - 1#64) (m <<< 1) else (e, m) := by
  rw [fpack32_loop1]

theorem fpack32_loop1_step (fuel : Nat) : ∀ (e : BitVec 64) (m : BitVec 32), 2^23 ≤ m.toNat * 2^fuel →
    fpack32_loop1 (fuel + 1) e m = fpack32_loop1 fuel e m := by
  induction fuel with
  | zero =>
    intro e m h
    have c : BitVec.ult m 8388608#32 = false := by simp [BitVec.ult]; omega
    simp [fpack32_loop1_succ, fpack32_loop1, c]
  | succ n ih =>
    intro e m h
    rw [fpack32_loop1_succ (n + 1) e m, fpack32_loop1_succ n e m]
    by_cases hlt : m.toNat < 2^23
    · have c : BitVec.ult m 8388608#32 = true := by simp [BitVec.ult, hlt]
      simp only [c, if_true]
      apply ih
      have : (m <<< 1).toNat = m.toNat * 2 := by
        rw [BitVec.toNat_shiftLeft, Nat.shiftLeft_eq]; simp; omega
      rw [this, Nat.mul_assoc, Nat.mul_comm 2, ← Nat.pow_succ]; exact h
    · have c : BitVec.ult m 8388608#32 = false := by simp [BitVec.ult]; omega
      simp [c]

theorem fpack32_loop1_fuel (e : BitVec 64) (m : BitVec 32) (hm : m ≠ 0#32) (n : Nat) (hn : 128 ≤ n) :
    fpack32_loop1 n e m = fpack32_loop1 128 e m := by
  have h0 : m.toNat ≠ 0 := fun h => hm (BitVec.eq_of_toNat_eq (by simpa using h))
  exact stable_from (fun k => fpack32_loop1 k e m) 128
    (fun k hk => fpack32_loop1_step k e m (two_pow_le_mul _ _ _ h0 (by omega))) n hn

theorem fpack64_loop2_succ (n : Nat) (e : BitVec 64) (m t : BitVec 64) :
    fpack64_loop2 (n + 1) e m t =
      if BitVec.ule 18014398509481984#64 m then fpack64_loop2 n (e + 1#64) (m >>> 1) (t ||| (m &&& 1#64)) else (e, m, t) := by
  rw [fpack64_loop2]

theorem fpack64_loop2_step (fuel : Nat) : ∀ (e : BitVec 64) (m t : BitVec 64), m.toNat < 2^54 * 2^fuel →
    fpack64_loop2 (fuel + 1) e m t = fpack64_loop2 fuel e m t := by
  induction fuel with
  | zero =>
    intro e m t h
    have c : BitVec.ule 18014398509481984#64 m = false := by simp [BitVec.ule]; omega
    simp [fpack64_loop2_succ, fpack64_loop2, c]
  | succ n ih =>
    intro e m t h
    rw [fpack64_loop2_succ (n + 1) e m t, fpack64_loop2_succ n e m t]
    by_cases hge : 2^54 ≤ m.toNat
    · have c : BitVec.ule 18014398509481984#64 m = true := by simp [BitVec.ule]; omega
      simp only [c, if_true]
      apply ih
      rw [BitVec.toNat_ushiftRight, Nat.shiftRight_eq_div_pow]
      rw [Nat.pow_succ] at h; omega
    · have c : BitVec.ule 18014398509481984#64 m = false := by simp [BitVec.ule]; omega
      simp [c]

theorem fpack64_loop2_fuel (e : BitVec 64) (m t : BitVec 64) (n : Nat) (hn : 128 ≤ n) :
    fpack64_loop2 n e m t = fpack64_loop2 128 e m t := by
  refine stable_from (fun k => fpack64_loop2 k e m t) 128 (fun k hk => fpack64_loop2_step k e m t ?_) n hn
  have h1 : (2:Nat)^10 ≤ 2^k := Nat.pow_le_pow_right (by decide) (by omega)
  have h2 : 2^54 * 2^10 ≤ 2^54 * 2^k := Nat.mul_le_mul_left _ h1
  have := m.isLt
  omega

theorem fpack32_loop2_succ (n : Nat) (e : BitVec 64) (m t : BitVec 32) :
    fpack32_loop2 (n + 1) e m t =
      if BitVec.ule 33554432#32 m then fpack32_loop2 n (e + 1#64) (m >>> 1) (t ||| (m &&& 1#32)) else (e, m, t) := by
  rw [fpack32_loop2]

theorem fpack32_loop2_step (fuel : Nat) : ∀ (e : BitVec 64) (m t : BitVec 32), m.toNat < 2^25 * 2^fuel →
    fpack32_loop2 (fuel + 1) e m t = fpack32_loop2 fuel e m t := by
  induction fuel with
  | zero =>
    intro e m t h
    have c : BitVec.ule 33554432#32 m = false := by simp [BitVec.ule]; omega
    simp [fpack32_loop2_succ, fpack32_loop2, c]
  | succ n ih =>
    intro e m t h
    rw [fpack32_loop2_succ (n + 1) e m t, fpack32_loop2_succ n e m t]
    by_cases hge : 2^25 ≤ m.toNat
    · have c : BitVec.ule 33554432#32 m = true := by simp [BitVec.ule]; omega
      simp only [c, if_true]
      apply ih
      rw [BitVec.toNat_ushiftRight, Nat.shiftRight_eq_div_pow]
      rw [Nat.pow_succ] at h; omega
    · have c : BitVec.ule 33554432#32 m = false := by simp [BitVec.ule]; omega
      simp [c]

theorem fpack32_loop2_fuel (e : BitVec 64) (m t : BitVec 32) (n : Nat) (hn : 128 ≤ n) :
    fpack32_loop2 n e m t = fpack32_loop2 128 e m t := by
  refine stable_from (fun k => fpack32_loop2 k e m t) 128 (fun k hk => fpack32_loop2_step k e m t ?_) n hn
  have h1 : (2:Nat)^7 ≤ 2^k := Nat.pow_le_pow_right (by decide) (by omega)
  have h2 : 2^25 * 2^7 ≤ 2^25 * 2^k := Nat.mul_le_mul_left _ h1
  have := m.isLt
  omega

theorem fintto32_loop1_succ (n : Nat) (e m : BitVec 64) (t : BitVec 32) :
    fintto32_loop1 (n + 1) e m t =
      if BitVec.ule 4294967296#64 m then
        fintto32_loop1 n (e + 1#64) (m >>> 1) (t ||| ((BitVec.setWidth 32 m) &&& 1#32)) else (e, m, t) := by
  rw [fintto32_loop1]

theorem fintto32_loop1_step (fuel : Nat) : ∀ (e m : BitVec 64) (t : BitVec 32), m.toNat < 2^32 * 2^fuel →
    fintto32_loop1 (fuel + 1) e m t = fintto32_loop1 fuel e m t := by
  induction fuel with
  | zero =>
    intro e m t h
    have c : BitVec.ule 4294967296#64 m = false := by simp [BitVec.ule]; omega
    simp [fintto32_loop1_succ, fintto32_loop1, c]
  | succ n ih =>
    intro e m t h
    rw [fintto32_loop1_succ (n + 1) e m t, fintto32_loop1_succ n e m t]
    by_cases hge : 2^32 ≤ m.toNat
    · have c : BitVec.ule 4294967296#64 m = true := by simp [BitVec.ule]; omega
      simp only [c, if_true]
      apply ih
      rw [BitVec.toNat_ushiftRight, Nat.shiftRight_eq_div_pow]
      rw [Nat.pow_succ] at h; omega
    · have c : BitVec.ule 4294967296#64 m = false := by simp [BitVec.ule]; omega
      simp [c]

theorem fintto32_loop1_fuel (e m : BitVec 64) (t : BitVec 32) (n : Nat) (hn : 128 ≤ n) :
    fintto32_loop1 n e m t = fintto32_loop1 128 e m t := by
  refine stable_from (fun k => fintto32_loop1 k e m t) 128 (fun k hk => fintto32_loop1_step k e m t ?_) n hn
  have h1 : (2:Nat)^32 ≤ 2^k := Nat.pow_le_pow_right (by decide) (by omega)
  have h2 : 2^32 * 2^32 ≤ 2^32 * 2^k := Nat.mul_le_mul_left _ h1
  have := m.isLt
  omega


/-! ### exponent-counting loops -/

theorem toInt_add_one (e : BitVec 64) (h : e.toInt < 2^62) : (e + 1#64).toInt = e.toInt + 1 := by
  rw [BitVec.toInt_add]; simp only [Int.bmod_def]
  have : (1#64).toInt = 1 := by decide
  rw [this]
  have := BitVec.le_toInt (x := e)
  omega

theorem toInt_sub_one (e : BitVec 64) (h : -(2^62) < e.toInt) : (e - 1#64).toInt = e.toInt - 1 := by
  rw [BitVec.toInt_sub]; simp only [Int.bmod_def]
  have : (1#64).toInt = 1 := by decide
  rw [this]
  have := BitVec.toInt_lt (x := e)
  omega

theorem fpack64_loop3_succ (n : Nat) (e : BitVec 64) (m t : BitVec 64) :
    fpack64_loop3 (n + 1) e m t =
      if BitVec.slt e (BitVec.ofInt 64 (-1023)) then fpack64_loop3 n (e + 1#64) (m >>> 1) (t ||| (m &&& 1#64)) else (e, m, t) := by
  rw [fpack64_loop3]

theorem fpack64_loop3_step (fuel : Nat) : ∀ (e : BitVec 64) (m t : BitVec 64), -1023 - (fuel : Int) ≤ e.toInt →
    fpack64_loop3 (fuel + 1) e m t = fpack64_loop3 fuel e m t := by
  have hC : (BitVec.ofInt 64 (-1023)).toInt = -1023 := by decide
  induction fuel with
  | zero =>
    intro e m t h
    have c : BitVec.slt e (BitVec.ofInt 64 (-1023)) = false := by simp only [BitVec.slt, hC]; simp; omega
    rw [fpack64_loop3_succ, c]; simp [fpack64_loop3]
  | succ n ih =>
    intro e m t h
    rw [fpack64_loop3_succ (n + 1) e m t, fpack64_loop3_succ n e m t]
    by_cases hlt : e.toInt < -1023
    · have c : BitVec.slt e (BitVec.ofInt 64 (-1023)) = true := by simp only [BitVec.slt, hC]; simp; omega
      simp only [c, if_true]
      apply ih
      rw [toInt_add_one e (by omega)]; omega
    · have c : BitVec.slt e (BitVec.ofInt 64 (-1023)) = false := by simp only [BitVec.slt, hC]; simp; omega
      simp only [c, Bool.false_eq_true, if_false]

/-- precondition: the loop is entered with `exp ≥ -1023 - 128` (holds in `fpack`, see `fpack64_loop3_call`) -/
theorem fpack64_loop3_fuel (e : BitVec 64) (m t : BitVec 64) (he : -1023 - 128 ≤ e.toInt) (n : Nat) (hn : 128 ≤ n) :
    fpack64_loop3 n e m t = fpack64_loop3 128 e m t :=
  stable_from (fun k => fpack64_loop3 k e m t) 128 (fun k hk => fpack64_loop3_step k e m t (by omega)) n hn

theorem fpack32_loop3_succ (n : Nat) (e : BitVec 64) (m t : BitVec 32) :
    fpack32_loop3 (n + 1) e m t =
      if BitVec.slt e (BitVec.ofInt 64 (-127)) then fpack32_loop3 n (e + 1#64) (m >>> 1) (t ||| (m &&& 1#32)) else (e, m, t) := by
  rw [fpack32_loop3]

theorem fpack32_loop3_step (fuel : Nat) : ∀ (e : BitVec 64) (m t : BitVec 32), -127 - (fuel : Int) ≤ e.toInt →
    fpack32_loop3 (fuel + 1) e m t = fpack32_loop3 fuel e m t := by
  have hC : (BitVec.ofInt 64 (-127)).toInt = -127 := by decide
  induction fuel with
  | zero =>
    intro e m t h
    have c : BitVec.slt e (BitVec.ofInt 64 (-127)) = false := by simp only [BitVec.slt, hC]; simp; omega
    rw [fpack32_loop3_succ, c]; simp [fpack32_loop3]
  | succ n ih =>
    intro e m t h
    rw [fpack32_loop3_succ (n + 1) e m t, fpack32_loop3_succ n e m t]
    by_cases hlt : e.toInt < -127
    · have c : BitVec.slt e (BitVec.ofInt 64 (-127)) = true := by simp only [BitVec.slt, hC]; simp; omega
      simp only [c, if_true]
      apply ih
      rw [toInt_add_one e (by omega)]; omega
    · have c : BitVec.slt e (BitVec.ofInt 64 (-127)) = false := by simp only [BitVec.slt, hC]; simp; omega
      simp only [c, Bool.false_eq_true, if_false]

/-- precondition: the loop is entered with `exp ≥ -127 - 128` (holds in `fpack`, see `fpack32_loop3_call`) -/
theorem fpack32_loop3_fuel (e : BitVec 64) (m t : BitVec 32) (he : -127 - 128 ≤ e.toInt) (n : Nat) (hn : 128 ≤ n) :
    fpack32_loop3 n e m t = fpack32_loop3 128 e m t :=
  stable_from (fun k => fpack32_loop3 k e m t) 128 (fun k hk => fpack32_loop3_step k e m t (by omega)) n hn

theorem f64toint_loop1_succ (n : Nat) (fe fm : BitVec 64) :
    f64toint_loop1 (n + 1) fe fm =
      if BitVec.slt 52#64 fe then f64toint_loop1 n (fe - 1#64) (fm <<< 1) else (fe, fm) := by
  rw [f64toint_loop1]

theorem f64toint_loop1_step (fuel : Nat) : ∀ (fe fm : BitVec 64), fe.toInt ≤ 52 + (fuel : Int) →
    f64toint_loop1 (fuel + 1) fe fm = f64toint_loop1 fuel fe fm := by
  have hC : (52#64).toInt = 52 := by decide
  induction fuel with
  | zero =>
    intro fe fm h
    have c : BitVec.slt 52#64 fe = false := by simp only [BitVec.slt, hC]; simp; omega
    simp [f64toint_loop1_succ, f64toint_loop1, c]
  | succ n ih =>
    intro fe fm h
    rw [f64toint_loop1_succ (n + 1) fe fm, f64toint_loop1_succ n fe fm]
    by_cases hlt : 52 < fe.toInt
    · have c : BitVec.slt 52#64 fe = true := by simp only [BitVec.slt, hC]; simp; omega
      simp only [c, if_true]
      apply ih
      rw [toInt_sub_one fe (by omega)]; omega
    · have c : BitVec.slt 52#64 fe = false := by simp only [BitVec.slt, hC]; simp; omega
      simp [c]

/-- `f64toint` enters this loop with `fe ≤ 63` -/
theorem f64toint_loop1_fuel (fe fm : BitVec 64) (he : fe.toInt ≤ 63) (n : Nat) (hn : 128 ≤ n) :
    f64toint_loop1 n fe fm = f64toint_loop1 128 fe fm :=
  stable_from (fun k => f64toint_loop1 k fe fm) 128 (fun k hk => f64toint_loop1_step k fe fm (by omega)) n hn

theorem f64toint_loop2_succ (n : Nat) (fe fm : BitVec 64) :
    f64toint_loop2 (n + 1) fe fm =
      if BitVec.slt fe 52#64 then f64toint_loop2 n (fe + 1#64) (fm >>> 1) else (fe, fm) := by
  rw [f64toint_loop2]

theorem f64toint_loop2_step (fuel : Nat) : ∀ (fe fm : BitVec 64), 52 - (fuel : Int) ≤ fe.toInt →
    f64toint_loop2 (fuel + 1) fe fm = f64toint_loop2 fuel fe fm := by
  have hC : (52#64).toInt = 52 := by decide
  induction fuel with
  | zero =>
    intro fe fm h
    have c : BitVec.slt fe 52#64 = false := by simp only [BitVec.slt, hC]; simp; omega
    simp [f64toint_loop2_succ, f64toint_loop2, c]
  | succ n ih =>
    intro fe fm h
    rw [f64toint_loop2_succ (n + 1) fe fm, f64toint_loop2_succ n fe fm]
    by_cases hlt : fe.toInt < 52
    · have c : BitVec.slt fe 52#64 = true := by simp only [BitVec.slt, hC]; simp; omega
      simp only [c, if_true]
      apply ih
      rw [toInt_add_one fe (by omega)]; omega
    · have c : BitVec.slt fe 52#64 = false := by simp only [BitVec.slt, hC]; simp; omega
      simp [c]

/-- `f64toint` enters this loop with `fe ≥ -1` -/
theorem f64toint_loop2_fuel (fe fm : BitVec 64) (he : -1 ≤ fe.toInt) (n : Nat) (hn : 128 ≤ n) :
    f64toint_loop2 n fe fm = f64toint_loop2 128 fe fm :=
  stable_from (fun k => f64toint_loop2 k fe fm) 128 (fun k hk => f64toint_loop2_step k fe fm (by omega)) n hn

/-! ### `divlu`: count leading zeros -/

theorem divlu_loop1_succ (n : Nat) (s v : BitVec 64) :
    divlu_loop1 (n + 1) s v =
      if ((v &&& 9223372036854775808#64) == 0#64) then divlu_loop1 n (s + 1#64) (v <<< 1) else (s, v) := by
  rw [divlu_loop1]

theorem sign_test (v : BitVec 64) : ((v &&& 9223372036854775808#64) == 0#64) = decide (v.toNat < 2^63) := by
  by_cases h : v.toNat < 2^63
  · simp only [h, decide_true, beq_iff_eq]
    apply BitVec.eq_of_toNat_eq; rw [toNat_and_sign64]; simp; omega
  · simp only [h, decide_false]
    rw [Bool.eq_false_iff]; intro hh
    have := congrArg BitVec.toNat (eq_of_beq hh)
    rw [toNat_and_sign64] at this; simp at this
    have := v.isLt; omega

theorem divlu_loop1_step (fuel : Nat) : ∀ (s v : BitVec 64), 2^63 ≤ v.toNat * 2^fuel →
    divlu_loop1 (fuel + 1) s v = divlu_loop1 fuel s v := by
  induction fuel with
  | zero =>
    intro s v h
    have c : ¬ v.toNat < 2^63 := by omega
    simp [divlu_loop1_succ, divlu_loop1, sign_test, c]
  | succ n ih =>
    intro s v h
    rw [divlu_loop1_succ (n + 1) s v, divlu_loop1_succ n s v, sign_test]
    by_cases hlt : v.toNat < 2^63
    · simp only [hlt, decide_true, if_true]
      apply ih
      have : (v <<< 1).toNat = v.toNat * 2 := by
        rw [BitVec.toNat_shiftLeft, Nat.shiftLeft_eq]; simp; omega
      rw [this, Nat.mul_assoc, Nat.mul_comm 2, ← Nat.pow_succ]; exact h
    · simp [hlt]

/-- `divlu` enters this loop with `v > u1 ≥ 0`, i.e. `v ≠ 0` -/
theorem divlu_loop1_fuel (s v : BitVec 64) (hv : v ≠ 0#64) (n : Nat) (hn : 128 ≤ n) :
    divlu_loop1 n s v = divlu_loop1 128 s v := by
  have h0 : v.toNat ≠ 0 := fun h => hv (BitVec.eq_of_toNat_eq (by simpa using h))
  exact stable_from (fun k => divlu_loop1 k s v) 128
    (fun k hk => divlu_loop1_step k s v (two_pow_le_mul _ _ _ h0 (by omega))) n hn


/-! ### `divlu`: the two backward-goto correction loops (Knuth D3)

`rhat` grows by `vn1 ≥ 2^31` per round and the loop only repeats while
`rhat < 2^32`: at most three rounds whatever the start value. -/

theorem divlu_again1_succ (n : Nat) (q rhat un1 vn0 vn1 : BitVec 64) :
    divlu_again1 (n + 1) q rhat un1 vn0 vn1 =
      if ((BitVec.ule 4294967296#64 q) || (BitVec.ult ((4294967296#64 * rhat) + un1) (q * vn0))) then
        if BitVec.ult (rhat + vn1) 4294967296#64 then divlu_again1 n (q - 1#64) (rhat + vn1) un1 vn0 vn1
        else (q - 1#64, rhat + vn1)
      else (q, rhat) := by
  rw [divlu_again1]

theorem divlu_again1_k1 (q rhat un1 vn0 vn1 : BitVec 64) (h1 : 2^32 ≤ rhat.toNat + vn1.toNat)
    (h2 : rhat.toNat + vn1.toNat < 2^64) (n m : Nat) :
    divlu_again1 (n + 1) q rhat un1 vn0 vn1 = divlu_again1 (m + 1) q rhat un1 vn0 vn1 := by
  rw [divlu_again1_succ n, divlu_again1_succ m]
  have c : BitVec.ult (rhat + vn1) 4294967296#64 = false := by
    simp [BitVec.ult, BitVec.toNat_add]; omega
  simp only [c, Bool.false_eq_true, if_false]

theorem divlu_again1_k2 (q rhat un1 vn0 vn1 : BitVec 64) (hv1 : 2^31 ≤ vn1.toNat) (hv2 : vn1.toNat < 2^32)
    (hr : rhat.toNat < 2^32) (n m : Nat) :
    divlu_again1 (n + 2) q rhat un1 vn0 vn1 = divlu_again1 (m + 2) q rhat un1 vn0 vn1 := by
  rw [divlu_again1_succ (n + 1), divlu_again1_succ (m + 1)]
  have hs : (rhat + vn1).toNat = rhat.toNat + vn1.toNat := by
    rw [BitVec.toNat_add]; omega
  split
  · split
    · next hlt =>
      have : (rhat + vn1).toNat < 2^32 := by simpa [BitVec.ult] using hlt
      exact divlu_again1_k1 _ _ _ _ _ (by omega) (by omega) n m
    · rfl
  · rfl

theorem divlu_again1_k3 (q rhat un1 vn0 vn1 : BitVec 64) (hv1 : 2^31 ≤ vn1.toNat) (hv2 : vn1.toNat < 2^32)
    (n m : Nat) :
    divlu_again1 (n + 3) q rhat un1 vn0 vn1 = divlu_again1 (m + 3) q rhat un1 vn0 vn1 := by
  rw [divlu_again1_succ (n + 2), divlu_again1_succ (m + 2)]
  split
  · split
    · next hlt =>
      have : (rhat + vn1).toNat < 2^32 := by simpa [BitVec.ult] using hlt
      exact divlu_again1_k2 _ _ _ _ _ hv1 hv2 this n m
    · rfl
  · rfl

/-- `divlu` calls this loop with `vn1 = v >> 32` of the normalised divisor: `2^31 ≤ vn1 < 2^32` -/
theorem divlu_again1_fuel (q rhat un1 vn0 vn1 : BitVec 64) (hv1 : 2^31 ≤ vn1.toNat) (hv2 : vn1.toNat < 2^32)
    (n : Nat) (hn : 128 ≤ n) :
    divlu_again1 n q rhat un1 vn0 vn1 = divlu_again1 128 q rhat un1 vn0 vn1 := by
  obtain ⟨k, rfl⟩ : ∃ k, n = k + 3 := ⟨n - 3, by omega⟩
  exact divlu_again1_k3 q rhat un1 vn0 vn1 hv1 hv2 k 125

theorem divlu_again2_succ (n : Nat) (q rhat un0 vn0 vn1 : BitVec 64) :
    divlu_again2 (n + 1) q rhat un0 vn0 vn1 =
      if ((BitVec.ule 4294967296#64 q) || (BitVec.ult ((4294967296#64 * rhat) + un0) (q * vn0))) then
        if BitVec.ult (rhat + vn1) 4294967296#64 then divlu_again2 n (q - 1#64) (rhat + vn1) un0 vn0 vn1
        else (q - 1#64, rhat + vn1)
      else (q, rhat) := by
  rw [divlu_again2]

theorem divlu_again2_k1 (q rhat un0 vn0 vn1 : BitVec 64) (h1 : 2^32 ≤ rhat.toNat + vn1.toNat)
    (h2 : rhat.toNat + vn1.toNat < 2^64) (n m : Nat) :
    divlu_again2 (n + 1) q rhat un0 vn0 vn1 = divlu_again2 (m + 1) q rhat un0 vn0 vn1 := by
  rw [divlu_again2_succ n, divlu_again2_succ m]
  have c : BitVec.ult (rhat + vn1) 4294967296#64 = false := by
    simp [BitVec.ult, BitVec.toNat_add]; omega
  simp only [c, Bool.false_eq_true, if_false]

theorem divlu_again2_k2 (q rhat un0 vn0 vn1 : BitVec 64) (hv1 : 2^31 ≤ vn1.toNat) (hv2 : vn1.toNat < 2^32)
    (hr : rhat.toNat < 2^32) (n m : Nat) :
    divlu_again2 (n + 2) q rhat un0 vn0 vn1 = divlu_again2 (m + 2) q rhat un0 vn0 vn1 := by
  rw [divlu_again2_succ (n + 1), divlu_again2_succ (m + 1)]
  have hs : (rhat + vn1).toNat = rhat.toNat + vn1.toNat := by
    rw [BitVec.toNat_add]; omega
  split
  · split
    · next hlt =>
      have : (rhat + vn1).toNat < 2^32 := by simpa [BitVec.ult] using hlt
      exact divlu_again2_k1 _ _ _ _ _ (by omega) (by omega) n m
    · rfl
  · rfl

theorem divlu_again2_k3 (q rhat un0 vn0 vn1 : BitVec 64) (hv1 : 2^31 ≤ vn1.toNat) (hv2 : vn1.toNat < 2^32)
    (n m : Nat) :
    divlu_again2 (n + 3) q rhat un0 vn0 vn1 = divlu_again2 (m + 3) q rhat un0 vn0 vn1 := by
  rw [divlu_again2_succ (n + 2), divlu_again2_succ (m + 2)]
  split
  · split
    · next hlt =>
      have : (rhat + vn1).toNat < 2^32 := by simpa [BitVec.ult] using hlt
      exact divlu_again2_k2 _ _ _ _ _ hv1 hv2 this n m
    · rfl
  · rfl

/-- `divlu` calls this loop with `vn1 = v >> 32` of the normalised divisor: `2^31 ≤ vn1 < 2^32` -/
theorem divlu_again2_fuel (q rhat un0 vn0 vn1 : BitVec 64) (hv1 : 2^31 ≤ vn1.toNat) (hv2 : vn1.toNat < 2^32)
    (n : Nat) (hn : 128 ≤ n) :
    divlu_again2 n q rhat un0 vn0 vn1 = divlu_again2 128 q rhat un0 vn0 vn1 := by
  obtain ⟨k, rfl⟩ : ∃ k, n = k + 3 := ⟨n - 3, by omega⟩
  exact divlu_again2_k3 q rhat un0 vn0 vn1 hv1 hv2 k 125

end GnoVerif.C05.L
