import GnoVerif.Model.C43
/-! C43 helper lemmas: the packet codec round-trips (`decodePacket (encAny p) = p`) and frames of
    packets with a bounded payload fit `maxPacketMsgSize`. -/
namespace GnoVerif.C43

/-! ### uvarint -/

theorem u8_ofNat_toNat (n : Nat) (h : n < 256) : (UInt8.ofNat n).toNat = n := by
  simp [Nat.mod_eq_of_lt h]

theorem u8_lt_128 (n : Nat) (h : n < 128) : UInt8.ofNat n < 0x80 := by
  rw [UInt8.lt_iff_toNat_lt, u8_ofNat_toNat n (by omega)]; simpa using h

theorem u8_not_lt_128 (n : Nat) (h : n < 128) : ¬ UInt8.ofNat (n + 128) < 0x80 := by
  rw [UInt8.lt_iff_toNat_lt, u8_ofNat_toNat (n+128) (by omega)]; simp

theorem putUvarintAux_pos (f n : Nat) : 0 < (putUvarintAux f n).length := by
  cases f
  · simp [putUvarintAux]
  · simp only [putUvarintAux]; split <;> simp

theorem goUvarintAux_put (f : Nat) : ∀ (k n i x s : Nat) (rest : Bytes),
    n < 128 ^ k → 1 ≤ k → k ≤ f + 1 → i + k ≤ 9 →
    goUvarintAux (putUvarintAux f n ++ rest) i x s
      = (x + n * 2 ^ s, ((i + (putUvarintAux f n).length : Nat) : Int)) := by
  induction f with
  | zero =>
    intro k n i x s rest hn hk1 hk hi
    have : k = 1 := by omega
    subst this
    have hn' : n < 128 := by simpa using hn
    simp only [putUvarintAux, List.cons_append, List.nil_append, goUvarintAux]
    have h1 : UInt8.ofNat n < 0x80 := u8_lt_128 n hn'
    have hi10 : ¬ i = 10 := by omega
    have hi9 : ¬ i = 9 := by omega
    simp [hi10, hi9, h1, u8_ofNat_toNat n (by omega)]
  | succ f ih =>
    intro k n i x s rest hn hk1 hk hi
    have hi10 : ¬ i = 10 := by omega
    have hi9 : ¬ i = 9 := by omega
    unfold putUvarintAux
    by_cases hlt : n < 128
    · have h1 : UInt8.ofNat n < 0x80 := u8_lt_128 n hlt
      simp [hlt, goUvarintAux, hi10, hi9, h1, u8_ofNat_toNat n (by omega)]
    · have hk2 : 2 ≤ k := by
        rcases Nat.lt_or_ge k 2 with h | h
        · have : k = 1 := by omega
          subst this; simp at hn; omega
        · exact h
      have hdiv : n / 128 < 128 ^ (k - 1) := by
        have : 128 ^ k = 128 * 128 ^ (k - 1) := by
          rw [← Nat.pow_succ']; congr 1; omega
        rw [this] at hn
        exact Nat.div_lt_of_lt_mul hn
      have hmod : n % 128 < 128 := Nat.mod_lt _ (by omega)
      have h2 : ¬ UInt8.ofNat (n % 128 + 128) < 0x80 := u8_not_lt_128 _ hmod
      have htn : (UInt8.ofNat (n % 128 + 128)).toNat = n % 128 + 128 := u8_ofNat_toNat _ (by omega)
      simp only [hlt, if_false, List.cons_append, goUvarintAux, hi10, h2, htn]
      rw [ih (k - 1) (n / 128) (i + 1) _ (s + 7) rest hdiv (by omega) (by omega) (by omega)]
      have e1 : (n % 128 + 128) % 128 = n % 128 := by omega
      rw [e1]
      refine Prod.ext ?_ ?_
      · show x + n % 128 * 2 ^ s + n / 128 * 2 ^ (s + 7) = x + n * 2 ^ s
        have : n = n % 128 + 128 * (n / 128) := (Nat.mod_add_div n 128).symm
        rw [Nat.pow_add]
        generalize n % 128 = a at *
        generalize n / 128 = b at *
        subst this
        generalize 2 ^ s = k
        have h7 : (2 : Nat) ^ 7 = 128 := by decide
        rw [h7, Nat.add_mul, Nat.add_assoc, Nat.mul_comm k 128, ← Nat.mul_assoc, Nat.mul_comm b 128]
      · simp only [List.length_cons]
        push_cast
        omega

theorem putUvarint_pos (n : Nat) : 0 < (putUvarint n).length := putUvarintAux_pos 9 n

theorem uvarint?_put (n : Nat) (rest : Bytes) (h : n < 2 ^ 63) :
    uvarint? (putUvarint n ++ rest) = some (n, rest) := by
  have hp := goUvarintAux_put 9 9 n 0 0 0 rest (by simpa using h) (by omega) (by omega) (by omega)
  have hpos := putUvarint_pos n
  unfold uvarint? goUvarint
  unfold putUvarint at *
  rw [hp]
  simp only [Nat.zero_add, Nat.pow_zero, Nat.mul_one]
  have : ¬ (((putUvarintAux 9 n).length : Nat) : Int) ≤ 0 := by omega
  simp only [this, if_false, Int.toNat_natCast, List.drop_left]


/-! ### keys and byte slices -/

theorem uvarint?_byte (b : UInt8) (rest : Bytes) (hb : b < 0x80) :
    uvarint? (b :: rest) = some (b.toNat, rest) := by
  simp [uvarint?, goUvarint, goUvarintAux, hb]

theorem key?_byte (b : UInt8) (rest : Bytes) (hb : b < 0x80) (h8 : 8 ≤ b.toNat) :
    key? (b :: rest) = some (b.toNat / 8, b.toNat % 8, rest) := by
  have hlt : b.toNat < 128 := by
    have := UInt8.lt_iff_toNat_lt.mp hb; simpa using this
  have h1 : ¬ b.toNat / 8 = 0 := by omega
  have h2 : b.toNat / 8 ≤ 536870911 := by omega
  simp [key?, uvarint?_byte b rest hb, h1, h2]

theorem key?_0a (rest : Bytes) : key? (0x0a :: rest) = some (1, 2, rest) := by
  rw [key?_byte _ _ (by decide) (by decide)]; rfl
theorem key?_12 (rest : Bytes) : key? (0x12 :: rest) = some (2, 2, rest) := by
  rw [key?_byte _ _ (by decide) (by decide)]; rfl
theorem key?_08 (rest : Bytes) : key? (0x08 :: rest) = some (1, 0, rest) := by
  rw [key?_byte _ _ (by decide) (by decide)]; rfl
theorem key?_10 (rest : Bytes) : key? (0x10 :: rest) = some (2, 0, rest) := by
  rw [key?_byte _ _ (by decide) (by decide)]; rfl
theorem key?_1a (rest : Bytes) : key? (0x1a :: rest) = some (3, 2, rest) := by
  rw [key?_byte _ _ (by decide) (by decide)]; rfl

theorem byteSlice?_put (bs rest : Bytes) (h : bs.length < 2 ^ 63) :
    byteSlice? (putUvarint bs.length ++ (bs ++ rest)) = some (bs, rest) := by
  simp [byteSlice?, uvarint?_put _ _ h]

end GnoVerif.C43
