import GnoVerif.Model.C28
import GnoVerif.Proofs.C28Inv
/-!
C28 helper lemmas: versions are immutable once committed.  `CInv c`: the empty DB and the current
DB are in `hist`, and every version still present in some DB of `hist` is exactly what was written
when that height was committed.
-/
namespace GnoVerif.C28

theorem versGet_filter_pred (P : Nat → Bool) : ∀ (vs : List (Nat × KV)) (v : Nat) (kv : KV),
    versGet (vs.filter (fun p => P p.1)) v = some kv → P v = true := by
  intro vs
  induction vs with
  | nil => intro v kv h; simp [versGet] at h
  | cons a r ih =>
    intro v kv h
    rcases a with ⟨v', m⟩
    by_cases hp : P v' = true
    · simp only [List.filter, hp] at h
      simp only [versGet] at h
      by_cases hv : v' = v
      · subst hv; exact hp
      · simp [hv] at h; exact ih v kv h
    · have hp' : P v' = false := by simpa using hp
      simp only [List.filter, hp'] at h
      exact ih v kv h

theorem versGet_filter (P : Nat → Bool) : ∀ (vs : List (Nat × KV)) (v : Nat) (kv : KV),
    versGet (vs.filter (fun p => P p.1)) v = some kv → versGet vs v = some kv := by
  intro vs
  induction vs with
  | nil => intro v kv h; simp [versGet] at h
  | cons a r ih =>
    intro v kv h
    rcases a with ⟨v', m⟩
    by_cases hp : P v' = true
    · simp only [List.filter, hp] at h
      simp only [versGet] at h ⊢
      by_cases hv : v' = v
      · simpa [hv] using h
      · simp [hv] at h ⊢; exact ih v kv h
    · have hp' : P v' = false := by simpa using hp
      simp only [List.filter, hp'] at h
      have hv : v' ≠ v := by
        intro hv; subst hv
        have := versGet_filter_pred P r v' kv h
        rw [this] at hp'; cases hp'
      simp only [versGet, hv, if_false]
      exact ih v kv h

theorem versGet_prune {a : Bool} {k V : Nat} {vs : List (Nat × KV)} {v : Nat} {kv : KV}
    (h : versGet (prune a k V vs) v = some kv) : versGet vs v = some kv := by
  unfold prune at h
  split at h
  · exact h
  · split at h
    · exact versGet_filter (fun x => decide (V - 1 - k < x)) vs v kv h
    · exact h

/-- the version just saved survives its own pruning and is found first. -/
theorem versGet_prune_head (a : Bool) (k V : Nat) (t : KV) (vs : List (Nat × KV)) :
    versGet (prune a k V ((V, t) :: vs)) V = some t := by
  unfold prune
  split
  · simp [versGet]
  · split
    · rename_i hk
      have : decide (V - 1 - k < V) = true := by
        have : V - 1 - k < V := by omega
        simpa using this
      simp [List.filter, this, versGet]
    · simp [versGet]

def VersInv (hist : List DB) : Prop :=
  ∀ d ∈ hist, ∀ v kv, versGet d.vers v = some kv → ∃ d' ∈ hist, d'.latest = v ∧ versGet d'.vers v = some kv

structure CInv (c : Cons) : Prop where
  empty : DB.empty ∈ c.hist
  db : c.db ∈ c.hist
  vers : VersInv c.hist

theorem cinv_init (a : Bool) (k : Nat) (b : Bool) : CInv (Cons.init a k b) := by
  refine ⟨by simp [Cons.init], by simp [Cons.init], ?_⟩
  intro d hd v kv h
  simp [Cons.init] at hd
  subst hd
  simp [DB.empty, versGet] at h

theorem cinv_stepC {c c' : Cons} {e : CEv} (hi : CInv c) (h : stepC c e = some c') : CInv c' := by
  have hmono : ∀ d, d ∈ c.hist → d ∈ c'.hist := fun d hd => stepC_hist_mono h hd
  refine ⟨hmono _ hi.empty, stepC_db_mem h hi.db, ?_⟩
  cases e <;> simp only [stepC] at h
  case drain =>
    split at h
    · rename_i V t hph hst
      simp at h
      subst h
      simp only
      intro d hd v kv hv
      rcases List.mem_append.mp hd with h1 | h1
      · rcases hi.vers d h1 v kv hv with ⟨d', hd', h2, h3⟩
        exact ⟨d', List.mem_append_left _ hd', h2, h3⟩
      · simp at h1
        subst h1
        simp only at hv
        by_cases hV : V = v
        · subst hV
          rw [versGet_prune_head] at hv
          cases hv
          refine ⟨_, List.mem_append_right _ (List.mem_singleton.mpr rfl), rfl, ?_⟩
          simp only
          exact versGet_prune_head _ _ _ _ _
        · have := versGet_prune hv
          simp only [versGet, hV, if_false] at this
          rcases hi.vers c.db hi.db v kv this with ⟨d', hd', h2, h3⟩
          exact ⟨d', List.mem_append_left _ hd', h2, h3⟩
    · simp at h
  all_goals
    first
    | (split at h
       · simp at h; subst h; exact hi.vers
       · simp at h)

theorem cinv_runC : ∀ (es : List CEv) (c c' : Cons), CInv c → runC c es = some c' → CInv c' := by
  intro es
  induction es with
  | nil => intro c c' hi h; simp [runC] at h; subst h; exact hi
  | cons e r ih =>
    intro c c' hi h
    simp only [runC] at h
    cases hs : stepC c e with
    | none => simp [hs] at h
    | some c1 => simp [hs] at h; exact ih c1 c' (cinv_stepC hi hs) h

/-- what the versioned stores of an immutable multistore (content `d` ∈ hist, version `v`) return is
the state of ONE committed height (that of version `v`, or the empty state). -/
theorem versioned_view {c : Cons} (hi : CInv c) {d : DB} (hd : d ∈ c.hist) (v : Nat) :
    ∃ d' ∈ c.hist, ∀ k, isVersioned k = true → viewGet d v k = heightView d' k := by
  by_cases hv : v = 0
  · refine ⟨DB.empty, hi.empty, fun k hk => ?_⟩
    simp [viewGet, heightView, hk, hv, DB.empty]
  · cases hg : versGet d.vers v with
    | none =>
      refine ⟨DB.empty, hi.empty, fun k hk => ?_⟩
      simp [viewGet, heightView, hk, hv, hg, DB.empty]
    | some kv =>
      rcases hi.vers d hd v kv hg with ⟨d', hd', h2, h3⟩
      refine ⟨d', hd', fun k hk => ?_⟩
      simp [viewGet, heightView, hk, hv, hg, h2, h3]

theorem unversioned_view (d : DB) (v : Nat) (k : Key) (hk : isVersioned k = false) :
    viewGet d v k = heightView d k := by
  simp [viewGet, heightView, hk]

end GnoVerif.C28
