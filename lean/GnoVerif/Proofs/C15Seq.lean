import GnoVerif.Proofs.C15Main
/-! C15: the sequence effect of an accepted transaction's ante. -/
namespace GnoVerif.C15

variable {π σ β : Type} [DecidableEq π]

theorem resolvePubKey_cases (cr : Crypto π σ β) (isSess : Bool) (a : Addr) (stored given : Option π) (pk : π)
    (h : resolvePubKey cr isSess a stored given = .ok pk) :
    stored = some pk ∨ (stored = none ∧ given = some pk ∧ (isSess = false → cr.addrOf pk = a)) := by
  unfold resolvePubKey at h
  split at h
  · cases h
  · injection h with h
    subst h
    exact .inl rfl
  · split at h
    · cases h
    rename_i hc
    injection h with h
    subst h
    right
    refine ⟨rfl, rfl, fun hs => ?_⟩
    subst hs
    simpa using hc
  · split at h
    · injection h with h
      subst h
      exact .inl rfl
    · cases h

theorem ante_seq_effect (cr : Crypto π σ β) (cfg : Config) (s : State π) (tx : Tx π σ) (s' : State π)
    (hh : ¬ (s.height = 0 ∧ cfg.verifyGenesis = false)) (h : ante cr cfg s tx = .ok s') :
    SeqEffect cr cfg tx s s' := by
  obtain ⟨r0, rs, s1, r0', hp2, hR, hrest⟩ := ante_resolved cr cfg s tx s' (ante_ok_inv cr cfg s tx s' h)
  rcases hrest with ⟨h0, h1, _⟩ | ⟨_, hst⟩
  · exact absurd ⟨h0, h1⟩ hh
  have hrel := hp2.rel
  have haddrs : (r0' :: rs).map (·.addr) = signersOf tx.msgs := R3.addrs (fun _ _ _ h => h.1) hR
  have hnd : ((r0' :: rs).map (·.addr)).Nodup := by rw [haddrs]; exact signersOf_nodup _
  have heff := steps_effect cr cfg _ tx hst hnd
  -- a resolved signer with r.sess = none is a master signer, and conversely
  have master_of : ∀ r ∈ (r0' :: rs), r.sess = none → MasterSigner tx r.addr := by
    intro r hr hs
    obtain ⟨a, g, h1, _, hp⟩ := hR.of_right hr
    refine ⟨g, ?_, hp.sess_none.mp hs⟩
    rw [hp.1]
    exact h1
  have sess_of : ∀ r ∈ (r0' :: rs), ∀ k ss, r.sess = some (k, ss) → SessionSigner tx r.addr k := by
    intro r hr k ss hs
    obtain ⟨a, g, h1, _, hp⟩ := hR.of_right hr
    refine ⟨g, by rw [hp.1]; exact h1, ?_⟩
    obtain ⟨_, _, h3⟩ := hp
    cases hg : g.session with
    | none =>
      simp only [hg] at h3
      rw [h3] at hs
      cases hs
    | some sa =>
      simp only [hg] at h3
      obtain ⟨_, ss', e1, _⟩ := h3
      rw [e1] at hs
      injection hs with hs
      injection hs with hs _
      rw [hs]
  refine ⟨?_, ?_, ?_, ?_, heff.height.trans hrel.height, heff.time.trans hrel.time⟩
  · -- existing accounts
    intro x acc hx
    obtain ⟨acc1, hx1, hid1⟩ := hrel.keep x acc hx
    by_cases hm : MasterSigner tx x
    · obtain ⟨g, hmem, hg⟩ := hm
      obtain ⟨r, hrg, hp⟩ := hR.of_left hmem
      have hrs : r.sess = none := hp.sess_none.mpr hg
      obtain ⟨pk, hok, hacc'⟩ := heff.accStep r g hrg hrs
      obtain ⟨e1, ⟨acc0, e2, eid⟩, _⟩ := hp
      rw [hx] at e2
      injection e2 with e2
      subst e2
      rw [e1] at hacc'
      refine ⟨_, hacc', eid.1, .inl ⟨⟨g, hmem, hg⟩, by simp [eid.2.1]⟩, ?_⟩
      have hk := hok.key
      simp only [Resolved.stored, hrs, Option.isSome_none] at hk
      rcases resolvePubKey_cases cr false r.addr r.acc.pubKey g.pubKey pk hk with hk | ⟨hk, _, hk3⟩
      · left
        simp [← eid.2.2, hk]
      · right
        exact ⟨by rw [← eid.2.2]; exact hk, pk, rfl, by rw [← e1]; exact hk3 rfl⟩
    · have hkeep : s'.accounts x = s1.accounts x :=
        heff.accKeep x (fun r hr hs he => hm (he ▸ master_of r hr hs))
      refine ⟨acc1, by rw [hkeep]; exact hx1, hid1.1, .inr ⟨hm, hid1.2.1, hid1.2.2⟩, .inl hid1.2.2⟩
  · -- absent accounts: only the collector can appear
    intro x hx
    have hkeep : s'.accounts x = s1.accounts x := by
      apply heff.accKeep
      intro r hr _ he
      obtain ⟨a, g, _, _, hp⟩ := hR.of_right hr
      obtain ⟨e1, ⟨acc, e2, _⟩, _⟩ := hp
      rw [← e1, he, hx] at e2
      cases e2
    rcases hrel.fresh x hx with h1 | ⟨hc, acc', h1, h2, h3, h4, h5⟩
    · exact .inl (by rw [hkeep]; exact h1)
    · exact .inr ⟨hc, acc', by rw [hkeep]; exact h1, h2, h3, h4, by rw [heff.next]; exact h5⟩
  · -- sessions
    intro m k
    cases hss : s.sessions m k with
    | some ss =>
      simp only
      by_cases hsg : SessionSigner tx m k
      · obtain ⟨g, hmem, hg⟩ := hsg
        obtain ⟨r, hrg, hp⟩ := hR.of_left hmem
        obtain ⟨e1, _, h3⟩ := hp
        simp only [hg] at h3
        obtain ⟨ss0, ss', e3, e4, eid, _⟩ := h3
        rw [hss] at e4
        injection e4 with e4
        subst e4
        obtain ⟨pk, hok, hs'⟩ := heff.sessStep r g k ss' hrg e3
        rw [e1] at hs'
        refine ⟨_, hs', eid.1, .inl ⟨⟨g, hmem, hg⟩, by simp [eid.2.1]⟩, ?_⟩
        have hk := hok.key
        simp only [Resolved.stored, e3, Option.isSome_some] at hk
        rcases resolvePubKey_cases cr true r.addr ss'.pubKey g.pubKey pk hk with hk | ⟨hk, _, _⟩
        · left
          simp [← eid.2.2, hk]
        · right
          rw [← eid.2.2]
          exact hk
      · have hkeep : s'.sessions m k = s1.sessions m k :=
          heff.sessKeep m k (fun r hr ss' hs he => hsg (he ▸ sess_of r hr k ss' hs))
        refine ⟨ss, by rw [hkeep, hrel.sessions]; exact hss, rfl, .inr ⟨hsg, rfl⟩, .inl rfl⟩
    | none =>
      simp only
      have hkeep : s'.sessions m k = s1.sessions m k := by
        apply heff.sessKeep
        intro r hr ss' hs he
        obtain ⟨a, g, _, _, hp⟩ := hR.of_right hr
        obtain ⟨e1, _, h3⟩ := hp
        cases hg : g.session with
        | none =>
          simp only [hg] at h3
          rw [h3] at hs
          cases hs
        | some sa =>
          simp only [hg] at h3
          obtain ⟨ss0, ss1, e3, e4, _⟩ := h3
          rw [e3] at hs
          injection hs with hs
          injection hs with hs _
          rw [← e1, he, hs, hss] at e4
          cases e4
      rw [hkeep, hrel.sessions]
      exact hss
  · rw [heff.next]
    rcases hrel.next with h | ⟨_, h⟩
    · exact .inl h
    · exact .inr h


/-- At height 0 without genesis signature verification the ante only moves the fee. -/
theorem ante_genesis_skip (cr : Crypto π σ β) (cfg : Config) (s : State π) (tx : Tx π σ) (s' : State π)
    (hh : s.height = 0 ∧ cfg.verifyGenesis = false) (h : ante cr cfg s tx = .ok s') :
    FeeRel cfg.collector s s' := by
  obtain ⟨r0, rs, s1, r0', hp2, _, hrest⟩ := ante_resolved cr cfg s tx s' (ante_ok_inv cr cfg s tx s' h)
  rcases hrest with ⟨_, _, e⟩ | ⟨hn, _⟩
  · rw [e]
    exact hp2.rel
  · exact absurd hh hn

end GnoVerif.C15
