/-
Proofs.C23Reads — point lookup, membership, size, by-index lookup, rank and the
recursive in-order walk agree with the abstraction.
-/
import GnoVerif.Proofs.C23Insert

namespace GnoVerif.C23
open GnoVerif

/-- an inner node focused at the child `searchInner` selects for `key`. -/
theorem inner_focus {h : Nat} {keys : List Key} {kids : List (Node h)} {lo hi : Option Key} {key : Key}
    (hch : Chain (Ord h) keys kids lo hi) (hlo : lbOk lo key) (hhi : ubOk hi key) :
    ∃ K1 K2 C1 c C2, keys = K1 ++ K2 ∧ kids = C1 ++ c :: C2 ∧
      K1.length = searchInner keys key ∧ C1.length = searchInner keys key ∧
      (∀ x ∈ K1, x ≤ key) ∧ (∀ x ∈ K2, key < x) ∧
      Pre (Ord h) K1 C1 lo ∧ Ord h c (lastOr lo K1) (headOr hi K2) ∧ Post (Ord h) K2 C2 hi ∧
      lbOk (lastOr lo K1) key ∧ ubOk (headOr hi K2) key := by
  have hks := (Chain.keys_sorted (fun _ _ _ hp => Ord.gap hp) hch).1
  obtain ⟨hile, hKL, hKR⟩ := searchInner_spec key hks
  have hlen := hch.length_eq
  generalize searchInner keys key = i at hile hKL hKR
  obtain ⟨K1, K2, rfl, hK1len, hKL, hKR⟩ : ∃ K1 K2, keys = K1 ++ K2 ∧ K1.length = i ∧
      (∀ x ∈ K1, x ≤ key) ∧ (∀ x ∈ K2, key < x) :=
    ⟨keys.take i, keys.drop i, (List.take_append_drop i keys).symm,
      by simp only [List.length_take]; omega, hKL, hKR⟩
  obtain ⟨C1, c, C2, rfl, hC1len⟩ : ∃ C1 c C2, kids = C1 ++ c :: C2 ∧ C1.length = i :=
    ⟨kids.take i, kids[i]'(by omega), kids.drop (i + 1), split_at kids i (by omega),
      by simp only [List.length_take]; omega⟩
  obtain ⟨hpre, hc, hpost⟩ := (chain_focus (by omega)).1 hch
  exact ⟨K1, K2, C1, c, C2, rfl, rfl, hK1len, hC1len, hKL, hKR, hpre, hc, hpost,
    lbOk_lastOr hlo hKL, ubOk_headOr hhi hKR⟩

/-! ### Get / Has -/

theorem nodeLookup_ok : ∀ (h : Nat) (c : Node h) (lo hi : Option Key) (key : Key),
    Ord h c lo hi → lbOk lo key → ubOk hi key → nodeLookup h c key = OMap.get (abs h c) key
  | 0, l, lo, hi, key, hord, _, _ => by
    obtain ⟨es⟩ := l
    have h' : LeafOrd es lo hi := hord
    simp only [nodeLookup, abs_zero]
    cases hf : (searchLeaf ⟨es⟩ key).2 with
    | true =>
      obtain ⟨A, v0, C, rfl, hA, hAlt, hCgt⟩ := searchLeaf_found h'.1 hf
      have hpair : searchLeaf ⟨A ++ (key, v0) :: C⟩ key = ((searchLeaf ⟨A ++ (key, v0) :: C⟩ key).1, true) := by
        rw [← hf]
      rw [hpair]
      simp only [if_true]
      rw [getElem?_mid hA, oget_append_lt hAlt]
      simp [OMap.get_cons]
    | false =>
      obtain ⟨A, C, rfl, hA, hAlt, hCgt⟩ := searchLeaf_notfound h'.1 hf
      have hpair : searchLeaf ⟨A ++ C⟩ key = ((searchLeaf ⟨A ++ C⟩ key).1, false) := by
        rw [← hf]
      rw [hpair]
      simp only [Bool.false_eq_true, if_false]
      rw [oget_append_lt hAlt, oget_all_gt hCgt]
  | h + 1, n, lo, hi, key, hord, hlo, hhi => by
    obtain ⟨keys, kids, sizes⟩ := (n : Inner (Node h))
    obtain ⟨hch, hsz⟩ := hord
    simp only at hch hsz
    obtain ⟨K1, K2, C1, c, C2, rfl, rfl, hK1, hC1, hKL, hKR, hpre, hc, hpost, hlo', hhi'⟩ :=
      inner_focus hch hlo hhi
    simp only [nodeLookup]
    rw [getElem?_mid hC1]
    simp only
    rw [nodeLookup_ok h c _ _ key hc hlo' hhi', abs_succ]
    simp only [flat_append, flat_cons]
    rw [oget_append_lt (pre_lt hpre hKL), oget_append_gt (post_gt hpost hKR)]

/-! ### GetByIndex -/

theorem pickBySize_ok {α β : Type} (sz : α → Nat) (f : α → List β) :
    ∀ (cs : List α) (idx : Nat), (∀ c ∈ cs, sz c = (f c).length) →
      (match pickBySize (cs.map sz) cs idx with
        | some (c, idx') => (f c)[idx']?
        | none => none) = ((cs.map f).flatten)[idx]?
  | [], idx, _ => by simp [pickBySize]
  | c :: cs, idx, hsz => by
    have hc : sz c = (f c).length := hsz c (by simp)
    simp only [List.map_cons, pickBySize, List.flatten_cons]
    by_cases hlt : idx < sz c
    · simp only [hlt, if_true]
      rw [List.getElem?_append_left (by omega)]
    · simp only [hlt, if_false]
      rw [List.getElem?_append_right (by omega), ← hc]
      exact pickBySize_ok sz f cs (idx - sz c) (fun d hd => hsz d (by simp [hd]))

theorem Chain.forall_mem {α : Type} {P : α → Option Key → Option Key → Prop} {ks : List Key}
    {cs : List α} {lo hi : Option Key} (h : Chain P ks cs lo hi) : ∀ c ∈ cs, ∃ lo' hi', P c lo' hi' := by
  induction ks generalizing cs lo with
  | nil =>
    match cs, h with
    | [c], h => intro d hd; simp at hd; subst hd; exact ⟨_, _, h⟩
  | cons k ks ih =>
    match cs, h with
    | c :: cs, h =>
      intro d hd
      rcases List.mem_cons.1 hd with rfl | hd
      · exact ⟨_, _, h.1⟩
      · exact ih h.2 d hd

theorem nodeGetByIndex_ok : ∀ (h : Nat) (c : Node h) (lo hi : Option Key) (idx : Nat),
    Ord h c lo hi → nodeGetByIndex h c idx = (abs h c)[idx]?
  | 0, _, _, _, _, _ => rfl
  | h + 1, n, lo, hi, idx, hord => by
    obtain ⟨keys, kids, sizes⟩ := (n : Inner (Node h))
    obtain ⟨hch, hsz⟩ := hord
    simp only at hch hsz
    subst hsz
    have hall := hch.forall_mem
    have := pickBySize_ok (nodeSize h) (abs h) kids idx
      (fun c hc => by obtain ⟨lo', hi', ho⟩ := hall c hc; exact ho.size_eq)
    simp only [nodeGetByIndex]
    rw [abs_succ, flat, ← this]
    cases hp : pickBySize (kids.map (nodeSize h)) kids idx with
    | none => rfl
    | some p =>
      obtain ⟨c, idx'⟩ := p
      have hmem : c ∈ kids := by
        clear this hall hch
        induction kids generalizing idx with
        | nil => simp [pickBySize] at hp
        | cons d kids ih =>
          simp only [List.map_cons, pickBySize] at hp
          split at hp
          · simp at hp; simp [hp.1]
          · exact List.mem_cons_of_mem _ (ih _ hp)
      obtain ⟨lo', hi', ho⟩ := hall c hmem
      simp only
      exact nodeGetByIndex_ok h c lo' hi' idx' ho

/-! ### GetWithIndex -/

theorem rank_append_lt {A C : List Entry} {key : Key} (h : ∀ x ∈ A, x.1 < key) :
    rank (A ++ C) key = A.length + rank C key := by
  simp only [rank, List.filter_append, List.length_append]
  congr 1
  rw [List.filter_eq_self.2]
  intro x hx; simpa using h x hx

theorem rank_all_ge {C : List Entry} {key : Key} (h : ∀ x ∈ C, key ≤ x.1) : rank C key = 0 := by
  simp only [rank, List.length_eq_zero_iff, List.filter_eq_nil_iff]
  intro x hx
  simpa using Lex.not_lt.2 (h x hx)

theorem pre_sizes {h : Nat} {K1 : List Key} {C1 : List (Node h)} {lo : Option Key}
    (hp : Pre (Ord h) K1 C1 lo) : (C1.map (nodeSize h)).sum = (flat h C1).length := by
  induction K1 generalizing C1 lo with
  | nil =>
    match C1, hp with
    | [], _ => rfl
  | cons k K1 ih =>
    match C1, hp with
    | c :: C1, hp =>
      simp only [List.map_cons, List.sum_cons, flat_cons, List.length_append]
      rw [hp.1.size_eq, ih hp.2]

theorem nodeGetWithIndex_ok : ∀ (h : Nat) (c : Node h) (lo hi : Option Key) (key : Key),
    Ord h c lo hi → lbOk lo key → ubOk hi key →
      nodeGetWithIndex h c key = (rank (abs h c) key, OMap.get (abs h c) key)
  | 0, l, lo, hi, key, hord, _, _ => by
    obtain ⟨es⟩ := l
    have h' : LeafOrd es lo hi := hord
    simp only [nodeGetWithIndex, abs_zero]
    cases hf : (searchLeaf ⟨es⟩ key).2 with
    | true =>
      obtain ⟨A, v0, C, rfl, hA, hAlt, hCgt⟩ := searchLeaf_found h'.1 hf
      have hpair : searchLeaf ⟨A ++ (key, v0) :: C⟩ key = ((searchLeaf ⟨A ++ (key, v0) :: C⟩ key).1, true) := by
        rw [← hf]
      rw [hpair]
      simp only [if_true]
      rw [getElem?_mid hA, oget_append_lt hAlt, rank_append_lt hAlt, rank_all_ge, ← hA]
      · simp [OMap.get_cons]
      · intro x hx
        rcases List.mem_cons.1 hx with rfl | hx
        · exact Lex.le_refl _
        · exact Lex.le_of_lt (hCgt x hx)
    | false =>
      obtain ⟨A, C, rfl, hA, hAlt, hCgt⟩ := searchLeaf_notfound h'.1 hf
      have hpair : searchLeaf ⟨A ++ C⟩ key = ((searchLeaf ⟨A ++ C⟩ key).1, false) := by
        rw [← hf]
      rw [hpair]
      simp only [Bool.false_eq_true, if_false]
      rw [oget_append_lt hAlt, oget_all_gt hCgt, rank_append_lt hAlt,
        rank_all_ge (fun x hx => Lex.le_of_lt (hCgt x hx)), ← hA]
      rfl
  | h + 1, n, lo, hi, key, hord, hlo, hhi => by
    obtain ⟨keys, kids, sizes⟩ := (n : Inner (Node h))
    obtain ⟨hch, hsz⟩ := hord
    simp only at hch hsz
    obtain ⟨K1, K2, C1, c, C2, rfl, rfl, hK1, hC1, hKL, hKR, hpre, hc, hpost, hlo', hhi'⟩ :=
      inner_focus hch hlo hhi
    subst hsz
    simp only [nodeGetWithIndex]
    rw [getElem?_mid hC1]
    simp only
    rw [nodeGetWithIndex_ok h c _ _ key hc hlo' hhi', abs_succ]
    simp only [flat_append, flat_cons]
    have hlt := pre_lt hpre hKL
    have hgt := post_gt hpost hKR
    rw [oget_append_lt hlt, oget_append_gt hgt, rank_append_lt hlt]
    have hr : rank (abs h c ++ flat h C2) key = rank (abs h c) key := by
      simp only [rank, List.filter_append, List.length_append]
      have : List.filter (fun e => decide (e.1 < key)) (flat h C2) = [] := by
        rw [List.filter_eq_nil_iff]
        intro x hx
        simpa using Lex.lt_asymm (hgt x hx)
      rw [this]; rfl
    rw [hr]
    have htake : (List.map (nodeSize h) (C1 ++ c :: C2)).take (searchInner (K1 ++ K2) key) =
        C1.map (nodeSize h) := by
      rw [map_sizes_mid, take_mid (by simpa using hC1)]
    rw [htake, pre_sizes hpre]

/-! ### the recursive in-order walk (`Iterate`) -/

theorem iterList_append {α σ : Type} (f : α → σ → σ × Bool) (a b : List α) (s : σ) :
    iterList f (a ++ b) s =
      (if (iterList f a s).2 then ((iterList f a s).1, true) else iterList f b (iterList f a s).1) := by
  induction a generalizing s with
  | nil => simp [iterList]
  | cons x a ih =>
    simp only [List.cons_append, iterList]
    by_cases hx : (f x s).2 = true
    · simp [hx]
    · simp [hx, ih]

/-- the walk over a node is the walk over its in-order entry list. -/
theorem nodeIterate_ok {σ : Type} (fn : σ → Key → Val → σ × Bool) :
    ∀ (h : Nat) (c : Node h) (s : σ),
      nodeIterate fn h c s = iterList (fun (e : Entry) s => fn s e.1 e.2) (abs h c) s
  | 0, _, _ => rfl
  | h + 1, n, s => by
    obtain ⟨keys, kids, sizes⟩ := (n : Inner (Node h))
    simp only [nodeIterate, abs_succ]
    induction kids generalizing s with
    | nil => rfl
    | cons c kids ih =>
      rw [flat_cons, iterList_append]
      simp only [iterList]
      rw [nodeIterate_ok fn h c s]
      by_cases hs : (iterList (fun (e : Entry) s => fn s e.1 e.2) (abs h c) s).2 = true
      · simp [hs]
      · simp [hs, ih]

end GnoVerif.C23
