import GnoVerif.Model.C14
/-! Helper lemmas for C14: association lists with `find` / `upd`. -/
namespace GnoVerif.C14
set_option linter.unusedSectionVars false

section AList
variable {κ ν : Type} [DecidableEq κ]

/-- Σ over all entries. -/
def sumBy (f : κ → ν → Int) (m : List (κ × ν)) : Int := (m.map (fun e => f e.1 e.2)).sum

def optF (f : κ → ν → Int) (k : κ) : Option ν → Int
  | some v => f k v
  | none => 0

@[simp] theorem sumBy_nil (f : κ → ν → Int) : sumBy f ([] : List (κ × ν)) = 0 := rfl
@[simp] theorem sumBy_cons (f : κ → ν → Int) (e : κ × ν) (m : List (κ × ν)) :
    sumBy f (e :: m) = f e.1 e.2 + sumBy f m := by simp [sumBy]

theorem find_upd_ne (m : List (κ × ν)) (k k' : κ) (ov : Option ν) (h : k' ≠ k) :
    find (upd m k ov) k' = find m k' := by
  induction m with
  | nil => cases ov <;> simp [upd, find, Ne.symm h]
  | cons e m ih =>
    obtain ⟨k0, v0⟩ := e
    by_cases h0 : k0 = k
    · subst h0
      cases ov <;> simp [upd, find, Ne.symm h]
    · simp [upd, find, h0, ih]

theorem find_upd_some (m : List (κ × ν)) (k : κ) (v : ν) :
    find (upd m k (some v)) k = some v := by
  induction m with
  | nil => simp [upd, find]
  | cons e m ih =>
    obtain ⟨k0, v0⟩ := e
    by_cases h0 : k0 = k
    · subst h0; simp [upd, find]
    · simp [upd, find, h0, ih]

theorem find_none_of_not_mem (m : List (κ × ν)) (k : κ) (h : k ∉ m.map Prod.fst) : find m k = none := by
  induction m with
  | nil => rfl
  | cons e m ih =>
    obtain ⟨k0, v0⟩ := e
    simp at h
    simp [find, Ne.symm h.1]
    exact ih (by simpa using h.2)

theorem find_some_mem (m : List (κ × ν)) (k : κ) (v : ν) (h : find m k = some v) : (k, v) ∈ m := by
  induction m with
  | nil => simp [find] at h
  | cons e m ih =>
    obtain ⟨k0, v0⟩ := e
    by_cases h0 : k0 = k
    · subst h0; simp [find] at h; simp [h]
    · simp [find, h0] at h; simp [ih h]

theorem find_of_mem_nodup (m : List (κ × ν)) (k : κ) (v : ν) (hn : (m.map Prod.fst).Nodup)
    (h : (k, v) ∈ m) : find m k = some v := by
  induction m with
  | nil => simp at h
  | cons e m ih =>
    obtain ⟨k0, v0⟩ := e
    simp at hn
    rcases List.mem_cons.1 h with h | h
    · cases h; simp [find]
    · have : k0 ≠ k := by
        intro hk; subst hk
        exact hn.1 v h
      simp [find, this]
      exact ih (by simpa using hn.2) h

theorem find_isSome_iff (m : List (κ × ν)) (k : κ) : (find m k).isSome ↔ k ∈ m.map Prod.fst := by
  induction m with
  | nil => simp [find]
  | cons e m ih =>
    obtain ⟨k0, v0⟩ := e
    by_cases h0 : k0 = k
    · subst h0; simp [find]
    · simp [find, h0, ih, Ne.symm h0]

theorem keys_upd (m : List (κ × ν)) (k k' : κ) (ov : Option ν) (h : k' ∈ (upd m k ov).map Prod.fst) :
    k' ∈ m.map Prod.fst ∨ k' = k := by
  induction m with
  | nil => cases ov <;> simp [upd] at h ⊢; exact h
  | cons e m ih =>
    obtain ⟨k0, v0⟩ := e
    by_cases h0 : k0 = k
    · subst h0
      cases ov <;> simp [upd] at h ⊢
      · rcases h with ⟨v, hv⟩; exact Or.inl (Or.inr ⟨v, hv⟩)
      · rcases h with h | ⟨v, hv⟩
        · exact Or.inr h
        · exact Or.inl (Or.inr ⟨v, hv⟩)
    · simp [upd, h0] at h ⊢
      rcases h with h | ⟨v, hv⟩
      · exact Or.inl (Or.inl h)
      · have := ih (by simpa using ⟨v, hv⟩)
        rcases this with h | h
        · simp at h; exact Or.inl (Or.inr h)
        · exact Or.inr h

theorem nodup_upd (m : List (κ × ν)) (k : κ) (ov : Option ν) (hn : (m.map Prod.fst).Nodup) :
    ((upd m k ov).map Prod.fst).Nodup := by
  induction m with
  | nil => cases ov <;> simp [upd]
  | cons e m ih =>
    obtain ⟨k0, v0⟩ := e
    have hn' : k0 ∉ m.map Prod.fst ∧ (m.map Prod.fst).Nodup := by simpa using hn
    by_cases h0 : k0 = k
    · subst h0
      cases ov
      · simpa [upd] using hn'.2
      · simpa [upd] using hn
    · simp only [upd, h0, if_false, List.map_cons, List.nodup_cons]
      refine ⟨?_, ih hn'.2⟩
      intro hmem
      rcases keys_upd m k k0 ov hmem with h | h
      · exact hn'.1 h
      · exact h0 h

theorem find_upd_none (m : List (κ × ν)) (k : κ) (hn : (m.map Prod.fst).Nodup) :
    find (upd m k none) k = none := by
  induction m with
  | nil => simp [upd, find]
  | cons e m ih =>
    obtain ⟨k0, v0⟩ := e
    have hn' : k0 ∉ m.map Prod.fst ∧ (m.map Prod.fst).Nodup := by simpa using hn
    by_cases h0 : k0 = k
    · subst h0
      simp [upd]
      exact find_none_of_not_mem m k0 hn'.1
    · simp [upd, find, h0, ih hn'.2]

theorem find_upd_same (m : List (κ × ν)) (k : κ) (ov : Option ν) (hn : (m.map Prod.fst).Nodup) :
    find (upd m k ov) k = ov := by
  cases ov
  · exact find_upd_none m k hn
  · exact find_upd_some m k _

theorem mem_upd (m : List (κ × ν)) (k : κ) (ov : Option ν) (e : κ × ν) (h : e ∈ upd m k ov) :
    e ∈ m ∨ ∃ v, ov = some v ∧ e = (k, v) := by
  induction m with
  | nil => cases ov <;> simp [upd] at h; exact Or.inr ⟨_, rfl, h⟩
  | cons e0 m ih =>
    obtain ⟨k0, v0⟩ := e0
    by_cases h0 : k0 = k
    · subst h0
      cases ov
      · simp [upd] at h; exact Or.inl (List.mem_cons_of_mem _ h)
      · simp [upd] at h
        rcases h with h | h
        · exact Or.inr ⟨_, rfl, h⟩
        · exact Or.inl (List.mem_cons_of_mem _ h)
    · simp [upd, h0] at h
      rcases h with h | h
      · subst h; exact Or.inl (by simp)
      · rcases ih h with h | h
        · exact Or.inl (List.mem_cons_of_mem _ h)
        · exact Or.inr h

theorem all_upd (P : κ × ν → Prop) (m : List (κ × ν)) (k : κ) (ov : Option ν)
    (hm : ∀ e ∈ m, P e) (hv : ∀ v, ov = some v → P (k, v)) : ∀ e ∈ upd m k ov, P e := by
  intro e he
  rcases mem_upd m k ov e he with h | ⟨v, hv', rfl⟩
  · exact hm e h
  · exact hv v hv'

theorem sumBy_upd (f : κ → ν → Int) (m : List (κ × ν)) (k : κ) (ov : Option ν) :
    sumBy f (upd m k ov) = sumBy f m - optF f k (find m k) + optF f k ov := by
  induction m with
  | nil => cases ov <;> simp [upd, find, optF]
  | cons e m ih =>
    obtain ⟨k0, v0⟩ := e
    by_cases h0 : k0 = k
    · subst h0
      cases ov <;> simp [upd, find, optF] <;> omega
    · simp [upd, find, h0, ih]; omega

end AList
end GnoVerif.C14
