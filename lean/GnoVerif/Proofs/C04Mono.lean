import GnoVerif.Proofs.C04Fold
/-!
Helper lemmas for C04: fuel monotonicity of the evaluator on call-free scalar
expressions (more fuel never changes a finished evaluation).
-/
namespace GnoVerif.C04
variable (P : Program)

/-- call-free scalar expressions: literals, variables, operators, conversions, selectors -/
def simpleExpr : Expr → Bool
  | .lit _ | .var _ | .cexpr _ _ | .nilE _ | .funcLit _ | .recover => true
  | .bin _ a b | .land a b | .lor a b => simpleExpr a && simpleExpr b
  | .un _ a | .conv _ a | .box _ a | .len a | .cap a | .field _ a _ | .deref a => simpleExpr a
  | _ => false

theorem bind_mono {α β} {x x' : M α} {f f' : α → M β} (s : St)
    (h : ((x >>= f) s).isOof = false)
    (hx : (x s).isOof = false → x' s = x s)
    (hf : ∀ a s1, x s = .ok a s1 → (f a s1).isOof = false → f' a s1 = f a s1) :
    (x' >>= f') s = (x >>= f) s := bind_cfold s h hx hf

theorem mono_of_bind1 (n : Nat) (e a : Expr) (ctx : Ctx) (s : St) (f : Val → M Val)
    (he : ∀ k, evalE P (k+1) ctx e = (evalE P k ctx a >>= f))
    (iha : (evalE P n ctx a s).isOof = false → evalE P (n+1) ctx a s = evalE P n ctx a s)
    (h : (evalE P (n+1) ctx e s).isOof = false) :
    evalE P (n+1+1) ctx e s = evalE P (n+1) ctx e s := by
  rw [he (n+1), he n]
  rw [he n] at h
  exact bind_mono s h iha (fun _ _ _ _ => rfl)

theorem simple_fuel_mono : ∀ (n : Nat) (e : Expr) (ctx : Ctx) (s : St), simpleExpr e = true →
    (evalE P n ctx e s).isOof = false → evalE P (n+1) ctx e s = evalE P n ctx e s := by
  intro n
  induction n with
  | zero => intro e ctx s _ h; rw [evalE_zero] at h; simp [Res.isOof] at h
  | succ n ih =>
    intro e ctx s hs h
    cases e with
    | lit l => rfl
    | var x => rfl
    | cexpr t c => rfl
    | nilE t => rfl
    | funcLit i => rfl
    | recover => rfl
    | bin op a b =>
      simp only [simpleExpr, Bool.and_eq_true] at hs
      have e1 : ∀ k, evalE P (k+1) ctx (.bin op a b) =
          ((do let x ← evalE P k ctx a; let y ← evalE P k ctx b; binop op x y) : M Val) := fun _ => rfl
      rw [e1 (n+1), e1 n]
      rw [e1 n] at h
      apply bind_mono s h (ih a ctx s hs.1)
      intro x s1 _ h2
      exact bind_mono s1 h2 (ih b ctx s1 hs.2) (fun _ _ _ _ => rfl)
    | un op a =>
      simp only [simpleExpr] at hs
      have e1 : ∀ k, evalE P (k+1) ctx (.un op a) =
          ((do let x ← evalE P k ctx a; unop op x) : M Val) := fun _ => rfl
      rw [e1 (n+1), e1 n]
      rw [e1 n] at h
      exact bind_mono s h (ih a ctx s hs) (fun _ _ _ _ => rfl)
    | conv t a =>
      simp only [simpleExpr] at hs
      have e1 : ∀ k, evalE P (k+1) ctx (.conv t a) =
          ((do let x ← evalE P k ctx a; convert P.types t x) : M Val) := fun _ => rfl
      rw [e1 (n+1), e1 n]
      rw [e1 n] at h
      exact bind_mono s h (ih a ctx s hs) (fun _ _ _ _ => rfl)
    | land a b =>
      simp only [simpleExpr, Bool.and_eq_true] at hs
      have e1 : ∀ k, evalE P (k+1) ctx (.land a b) =
          ((evalE P k ctx a >>= fun r => match r with
              | .bool false => pure (.bool false)
              | .bool true => evalE P k ctx b
              | _ => stuck "&& operand") : M Val) := fun _ => rfl
      rw [e1 (n+1), e1 n]
      rw [e1 n] at h
      apply bind_mono s h (ih a ctx s hs.1)
      intro r s1 _ h2
      cases r with
      | bool v => cases v with
        | false => rfl
        | true => exact ih b ctx s1 hs.2 h2
      | _ => rfl
    | lor a b =>
      simp only [simpleExpr, Bool.and_eq_true] at hs
      have e1 : ∀ k, evalE P (k+1) ctx (.lor a b) =
          ((evalE P k ctx a >>= fun r => match r with
              | .bool true => pure (.bool true)
              | .bool false => evalE P k ctx b
              | _ => stuck "|| operand") : M Val) := fun _ => rfl
      rw [e1 (n+1), e1 n]
      rw [e1 n] at h
      apply bind_mono s h (ih a ctx s hs.1)
      intro r s1 _ h2
      cases r with
      | bool v => cases v with
        | true => rfl
        | false => exact ih b ctx s1 hs.2 h2
      | _ => rfl
    | box t a =>
      simp only [simpleExpr] at hs
      exact mono_of_bind1 P n _ a ctx s _ (fun _ => rfl) (ih a ctx s hs) h
    | len a =>
      simp only [simpleExpr] at hs
      exact mono_of_bind1 P n _ a ctx s _ (fun _ => rfl) (ih a ctx s hs) h
    | cap a =>
      simp only [simpleExpr] at hs
      exact mono_of_bind1 P n _ a ctx s _ (fun _ => rfl) (ih a ctx s hs) h
    | field vp a i =>
      simp only [simpleExpr] at hs
      exact mono_of_bind1 P n _ a ctx s _ (fun _ => rfl) (ih a ctx s hs) h
    | deref a =>
      simp only [simpleExpr] at hs
      exact mono_of_bind1 P n _ a ctx s _ (fun _ => rfl) (ih a ctx s hs) h
    | _ => simp [simpleExpr] at hs

end GnoVerif.C04
