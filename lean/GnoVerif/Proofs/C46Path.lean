import GnoVerif.Model.C46Keys
import GnoVerif.Proofs.C46Str
/-! Proofs.C46Path — the path string `BIP44Params.String()` builds is parsed by
`DerivePrivateKeyForPath` into exactly the BIP-44 index list, and by `NewParamsFromPath` back into
the same parameters. -/
namespace GnoVerif.C46

theorem digit_byte (c : Char) (h : c.isDigit = true) :
    isDigit (UInt8.ofNat c.toNat) = true ∧ (UInt8.ofNat c.toNat).toNat = c.toNat := by
  have h' := Char.isDigit_iff_toNat.mp h
  have e0 : '0'.toNat = 48 := rfl
  have e9 : '9'.toNat = 57 := rfl
  rw [e0, e9] at h'
  have h3 : (UInt8.ofNat c.toNat).toNat = c.toNat := by
    rw [UInt8.toNat_ofNat']; omega
  refine ⟨?_, h3⟩
  simp only [isDigit, Bool.and_eq_true, decide_eq_true_eq, UInt8.le_iff_toNat_le, h3]
  exact h'

theorem decStr_digits (n : Nat) : ∀ b ∈ decStr n, isDigit b = true := by
  intro b hb
  simp only [decStr, List.mem_map] at hb
  obtain ⟨c, hc, rfl⟩ := hb
  exact (digit_byte c (Nat.isDigit_of_mem_toDigits (by decide) (by decide) hc)).1

theorem decStr_ne_nil (n : Nat) : decStr n ≠ [] := by
  simp [decStr, Nat.toDigits_ne_nil]

theorem decVal_map (l : List Char) (h : ∀ c ∈ l, c.isDigit = true) (init : Nat) :
    (l.map (fun c => UInt8.ofNat c.toNat)).foldl (fun a b => a * 10 + (b.toNat - 48)) init =
      Nat.ofDigitChars 10 l init := by
  induction l generalizing init with
  | nil => rfl
  | cons c r ih =>
    have hc := digit_byte c (h c (by simp))
    simp only [List.map_cons, List.foldl_cons, Nat.ofDigitChars_cons, hc.2]
    rw [ih (fun x hx => h x (by simp [hx]))]
    congr 1
    simp [Nat.mul_comm]

theorem decVal_decStr (n : Nat) : decVal (decStr n) = n := by
  unfold decVal decStr
  rw [decVal_map _ (fun c hc => Nat.isDigit_of_mem_toDigits (by decide) (by decide) hc)]
  exact Nat.ofDigitChars_ten_toDigits

theorem isDigit_ne (b : UInt8) (h : isDigit b = true) : b ≠ 45 ∧ b ≠ 43 ∧ b ≠ 39 ∧ b ≠ 47 := by
  simp only [isDigit, Bool.and_eq_true, decide_eq_true_eq, UInt8.le_iff_toNat_le] at h
  refine ⟨?_, ?_, ?_, ?_⟩ <;> (intro e; subst e; revert h; decide)

theorem atoi_decStr (n : Nat) (h : n < 2 ^ 63) : atoi (decStr n) = some (n : Int) := by
  have hne := decStr_ne_nil n
  have hd := decStr_digits n
  obtain ⟨d, r, hdr⟩ := List.exists_cons_of_ne_nil hne
  have hdd := isDigit_ne d (hd d (by rw [hdr]; simp))
  unfold atoi
  rw [hdr]
  have hall : (d :: r).all isDigit = true := by rw [← hdr]; exact List.all_eq_true.mpr hd
  have hv : decVal (d :: r) = n := by rw [← hdr]; exact decVal_decStr n
  split
  · rename_i neg ds heq
    split at heq
    · rename_i r' h45; injection h45 with h1 _; exact absurd h1 hdd.1
    · rename_i r' h43; injection h43 with h1 _; exact absurd h1 hdd.2.1
    · injection heq with hn hds
      subst hn hds
      simp only [List.isEmpty_cons, hall, Bool.not_true, Bool.or_self, Bool.false_eq_true, if_false, hv, h, if_true]

theorem getLast_decStr (n : Nat) : ((decStr n).getLast? == some 39) = false := by
  cases h : (decStr n).getLast? with
  | none => rfl
  | some x =>
    have := isDigit_ne x (decStr_digits n x (List.mem_of_getLast? h))
    simp [this.2.2.1]

theorem pathPart_plain (n : Nat) (h : n < 2 ^ 32) : pathPart (decStr n) = .ok (n, false) := by
  unfold pathPart
  have hemp : (decStr n).isEmpty = false := by
    cases h' : decStr n with
    | nil => exact absurd h' (decStr_ne_nil n)
    | cons => rfl
  simp only [hemp, Bool.false_eq_true, if_false, getLast_decStr, atoi_decStr n (by omega)]
  have : ¬ ((n : Int) < 0) := by omega
  simp only [this, if_false, Int.toNat_natCast, Nat.mod_eq_of_lt h]

theorem pathPart_hard (n : Nat) (h : n < 2 ^ 32) : pathPart (decStr n ++ [39]) = .ok (n, true) := by
  unfold pathPart
  have hemp : (decStr n ++ [39]).isEmpty = false := by simp
  have hl : ((decStr n ++ [39]).getLast? == some 39) = true := by simp
  simp only [hemp, Bool.false_eq_true, if_false, hl, if_true, List.dropLast_concat, atoi_decStr n (by omega)]
  have : ¬ ((n : Int) < 0) := by omega
  simp only [this, if_false, Int.toNat_natCast, Nat.mod_eq_of_lt h]

theorem no_slash_dec (n : Nat) : ∀ b ∈ decStr n, (b == 47) = false := by
  intro b hb
  have := isDigit_ne b (decStr_digits n b hb)
  simp [this.2.2.2]

theorem no_slash_hard (n : Nat) : ∀ b ∈ decStr n ++ [39], (b == 47) = false := by
  intro b hb
  rcases List.mem_append.mp hb with hb | hb
  · exact no_slash_dec n b hb
  · simp at hb; subst hb; decide

def changeStr (c : Bool) : Bytes := if c then [49] else [48]

theorem changeStr_eq (c : Bool) : changeStr c = decStr (if c then 1 else 0) := by
  cases c <;> rfl

/-- the five components of `BIP44Params.String()` -/
theorem split_str (p : BIP44Params) :
    splitP (· == 47) p.str =
      [decStr p.purpose ++ [39], decStr p.coinType ++ [39], decStr p.account ++ [39],
       decStr (if p.change then 1 else 0), decStr p.addressIndex] := by
  have e : p.str = (decStr p.purpose ++ [39]) ++ 47 :: ((decStr p.coinType ++ [39]) ++ 47 ::
      ((decStr p.account ++ [39]) ++ 47 :: (decStr (if p.change then 1 else 0) ++ 47 :: decStr p.addressIndex))) := by
    have := changeStr_eq p.change
    simp only [changeStr] at this
    simp only [BIP44Params.str, this, List.append_assoc, List.cons_append, List.nil_append]
  rw [e, splitP_append_sep _ _ _ 47 (no_slash_hard _) (by decide),
    splitP_append_sep _ _ _ 47 (no_slash_hard _) (by decide),
    splitP_append_sep _ _ _ 47 (no_slash_hard _) (by decide),
    splitP_append_sep _ _ _ 47 (no_slash_dec _) (by decide),
    splitP_none _ _ (no_slash_dec _)]

/-- `DerivePrivateKeyForPath(_, _, params.String())` derives along
    purpose' / coinType' / account' / change / addressIndex -/
theorem parsePath_str (p : BIP44Params) (h1 : p.purpose < 2 ^ 32) (h2 : p.coinType < 2 ^ 32)
    (h3 : p.account < 2 ^ 32) (h4 : p.addressIndex < 2 ^ 32) :
    parsePath p.str = .ok [(p.purpose, true), (p.coinType, true), (p.account, true),
      ((if p.change then 1 else 0), false), (p.addressIndex, false)] := by
  unfold parsePath
  rw [split_str]
  have hc : (if p.change then 1 else 0) < 2 ^ 32 := by split <;> decide
  simp only [List.mapM_cons, List.mapM_nil, pathPart_hard _ h1, pathPart_hard _ h2, pathPart_hard _ h3,
    pathPart_plain _ hc, pathPart_plain _ h4]
  rfl

theorem hardenedInt_hard (n : Nat) (h : n < 2 ^ 32) : hardenedInt (decStr n ++ [39]) = .ok n := by
  unfold hardenedInt trimQuote
  have hl : ((decStr n ++ [39]).getLast? == some 39) = true := by simp
  simp only [hl, if_true, List.dropLast_concat, atoi_decStr n (by omega)]
  have : ¬ ((n : Int) < 0) := by omega
  simp only [this, if_false, Int.toNat_natCast, Nat.mod_eq_of_lt h]

theorem hardenedInt_plain (n : Nat) (h : n < 2 ^ 32) : hardenedInt (decStr n) = .ok n := by
  unfold hardenedInt trimQuote
  simp only [getLast_decStr, Bool.false_eq_true, if_false, atoi_decStr n (by omega)]
  have : ¬ ((n : Int) < 0) := by omega
  simp only [this, if_false, Int.toNat_natCast, Nat.mod_eq_of_lt h]

/-- `NewParamsFromPath(params.String()) = params` for BIP-44 parameters (purpose 44) -/
theorem newParams_str (p : BIP44Params) (hp : p.purpose = 44) (h2 : p.coinType < 2 ^ 32)
    (h3 : p.account < 2 ^ 32) (h4 : p.addressIndex < 2 ^ 32) : newParamsFromPath p.str = .ok p := by
  unfold newParamsFromPath
  rw [split_str]
  have hc : (if p.change then 1 else 0) < 2 ^ 32 := by split <;> decide
  have h1 : p.purpose < 2 ^ 32 := by rw [hp]; decide
  simp only [hardenedInt_hard _ h1, hardenedInt_hard _ h2, hardenedInt_hard _ h3, hardenedInt_plain _ hc,
    hardenedInt_plain _ h4]
  have e44 : decStr p.purpose ++ [39] = [52, 52, 39] := by rw [hp]; rfl
  have hh : ∀ n, isHardened (decStr n ++ [39]) = true := by intro n; simp [isHardened]
  have hn : ∀ n, isHardened (decStr n) = false := by intro n; simp only [isHardened, getLast_decStr]
  simp only [e44, bne_self_eq_false, Bool.false_eq_true, if_false, hh, hn, Bool.not_true, Bool.or_self]
  obtain ⟨pu, co, ac, ch, ad⟩ := p
  simp only at hp
  subst hp
  cases ch <;> simp

end GnoVerif.C46
