import GnoVerif.Proofs.C49Step
/-! C49: consequences of the invariant used by Props/C49.lean. -/
namespace GnoVerif.C49
set_option linter.unusedSimpArgs false

/-! ### pointers are exactly "the next / previous remaining element" -/

theorem head_some_iff {s : State} (hI : Inv s) (h : Nat) :
    s.head = some h ↔ (h < s.size ∧ s.rem h = false ∧ ∀ j, j < h → s.rem j = true) := by
  constructor
  · exact hI.list.head_some h
  · rintro ⟨hs, hl, hall⟩
    rcases hh : s.head with _ | h'
    · have := hI.list.head_none hh h hs; rw [hl] at this; cases this
    · obtain ⟨hs', hl', hall'⟩ := hI.list.head_some h' hh
      rcases Nat.lt_trichotomy h h' with c | c | c
      · have := hall' h c; rw [hl] at this; cases this
      · rw [c]
      · have := hall h' c; rw [hl'] at this; cases this

theorem head_none_iff {s : State} (hI : Inv s) : s.head = none ↔ ∀ j, j < s.size → s.rem j = true := by
  constructor
  · exact hI.list.head_none
  · intro hall
    rcases hh : s.head with _ | h
    · rfl
    · obtain ⟨hs, hl, _⟩ := hI.list.head_some h hh
      have := hall h hs; rw [hl] at this; cases this

theorem tail_some_iff {s : State} (hI : Inv s) (t : Nat) :
    s.tail = some t ↔ (t < s.size ∧ s.rem t = false ∧ GapRem s t s.size) := by
  constructor
  · exact hI.list.tail_some t
  · rintro ⟨hs, hl, hall⟩
    rcases hh : s.tail with _ | t'
    · have := hI.list.tail_none hh t hs; rw [hl] at this; cases this
    · obtain ⟨hs', hl', hall'⟩ := hI.list.tail_some t' hh
      rcases Nat.lt_trichotomy t t' with c | c | c
      · have := hall t' c hs'; rw [hl'] at this; cases this
      · rw [c]
      · have := hall' t c hs; rw [hl] at this; cases this

theorem next_some_iff {s : State} (hI : Inv s) {i : Nat} (hi : i < s.size) (hl : s.rem i = false) (n : Nat) :
    (s.elems i).next = some n ↔ (i < n ∧ n < s.size ∧ s.rem n = false ∧ GapRem s i n) := by
  have hE := hI.elem i hi
  constructor
  · intro hn
    obtain ⟨a, b, c, d⟩ := hE.next_some n hn
    exact ⟨a, b, d hl, c⟩
  · rintro ⟨hin, hns, hnl, hg⟩
    rcases hn : (s.elems i).next with _ | n'
    · have := hE.next_none hn hl n hin hns; rw [hnl] at this; cases this
    · obtain ⟨a, b, c, d⟩ := hE.next_some n' hn
      rcases Nat.lt_trichotomy n n' with h | h | h
      · have := c n hin h; rw [hnl] at this; cases this
      · rw [h]
      · have := hg n' a h; rw [d hl] at this; cases this

theorem next_none_iff {s : State} (hI : Inv s) {i : Nat} (hi : i < s.size) (hl : s.rem i = false) :
    (s.elems i).next = none ↔ GapRem s i s.size := by
  have hE := hI.elem i hi
  constructor
  · intro hn; exact hE.next_none hn hl
  · intro hg
    rcases hn : (s.elems i).next with _ | n
    · rfl
    · obtain ⟨a, b, c, d⟩ := hE.next_some n hn
      have := hg n a b; rw [d hl] at this; cases this

theorem prev_some_iff {s : State} (hI : Inv s) {i : Nat} (hi : i < s.size) (hl : s.rem i = false) (p : Nat) :
    (s.elems i).prev = some p ↔ (p < i ∧ s.rem p = false ∧ GapRem s p i) := by
  have hE := hI.elem i hi
  constructor
  · intro hp
    obtain ⟨a, b, c⟩ := hE.prev_some p hp
    exact ⟨a, c hl, b⟩
  · rintro ⟨hpi, hpl, hg⟩
    rcases hp : (s.elems i).prev with _ | p'
    · have := hE.prev_none hp hl p hpi; rw [hpl] at this; cases this
    · obtain ⟨a, b, c⟩ := hE.prev_some p' hp
      rcases Nat.lt_trichotomy p p' with h | h | h
      · have := hg p' h a; rw [c hl] at this; cases this
      · rw [h]
      · have := b p h hpi; rw [hpl] at this; cases this

theorem prev_none_iff {s : State} (hI : Inv s) {i : Nat} (hi : i < s.size) (hl : s.rem i = false) :
    (s.elems i).prev = none ↔ ∀ j, j < i → s.rem j = true := by
  have hE := hI.elem i hi
  constructor
  · intro hp; exact hE.prev_none hp hl
  · intro hall
    rcases hp : (s.elems i).prev with _ | p
    · rfl
    · obtain ⟨a, b, c⟩ := hE.prev_some p hp
      have := hall p a; rw [c hl] at this; cases this

/-! ### what a traverser step hands out -/

theorem tstep_wantNext_at {s : State} {t e n : Nat} (hst : (s.travs t).st = .wantNext e none)
    (h : ((tstep s t).travs t).st = .at n) : (s.elems e).next = some n := by
  simp only [tstep, hst] at h
  split at h
  · rcases hn : (s.elems e).next with _ | n'
    · simp [hn, State.setTrav] at h
    · simp [hn, State.setTrav] at h; rw [h]
  · simp [State.setTrav] at h

theorem tstep_wantNext_fin {s : State} {t e : Nat} (hst : (s.travs t).st = .wantNext e none)
    (h : ((tstep s t).travs t).st = .fin) : (s.elems e).next = none ∧ s.rem e = true := by
  simp only [tstep, hst] at h
  split at h
  · rename_i hc
    rcases hn : (s.elems e).next with _ | n'
    · simp [hn] at hc; exact ⟨rfl, hc⟩
    · simp [hn, State.setTrav] at h
  · simp [State.setTrav] at h

theorem tstep_wantFront_at {s : State} {t h : Nat} (hst : (s.travs t).st = .wantFront none)
    (hh : ((tstep s t).travs t).st = .at h) : s.head = some h := by
  simp only [tstep, hst] at hh
  rcases hd : s.head with _ | h'
  · simp [hd, State.setTrav] at hh
  · simp [hd, State.setTrav] at hh; rw [hh]

/-! ### wake-ups -/

theorem released_current {stale : List Bool} {closed : Bool} : released stale closed stale.length = closed := by
  simp [released]

theorem released_of_stale {stale : List Bool} {closed : Bool} {g : Nat} (hs : ∀ b ∈ stale, b = true)
    (hg : g ≤ stale.length) (hc : closed = true) : released stale closed g = true := by
  unfold released
  by_cases h : g < stale.length
  · simp only [h, if_true]
    have : stale[g]? = some stale[g] := List.getElem?_eq_getElem h
    rw [this]; simp
    exact hs _ (List.getElem_mem h)
  · have : g = stale.length := by omega
    simp [this, hc]

/-- a replaced wait group is always a released one, whatever the current flag. -/
theorem released_of_lt {stale : List Bool} {closed : Bool} {g : Nat} (hs : ∀ b ∈ stale, b = true)
    (hg : g < stale.length) : released stale closed g = true := by
  unfold released
  simp only [hg, if_true]
  have : stale[g]? = some stale[g] := List.getElem?_eq_getElem hg
  rw [this]; simp
  exact hs _ (List.getElem_mem hg)

theorem Reachable.inv {s : State} (h : Reachable s) : Inv s := by
  obtain ⟨ops, hleg, rfl⟩ := h
  exact inv_run inv_init ops hleg

theorem run_append (s : State) (a b : List Op) : run s (a ++ b) = run (run s a) b := by
  induction a generalizing s with
  | nil => rfl
  | cons op a ih => simp only [List.cons_append, run]; exact ih _

theorem legalRun_append (s : State) (a b : List Op) :
    LegalRun s (a ++ b) ↔ LegalRun s a ∧ LegalRun (run s a) b := by
  induction a generalizing s with
  | nil => simp [LegalRun, run]
  | cons op a ih => simp only [List.cons_append, LegalRun, run, ih, and_assoc]

theorem Reachable.init : Reachable init := ⟨[], trivial, rfl⟩

theorem Reachable.step {s : State} (h : Reachable s) (op : Op) (hop : Legal s op) :
    Reachable (step s op) := by
  obtain ⟨ops, hleg, rfl⟩ := h
  refine ⟨ops ++ [op], ?_, ?_⟩
  · rw [legalRun_append]; exact ⟨hleg, hop, trivial⟩
  · rw [run_append]; rfl

theorem handed_next_live {s : State} (hI : Inv s) {t e n : Nat}
    (hst : (s.travs t).st = .wantNext e none) (hl : s.rem e = false)
    (hat : ((tstep s t).travs t).st = .at n) : s.rem n = false := by
  have hT := hI.trav t
  have hn := tstep_wantNext_at hst hat
  have hes := hT.bound e (hT.st_wn e none hst).1
  exact ((hI.elem e hes).next_some n hn).2.2.2 hl

theorem handed_now_live {s : State} (hI : Inv s) {t e n : Nat}
    (hst : (s.travs t).st = .at e) (hl : s.rem e = false)
    (hres : (stepR s (.tnextNow t)).2 = .next (some n)) : s.rem n = false := by
  have hT := hI.trav t
  have hes := hT.bound e (hT.st_at e hst).1
  have hn : (s.elems e).next = some n := by
    simp only [stepR, hI.alive, hst] at hres
    rcases hn : (s.elems e).next with _ | n'
    · rw [hn] at hres; simp at hres
    · rw [hn] at hres; simp at hres; rw [hres]
  exact ((hI.elem e hes).next_some n hn).2.2.2 hl

theorem handed_front_live {s : State} (hI : Inv s) {t h : Nat}
    (hst : (s.travs t).st = .wantFront none) (hat : ((tstep s t).travs t).st = .at h) :
    s.rem h = false :=
  (hI.list.head_some h (tstep_wantFront_at hst hat)).2.1

theorem no_lost_wakeup_next {s : State} (hI : Inv s) {t e g : Nat}
    (hst : (s.travs t).st = .wantNext e (some g))
    (hc : (s.elems e).next ≠ none ∨ s.rem e = true) :
    released (s.elems e).nextStale (s.elems e).nextClosed g = true := by
  have hT := hI.trav t
  obtain ⟨hmem, _, hg⟩ := hT.st_wn e (some g) hst
  have hE := hI.elem e (hT.bound e hmem)
  refine released_of_stale hE.nstale (hg g rfl) ?_
  rw [hE.nclosed]
  rcases hc with h | h
  · cases hn : (s.elems e).next
    · exact absurd hn h
    · rfl
  · rw [h]; simp

theorem no_lost_wakeup_front {s : State} (hI : Inv s) {t g : Nat}
    (hst : (s.travs t).st = .wantFront (some g)) (hh : s.head ≠ none) :
    released s.stale s.closed g = true := by
  have hT := hI.trav t
  obtain ⟨_, hg⟩ := hT.st_wf (some g) hst
  refine released_of_stale hI.list.stale_ok (hg g rfl) ?_
  rw [hI.list.closed_eq]
  cases hd : s.head
  · exact absurd hd hh
  · rfl

theorem wakeup_progress_next {s : State} (hI : Inv s) {t e g : Nat}
    (hst : (s.travs t).st = .wantNext e (some g))
    (hc : (s.elems e).next ≠ none ∨ s.rem e = true) :
    ((tstep (tstep s t) t).travs t).st =
      (match (s.elems e).next with | some n => .at n | none => .fin) := by
  have hrel := no_lost_wakeup_next hI hst hc
  have h0 : tstep s t = s.setTrav t { s.travs t with st := .wantNext e none } := by
    simp only [tstep, hst, hrel, if_true]
  have hc' : (((s.elems e).next.isSome || (s.elems e).removed) = true) := by
    rcases hc with h | h
    · cases hn : (s.elems e).next
      · exact absurd hn h
      · rfl
    · have : (s.elems e).removed = true := h
      rw [this]; simp
  rw [h0]
  have h1 : ((s.setTrav t { s.travs t with st := .wantNext e none }).travs t).st = .wantNext e none := by
    simp [State.setTrav]
  have h2 : (s.setTrav t { s.travs t with st := .wantNext e none }).elems = s.elems := rfl
  simp only [tstep, h1, h2, hc', if_true]
  cases (s.elems e).next <;> simp [State.setTrav]

theorem wakeup_progress_front {s : State} (hI : Inv s) {t g h : Nat}
    (hst : (s.travs t).st = .wantFront (some g)) (hh : s.head = some h) :
    ((tstep (tstep s t) t).travs t).st = .at h := by
  have hrel := no_lost_wakeup_front hI hst (by rw [hh]; simp)
  have h0 : tstep s t = s.setTrav t { s.travs t with st := .wantFront none } := by
    simp only [tstep, hst, hrel, if_true]
  rw [h0]
  have h1 : ((s.setTrav t { s.travs t with st := .wantFront none }).travs t).st = .wantFront none := by
    simp [State.setTrav]
  have h2 : (s.setTrav t { s.travs t with st := .wantFront none }).head = some h := hh
  simp only [tstep, h1, h2]
  simp [State.setTrav]

/-- `panicWg` is only ever returned together with `poisoned := true`. -/
theorem stepR_no_panicWg {s : State} (hI : Inv s) (op : Op) (hop : Legal s op) :
    (stepR s op).2 ≠ .panicWg := by
  intro hc
  have h2 := (inv_step hI op hop).alive
  have h1 := hI.alive
  unfold step at h2
  cases op <;> simp only [stepR, h1] at hc h2 <;>
    (repeat' split at hc) <;> simp_all [poison]

end GnoVerif.C49
