import GnoVerif.Proofs.C38Meta
import GnoVerif.Spec.C38
import GnoVerif.Proofs.C38Crc
/-! Helper lemmas for C38: framing — lines, round trip, truncation. -/
namespace GnoVerif.C38
open GnoVerif

/-! #### big-endian CRC field -/

theorem ofBe32_be32 (c : BitVec 32) :
    ofBe32 (UInt8.ofNat (c.toNat / 16777216)) (UInt8.ofNat (c.toNat / 65536 % 256))
      (UInt8.ofNat (c.toNat / 256 % 256)) (UInt8.ofNat (c.toNat % 256)) = c := by
  have hlt := c.isLt
  unfold ofBe32
  rw [Base64.toNat_ofNat_lt (by omega), Base64.toNat_ofNat_lt (by omega), Base64.toNat_ofNat_lt (by omega),
    Base64.toNat_ofNat_lt (by omega)]
  have : c.toNat / 16777216 * 16777216 + c.toNat / 65536 % 256 * 65536 + c.toNat / 256 % 256 * 256
      + c.toNat % 256 = c.toNat := by omega
  rw [this]
  simp

/-! #### one line -/

theorem encodeMsg_eq (p : Bytes) : encodeMsg p = msgText p ++ [10] := rfl

theorem readLine_msgText (cfg : Cfg) (p : Bytes) (g : GoodPayload cfg p) :
    readLine cfg (msgText p) = .msg p := by
  have hne : msgText p ≠ [] := Base64.encode_ne_nil (by simp [be32])
  have hhash := Base64.head_encode_ne_hash (be32 (Crc32c.crc32c p) ++ p)
  have hdec : Base64.decode (msgText p) = some (be32 (Crc32c.crc32c p) ++ p) := Base64.decode_encode _
  match hm : msgText p, hne with
  | c :: rest, _ =>
    have hc : (c == 35) = false := by
      have : (msgText p).head? = some c := by rw [hm]; rfl
      have h2 : c ≠ 35 := by
        intro e; subst e; exact hhash (by simpa [msgText] using this)
      simpa using h2
    rw [hm] at hdec
    unfold readLine
    simp only [hc, Bool.false_eq_true, if_false, hdec, be32, List.cons_append, List.nil_append]
    have hfit : ¬ (cfg.maxSize < (p.length : Int)) := by have := g.fits; omega
    have hemp : p.isEmpty = false := by simpa using g.nonempty
    simp only [hfit, if_false, hemp, Bool.false_eq_true, ofBe32_be32, bne_self_eq_false, g.body, Bool.not_true]

theorem readLine_metaText (cfg : Cfg) (h : Int) (hr : InI64 h) :
    readLine cfg (35 :: metaJSON h) = .mark h := by
  unfold readLine
  simp [parseMeta_metaJSON h hr.1 hr.2]

/-- the text of an item's line, without its newline -/
def lineText : Item → Bytes
  | .msg p => msgText p
  | .mark h => 35 :: metaJSON h

theorem encodeItem_eq (i : Item) : encodeItem i = lineText i ++ [10] := by
  cases i with
  | msg p => rfl
  | mark h => simp [encodeItem, lineText, encodeMeta_eq]

def itemRes : Item → LineRes
  | .msg p => .msg p
  | .mark h => .mark h

theorem readLine_lineText (cfg : Cfg) (i : Item) (g : GoodItem cfg i) : readLine cfg (lineText i) = itemRes i := by
  cases i with
  | msg p => exact readLine_msgText cfg p g
  | mark h => exact readLine_metaText cfg h g

theorem nl_not_mem_metaJSON (h : Int) : (10 : UInt8) ∉ metaJSON h := by
  intro hm
  simp only [metaJSON, List.mem_append, List.mem_cons, List.not_mem_nil, or_false] at hm
  rcases hm with (h1 | h1) | h1
  · revert h1; decide
  · have := (intDigits_chars h 10 h1).2
    exact absurd this (by decide)
  · revert h1; decide

theorem nl_not_mem_lineText (i : Item) : (10 : UInt8) ∉ lineText i := by
  cases i with
  | msg p => exact Base64.nl_not_mem_encode _
  | mark h =>
    intro hm
    rcases List.mem_cons.mp hm with h1 | h1
    · revert h1; decide
    · exact nl_not_mem_metaJSON h h1

/-! #### splitting into lines -/

theorem completeLinesAux_noNl (cur l : Bytes) (h : (10 : UInt8) ∉ l) : completeLinesAux cur l = [] := by
  induction l generalizing cur with
  | nil => rfl
  | cons b bs ih =>
    have hb : (b == 10) = false := by
      have : b ≠ 10 := fun e => h (e ▸ List.mem_cons_self)
      simpa using this
    simp only [completeLinesAux, hb, Bool.false_eq_true, if_false]
    exact ih _ (fun hm => h (List.mem_cons_of_mem _ hm))

theorem completeLinesAux_line (cur l rest : Bytes) (h : (10 : UInt8) ∉ l) :
    completeLinesAux cur (l ++ 10 :: rest) = (cur.reverse ++ l) :: completeLinesAux [] rest := by
  induction l generalizing cur with
  | nil => simp [completeLinesAux]
  | cons b bs ih =>
    have hb : (b == 10) = false := by
      have : b ≠ 10 := fun e => h (e ▸ List.mem_cons_self)
      simpa using this
    simp only [List.cons_append, completeLinesAux, hb, Bool.false_eq_true, if_false]
    rw [ih _ (fun hm => h (List.mem_cons_of_mem _ hm))]
    simp

theorem completeLines_line (l rest : Bytes) (h : (10 : UInt8) ∉ l) :
    completeLines (l ++ 10 :: rest) = l :: completeLines rest := by
  simp [completeLines, completeLinesAux_line [] l rest h]

theorem completeLines_noNl (l : Bytes) (h : (10 : UInt8) ∉ l) : completeLines l = [] :=
  completeLinesAux_noNl [] l h

theorem encodeAll_cons (i : Item) (is : List Item) :
    encodeAll (i :: is) = lineText i ++ 10 :: encodeAll is := by
  simp [encodeAll, encodeItem_eq]

theorem completeLines_encodeAll (items : List Item) :
    completeLines (encodeAll items) = items.map lineText := by
  induction items with
  | nil => rfl
  | cons i is ih =>
    rw [encodeAll_cons, completeLines_line _ _ (nl_not_mem_lineText i), ih]
    rfl

/-- Cutting the log anywhere leaves exactly the lines that were completely written. -/
theorem completeLines_take (items : List Item) (k : Nat) :
    ∃ j, j ≤ items.length ∧ completeLines ((encodeAll items).take k) = (items.take j).map lineText ∧
      (k < (encodeAll items).length → j < items.length) ∧
      ((encodeAll items).length ≤ k → j = items.length) := by
  induction items generalizing k with
  | nil => exact ⟨0, by simp, by simp [encodeAll, completeLines, completeLinesAux], by simp [encodeAll], by simp⟩
  | cons i is ih =>
    rw [encodeAll_cons]
    by_cases hk : k ≤ (lineText i).length
    · -- the cut falls inside the first line (before its newline): nothing complete
      refine ⟨0, by simp, ?_, by simp, ?_⟩
      · rw [List.take_append_of_le_length hk]
        simpa using completeLines_noNl _ (fun hm => nl_not_mem_lineText i (List.mem_of_mem_take hm))
      · intro hle; simp at hle; omega
    · have hk' : (lineText i).length + 1 ≤ k := by omega
      obtain ⟨j, hj, hcl, hlt, hge⟩ := ih (k - ((lineText i).length + 1))
      refine ⟨j + 1, by simp; omega, ?_, ?_, ?_⟩
      · have e : (lineText i ++ 10 :: encodeAll is).take k
            = lineText i ++ 10 :: (encodeAll is).take (k - ((lineText i).length + 1)) := by
          rw [List.take_append, List.take_of_length_le (by omega)]
          congr 1
          have : k - (lineText i).length = (k - ((lineText i).length + 1)) + 1 := by omega
          rw [this, List.take_succ_cons]
        rw [e, completeLines_line _ _ (nl_not_mem_lineText i), hcl]
        rfl
      · intro h; simp at h
        have := hlt (by omega)
        simp; omega
      · intro h; simp at h
        have := hge (by omega)
        simp; omega


/-! #### reading a list of well-formed lines -/

theorem readLines_map (cfg : Cfg) (items : List Item) (g : ∀ i ∈ items, GoodItem cfg i) :
    readLines cfg (items.map lineText) = (items, .eof) := by
  induction items with
  | nil => rfl
  | cons i is ih =>
    have hi := readLine_lineText cfg i (g i List.mem_cons_self)
    have ih' := ih (fun x hx => g x (List.mem_cons_of_mem _ hx))
    cases i with
    | msg p => simp only [List.map_cons, readLines, hi, itemRes, ih']
    | mark h => simp only [List.map_cons, readLines, hi, itemRes, ih']

theorem readLinesSkip_map (cfg : Cfg) (items : List Item) (g : ∀ i ∈ items, GoodItem cfg i) :
    readLinesSkip cfg (items.map lineText) = (items.map Event.item, .eof) := by
  induction items with
  | nil => rfl
  | cons i is ih =>
    have hi := readLine_lineText cfg i (g i List.mem_cons_self)
    have ih' := ih (fun x hx => g x (List.mem_cons_of_mem _ hx))
    cases i with
    | msg p => simp only [List.map_cons, readLinesSkip, hi, itemRes, ih']
    | mark h => simp only [List.map_cons, readLinesSkip, hi, itemRes, ih']

/-- items the writer accepted fit the reader's limit (for a positive limit) -/
theorem goodItem_written (cfg : Cfg) (hmax : 0 < cfg.maxSize) (items : List Item)
    (hmsg : ∀ p, Item.msg p ∈ items → p ≠ [] ∧ cfg.bodyOK p = true)
    (hmark : ∀ h, Item.mark h ∈ items → InI64 h) :
    ∀ i ∈ written cfg.maxSize items, GoodItem cfg i := by
  intro i hi
  simp only [written, List.mem_filter] at hi
  obtain ⟨hmem, hacc⟩ := hi
  cases i with
  | msg p =>
    obtain ⟨h1, h2⟩ := hmsg p hmem
    refine ⟨h1, ?_, h2⟩
    simp only [writerAccepts, Bool.not_eq_true', Bool.and_eq_false_imp, decide_eq_true_eq, decide_eq_false_iff_not] at hacc
    have := hacc hmax
    omega
  | mark h => exact hmark h hmem
/-! #### acceptance of a data line -/

theorem readLine_msg_inv {cfg : Cfg} {l p : Bytes} (h : readLine cfg l = .msg p) :
    ∃ a b c d, Base64.decode l = some (a :: b :: c :: d :: p) ∧ Crc32c.crc32c p = ofBe32 a b c d ∧
      p ≠ [] ∧ (p.length : Int) ≤ cfg.maxSize ∧ cfg.bodyOK p = true ∧ l.head? ≠ some 35 := by
  unfold readLine at h
  split at h
  · cases h
  · rename_i c rest
    split at h
    · split at h <;> cases h
    · rename_i hc
      split at h
      · cases h
      · rename_i a b c2 d q hdec
        split at h
        · cases h
        · rename_i h1
          split at h
          · cases h
          · rename_i h2
            split at h
            · cases h
            · rename_i h3
              split at h
              · cases h
              · rename_i h4
                cases h
                refine ⟨a, b, c2, d, hdec, ?_, ?_, by omega, by simpa using h4, ?_⟩
                · simpa using h3
                · intro e; simp [e] at h2
                · simpa using hc
      · cases h

theorem decodeGroups_none_of_mem : ∀ (l : Bytes) (c : UInt8), c ∈ l → Base64.decChar c = none →
    Base64.decodeGroups l = none := by
  intro l
  induction l using Base64.decodeGroups.induct with
  | case1 c0 c1 c2 c3 rest v0 v1 v2 v3 h0 h1 h2 h3 out hout ih =>
    intro c hc hn
    simp only [List.mem_cons] at hc
    rcases hc with rfl | rfl | rfl | rfl | hc
    · simp_all
    · simp_all
    · simp_all
    · simp_all
    · rw [ih c hc hn] at hout; cases hout
  | case2 c0 c1 c2 c3 rest v0 v1 v2 v3 h0 h1 h2 h3 hout ih =>
    intro c hc hn
    simp [Base64.decodeGroups, h0, h1, h2, h3, hout]
  | case3 c0 c1 c2 c3 rest hx =>
    intro c hc hn
    unfold Base64.decodeGroups
    split
    · rename_i v0 v1 v2 v3 h0 h1 h2 h3
      exact absurd h3 (hx _ _ _ _ h0 h1 h2)
    · rfl
  | case4 c0 c1 c2 v0 v1 v2 h0 h1 h2 =>
    intro c hc hn
    simp only [List.mem_cons, List.not_mem_nil, or_false] at hc
    rcases hc with rfl | rfl | rfl <;> simp_all
  | case5 c0 c1 c2 hx =>
    intro c hc hn
    unfold Base64.decodeGroups
    split
    · rename_i v0 v1 v2 h0 h1 h2
      exact absurd h2 (hx _ _ _ h0 h1)
    · rfl
  | case6 c0 c1 v0 v1 h0 h1 =>
    intro c hc hn
    simp only [List.mem_cons, List.not_mem_nil, or_false] at hc
    rcases hc with rfl | rfl <;> simp_all
  | case7 c0 c1 hx =>
    intro c hc hn
    unfold Base64.decodeGroups
    split
    · rename_i v0 v1 h0 h1
      exact absurd h1 (hx _ _ h0)
    · rfl
  | case8 c0 => intro c hc hn; rfl
  | case9 => intro c hc hn; cases hc

theorem msgText_alpha (p : Bytes) : ∀ c ∈ msgText p, Base64.IsAlpha c := Base64.encode_alpha _

theorem msgText_ne_nil (p : Bytes) : msgText p ≠ [] := Base64.encode_ne_nil (by simp [be32])

theorem msgText_head_ne_hash (p : Bytes) : (msgText p).head? ≠ some 35 := Base64.head_encode_ne_hash _

/-- A line that is not a meta line and whose base64 text does not decode is reported as corruption. -/
theorem readLine_corrupt_of_decode_none (cfg : Cfg) (l : Bytes) (hh : l.head? ≠ some 35)
    (hd : Base64.decode l = none) : readLine cfg l = .corrupt := by
  unfold readLine
  split
  · rfl
  · rename_i c rest
    have hc : (c == 35) = false := by
      have : c ≠ 35 := fun e => hh (by simp [e])
      simpa using this
    simp only [hc, Bool.false_eq_true, if_false, hd]

/-- Replacing one character of a data line by a byte outside the base64 alphabet
(other than CR, LF, and '#' in first position) makes the line undecodable. -/
theorem readLine_set_nonalpha (cfg : Cfg) (p : Bytes) (i : Nat) (v : UInt8)
    (hi : i < (msgText p).length) (hv : Base64.decChar v = none) (h13 : v ≠ 13) (h10 : v ≠ 10)
    (hh : ¬ (i = 0 ∧ v = 35)) :
    readLine cfg ((msgText p).set i v) = .corrupt := by
  apply readLine_corrupt_of_decode_none
  · -- the first character is still not '#'
    have h0 := msgText_head_ne_hash p
    match hm : msgText p, msgText_ne_nil p with
    | c0 :: rest, _ =>
      rw [hm] at h0
      cases i with
      | zero =>
        simp only [List.set_cons_zero, List.head?_cons]
        intro e
        exact hh ⟨rfl, by simpa using e⟩
      | succ k => simpa using h0
  · have hvs : Base64.isSkipped v = false := by simp [Base64.isSkipped, h13, h10]
    have hfil : ((msgText p).set i v).filter (fun c => !Base64.isSkipped c) = (msgText p).set i v := by
      apply List.filter_eq_self.mpr
      intro c hc
      rcases List.mem_or_eq_of_mem_set hc with h | rfl
      · obtain ⟨n, hn, rfl⟩ := msgText_alpha p c h
        simp [Base64.isSkipped_encChar hn]
      · simp [hvs]
    unfold Base64.decode
    rw [hfil]
    exact decodeGroups_none_of_mem _ v (List.mem_set hi v) hv

/-- `ReadMessage` on a non-meta line whose base64 text decodes to at least four bytes. -/
theorem readLine_of_decode (cfg : Cfg) (l : Bytes) (a b c d : UInt8) (q : Bytes) (hh : l.head? ≠ some 35)
    (hd : Base64.decode l = some (a :: b :: c :: d :: q)) :
    readLine cfg l =
      if cfg.maxSize < (q.length : Int) then .corrupt
      else if q.isEmpty then .corrupt
      else if Crc32c.crc32c q != ofBe32 a b c d then .corrupt
      else if !cfg.bodyOK q then .corrupt
      else .msg q := by
  unfold readLine
  split
  · simp [Base64.decode, Base64.decodeGroups] at hd
  · rename_i c0 rest
    have hc : (c0 == 35) = false := by
      have : c0 ≠ 35 := fun e => hh (by simp [e])
      simpa using this
    simp only [hc, Bool.false_eq_true, if_false, hd]

theorem exists_four {l : Bytes} (h : 4 ≤ l.length) : ∃ a b c d, l = a :: b :: c :: d :: l.drop 4 := by
  match l, h with
  | a :: b :: c :: d :: r, _ => exact ⟨a, b, c, d, rfl⟩

theorem split_prefix4 {pre r p : Bytes} {k0 k1 k2 k3 : UInt8} (hl : 4 ≤ pre.length)
    (h : pre ++ r = k0 :: k1 :: k2 :: k3 :: p) : ∃ pre', pre = k0 :: k1 :: k2 :: k3 :: pre' ∧ p = pre' ++ r := by
  match pre, hl with
  | a :: b :: c :: d :: pre', _ =>
    simp only [List.cons_append, List.cons.injEq] at h
    obtain ⟨rfl, rfl, rfl, rfl, h5⟩ := h
    exact ⟨pre', rfl, h5.symm⟩

/-- Replacing one character of a data line by ANOTHER ALPHABET CHARACTER, anywhere but
at position 5 (the one character that mixes CRC bits with payload bits): the line is
reported as corruption, or — when only bits the decoder ignores changed, or the
character is the same — the original message comes back. -/
theorem readLine_set_alpha (cfg : Cfg) (p : Bytes) (g : GoodPayload cfg p) (i w : Nat)
    (hi : i < (msgText p).length) (hw : w < 64) (h5 : i ≠ 5) :
    readLine cfg ((msgText p).set i (Base64.encChar w)) = .corrupt ∨
    readLine cfg ((msgText p).set i (Base64.encChar w)) = .msg p := by
  obtain ⟨pre, mid, mid', suf, hB, hdec, hlen, hmid, hlo, hhi⟩ :=
    Base64.decodeGroups_set_alpha (be32 (Crc32c.crc32c p) ++ p) i w hi hw
  -- the damaged text still consists of alphabet characters
  have halpha : ∀ c ∈ (msgText p).set i (Base64.encChar w), Base64.IsAlpha c := by
    intro c hc
    rcases List.mem_or_eq_of_mem_set hc with h | rfl
    · exact msgText_alpha p c h
    · exact ⟨w, hw, rfl⟩
  have hfil : ((msgText p).set i (Base64.encChar w)).filter (fun c => !Base64.isSkipped c)
      = (msgText p).set i (Base64.encChar w) := by
    apply List.filter_eq_self.mpr
    intro c hc
    obtain ⟨n, hn, rfl⟩ := halpha c hc
    simp [Base64.isSkipped_encChar hn]
  have hdecode : Base64.decode ((msgText p).set i (Base64.encChar w)) = some (pre ++ mid' ++ suf) := by
    unfold Base64.decode; rw [hfil]; exact hdec
  have hhead : ((msgText p).set i (Base64.encChar w)).head? ≠ some 35 := by
    intro e
    obtain ⟨n, hn, e2⟩ := halpha 35 (List.mem_of_mem_head? e)
    exact Base64.encChar_ne_hash hn e2.symm
  have hfit : ¬ (cfg.maxSize < (p.length : Int)) := by have := g.fits; omega
  have hemp : p.isEmpty = false := by simpa using g.nonempty
  simp only [be32, List.cons_append, List.nil_append] at hB
  by_cases hcase : i ≤ 4
  · -- only bytes of the CRC field can have changed; the payload is intact
    have ht : (pre ++ mid).length ≤ 4 := by simp only [List.length_append]; omega
    have ht' : (pre ++ mid').length ≤ 4 := by simp only [List.length_append] at ht ⊢; omega
    have hdropB : ((pre ++ mid) ++ suf).drop 4 = p := by rw [← hB]; rfl
    have hlenB : 4 ≤ ((pre ++ mid') ++ suf).length := by
      have : ((pre ++ mid) ++ suf).length = p.length + 4 := by rw [← hB]; simp
      simp only [List.length_append] at this ⊢; omega
    have hdrop : ((pre ++ mid') ++ suf).drop 4 = p := by
      have e1 : ((pre ++ mid') ++ suf).drop 4 = suf.drop (4 - (pre ++ mid').length) := by
        rw [List.drop_append, List.drop_of_length_le ht', List.nil_append]
      have e2 : ((pre ++ mid) ++ suf).drop 4 = suf.drop (4 - (pre ++ mid).length) := by
        rw [List.drop_append, List.drop_of_length_le ht, List.nil_append]
      have e3 : (pre ++ mid').length = (pre ++ mid).length := by simp [hlen]
      rw [e1, e3, ← e2, hdropB]
    obtain ⟨a, b, c, d, hform⟩ := exists_four hlenB
    rw [hdrop] at hform
    rw [hform] at hdecode
    rw [readLine_of_decode cfg _ a b c d p hhead hdecode]
    simp only [hfit, if_false, hemp, Bool.false_eq_true, g.body, Bool.not_true]
    by_cases hcrc : (Crc32c.crc32c p != ofBe32 a b c d) = true
    · left; simp [hcrc]
    · right; simp [hcrc]
  · -- only payload bytes can have changed, inside a window of at most two bytes
    have hpre : 4 ≤ pre.length := by omega
    have hB' : pre ++ (mid ++ suf) = UInt8.ofNat ((Crc32c.crc32c p).toNat / 16777216) ::
        UInt8.ofNat ((Crc32c.crc32c p).toNat / 65536 % 256) :: UInt8.ofNat ((Crc32c.crc32c p).toNat / 256 % 256) ::
        UInt8.ofNat ((Crc32c.crc32c p).toNat % 256) :: p := by rw [← List.append_assoc]; exact hB.symm
    obtain ⟨pre', hpre', hp⟩ := split_prefix4 hpre hB'
    have hform : pre ++ mid' ++ suf = UInt8.ofNat ((Crc32c.crc32c p).toNat / 16777216) ::
        UInt8.ofNat ((Crc32c.crc32c p).toNat / 65536 % 256) :: UInt8.ofNat ((Crc32c.crc32c p).toNat / 256 % 256) ::
        UInt8.ofNat ((Crc32c.crc32c p).toNat % 256) :: (pre' ++ mid' ++ suf) := by
      rw [hpre']; simp
    rw [hform] at hdecode
    rw [readLine_of_decode cfg _ _ _ _ _ _ hhead hdecode, ofBe32_be32]
    have hlenp : (pre' ++ mid' ++ suf).length = p.length := by rw [hp]; simp [hlen]
    have hfit' : ¬ (cfg.maxSize < ((pre' ++ mid' ++ suf).length : Int)) := by rw [hlenp]; exact hfit
    have hemp' : (pre' ++ mid' ++ suf).isEmpty = false := by
      have : (pre' ++ mid' ++ suf) ≠ [] := by
        intro e; rw [e] at hlenp
        exact g.nonempty (List.eq_nil_of_length_eq_zero hlenp.symm)
      simpa using this
    by_cases hm : mid = mid'
    · right
      have : pre' ++ mid' ++ suf = p := by rw [hp, hm, List.append_assoc]
      rw [this]
      simp [hfit, hemp, g.body]
    · left
      have hne : Crc32c.crc32c (pre' ++ mid' ++ suf) ≠ Crc32c.crc32c p := by
        rw [hp, ← List.append_assoc]
        exact fun e => Crc32c.crc32c_window_ne pre' mid mid' suf hlen (by omega) hm e.symm
      have hb : (Crc32c.crc32c (pre' ++ mid' ++ suf) != Crc32c.crc32c p) = true := by simpa using hne
      simp only [hfit', if_false, hemp', Bool.false_eq_true, hb, if_true]

/-- all single-byte corruptions of a data line covered by the two lemmas above -/
theorem readLine_set_guarded (cfg : Cfg) (p : Bytes) (g : GoodPayload cfg p) (i : Nat) (v : UInt8)
    (hi : i < (msgText p).length) (h10 : v ≠ 10) (h13 : v ≠ 13) (hh : ¬ (i = 0 ∧ v = 35))
    (h5 : Base64.decChar v = none ∨ i ≠ 5) :
    readLine cfg ((msgText p).set i v) = .corrupt ∨ readLine cfg ((msgText p).set i v) = .msg p := by
  cases hd : Base64.decChar v with
  | none => exact Or.inl (readLine_set_nonalpha cfg p i v hi hd h13 h10 hh)
  | some w =>
    have hw := Base64.decChar_lt hd
    have he := Base64.encChar_of_decChar hd
    rw [← he]
    refine readLine_set_alpha cfg p g i w hi hw ?_
    rcases h5 with h | h
    · rw [hd] at h; cases h
    · exact h

/-! #### one damaged line inside a log -/

theorem completeLines_encodeAll_append (items : List Item) (rest : Bytes) :
    completeLines (encodeAll items ++ rest) = items.map lineText ++ completeLines rest := by
  induction items with
  | nil => simp [encodeAll]
  | cons i is ih =>
    rw [encodeAll_cons, List.append_assoc, List.cons_append,
      completeLines_line _ _ (nl_not_mem_lineText i), ih]
    rfl

theorem readLinesSkip_append_good (cfg : Cfg) (items : List Item) (g : ∀ i ∈ items, GoodItem cfg i)
    (rest : List Bytes) :
    readLinesSkip cfg (items.map lineText ++ rest)
      = (items.map Event.item ++ (readLinesSkip cfg rest).1, (readLinesSkip cfg rest).2) := by
  induction items with
  | nil => simp
  | cons i is ih =>
    have hi := readLine_lineText cfg i (g i List.mem_cons_self)
    have ih' := ih (fun x hx => g x (List.mem_cons_of_mem _ hx))
    cases i with
    | msg p => simp only [List.map_cons, List.cons_append, readLinesSkip, hi, itemRes, ih']
    | mark h => simp only [List.map_cons, List.cons_append, readLinesSkip, hi, itemRes, ih']

/-- A log in which the text of ONE line was replaced by `l'` (no newline in it): the other
lines are read exactly as written; the damaged line contributes what `readLine` says. -/
theorem readAllSkip_damaged (cfg : Cfg) (before after : List Item)
    (gb : ∀ i ∈ before, GoodItem cfg i) (ga : ∀ i ∈ after, GoodItem cfg i)
    (l' : Bytes) (hnl : (10 : UInt8) ∉ l') :
    readAllSkip cfg (encodeAll before ++ (l' ++ 10 :: encodeAll after)) =
      match readLine cfg l' with
      | .msg q => (before.map Event.item ++ Event.item (.msg q) :: after.map Event.item, .eof)
      | .mark h => (before.map Event.item ++ Event.item (.mark h) :: after.map Event.item, .eof)
      | .corrupt => (before.map Event.item ++ Event.skipped :: after.map Event.item, .eof)
      | .metaEof => (before.map Event.item, .eof)
      | .metaErr => (before.map Event.item, .metaerr) := by
  unfold readAllSkip
  rw [completeLines_encodeAll_append, completeLines_line _ _ hnl, completeLines_encodeAll,
    readLinesSkip_append_good cfg before gb]
  have ha := readLinesSkip_map cfg after ga
  cases hr : readLine cfg l' <;> simp [readLinesSkip, hr, ha]

theorem nl_not_mem_msgText (p : Bytes) : (10 : UInt8) ∉ msgText p := Base64.nl_not_mem_encode _

theorem nl_not_mem_set {l : Bytes} {i : Nat} {v : UInt8} (hl : (10 : UInt8) ∉ l) (hv : v ≠ 10) :
    (10 : UInt8) ∉ l.set i v := by
  intro h
  rcases List.mem_or_eq_of_mem_set h with h1 | h1
  · exact hl h1
  · exact hv h1.symm

/-- the damaged log really is the written log with one byte replaced -/
theorem set_in_line (before after : List Item) (p : Bytes) (i : Nat) (v : UInt8) (hi : i < (msgText p).length) :
    (encodeAll (before ++ .msg p :: after)).set ((encodeAll before).length + i) v
      = encodeAll before ++ ((msgText p).set i v ++ 10 :: encodeAll after) := by
  have e : encodeAll (before ++ .msg p :: after) = encodeAll before ++ (msgText p ++ 10 :: encodeAll after) := by
    simp [encodeAll, encodeItem, encodeMsg_eq]
  rw [e, List.set_append_right _ _ (by omega)]
  congr 1
  have : (encodeAll before).length + i - (encodeAll before).length = i := by omega
  rw [this, List.set_append_left _ _ hi]


theorem readLines_append_good (cfg : Cfg) (items : List Item) (g : ∀ i ∈ items, GoodItem cfg i)
    (rest : List Bytes) :
    readLines cfg (items.map lineText ++ rest)
      = (items ++ (readLines cfg rest).1, (readLines cfg rest).2) := by
  induction items with
  | nil => simp
  | cons i is ih =>
    have hi := readLine_lineText cfg i (g i List.mem_cons_self)
    have ih' := ih (fun x hx => g x (List.mem_cons_of_mem _ hx))
    cases i with
    | msg p => simp only [List.map_cons, List.cons_append, readLines, hi, itemRes, ih']
    | mark h => simp only [List.map_cons, List.cons_append, readLines, hi, itemRes, ih']

/-- stop-at-first-error reading of a log with one damaged line -/
theorem readAll_damaged (cfg : Cfg) (before after : List Item)
    (gb : ∀ i ∈ before, GoodItem cfg i) (ga : ∀ i ∈ after, GoodItem cfg i)
    (l' : Bytes) (hnl : (10 : UInt8) ∉ l') :
    readAll cfg (encodeAll before ++ (l' ++ 10 :: encodeAll after)) =
      match readLine cfg l' with
      | .msg q => (before ++ .msg q :: after, .eof)
      | .mark h => (before ++ .mark h :: after, .eof)
      | .corrupt => (before, .corrupt)
      | .metaEof => (before, .eof)
      | .metaErr => (before, .metaerr) := by
  unfold readAll
  rw [completeLines_encodeAll_append, completeLines_line _ _ hnl, completeLines_encodeAll,
    readLines_append_good cfg before gb]
  have ha := readLines_map cfg after ga
  cases hr : readLine cfg l' <;> simp [readLines, hr, ha]
/-! #### position 5 under amino's length-prefix check -/

/-- how `binary.Uvarint` depends on the low seven bits already accumulated -/
theorem uvarintAux_shift : ∀ (r : Bytes) (i x s : Nat) (v n : Nat), i ≤ 10 →
    uvarintAux i x s r = some (v, n) →
    x ≤ v ∧ (v - x) % 2 ^ s = 0 ∧ i + 1 ≤ n ∧ n ≤ 10 ∧ n ≤ i + r.length ∧
    ∀ x', uvarintAux i x' s r = some (v - x + x', n) := by
  intro r
  induction r with
  | nil => intro i x s v n _ h; simp [uvarintAux] at h
  | cons b rest ih =>
    intro i x s v n hi10 h
    unfold uvarintAux at h
    split at h
    · cases h
    · rename_i hi
      split at h
      · rename_i hb
        split at h
        · cases h
        · rename_i h9
          simp only [Option.some.injEq, Prod.mk.injEq] at h
          obtain ⟨rfl, rfl⟩ := h
          have hi' : i ≠ 10 := by simpa using hi
          refine ⟨by omega, by simp [Nat.add_sub_cancel_left, Nat.mul_mod_left], by omega, ?_, by simp, ?_⟩
          · omega
          · intro x'
            unfold uvarintAux
            simp only [hi, Bool.false_eq_true, if_false, hb, if_true, h9]
            simp; omega
      · rename_i hb
        have hi' : i ≠ 10 := by simpa using hi
        obtain ⟨h1, h2, h3, h4, h6, h5⟩ := ih (i + 1) _ (s + 7) v n (by omega) h
        refine ⟨by omega, ?_, by omega, h4, by simp; omega, ?_⟩
        · have d1 : 2 ^ s ∣ v - (x + b.toNat % 128 * 2 ^ s) :=
            Nat.dvd_trans (Nat.pow_dvd_pow 2 (by omega)) (Nat.dvd_of_mod_eq_zero h2)
          have d2 : 2 ^ s ∣ b.toNat % 128 * 2 ^ s := Nat.dvd_mul_left _ _
          have e : v - x = (v - (x + b.toNat % 128 * 2 ^ s)) + b.toNat % 128 * 2 ^ s := by omega
          rw [e]
          exact Nat.mod_eq_zero_of_dvd (Nat.dvd_add d1 d2)
        · intro x'
          unfold uvarintAux
          simp only [hi, Bool.false_eq_true, if_false, hb]
          have := h5 (x' + b.toNat % 128 * 2 ^ s)
          rw [this]
          congr 2
          omega

theorem uvarint_cons (b : UInt8) (r : Bytes) :
    uvarint (b :: r) = if b.toNat < 128 then some (b.toNat, 1) else uvarintAux 1 (b.toNat % 128) 7 r := by
  have hb : (b < 128) ↔ b.toNat < 128 := by
    rw [UInt8.lt_iff_toNat_lt]; rfl
  unfold uvarint
  rw [uvarintAux]
  by_cases h : b.toNat < 128
  · have h' : b < 128 := hb.mpr h
    simp [h', h]
  · have h' : ¬ b < 128 := fun e => h (hb.mp e)
    simp [h', h]

theorem sizedOK_cons (b : UInt8) (r : Bytes) :
    sizedOK (b :: r) = true ↔
      (b.toNat < 128 ∧ b.toNat = r.length) ∨
      (128 ≤ b.toNat ∧ ∃ v n, uvarintAux 1 (b.toNat % 128) 7 r = some (v, n) ∧ v = r.length + 1 - n) := by
  unfold sizedOK
  rw [uvarint_cons]
  by_cases h : b.toNat < 128
  · simp [h]; omega
  · simp only [h, if_false]
    constructor
    · intro hs
      right
      refine ⟨by omega, ?_⟩
      split at hs
      · rename_i v n heq
        exact ⟨v, n, heq, by simpa using hs⟩
      · cases hs
    · intro hs
      rcases hs with ⟨h1, _⟩ | ⟨_, v, n, heq, hv⟩
      · exact h1.elim
      · rw [heq]; simp [hv]

/-- Two sized payloads with the same tail whose first bytes agree in their low four
bits have the same first byte. -/
theorem sized_first_byte (b b' : UInt8) (r : Bytes) (h16 : b.toNat % 16 = b'.toNat % 16)
    (h1 : sizedOK (b :: r) = true) (h2 : sizedOK (b' :: r) = true) : b = b' := by
  apply UInt8.toNat_inj.mp
  have hb := b.toNat_lt
  have hb' := b'.toNat_lt
  rcases (sizedOK_cons b r).mp h1 with ⟨l1, e1⟩ | ⟨g1, v, n, u1, ev⟩
  · rcases (sizedOK_cons b' r).mp h2 with ⟨l2, e2⟩ | ⟨g2, v', n', u2, ev'⟩
    · omega
    · obtain ⟨a1, a2, a3, a4, a6, _⟩ := uvarintAux_shift r 1 _ 7 v' n' (by omega) u2
      have : (v' - b'.toNat % 128) % 128 = 0 := by simpa using a2
      omega
  · rcases (sizedOK_cons b' r).mp h2 with ⟨l2, e2⟩ | ⟨g2, v', n', u2, ev'⟩
    · obtain ⟨a1, a2, a3, a4, a6, _⟩ := uvarintAux_shift r 1 _ 7 v n (by omega) u1
      have : (v - b.toNat % 128) % 128 = 0 := by simpa using a2
      omega
    · obtain ⟨a1, a2, a3, a4, a6, a5⟩ := uvarintAux_shift r 1 _ 7 v n (by omega) u1
      have := a5 (b'.toNat % 128)
      rw [u2] at this
      simp only [Option.some.injEq, Prod.mk.injEq] at this
      omega

/-- position 5 of a line: the one character straddling the stored CRC and the payload -/
theorem decodeGroups_set5 (k0 k1 k2 k3 b : UInt8) (r : Bytes) (w : Nat) (hw : w < 64) :
    Base64.decodeGroups ((Base64.encode (k0 :: k1 :: k2 :: k3 :: b :: r)).set 5 (Base64.encChar w)) =
      some (k0 :: k1 :: k2 :: UInt8.ofNat (k3.toNat / 4 * 4 + w / 16) ::
            UInt8.ofNat (w % 16 * 16 + b.toNat % 16) :: r) := by
  have h0 := k0.toNat_lt; have h1 := k1.toNat_lt; have h2 := k2.toNat_lt; have h3 := k3.toNat_lt
  have hb := b.toNat_lt
  have d0 := Base64.decChar_encChar (show k0.toNat / 4 < 64 by omega)
  have d1 := Base64.decChar_encChar (show k0.toNat % 4 * 16 + k1.toNat / 16 < 64 by omega)
  have d2 := Base64.decChar_encChar (show k1.toNat % 16 * 4 + k2.toNat / 64 < 64 by omega)
  have d3 := Base64.decChar_encChar (show k2.toNat % 64 < 64 by omega)
  have d4 := Base64.decChar_encChar (show k3.toNat / 4 < 64 by omega)
  have dw := Base64.decChar_encChar hw
  have ea : k0.toNat / 4 * 4 + (k0.toNat % 4 * 16 + k1.toNat / 16) / 16 = k0.toNat := by omega
  have eb : (k0.toNat % 4 * 16 + k1.toNat / 16) % 16 * 16 + (k1.toNat % 16 * 4 + k2.toNat / 64) / 4 = k1.toNat := by omega
  have ec : (k1.toNat % 16 * 4 + k2.toNat / 64) % 4 * 64 + k2.toNat % 64 = k2.toNat := by omega
  match r with
  | [] =>
    have d6 := Base64.decChar_encChar (show b.toNat % 16 * 4 < 64 by omega)
    have e6 : w % 16 * 16 + b.toNat % 16 * 4 / 4 = w % 16 * 16 + b.toNat % 16 := by omega
    simp only [Base64.encode, List.set_cons_succ, List.set_cons_zero, Base64.decodeGroups, d0, d1, d2, d3, d4, dw, d6,
      ea, eb, ec, e6, Base64.ofNat_toNat]
  | c :: r' =>
    have hc := c.toNat_lt
    have d6 := Base64.decChar_encChar (show b.toNat % 16 * 4 + c.toNat / 64 < 64 by omega)
    have d7 := Base64.decChar_encChar (show c.toNat % 64 < 64 by omega)
    have e6 : w % 16 * 16 + (b.toNat % 16 * 4 + c.toNat / 64) / 4 = w % 16 * 16 + b.toNat % 16 := by omega
    have e7 : (b.toNat % 16 * 4 + c.toNat / 64) % 4 * 64 + c.toNat % 64 = c.toNat := by omega
    simp only [Base64.encode, List.set_cons_succ, List.set_cons_zero, Base64.decodeGroups, d0, d1, d2, d3, d4, dw, d6, d7,
      Base64.decodeGroups_encode, ea, eb, ec, e6, e7, Base64.ofNat_toNat]

/-- Position 5, under the (true) fact that amino's `UnmarshalSized` checks the length
prefix of the payload: the damaged first payload byte keeps its low four bits, so a
payload that still passes the length-prefix check is the original one. -/
theorem readLine_set5_sized (cfg : Cfg) (hsz : ∀ q, cfg.bodyOK q = true → sizedOK q = true)
    (p : Bytes) (g : GoodPayload cfg p) (w : Nat) (hw : w < 64) :
    readLine cfg ((msgText p).set 5 (Base64.encChar w)) = .corrupt ∨
    readLine cfg ((msgText p).set 5 (Base64.encChar w)) = .msg p := by
  match p, g with
  | b :: r, g =>
    have halpha : ∀ c ∈ (msgText (b :: r)).set 5 (Base64.encChar w), Base64.IsAlpha c := by
      intro c hc
      rcases List.mem_or_eq_of_mem_set hc with h | rfl
      · exact msgText_alpha _ c h
      · exact ⟨w, hw, rfl⟩
    have hfil : ((msgText (b :: r)).set 5 (Base64.encChar w)).filter (fun c => !Base64.isSkipped c)
        = (msgText (b :: r)).set 5 (Base64.encChar w) := by
      apply List.filter_eq_self.mpr
      intro c hc
      obtain ⟨n, hn, rfl⟩ := halpha c hc
      simp [Base64.isSkipped_encChar hn]
    have hhead : ((msgText (b :: r)).set 5 (Base64.encChar w)).head? ≠ some 35 := by
      intro e
      obtain ⟨n, hn, e2⟩ := halpha 35 (List.mem_of_mem_head? e)
      exact Base64.encChar_ne_hash hn e2.symm
    have hdecode := decodeGroups_set5 (UInt8.ofNat ((Crc32c.crc32c (b :: r)).toNat / 16777216))
      (UInt8.ofNat ((Crc32c.crc32c (b :: r)).toNat / 65536 % 256))
      (UInt8.ofNat ((Crc32c.crc32c (b :: r)).toNat / 256 % 256))
      (UInt8.ofNat ((Crc32c.crc32c (b :: r)).toNat % 256)) b r w hw
    have hdec1 : Base64.decode ((msgText (b :: r)).set 5 (Base64.encChar w))
        = Base64.decodeGroups ((msgText (b :: r)).set 5 (Base64.encChar w)) := by
      unfold Base64.decode; rw [hfil]
    have hdec2 := hdec1.trans hdecode
    rw [readLine_of_decode cfg _ _ _ _ _ _ hhead hdec2]
    split
    · exact Or.inl rfl
    · split
      · exact Or.inl rfl
      · split
        · exact Or.inl rfl
        · split
          · exact Or.inl rfl
          · rename_i hbody
            right
            have hb1 : cfg.bodyOK (UInt8.ofNat (w % 16 * 16 + b.toNat % 16) :: r) = true := by simpa using hbody
            have hlt : w % 16 * 16 + b.toNat % 16 < 256 := by omega
            have h16 : (UInt8.ofNat (w % 16 * 16 + b.toNat % 16)).toNat % 16 = b.toNat % 16 := by
              rw [Base64.toNat_ofNat_lt hlt]; omega
            have := sized_first_byte _ b r h16 (hsz _ hb1) (hsz _ g.body)
            rw [this]


/-- every single-byte corruption except '#' in first position and CR, given the length-prefix check -/
theorem readLine_set_sized (cfg : Cfg) (hsz : ∀ q, cfg.bodyOK q = true → sizedOK q = true)
    (p : Bytes) (g : GoodPayload cfg p) (i : Nat) (v : UInt8)
    (hi : i < (msgText p).length) (h10 : v ≠ 10) (h13 : v ≠ 13) (hh : ¬ (i = 0 ∧ v = 35)) :
    readLine cfg ((msgText p).set i v) = .corrupt ∨ readLine cfg ((msgText p).set i v) = .msg p := by
  cases hd : Base64.decChar v with
  | none => exact readLine_set_guarded cfg p g i v hi h10 h13 hh (Or.inl hd)
  | some w =>
    by_cases h5 : i = 5
    · subst h5
      rw [← Base64.encChar_of_decChar hd]
      exact readLine_set5_sized cfg hsz p g w (Base64.decChar_lt hd)
    · exact readLine_set_guarded cfg p g i v hi h10 h13 hh (Or.inr h5)

/-! #### CR: a dropped character -/

/-- `binary.Uvarint` looks at its first `n` bytes only -/
theorem uvarintAux_prefix : ∀ (r : Bytes) (i x s v n : Nat), i ≤ 10 → uvarintAux i x s r = some (v, n) →
    ∀ r' : Bytes, r'.take (n - i) = r.take (n - i) → uvarintAux i x s r' = some (v, n) := by
  intro r
  induction r with
  | nil => intro i x s v n _ h; simp [uvarintAux] at h
  | cons b rest ih =>
    intro i x s v n hi10 h r' hr
    obtain ⟨_, _, hn1, _, _, _⟩ := uvarintAux_shift (b :: rest) i x s v n hi10 h
    have hpos : n - i = (n - i - 1) + 1 := by omega
    rw [hpos, List.take_succ_cons] at hr
    match r', hr with
    | [], hr => simp at hr
    | b' :: rest', hr =>
      rw [List.take_succ_cons, List.cons.injEq] at hr
      obtain ⟨rfl, hr2⟩ := hr
      unfold uvarintAux at h ⊢
      split at h
      · cases h
      · rename_i hi
        simp only [hi, Bool.false_eq_true, if_false]
        split at h
        · rename_i hb
          simp only [hb, if_true]
          exact h
        · rename_i hb
          simp only [hb, if_false]
          have hi' : i ≠ 10 := by simpa using hi
          refine ih (i + 1) _ (s + 7) v n (by omega) h rest' ?_
          have : n - (i + 1) = n - i - 1 := by omega
          rw [this]; exact hr2

theorem encode_length (B : Bytes) : (Base64.encode B).length = (4 * B.length + 2) / 3 := by
  induction B using Base64.encode.induct with
  | case1 a b c rest ih => simp only [Base64.encode, List.length_cons, ih]; omega
  | case2 a b => simp [Base64.encode]
  | case3 a => simp [Base64.encode]
  | case4 => simp [Base64.encode]

theorem uvarint_prefix (p p' : Bytes) (v n : Nat) (h : uvarint p = some (v, n))
    (hp : p'.take n = p.take n) : uvarint p' = some (v, n) :=
  uvarintAux_prefix p 0 0 0 v n (by omega) h p' (by simpa using hp)

/-- A character of a data line replaced by CR, far enough into the line that the dropped
character lies behind the payload's length prefix: the decoder silently drops the CR,
the payload comes out one byte short but still announces its old length — amino's
length-prefix check fails, so the line is reported as corruption. -/
theorem readLine_set_cr (cfg : Cfg) (hsz : ∀ q, cfg.bodyOK q = true → sizedOK q = true)
    (p : Bytes) (g : GoodPayload cfg p) (i : Nat) (hi : i < (msgText p).length)
    (v n : Nat) (hu : uvarint p = some (v, n)) (hpos : 4 + n ≤ 3 * (i / 4)) :
    readLine cfg ((msgText p).set i 13) = .corrupt := by
  have hi8 : 8 ≤ i := by omega
  -- the first character is untouched
  have hhead : ((msgText p).set i 13).head? ≠ some 35 := by
    have h0 := msgText_head_ne_hash p
    match hm : msgText p, msgText_ne_nil p with
    | c0 :: rest, _ =>
      rw [hm] at h0
      match i, hi8 with
      | k + 1, _ => simpa using h0
  -- the decoder sees the line with that character removed
  have hfil : Base64.decode ((msgText p).set i 13) = Base64.decodeGroups ((msgText p).eraseIdx i) := by
    unfold Base64.decode
    rw [Base64.filter_set_cr _ i (fun c hc => by
      obtain ⟨m, hm, rfl⟩ := msgText_alpha p c hc
      exact Base64.isSkipped_encChar hm) hi]
  cases hdec : Base64.decodeGroups ((msgText p).eraseIdx i) with
  | none => exact readLine_corrupt_of_decode_none cfg _ hhead (hfil.trans hdec)
  | some B' =>
    -- split both texts at the last group boundary before position i
    have hq : 4 * (i / 4) ≤ (msgText p).length := by omega
    have hA : ((msgText p).take (4 * (i / 4))).length = 4 * (i / 4) := List.length_take_of_le hq
    have hL : (msgText p).take (4 * (i / 4)) ++ (msgText p).drop (4 * (i / 4)) = msgText p :=
      List.take_append_drop _ _
    have hfull : Base64.decodeGroups ((msgText p).take (4 * (i / 4)) ++ (msgText p).drop (4 * (i / 4)))
        = some (be32 (Crc32c.crc32c p) ++ p) := by rw [hL]; exact Base64.decodeGroups_encode _
    obtain ⟨dA, dT, e1, _, e3, e4⟩ := Base64.decodeGroups_split (i / 4) _ _ _ hA hfull
    have herase : (msgText p).eraseIdx i
        = (msgText p).take (4 * (i / 4)) ++ ((msgText p).drop (4 * (i / 4))).eraseIdx (i - 4 * (i / 4)) := by
      conv => lhs; rw [← hL]
      rw [List.eraseIdx_append_of_length_le (by rw [hA]; omega), hA]
    rw [herase] at hdec
    obtain ⟨dA', dT', e1', _, e3', _⟩ := Base64.decodeGroups_split (i / 4) _ _ _ hA hdec
    rw [e1] at e1'
    cases e1'
    -- lengths
    have hlenB' : B'.length = ((msgText p).length - 1) * 3 / 4 := by
      have := Base64.decodeGroups_length _ _ hdec
      rw [← herase, List.length_eraseIdx_of_lt hi] at this
      exact this
    have hlenL : (msgText p).length = (4 * (p.length + 4) + 2) / 3 := by
      have := encode_length (be32 (Crc32c.crc32c p) ++ p)
      have e : (be32 (Crc32c.crc32c p) ++ p).length = p.length + 4 := by simp [be32]
      rw [e] at this
      exact this
    have hplen : 1 ≤ p.length := by
      have := g.nonempty
      cases p with
      | nil => exact absurd rfl this
      | cons _ _ => simp
    have hB'len : B'.length = p.length + 3 := by omega
    -- B' starts with the stored CRC and a payload that agrees with p on its first 3*(i/4)-4 bytes
    have htake : B'.take (3 * (i / 4)) = (be32 (Crc32c.crc32c p) ++ p).take (3 * (i / 4)) := by
      rw [e3, e3', List.take_append_of_le_length (by omega), List.take_append_of_le_length (by omega)]
    obtain ⟨a, b, c, d, hform⟩ := exists_four (l := B') (by omega)
    have hk : 3 * (i / 4) = (3 * (i / 4) - 4) + 4 := by omega
    rw [hform, hk] at htake
    simp only [be32, List.cons_append, List.nil_append, List.take_succ_cons, List.cons.injEq] at htake
    obtain ⟨rfl, rfl, rfl, rfl, htake'⟩ := htake
    have hp'len : (B'.drop 4).length = p.length - 1 := by simp [hB'len]
    have hdecode : Base64.decode ((msgText p).set i 13) = some B' := by
      rw [hfil, herase]; exact hdec
    rw [hform] at hdecode
    rw [readLine_of_decode cfg _ _ _ _ _ _ hhead hdecode]
    split
    · rfl
    · split
      · rfl
      · split
        · rfl
        · split
          · rfl
          · rename_i hbody
            exfalso
            have hb1 : cfg.bodyOK (B'.drop 4) = true := by simpa using hbody
            have hs1 := hsz _ hb1
            have hs2 := hsz _ g.body
            obtain ⟨_, _, _, _, hn, _⟩ := uvarintAux_shift p 0 0 0 v n (by omega) hu
            have hn' : n ≤ p.length := by simpa using hn
            have hpre : (B'.drop 4).take n = p.take n := by
              have := congrArg (List.take n) htake'
              rw [List.take_take, List.take_take, Nat.min_eq_left (by omega)] at this
              exact this
            have hu' := uvarint_prefix p (B'.drop 4) v n hu hpre
            have hnle : n ≤ (B'.drop 4).length := by
              have := congrArg List.length hpre
              simp only [List.length_take] at this
              omega
            unfold sizedOK at hs1 hs2
            rw [hu'] at hs1
            rw [hu] at hs2
            simp only [beq_iff_eq] at hs1 hs2
            omega


end GnoVerif.C38
