import GnoVerif.Proofs.C15Sig
/-! C15: assembling phases 1–3: accepted ⇒ signatures valid; the sequence effect. -/
namespace GnoVerif.C15

variable {π σ β : Type} [DecidableEq π]

/-! ### R3 bookkeeping -/

omit [DecidableEq π] in
theorem R3.mono {P Q : Addr → Sig π σ → Resolved π → Prop} (hPQ : ∀ a g r, P a g r → Q a g r)
    {as : List Addr} {gs : List (Sig π σ)} {rs : List (Resolved π)} (h : R3 P as gs rs) : R3 Q as gs rs := by
  induction h with
  | nil => exact .nil
  | cons hp _ ih => exact .cons (hPQ _ _ _ hp) ih

omit [DecidableEq π] in
theorem R3.of_left {P : Addr → Sig π σ → Resolved π → Prop}
    {as : List Addr} {gs : List (Sig π σ)} {rs : List (Resolved π)} (h : R3 P as gs rs)
    {a : Addr} {g : Sig π σ} (hm : (a, g) ∈ as.zip gs) : ∃ r, (r, g) ∈ rs.zip gs ∧ P a g r := by
  induction h with
  | nil => simp at hm
  | cons hp _ ih =>
    simp only [List.zip_cons_cons, List.mem_cons] at hm
    rcases hm with hm | hm
    · injection hm with h1 h2
      subst h1 h2
      exact ⟨_, by simp, hp⟩
    · obtain ⟨r, hr, hpr⟩ := ih hm
      exact ⟨r, by simp [hr], hpr⟩

omit [DecidableEq π] in
theorem R3.of_right {P : Addr → Sig π σ → Resolved π → Prop}
    {as : List Addr} {gs : List (Sig π σ)} {rs : List (Resolved π)} (h : R3 P as gs rs)
    {r : Resolved π} (hm : r ∈ rs) : ∃ a g, (a, g) ∈ as.zip gs ∧ (r, g) ∈ rs.zip gs ∧ P a g r := by
  induction h with
  | nil => simp at hm
  | cons hp _ ih =>
    simp only [List.mem_cons] at hm
    rcases hm with hm | hm
    · subst hm
      exact ⟨_, _, by simp, by simp, hp⟩
    · obtain ⟨a, g, h1, h2, h3⟩ := ih hm
      exact ⟨a, g, by simp [h1], by simp [h2], h3⟩

omit [DecidableEq π] in
theorem R3.addrs {P : Addr → Sig π σ → Resolved π → Prop} (hP : ∀ a g r, P a g r → r.addr = a)
    {as : List Addr} {gs : List (Sig π σ)} {rs : List (Resolved π)} (h : R3 P as gs rs) :
    rs.map (·.addr) = as := by
  induction h with
  | nil => rfl
  | cons hp _ ih => simp [hP _ _ _ hp, ih]

omit [DecidableEq π] in
theorem R3.cons_inv {P : Addr → Sig π σ → Resolved π → Prop}
    {as : List Addr} {gs : List (Sig π σ)} {r : Resolved π} {rs : List (Resolved π)}
    (h : R3 P as gs (r :: rs)) :
    ∃ a g as' gs', as = a :: as' ∧ gs = g :: gs' ∧ P a g r ∧ R3 P as' gs' rs := by
  cases h with
  | cons hp hr => exact ⟨_, _, _, _, rfl, rfl, hp, hr⟩

/-- phase 1's result up to the identity-preserving reload of phase 2 -/
def ResolvedFor' (s : State π) (a : Addr) (g : Sig π σ) (r : Resolved π) : Prop :=
  r.addr = a ∧ (∃ acc, s.accounts a = some acc ∧ r.acc.sameId acc) ∧
  (match g.session with
   | none => r.sess = none
   | some sa => ∃ ss ss', r.sess = some (sa, ss') ∧ s.sessions a sa = some ss ∧ ss'.sameId ss ∧
       ¬ (ss.expiresAt > 0 ∧ s.time ≥ ss.expiresAt))

omit [DecidableEq π] in
theorem ResolvedFor.weaken {s : State π} {a : Addr} {g : Sig π σ} {r : Resolved π}
    (h : ResolvedFor s a g r) : ResolvedFor' s a g r := by
  obtain ⟨h1, h2, h3⟩ := h
  refine ⟨h1, ⟨r.acc, h2, rfl, rfl, rfl⟩, ?_⟩
  cases hs : g.session with
  | none => simpa [hs] using h3
  | some sa =>
    simp only [hs] at h3 ⊢
    obtain ⟨ss, e1, e2, e3⟩ := h3
    exact ⟨ss, ss, e1, e2, ⟨rfl, rfl, rfl⟩, e3⟩

omit [DecidableEq π] in
theorem ResolvedFor'.sess_none {s : State π} {a : Addr} {g : Sig π σ} {r : Resolved π}
    (h : ResolvedFor' s a g r) : r.sess = none ↔ g.session = none := by
  obtain ⟨_, _, h3⟩ := h
  cases hs : g.session with
  | none => simpa [hs] using h3
  | some sa =>
    simp only [hs] at h3
    obtain ⟨ss, ss', e1, _⟩ := h3
    simp [e1]

/-- the resolved signers as phase 3 sees them -/
theorem ante_resolved (cr : Crypto π σ β) (cfg : Config) (s : State π) (tx : Tx π σ) (s' : State π)
    (h : AnteOk cr cfg s tx s') :
    ∃ r0 rs s1 r0', Phase2Ok cfg s r0 s1 r0' ∧
      R3 (ResolvedFor' s) (signersOf tx.msgs) tx.sigs (r0' :: rs) ∧
      ((s.height = 0 ∧ cfg.verifyGenesis = false ∧ s' = s1) ∨
       (¬ (s.height = 0 ∧ cfg.verifyGenesis = false) ∧
          Steps cr cfg (decide (s.height = 0)) tx s1 (r0' :: rs) tx.sigs s')) := by
  obtain ⟨r0, rs, s1, r0', hres, hp2, hrest⟩ := h.run
  have hR := resolveAll_ok s _ _ _ h.lenEq.symm hres
  obtain ⟨a, g, as, gs, eas, egs, hp, hR'⟩ := hR.cons_inv
  rw [eas, egs]
  have hlenEq := h.lenEq
  rw [eas, egs] at hlenEq
  rw [egs] at hrest
  · have hp2' := phase2_ok cfg s tx r0 s1 r0' (by rw [hp.1]; exact hp.2.1) hp2
    refine ⟨r0, rs, s1, r0', hp2', ?_, ?_⟩
    · refine .cons ?_ (hR'.mono fun _ _ _ h => h.weaken)
      have hw := hp.weaken
      obtain ⟨w1, ⟨acc, w2, w3⟩, w4⟩ := hw
      refine ⟨hp2'.addr.trans w1, ⟨acc, w2, ?_⟩, ?_⟩
      · exact ⟨hp2'.accId.1.trans w3.1, hp2'.accId.2.1.trans w3.2.1, hp2'.accId.2.2.trans w3.2.2⟩
      · cases hs : g.session with
        | none =>
          simp only [hs] at w4 ⊢
          rcases hp2'.sess with ⟨_, e⟩ | ⟨sa, ss, ss', e, _⟩
          · exact e
          · rw [w4] at e
            cases e
        | some sa =>
          simp only [hs] at w4 ⊢
          obtain ⟨ss, ss0, e1, e2, e3, e4⟩ := w4
          rcases hp2'.sess with ⟨e, _⟩ | ⟨sa', ss1, ss1', e, e', eid⟩
          · rw [e1] at e
            cases e
          · rw [e1] at e
            injection e with e
            injection e with ea eb
            subst ea eb
            exact ⟨ss, ss1', e', e2, ⟨eid.1.trans e3.1, eid.2.1.trans e3.2.1, eid.2.2.trans e3.2.2⟩, e4⟩
    · rcases hrest with hh | ⟨hh, hl⟩
      · exact .inl hh
      · refine .inr ⟨hh, sigLoop_steps cr cfg _ tx _ _ _ _ ?_ hl⟩
        have hlen : (r0 :: rs).length = (g :: gs).length := by
          have := R3.addrs (P := ResolvedFor s) (fun _ _ _ h => h.1) (.cons hp hR')
          have h2 := congrArg List.length this
          simp only [List.length_map] at h2
          omega
        simpa using hlen

/-! ### accepted ⇒ every signature is valid -/

theorem sigOk_of (cr : Crypto π σ β) (cfg : Config) (s : State π) (tx : Tx π σ) (a : Addr) (g : Sig π σ)
    (r : Resolved π) (pk : π) (hr : ResolvedFor' s a g r) (hs : StepOk cr cfg false tx r g pk) :
    SigOk cr cfg s tx a g := by
  obtain ⟨h1, ⟨acc, h2, hid⟩, h3⟩ := hr
  obtain ⟨hk, hv⟩ := hs
  unfold SigOk
  cases hsess : g.session with
  | none =>
    simp only [hsess] at h3 ⊢
    simp only [Resolved.stored, Resolved.accNum, Resolved.seq, h3, Option.isSome_none, docFor] at hk hv
    refine ⟨acc, pk, h2, ?_, ?_⟩
    · unfold resolvePubKey at hk
      rw [hid.2.2] at hk
      split at hk
      · cases hk
      · rename_i p hg hst
        injection hk with hk
        subst hk
        exact .inl hst
      · rename_i g' hg hst
        split at hk
        · cases hk
        rename_i hc
        injection hk with hk
        subst hk
        right
        refine ⟨hst, hg, ?_⟩
        simp at hc
        rw [hc, h1]
      · rename_i g' p hg hst
        split at hk
        · injection hk with hk
          subst hk
          exact .inl hst
        · cases hk
    · rw [← hid.1, ← hid.2.1]
      simpa using hv
  | some sa =>
    simp only [hsess] at h3 ⊢
    obtain ⟨ss, ss', e1, e2, eid, e4⟩ := h3
    simp only [Resolved.stored, Resolved.accNum, Resolved.seq, e1, Option.isSome_some, docFor] at hk hv
    refine ⟨acc, ss, pk, h2, e2, e4, ?_, ?_⟩
    · unfold resolvePubKey at hk
      rw [eid.2.2] at hk
      split at hk
      · cases hk
      · rename_i p hg hst
        injection hk with hk
        subst hk
        exact .inl hst
      · rename_i g' hg hst
        simp at hk
        subst hk
        exact .inr ⟨hst, hg⟩
      · rename_i g' p hg hst
        split at hk
        · injection hk with hk
          subst hk
          exact .inl hst
        · cases hk
    · rw [← eid.1, ← eid.2.1]
      simpa using hv

theorem forall2_sigOk (cr : Crypto π σ β) (cfg : Config) (s : State π) (tx : Tx π σ)
    {as : List Addr} {gs : List (Sig π σ)} {rs : List (Resolved π)} (hR : R3 (ResolvedFor' s) as gs rs) :
    ∀ {s1 s' : State π}, Steps cr cfg false tx s1 rs gs s' → All2 (SigOk cr cfg s tx) as gs := by
  induction hR with
  | nil => intro _ _ _; exact .nil
  | cons hp _ ih =>
    intro s1 s' hst
    cases hst with
    | cons hok hrest => exact .cons (sigOk_of cr cfg s tx _ _ _ _ hp hok) (ih hrest)

theorem ante_sigs_valid (cr : Crypto π σ β) (cfg : Config) (s : State π) (tx : Tx π σ) (s' : State π)
    (hh : s.height ≠ 0) (h : ante cr cfg s tx = .ok s') :
    All2 (SigOk cr cfg s tx) (signersOf tx.msgs) tx.sigs := by
  obtain ⟨r0, rs, s1, r0', _, hR, hrest⟩ := ante_resolved cr cfg s tx s' (ante_ok_inv cr cfg s tx s' h)
  rcases hrest with ⟨h0, _⟩ | ⟨_, hst⟩
  · exact absurd h0 hh
  · have : decide (s.height = 0) = false := by simp [hh]
    rw [this] at hst
    exact forall2_sigOk cr cfg s tx hR hst

end GnoVerif.C15
