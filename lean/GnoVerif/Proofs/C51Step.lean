import GnoVerif.Proofs.C51Ops
/-! Helper lemmas for C51: every operation, on a ledger satisfying the
    invariant and with an int64 amount, satisfies `StepOk`.  Core only. -/
namespace GnoVerif.C51
set_option linter.unusedVariables false
set_option linter.unusedSimpArgs false

theorem StepOk.of_err {L : Ledger} {op : Op} {e : Err} (h : Inv L)
    (hs : step L op = (L, .err e)) : StepOk L op := by
  unfold StepOk
  rw [hs]
  exact ⟨h, by simp, fun _ => rfl, by simp⟩

theorem StepOk.of_ok {L L' : Ledger} {op : Op} (hs : step L op = (L', .ok))
    (hinv : Inv L') (heff : Effect L op L') : StepOk L op := by
  unfold StepOk
  rw [hs]
  exact ⟨hinv, by simp, by simp, fun _ => heff⟩

/-! ### success branches -/

theorem mint_ok_inv {L : Ledger} (h : Inv L) {a : Addr} {n : Int} (hv : a.valid = true)
    (h0 : 0 ≤ n) (hroom : n ≤ maxInt64 - L.totalSupply) :
    Inv { L with totalSupply := L.totalSupply + n, balances := set L.balances a (balanceOf L a + n) } := by
  have hb0 := h.bal_nonneg a
  refine ⟨keys_set_nodup _ _ h.balKeys, h.alwKeys, ?_, ?_, h.alwRange, h.alwValid, ?_, ?_⟩
  · intro e he
    rcases mem_set.1 he with he | he
    · subst he; show 0 ≤ balanceOf L a + n; omega
    · exact h.balNonneg e he.1
  · intro e he
    rcases mem_set.1 he with he | he
    · subst he; exact hv
    · exact h.balValid e he.1
  · show L.totalSupply + n = total (set L.balances a (balanceOf L a + n))
    rw [total_set _ _ h.balKeys, h.supplySum]
    show total L.balances + n = total L.balances - getD0 L.balances a + (getD0 L.balances a + n)
    omega
  · show L.totalSupply + n ≤ maxInt64; omega

theorem mint_stepOk {L : Ledger} (h : Inv L) (a : Addr) {n : Int} (hn : isI64 n) :
    StepOk L (.mint a n) := by
  have hnf := mint_nf h a hn
  by_cases hv : a.valid = true
  · by_cases hneg : n < 0
    · exact StepOk.of_err h (e := .invalidAmount) (by simp [step, hnf, hv, hneg])
    · by_cases hov : n > maxInt64 - L.totalSupply
      · exact StepOk.of_err h (e := .mintOverflow) (by simp [step, hnf, hv, hneg, hov])
      · refine StepOk.of_ok
          (L' := { L with totalSupply := L.totalSupply + n, balances := set L.balances a (balanceOf L a + n) })
          (by simp [step, hnf, hv, hneg, hov])
          (mint_ok_inv h hv (by omega) (by omega)) ?_
        refine ⟨by omega, rfl, ?_, ?_, fun _ _ => rfl⟩
        · exact getD0_set_self _ _ _
        · intro c hc _; exact getD0_set_ne _ _ hc
  · exact StepOk.of_err h (e := .invalidAddress) (by simp [step, hnf, hv])

theorem burn_ok_inv {L : Ledger} (h : Inv L) {a : Addr} {n : Int} (hv : a.valid = true)
    (h0 : 0 ≤ n) (hle : n ≤ balanceOf L a) :
    Inv { L with totalSupply := L.totalSupply - n, balances := put L.balances a (balanceOf L a - n) } := by
  have hmax := h.supplyMax
  refine ⟨keys_put_nodup _ _ h.balKeys, h.alwKeys, ?_, ?_, h.alwRange, h.alwValid, ?_, ?_⟩
  · intro e he
    rcases mem_put he with he | he
    · subst he; show 0 ≤ balanceOf L a - n; omega
    · exact h.balNonneg e he.1
  · intro e he
    rcases mem_put he with he | he
    · subst he; exact hv
    · exact h.balValid e he.1
  · show L.totalSupply - n = total (put L.balances a (balanceOf L a - n))
    rw [total_put _ _ h.balKeys, h.supplySum]
    show total L.balances - n = total L.balances - getD0 L.balances a + (getD0 L.balances a - n)
    omega
  · show L.totalSupply - n ≤ maxInt64; omega

theorem burn_stepOk {L : Ledger} (h : Inv L) (a : Addr) {n : Int} (hn : isI64 n) :
    StepOk L (.burn a n) := by
  have hnf := burn_nf h a hn
  by_cases hv : a.valid = true
  · by_cases hneg : n < 0
    · exact StepOk.of_err h (e := .invalidAmount) (by simp [step, hnf, hv, hneg])
    · by_cases hlt : balanceOf L a < n
      · exact StepOk.of_err h (e := .insufficientBalance) (by simp [step, hnf, hv, hneg, hlt])
      · refine StepOk.of_ok
          (L' := { L with totalSupply := L.totalSupply - n, balances := put L.balances a (balanceOf L a - n) })
          (by simp [step, hnf, hv, hneg, hlt])
          (burn_ok_inv h hv (by omega) (by omega)) ?_
        refine ⟨by omega, by omega, rfl, ?_, ?_, fun _ _ => rfl⟩
        · exact getD0_put_self _ _ _
        · intro c hc _; exact getD0_put_ne _ _ hc
  · exact StepOk.of_err h (e := .invalidAddress) (by simp [step, hnf, hv])

/-- the successful branch of `Transfer` -/
theorem transfer_ok {L : Ledger} (h : Inv L) {f t : Addr} {n : Int} (hn : isI64 n)
    (hvf : f.valid = true) (hvt : t.valid = true) (hft : f ≠ t) (h0 : 0 ≤ n) (hle : n ≤ balanceOf L f) :
    ∃ L', transfer L f t n = (L', .ok) ∧ Inv L' ∧ Moves L L' f t n ∧
      L'.allowances = L.allowances := by
  have hnf := transfer_nf h f t hn
  have hbt0 := h.bal_nonneg t
  have hbf : getD0 (set L.balances t (balanceOf L t + n)) f = balanceOf L f := getD0_set_ne _ _ hft
  have hk1 : (keys (set L.balances t (balanceOf L t + n))).Nodup := keys_set_nodup _ _ h.balKeys
  have htot : total (put (set L.balances t (balanceOf L t + n)) f (balanceOf L f - n)) = total L.balances := by
    rw [total_put _ _ hk1, hbf, total_set _ _ h.balKeys]
    show total L.balances - getD0 L.balances t + (getD0 L.balances t + n) - getD0 L.balances f
      + (getD0 L.balances f - n) = total L.balances
    omega
  refine ⟨{ L with balances := put (set L.balances t (balanceOf L t + n)) f (balanceOf L f - n) },
    by simp [hnf, hvf, hvt, hft, show ¬ n < 0 by omega, show ¬ balanceOf L f < n by omega], ?_, ?_, rfl⟩
  · refine ⟨keys_put_nodup _ _ hk1, h.alwKeys, ?_, ?_, h.alwRange, h.alwValid, ?_, h.supplyMax⟩
    · intro e he
      rcases mem_put he with he | he
      · subst he; show 0 ≤ balanceOf L f - n; omega
      · rcases mem_set.1 he.1 with he' | he'
        · subst he'; show 0 ≤ balanceOf L t + n; omega
        · exact h.balNonneg e he'.1
    · intro e he
      rcases mem_put he with he | he
      · subst he; exact hvf
      · rcases mem_set.1 he.1 with he' | he'
        · subst he'; exact hvt
        · exact h.balValid e he'.1
    · show L.totalSupply = total _
      rw [htot]; exact h.supplySum
  · refine ⟨hft, h0, hle, rfl, htot, ?_, ?_, ?_⟩
    · exact getD0_put_self _ _ _
    · show getD0 (put _ f _) t = _
      rw [getD0_put_ne _ _ (fun e => hft e.symm)]
      exact getD0_set_self _ _ _
    · intro c hcf hct
      show getD0 (put _ f _) c = _
      rw [getD0_put_ne _ _ hcf]
      exact getD0_set_ne _ _ hct

theorem transfer_stepOk {L : Ledger} (h : Inv L) (f t : Addr) {n : Int} (hn : isI64 n) :
    StepOk L (.transfer f t n) := by
  have hnf := transfer_nf h f t hn
  by_cases hvf : f.valid = true
  · by_cases hvt : t.valid = true
    · by_cases hft : f = t
      · subst hft
        exact StepOk.of_err h (e := .cannotTransferToSelf) (by simp [step, hnf, hvf])
      · by_cases hneg : n < 0
        · exact StepOk.of_err h (e := .invalidAmount) (by simp [step, hnf, hvf, hvt, hft, hneg])
        · by_cases hlt : balanceOf L f < n
          · exact StepOk.of_err h (e := .insufficientBalance) (by simp [step, hnf, hvf, hvt, hft, hneg, hlt])
          · obtain ⟨L', hs, hinv, hmov, halw⟩ := transfer_ok h hn hvf hvt hft (by omega) (by omega)
            exact StepOk.of_ok (L' := L') (by simpa [step] using hs) hinv
              ⟨hmov, fun o s => by unfold allowance; rw [halw]⟩
    · exact StepOk.of_err h (e := .invalidAddress) (by simp [step, hnf, hvf, hvt])
  · exact StepOk.of_err h (e := .invalidAddress) (by simp [step, hnf, hvf])

theorem approve_stepOk {L : Ledger} (h : Inv L) (o s : Addr) {n : Int} (hn : isI64 n) :
    StepOk L (.approve o s n) := by
  have hnf := approve_nf L o s n
  by_cases hv : (!o.valid || !s.valid) = true
  · exact StepOk.of_err h (e := .invalidAddress) (by simp only [step, hnf, hv, ite_true])
  · by_cases hneg : n < 0
    · exact StepOk.of_err h (e := .invalidAmount) (by simp only [step, hnf, hv, hneg, ite_true]; rfl)
    · have hvo : o.valid = true ∧ s.valid = true := by
        cases ho : o.valid <;> cases hs : s.valid <;> simp [ho, hs] at hv ⊢
      refine StepOk.of_ok (L' := { L with allowances := set L.allowances (o, s) n })
        (by simp only [step, hnf, hv, hneg]; rfl) ?_ ?_
      · refine ⟨h.balKeys, keys_set_nodup _ _ h.alwKeys, h.balNonneg, h.balValid, ?_, ?_, h.supplySum, h.supplyMax⟩
        · intro e he
          rcases mem_set.1 he with he | he
          · subst he
            unfold isI64 at hn
            exact ⟨by show 0 ≤ n; omega, hn.2⟩
          · exact h.alwRange e he.1
        · intro e he
          rcases mem_set.1 he with he | he
          · subst he; exact hvo
          · exact h.alwValid e he.1
      · refine ⟨by omega, ⟨rfl, fun _ => rfl⟩, getD0_set_self _ _ _, ?_⟩
        intro o' s' hne
        exact getD0_set_ne _ _ hne

/-- the outcome of `SpendAllowance`: an error with the ledger untouched, or success with
exactly the allowance `(o, s)` lowered by `n` -/
theorem spend_res {L : Ledger} (h : Inv L) (o s : Addr) {n : Int} (hn : isI64 n) :
    (∃ e, spendAllowance L o s n = (L, .err e)) ∨
    (∃ L', spendAllowance L o s n = (L', .ok) ∧ Inv L' ∧ 0 ≤ n ∧ n ≤ allowance L o s ∧
      L'.totalSupply = L.totalSupply ∧ L'.balances = L.balances ∧
      allowance L' o s = allowance L o s - n ∧ allowancesSameExcept L L' o s) := by
  have hnf := spendAllowance_nf h o s hn
  have hr := h.alw_range o s
  by_cases hv : (!o.valid || !s.valid) = true
  · exact Or.inl ⟨.invalidAddress, by simp only [hnf, hv, ite_true]⟩
  · by_cases hneg : n < 0
    · exact Or.inl ⟨.invalidAmount, by simp only [hnf, hv, hneg, ite_true]; rfl⟩
    · by_cases hz : n = 0
      · subst hz
        refine Or.inr ⟨L, by simp [hnf, hv], h, by omega, by omega, rfl, rfl,
          by omega, fun _ _ _ => rfl⟩
      · by_cases hlt : allowance L o s < n
        · exact Or.inl ⟨.insufficientAllowance, by simp only [hnf, hv, hneg, hz, hlt, ite_true]; rfl⟩
        · have hvo : o.valid = true ∧ s.valid = true := by
            cases ho : o.valid <;> cases hs : s.valid <;> simp [ho, hs] at hv ⊢
          refine Or.inr ⟨{ L with allowances := put L.allowances (o, s) (allowance L o s - n) },
            by simp only [hnf, hv, hneg, hz, hlt]; rfl, ?_, by omega, by omega, rfl, rfl,
            getD0_put_self _ _ _, ?_⟩
          · refine ⟨h.balKeys, keys_put_nodup _ _ h.alwKeys, h.balNonneg, h.balValid, ?_, ?_,
              h.supplySum, h.supplyMax⟩
            · intro e he
              rcases mem_put he with he | he
              · subst he
                exact ⟨by show 0 ≤ allowance L o s - n; omega, by show allowance L o s - n ≤ maxInt64; omega⟩
              · exact h.alwRange e he.1
            · intro e he
              rcases mem_put he with he | he
              · subst he; exact hvo
              · exact h.alwValid e he.1
          · intro o' s' hne
            exact getD0_put_ne _ _ hne

theorem spend_stepOk {L : Ledger} (h : Inv L) (o s : Addr) {n : Int} (hn : isI64 n) :
    StepOk L (.spendAllowance o s n) := by
  rcases spend_res h o s hn with ⟨e, he⟩ | ⟨L', hs, hinv, h0, hle, hts, hbal, halw, hsame⟩
  · exact StepOk.of_err h (e := e) (by simpa [step] using he)
  · refine StepOk.of_ok (L' := L') (by simpa [step] using hs) hinv ?_
    exact ⟨h0, hle, ⟨hts, fun c => by unfold balanceOf; rw [hbal]⟩, halw, hsame⟩

theorem transferFrom_stepOk {L : Ledger} (h : Inv L) (o s t : Addr) {n : Int} (hn : isI64 n) :
    StepOk L (.transferFrom o s t n) := by
  by_cases hneg : n < 0
  · exact StepOk.of_err h (e := .invalidAmount) (by simp [step, transferFrom, hneg])
  · by_cases hv : (!o.valid || !t.valid) = true
    · exact StepOk.of_err h (e := .invalidAddress) (by simp only [step, transferFrom, hneg, hv, ite_true]; rfl)
    · have hvo : o.valid = true ∧ t.valid = true := by
        cases ho : o.valid <;> cases ht : t.valid <;> simp [ho, ht] at hv ⊢
      by_cases hot : o = t
      · subst hot
        exact StepOk.of_err h (e := .cannotTransferToSelf) (by simp [step, transferFrom, hneg, hvo.1])
      · by_cases hlt : balanceOf L o < n
        · exact StepOk.of_err h (e := .insufficientBalance)
            (by simp only [step, transferFrom, hneg, hv, hot, hlt, ite_true]; rfl)
        · have hdef : transferFrom L o s t n =
              (match spendAllowance L o s n with
               | (L1, .ok) => transfer L1 o t n
               | r => r) := by
            simp only [transferFrom, hneg, hv, hot, hlt]; rfl
          rcases spend_res h o s hn with ⟨e, he⟩ | ⟨L1, hs, hinv1, h0, hle, hts, hbal, halw, hsame⟩
          · exact StepOk.of_err h (e := e) (by simp only [step, hdef, he])
          · have hb1 : ∀ c, balanceOf L1 c = balanceOf L c := fun c => by unfold balanceOf; rw [hbal]
            obtain ⟨L', ht, hinv', hmov, halw'⟩ :=
              transfer_ok hinv1 hn hvo.1 hvo.2 hot h0 (by rw [hb1]; omega)
            refine StepOk.of_ok (L' := L') (by simp only [step, hdef, hs, ht]) hinv' ?_
            have ha' : ∀ a b, allowance L' a b = allowance L1 a b := fun a b => by
              unfold allowance; rw [halw']
            obtain ⟨m1, m2, m3, m4, m5, m6, m7, m8⟩ := hmov
            refine ⟨⟨m1, m2, by rw [← hb1]; exact m3, by rw [m4, hts], ?_, by rw [m6, hb1], by rw [m7, hb1], ?_⟩,
              hle, by rw [ha', halw], ?_⟩
            · rw [m5]; unfold sumBalances; rw [hbal]
            · intro c hc1 hc2; rw [m8 c hc1 hc2, hb1]
            · intro o' s' hne; rw [ha', hsame o' s' hne]

/-- every operation keeps the statement on a ledger satisfying the invariant -/
theorem stepOk {L : Ledger} (h : Inv L) (op : Op) (hw : op.wf) : StepOk L op := by
  cases op with
  | mint a n => exact mint_stepOk h a hw
  | burn a n => exact burn_stepOk h a hw
  | transfer f t n => exact transfer_stepOk h f t hw
  | approve o s n => exact approve_stepOk h o s hw
  | transferFrom o s t n => exact transferFrom_stepOk h o s t hw
  | spendAllowance o s n => exact spend_stepOk h o s hw

theorem run_inv {L : Ledger} (h : Inv L) (ops : List Op) (hw : ∀ o ∈ ops, o.wf) : Inv (run L ops) := by
  induction ops generalizing L with
  | nil => exact h
  | cons op ops ih =>
    have := stepOk h op (hw op (by simp))
    exact ih this.1 (fun o ho => hw o (List.mem_cons_of_mem _ ho))

end GnoVerif.C51
