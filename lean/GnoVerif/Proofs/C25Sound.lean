import GnoVerif.Proofs.C25Tree
/-!
Helper definitions and lemmas for C25: completeness, soundness and binding at
the tree level, with EXPLICIT collision extraction.

Collision resistance is never assumed.  Since every fixed-size `H` has
collisions, a disjunct "∃ collision" would be vacuous; instead the functions
`collide` / `collide2` COMPUTE a specific pair of byte strings from the data
at hand, and the lemmas say: either the claimed conclusion holds, or that very
pair is a collision of `H`.
-/
namespace GnoVerif.C25

/-- `(x, y)` is a collision of `H` -/
def IsCollision (H : Bytes → Bytes) (xy : Bytes × Bytes) : Prop := xy.1 ≠ xy.2 ∧ H xy.1 = H xy.2

instance (H : Bytes → Bytes) (xy : Bytes × Bytes) : Decidable (IsCollision H xy) := by
  unfold IsCollision; infer_instance

/-! ### completeness -/

theorem complete_tree (H : Bytes → Bytes) : ∀ (t : Tree) (p : List Bool) (x : Bytes), t.leafAt p = some x →
    chfaPath H p (some (leafHash H x)) (t.auntsRev H p) = some (t.hash H) := by
  intro t
  induction t with
  | leaf y =>
    intro p x h
    cases p with
    | nil => simp [Tree.leafAt] at h; subst h; simp [chfaPath, Tree.auntsRev, Tree.hash]
    | cons d ds => simp [Tree.leafAt] at h
  | node l r ihl ihr =>
    intro p x h
    cases p with
    | nil => simp [Tree.leafAt] at h
    | cons d ds =>
      cases d with
      | false =>
        rw [Tree.leafAt] at h
        simp [Tree.auntsRev, chfaPath, ihl ds x h, Tree.hash]
      | true =>
        rw [Tree.leafAt] at h
        simp [Tree.auntsRev, chfaPath, ihr ds x h, Tree.hash]

/-- the number of aunts of a leaf path is the path length -/
theorem auntsRev_length (H : Bytes → Bytes) : ∀ (t : Tree) (p : List Bool) (x : Bytes), t.leafAt p = some x →
    (t.auntsRev H p).length = p.length := by
  intro t
  induction t with
  | leaf y => intro p x h; cases p <;> simp [Tree.leafAt, Tree.auntsRev] at *
  | node l r ihl ihr =>
    intro p x h
    cases p with
    | nil => simp [Tree.leafAt] at h
    | cons d ds =>
      cases d <;> rw [Tree.leafAt] at h <;> simp [Tree.auntsRev]
      · exact ihl ds x h
      · exact ihr ds x h

/-! ### sizes -/

theorem chfaPath_len {H : Bytes → Bytes} {sz : Nat} (hsz : ∀ x, (H x).length = sz) :
    ∀ (p : List Bool) (lh : Bytes) (ra : List Bytes) (h : Bytes), lh.length = sz →
      chfaPath H p (some lh) ra = some h → h.length = sz := by
  intro p
  induction p with
  | nil =>
    intro lh ra h hl hc
    cases ra with
    | nil => simp [chfaPath] at hc; subst hc; exact hl
    | cons a rest => simp [chfaPath] at hc
  | cons d ds ih =>
    intro lh ra h hl hc
    cases ra with
    | nil => simp [chfaPath] at hc
    | cons a rest =>
      rw [chfaPath] at hc
      cases hr : chfaPath H ds (some lh) rest with
      | none => rw [hr] at hc; simp at hc
      | some h' =>
        rw [hr] at hc
        simp only [Option.some.injEq] at hc
        subst hc
        cases d <;> simp [innerHash, hsz]

theorem tree_hash_len {H : Bytes → Bytes} {sz : Nat} (hsz : ∀ x, (H x).length = sz) (t : Tree) :
    (t.hash H).length = sz := by
  rw [Tree.hash_eq_preimage]; exact hsz _

/-! ### soundness with collision extraction -/

/-- Walk the claimed path down the real tree, comparing at every level the
preimage the verifier hashed with the preimage the tree hashed; return the
first pair that differs.  (If nothing differs down to a leaf, the pair is
`(0 :: leaf, 0 :: item)`.) -/
def collide (H : Bytes → Bytes) : Tree → List Bool → Bytes → List Bytes → Bytes × Bytes
  | .node l r, d :: ds, leaf, a :: rest =>
    let h := (chfaPath H ds (some (leafHash H leaf)) rest).getD []
    let X : Bytes := 1 :: (if d then a ++ h else h ++ a)
    let Y : Bytes := 1 :: (l.hash H ++ r.hash H)
    if X = Y then collide H (if d then r else l) ds leaf rest else (X, Y)
  | .leaf x, d :: ds, leaf, a :: rest =>
    let h := (chfaPath H ds (some (leafHash H leaf)) rest).getD []
    (1 :: (if d then a ++ h else h ++ a), 0 :: x)
  | t, _, leaf, _ => (0 :: leaf, t.preimage H)

theorem sound_tree {H : Bytes → Bytes} {sz : Nat} (hsz : ∀ x, (H x).length = sz) :
    ∀ (t : Tree) (p : List Bool) (leaf : Bytes) (ra : List Bytes),
      chfaPath H p (some (leafHash H leaf)) ra = some (t.hash H) →
      t.leafAt p = some leaf ∨ IsCollision H (collide H t p leaf ra) := by
  intro t
  induction t with
  | leaf x =>
    intro p leaf ra hc
    cases p with
    | nil =>
      cases ra with
      | cons a rest => simp [chfaPath] at hc
      | nil =>
        simp only [chfaPath, Option.some.injEq, Tree.hash, leafHash] at hc
        by_cases hx : leaf = x
        · left; subst hx; rfl
        · right
          refine ⟨?_, ?_⟩
          · simp [collide, Tree.preimage, hx]
          · simpa [collide, Tree.preimage] using hc
    | cons d ds =>
      cases ra with
      | nil => simp [chfaPath] at hc
      | cons a rest =>
        right
        rw [chfaPath] at hc
        cases hr : chfaPath H ds (some (leafHash H leaf)) rest with
        | none => rw [hr] at hc; simp at hc
        | some h' =>
          rw [hr] at hc
          simp only [Option.some.injEq, Tree.hash, leafHash] at hc
          refine ⟨?_, ?_⟩
          · simp [collide]
          · cases d <;> simpa [collide, hr, innerHash] using hc
  | node l r ihl ihr =>
    intro p leaf ra hc
    cases p with
    | nil =>
      cases ra with
      | cons a rest => simp [chfaPath] at hc
      | nil =>
        right
        simp only [chfaPath, Option.some.injEq, Tree.hash, leafHash, innerHash] at hc
        refine ⟨?_, ?_⟩
        · simp [collide, Tree.preimage]
        · simpa [collide, Tree.preimage] using hc
    | cons d ds =>
      cases ra with
      | nil => simp [chfaPath] at hc
      | cons a rest =>
        rw [chfaPath] at hc
        cases hr : chfaPath H ds (some (leafHash H leaf)) rest with
        | none => rw [hr] at hc; simp at hc
        | some h' =>
          rw [hr] at hc
          have hl' : h'.length = sz := chfaPath_len hsz ds _ rest h' (by simp [leafHash, hsz]) hr
          have hll : (l.hash H).length = sz := tree_hash_len hsz l
          have hrl : (r.hash H).length = sz := tree_hash_len hsz r
          simp only [Option.some.injEq, Tree.hash, innerHash] at hc
          cases d with
          | false =>
            simp only [Bool.false_eq_true, if_false] at hc
            by_cases hxy : (1 :: (h' ++ a) : Bytes) = 1 :: (l.hash H ++ r.hash H)
            · have happ : h' ++ a = l.hash H ++ r.hash H := by simpa using hxy
              have hinj := List.append_inj happ (by omega)
              rw [hinj.1] at hr
              rcases ihl ds leaf rest hr with h | h
              · left; rw [Tree.leafAt]; exact h
              · right
                simpa [collide, hr, hinj.2] using h
            · right
              refine ⟨?_, ?_⟩
              · simp [collide, hr, hxy]
              · simp [collide, hr, hxy, hc]
          | true =>
            simp only [if_true] at hc
            by_cases hxy : (1 :: (a ++ h') : Bytes) = 1 :: (l.hash H ++ r.hash H)
            · have happ : a ++ h' = l.hash H ++ r.hash H := by simpa using hxy
              have hinj := List.append_inj' happ (by omega)
              rw [hinj.2] at hr
              rcases ihr ds leaf rest hr with h | h
              · left; rw [Tree.leafAt]; exact h
              · right
                simpa [collide, hr, hinj.1] using h
            · right
              refine ⟨?_, ?_⟩
              · simp [collide, hr, hxy]
              · simp [collide, hr, hxy, hc]

/-- on an honest walk the extractor finds nothing: it returns the pair
`(0 :: x, 0 :: x)`, which is not a collision -/
theorem collide_complete (H : Bytes → Bytes) : ∀ (t : Tree) (p : List Bool) (x : Bytes), t.leafAt p = some x →
    collide H t p x (t.auntsRev H p) = (0 :: x, 0 :: x) := by
  intro t
  induction t with
  | leaf y =>
    intro p x h
    cases p with
    | nil => simp [Tree.leafAt] at h; subst h; simp [collide, Tree.preimage]
    | cons d ds => simp [Tree.leafAt] at h
  | node l r ihl ihr =>
    intro p x h
    cases p with
    | nil => simp [Tree.leafAt] at h
    | cons d ds =>
      cases d with
      | false =>
        rw [Tree.leafAt] at h
        simp [Tree.auntsRev, collide, complete_tree H l ds x h, ihl ds x h]
      | true =>
        rw [Tree.leafAt] at h
        simp [Tree.auntsRev, collide, complete_tree H r ds x h, ihr ds x h]

/-! ### binding: two proofs for the same position and root -/

/-- Walk two proofs for the same turn sequence in parallel (from the root) and
return the first pair of differing preimages. -/
def collide2 (H : Bytes → Bytes) : List Bool → Bytes → Bytes → List Bytes → List Bytes → Bytes × Bytes
  | d :: ds, lf1, lf2, a1 :: r1, a2 :: r2 =>
    let h1 := (chfaPath H ds (some (leafHash H lf1)) r1).getD []
    let h2 := (chfaPath H ds (some (leafHash H lf2)) r2).getD []
    let X1 : Bytes := 1 :: (if d then a1 ++ h1 else h1 ++ a1)
    let X2 : Bytes := 1 :: (if d then a2 ++ h2 else h2 ++ a2)
    if X1 = X2 then collide2 H ds lf1 lf2 r1 r2 else (X1, X2)
  | _, lf1, lf2, _, _ => (0 :: lf1, 0 :: lf2)

theorem binding_path {H : Bytes → Bytes} {sz : Nat} (hsz : ∀ x, (H x).length = sz) :
    ∀ (p : List Bool) (lf1 lf2 : Bytes) (ra1 ra2 : List Bytes) (h : Bytes),
      chfaPath H p (some (leafHash H lf1)) ra1 = some h →
      chfaPath H p (some (leafHash H lf2)) ra2 = some h →
      (lf1 = lf2 ∧ ra1 = ra2) ∨ IsCollision H (collide2 H p lf1 lf2 ra1 ra2) := by
  intro p
  induction p with
  | nil =>
    intro lf1 lf2 ra1 ra2 h h1 h2
    cases ra1 with
    | cons a r => simp [chfaPath] at h1
    | nil =>
      cases ra2 with
      | cons a r => simp [chfaPath] at h2
      | nil =>
        simp only [chfaPath, Option.some.injEq, leafHash] at h1 h2
        by_cases hx : lf1 = lf2
        · left; exact ⟨hx, rfl⟩
        · right; exact ⟨by simp [collide2, hx], by simp [collide2, h1, h2]⟩
  | cons d ds ih =>
    intro lf1 lf2 ra1 ra2 h h1 h2
    cases ra1 with
    | nil => simp [chfaPath] at h1
    | cons a1 r1 =>
      cases ra2 with
      | nil => simp [chfaPath] at h2
      | cons a2 r2 =>
        rw [chfaPath] at h1 h2
        cases hr1 : chfaPath H ds (some (leafHash H lf1)) r1 with
        | none => rw [hr1] at h1; simp at h1
        | some g1 =>
          cases hr2 : chfaPath H ds (some (leafHash H lf2)) r2 with
          | none => rw [hr2] at h2; simp at h2
          | some g2 =>
            rw [hr1] at h1; rw [hr2] at h2
            have hl1 : g1.length = sz := chfaPath_len hsz ds _ r1 g1 (by simp [leafHash, hsz]) hr1
            have hl2 : g2.length = sz := chfaPath_len hsz ds _ r2 g2 (by simp [leafHash, hsz]) hr2
            simp only [Option.some.injEq, innerHash] at h1 h2
            cases d with
            | false =>
              simp only [Bool.false_eq_true, if_false] at h1 h2
              by_cases hxy : (1 :: (g1 ++ a1) : Bytes) = 1 :: (g2 ++ a2)
              · have happ : g1 ++ a1 = g2 ++ a2 := by simpa using hxy
                have := List.append_inj happ (by omega)
                rw [← this.1] at hr2
                rcases ih lf1 lf2 r1 r2 g1 hr1 hr2 with h' | h'
                · left; exact ⟨h'.1, by rw [this.2, h'.2]⟩
                · right; simpa [collide2, hr1, hr2, this.2] using h'
              · right
                refine ⟨?_, ?_⟩
                · simp [collide2, hr1, hr2, hxy]
                · simp [collide2, hr1, hr2, hxy, h1, h2]
            | true =>
              simp only [if_true] at h1 h2
              by_cases hxy : (1 :: (a1 ++ g1) : Bytes) = 1 :: (a2 ++ g2)
              · have happ : a1 ++ g1 = a2 ++ g2 := by simpa using hxy
                have := List.append_inj' happ (by omega)
                rw [← this.2] at hr2
                rcases ih lf1 lf2 r1 r2 g1 hr1 hr2 with h' | h'
                · left; exact ⟨h'.1, by rw [this.1, h'.2]⟩
                · right; simpa [collide2, hr1, hr2, this.1] using h'
              · right
                refine ⟨?_, ?_⟩
                · simp [collide2, hr1, hr2, hxy]
                · simp [collide2, hr1, hr2, hxy, h1, h2]

end GnoVerif.C25
