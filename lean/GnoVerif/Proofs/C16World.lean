import GnoVerif.Proofs.C16Spend
/-! Helper lemmas for C16: the session table and the bank primitives on the world. -/
namespace GnoVerif.C16

/-! ### session table -/

theorem lookup_setSess (l : List (SessKey × Session)) (key key' : SessKey) (s : Session) :
    lookupSess (setSess l key s) key' = if key' = key then some s else lookupSess l key' := by
  induction l with
  | nil =>
    by_cases h : key' = key
    · subst h; simp [setSess, lookupSess]
    · have h' : ¬ key = key' := fun e => h e.symm
      simp [setSess, lookupSess, h, h']
  | cons p r ih =>
    obtain ⟨k0, x⟩ := p
    by_cases hk : k0 = key
    · subst hk
      by_cases h : key' = k0
      · subst h; simp [setSess, lookupSess]
      · have h' : ¬ k0 = key' := fun e => h e.symm
        simp [setSess, lookupSess, h, h']
    · by_cases h0 : k0 = key'
      · subst h0; simp [setSess, lookupSess, hk]
      · simp [setSess, lookupSess, hk, h0, ih]

theorem lookup_filter (l : List (SessKey × Session)) (p : SessKey → Bool) (key : SessKey) :
    lookupSess (l.filter fun x => p x.1) key = if p key then lookupSess l key else none := by
  induction l with
  | nil => simp [lookupSess]
  | cons x r ih =>
    obtain ⟨k0, s0⟩ := x
    by_cases hp : p k0 = true
    · by_cases h0 : k0 = key
      · subst h0; simp [hp, lookupSess]
      · simp [hp, lookupSess, h0, ih]
    · have hp' : p k0 = false := by simpa using hp
      by_cases h0 : k0 = key
      · subst h0; simp [hp', ih]
      · simp [hp', lookupSess, h0, ih]

theorem lookup_eraseSess (l : List (SessKey × Session)) (key key' : SessKey) :
    lookupSess (eraseSess l key) key' = if key' = key then none else lookupSess l key' := by
  unfold eraseSess
  rw [lookup_filter l (fun x => !(x == key)) key']
  by_cases h : key' = key
  · simp [h]
  · have : (key' == key) = false := by simpa using h
    simp [h, this]

theorem lookup_filter_master (l : List (SessKey × Session)) (src : Nat) (key : SessKey) :
    lookupSess (l.filter fun p => !(p.1.1 == src)) key = if key.1 = src then none else lookupSess l key := by
  rw [lookup_filter l (fun x => !(x.1 == src)) key]
  by_cases h : key.1 = src
  · simp [h]
  · have : (key.1 == src) = false := by simpa using h
    simp [h, this]

/-! ### bank primitives -/

theorem debit_spec {w w' : World} {a : Acct} {amt : Coins} (h : debit w a amt = .ok w') :
    validCoins amt = true ∧ w'.now = w.now ∧ w'.sess = w.sess ∧ w'.sink = w.sink ∧ w'.exist = w.exist ∧
    ∀ x d, w'.bal x d = if x = a then w.bal x d - amountOf amt d else w.bal x d := by
  unfold debit at h
  split at h
  · cases h
  · rename_i hv
    split at h
    · cases h
    · cases h
      refine ⟨by simpa using hv, rfl, rfl, rfl, rfl, fun x d => ?_⟩
      by_cases hx : x = a <;> simp [hx]

theorem credit_spec {w w' : World} {to : Option Acct} {amt : Coins} (h : credit w to amt = .ok w') :
    validCoins amt = true ∧ w'.now = w.now ∧ w'.sess = w.sess ∧ w'.sink = w.sink ∧
    ∀ x d, w'.bal x d = if some x = to then w.bal x d + amountOf amt d else w.bal x d := by
  unfold credit at h
  split at h
  · cases h
  · rename_i hv
    have hv' : validCoins amt = true := by simpa using hv
    split at h
    · cases h; exact ⟨hv', rfl, rfl, rfl, fun x d => by simp⟩
    · rename_i a
      split at h
      · cases h
      · cases h
        refine ⟨hv', rfl, rfl, rfl, fun x d => ?_⟩
        by_cases hx : x = a <;> simp [hx]

/-- the hook either does nothing or runs `DeductSessionSpend` on the session the account signed through -/
theorem hookDeduct_spec {auth : List (Nat × Nat)} {w w' : World} {a : Acct} {amt : Coins}
    (h : hookDeduct auth w a amt = .ok w') :
    w' = w ∨ ∃ i k s s', a = .m i ∧ auth.lookup i = some k ∧ lookupSess w.sess (i, k) = some s ∧
      deductSessionSpend s amt w.now = .ok s' ∧ w' = { w with sess := setSess w.sess (i, k) s' } := by
  unfold hookDeduct at h
  split at h
  · rename_i i
    split at h
    · cases h; exact Or.inl rfl
    · rename_i k hk
      split at h
      · cases h; exact Or.inl rfl
      · rename_i s hs
        split at h
        · cases h
        · rename_i s' hd
          cases h
          exact Or.inr ⟨i, k, s, s', rfl, hk, hs, hd, rfl⟩
  · cases h; exact Or.inl rfl

/-! ### the per-transaction invariant for one session -/

/-- session `(m,k)` is present and well-formed -/
def Has (m k : Nat) (w : World) : Prop := ∃ s, lookupSess w.sess (m, k) = some s ∧ WFS s

/-- Between two points of one transaction (same block time) the master's balance in `d` plus
    the spend counted in the current period never goes down, and the record only advances. -/
def TxInv (m k : Nat) (d : Denom) (w w' : World) : Prop :=
  w'.now = w.now ∧
  ∃ s s', lookupSess w.sess (m, k) = some s ∧ lookupSess w'.sess (m, k) = some s' ∧ Adv w.now s s' ∧
    w.bal (.m m) d + U s w.now d ≤ w'.bal (.m m) d + U s' w.now d

theorem TxInv.has {m k : Nat} {d : Denom} {w w' : World} (h : TxInv m k d w w') : Has m k w' := by
  obtain ⟨_, s, s', _, hs', ha, _⟩ := h
  exact ⟨s', hs', ha.2.1⟩

theorem TxInv.refl {m k : Nat} {d : Denom} {w : World} (h : Has m k w) : TxInv m k d w w := by
  obtain ⟨s, hs, hw⟩ := h
  exact ⟨rfl, s, s, hs, hs, Adv.refl hw, Int.le_refl _⟩

theorem TxInv.trans {m k : Nat} {d : Denom} {w1 w2 w3 : World} (h1 : TxInv m k d w1 w2) (h2 : TxInv m k d w2 w3) :
    TxInv m k d w1 w3 := by
  obtain ⟨n1, s, s', hs, hs', a1, p1⟩ := h1
  obtain ⟨n2, t, t', ht, ht', a2, p2⟩ := h2
  rw [hs'] at ht; cases ht
  rw [n1] at a2 p2
  exact ⟨n2.trans n1, s, t', hs, ht', a1.trans a2, Int.le_trans p1 p2⟩

/-- a step that leaves the `(m,k)` record alone and does not lower the master's balance -/
theorem TxInv.of_same {m k : Nat} {d : Denom} {w w' : World} (h : Has m k w) (hn : w'.now = w.now)
    (hs : lookupSess w'.sess (m, k) = lookupSess w.sess (m, k)) (hb : w.bal (.m m) d ≤ w'.bal (.m m) d) :
    TxInv m k d w w' := by
  obtain ⟨s, hl, hw⟩ := h
  refine ⟨hn, s, s, hl, by rw [hs]; exact hl, Adv.refl hw, ?_⟩
  omega

theorem inv_credit {m k : Nat} {d : Denom} {w w' : World} {to : Option Acct} {amt : Coins}
    (hh : Has m k w) (h : credit w to amt = .ok w') : TxInv m k d w w' := by
  obtain ⟨hv, hn, hs, _, hb⟩ := credit_spec h
  refine TxInv.of_same hh hn (by rw [hs]) ?_
  rw [hb]
  split
  · have := amountOf_nonneg hv d; omega
  · exact Int.le_refl _

theorem inv_debit_other {m k : Nat} {d : Denom} {w w' : World} {a : Acct} {amt : Coins}
    (hh : Has m k w) (ha : a ≠ .m m) (h : debit w a amt = .ok w') : TxInv m k d w w' := by
  obtain ⟨_, hn, hs, _, _, hb⟩ := debit_spec h
  refine TxInv.of_same hh hn (by rw [hs]) ?_
  rw [hb, if_neg (fun e => ha e.symm)]
  exact Int.le_refl _

theorem inv_hook_other {m k : Nat} {d : Denom} {auth : List (Nat × Nat)} {w w' : World} {a : Acct} {amt : Coins}
    (hh : Has m k w) (ha : a ≠ .m m) (h : hookDeduct auth w a amt = .ok w') : TxInv m k d w w' := by
  rcases hookDeduct_spec h with rfl | ⟨i, k', s, s', rfl, _, _, _, rfl⟩
  · exact TxInv.refl hh
  · have hne : (m, k) ≠ (i, k') := by
      intro e; cases e; exact ha rfl
    refine TxInv.of_same hh rfl ?_ (Int.le_refl _)
    simp only [lookup_setSess, if_neg hne]

theorem hookDeduct_self {m k : Nat} {auth : List (Nat × Nat)} {w w' : World} {amt : Coins} {s : Session}
    (hauth : auth.lookup m = some k) (hl : lookupSess w.sess (m, k) = some s)
    (h : hookDeduct auth w (.m m) amt = .ok w') :
    ∃ s', deductSessionSpend s amt w.now = .ok s' ∧ w' = { w with sess := setSess w.sess (m, k) s' } := by
  unfold hookDeduct at h
  simp only [hauth, hl] at h
  split at h
  · cases h
  · rename_i s' hd
    cases h
    exact ⟨s', hd, rfl⟩

/-- the session hook followed by the debit of the same (valid) amount from the session's master -/
theorem inv_hook_debit_self {m k : Nat} {d : Denom} {auth : List (Nat × Nat)} {w w1 w2 : World} {amt : Coins}
    (hh : Has m k w) (hauth : auth.lookup m = some k)
    (h1 : hookDeduct auth w (.m m) amt = .ok w1) (h2 : debit w1 (.m m) amt = .ok w2) : TxInv m k d w w2 := by
  obtain ⟨hv, hn2, hs2, _, _, hb2⟩ := debit_spec h2
  obtain ⟨s, hl, hw⟩ := hh
  obtain ⟨s', hd, rfl⟩ := hookDeduct_self hauth hl h1
  obtain ⟨ha, hu⟩ := deduct_adv hw hv hd
  refine ⟨hn2, s, s', hl, ?_, ha, ?_⟩
  · rw [hs2]; simp [lookup_setSess]
  · rw [hb2, if_pos rfl, hu d]
    simp only
    omega

end GnoVerif.C16
