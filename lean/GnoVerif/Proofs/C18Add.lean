import GnoVerif.Proofs.C18Order
/-! `Coins.AddUnsafe` computes the canonical per-denomination sum, and fails exactly on overflow. -/
namespace GnoVerif.C18
open GnoVerif

theorem toInt_inI64 (a : BitVec 64) : inI64 a.toInt := by
  have h1 := @BitVec.le_toInt 64 a
  have h2 := @BitVec.toInt_lt 64 a
  simp only [inI64, i64Min, i64Max]
  omega

/-- `overflow.Add` on int64 (the generated definition): `ok` iff the exact sum is representable, and then it is the sum. -/
theorem ovfAdd_spec (a b : BitVec 64) :
    ((Gen.C18.Add true a b).2 = true ↔ inI64 (a.toInt + b.toInt)) ∧
    ((Gen.C18.Add true a b).2 = true → (Gen.C18.Add true a b).1.toInt = a.toInt + b.toInt) := by
  have ha := toInt_inI64 a
  have hb := toInt_inI64 b
  simp only [inI64, i64Min, i64Max] at ha hb ⊢
  simp only [Gen.C18.Add, GoInt.gt, GoInt.lt, GoInt.lit, if_true]
  have hz : (BitVec.ofInt 64 0).toInt = 0 := by decide
  have hs : (a + b).toInt = (a.toInt + b.toInt).bmod (2^64) := BitVec.toInt_add a b
  rw [Int.bmod_def] at hs
  simp only [BitVec.slt_eq_decide, hz, beq_iff_eq, decide_eq_decide]
  constructor
  · constructor
    · intro h; split at hs <;> omega
    · intro h; split at hs <;> omega
  · intro h; split at hs <;> omega

/-! ### `val`, `Sorted`, `LowerBound` -/

@[simp] theorem val_nil (d : Denom) : val [] d = 0 := rfl

theorem val_cons (c : Coin) (cs : Coins) (d : Denom) :
    val (c :: cs) d = (if c.denom = d then c.amount.toInt else 0) + val cs d := rfl

theorem sorted_cons {c : Coin} {cs : Coins} : Sorted (c :: cs) ↔ LowerBound c.denom cs ∧ Sorted cs := by
  simp only [Sorted, LowerBound, List.pairwise_cons]

theorem sorted_nil : Sorted [] := List.Pairwise.nil

theorem lowerBound_nil (k : Denom) : LowerBound k [] := by intro c h; cases h

theorem lowerBound_cons {k : Denom} {c : Coin} {cs : Coins} :
    LowerBound k (c :: cs) ↔ dlt k c.denom = true ∧ LowerBound k cs := by
  simp only [LowerBound, List.mem_cons, forall_eq_or_imp]

theorem LowerBound.trans {k k' : Denom} {cs : Coins} (h : dlt k k' = true) (hb : LowerBound k' cs) :
    LowerBound k cs := fun c hc => dlt_trans h (hb c hc)

/-- a denomination below every listed one is not listed: its value is 0. -/
theorem val_of_lowerBound {k : Denom} {cs : Coins} (h : LowerBound k cs) : val cs k = 0 := by
  induction cs with
  | nil => rfl
  | cons c cs ih =>
    rw [lowerBound_cons] at h
    rw [val_cons, if_neg (fun e => dlt_ne h.1 e.symm), ih h.2]; rfl

/-- in a strictly sorted list every denomination occurs at most once: `val` is a single int64. -/
theorem val_inI64 {cs : Coins} (hs : Sorted cs) (d : Denom) : inI64 (val cs d) := by
  induction cs with
  | nil => simp [inI64, i64Min, i64Max]
  | cons c cs ih =>
    rw [sorted_cons] at hs
    rw [val_cons]
    split
    · next e =>
      subst e
      rw [val_of_lowerBound hs.1]
      simpa using toInt_inI64 c.amount
    · simpa using ih hs.2

theorem isZero_iff (c : Coin) : c.isZero = true ↔ c.amount = 0#64 := by
  simp [Coin.isZero]

theorem isZero_toInt {c : Coin} (h : c.isZero = true) : c.amount.toInt = 0 := by
  rw [isZero_iff] at h; rw [h]; rfl

theorem val_removeZero (cs : Coins) (d : Denom) : val (removeZeroCoins cs) d = val cs d := by
  induction cs with
  | nil => rfl
  | cons c cs ih =>
    simp only [removeZeroCoins, List.filter_cons] at ih ⊢
    cases hz : c.isZero with
    | true => simp only [Bool.not_true, Bool.false_eq_true, if_false, val_cons, isZero_toInt hz, ih]; simp
    | false => simp only [Bool.not_false, if_true, val_cons, ih]

theorem sorted_removeZero {cs : Coins} (h : Sorted cs) : Sorted (removeZeroCoins cs) :=
  List.Pairwise.filter _ h

theorem zeroFree_removeZero (cs : Coins) : ZeroFree (removeZeroCoins cs) := by
  intro c hc
  simp only [removeZeroCoins, List.mem_filter, Bool.not_eq_true'] at hc
  intro e
  have := (isZero_iff c).mpr e
  simp [this] at hc

theorem lowerBound_removeZero {k : Denom} {cs : Coins} (h : LowerBound k cs) :
    LowerBound k (removeZeroCoins cs) := by
  intro c hc
  simp only [removeZeroCoins, List.mem_filter] at hc
  exact h c hc.1

/-- what `AddUnsafe` guarantees about its outcome (for strictly sorted operands). -/
def AddPost (A B : Coins) : Except Err Coins → Prop
  | .error e => e = .overflow ∧ ∃ d, ¬ inI64 (val A d + val B d)
  | .ok R => (∀ d, inI64 (val A d + val B d)) ∧ Sorted R ∧ ZeroFree R ∧
      (∀ d, val R d = val A d + val B d) ∧ ∀ k, LowerBound k A → LowerBound k B → LowerBound k R

theorem inI64_zero : inI64 0 := by simp [inI64, i64Min, i64Max]

theorem AddPost.symm {A B : Coins} {x : Except Err Coins} (h : AddPost A B x) : AddPost B A x := by
  cases x with
  | error e =>
    obtain ⟨h1, d, hd⟩ := h
    exact ⟨h1, d, by rwa [Int.add_comm]⟩
  | ok R =>
    obtain ⟨h1, h2, h3, h4, h5⟩ := h
    exact ⟨fun d => by rw [Int.add_comm]; exact h1 d, h2, h3, fun d => by rw [h4, Int.add_comm],
      fun k hb ha => h5 k ha hb⟩

/-- one step of the merge that copies (or drops, if zero) the head of the left operand,
whose denomination is strictly below everything in the right operand. -/
theorem addPost_skip {a : Coin} {as B : Coins} (hA : Sorted (a :: as)) (hlb : LowerBound a.denom B)
    (x : Except Err Coins) (hx : AddPost as B x) :
    AddPost (a :: as) B (match x with
      | .error e => .error e
      | .ok r => .ok (if a.isZero then r else a :: r)) := by
  obtain ⟨hla, hsa⟩ := sorted_cons.mp hA
  have va : val as a.denom = 0 := val_of_lowerBound hla
  have vb : val B a.denom = 0 := val_of_lowerBound hlb
  have vne : ∀ d, a.denom ≠ d → val (a :: as) d = val as d := by
    intro d hd; rw [val_cons, if_neg hd]; simp
  cases x with
  | error e =>
    obtain ⟨h1, d, hd⟩ := hx
    refine ⟨h1, d, ?_⟩
    by_cases e : a.denom = d
    · subst e; rw [va, vb] at hd; exact absurd inI64_zero hd
    · rw [vne d e]; exact hd
  | ok r =>
    obtain ⟨h1, h2, h3, h4, h5⟩ := hx
    refine ⟨?_, ?_, ?_, ?_, ?_⟩
    · intro d
      by_cases e : a.denom = d
      · subst e; rw [val_cons, if_pos rfl, va, vb]; simpa using toInt_inI64 a.amount
      · rw [vne d e]; exact h1 d
    · show Sorted (if a.isZero = true then r else a :: r)
      split
      · exact h2
      · exact sorted_cons.mpr ⟨h5 a.denom hla hlb, h2⟩
    · show ZeroFree (if a.isZero = true then r else a :: r)
      split
      · exact h3
      · next hz =>
        intro c hc
        rcases List.mem_cons.mp hc with e | hc
        · subst e; intro e0; exact hz ((isZero_iff c).mpr e0)
        · exact h3 c hc
    · intro d
      show val (if a.isZero = true then r else a :: r) d = _
      split
      · next hz => rw [h4, val_cons, isZero_toInt hz]; simp
      · rw [val_cons, val_cons, h4, Int.add_assoc]
    · intro k hka hkb
      obtain ⟨hk1, hk2⟩ := lowerBound_cons.mp hka
      show LowerBound k (if a.isZero = true then r else a :: r)
      split
      · exact h5 k hk2 hkb
      · exact lowerBound_cons.mpr ⟨hk1, h5 k hk2 hkb⟩

theorem coin_addUnsafe_spec {a b : Coin} (h : a.denom = b.denom) :
    (∀ e, a.addUnsafe b = .error e → e = .overflow ∧ ¬ inI64 (a.amount.toInt + b.amount.toInt)) ∧
    (∀ r, a.addUnsafe b = .ok r → r.denom = a.denom ∧ r.amount.toInt = a.amount.toInt + b.amount.toInt) := by
  have hs := ovfAdd_spec a.amount b.amount
  unfold Coin.addUnsafe
  simp only [ne_eq, h, not_true_eq_false, if_false]
  cases hok : (Gen.C18.Add true a.amount b.amount).2 with
  | false =>
    simp only [Bool.not_false, if_true, Except.error.injEq, reduceCtorEq, false_implies, implies_true, and_true]
    intro e he; subst he
    refine ⟨rfl, fun hin => ?_⟩
    have := hs.1.mpr hin
    simp [hok] at this
  | true =>
    simp only [Bool.not_true, Bool.false_eq_true, if_false, reduceCtorEq, false_implies, implies_true, true_and,
      Except.ok.injEq]
    intro r hr; subst hr
    exact ⟨rfl, hs.2 hok⟩

/-- the step of the merge on two heads with the same denomination. -/
theorem addPost_eq {a b : Coin} {as bs : Coins} (hd : a.denom = b.denom)
    (hA : Sorted (a :: as)) (hB : Sorted (b :: bs)) :
    (∀ e, a.addUnsafe b = .error e → AddPost (a :: as) (b :: bs) (.error e)) ∧
    (∀ res, a.addUnsafe b = .ok res → ∀ x, AddPost as bs x →
      AddPost (a :: as) (b :: bs) (match x with
        | .error e => .error e
        | .ok r => .ok (if res.isZero then r else res :: r))) := by
  obtain ⟨hla, hsa⟩ := sorted_cons.mp hA
  obtain ⟨hlb, hsb⟩ := sorted_cons.mp hB
  have hlb' : LowerBound a.denom bs := by rw [hd]; exact hlb
  have va : val as a.denom = 0 := val_of_lowerBound hla
  have vb : val bs a.denom = 0 := val_of_lowerBound hlb'
  have vaa : val (a :: as) a.denom = a.amount.toInt := by rw [val_cons, if_pos rfl, va]; simp
  have vbb : val (b :: bs) a.denom = b.amount.toInt := by rw [val_cons, if_pos hd.symm, vb]; simp
  have vna : ∀ d, a.denom ≠ d → val (a :: as) d = val as d := by
    intro d hne; rw [val_cons, if_neg hne]; simp
  have vnb : ∀ d, a.denom ≠ d → val (b :: bs) d = val bs d := by
    intro d hne; rw [val_cons, if_neg (by rw [← hd]; exact hne)]; simp
  obtain ⟨he, hok⟩ := coin_addUnsafe_spec hd
  constructor
  · intro e h
    obtain ⟨h1, h2⟩ := he e h
    exact ⟨h1, a.denom, by rw [vaa, vbb]; exact h2⟩
  · intro res h x hx
    obtain ⟨hrd, hrv⟩ := hok res h
    cases x with
    | error e =>
      obtain ⟨h1, d, hdd⟩ := hx
      refine ⟨h1, d, ?_⟩
      by_cases e : a.denom = d
      · subst e; rw [va, vb] at hdd; exact absurd inI64_zero hdd
      · rw [vna d e, vnb d e]; exact hdd
    | ok r =>
      obtain ⟨h1, h2, h3, h4, h5⟩ := hx
      have hlr : LowerBound res.denom r := by rw [hrd]; exact h5 a.denom hla hlb'
      refine ⟨?_, ?_, ?_, ?_, ?_⟩
      · intro d
        by_cases e : a.denom = d
        · subst e; rw [vaa, vbb, ← hrv]; exact toInt_inI64 _
        · rw [vna d e, vnb d e]; exact h1 d
      · show Sorted (if res.isZero = true then r else res :: r)
        split
        · exact h2
        · exact sorted_cons.mpr ⟨hlr, h2⟩
      · show ZeroFree (if res.isZero = true then r else res :: r)
        split
        · exact h3
        · next hz =>
          intro c hc
          rcases List.mem_cons.mp hc with e | hc
          · subst e; intro e0; exact hz ((isZero_iff c).mpr e0)
          · exact h3 c hc
      · intro d
        show val (if res.isZero = true then r else res :: r) d = _
        by_cases e : a.denom = d
        · subst e
          rw [vaa, vbb]
          split
          · next hz => rw [h4, va, vb, ← hrv, isZero_toInt hz]; rfl
          · rw [val_cons, if_pos hrd, h4, va, vb, hrv]; simp
        · rw [vna d e, vnb d e]
          split
          · exact h4 d
          · rw [val_cons, if_neg (by rw [hrd]; exact e), h4]; simp
      · intro k hka hkb
        obtain ⟨hk1, hk2⟩ := lowerBound_cons.mp hka
        obtain ⟨_, hk3⟩ := lowerBound_cons.mp hkb
        show LowerBound k (if res.isZero = true then r else res :: r)
        split
        · exact h5 k hk2 hk3
        · exact lowerBound_cons.mpr ⟨by rw [hrd]; exact hk1, h5 k hk2 hk3⟩

theorem addUnsafe_post (A B : Coins) : Sorted A → Sorted B → AddPost A B (addUnsafe A B) := by
  fun_induction addUnsafe A B with
  | case1 =>
    intro _ _
    refine ⟨fun d => inI64_zero, ?_, ?_, fun d => rfl, fun k _ _ => lowerBound_nil k⟩
    · exact sorted_nil
    · intro c hc; cases hc
  | case2 b bs =>
    intro _ hB
    refine ⟨fun d => ?_, sorted_removeZero hB, zeroFree_removeZero _, fun d => ?_, fun k _ hk => lowerBound_removeZero hk⟩
    · simpa using val_inI64 hB d
    · rw [val_removeZero]; simp
  | case3 a as =>
    intro hA _
    refine ⟨fun d => ?_, sorted_removeZero hA, zeroFree_removeZero _, fun d => ?_, fun k hk _ => lowerBound_removeZero hk⟩
    · simpa using val_inI64 hA d
    · rw [val_removeZero]; simp
  | case4 a as b bs hc e hx ih =>
    intro hA hB
    have hlt : dlt a.denom b.denom = true := by simp [dlt, hc]
    have hlb : LowerBound a.denom (b :: bs) :=
      lowerBound_cons.mpr ⟨hlt, LowerBound.trans hlt (sorted_cons.mp hB).1⟩
    have h := ih (sorted_cons.mp hA).2 hB
    rw [hx] at h
    exact addPost_skip hA hlb _ h
  | case5 a as b bs hc r hx ih =>
    intro hA hB
    have hlt : dlt a.denom b.denom = true := by simp [dlt, hc]
    have hlb : LowerBound a.denom (b :: bs) :=
      lowerBound_cons.mpr ⟨hlt, LowerBound.trans hlt (sorted_cons.mp hB).1⟩
    have h := ih (sorted_cons.mp hA).2 hB
    rw [hx] at h
    exact addPost_skip hA hlb _ h
  | case6 a as b bs hc e hx =>
    intro hA hB
    exact (addPost_eq ((cmpBytes_eq_iff _ _).mp hc) hA hB).1 e hx
  | case7 a as b bs hc res hres e hx ih =>
    intro hA hB
    have h := ih (sorted_cons.mp hA).2 (sorted_cons.mp hB).2
    rw [hx] at h
    exact (addPost_eq ((cmpBytes_eq_iff _ _).mp hc) hA hB).2 res hres _ h
  | case8 a as b bs hc res hres r hx ih =>
    intro hA hB
    have h := ih (sorted_cons.mp hA).2 (sorted_cons.mp hB).2
    rw [hx] at h
    exact (addPost_eq ((cmpBytes_eq_iff _ _).mp hc) hA hB).2 res hres _ h
  | case9 a as b bs hc e hx ih =>
    intro hA hB
    have hlt : dlt b.denom a.denom = true := by simp [dlt, (cmpBytes_gt_iff _ _).mp hc]
    have hlb : LowerBound b.denom (a :: as) :=
      lowerBound_cons.mpr ⟨hlt, LowerBound.trans hlt (sorted_cons.mp hA).1⟩
    have h := ih hA (sorted_cons.mp hB).2
    rw [hx] at h
    exact (addPost_skip hB hlb _ h.symm).symm
  | case10 a as b bs hc r hx ih =>
    intro hA hB
    have hlt : dlt b.denom a.denom = true := by simp [dlt, (cmpBytes_gt_iff _ _).mp hc]
    have hlb : LowerBound b.denom (a :: as) :=
      lowerBound_cons.mpr ⟨hlt, LowerBound.trans hlt (sorted_cons.mp hA).1⟩
    have h := ih hA (sorted_cons.mp hB).2
    rw [hx] at h
    exact (addPost_skip hB hlb _ h.symm).symm

end GnoVerif.C18
