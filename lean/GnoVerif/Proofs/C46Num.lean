import GnoVerif.Model.C46Bip39
/-! Proofs.C46Num — big-endian bytes, base-2048 digits, the checksum loop. -/
namespace GnoVerif.C46

/-- induction from the right end of a list -/
theorem snocInd {α} {P : List α → Prop} (nil : P []) (snoc : ∀ l x, P l → P (l ++ [x])) (l : List α) : P l := by
  have : ∀ r : List α, P r.reverse := by
    intro r
    induction r with
    | nil => exact nil
    | cons x r ih => rw [List.reverse_cons]; exact snoc _ _ ih
  simpa using this l.reverse

theorem toBE_length (n v : Nat) : (toBE n v).length = n := by
  induction n generalizing v with
  | zero => rfl
  | succ n ih => simp [toBE, ih]

theorem fromBE_foldl (v : Nat) (b : Bytes) :
    b.foldl (fun a x => a * 256 + x.toNat) v = v * 256 ^ b.length + fromBE b := by
  unfold fromBE
  induction b generalizing v with
  | nil => simp
  | cons x b ih =>
    simp only [List.foldl_cons, List.length_cons]
    rw [ih (v * 256 + x.toNat), ih (0 * 256 + x.toNat), Nat.pow_succ]
    simp only [Nat.add_mul, Nat.zero_mul, Nat.zero_add, Nat.mul_assoc, Nat.add_assoc, Nat.mul_comm (256 ^ b.length) 256]

theorem fromBE_append (a b : Bytes) : fromBE (a ++ b) = fromBE a * 256 ^ b.length + fromBE b := by
  show List.foldl _ 0 (a ++ b) = _
  rw [List.foldl_append, fromBE_foldl]
  rfl

theorem fromBE_singleton (x : UInt8) : fromBE [x] = x.toNat := by
  simp [fromBE]

theorem fromBE_lt (bs : Bytes) : fromBE bs < 256 ^ bs.length := by
  induction bs using snocInd with
  | nil => simp [fromBE]
  | snoc b x ih =>
    rw [fromBE_append, fromBE_singleton]
    simp only [List.length_append, List.length_singleton, Nat.pow_succ, Nat.pow_zero, Nat.mul_one]
    have hx : x.toNat < 256 := UInt8.toNat_lt x
    omega

theorem fromBE_toBE (n v : Nat) : fromBE (toBE n v) = v % 256 ^ n := by
  induction n generalizing v with
  | zero => simp [toBE, fromBE, Nat.mod_one]
  | succ n ih =>
    rw [toBE, fromBE_append, fromBE_singleton, ih]
    simp only [List.length_singleton, Nat.pow_one]
    have h256 : (UInt8.ofNat (v % 256)).toNat = v % 256 := by
      simp [UInt8.toNat_ofNat']
    rw [h256, Nat.pow_succ]
    have : v % (256 ^ n * 256) = v / 256 % 256 ^ n * 256 + v % 256 := by
      rw [Nat.mul_comm (256 ^ n) 256, Nat.mod_mul]
      omega
    omega

theorem toBE_fromBE (bs : Bytes) : toBE bs.length (fromBE bs) = bs := by
  induction bs using snocInd with
  | nil => rfl
  | snoc b x ih =>
    simp only [List.length_append, List.length_singleton]
    rw [toBE, fromBE_append, fromBE_singleton]
    simp only [List.length_singleton, Nat.pow_one]
    have hx : x.toNat < 256 := UInt8.toNat_lt x
    have h1 : (fromBE b * 256 + x.toNat) / 256 = fromBE b := by omega
    have h2 : (fromBE b * 256 + x.toNat) % 256 = x.toNat := by omega
    rw [h1, h2, ih]
    simp

/-- `toBE n` is injective below `256^n` -/
theorem toBE_inj {n a b : Nat} (ha : a < 256 ^ n) (hb : b < 256 ^ n) (h : toBE n a = toBE n b) : a = b := by
  have := congrArg fromBE h
  rwa [fromBE_toBE, fromBE_toBE, Nat.mod_eq_of_lt ha, Nat.mod_eq_of_lt hb] at this

theorem digits2048_length (n v : Nat) : (digits2048 n v).length = n := by
  induction n generalizing v with
  | zero => rfl
  | succ n ih => simp [digits2048, ih]

theorem digits2048_lt (n v : Nat) : ∀ d ∈ digits2048 n v, d < 2048 := by
  induction n generalizing v with
  | zero => simp [digits2048]
  | succ n ih =>
    intro d hd
    simp only [digits2048, List.mem_append, List.mem_singleton] at hd
    rcases hd with hd | hd
    · exact ih _ d hd
    · omega

theorem fromDigits2048_append (a b : List Nat) :
    fromDigits2048 (a ++ b) = b.foldl (fun x d => x * 2048 + d) (fromDigits2048 a) := by
  simp [fromDigits2048, List.foldl_append]

theorem fromDigits2048_digits (n v : Nat) : fromDigits2048 (digits2048 n v) = v % 2048 ^ n := by
  induction n generalizing v with
  | zero => simp [digits2048, fromDigits2048, Nat.mod_one]
  | succ n ih =>
    rw [digits2048, fromDigits2048_append, ih]
    simp only [List.foldl_cons, List.foldl_nil]
    rw [Nat.pow_succ, Nat.mul_comm (2048 ^ n) 2048, Nat.mod_mul]
    omega

/-- base-2048 digits are unique: a list of `n` digits below 2048 is the digit expansion of its value -/
theorem digits2048_fromDigits (ds : List Nat) (h : ∀ d ∈ ds, d < 2048) :
    digits2048 ds.length (fromDigits2048 ds) = ds := by
  induction ds using snocInd with
  | nil => rfl
  | snoc ds x ih =>
    have hx : x < 2048 := h x (by simp)
    have hds : ∀ d ∈ ds, d < 2048 := fun d hd => h d (by simp [hd])
    simp only [List.length_append, List.length_singleton]
    rw [digits2048, fromDigits2048_append]
    simp only [List.foldl_cons, List.foldl_nil]
    have h1 : (fromDigits2048 ds * 2048 + x) / 2048 = fromDigits2048 ds := by omega
    have h2 : (fromDigits2048 ds * 2048 + x) % 2048 = x := by omega
    rw [h1, h2, ih hds]

theorem fromDigits2048_lt (ds : List Nat) (h : ∀ d ∈ ds, d < 2048) : fromDigits2048 ds < 2048 ^ ds.length := by
  induction ds using snocInd with
  | nil => simp [fromDigits2048]
  | snoc ds x ih =>
    have hx : x < 2048 := h x (by simp)
    have hds : ∀ d ∈ ds, d < 2048 := fun d hd => h d (by simp [hd])
    rw [fromDigits2048_append]
    simp only [List.foldl_cons, List.foldl_nil, List.length_append, List.length_singleton, Nat.pow_succ]
    have := ih hds
    omega

/-! ### the checksum loop -/

/-- the checksum bits appended by `addChecksum` for `cs` rounds -/
def csBits (h0 : UInt8) (cs : Nat) : Nat := (List.range cs).foldl (csStep h0) 0

theorem csStep_eq (h0 : UInt8) (v i : Nat) : csStep h0 v i = v * 2 + (csStep h0 0 i) := by
  unfold csStep
  have hor : ∀ a : Nat, a * 2 ||| 1 = a * 2 + 1 := by
    intro a
    have := Nat.two_pow_add_eq_or_of_lt (i := 1) (b := 1) (by decide) a
    simp only [Nat.pow_one] at this
    rw [Nat.mul_comm a 2]
    exact this.symm
  split
  · rw [hor, hor]
  · simp

theorem csStep_zero_le (h0 : UInt8) (i : Nat) : csStep h0 0 i ≤ 1 := by
  unfold csStep
  split <;> simp

theorem csFold (h0 : UInt8) (v k : Nat) :
    (List.range k).foldl (csStep h0) v = v * 2 ^ k + csBits h0 k ∧ csBits h0 k < 2 ^ k := by
  induction k with
  | zero => simp [csBits]
  | succ k ih =>
    have hb : csBits h0 (k + 1) = csBits h0 k * 2 + csStep h0 0 k := by
      unfold csBits
      rw [List.range_succ, List.foldl_append]
      simp only [List.foldl_cons, List.foldl_nil]
      rw [csStep_eq]
    constructor
    · rw [List.range_succ, List.foldl_append]
      simp only [List.foldl_cons, List.foldl_nil]
      rw [ih.1, csStep_eq, hb, Nat.pow_succ]
      simp only [Nat.add_mul, Nat.mul_assoc, Nat.add_assoc]
    · rw [hb, Nat.pow_succ]
      have := csStep_zero_le h0 k
      have := ih.2
      omega

/-- `addChecksum` = entropy shifted left by `len/4` bits, plus the checksum bits -/
theorem addChecksum_eq (sha : Bytes → Bytes) (data : Bytes) :
    addChecksum sha data = fromBE data * 2 ^ (data.length / 4) + csBits ((sha data).headD 0) (data.length / 4) := by
  unfold addChecksum
  exact (csFold _ _ _).1

theorem csBits_lt (h0 : UInt8) (k : Nat) : csBits h0 k < 2 ^ k := (csFold h0 0 k).2

end GnoVerif.C46
