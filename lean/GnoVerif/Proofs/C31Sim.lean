import GnoVerif.Proofs.C31Hvs
import GnoVerif.Proofs.C31Abs
/-!
Refinement infrastructure: every step of the executable node (`Model/C31.lean`) is a finite
sequence of actions of the abstract protocol (`Spec/C31.lean`) that emits the same votes.
This file: abstract paths, the concrete local invariant, the simulation record.  Core Lean only.
-/
set_option linter.unusedSimpArgs false
set_option linter.unusedVariables false
namespace GnoVerif.C31

-- ---------------------------------------------------------------- abstract paths

/-- a finite sequence of abstract actions of validator `p`: `(L, a) ⟶* (L', a')` -/
inductive APath (c : Cfg) (p : Val) : List Vote → ANode → List Vote → ANode → Prop
  | refl (L : List Vote) (a : ANode) : APath c p L a L a
  | step {L : List Vote} {a a' : ANode} {out : List Vote} {L'' : List Vote} {a'' : ANode}
      (h : AAct c L p a a' out) (t : APath c p (L ++ out) a' L'' a'') : APath c p L a L'' a''

theorem APath.single {c : Cfg} {p : Val} {L : List Vote} {a a' : ANode} {out : List Vote}
    (h : AAct c L p a a' out) : APath c p L a (L ++ out) a' := .step h (.refl _ _)

theorem APath.trans {c : Cfg} {p : Val} {L L' L'' : List Vote} {a a' a'' : ANode}
    (h1 : APath c p L a L' a') (h2 : APath c p L' a' L'' a'') : APath c p L a L'' a'' := by
  induction h1 with
  | refl => exact h2
  | step h _ ih => exact .step h (ih h2)

theorem APath.pinv {c : Cfg} {p : Val} {L L' : List Vote} {a a' : ANode}
    (h : APath c p L a L' a') (hi : PInv c L p a) : PInv c L' p a' := by
  induction h with
  | refl => exact hi
  | step h _ ih => exact ih (hi.act h)

/-- the log only grows, by votes of `p` -/
theorem APath.ext {c : Cfg} {p : Val} {L L' : List Vote} {a a' : ANode} (h : APath c p L a L' a') :
    ∃ out, L' = L ++ out ∧ ∀ v ∈ out, v.sender = p := by
  induction h with
  | refl => exact ⟨[], by simp, by simp⟩
  | @step L a a' out L'' a'' h _ ih =>
    obtain ⟨o2, he, hs⟩ := ih
    refine ⟨out ++ o2, by rw [he, List.append_assoc], ?_⟩
    intro v hv
    rcases List.mem_append.1 hv with h1 | h1
    · exact h.sender v h1
    · exact hs v h1

theorem upd_upd (f : Val → ANode) (p : Val) (a a' : ANode) : upd (upd f p a) p a' = upd f p a' := by
  funext q; simp only [upd]; split <;> rfl

theorem upd_self (f : Val → ANode) (p : Val) : upd f p (f p) = f := by
  funext q; simp only [upd]; split
  · rename_i h; rw [h]
  · rfl

/-- a path of an honest validator is a sequence of global steps -/
theorem APath.reach {c : Cfg} {p : Val} (hp : c.honest p) {L L' : List Vote} {a a' : ANode}
    (h : APath c p L a L' a') (nodes : Val → ANode) (hn : nodes p = a)
    (hr : AReach c { nodes := nodes, log := L }) : AReach c { nodes := upd nodes p a', log := L' } := by
  induction h generalizing nodes with
  | refl L a => subst hn; rw [upd_self]; exact hr
  | @step L a a' out L'' a'' h t ih =>
    subst hn
    have h1 : AReach c { nodes := upd nodes p a', log := L ++ out } :=
      hr.step (AStep.act ⟨nodes, L⟩ p a' out hp h)
    have := ih (upd nodes p a') (by simp [upd]) h1
    rwa [upd_upd] at this

-- ---------------------------------------------------------------- the concrete local invariant

/-- what the simulation needs of the concrete node, relative to the vote log `L` -/
structure GoodC (c : SysCfg) (s : Node) (L : List Vote) : Prop where
  /-- the vote sets count only signed votes of the right height -/
  hvs : HGood c s.height s.votes L
  /-- own votes waiting in the internal queue were signed -/
  queue : ∀ v, Msg.vote v ∈ s.queue → v ∈ L
  /-- the ticker never holds a timeout for a future height or round -/
  tick : s.tickLast.height ≤ s.height ∧ (s.tickLast.height = s.height → s.tickLast.round ≤ s.round)
  /-- a lock taken in the current round means the precommit point is passed -/
  lockR : s.lockedRound ≤ (s.round : Int) ∧ (s.lockedRound = (s.round : Int) → Step.precommit ≤ s.step)
  lockNone : s.lockedBlock = none → s.lockedRound = -1

theorem GoodC.mono {c : SysCfg} {s : Node} {L L' : List Vote} (h : GoodC c s L)
    (hl : ∀ v, v ∈ L → v ∈ L') : GoodC c s L' :=
  { h with hvs := h.hvs.mono hl, queue := fun v hv => hl v (h.queue v hv) }

def Good (c : SysCfg) (p : Val) (s : Node) (L : List Vote) : Prop :=
  GoodC c s L ∧ PInv c.abs L p (absNode s)

/-- the executable step `s ⟶ s'` (log `L ⟶ L'`) is simulated by an abstract path -/
structure Sim (c : SysCfg) (p : Val) (L : List Vote) (s : Node) (L' : List Vote) (s' : Node) : Prop where
  sent : ∃ out, s'.sent = s.sent ++ out ∧ L' = L ++ out
  goodC : GoodC c s' L'
  path : APath c.abs p L (absNode s) L' (absNode s')
  /-- within a height the round never decreases; the height never decreases -/
  hmono : s.height ≤ s'.height
  rmono : s'.height = s.height → s.round ≤ s'.round

theorem Sim.good {c : SysCfg} {p : Val} {L L' : List Vote} {s s' : Node} (h : Sim c p L s L' s')
    (hg : Good c p s L) : Good c p s' L' := ⟨h.goodC, h.path.pinv hg.2⟩

theorem Sim.refl {c : SysCfg} {p : Val} {L : List Vote} {s : Node} (hg : Good c p s L) : Sim c p L s L s :=
  ⟨⟨[], by simp, by simp⟩, hg.1, .refl _ _, Nat.le_refl _, fun _ => Nat.le_refl _⟩

theorem Sim.trans {c : SysCfg} {p : Val} {L L' L'' : List Vote} {s s' s'' : Node}
    (h1 : Sim c p L s L' s') (h2 : Sim c p L' s' L'' s'') : Sim c p L s L'' s'' := by
  obtain ⟨o1, e1, l1⟩ := h1.sent
  obtain ⟨o2, e2, l2⟩ := h2.sent
  refine ⟨⟨o1 ++ o2, by rw [e2, e1, List.append_assoc], by rw [l2, l1, List.append_assoc]⟩,
    h2.goodC, h1.path.trans h2.path, Nat.le_trans h1.hmono h2.hmono, ?_⟩
  intro he
  have a := h1.hmono; have b := h2.hmono
  have e1' : s'.height = s.height := by omega
  have e2' : s''.height = s'.height := by omega
  exact Nat.le_trans (h1.rmono e1') (h2.rmono e2')

/-- sequencing with an existential intermediate log -/
theorem Sim.then {c : SysCfg} {p : Val} {L L' : List Vote} {s s' s'' : Node}
    (h1 : Sim c p L s L' s') (hg : Good c p s L)
    (h2 : Good c p s' L' → ∃ L'', Sim c p L' s' L'' s'') : ∃ L'', Sim c p L s L'' s'' := by
  obtain ⟨L'', h⟩ := h2 (h1.good hg)
  exact ⟨L'', h1.trans h⟩

-- ---------------------------------------------------------------- bookkeeping steps

/-- `s'` differs from `s` only by bookkeeping: same height, lock, decisions and signed votes; the
round grows, or stays with the prevote / precommit marks kept -/
structure Adv (s s' : Node) : Prop where
  height : s'.height = s.height
  lockedRound : s'.lockedRound = s.lockedRound
  lockedBlock : s'.lockedBlock = s.lockedBlock
  decided : s'.decided = s.decided
  sent : s'.sent = s.sent
  round : s.round < s'.round ∨
    (s'.round = s.round ∧ (Step.prevote ≤ s.step → Step.prevote ≤ s'.step) ∧
      (Step.precommit ≤ s.step → Step.precommit ≤ s'.step))

theorem Adv.refl (s : Node) : Adv s s := ⟨rfl, rfl, rfl, rfl, rfl, Or.inr ⟨rfl, id, id⟩⟩

theorem absNode_of_adv {s s' : Node} (h : Adv s s') :
    absNode s' = { absNode s with round := s'.round,
                                  pvDone := decide (Step.prevote ≤ s'.step),
                                  pcDone := decide (Step.precommit ≤ s'.step) } := by
  simp only [absNode, h.height, h.lockedRound, h.lockedBlock, h.decided]

theorem Adv.path {c : Cfg} {p : Val} {L : List Vote} {s s' : Node} (h : Adv s s') :
    APath c p L (absNode s) L (absNode s') := by
  have := APath.single (c := c) (p := p) (L := L)
    (AAct.advance (absNode s) s'.round (decide (Step.prevote ≤ s'.step)) (decide (Step.precommit ≤ s'.step))
      (by
        rcases h.round with h1 | ⟨h1, h2, h3⟩
        · exact Or.inl h1
        · refine Or.inr ⟨h1, ?_, ?_⟩
          · simp only [absNode, decide_eq_true_eq]; exact h2
          · simp only [absNode, decide_eq_true_eq]; exact h3))
  rw [List.append_nil, ← absNode_of_adv h] at this
  exact this

/-- the lock clauses survive any bookkeeping step -/
theorem Adv.lockR {s s' : Node} (h : Adv s s')
    (hl : s.lockedRound ≤ (s.round : Int) ∧ (s.lockedRound = (s.round : Int) → Step.precommit ≤ s.step)) :
    s'.lockedRound ≤ (s'.round : Int) ∧ (s'.lockedRound = (s'.round : Int) → Step.precommit ≤ s'.step) := by
  rw [h.lockedRound]
  rcases h.round with h1 | ⟨h1, _, h3⟩
  · exact ⟨by omega, fun he => by omega⟩
  · rw [h1]; exact ⟨hl.1, fun he => h3 (hl.2 he)⟩

/-- a bookkeeping step whose vote sets, queue and ticker are fine is simulated by `advance` -/
theorem Sim.ofAdv {c : SysCfg} {p : Val} {L : List Vote} {s s' : Node} (hg : Good c p s L) (h : Adv s s')
    (hvs : HGood c s'.height s'.votes L) (hq : ∀ v, Msg.vote v ∈ s'.queue → v ∈ L)
    (ht : s'.tickLast.height ≤ s'.height ∧ (s'.tickLast.height = s'.height → s'.tickLast.round ≤ s'.round)) :
    Sim c p L s L s' := by
  refine ⟨⟨[], by simp [h.sent], by simp⟩, ⟨hvs, hq, ht, h.lockR hg.1.lockR, ?_⟩, h.path,
    Nat.le_of_eq h.height.symm, ?_⟩
  · rw [h.lockedBlock, h.lockedRound]; exact hg.1.lockNone
  · intro _
    rcases h.round with h1 | ⟨h1, _⟩ <;> omega

/-- bookkeeping that leaves votes, queue (up to non-vote messages) and the ticker alone, or moves
the round forward -/
theorem Sim.ofAdv' {c : SysCfg} {p : Val} {L : List Vote} {s s' : Node} (hg : Good c p s L) (h : Adv s s')
    (hv : s'.votes = s.votes) (hq : ∀ v, Msg.vote v ∈ s'.queue → Msg.vote v ∈ s.queue)
    (ht : s'.tickLast = s.tickLast) : Sim c p L s L s' := by
  apply Sim.ofAdv hg h
  · rw [hv, h.height]; exact hg.1.hvs
  · intro v hv'; exact hg.1.queue v (hq v hv')
  · rw [ht, h.height]
    refine ⟨hg.1.tick.1, fun he => Nat.le_trans (hg.1.tick.2 he) ?_⟩
    rcases h.round with h1 | ⟨h1, _⟩ <;> omega

-- ---------------------------------------------------------------- the ticker

theorem schedule_fields (s : Node) (h r : Nat) (st : Step) :
    (schedule s h r st).height = s.height ∧ (schedule s h r st).round = s.round ∧
    (schedule s h r st).step = s.step ∧ (schedule s h r st).votes = s.votes ∧
    (schedule s h r st).queue = s.queue ∧ (schedule s h r st).sent = s.sent ∧
    (schedule s h r st).lockedRound = s.lockedRound ∧ (schedule s h r st).lockedBlock = s.lockedBlock ∧
    (schedule s h r st).decided = s.decided ∧ (schedule s h r st).proposal = s.proposal ∧
    (schedule s h r st).proposalBlock = s.proposalBlock ∧
    (schedule s h r st).proposalBlockParts = s.proposalBlockParts ∧
    (schedule s h r st).validRound = s.validRound ∧ (schedule s h r st).validBlock = s.validBlock ∧
    (schedule s h r st).commitRound = s.commitRound ∧
    (schedule s h r st).triggeredTimeoutPrecommit = s.triggeredTimeoutPrecommit ∧
    (schedule s h r st).halted = s.halted := by
  unfold schedule
  dsimp only
  split
  · simp
  · split
    · simp
    · split <;> simp

/-- after `schedule s h r _` with `h = s.height`, `r ≤ s.round` the ticker clause still holds -/
theorem schedule_tick {s : Node} {h r : Nat} (st : Step)
    (ht : s.tickLast.height ≤ s.height ∧ (s.tickLast.height = s.height → s.tickLast.round ≤ s.round))
    (hh : h = s.height) (hr : r ≤ s.round) :
    (schedule s h r st).tickLast.height ≤ s.height ∧
      ((schedule s h r st).tickLast.height = s.height → (schedule s h r st).tickLast.round ≤ s.round) := by
  unfold schedule
  dsimp only
  split
  · exact ht
  · split
    · exact ht
    · split
      · exact ht
      · subst hh; exact ⟨Nat.le_refl _, fun _ => hr⟩

end GnoVerif.C31
