import GnoVerif.Spec.C50AvlInv
import GnoVerif.Proofs.C50OMap
/-! Helper lemmas for C50: invariant preservation and refinement of the avl model. -/
namespace GnoVerif.C50
open OMap
namespace Node
variable {α : Type}

@[simp] theorem height_leaf (k : Key) (v : α) : (leaf k v).height = 0 := rfl
@[simp] theorem height_inner (k : Key) (h s : Int) (l r : Node α) : (inner k h s l r).height = h := rfl
@[simp] theorem size_leaf (k : Key) (v : α) : (leaf k v).size = 1 := rfl
@[simp] theorem size_inner (k : Key) (h s : Int) (l r : Node α) : (inner k h s l r).size = s := rfl
@[simp] theorem minKey_leaf (k : Key) (v : α) : (leaf k v).minKey = k := rfl
@[simp] theorem minKey_inner (k : Key) (h s : Int) (l r : Node α) : (inner k h s l r).minKey = l.minKey := rfl
@[simp] theorem toList_leaf (k : Key) (v : α) : (leaf k v).toList = [(k, v)] := rfl
@[simp] theorem toList_inner (k : Key) (h s : Int) (l r : Node α) :
    (inner k h s l r).toList = l.toList ++ r.toList := rfl
theorem inv_inner (k : Key) (h s : Int) (l r : Node α) :
    (inner k h s l r).Inv ↔ (l.Inv ∧ r.Inv ∧ k = r.minKey ∧ h = max l.height r.height + 1 ∧ s = l.size + r.size ∧
      l.height ≤ r.height + 1 ∧ r.height ≤ l.height + 1) := Iff.rfl
@[simp] theorem inv_leaf (k : Key) (v : α) : (leaf k v).Inv := trivial

/-- closes invariant goals for explicitly built nodes -/
macro "inv_tac" : tactic => `(tactic|
  (simp only [inv_inner, inv_leaf, height_leaf, height_inner, size_leaf, size_inner, minKey_leaf, minKey_inner] at *
   (repeat' apply And.intro) <;> (first | assumption | trivial | omega)))

theorem height_nonneg {n : Node α} (h : n.Inv) : 0 ≤ n.height := by
  induction n with
  | leaf k v => simp
  | inner k ht s l r ihl ihr =>
    rw [inv_inner] at h
    have := ihl h.1; have := ihr h.2.1
    simp only [height_inner]; omega

theorem toList_exists_head (n : Node α) : ∃ v rest, n.toList = (n.minKey, v) :: rest := by
  induction n with
  | leaf k v => exact ⟨v, [], rfl⟩
  | inner k ht s l r ihl ihr =>
    obtain ⟨v, rest, h⟩ := ihl
    exact ⟨v, rest ++ r.toList, by simp [h]⟩

theorem minKey_mem (n : Node α) : n.minKey ∈ keys n.toList := by
  obtain ⟨v, rest, h⟩ := toList_exists_head n
  simp [h, keys]

theorem minKey_le {n : Node α} (h : Sorted n.toList) : ∀ x ∈ keys n.toList, n.minKey ≤ x := by
  obtain ⟨v, rest, hl⟩ := toList_exists_head n
  rw [hl, sorted_cons] at h
  intro x hx
  rw [hl, keys_cons, List.mem_cons] at hx
  rcases hx with rfl | hx
  · exact List.le_refl _
  · exact List.le_of_lt (h.1 x hx)

theorem size_eq_length {n : Node α} (h : n.Inv) : n.size = n.toList.length := by
  induction n with
  | leaf k v => simp
  | inner k ht s l r ihl ihr =>
    rw [inv_inner] at h
    have := ihl h.1; have := ihr h.2.1
    simp only [size_inner, toList_inner, List.length_append]
    omega

/-- what an inner node's invariant + sortedness say about routing -/
theorem bounds {k : Key} {ht s : Int} {l r : Node α}
    (hi : (inner k ht s l r).Inv) (hs : Sorted (l.toList ++ r.toList)) :
    Sorted l.toList ∧ Sorted r.toList ∧ (∀ x ∈ keys l.toList, x < k) ∧
    (∀ y ∈ keys r.toList, k ≤ y) ∧ k ∈ keys r.toList := by
  rw [inv_inner] at hi
  rw [sorted_append] at hs
  obtain ⟨h1, h2, h3⟩ := hs
  have hk : k = r.minKey := hi.2.2.1
  refine ⟨h1, h2, ?_, ?_, ?_⟩
  · intro x hx; exact h3 x hx k (hk ▸ minKey_mem r)
  · intro y hy; exact hk ▸ minKey_le h2 y hy
  · exact hk ▸ minKey_mem r

/-! ### balance -/

theorem balance_spec {k : Key} {h s : Int} {l r : Node α}
    (hl : l.Inv) (hr : r.Inv) (hk : k = r.minKey)
    (h1 : l.height ≤ r.height + 2) (h2 : r.height ≤ l.height + 2) :
    ∃ n', balance (calcHeightAndSize (inner k h s l r)) = .ok n' ∧ n'.Inv ∧
      n'.toList = l.toList ++ r.toList ∧
      (n'.height = max l.height r.height + 1 ∨
        (n'.height = max l.height r.height ∧ (l.height = r.height + 2 ∨ r.height = l.height + 2))) ∧
      ((l.height ≤ r.height + 1 ∧ r.height ≤ l.height + 1) → n'.height = max l.height r.height + 1) := by
  have hl0 := height_nonneg hl
  have hr0 := height_nonneg hr
  simp only [calcHeightAndSize, balance]
  split
  · -- left heavy
    rename_i hb
    cases l with
    | leaf lk lv => simp only [height_leaf] at hb; omega
    | inner lk lh ls ll lr =>
      have hl' := hl
      rw [inv_inner] at hl'
      obtain ⟨hll, hlr, hlk, hlh, hls, hb1, hb2⟩ := hl'
      have hll0 := height_nonneg hll
      have hlr0 := height_nonneg hlr
      simp only [calcBalance]
      split
      · -- Left Left
        simp only [rotateRight, calcHeightAndSize]
        refine ⟨_, rfl, ?_, by simp, ?_, ?_⟩
        · inv_tac
        · simp only [height_inner] at *; omega
        · simp only [height_inner] at *; omega
      · -- Left Right
        rename_i hlb
        cases lr with
        | leaf lrk lrv => simp only [height_leaf] at hlb; omega
        | inner lrk lrh lrs lrl lrr =>
          have hlr' := hlr
          rw [inv_inner] at hlr'
          obtain ⟨hlrl, hlrr, hlrk, hlrh, hlrs, hc1, hc2⟩ := hlr'
          have := height_nonneg hlrl
          have := height_nonneg hlrr
          simp only [rotateLeft, rotateRight, calcHeightAndSize]
          refine ⟨_, rfl, ?_, by simp, ?_, ?_⟩
          · inv_tac
          · simp only [height_inner] at *; omega
          · simp only [height_inner] at *; omega
  · split
    · -- right heavy
      rename_i hnb hb
      cases r with
      | leaf rk rv => simp only [height_leaf] at hb; omega
      | inner rk rh rs rl rr =>
        have hr' := hr
        rw [inv_inner] at hr'
        obtain ⟨hrl, hrr, hrk, hrh, hrs, hb1, hb2⟩ := hr'
        have hrl0 := height_nonneg hrl
        have hrr0 := height_nonneg hrr
        simp only [calcBalance]
        split
        · -- Right Right
          simp only [rotateLeft, calcHeightAndSize]
          refine ⟨_, rfl, ?_, by simp, ?_, ?_⟩
          · inv_tac
          · simp only [height_inner] at *; omega
          · simp only [height_inner] at *; omega
        · -- Right Left
          rename_i hrb
          cases rl with
          | leaf rlk rlv => simp only [height_leaf] at hrb; omega
          | inner rlk rlh rls rll rlr =>
            have hrl' := hrl
            rw [inv_inner] at hrl'
            obtain ⟨hrll, hrlr, hrlk, hrlh, hrls, hc1, hc2⟩ := hrl'
            have := height_nonneg hrll
            have := height_nonneg hrlr
            simp only [rotateLeft, rotateRight, calcHeightAndSize]
            refine ⟨_, rfl, ?_, by simp, ?_, ?_⟩
            · inv_tac
            · simp only [height_inner] at *; omega
            · simp only [height_inner] at *; omega
    · -- no rotation
      rename_i hnb1 hnb2
      refine ⟨_, rfl, ?_, rfl, Or.inl rfl, fun _ => rfl⟩
      inv_tac

/-! ### Set -/

theorem set_spec {n : Node α} (key : Key) (value : α) (hi : n.Inv) (hs : Sorted n.toList) :
    ∃ n' u, n.set key value = .ok (n', u) ∧ n'.Inv ∧
      n'.toList = OMap.insert key value n.toList ∧
      (u = true ↔ key ∈ keys n.toList) ∧
      (u = true → n'.height = n.height) ∧
      (n'.height = n.height ∨ n'.height = n.height + 1) := by
  induction n with
  | leaf nk nv =>
    simp only [set]
    split
    · rename_i hlt
      refine ⟨_, _, rfl, by inv_tac, by simp [OMap.insert, hlt], ?_, by simp, by simp⟩
      simp [keys]; grind
    · split
      · rename_i hnlt heq
        subst heq
        refine ⟨_, _, rfl, by simp, by simp [OMap.insert], by simp [keys], by simp, by simp⟩
      · rename_i hnlt hne
        refine ⟨_, _, rfl, by inv_tac, by simp [OMap.insert, hnlt, hne], ?_, by simp, by simp⟩
        simp [keys]; exact hne
  | inner nk h s l r ihl ihr =>
    obtain ⟨hsl, hsr, hbl, hbr, hmem⟩ := bounds hi hs
    have hi' := hi
    rw [inv_inner] at hi'
    obtain ⟨hil, hir, hk, hh, hsz, hb1, hb2⟩ := hi'
    simp only [toList_inner, height_inner] at *
    simp only [set]
    split
    · -- key < nk : into the left subtree
      rename_i hlt
      obtain ⟨l', u, hset, hil', htl, hu, huh, hhh⟩ := ihl hil hsl
      have hkr : ∀ y ∈ keys r.toList, key < y := fun y hy => by have := hbr y hy; grind
      have hnr : key ∉ keys r.toList := fun hy => by have := hkr key hy; grind
      simp only [hset]
      cases u with
      | true =>
        simp only [if_true]
        have hkl : key ∈ keys l.toList := hu.1 rfl
        have hlen : l'.size = l.size := by
          rw [size_eq_length hil', size_eq_length hil, htl, length_insert hsl]; simp [hkl]
        have := huh rfl
        refine ⟨_, _, rfl, ?_, ?_, ?_, by simp, by simp⟩
        · inv_tac
        · simp [htl, insert_append_left hkr]
        · simp [keys_append, hkl]
      | false =>
        have hkl : key ∉ keys l.toList := fun hm => by have := hu.2 hm; simp at this
        simp only [Bool.false_eq_true, if_false]
        obtain ⟨n', hbal, hin', htn', hh1, hh2⟩ :=
          balance_spec (k := nk) (h := h) (s := s) hil' hir hk (by omega) (by omega)
        simp only [hbal]
        refine ⟨_, _, rfl, hin', ?_, ?_, by simp, ?_⟩
        · simp [htn', htl, insert_append_left hkr]
        · simp [keys_append, hkl, hnr]
        · omega
    · -- key ≥ nk : into the right subtree
      rename_i hnlt
      obtain ⟨r', u, hset, hir', htr, hu, huh, hhh⟩ := ihr hir hsr
      have hkl : ∀ x ∈ keys l.toList, x < key := fun x hx => by have := hbl x hx; grind
      have hnl : key ∉ keys l.toList := fun hx => by have := hkl key hx; grind
      -- the smallest key of the right subtree is unchanged
      have hmin : r'.minKey = r.minKey := by
        obtain ⟨v, rest, hr0⟩ := toList_exists_head r
        obtain ⟨v', rest', hr1⟩ := toList_exists_head r'
        rw [hr0] at htr
        rw [hr1] at htr
        simp only [OMap.insert] at htr
        have : ¬ key < r.minKey := by rw [← hk]; exact hnlt
        simp only [this, if_false] at htr
        split at htr
        · simp only [List.cons.injEq, Prod.mk.injEq] at htr; rename_i he; rw [htr.1.1, he]
        · simp only [List.cons.injEq, Prod.mk.injEq] at htr; exact htr.1.1
      simp only [hset]
      cases u with
      | true =>
        simp only [if_true]
        have hkr : key ∈ keys r.toList := hu.1 rfl
        have hlen : r'.size = r.size := by
          rw [size_eq_length hir', size_eq_length hir, htr, length_insert hsr]; simp [hkr]
        have := huh rfl
        refine ⟨_, _, rfl, ?_, ?_, ?_, by simp, by simp⟩
        · rw [← hmin] at hk; inv_tac
        · simp [htr, insert_append_right hkl]
        · simp [keys_append, hkr]
      | false =>
        have hkr : key ∉ keys r.toList := fun hm => by have := hu.2 hm; simp at this
        simp only [Bool.false_eq_true, if_false]
        obtain ⟨n', hbal, hin', htn', hh1, hh2⟩ :=
          balance_spec (k := nk) (h := h) (s := s) hil hir' (by rw [hmin]; exact hk) (by omega) (by omega)
        simp only [hbal]
        refine ⟨_, _, rfl, hin', ?_, ?_, by simp, ?_⟩
        · simp [htn', htr, insert_append_right hkl]
        · simp [keys_append, hkr, hnl]
        · omega

/-! ### Remove -/

/-- the list represented by a possibly-nil node -/
def optList : Option (Node α) → List (Key × α)
  | none => []
  | some n => n.toList

theorem minKey_of_toList {a b : Node α} {rest : List (Key × α)}
    (h : a.toList = b.toList ++ rest) : a.minKey = b.minKey := by
  obtain ⟨v, r1, h1⟩ := toList_exists_head a
  obtain ⟨w, r2, h2⟩ := toList_exists_head b
  rw [h1, h2] at h
  simp only [List.cons_append, List.cons.injEq, Prod.mk.injEq] at h
  exact h.1.1

theorem remove_spec {n : Node α} (key : Key) (hi : n.Inv) (hs : Sorted n.toList) :
    ∃ nn nkey val rem, n.remove key = .ok (nn, nkey, val, rem) ∧
      val = lookup key n.toList ∧ (rem = true ↔ key ∈ keys n.toList) ∧
      (rem = false → nn = some n ∧ nkey = []) ∧
      (rem = true →
        optList nn = erase key n.toList ∧
        match nn with
        | none => n.height = 0 ∧ nkey = []
        | some n' => n'.Inv ∧ (n'.height = n.height ∨ n'.height + 1 = n.height) ∧
            nkey = (if key = n.minKey then n'.minKey else [])) := by
  induction n with
  | leaf nk nv =>
    simp only [remove]
    split
    · rename_i heq; subst heq
      refine ⟨_, _, _, _, rfl, by simp [lookup], by simp [keys], by simp, ?_⟩
      intro _; simp [optList, erase]
    · rename_i hne
      refine ⟨_, _, _, _, rfl, by simp [lookup, hne], by simp [keys, hne], by simp, by simp⟩
  | inner nk h s l r ihl ihr =>
    obtain ⟨hsl, hsr, hbl, hbr, hmem⟩ := bounds hi hs
    have hi' := hi
    rw [inv_inner] at hi'
    obtain ⟨hil, hir, hk, hh, hsz, hb1, hb2⟩ := hi'
    have hl0 := height_nonneg hil
    have hr0 := height_nonneg hir
    simp only [toList_inner, height_inner, minKey_inner] at *
    simp only [remove]
    split
    · -- key < nk : left subtree
      rename_i hlt
      obtain ⟨nl, newKey, val, rem, hrm, hval, hrem, hno, hyes⟩ := ihl hil hsl
      have hnr : key ∉ keys r.toList := fun hy => by have := hbr key hy; grind
      simp only [hrm]
      cases rem with
      | false =>
        have hkl : key ∉ keys l.toList := fun hm => by have := hrem.2 hm; simp at this
        refine ⟨_, _, _, _, rfl, ?_, ?_, by simp, by simp⟩
        · rw [lookup_append_left hnr]; exact hval
        · simp [keys_append, hkl, hnr]
      | true =>
        have hkl : key ∈ keys l.toList := hrem.1 rfl
        obtain ⟨herase, hmatch⟩ := hyes rfl
        simp only [Bool.not_true, Bool.false_eq_true, if_false]
        cases nl with
        | none =>
          simp only [optList] at herase
          obtain ⟨hlh, _⟩ := hmatch
          have hmin : key = l.minKey := by
            have hm := minKey_mem l
            refine Classical.byContradiction fun hne => ?_
            have : l.minKey ∈ keys (erase key l.toList) := (keys_erase key l.toList _).2 ⟨fun h => hne h.symm, hm⟩
            rw [← herase] at this
            simp [keys] at this
          refine ⟨_, _, _, _, rfl, ?_, ?_, by simp, ?_⟩
          · rw [lookup_append_left hnr]; exact hval
          · simp [keys_append, hkl]
          · intro _
            refine ⟨?_, hir, ?_, ?_⟩
            · simp [optList, erase_append, ← herase, erase_of_not_mem hnr]
            · omega
            · simp [hmin, hk]
        | some nl =>
          simp only [optList] at herase
          obtain ⟨hinl, hhl, hnk⟩ := hmatch
          obtain ⟨n', hbal, hin', htn', hh1, hh2⟩ :=
            balance_spec (k := nk) (h := h) (s := s) hinl hir hk (by omega) (by omega)
          simp only [hbal]
          refine ⟨_, _, _, _, rfl, ?_, ?_, by simp, ?_⟩
          · rw [lookup_append_left hnr]; exact hval
          · simp [keys_append, hkl]
          · intro _
            refine ⟨?_, hin', ?_, ?_⟩
            · simp [optList, htn', erase_append, herase, erase_of_not_mem hnr]
            · omega
            · rw [minKey_of_toList htn']; exact hnk
    · -- key ≥ nk : right subtree
      rename_i hnlt
      obtain ⟨nr, newKey, val, rem, hrm, hval, hrem, hno, hyes⟩ := ihr hir hsr
      have hnl : key ∉ keys l.toList := fun hx => by have := hbl key hx; grind
      have hnmin : key ≠ l.minKey := fun h => hnl (h ▸ minKey_mem l)
      simp only [hrm]
      cases rem with
      | false =>
        have hkr : key ∉ keys r.toList := fun hm => by have := hrem.2 hm; simp at this
        refine ⟨_, _, _, _, rfl, ?_, ?_, by simp, by simp⟩
        · rw [lookup_append_right hnl]; exact hval
        · simp [keys_append, hkr, hnl]
      | true =>
        have hkr : key ∈ keys r.toList := hrem.1 rfl
        obtain ⟨herase, hmatch⟩ := hyes rfl
        simp only [Bool.not_true, Bool.false_eq_true, if_false]
        cases nr with
        | none =>
          simp only [optList] at herase
          obtain ⟨hrh, _⟩ := hmatch
          refine ⟨_, _, _, _, rfl, ?_, ?_, by simp, ?_⟩
          · rw [lookup_append_right hnl]; exact hval
          · simp [keys_append, hkr]
          · intro _
            refine ⟨?_, hil, ?_, ?_⟩
            · simp [optList, erase_append, ← herase, erase_of_not_mem hnl]
            · omega
            · simp [hnmin]
        | some nr =>
          simp only [optList] at herase
          obtain ⟨hinr, hhr, hnk⟩ := hmatch
          -- the refreshed routing key is the smallest key of the new right subtree
          have hnk' : (if newKey ≠ [] then newKey else nk) = nr.minKey := by
            by_cases hkm : key = r.minKey
            · simp only [hkm, if_true] at hnk
              have hm := minKey_mem nr
              rw [herase] at hm
              have hm' := (keys_erase key r.toList _).1 hm
              have hle := minKey_le hsr _ hm'.2
              have hlt : key < nr.minKey := by grind
              have hne : nr.minKey ≠ [] := by
                intro h0; rw [h0] at hlt; exact List.not_lt_nil _ hlt
              simp [hnk, hne]
            · simp only [hkm, if_false] at hnk
              obtain ⟨v, rest, hr0⟩ := toList_exists_head r
              obtain ⟨v', rest', hr1⟩ := toList_exists_head nr
              rw [hr0, hr1] at herase
              have : r.minKey ≠ key := fun h => hkm h.symm
              simp only [erase, List.filter_cons, ne_eq, this, not_false_eq_true, decide_true, if_true,
                List.cons.injEq, Prod.mk.injEq] at herase
              simp [hnk, hk, herase.1.1]
          obtain ⟨n', hbal, hin', htn', hh1, hh2⟩ :=
            balance_spec (k := if newKey ≠ [] then newKey else nk) (h := h) (s := s) hil hinr hnk' (by omega) (by omega)
          simp only [hbal]
          refine ⟨_, _, _, _, rfl, ?_, ?_, by simp, ?_⟩
          · rw [lookup_append_right hnl]; exact hval
          · simp [keys_append, hkr]
          · intro _
            refine ⟨?_, hin', ?_, ?_⟩
            · simp [optList, htn', erase_append, herase, erase_of_not_mem hnl]
            · omega
            · simp [hnmin]

end Node
end GnoVerif.C50
