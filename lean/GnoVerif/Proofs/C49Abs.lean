import GnoVerif.Proofs.C49Thms
/-! C49: refinement of the sequential specification "list of remaining ids in insertion order". -/
namespace GnoVerif.C49
set_option linter.unusedSimpArgs false

/-! ### filtered ranges -/

theorem getLast?_filter_range_succ (p : Nat → Bool) (n : Nat) :
    ((List.range (n+1)).filter p).getLast? =
      if p n then some n else ((List.range n).filter p).getLast? := by
  rw [List.range_succ, List.filter_append, List.getLast?_append]
  by_cases h : p n = true
  · simp [h]
  · simp [h]

theorem getLast?_filter_range_some {p : Nat → Bool} {n t : Nat} (ht : t < n) (hp : p t = true)
    (hall : ∀ j, t < j → j < n → p j = false) : ((List.range n).filter p).getLast? = some t := by
  induction n with
  | zero => omega
  | succ n ih =>
    rw [getLast?_filter_range_succ]
    by_cases htn : t = n
    · subst htn; simp [hp]
    · have : p n = false := hall n (by omega) (by omega)
      simp only [this]
      exact ih (by omega) (fun j h1 h2 => hall j h1 (by omega))

theorem filter_range_nil {p : Nat → Bool} {n : Nat} (hall : ∀ j, j < n → p j = false) :
    (List.range n).filter p = [] := by
  rw [List.filter_eq_nil_iff]
  intro a ha
  have := hall a (List.mem_range.1 ha)
  simp [this]

theorem length_filter_range (r : Nat → Bool) (n : Nat) :
    ((List.range n).filter (fun i => !r i)).length = cnt r n := by
  induction n with
  | zero => rfl
  | succ n ih =>
    rw [List.range_succ, List.filter_append, List.length_append, ih]
    simp only [cnt]
    by_cases h : r n = true <;> simp [h]

/-! ### observations = observations of the abstract list -/

theorem head_eq_remaining {s : State} (hI : Inv s) : s.head = (remaining s).head? := by
  unfold remaining
  rw [List.head?_filter]
  rcases hh : s.head with _ | h
  · symm; rw [List.find?_range_eq_none]
    intro i hi
    have := hI.list.head_none hh i hi
    simp [this]
  · symm; rw [List.find?_range_eq_some]
    obtain ⟨a, b, c⟩ := hI.list.head_some h hh
    refine ⟨by simp [b], List.mem_range.2 a, fun j hj => by simp [c j hj]⟩

theorem tail_eq_remaining {s : State} (hI : Inv s) : s.tail = (remaining s).getLast? := by
  unfold remaining
  rcases hh : s.tail with _ | t
  · rw [filter_range_nil]; rfl
    intro j hj; simp [hI.list.tail_none hh j hj]
  · obtain ⟨a, b, c⟩ := hI.list.tail_some t hh
    symm
    exact getLast?_filter_range_some a (by simp [b]) (fun j h1 h2 => by simp [c j h1 h2])

theorem len_eq_remaining {s : State} (hI : Inv s) : s.len = ((remaining s).length : Int) := by
  rw [hI.list.len_eq]; unfold remaining liveCount
  rw [length_filter_range]

/-- `Next()` of an element in the list is its successor in the abstract list. -/
theorem next_eq_remaining {s : State} (hI : Inv s) {i : Nat} (hi : i < s.size) (hl : s.rem i = false) :
    (s.elems i).next = ((remaining s).filter (fun j => decide (i < j))).head? := by
  unfold remaining
  rw [List.filter_filter, List.head?_filter]
  rcases hn : (s.elems i).next with _ | n
  · symm; rw [List.find?_range_eq_none]
    intro j hj
    have hg := (next_none_iff hI hi hl).1 hn
    by_cases hij : i < j
    · simp [hg j hij hj]
    · simp [hij]
  · symm; rw [List.find?_range_eq_some]
    obtain ⟨a, b, c, d⟩ := (next_some_iff hI hi hl n).1 hn
    refine ⟨by simp [a, c], List.mem_range.2 b, fun j hj => ?_⟩
    by_cases hij : i < j
    · simp [d j hij hj]
    · simp [hij]

/-! ### steps = operations of the abstract list -/

theorem remaining_push {s : State} (hI : Inv s) :
    (stepR s .push).2 = .pushed s.size ∧ remaining (step s .push) = remaining s ++ [s.size] := by
  obtain ⟨s', h1, hS⟩ := stepR_push hI
  refine ⟨by rw [h1], ?_⟩
  simp only [step, h1]; unfold remaining
  rw [hS.size, List.range_succ, List.filter_append]
  congr 1
  · apply List.filter_congr
    intro j hj
    rw [hS.rem_old (List.mem_range.1 hj)]
  · simp [hS.rem_new]

theorem remaining_remove {s : State} (hI : Inv s) {e : Nat} (he : e < s.size) (hr : s.rem e = false) :
    (stepR s (.remove e)).2 = .ok ∧
    remaining (step s (.remove e)) = (remaining s).filter (fun j => j != e) := by
  obtain ⟨s', h1, hS⟩ := stepR_remove_legal hI he hr
  refine ⟨by rw [h1], ?_⟩
  simp only [step, h1]; unfold remaining
  rw [hS.size, List.filter_filter]
  apply List.filter_congr
  intro j _
  rw [hS.rem j]
  by_cases hje : j = e <;> cases hrj : s.rem j <;> simp [hje, hrj, bne]

/-- steps other than a push or a removal leave the abstract list alone (whatever the state). -/
theorem tstep_frame (s : State) (t : Nat) : (tstep s t).size = s.size ∧ (tstep s t).elems = s.elems := by
  rcases hst : (s.travs t).st with _ | w | e | ⟨e, w⟩ | _
  · simp only [tstep, hst]; exact ⟨trivial, trivial⟩
  · rcases w with _ | g
    · rcases hh : s.head with _ | h <;> simp only [tstep, hst, hh] <;> exact ⟨rfl, rfl⟩
    · simp only [tstep, hst]; split <;> exact ⟨rfl, rfl⟩
  · simp only [tstep, hst]; exact ⟨trivial, trivial⟩
  · rcases w with _ | g
    · simp only [tstep, hst]; split
      · rcases hn : (s.elems e).next with _ | n <;> simp only [] <;> exact ⟨rfl, rfl⟩
      · exact ⟨rfl, rfl⟩
    · simp only [tstep, hst]; split <;> exact ⟨rfl, rfl⟩
  · simp only [tstep, hst]; exact ⟨trivial, trivial⟩

theorem remaining_other (s : State) (op : Op) (h1 : op ≠ .push) (h2 : ∀ e, op ≠ .remove e) :
    remaining (step s op) = remaining s := by
  have key : (step s op).size = s.size ∧ ∀ j, (step s op).rem j = s.rem j := by
    unfold step stepR
    by_cases hp : s.poisoned = true
    · simp [hp]
    · simp only [hp]
      cases op with
      | push => exact absurd rfl h1
      | remove e => exact absurd rfl (h2 e)
      | detachPrev e =>
        simp only [Bool.false_eq_true, if_false]
        repeat' split
        all_goals first
          | exact ⟨rfl, fun _ => rfl⟩
          | (refine ⟨rfl, fun j => ?_⟩
             by_cases hj : j = e <;> simp_all [State.rem, State.setElem])
      | detachNext e =>
        simp only [Bool.false_eq_true, if_false]
        repeat' split
        all_goals first
          | exact ⟨rfl, fun _ => rfl⟩
          | (refine ⟨rfl, fun j => ?_⟩
             by_cases hj : j = e <;> simp_all [State.rem, State.setElem])
      | tfront t =>
        simp only [Bool.false_eq_true, if_false]
        split <;> exact ⟨rfl, fun _ => rfl⟩
      | tnext t =>
        simp only [Bool.false_eq_true, if_false]
        repeat' split
        all_goals exact ⟨rfl, fun _ => rfl⟩
      | tnextNow t =>
        simp only [Bool.false_eq_true, if_false]
        repeat' split
        all_goals exact ⟨rfl, fun _ => rfl⟩
      | tstep t =>
        simp only [Bool.false_eq_true, if_false]
        have := tstep_frame s t
        exact ⟨this.1, fun j => by unfold State.rem; rw [this.2]⟩
  unfold remaining
  rw [key.1]
  apply List.filter_congr
  intro j _
  rw [key.2]

end GnoVerif.C49
