import GnoVerif.Model.C54
/-! Helper definitions and lemmas for Props/C54.lean. -/
namespace GnoVerif.C54

variable {ν : Type} [DecidableEq ν]

/-- what `DeleteNamedImport` compares: import name and path -/
def Imp.key (i : Imp ν) : Alias ν × ν := (i.alias, i.path)

/-- a plain or an aliased import (neither `_` nor `.`) -/
def Imp.ordinary (i : Imp ν) : Prop := i.alias ≠ .blank ∧ i.alias ≠ .dot

/-- the local name an import declares (meaningful for ordinary imports) -/
def Imp.name (i : Imp ν) : ν :=
  match i.alias with
  | .named n => n
  | _ => i.pkg

theorem lookupName_ordinary {i : Imp ν} (h : i.ordinary) : i.lookupName = some i.name := by
  obtain ⟨a, p, k⟩ := i
  cases a <;> simp_all [Imp.ordinary, Imp.lookupName, Imp.name]

theorem deletes_ordinary {i : Imp ν} (h : i.ordinary) (s : Imp ν) :
    i.deletes s = true ↔ s.key = i.key := by
  obtain ⟨a, p, k⟩ := i
  obtain ⟨a', p', k'⟩ := s
  cases a <;> simp_all [Imp.ordinary, Imp.deletes, Imp.key, and_comm]

theorem wanted_ordinary {i : Imp ν} (h : i.ordinary) (st : CState ν) :
    wanted st i = true ↔ i.name ∈ st.unres := by
  simp [wanted, lookupName_ordinary h]

/-! ### the cleanup loop as a pure function (valid under the guard) -/

/-- delete a name from the `unresolved` set -/
def remove (n : ν) (u : List ν) : List ν := u.filter (fun x => !decide (x = n))

theorem mem_remove {n m : ν} {u : List ν} : m ∈ remove n u ↔ m ∈ u ∧ m ≠ n := by
  simp [remove]

theorem remove_filter (n : ν) (u : List ν) (P : ν → Bool) :
    remove n (u.filter P) = u.filter (fun m => P m && !decide (m = n)) := by
  simp [remove, List.filter_filter, Bool.and_comm]

/-- which imports survive, and what is left of `unresolved` -/
def keepAux : List ν → List (Imp ν) → List (Imp ν) × List ν
  | u, [] => ([], u)
  | u, i :: rest =>
    if i.name ∈ u then
      let r := keepAux (remove i.name u) rest
      (i :: r.1, r.2)
    else keepAux u rest

theorem filter_drop_key (kpre suf : List (Imp ν)) (i : Imp ν) (hi : i.ordinary)
    (hnd : ((kpre ++ i :: suf).map Imp.key).Nodup) :
    (kpre ++ i :: suf).filter (fun s => ! i.deletes s) = kpre ++ suf := by
  have hk : ∀ s ∈ kpre, s.key ≠ i.key := by
    intro s hs e
    rw [List.map_append, List.map_cons, List.nodup_append] at hnd
    exact hnd.2.2 _ (List.mem_map_of_mem hs) _ (List.mem_cons_self) e
  have hs : ∀ s ∈ suf, s.key ≠ i.key := by
    intro s hs e
    rw [List.map_append, List.map_cons, List.nodup_append] at hnd
    have := (List.nodup_cons.1 hnd.2.1).1
    exact this (e ▸ List.mem_map_of_mem hs)
  rw [List.filter_append, List.filter_cons]
  have h1 : kpre.filter (fun s => ! i.deletes s) = kpre := by
    apply List.filter_eq_self.2
    intro s hs'
    have := hk s hs'
    have hd : i.deletes s = false := by
      cases hdd : i.deletes s
      · rfl
      · exact absurd ((deletes_ordinary hi s).1 hdd) this
    simp [hd]
  have h2 : suf.filter (fun s => ! i.deletes s) = suf := by
    apply List.filter_eq_self.2
    intro s hs'
    have := hs s hs'
    have hd : i.deletes s = false := by
      cases hdd : i.deletes s
      · rfl
      · exact absurd ((deletes_ordinary hi s).1 hdd) this
    simp [hd]
  have h3 : i.deletes i = true := (deletes_ordinary hi i).2 rfl
  simp [h1, h2, h3]

theorem cleanup_fold_eq (suf kpre : List (Imp ν)) (u : List ν)
    (hord : ∀ i ∈ suf, i.ordinary)
    (hnd : ((kpre ++ suf).map Imp.key).Nodup) :
    suf.foldl cleanupStep ⟨kpre ++ suf, u⟩ = ⟨kpre ++ (keepAux u suf).1, (keepAux u suf).2⟩ := by
  induction suf generalizing kpre u with
  | nil => simp [keepAux]
  | cons i suf ih =>
    have hi : i.ordinary := hord i (by simp)
    have hord' : ∀ j ∈ suf, j.ordinary := fun j hj => hord j (by simp [hj])
    rw [List.foldl_cons]
    by_cases hw : i.name ∈ u
    · have hwt : wanted ⟨kpre ++ i :: suf, u⟩ i = true := (wanted_ordinary hi _).2 hw
      have hstep : cleanupStep ⟨kpre ++ i :: suf, u⟩ i =
          ⟨(kpre ++ [i]) ++ suf, remove i.name u⟩ := by
        simp only [cleanupStep, hwt, if_true, lookupName_ordinary hi, remove]
        congr 1
        · simp
        · apply List.filter_congr
          intro m _
          simp
      rw [hstep, ih (kpre ++ [i]) _ hord' (by simpa using hnd)]
      simp [keepAux, hw]
    · have hwf : wanted ⟨kpre ++ i :: suf, u⟩ i = false := by
        cases h : wanted ⟨kpre ++ i :: suf, u⟩ i
        · rfl
        · exact absurd ((wanted_ordinary hi _).1 h) hw
      have hnd' : ((kpre ++ suf).map Imp.key).Nodup := by
        refine hnd.sublist (List.Sublist.map _ ?_)
        exact List.Sublist.append (List.Sublist.refl _) (List.sublist_cons_self _ _)
      have hstep : cleanupStep ⟨kpre ++ i :: suf, u⟩ i = ⟨kpre ++ suf, u⟩ := by
        simp only [cleanupStep, hwf, Bool.false_eq_true, if_false]
        rw [filter_drop_key kpre suf i hi hnd]
      rw [hstep, ih kpre u hord' hnd']
      simp [keepAux, hw]

/-- Under the guard the cleanup loop is `keepAux`. -/
theorem cleanup_eq_keepAux (env : Env ν) (imps : List (Imp ν))
    (hord : ∀ i ∈ imps, i.ordinary) (hnd : (imps.map Imp.key).Nodup) :
    cleanup env imps = ⟨(keepAux env.used imps).1, (keepAux env.used imps).2⟩ := by
  have := cleanup_fold_eq imps [] env.used hord (by simpa using hnd)
  simpa [cleanup] using this

theorem keepAux_spec (u : List ν) (imps : List (Imp ν)) :
    (keepAux u imps).1.Sublist imps ∧
    ((keepAux u imps).1.map Imp.name).Nodup ∧
    (∀ i ∈ (keepAux u imps).1, i.name ∈ u) ∧
    (keepAux u imps).2 = u.filter (fun n => n ∉ (keepAux u imps).1.map Imp.name) := by
  induction imps generalizing u with
  | nil =>
    refine ⟨by simp [keepAux], by simp [keepAux], by simp [keepAux], ?_⟩
    simp only [keepAux, List.map_nil, List.not_mem_nil, not_false_eq_true, decide_true]
    exact (List.filter_eq_self.2 (by simp)).symm
  | cons i rest ih =>
    by_cases hw : i.name ∈ u
    · obtain ⟨h1, h2, h3, h4⟩ := ih (remove i.name u)
      simp only [keepAux, hw, if_true]
      refine ⟨h1.cons_cons i, ?_, ?_, ?_⟩
      · rw [List.map_cons, List.nodup_cons]
        refine ⟨?_, h2⟩
        intro hm
        obtain ⟨j, hj, hje⟩ := List.mem_map.1 hm
        have := (mem_remove.1 (h3 j hj)).2
        exact this hje
      · intro j hj
        rcases List.mem_cons.1 hj with rfl | hj
        · exact hw
        · exact (mem_remove.1 (h3 j hj)).1
      · rw [h4]
        unfold remove
        rw [List.filter_filter]
        apply List.filter_congr
        intro m _
        by_cases hm : m = i.name <;> simp [hm]
    · obtain ⟨h1, h2, h3, h4⟩ := ih u
      simp only [keepAux, hw, if_false]
      exact ⟨h1.cons i, h2, h3, h4⟩

/-- every used name that some import declares is still declared by a surviving import -/
theorem keepAux_provides (u : List ν) (imps : List (Imp ν)) (i : Imp ν)
    (hi : i ∈ imps) (hu : i.name ∈ u) : ∃ j ∈ (keepAux u imps).1, j.name = i.name := by
  induction imps generalizing u with
  | nil => cases hi
  | cons h rest ih =>
    by_cases hw : h.name ∈ u
    · simp only [keepAux, hw, if_true]
      by_cases he : h.name = i.name
      · exact ⟨h, by simp, he⟩
      · rcases List.mem_cons.1 hi with rfl | hi'
        · exact absurd rfl he
        · obtain ⟨j, hj, hje⟩ := ih (remove h.name u) hi'
            (mem_remove.2 ⟨hu, fun e => he e.symm⟩)
          exact ⟨j, List.mem_cons_of_mem _ hj, hje⟩
    · simp only [keepAux, hw, if_false]
      rcases List.mem_cons.1 hi with rfl | hi'
      · exact absurd hu hw
      · exact ih u hi' hu

/-- the first import that declares a used name survives -/
theorem keepAux_first (u : List ν) (pre suf : List (Imp ν)) (i : Imp ν)
    (hu : i.name ∈ u) (hpre : ∀ j ∈ pre, j.name ≠ i.name) :
    i ∈ (keepAux u (pre ++ i :: suf)).1 := by
  induction pre generalizing u with
  | nil => simp [keepAux, hu]
  | cons h rest ih =>
    have hne : h.name ≠ i.name := hpre h (by simp)
    have hrest : ∀ j ∈ rest, j.name ≠ i.name := fun j hj => hpre j (by simp [hj])
    by_cases hw : h.name ∈ u
    · simp only [List.cons_append, keepAux, hw, if_true]
      have := ih (remove h.name u) (mem_remove.2 ⟨hu, fun e => hne e.symm⟩) hrest
      exact List.mem_cons_of_mem _ this
    · simp only [List.cons_append, keepAux, hw, if_false]
      exact ih u hu hrest

/-! ### the resolve loop -/

theorem addStep_prefix (env : Env ν) (cur : List (Imp ν)) (n : ν) :
    addStep env cur n = cur ∨
    ∃ p, env.resolve n = some p ∧ addStep env cur n = cur ++ [⟨.none, p, n⟩] ∧
      ¬ ∃ s ∈ cur, s.alias = .none ∧ s.path = p := by
  unfold addStep
  cases hr : env.resolve n with
  | none => simp
  | some p =>
    by_cases ha : cur.any (fun s => decide (s.alias = .none) && decide (s.path = p)) = true
    · simp [ha]
    · right
      refine ⟨p, rfl, by simp [ha], ?_⟩
      rintro ⟨s, hs, h1, h2⟩
      apply ha
      rw [List.any_eq_true]
      exact ⟨s, hs, by simp [h1, h2]⟩

theorem addStep_has (env : Env ν) (cur : List (Imp ν)) (n p : ν) (hr : env.resolve n = some p) :
    ∃ s ∈ addStep env cur n, s.alias = .none ∧ s.path = p := by
  unfold addStep
  rw [hr]
  by_cases ha : cur.any (fun s => decide (s.alias = .none) && decide (s.path = p)) = true
  · simp only [ha, if_true]
    rw [List.any_eq_true] at ha
    obtain ⟨s, hs, h⟩ := ha
    exact ⟨s, hs, by simpa using h⟩
  · simp only [ha, Bool.false_eq_true, if_false]
    exact ⟨⟨.none, p, n⟩, by simp, rfl, rfl⟩

theorem addStep_mono (env : Env ν) (cur : List (Imp ν)) (n : ν) (s : Imp ν) (hs : s ∈ cur) :
    s ∈ addStep env cur n := by
  rcases addStep_prefix env cur n with h | ⟨p, _, h, _⟩ <;> rw [h] <;> simp [hs]

theorem addFold_mono (env : Env ν) (ns : List ν) (cur : List (Imp ν)) (s : Imp ν) (hs : s ∈ cur) :
    s ∈ ns.foldl (addStep env) cur := by
  induction ns generalizing cur with
  | nil => exact hs
  | cons n ns ih => exact ih _ (addStep_mono env cur n s hs)

/-- the result of the resolve loop: the old specs, then the added ones -/
theorem addFold_spec (env : Env ν) (ns : List ν) (cur : List (Imp ν)) :
    ∃ added : List (Imp ν), ns.foldl (addStep env) cur = cur ++ added ∧
      (added.map Imp.name).Sublist ns ∧
      (∀ s ∈ added, s.alias = .none ∧ s.name ∈ ns ∧ env.resolve s.name = some s.path) := by
  induction ns generalizing cur with
  | nil => exact ⟨[], by simp⟩
  | cons n ns ih =>
    rw [List.foldl_cons]
    rcases addStep_prefix env cur n with h | ⟨p, hr, h, _⟩
    · obtain ⟨added, h1, h2, h3⟩ := ih cur
      rw [h]
      exact ⟨added, h1, h2.cons n, fun s hs => ⟨(h3 s hs).1, List.mem_cons_of_mem _ (h3 s hs).2.1, (h3 s hs).2.2⟩⟩
    · obtain ⟨added, h1, h2, h3⟩ := ih (cur ++ [⟨.none, p, n⟩])
      rw [h]
      refine ⟨⟨.none, p, n⟩ :: added, by simpa using h1, ?_, ?_⟩
      · simpa [Imp.name] using h2.cons_cons n
      · intro s hs
        rcases List.mem_cons.1 hs with rfl | hs
        · exact ⟨rfl, by simp [Imp.name], by simpa [Imp.name] using hr⟩
        · exact ⟨(h3 s hs).1, List.mem_cons_of_mem _ (h3 s hs).2.1, (h3 s hs).2.2⟩

theorem addFold_closed (env : Env ν) (ns : List ν) (cur : List (Imp ν)) (n p : ν)
    (hn : n ∈ ns) (hr : env.resolve n = some p) :
    ∃ s ∈ ns.foldl (addStep env) cur, s.alias = .none ∧ s.path = p := by
  induction ns generalizing cur with
  | nil => cases hn
  | cons m ns ih =>
    rw [List.foldl_cons]
    rcases List.mem_cons.1 hn with rfl | hn'
    · obtain ⟨s, hs, h⟩ := addStep_has env cur n p hr
      exact ⟨s, addFold_mono env ns _ s hs, h⟩
    · exact ih _ hn'

/-! ### stability -/

/-- an import list the formatter leaves alone, in whatever order it is written -/
structure Stable (env : Env ν) (L : List (Imp ν)) : Prop where
  ordinary : ∀ i ∈ L, i.ordinary
  names_nodup : (L.map Imp.name).Nodup
  names_used : ∀ i ∈ L, i.name ∈ env.used
  closed : ∀ n ∈ env.used, n ∉ env.known → n ∉ L.map Imp.name → ∀ p, env.resolve n = some p →
    ∃ s ∈ L, s.alias = .none ∧ s.path = p

theorem Stable.perm {env : Env ν} {L L' : List (Imp ν)} (h : Stable env L) (hp : L'.Perm L) :
    Stable env L' where
  ordinary := fun i hi => h.ordinary i (hp.mem_iff.1 hi)
  names_nodup := ((hp.map Imp.name).nodup_iff).2 h.names_nodup
  names_used := fun i hi => h.names_used i (hp.mem_iff.1 hi)
  closed := fun n hn hk hnm p hr => by
    obtain ⟨s, hs, h'⟩ := h.closed n hn hk
      (fun hm => hnm (((hp.map Imp.name).mem_iff).2 hm)) p hr
    exact ⟨s, hp.mem_iff.2 hs, h'⟩

theorem cleanup_stable_fold (env : Env ν) (suf pre cur : List (Imp ν))
    (hord : ∀ i ∈ suf, i.ordinary)
    (hnd : ((pre ++ suf).map Imp.name).Nodup)
    (hused : ∀ i ∈ suf, i.name ∈ env.used) :
    suf.foldl cleanupStep ⟨cur, env.used.filter (fun n => n ∉ pre.map Imp.name)⟩ =
      ⟨cur, env.used.filter (fun n => n ∉ (pre ++ suf).map Imp.name)⟩ := by
  induction suf generalizing pre with
  | nil => simp
  | cons i suf ih =>
    have hi : i.ordinary := hord i (by simp)
    have hnp : i.name ∉ pre.map Imp.name := by
      rw [List.map_append, List.map_cons, List.nodup_append] at hnd
      intro hm
      exact hnd.2.2 _ hm _ (List.mem_cons_self) rfl
    have hin : i.name ∈ env.used.filter (fun n => n ∉ pre.map Imp.name) :=
      List.mem_filter.2 ⟨hused i (by simp), by simpa using hnp⟩
    have hwt : wanted ⟨cur, env.used.filter (fun n => n ∉ pre.map Imp.name)⟩ i = true :=
      (wanted_ordinary hi _).2 hin
    rw [List.foldl_cons]
    have hstep : cleanupStep ⟨cur, env.used.filter (fun n => n ∉ pre.map Imp.name)⟩ i =
        ⟨cur, env.used.filter (fun n => n ∉ (pre ++ [i]).map Imp.name)⟩ := by
      simp only [cleanupStep, hwt, if_true, lookupName_ordinary hi]
      congr 1
      rw [List.filter_filter]
      apply List.filter_congr
      intro m _
      simp [eq_comm, and_comm]
    rw [hstep, ih (pre ++ [i]) (fun j hj => hord j (by simp [hj])) (by simpa using hnd)
      (fun j hj => hused j (by simp [hj]))]
    simp

theorem addFold_id (env : Env ν) (ns : List ν) (L : List (Imp ν))
    (h : ∀ n ∈ ns, ∀ p, env.resolve n = some p → ∃ s ∈ L, s.alias = .none ∧ s.path = p) :
    ns.foldl (addStep env) L = L := by
  induction ns with
  | nil => rfl
  | cons n ns ih =>
    rw [List.foldl_cons]
    have : addStep env L n = L := by
      rcases addStep_prefix env L n with h' | ⟨p, hr, _, hno⟩
      · exact h'
      · exact absurd (h n (by simp) p hr) hno
    rw [this]
    exact ih (fun m hm => h m (by simp [hm]))

/-- an import that lets the file write `n.Sel` -/
def Imp.provides (i : Imp ν) (n : ν) : Prop :=
  (i.alias = .none ∧ i.pkg = n) ∨ i.alias = .named n

theorem provides_name {i : Imp ν} (h : i.ordinary) (n : ν) : i.provides n ↔ i.name = n := by
  obtain ⟨a, p, k⟩ := i
  cases a <;> simp_all [Imp.ordinary, Imp.provides, Imp.name]

/-! ### facts that need no guard -/

theorem deletes_blank (j s : Imp ν) (hs : s.alias = .blank) : j.deletes s = false := by
  obtain ⟨a, p, k⟩ := j
  obtain ⟨a', p', k'⟩ := s
  simp only at hs
  subst hs
  cases a <;> simp [Imp.deletes]

theorem cleanupStep_keeps_blank (st : CState ν) (j s : Imp ν) (hs : s.alias = .blank)
    (hm : s ∈ st.cur) : s ∈ (cleanupStep st j).cur := by
  unfold cleanupStep
  split
  · exact hm
  · exact List.mem_filter.2 ⟨hm, by simp [deletes_blank j s hs]⟩

theorem cleanupFold_keeps_blank (js : List (Imp ν)) (st : CState ν) (s : Imp ν) (hs : s.alias = .blank)
    (hm : s ∈ st.cur) : s ∈ (js.foldl cleanupStep st).cur := by
  induction js generalizing st with
  | nil => exact hm
  | cons j js ih => exact ih _ (cleanupStep_keeps_blank st j s hs hm)

theorem cleanupStep_unres_subset (st : CState ν) (j : Imp ν) (n : ν)
    (hn : n ∈ (cleanupStep st j).unres) : n ∈ st.unres := by
  unfold cleanupStep at hn
  split at hn
  · exact (List.mem_filter.1 hn).1
  · exact hn

theorem cleanupFold_unres_subset (js : List (Imp ν)) (st : CState ν) (n : ν)
    (hn : n ∈ (js.foldl cleanupStep st).unres) : n ∈ st.unres := by
  induction js generalizing st with
  | nil => exact hn
  | cons j js ih => exact cleanupStep_unres_subset st j n (ih _ hn)

end GnoVerif.C54
