import GnoVerif.Proofs.C42Stream
/-!
C42 helper lemmas, part 5: an adversarial wire.  Under `NoForgery` the receiver's
counter only ever advances over the sender's own frames in the sender's order, so
what `Read` returns — however the caller sizes its buffers, and even if it keeps
reading after errors — is a prefix of what was written.
-/
namespace GnoVerif.C42

theorem noForgery_drop (A : AEAD) (k : Bytes) (c0 : Nat) (sent : List Fr) (wire : Bytes)
    (h : NoForgery A k c0 sent wire) (h1 : sealedFrameSize ≤ wire.length) :
    NoForgery A k c0 sent (wire.drop sealedFrameSize) := by
  intro s hs j f hj ho
  refine h s ?_ j f hj ho
  rw [windows_take_drop wire h1]
  exact List.mem_cons_of_mem _ hs

theorem noForgery_nil (A : AEAD) (k : Bytes) (c0 : Nat) (sent : List Fr) : NoForgery A k c0 sent [] := by
  intro s hs
  rw [windows_short [] (by decide)] at hs
  cases hs

/-- the receiver has accepted exactly the sender's first `p` frames -/
structure Adv (k : Bytes) (c0 : Nat) (sent : List Fr) (p : Nat) (sc : SC) : Prop where
  hp : p ≤ sent.length
  key : sc.recvKey = k
  nonce : sc.recvNonce = nonceOf (c0 + p)

section
variable (A : AEAD) (k : Bytes) (c0 : Nat) (sent : List Fr)
variable (hC : A.Correct k) (hwf : ∀ f ∈ sent, f.WF)
variable (hroom : c0 + sent.length ≤ maxUint64)
include hC hwf hroom

/-- one `Read` on an arbitrary wire without forgeries -/
theorem read_adv (p : Nat) (sc : SC) (conn pre : Bytes) (size : Nat)
    (h : Adv k c0 sent p sc) (hpre : payload (sent.take p) = pre ++ sc.recvBuffer)
    (hnf : NoForgery A k c0 sent conn) :
    (read A sc conn size).err ≠ some .panicNonce ∧
    NoForgery A k c0 sent (read A sc conn size).conn ∧
    ∃ q, Adv k c0 sent q (read A sc conn size).sc ∧
      payload (sent.take q) = pre ++ (read A sc conn size).data ++ (read A sc conn size).sc.recvBuffer := by
  by_cases hb : sc.recvBuffer = []
  · by_cases h0 : conn = []
    · subst h0
      rw [read_eof A sc size hb]
      exact ⟨by simp, hnf, p, h, by simpa using hpre⟩
    · by_cases h1 : conn.length < sealedFrameSize
      · rw [read_short A sc conn size hb h0 h1]
        exact ⟨by simp, noForgery_nil A k c0 sent, p, h, by simpa using hpre⟩
      · have h1' : sealedFrameSize ≤ conn.length := Nat.le_of_not_lt h1
        cases ho : A.doOpen sc.recvKey sc.recvNonce (conn.take sealedFrameSize) with
        | none =>
          rw [read_reject A sc conn size hb h1' ho]
          exact ⟨by simp, noForgery_drop A k c0 sent conn hnf h1', p, h, by simpa using hpre⟩
        | some f =>
          -- the window opened: it is the sender's frame number p
          have hmem : conn.take sealedFrameSize ∈ windows conn := by
            rw [windows_take_drop conn h1']; exact List.mem_cons_self
          have hj : c0 + p < 2 ^ 64 := by
            have := h.hp; rw [maxUint64_eq] at hroom; omega
          rw [h.key, h.nonce] at ho
          obtain ⟨p', hp', hjp, hs⟩ := hnf _ hmem (c0 + p) f hj ho
          have hpp : p' = p := by omega
          subst hpp
          have hfw : sent[p'].WF := hwf _ (List.getElem_mem hp')
          have hf : f = mkFrame sent[p'] := by
            rw [hs, sealedAt, hC] at ho
            exact (Option.some.inj ho).symm
          subst hf
          have hc : c0 + p' < maxUint64 := by omega
          have ho' : A.doOpen sc.recvKey sc.recvNonce (conn.take sealedFrameSize) =
              some (mkFrame sent[p']) := by rw [h.key, h.nonce]; exact ho
          rw [read_accept A sc conn size (c0 + p') sent[p'] hb h1' h.nonce hc hfw.2 ho']
          refine ⟨by simp, noForgery_drop A k c0 sent conn hnf h1', p' + 1, ⟨hp', h.key, ?_⟩, ?_⟩
          · show nonceOf (c0 + p' + 1) = nonceOf (c0 + (p' + 1))
            rw [Nat.add_assoc]
          · show payload (sent.take (p' + 1)) = pre ++ sent[p'].take _ ++ sent[p'].drop _
            rw [payload_take_succ sent p' hp', hpre, hb, List.append_nil, List.append_assoc,
              List.take_append_drop]
  · rw [read_buffer A sc conn size hb]
    refine ⟨by simp, hnf, p, ⟨h.hp, h.key, h.nonce⟩, ?_⟩
    show payload (sent.take p) = pre ++ sc.recvBuffer.take _ ++ sc.recvBuffer.drop _
    rw [hpre, List.append_assoc, List.take_append_drop]

/-- any sequence of `Read`s, continuing after errors -/
theorem readAll_adv (sizes : List Nat) : ∀ (p : Nat) (sc : SC) (conn pre : Bytes),
    Adv k c0 sent p sc → payload (sent.take p) = pre ++ sc.recvBuffer →
    NoForgery A k c0 sent conn →
    ∃ q, Adv k c0 sent q (readAll A sc conn sizes).1 ∧
      payload (sent.take q) =
        pre ++ delivered (readAll A sc conn sizes).2.2 ++ (readAll A sc conn sizes).1.recvBuffer ∧
      ∀ x ∈ (readAll A sc conn sizes).2.2, x.2 ≠ some .panicNonce := by
  induction sizes with
  | nil =>
    intro p sc conn pre h hpre _
    exact ⟨p, h, by simpa [readAll, delivered] using hpre, by simp [readAll]⟩
  | cons size rest ih =>
    intro p sc conn pre h hpre hnf
    obtain ⟨hnp, hnf', q, hq, hpay⟩ := read_adv A k c0 sent hC hwf hroom p sc conn pre size h hpre hnf
    obtain ⟨q', hq', hpay', hnp'⟩ := ih q _ _ (pre ++ (read A sc conn size).data) hq hpay hnf'
    refine ⟨q', ?_, ?_, ?_⟩
    · simp only [readAll, hnp, if_false]; exact hq'
    · simp only [readAll, hnp, if_false, delivered, List.map_cons, List.flatten_cons]
      rw [hpay']; simp [delivered, List.append_assoc]
    · simp only [readAll, hnp, if_false]
      intro x hx
      rcases List.mem_cons.1 hx with rfl | hx
      · exact hnp
      · exact hnp' x hx

end

/-! ### rearrangements of the sender's frames cannot be forgeries under nonce binding -/

theorem sealList_mem (A : AEAD) (k : Bytes) (c : Nat) (fs : List Fr) (s : Bytes)
    (h : s ∈ sealList A k c fs) : ∃ p, ∃ hp : p < fs.length, s = sealedAt A k (c + p) fs[p] := by
  induction fs generalizing c with
  | nil => simp [sealList] at h
  | cons f fs ih =>
    simp only [sealList, List.mem_cons] at h
    rcases h with rfl | h
    · exact ⟨0, by simp, rfl⟩
    · obtain ⟨p, hp, hs⟩ := ih (c + 1) h
      refine ⟨p + 1, by simp; omega, ?_⟩
      rw [hs]
      simp only [List.getElem_cons_succ]
      rw [show c + 1 + p = c + (p + 1) by omega]

theorem noForgery_of_nonceBinding (A : AEAD) (k : Bytes) (c0 : Nat) (sent : List Fr) (wire : Bytes)
    (hB : A.NonceBinding k) (hroom : c0 + sent.length ≤ maxUint64)
    (hsub : ∀ s ∈ windows wire, s ∈ sealList A k c0 sent) :
    NoForgery A k c0 sent wire := by
  intro s hs j f hj ho
  obtain ⟨p, hp, hsp⟩ := sealList_mem A k c0 sent s (hsub s hs)
  refine ⟨p, hp, ?_, hsp⟩
  apply Classical.byContradiction
  intro hne
  have hcp : c0 + p < 2 ^ 64 := by rw [maxUint64_eq] at hroom; omega
  have := hB (c0 + p) j (mkFrame sent[p]) hcp hj (fun e => hne e.symm)
  rw [hsp, sealedAt, this] at ho
  cases ho

/-! ### the toy AEAD used by the `example`s of Props/C42.lean -/

/-- the first 16 bytes of `n ‖ 00…` -/
def toyTag (n : Bytes) : Bytes := (n ++ List.replicate 16 0).take 16

/-- "encryption" = identity, tag = the nonce padded to 16 bytes: round-trips, adds 16 bytes,
    binds the nonce (it hides nothing and authenticates nothing else) -/
def toyAEAD : AEAD where
  doSeal := fun _ n m => m ++ toyTag n
  doOpen := fun _ n c =>
    if c.length ≥ 16 ∧ c.drop (c.length - 16) = toyTag n then some (c.take (c.length - 16)) else none

theorem toyTag_length (n : Bytes) : (toyTag n).length = 16 := by simp [toyTag]

theorem toy_correct (k : Bytes) : toyAEAD.Correct k := by
  intro n m
  have h16 := toyTag_length n
  simp only [toyAEAD, List.length_append, h16]
  have h1 : m.length + 16 - 16 = m.length := by omega
  rw [h1, List.drop_left, List.take_left]
  simp

theorem toy_overhead (k : Bytes) : toyAEAD.Overhead k := by
  intro n m
  simp [toyAEAD, toyTag_length, aeadSizeOverhead_eq]

theorem toyTag_eq (n : Bytes) (h : n.length = 12) : toyTag n = n ++ [0, 0, 0, 0] := by
  unfold toyTag
  rw [List.take_append, h, List.take_of_length_le (by omega)]
  rfl

theorem toy_nonceBinding (k : Bytes) : toyAEAD.NonceBinding k := by
  intro c c' m hc hc' hne
  simp only [toyAEAD]
  rw [if_neg]
  rintro ⟨_, h⟩
  rw [List.length_append, toyTag_length] at h
  have h1 : m.length + 16 - 16 = m.length := by omega
  rw [h1, List.drop_left, toyTag_eq _ (nonceOf_length c), toyTag_eq _ (nonceOf_length c')] at h
  exact hne (nonceOf_injective c c' hc hc' (List.append_cancel_right h))

end GnoVerif.C42
