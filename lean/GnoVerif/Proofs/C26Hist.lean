/-
Proofs.C26Hist — every operation preserves the state invariant, every read in
contract is consistent, by induction for every disciplined history.
-/
import GnoVerif.Proofs.C26Run

set_option linter.unusedSimpArgs false
set_option linter.unusedVariables false

namespace GnoVerif.C26
open GnoVerif

theorem inContract_some {h : Handle} (hc : inContract (some h) = true) :
    h.fastOpt = true → h.ensured = true := by
  intro hf
  simp only [inContract, hf, Bool.not_true, Bool.false_or] at hc
  exact hc

theorem prune_cases (db : DB) (h : Handle) (to : Ver) :
    (prune db h to).1 = none ∨
    ((prune db h to).1 = some (db, h) ∧ to < h.first) ∨
    ((prune db h to).1 = some (pruneDB db h to, { h with first := to + 1 }) ∧ to < h.version) := by
  unfold prune
  split
  · exact Or.inl rfl
  · split
    · rename_i hlt; exact Or.inr (Or.inl ⟨rfl, hlt⟩)
    · split
      · exact Or.inl rfl
      · split
        · exact Or.inl rfl
        · rename_i hv; exact Or.inr (Or.inr ⟨rfl, Nat.lt_of_not_le hv⟩)

theorem inv_prune {st : State} (hi : Inv st) {slot : Nat} (hs0 : slot = 0) {db' : DB} {h' : Handle} {to : Ver}
    (hd : DBInv db') (hH' : HInv db' h') (hW' : WInv db' h')
    (hother : ∀ g, HInv st.db g → to < g.version → HInv db' g)
    (hview : ∀ v, VInv st.db v → to < v.version → VInv db' v) :
    Inv { db := db',
          hs := fun j => if j = slot then some h' else
                  match st.hs j with
                  | some g => if g.version ≤ to then none else some g
                  | none => none,
          vs := fun j => match st.vs j with
                  | some v => if v.version ≤ to then none else some v
                  | none => none } := by
  refine ⟨hd, ?_, ?_, ?_⟩
  · intro i g hg
    simp only at hg
    split at hg
    · cases hg; exact hH'
    · split at hg
      · rename_i g' hg'
        split at hg
        · simp at hg
        · rename_i hgv
          cases hg
          exact hother g (hi.hs i g hg') (Nat.lt_of_not_le hgv)
      · simp at hg
  · intro g hg
    simp only at hg
    rw [if_pos hs0.symm] at hg
    cases hg; exact hW'
  · intro i v hv
    simp only at hv
    split at hv
    · rename_i v' hv'
      split at hv
      · simp at hv
      · rename_i hvv
        cases hv
        exact hview v (hi.vs i v hv') (Nat.lt_of_not_le hvv)
    · simp at hv

theorem step_inv (st : State) (op : Op) (hi : Inv st) (hok : opOK st op = true) :
    Inv (step st op).1 := by
  cases op with
  | open_ slot fast mode skew =>
    simp only [step, stepWith]
    split
    · exact hi
    · rename_i hb
      obtain ⟨hd, hf, hv, hsc, hh⟩ := openHandle_openOK hi.db fast mode skew
      generalize openHandle ensureDecision st.db fast mode skew = r at hd hf hv hsc hh
      obtain ⟨db', ho, o⟩ := r
      have hskew : slot = 0 → skew = 0 := by
        intro e
        refine Decidable.byContradiction (fun hne => hb ⟨e, hne⟩)
      exact inv_change hi hd hf slot ho (fun h e => (hh h e).1)
        (fun h e es => (hh h e).2 (hskew es))
        (fun hne g hg => (hi.w g hg).transport hv hsc)
  | set slot k v =>
    simp only [step, stepWith]
    split
    · exact hi
    · rename_i hs0
      have hs0 : slot = 0 := Decidable.of_not_not hs0
      split
      · exact hi
      · rename_i h hh
        split
        · exact hi
        · split
          · exact hi
          · split
            · exact hi
            · rename_i val
              exact inv_set_handle hi slot _ (set_hinv (hi.hs slot h hh) k val)
                (fun _ => set_winv (hi.w h (hs0 ▸ hh)) k val)
  | remove slot k =>
    simp only [step, stepWith]
    split
    · exact hi
    · rename_i hs0
      have hs0 : slot = 0 := Decidable.of_not_not hs0
      split
      · exact hi
      · rename_i h hh
        split
        · exact hi
        · exact inv_set_handle hi slot _ (remove_hinv (hi.hs slot h hh) k)
            (fun _ => remove_winv (hi.w h (hs0 ▸ hh)) k)
  | save slot =>
    simp only [step, stepWith]
    split
    · exact hi
    · rename_i hs0
      have hs0 : slot = 0 := Decidable.of_not_not hs0
      split
      · exact hi
      · rename_i h hh
        have hc : h.fastOpt = true → h.ensured = true := by
          simp only [opOK, hh] at hok
          exact inContract_some hok
        obtain ⟨hd, hf, hH, hW⟩ := save_spec .normal hi.db (hi.hs slot h hh) (hi.w h (hs0 ▸ hh)) hc
        generalize save st.db h .normal = r at hd hf hH hW
        obtain ⟨db', h', o⟩ := r
        exact inv_change hi hd hf slot (some h') (fun g e => by cases e; exact hH)
          (fun g e _ => by cases e; exact hW) (fun hne => absurd hs0 hne)
  | failsave slot =>
    simp only [step, stepWith]
    split
    · exact hi
    · rename_i hs0
      have hs0 : slot = 0 := Decidable.of_not_not hs0
      split
      · exact hi
      · rename_i h hh
        have hc : h.fastOpt = true → h.ensured = true := by
          simp only [opOK, hh] at hok
          exact inContract_some hok
        obtain ⟨hd, hf, hH, hW⟩ := save_spec .fail hi.db (hi.hs slot h hh) (hi.w h (hs0 ▸ hh)) hc
        generalize save st.db h .fail = r at hd hf hH hW
        obtain ⟨db', h', o⟩ := r
        exact inv_change hi hd hf slot (some h') (fun g e => by cases e; exact hH)
          (fun g e _ => by cases e; exact hW) (fun hne => absurd hs0 hne)
  | rollback slot =>
    simp only [step, stepWith]
    split
    · exact hi
    · rename_i hs0
      have hs0 : slot = 0 := Decidable.of_not_not hs0
      split
      · exact hi
      · rename_i h hh
        exact inv_set_handle hi slot _ (rollback_hinv (hi.hs slot h hh))
          (fun _ => rollback_winv (hi.w h (hs0 ▸ hh)))
  | prune slot to =>
    simp only [step, stepWith]
    split
    · exact hi
    · rename_i hs0
      have hs0 : slot = 0 := Decidable.of_not_not hs0
      split
      · exact hi
      · rename_i h hh
        have hH := hi.hs slot h hh
        have hW := hi.w h (hs0 ▸ hh)
        have hpc := prune_cases st.db h to
        generalize prune st.db h to = r at hpc
        obtain ⟨x, o⟩ := r
        cases x with
        | none => exact hi
        | some y =>
          obtain ⟨db', h'⟩ := y
          simp only [Option.some.injEq, Prod.mk.injEq] at hpc
          rcases hpc with hpc | ⟨⟨e1, e2⟩, _⟩ | ⟨⟨e1, e2⟩, hlt⟩
          · simp at hpc
          · subst e1; subst e2
            exact inv_prune hi hs0 hi.db hH hW (fun g hg _ => hg) (fun v hv _ => hv)
          · subst e1; subst e2
            exact inv_prune hi hs0 (prune_inv hi.db hH hW hlt)
              (prune_hinv hi.db hH hW hlt (g := { h with first := to + 1 })
                ⟨hH.savedOk, hH.cleanOk, hH.delta, hH.stage, hH.nostage, hH.covered⟩ hlt)
              (prune_winv hi.db hH hW hlt)
              (fun g hg hgv => prune_hinv hi.db hH hW hlt hg hgv)
              (fun v hv hvv => prune_vinv hi.db hH hW hlt hv hvv)
  | get slot k =>
    simp only [step, stepWith]
    split
    · exact hi
    · split <;> exact hi
  | getv slot k v =>
    simp only [step, stepWith]
    split
    · exact hi
    · split <;> exact hi
  | imm slot vslot v =>
    simp only [step, stepWith]
    split
    · exact hi
    · rename_i h hh
      split
      · refine ⟨hi.db, hi.hs, hi.w, ?_⟩
        intro i w hw
        have hw : upd st.vs vslot none i = some w := hw
        by_cases e : i = vslot
        · subst e; rw [upd_same] at hw; simp at hw
        · rw [upd_other _ _ e] at hw; exact hi.vs i w hw
      · rename_i vw hvw
        refine ⟨hi.db, hi.hs, hi.w, ?_⟩
        intro i w hw
        have hw : upd st.vs vslot (some vw) i = some w := hw
        by_cases e : i = vslot
        · subst e; rw [upd_same] at hw; cases hw; exact getImmutable_vinv hvw
        · rw [upd_other _ _ e] at hw; exact hi.vs i w hw
  | vget vslot k =>
    simp only [step, stepWith]
    split <;> exact hi
  | crashsave => exact inv_dropAll (st := st) hi.db
  | crashprune to => exact inv_dropAll (st := st) hi.db
  | crashopen fast n =>
    simp only [step, stepWith]
    cases hr : loadReadonly st.db fast 0 with
    | none => exact inv_dropAll (st := st) hi.db
    | some r =>
      obtain ⟨g, v⟩ := r
      simp only
      split
      · exact inv_dropAll (st := st) hi.db
      · rename_i hv0
        cases he : ensureDecision st.db g with
        | noop => exact inv_dropAll (st := st) hi.db
        | ahead => exact inv_dropAll (st := st) hi.db
        | rebuild =>
          simp only
          rcases loadReadonly_cases hr with ⟨h0, _, _⟩ | ⟨_, hvmax, hl⟩
          · exact absurd h0 hv0
          · obtain ⟨hfr, hgv, _, _, _, _⟩ := loadAt_fresh hi.db hl
            have hgtree : st.db.tree g.version = some g.work := by
              have := hfr.saved
              rw [hgv] at this ⊢
              simp only [hv0, if_false] at this
              rw [hfr.work]; exact this
            obtain ⟨_, hlt⟩ := ensure_rebuild he
            exact inv_dropAll (st := st)
              (rebuild_take_inv hi.db hgtree (fun S hS => Nat.le_of_lt (hlt S hS)) n).1
  | delstamp => exact inv_dropAll (st := st) (delStampW_inv hi.db)
  | crashimport n => exact inv_dropAll (st := st) (drop_take_inv hi.db n)
  | dump => exact hi
  | stress => exact hi

def Out.isRead : Out → Bool
  | .read _ _ => true
  | _ => false

theorem consistent_of_not_read {o : Out} (h : o.isRead = false) : o.consistent = true := by
  cases o <;> simp_all [Out.isRead, Out.consistent]

theorem loadWith_notRead (rule : DB → Handle → Ensure) (db : DB) (fo : Bool) (skew : Nat) :
    (loadWith rule db fo skew).2.2.isRead = false := by
  unfold loadWith
  repeat' split
  all_goals rfl

theorem loadVersion_notRead (db : DB) (fo : Bool) (skew : Nat) (v : Ver) :
    (loadVersion db fo skew v).2.isRead = false := by
  unfold loadVersion
  simp only
  split <;> rfl

theorem openHandle_notRead (rule : DB → Handle → Ensure) (db : DB) (fo : Bool) (mode : Mode) (skew : Nat) :
    (openHandle rule db fo mode skew).2.2.isRead = false := by
  cases mode with
  | load => exact loadWith_notRead rule db fo skew
  | ro =>
    simp only [openHandle]
    split <;> rfl
  | lv v =>
    simp only [openHandle]
    split
    · exact loadWith_notRead rule db fo skew
    · exact loadVersion_notRead db fo skew v
  | loadlv v =>
    have h1 := loadWith_notRead rule db fo skew
    simp only [openHandle]
    generalize loadWith rule db fo skew = L at h1
    obtain ⟨db', ho, o⟩ := L
    simp only at h1
    cases ho with
    | none => exact h1
    | some g =>
      cases o with
      | okN lv =>
        simp only
        split
        · rfl
        · have h2 := loadVersion_notRead db' fo skew v
          generalize loadVersion db' fo skew v = R at h2
          obtain ⟨ho', o'⟩ := R
          cases ho' with
          | none => exact h2
          | some g' => rfl
      | _ => exact h1

theorem save_notRead (db : DB) (h : Handle) (kind : SaveKind) : (save db h kind).2.2.isRead = false := by
  unfold save
  dsimp only
  repeat' split
  all_goals rfl

theorem prune_notRead (db : DB) (h : Handle) (to : Ver) : (prune db h to).2.isRead = false := by
  unfold prune
  repeat' split
  all_goals rfl

theorem step_consistent (st : State) (op : Op) (hi : Inv st) (hok : opOK st op = true) :
    (step st op).2.consistent = true := by
  cases op with
  | get slot k =>
    simp only [step, stepWith]
    split
    · rfl
    · rename_i h hh
      split
      · rfl
      · have hc : h.fastOpt = true → h.ensured = true := by
          simp only [opOK, hh] at hok
          exact inContract_some hok
        simp only [Out.consistent, handle_get_eq_walk' hi.db (hi.hs slot h hh) hc k, beq_self_eq_true]
  | getv slot k v =>
    simp only [step, stepWith]
    split
    · rfl
    · rename_i h hh
      split
      · rfl
      · rename_i vw hvw
        simp only [Out.consistent, view_get_eq_walk' hi.db (getImmutable_vinv hvw) k, beq_self_eq_true]
  | vget vslot k =>
    simp only [step, stepWith]
    split
    · rfl
    · rename_i vw hvw
      simp only [Out.consistent, view_get_eq_walk' hi.db (hi.vs vslot vw hvw) k, beq_self_eq_true]
  | open_ slot fast mode skew =>
    simp only [step, stepWith]
    split
    · rfl
    · have h1 := openHandle_notRead ensureDecision st.db fast mode skew
      generalize openHandle ensureDecision st.db fast mode skew = r at h1
      obtain ⟨db', ho, o⟩ := r
      exact consistent_of_not_read h1
  | set slot k v =>
    simp only [step, stepWith]
    repeat' split
    all_goals rfl
  | remove slot k =>
    simp only [step, stepWith]
    repeat' split
    all_goals rfl
  | save slot =>
    simp only [step, stepWith]
    split
    · rfl
    · split
      · rfl
      · rename_i h hh
        have h1 := save_notRead st.db h .normal
        generalize save st.db h .normal = r at h1
        obtain ⟨db', h', o⟩ := r
        exact consistent_of_not_read h1
  | failsave slot =>
    simp only [step, stepWith]
    split
    · rfl
    · split
      · rfl
      · rename_i h hh
        have h1 := save_notRead st.db h .fail
        generalize save st.db h .fail = r at h1
        obtain ⟨db', h', o⟩ := r
        exact consistent_of_not_read h1
  | rollback slot =>
    simp only [step, stepWith]
    repeat' split
    all_goals rfl
  | prune slot to =>
    simp only [step, stepWith]
    split
    · rfl
    · split
      · rfl
      · rename_i h hh
        have h1 := prune_notRead st.db h to
        generalize prune st.db h to = r at h1
        obtain ⟨x, o⟩ := r
        cases x with
        | none => exact consistent_of_not_read h1
        | some y => obtain ⟨db', h'⟩ := y; exact consistent_of_not_read h1
  | imm slot vslot v =>
    simp only [step, stepWith]
    repeat' split
    all_goals rfl
  | crashsave => rfl
  | crashprune to => rfl
  | crashopen fast n =>
    simp only [step, stepWith]
    repeat' split
    all_goals rfl
  | delstamp => rfl
  | crashimport n => rfl
  | dump => rfl
  | stress => rfl

theorem run_spec (st : State) (ops : List Op) (hi : Inv st) (hd : Disciplined ensureDecision st ops) :
    Inv (run st ops).1 ∧ (run st ops).2.all Out.consistent = true := by
  induction ops generalizing st with
  | nil => exact ⟨hi, rfl⟩
  | cons op ops ih =>
    obtain ⟨hok, hrest⟩ := hd
    have h1 := step_inv st op hi hok
    have h2 := step_consistent st op hi hok
    obtain ⟨h3, h4⟩ := ih (step st op).1 h1 hrest
    refine ⟨h3, ?_⟩
    show (List.all ((step st op).2 :: (run (step st op).1 ops).2) Out.consistent) = true
    simp only [List.all_cons, h2, Bool.true_and]
    exact h4

/-- `Disciplined` is decidable (used by the concrete example histories). -/
instance decDisciplined (rule : DB → Handle → Ensure) :
    ∀ (st : State) (ops : List Op), Decidable (Disciplined rule st ops)
  | _, [] => isTrue trivial
  | st, op :: ops =>
    have := decDisciplined rule (stepWith rule st op).1 ops
    inferInstanceAs (Decidable (opOK st op = true ∧ Disciplined rule (stepWith rule st op).1 ops))

end GnoVerif.C26
