/-
Helper lemmas for C22, part 2: the cacheMergeIterator state machine (`skipUntil`,
`drain`) equals a plain structural merge (`mergeSpec`), and what that merge
contains when both inputs are ordered in the iteration direction.  Core-only.
-/
import GnoVerif.Model.C22Spec

namespace GnoVerif.C22
open GnoVerif GnoVerif.Lex GnoVerif.OMap

/-- "before" in iteration direction. -/
def dirLt (asc : Bool) (a b : Bytes) : Prop := if asc then a < b else b < a

theorem cmpDir_lt_iff {asc : Bool} {a b : Bytes} : cmpDir asc a b = .lt ↔ dirLt asc a b := by
  cases asc
  · simp only [cmpDir, dirLt, Bool.false_eq_true, if_false, cmp_swap]; exact cmp_lt_iff
  · simp only [cmpDir, dirLt, if_true]; exact cmp_lt_iff

theorem cmpDir_gt_iff {asc : Bool} {a b : Bytes} : cmpDir asc a b = .gt ↔ dirLt asc b a := by
  rw [← cmpDir_lt_iff, ← cmpDir_swap asc a b]
  cases cmpDir asc a b <;> simp

theorem cmpDir_eq_iff {asc : Bool} {a b : Bytes} : cmpDir asc a b = .eq ↔ a = b := by
  cases asc
  · simp only [cmpDir, Bool.false_eq_true, if_false, cmp_swap]
    rw [cmp_eq_iff]; exact eq_comm
  · simp only [cmpDir, if_true]; exact cmp_eq_iff

theorem dirLt_irrefl (asc : Bool) (a : Bytes) : ¬ dirLt asc a a := by
  cases asc <;> simp [dirLt, Lex.lt_irrefl]

theorem dirLt_trans {asc : Bool} {a b c : Bytes} : dirLt asc a b → dirLt asc b c → dirLt asc a c := by
  cases asc <;> simp only [dirLt, Bool.false_eq_true, if_false, if_true] <;> grind

theorem dirLt_asymm {asc : Bool} {a b : Bytes} : dirLt asc a b → ¬ dirLt asc b a := by
  cases asc <;> simp only [dirLt, Bool.false_eq_true, if_false, if_true] <;> grind

/-- ordered in iteration direction (strictly, by key). -/
def SortedDir (asc : Bool) (l : List Item) : Prop := l.Pairwise (fun x y => dirLt asc x.1 y.1)

/-- the plain merge: parent items, overridden by cache items with the same key;
cache items whose value is nil are delete markers and yield nothing. -/
def mergeSpec (asc : Bool) : List Item → List Item → List Item
  | [], cs => cs.filter (fun c => c.2.isSome)
  | p :: ps, [] => p :: ps
  | p :: ps, c :: cs =>
    match cmpDir asc p.1 c.1 with
    | .lt => p :: mergeSpec asc ps (c :: cs)
    | .eq => if c.2.isSome then (p.1, c.2) :: mergeSpec asc ps cs else mergeSpec asc ps cs
    | .gt => if c.2.isSome then c :: mergeSpec asc (p :: ps) cs else mergeSpec asc (p :: ps) cs
termination_by ps cs => ps.length + cs.length

theorem mergeSpec_nil_right (asc : Bool) (ps : List Item) : mergeSpec asc ps [] = ps := by
  cases ps <;> simp [mergeSpec]

/-- what one round of the iterator loop emits after `skipUntil`, with `rec` for the rest. -/
def emit (asc : Bool) (rec : List Item → List Item → List Item) : List Item × List Item → List Item
  | ([], []) => []
  | ([], c :: cs') => c :: rec [] cs'
  | (p :: ps', []) => p :: rec ps' []
  | (p :: ps', c :: cs') =>
    match cmpDir asc p.1 c.1 with
    | .lt => p :: rec ps' (c :: cs')
    | .eq => (p.1, c.2) :: rec ps' cs'
    | .gt => c :: rec (p :: ps') cs'

theorem drain_eq_emit (asc : Bool) (ps cs : List Item) :
    drain asc ps cs = emit asc (drain asc) (skipUntil asc ps cs) := by
  rw [drain]
  split <;> rename_i h <;> rw [h] <;> simp only [emit]
  split <;> rename_i h2 <;> simp [h2]

theorem skipCacheDeletes_none_filter (asc : Bool) (cs : List Item) :
    cs.filter (fun c => c.2.isSome) =
      match skipCacheDeletes asc none cs with
      | [] => []
      | c :: t => c :: t.filter (fun c => c.2.isSome) := by
  induction cs with
  | nil => simp [skipCacheDeletes]
  | cons c cs ih =>
    simp only [skipCacheDeletes, skippable, Bool.and_true]
    cases hv : c.2 with
    | none => simp [List.filter_cons, hv, ih]
    | some v => simp [List.filter_cons, hv]

theorem mergeSpec_skipCacheDeletes (asc : Bool) (p : Item) (ps cs : List Item) :
    mergeSpec asc (p :: ps) (skipCacheDeletes asc (some p.1) cs) = mergeSpec asc (p :: ps) cs := by
  induction cs with
  | nil => simp [skipCacheDeletes]
  | cons c cs ih =>
    simp only [skipCacheDeletes]
    by_cases hs : skippable asc (some p.1) c = true
    · simp only [hs, if_true, ih]
      simp only [skippable, Bool.and_eq_true, beq_iff_eq] at hs
      have hgt : cmpDir asc p.1 c.1 = .gt := by
        rw [← cmpDir_swap, hs.2]; rfl
      have hn : c.2.isSome = false := by
        cases hv : c.2 <;> simp_all
      have : mergeSpec asc (p :: ps) (c :: cs) = mergeSpec asc (p :: ps) cs := by
        rw [mergeSpec]; simp [hgt, hn]
      rw [this]
    · simp [hs]

/-- the structural merge satisfies the same one-round equation as the iterator. -/
theorem mergeSpec_eq_emit (asc : Bool) (ps cs : List Item) :
    mergeSpec asc ps cs = emit asc (mergeSpec asc) (skipUntil asc ps cs) := by
  fun_induction skipUntil asc ps cs with
  | case1 cs =>
    rw [mergeSpec, skipCacheDeletes_none_filter asc cs]
    cases skipCacheDeletes asc none cs with
    | nil => simp [emit]
    | cons c t => simp [emit, mergeSpec]
  | case2 p ps => simp [emit, mergeSpec, mergeSpec_nil_right]
  | case3 p ps c cs h => simp [emit, mergeSpec, h]
  | case4 p ps c cs h hn ih =>
    rw [← ih, mergeSpec]
    have : c.2.isSome = false := by cases hv : c.2 <;> simp_all
    simp [h, this]
  | case5 p ps c cs h hn =>
    have : c.2.isSome = true := by cases hv : c.2 <;> simp_all
    simp [emit, mergeSpec, h, this]
  | case6 p ps c cs h hn ih =>
    rw [← ih, mergeSpec_skipCacheDeletes]
  | case7 p ps c cs h hn =>
    have : c.2.isSome = true := by cases hv : c.2 <;> simp_all
    simp [emit, mergeSpec, h, this]

/-- **the cacheMergeIterator yields exactly the structural merge.** -/
theorem drain_eq_mergeSpec (asc : Bool) (ps cs : List Item) :
    drain asc ps cs = mergeSpec asc ps cs := by
  generalize hn : ps.length + cs.length = n
  induction n using Nat.strongRecOn generalizing ps cs with
  | _ n ih =>
    rw [drain_eq_emit, mergeSpec_eq_emit]
    have hlen := skip_length_le asc ps cs
    generalize skipUntil asc ps cs = st at hlen
    obtain ⟨ps', cs'⟩ := st
    simp only at hlen
    match ps', cs', hlen with
    | [], [], _ => rfl
    | [], c :: t, hlen =>
      simp only [emit, List.length_cons, List.length_nil] at hlen ⊢
      rw [ih (0 + t.length) (by omega) [] t (by simp)]
    | p :: t, [], hlen =>
      simp only [emit, List.length_cons, List.length_nil] at hlen ⊢
      rw [ih (t.length + 0) (by omega) t [] (by simp)]
    | p :: t, c :: u, hlen =>
      simp only [emit, List.length_cons] at hlen ⊢
      split
      · rw [ih (t.length + (u.length + 1)) (by omega) t (c :: u) (by simp)]
      · rw [ih (t.length + u.length) (by omega) t u rfl]
      · rw [ih (t.length + 1 + u.length) (by omega) (p :: t) u (by simp)]

/-! ### contents of the merge of two direction-ordered lists -/

theorem sortedDir_cons {asc : Bool} {x : Item} {l : List Item} :
    SortedDir asc (x :: l) ↔ (∀ y ∈ l, dirLt asc x.1 y.1) ∧ SortedDir asc l :=
  List.pairwise_cons

theorem mem_mergeSpec (asc : Bool) (ps cs : List Item)
    (hp : SortedDir asc ps) (hc : SortedDir asc cs) (x : Item) :
    x ∈ mergeSpec asc ps cs ↔
      (x ∈ cs ∧ x.2.isSome = true) ∨ (x ∈ ps ∧ ∀ y ∈ cs, y.1 ≠ x.1) := by
  fun_induction mergeSpec asc ps cs with
  | case1 cs => simp
  | case2 p ps => simp
  | case3 p ps c cs h ih =>
    have hp' := sortedDir_cons.1 hp
    have hc' := sortedDir_cons.1 hc
    have hlt := cmpDir_lt_iff.1 h
    rw [List.mem_cons, ih hp'.2 hc]
    constructor
    · rintro (rfl | h1 | h1)
      · right
        refine ⟨by simp, ?_⟩
        intro y hy heq
        rcases List.mem_cons.1 hy with rfl | hy
        · rw [heq] at hlt; exact dirLt_irrefl _ _ hlt
        · have := dirLt_trans hlt (hc'.1 y hy)
          rw [heq] at this; exact dirLt_irrefl _ _ this
      · exact Or.inl h1
      · exact Or.inr ⟨List.mem_cons_of_mem _ h1.1, h1.2⟩
    · rintro (h1 | ⟨h1, h2⟩)
      · exact Or.inr (Or.inl h1)
      · rcases List.mem_cons.1 h1 with rfl | h1
        · exact Or.inl rfl
        · exact Or.inr (Or.inr ⟨h1, h2⟩)
  | case4 p ps c cs h hs ih =>
    have hp' := sortedDir_cons.1 hp
    have hc' := sortedDir_cons.1 hc
    have heq : p.1 = c.1 := cmpDir_eq_iff.1 h
    rw [List.mem_cons, ih hp'.2 hc'.2]
    constructor
    · rintro (rfl | ⟨h1, h2⟩ | ⟨h1, h2⟩)
      · left
        refine ⟨?_, hs⟩
        rw [heq]; simp
      · exact Or.inl ⟨List.mem_cons_of_mem _ h1, h2⟩
      · right
        refine ⟨List.mem_cons_of_mem _ h1, ?_⟩
        intro y hy
        rcases List.mem_cons.1 hy with rfl | hy
        · intro e
          have := hp'.1 x h1
          rw [heq, e] at this; exact dirLt_irrefl _ _ this
        · exact h2 y hy
    · rintro (⟨h1, h2⟩ | ⟨h1, h2⟩)
      · rcases List.mem_cons.1 h1 with rfl | h1
        · left; rw [heq]
        · exact Or.inr (Or.inl ⟨h1, h2⟩)
      · rcases List.mem_cons.1 h1 with rfl | h1
        · exact absurd heq.symm (h2 c (by simp))
        · exact Or.inr (Or.inr ⟨h1, fun y hy => h2 y (List.mem_cons_of_mem _ hy)⟩)
  | case5 p ps c cs h hs ih =>
    have hp' := sortedDir_cons.1 hp
    have hc' := sortedDir_cons.1 hc
    have heq : p.1 = c.1 := cmpDir_eq_iff.1 h
    rw [ih hp'.2 hc'.2]
    constructor
    · rintro (⟨h1, h2⟩ | ⟨h1, h2⟩)
      · exact Or.inl ⟨List.mem_cons_of_mem _ h1, h2⟩
      · right
        refine ⟨List.mem_cons_of_mem _ h1, ?_⟩
        intro y hy
        rcases List.mem_cons.1 hy with rfl | hy
        · intro e
          have := hp'.1 x h1
          rw [heq, e] at this; exact dirLt_irrefl _ _ this
        · exact h2 y hy
    · rintro (⟨h1, h2⟩ | ⟨h1, h2⟩)
      · rcases List.mem_cons.1 h1 with rfl | h1
        · exact absurd h2 hs
        · exact Or.inl ⟨h1, h2⟩
      · rcases List.mem_cons.1 h1 with rfl | h1
        · exact absurd heq.symm (h2 c (by simp))
        · exact Or.inr ⟨h1, fun y hy => h2 y (List.mem_cons_of_mem _ hy)⟩
  | case6 p ps c cs h hs ih =>
    have hp' := sortedDir_cons.1 hp
    have hc' := sortedDir_cons.1 hc
    have hgt := cmpDir_gt_iff.1 h
    rw [List.mem_cons, ih hp hc'.2]
    constructor
    · rintro (rfl | ⟨h1, h2⟩ | ⟨h1, h2⟩)
      · exact Or.inl ⟨by simp, hs⟩
      · exact Or.inl ⟨List.mem_cons_of_mem _ h1, h2⟩
      · right
        refine ⟨h1, ?_⟩
        intro y hy
        rcases List.mem_cons.1 hy with rfl | hy
        · intro e
          rcases List.mem_cons.1 h1 with rfl | h1
          · rw [e] at hgt; exact dirLt_irrefl _ _ hgt
          · have := dirLt_trans hgt (hp'.1 x h1)
            rw [e] at this; exact dirLt_irrefl _ _ this
        · exact h2 y hy
    · rintro (⟨h1, h2⟩ | ⟨h1, h2⟩)
      · rcases List.mem_cons.1 h1 with rfl | h1
        · exact Or.inl rfl
        · exact Or.inr (Or.inl ⟨h1, h2⟩)
      · exact Or.inr (Or.inr ⟨h1, fun y hy => h2 y (List.mem_cons_of_mem _ hy)⟩)
  | case7 p ps c cs h hs ih =>
    have hp' := sortedDir_cons.1 hp
    have hc' := sortedDir_cons.1 hc
    have hgt := cmpDir_gt_iff.1 h
    rw [ih hp hc'.2]
    constructor
    · rintro (⟨h1, h2⟩ | ⟨h1, h2⟩)
      · exact Or.inl ⟨List.mem_cons_of_mem _ h1, h2⟩
      · right
        refine ⟨h1, ?_⟩
        intro y hy
        rcases List.mem_cons.1 hy with rfl | hy
        · intro e
          rcases List.mem_cons.1 h1 with rfl | h1
          · rw [e] at hgt; exact dirLt_irrefl _ _ hgt
          · have := dirLt_trans hgt (hp'.1 x h1)
            rw [e] at this; exact dirLt_irrefl _ _ this
        · exact h2 y hy
    · rintro (⟨h1, h2⟩ | ⟨h1, h2⟩)
      · rcases List.mem_cons.1 h1 with rfl | h1
        · exact absurd h2 hs
        · exact Or.inl ⟨h1, h2⟩
      · exact Or.inr ⟨h1, fun y hy => h2 y (List.mem_cons_of_mem _ hy)⟩

/-- every key of the merge comes from one of the inputs. -/
theorem key_of_mem_mergeSpec {asc : Bool} {ps cs : List Item}
    (hp : SortedDir asc ps) (hc : SortedDir asc cs) {x : Item} (hx : x ∈ mergeSpec asc ps cs) :
    x ∈ cs ∨ x ∈ ps := by
  rcases (mem_mergeSpec asc ps cs hp hc x).1 hx with h | h
  · exact Or.inl h.1
  · exact Or.inr h.1

theorem sortedDir_mergeSpec (asc : Bool) (ps cs : List Item)
    (hp : SortedDir asc ps) (hc : SortedDir asc cs) : SortedDir asc (mergeSpec asc ps cs) := by
  fun_induction mergeSpec asc ps cs with
  | case1 cs => exact List.Pairwise.filter _ hc
  | case2 p ps => exact hp
  | case3 p ps c cs h ih =>
    have hp' := sortedDir_cons.1 hp
    have hc' := sortedDir_cons.1 hc
    have hlt := cmpDir_lt_iff.1 h
    apply sortedDir_cons.2 ⟨?_, ih hp'.2 hc⟩
    intro y hy
    rcases key_of_mem_mergeSpec hp'.2 hc hy with hy | hy
    · rcases List.mem_cons.1 hy with rfl | hy
      · exact hlt
      · exact dirLt_trans hlt (hc'.1 y hy)
    · exact hp'.1 y hy
  | case4 p ps c cs h hs ih =>
    have hp' := sortedDir_cons.1 hp
    have hc' := sortedDir_cons.1 hc
    have heq : p.1 = c.1 := cmpDir_eq_iff.1 h
    apply sortedDir_cons.2 ⟨?_, ih hp'.2 hc'.2⟩
    intro y hy
    rcases key_of_mem_mergeSpec hp'.2 hc'.2 hy with hy | hy
    · show dirLt asc p.1 y.1
      rw [heq]; exact hc'.1 y hy
    · exact hp'.1 y hy
  | case5 p ps c cs h hs ih =>
    exact ih (sortedDir_cons.1 hp).2 (sortedDir_cons.1 hc).2
  | case6 p ps c cs h hs ih =>
    have hp' := sortedDir_cons.1 hp
    have hc' := sortedDir_cons.1 hc
    have hgt := cmpDir_gt_iff.1 h
    apply sortedDir_cons.2 ⟨?_, ih hp hc'.2⟩
    intro y hy
    rcases key_of_mem_mergeSpec hp hc'.2 hy with hy | hy
    · exact hc'.1 y hy
    · rcases List.mem_cons.1 hy with rfl | hy
      · exact hgt
      · exact dirLt_trans hgt (hp'.1 y hy)
  | case7 p ps c cs h hs ih =>
    exact ih hp (sortedDir_cons.1 hc).2

end GnoVerif.C22
