import GnoVerif.Spec.C36
/-!
Helper lemmas for Props/C36.lean.  Core Lean only.
-/
namespace GnoVerif.C36

/-! ### int64 arithmetic -/

theorem maxTotal_eq : maxTotalVotingPower = 1152921504606846975 := by decide

theorem wrap64_id {x : Int} (h1 : minInt64 ≤ x) (h2 : x ≤ maxInt64) : wrap64 x = x := by
  unfold wrap64; unfold minInt64 at h1; unfold maxInt64 at h2; omega

/-- Go's `tallied > total*2/3` in int64 is `3·tallied > 2·total` when `0 ≤ total ≤ MaxTotalVotingPower`. -/
theorem gt_twoThirds_iff {tallied total : Int} (h0 : 0 ≤ total) (h1 : total ≤ maxTotalVotingPower) :
    tallied > twoThirds total ↔ 3 * tallied > 2 * total := by
  rw [maxTotal_eq] at h1
  unfold twoThirds
  rw [wrap64_id (by unfold minInt64; omega) (by unfold maxInt64; omega)]
  rw [Int.tdiv_eq_ediv_of_nonneg (by omega)]
  omega

/-! ### what `validSet` gives -/

theorem sumPowers_cons (v : Validator) (vs : ValSet) : sumPowers (v :: vs) = v.power + sumPowers vs := by
  simp [sumPowers]

theorem sumPowers_nil : sumPowers [] = 0 := by simp [sumPowers]

structure Valid (vals : ValSet) : Prop where
  pos    : ∀ v ∈ vals, 0 < v.power
  total  : sumPowers vals ≤ maxTotalVotingPower
  sorted : sortedAddrs vals = true

theorem validSet_iff (vals : ValSet) : validSet vals = true ↔ Valid vals := by
  unfold validSet
  simp only [Bool.and_eq_true, List.all_eq_true, decide_eq_true_eq]
  constructor
  · rintro ⟨⟨h1, h2⟩, h3⟩; exact ⟨h1, h2, h3⟩
  · rintro ⟨h1, h2, h3⟩; exact ⟨⟨h1, h2⟩, h3⟩

theorem sumPowers_nonneg {vals : ValSet} (h : ∀ v ∈ vals, 0 < v.power) : 0 ≤ sumPowers vals := by
  induction vals with
  | nil => simp [sumPowers]
  | cons v vs ih =>
    rw [sumPowers_cons]
    have := h v (by simp)
    have := ih (fun w hw => h w (by simp [hw]))
    omega

theorem updateTotalLoop_ok (vals : ValSet) (s : Int) (hs : 0 ≤ s)
    (hpos : ∀ v ∈ vals, 0 < v.power) (hsum : s + sumPowers vals ≤ maxTotalVotingPower) :
    updateTotalLoop vals s = .ok (s + sumPowers vals) := by
  induction vals generalizing s with
  | nil => simp [updateTotalLoop, sumPowers]
  | cons v vs ih =>
    rw [sumPowers_cons] at hsum
    have hv := hpos v (by simp)
    have hrest := sumPowers_nonneg (vals := vs) (fun w hw => hpos w (by simp [hw]))
    rw [maxTotal_eq] at hsum
    have hclip : safeAddClip s v.power = s + v.power := by
      unfold safeAddClip maxInt64 minInt64
      simp only
      rw [if_neg (by omega), if_neg (by omega)]
    unfold updateTotalLoop
    simp only [hclip]
    rw [if_neg (by rw [maxTotal_eq]; omega)]
    rw [ih (s + v.power) (by omega) (fun w hw => hpos w (by simp [hw])) (by rw [maxTotal_eq]; omega)]
    rw [sumPowers_cons]
    congr 1; omega

/-- Under the type's invariants `TotalVotingPower()` is the exact sum (no clip, no panic). -/
theorem totalVotingPower_ok {vals : ValSet} (h : Valid vals) :
    totalVotingPower vals = .ok (sumPowers vals) := by
  unfold totalVotingPower
  rw [updateTotalLoop_ok vals 0 (by omega) h.pos (by have := h.total; omega)]
  simp

/-! ### ValidateBasic -/


theorem firstNonNil_mem {es : List (Option Entry)} {e : Entry} (h : firstNonNil es = some e) : some e ∈ es := by
  induction es with
  | nil => simp [firstNonNil] at h
  | cons x xs ih =>
    cases x with
    | none => simp [firstNonNil] at h; simp [ih h]
    | some y => simp [firstNonNil] at h; simp [h]

theorem firstNonNil_none {es : List (Option Entry)} (h : firstNonNil es = none) : ∀ e, some e ∉ es := by
  induction es with
  | nil => simp
  | cons x xs ih =>
    cases x with
    | none => simp [firstNonNil] at h; intro e; simp [ih h e]
    | some y => simp [firstNonNil] at h

theorem validateLoop_ok_iff (h r : Int) (es : List (Option Entry)) :
    validateLoop h r es = .ok () ↔
      ∀ e, some e ∈ es → e.type = precommitType ∧ e.height = h ∧ e.round = r := by
  induction es with
  | nil => simp [validateLoop]
  | cons x xs ih =>
    cases x with
    | none => simp [validateLoop, ih]
    | some y =>
      unfold validateLoop
      by_cases h1 : y.type = precommitType
      · by_cases h2 : y.height = h
        · by_cases h3 : y.round = r
          · simp [h1, h2, h3, ih]
          · simp [h1, h2, h3]
        · simp [h1, h2]
      · simp [h1]

/-- `ValidateBasic` accepts exactly: the genesis shape, or a non-nil block id with at
least one slot whose non-nil entries are all precommits of the first one's height and round. -/
theorem validateBasic_ok_iff (c : Commit) :
    validateBasic c = .ok () ↔
      (c.blockID = 0 ∧ c.precommits = []) ∨
      (c.blockID ≠ 0 ∧ c.precommits ≠ [] ∧
        ∀ e, some e ∈ c.precommits → e.type = precommitType ∧ e.height = c.height ∧ e.round = c.round) := by
  unfold validateBasic
  by_cases h0 : c.blockID = 0
  · by_cases h1 : c.precommits = []
    · simp [h0, h1]
    · simp [h0, h1]
  · by_cases h1 : c.precommits = []
    · simp [h0, h1]
    · simp [h0, h1, validateLoop_ok_iff]


/-! ### VerifyCommit -/


theorem verifyCommit_ok_unfold (vals : ValSet) (B : Nat) (H : Int) (c : Commit) :
    verifyCommit vals B H c = .ok () ↔
      validateBasic c = .ok () ∧ vals.length = c.precommits.length ∧ H = c.height ∧ B = c.blockID ∧
      ∃ t total, tallyLoop B vals c.precommits 0 = .ok t ∧ totalVotingPower vals = .ok total ∧ t > twoThirds total := by
  unfold verifyCommit
  cases validateBasic c with
  | error e => simp
  | ok u =>
    cases tallyLoop B vals c.precommits 0 with
    | error e => simp; grind
    | ok t =>
      cases totalVotingPower vals with
      | error e => simp; grind
      | ok total => simp; grind



def zipTally (B : Nat) (H : Int) (vals : List Validator) (es : List (Option Entry)) : Int :=
  (((vals.zip es).filter (fun p => countsFor B H p.2)).map (·.1.power)).sum

theorem zipTally_nil_left (B H es) : zipTally B H [] es = 0 := by simp [zipTally]
theorem zipTally_nil_right (B H vals) : zipTally B H vals [] = 0 := by simp [zipTally]
theorem zipTally_cons (B : Nat) (H : Int) (v : Validator) (vs : List Validator) (oe : Option Entry) (es : List (Option Entry)) :
    zipTally B H (v :: vs) (oe :: es) = (if countsFor B H oe then v.power else 0) + zipTally B H vs es := by
  unfold zipTally
  by_cases h : countsFor B H oe = true <;> simp [h]

theorem tallyLoop_ok_iff (B : Nat) (H : Int) (vals : List Validator) (es : List (Option Entry)) (t x : Int)
    (hlen : es.length = vals.length) (hpos : ∀ v ∈ vals, 0 < v.power) (ht : 0 ≤ t)
    (hb : t + sumPowers vals ≤ maxInt64)
    (hkind : ∀ e, some e ∈ es → e.type = precommitType ∧ e.height = H) :
    tallyLoop B vals es t = .ok x ↔
      (∀ e, some e ∈ es → e.sigOK = true) ∧ x = t + zipTally B H vals es := by
  induction vals generalizing es t with
  | nil =>
    cases es with
    | nil => simp [tallyLoop, zipTally_nil_left]; omega
    | cons a as => simp at hlen
  | cons v vs ih =>
    cases es with
    | nil => simp at hlen
    | cons oe es =>
      have hlen' : es.length = vs.length := by simpa using hlen
      have hpos' : ∀ w ∈ vs, 0 < w.power := fun w hw => hpos w (by simp [hw])
      have hv := hpos v (by simp)
      have hrest := sumPowers_nonneg hpos'
      rw [sumPowers_cons] at hb
      have hkind' : ∀ e, some e ∈ es → e.type = precommitType ∧ e.height = H :=
        fun e he => hkind e (by simp [he])
      rw [zipTally_cons]
      cases oe with
      | none =>
        simp only [tallyLoop, countsFor]
        rw [ih es t hlen' hpos' ht (by omega) hkind']
        simp
      | some e =>
        have hk := hkind e (by simp)
        unfold tallyLoop
        by_cases hs : e.sigOK = true
        · simp only [hs, Bool.not_true, Bool.false_eq_true, if_false]
          by_cases hB : B = e.blockID
          · have hw : wrap64 (t + v.power) = t + v.power :=
              wrap64_id (by unfold minInt64; omega) (by omega)
            rw [if_pos hB, hw, ih es (t + v.power) hlen' hpos' (by omega) (by omega) hkind']
            simp [countsFor, hk.1, hk.2, hB, hs]
            omega
          · rw [if_neg hB, ih es t hlen' hpos' ht (by omega) hkind']
            have hB' : ¬ e.blockID = B := fun h => hB h.symm
            simp [countsFor, hB', hs]
        · simp [hs]




theorem signedPower_eq (vals : ValSet) (B : Nat) (H : Int) (c : Commit) :
    signedPower vals B H c = zipTally B H vals c.precommits := rfl

theorem zipTally_all_nil (B : Nat) (H : Int) (vals : List Validator) (es : List (Option Entry))
    (h : ∀ e, some e ∉ es) : zipTally B H vals es = 0 := by
  induction vals generalizing es with
  | nil => exact zipTally_nil_left ..
  | cons v vs ih =>
    cases es with
    | nil => exact zipTally_nil_right ..
    | cons oe es =>
      rw [zipTally_cons]
      cases oe with
      | none => simp [countsFor]; exact ih es (fun e he => h e (by simp [he]))
      | some e => exact absurd (by simp) (h e)

theorem firstNonNil_some_of_mem {es : List (Option Entry)} {e : Entry} (h : some e ∈ es) :
    ∃ e', firstNonNil es = some e' := by
  cases hf : firstNonNil es with
  | some e' => exact ⟨e', rfl⟩
  | none => exact absurd h (firstNonNil_none hf e)

theorem verifyCommit_ok_iff_aux {vals : ValSet} (hv : Valid vals) (B : Nat) (H : Int) (c : Commit) :
    verifyCommit vals B H c = .ok () ↔
      WellFormed vals B H c ∧ 3 * signedPower vals B H c > 2 * sumPowers vals := by
  have hT := totalVotingPower_ok hv
  have hT0 := sumPowers_nonneg hv.pos
  have hmax : sumPowers vals ≤ maxInt64 := by
    have := hv.total; rw [maxTotal_eq] at this; unfold maxInt64; omega
  rw [verifyCommit_ok_unfold, signedPower_eq]
  constructor
  · rintro ⟨hvb, hlen, hH, hB, t, total, htl, htot, hgt⟩
    rw [hT] at htot
    cases htot
    rw [gt_twoThirds_iff hT0 hv.total] at hgt
    rcases (validateBasic_ok_iff c).1 hvb with ⟨h0, hnil⟩ | ⟨h0, hne, hall⟩
    · -- genesis shape: no slots, so nothing is tallied
      rw [hnil] at htl
      simp [tallyLoop] at htl
      omega
    · have hkind : ∀ e, some e ∈ c.precommits → e.type = precommitType ∧ e.height = H :=
        fun e he => ⟨(hall e he).1, by rw [hH]; exact (hall e he).2.1⟩
      have := (tallyLoop_ok_iff B H vals c.precommits 0 t hlen.symm hv.pos (by omega) (by omega) hkind).1 htl
      refine ⟨⟨h0, hlen.symm, hB.symm, hkind, ?_, this.1⟩, by rw [this.2] at hgt; omega⟩
      intro e e' he he'
      rw [(hall e he).2.2, (hall e' he').2.2]
  · rintro ⟨wf, hgt⟩
    -- some entry is non-nil, else nothing is tallied
    have hex : ∃ e, firstNonNil c.precommits = some e := by
      cases hf : firstNonNil c.precommits with
      | some e => exact ⟨e, rfl⟩
      | none =>
        rw [zipTally_all_nil B H vals c.precommits (firstNonNil_none hf)] at hgt
        omega
    obtain ⟨e0, he0⟩ := hex
    have hmem0 := firstNonNil_mem he0
    have hH : c.height = H := by
      unfold Commit.height; rw [he0]; exact (wf.kind e0 hmem0).2
    have hR : c.round = e0.round := by
      unfold Commit.round; rw [he0]
    have hne : c.precommits ≠ [] := by
      intro h; rw [h] at hmem0; simp at hmem0
    have hvb : validateBasic c = .ok () := by
      rw [validateBasic_ok_iff]
      right
      refine ⟨wf.notNil, hne, fun e he => ⟨(wf.kind e he).1, ?_, ?_⟩⟩
      · rw [hH]; exact (wf.kind e he).2
      · rw [hR]; exact wf.oneRound e e0 he hmem0
    refine ⟨hvb, wf.size.symm, hH.symm, wf.block.symm, zipTally B H vals c.precommits, sumPowers vals, ?_, hT, ?_⟩
    · rw [tallyLoop_ok_iff B H vals c.precommits 0 _ wf.size hv.pos (by omega) (by omega) wf.kind]
      exact ⟨wf.sigs, by omega⟩
    · rw [gt_twoThirds_iff hT0 hv.total]; omega


/-! ### GetByAddress (sort.Search) -/

theorem sortedAddrs_pairwise {vals : List Validator} (h : sortedAddrs vals = true) :
    vals.Pairwise (fun a b => a.addr < b.addr) := by
  induction vals with
  | nil => simp
  | cons a l ih =>
    cases l with
    | nil => simp
    | cons b rest =>
      simp only [sortedAddrs, Bool.and_eq_true, decide_eq_true_eq] at h
      have ih' := ih h.2
      rw [List.pairwise_cons] at ih' ⊢
      refine ⟨?_, List.pairwise_cons.2 ⟨ih'.1, ih'.2⟩⟩
      intro x hx
      rcases List.mem_cons.1 hx with rfl | hx
      · exact h.1
      · exact Nat.lt_trans h.1 (ih'.1 x hx)

theorem sortSearch_spec (f : Nat → Bool) (n : Nat)
    (hmono : ∀ i j, i ≤ j → j < n → f i = true → f j = true) (lo hi : Nat)
    (h1 : lo ≤ hi) (h2 : hi ≤ n) (hlo : ∀ k, k < lo → f k = false)
    (hhi : ∀ k, hi ≤ k → k < n → f k = true) :
    lo ≤ sortSearch f lo hi ∧ sortSearch f lo hi ≤ hi ∧
      (∀ k, k < sortSearch f lo hi → f k = false) ∧
      (∀ k, sortSearch f lo hi ≤ k → k < n → f k = true) := by
  fun_induction sortSearch f lo hi with
  | case1 i j hij m hfm ih =>
    have hm : i ≤ m ∧ m < j := by show i ≤ (i + j) / 2 ∧ (i + j) / 2 < j; omega
    obtain ⟨a, b, c, d⟩ := ih (by omega) h2 (by
      intro k hk
      cases hfk : f k with
      | false => rfl
      | true =>
        have := hmono k m (by omega) (by omega) hfk
        simp [this] at hfm) hhi
    exact ⟨by omega, b, c, d⟩
  | case2 i j hij m hfm ih =>
    have hm : i ≤ m ∧ m < j := by show i ≤ (i + j) / 2 ∧ (i + j) / 2 < j; omega
    have hfm' : f m = true := by simpa using hfm
    obtain ⟨a, b, c, d⟩ := ih (by omega) (by omega) hlo (by
      intro k hk hkn
      exact hmono m k hk hkn hfm')
    exact ⟨a, by omega, c, d⟩
  | case3 i j hij =>
    have : i = j := by omega
    subst this
    exact ⟨Nat.le_refl _, Nat.le_refl _, hlo, hhi⟩


/-- the predicate `GetByAddress` hands to `sort.Search` -/
def searchPred (vals : ValSet) (a : Nat) (i : Nat) : Bool :=
  match vals[i]? with
  | some v => decide (a ≤ v.addr)
  | none => true

theorem getByAddress_def (vals : ValSet) (a : Nat) :
    getByAddress vals a =
      match vals[sortSearch (searchPred vals a) 0 vals.length]? with
      | some v => if v.addr = a then some (sortSearch (searchPred vals a) 0 vals.length, v) else none
      | none => none := rfl

theorem getByAddress_some_iff {vals : ValSet} (hs : vals.Pairwise (fun a b => a.addr < b.addr))
    (a i : Nat) (v : Validator) :
    getByAddress vals a = some (i, v) ↔ vals[i]? = some v ∧ v.addr = a := by
  have hget := List.pairwise_iff_getElem.1 hs
  have hmono : ∀ i j, i ≤ j → j < vals.length → searchPred vals a i = true → searchPred vals a j = true := by
    intro i j hij hj hi
    have hi' : i < vals.length := by omega
    simp only [searchPred, List.getElem?_eq_getElem hi', List.getElem?_eq_getElem hj, decide_eq_true_eq] at hi ⊢
    rcases Nat.lt_or_eq_of_le hij with h | h
    · have := hget i j hi' hj h; omega
    · subst h; exact hi
  obtain ⟨_, hr2, hr3, hr4⟩ := sortSearch_spec (searchPred vals a) vals.length hmono 0 vals.length
    (Nat.zero_le _) (Nat.le_refl _) (by intro k hk; omega) (by intro k hk hk'; omega)
  rw [getByAddress_def]
  generalize sortSearch (searchPred vals a) 0 vals.length = r at *
  constructor
  · intro h
    cases hv : vals[r]? with
    | none => simp [hv] at h
    | some w =>
      simp only [hv] at h
      by_cases hw : w.addr = a
      · simp only [hw, if_true, Option.some.injEq, Prod.mk.injEq] at h
        obtain ⟨rfl, rfl⟩ := h
        exact ⟨hv, hw⟩
      · simp [hw] at h
  · rintro ⟨hv, ha⟩
    have hi : i < vals.length := by
      rcases List.getElem?_eq_some_iff.1 hv with ⟨h, _⟩; exact h
    have hvi : vals[i] = v := by
      rcases List.getElem?_eq_some_iff.1 hv with ⟨_, h⟩; exact h
    -- r ≤ i, because the predicate holds at i
    have hfi : searchPred vals a i = true := by
      simp [searchPred, List.getElem?_eq_getElem hi, hvi, ha]
    have hri : r ≤ i := by
      apply Nat.le_of_not_lt
      intro h
      have := hr3 i h
      rw [hfi] at this
      cases this
    have hr : r < vals.length := by omega
    have hfr := hr4 r (Nat.le_refl _) hr
    simp only [searchPred, List.getElem?_eq_getElem hr, decide_eq_true_eq] at hfr
    have hreq : r = i := by
      rcases Nat.lt_or_eq_of_le hri with h | h
      · have := hget r i hr hi h
        rw [hvi, ha] at this
        omega
      · exact h
    subst hreq
    simp [hv, ha]

theorem getByAddress_none {vals : ValSet} (hs : vals.Pairwise (fun a b => a.addr < b.addr))
    (a : Nat) (h : getByAddress vals a = none) : ∀ v ∈ vals, v.addr ≠ a := by
  intro v hv ha
  obtain ⟨i, hi⟩ := List.getElem?_of_mem hv
  have := (getByAddress_some_iff hs a i v).2 ⟨hi, ha⟩
  rw [h] at this
  cases this




/-! ### VerifyFutureCommit -/

theorem sum_map_congr {l : List Validator} {F G : Validator → Int} (h : ∀ w ∈ l, F w = G w) :
    (l.map F).sum = (l.map G).sum := by
  rw [List.map_congr_left h]

/-- splitting one validator out of a sum over a list with distinct addresses -/
theorem sum_split {old : List Validator} (hnd : old.Pairwise (fun a b => a.addr < b.addr))
    {v : Validator} (hv : v ∈ old) (F G : Validator → Int) (hG : G v = 0)
    (hFG : ∀ w ∈ old, w.addr ≠ v.addr → F w = G w) :
    (old.map F).sum = F v + (old.map G).sum := by
  induction old with
  | nil => simp at hv
  | cons w ws ih =>
    rw [List.pairwise_cons] at hnd
    simp only [List.map_cons, List.sum_cons]
    rcases List.mem_cons.1 hv with rfl | hv'
    · have : (ws.map F).sum = (ws.map G).sum :=
        sum_map_congr (fun u hu => hFG u (by simp [hu]) (by have := hnd.1 u hu; omega))
      rw [this, hG]; omega
    · have hne : w.addr ≠ v.addr := by have := hnd.1 v hv'; omega
      rw [hFG w (by simp) hne, ih hnd.2 hv' (fun u hu => hFG u (by simp [hu]))]
      omega

def namesOK (old : ValSet) (seenA : List Nat) (es : List (Option Entry)) : Prop :=
  ∀ v ∈ old, v.addr ∉ seenA → ∀ e, firstNaming v.addr es = some e → e.sigOKOld = true

def tallyFrom (B : Nat) (H : Int) (old : ValSet) (seenA : List Nat) (es : List (Option Entry)) : Int :=
  (old.map (fun v => if v.addr ∉ seenA ∧ oldCountsFor B H es v = true then v.power else 0)).sum

def unseenPower (old : ValSet) (seenA : List Nat) : Int :=
  (old.map (fun v => if v.addr ∈ seenA then 0 else v.power)).sum

/-- index-`seen` of the code vs. the set of addresses already judged -/
def SeenRel (old : ValSet) (seenI seenA : List Nat) : Prop :=
  ∀ i v, old[i]? = some v → (i ∈ seenI ↔ v.addr ∈ seenA)

theorem firstNaming_cons_ne {a : Nat} {e : Entry} {es : List (Option Entry)} (h : e.valAddr ≠ a) :
    firstNaming a (some e :: es) = firstNaming a es := by
  simp [firstNaming, h]

theorem firstNaming_cons_eq {a : Nat} {e : Entry} {es : List (Option Entry)} (h : e.valAddr = a) :
    firstNaming a (some e :: es) = some e := by
  simp [firstNaming, h]

theorem oldCountsFor_cons_ne {B : Nat} {H : Int} {e : Entry} {es : List (Option Entry)} {w : Validator}
    (h : e.valAddr ≠ w.addr) : oldCountsFor B H (some e :: es) w = oldCountsFor B H es w := by
  simp [oldCountsFor, firstNaming_cons_ne h]

theorem tallyFrom_nil (B : Nat) (H : Int) (old : ValSet) (seenA : List Nat) :
    tallyFrom B H old seenA [] = 0 := by
  unfold tallyFrom
  induction old with
  | nil => simp
  | cons a as ih => simp [oldCountsFor, firstNaming] at ih ⊢; exact ih

theorem futureLoop_ok_iff {old : ValSet} (hv : Valid old) (B : Nat) (H r : Int)
    (es : List (Option Entry))
    (hshape : ∀ e, some e ∈ es → e.height = H ∧ e.round = r ∧ e.type = precommitType)
    (seenI seenA : List Nat) (p x : Int) (hR : SeenRel old seenI seenA)
    (hp : 0 ≤ p) (hb : p + unseenPower old seenA ≤ maxInt64) :
    futureLoop old B H r es seenI p = .ok x ↔
      namesOK old seenA es ∧ x = p + tallyFrom B H old seenA es := by
  have hs := sortedAddrs_pairwise hv.sorted
  induction es generalizing seenI seenA p with
  | nil =>
    rw [tallyFrom_nil]
    simp [futureLoop, namesOK, firstNaming]
    omega
  | cons oe es ih =>
    have hshape' : ∀ e, some e ∈ es → e.height = H ∧ e.round = r ∧ e.type = precommitType :=
      fun e he => hshape e (by simp [he])
    cases oe with
    | none =>
      simp only [futureLoop]
      have ih' := ih hshape' seenI seenA p hR hp hb
      simp only [ih']
      have hN : namesOK old seenA (none :: es) ↔ namesOK old seenA es := Iff.rfl
      have hT : tallyFrom B H old seenA (none :: es) = tallyFrom B H old seenA es := rfl
      rw [hN, hT]
    | some e =>
      obtain ⟨h1, h2, h3⟩ := hshape e (by simp)
      unfold futureLoop
      simp only [h1, h2, h3, ne_eq, not_true_eq_false, if_false]
      cases hg : getByAddress old e.valAddr with
      | none =>
        have hne := getByAddress_none hs e.valAddr hg
        simp only
        have ih' := ih hshape' seenI seenA p hR hp hb
        simp only [ih']
        have hN : namesOK old seenA (some e :: es) ↔ namesOK old seenA es := by
          unfold namesOK
          constructor
          · intro h w hw hws e' he'
            exact h w hw hws e' (by rw [firstNaming_cons_ne (fun hc => hne w hw hc.symm)]; exact he')
          · intro h w hw hws e' he'
            rw [firstNaming_cons_ne (fun hc => hne w hw hc.symm)] at he'
            exact h w hw hws e' he'
        have hT : tallyFrom B H old seenA (some e :: es) = tallyFrom B H old seenA es := by
          unfold tallyFrom
          apply sum_map_congr
          intro w hw
          rw [oldCountsFor_cons_ne (fun hc => hne w hw hc.symm)]
        rw [hN, hT]
      | some iv =>
        obtain ⟨i, v⟩ := iv
        obtain ⟨hiv, hva⟩ := (getByAddress_some_iff hs e.valAddr i v).1 hg
        have hvm : v ∈ old := List.mem_of_getElem? hiv
        have hvp := hv.pos v hvm
        simp only
        by_cases hseen : seenI.contains i = true
        · -- double vote for an address already judged: skipped
          have hsA : e.valAddr ∈ seenA := by
            have := (hR i v hiv).1 (by simpa using hseen); rwa [hva] at this
          simp only [hseen, if_true]
          have ih' := ih hshape' seenI seenA p hR hp hb
          simp only [ih']
          have hN : namesOK old seenA (some e :: es) ↔ namesOK old seenA es := by
            unfold namesOK
            constructor
            · intro h w hw hws e' he'
              have : e.valAddr ≠ w.addr := fun hc => hws (hc ▸ hsA)
              exact h w hw hws e' (by rw [firstNaming_cons_ne this]; exact he')
            · intro h w hw hws e' he'
              have : e.valAddr ≠ w.addr := fun hc => hws (hc ▸ hsA)
              rw [firstNaming_cons_ne this] at he'
              exact h w hw hws e' he'
          have hT : tallyFrom B H old seenA (some e :: es) = tallyFrom B H old seenA es := by
            unfold tallyFrom
            apply sum_map_congr
            intro w hw
            by_cases hws : w.addr ∈ seenA
            · simp [hws]
            · have : e.valAddr ≠ w.addr := fun hc => hws (hc ▸ hsA)
              rw [oldCountsFor_cons_ne this]
          rw [hN, hT]
        · have hsA : e.valAddr ∉ seenA := by
            intro hc
            have := (hR i v hiv).2 (by rwa [hva])
            exact hseen (by simpa using this)
          simp only [hseen, Bool.false_eq_true, if_false]
          by_cases hsig : e.sigOKOld = true
          · simp only [hsig, Bool.not_true, Bool.false_eq_true, if_false]
            -- invariants for the recursive call
            have hR' : SeenRel old (i :: seenI) (e.valAddr :: seenA) := by
              intro j w hjw
              have hjlt : j < old.length := (List.getElem?_eq_some_iff.1 hjw).1
              have hilt : i < old.length := (List.getElem?_eq_some_iff.1 hiv).1
              have hwj : old[j] = w := (List.getElem?_eq_some_iff.1 hjw).2
              have hvi : old[i] = v := (List.getElem?_eq_some_iff.1 hiv).2
              have hget := List.pairwise_iff_getElem.1 hs
              simp only [List.mem_cons]
              constructor
              · rintro (rfl | h)
                · left; rw [hiv] at hjw; cases hjw; exact hva
                · right; exact (hR j w hjw).1 h
              · rintro (h | h)
                · left
                  rcases Nat.lt_trichotomy j i with hlt | heq | hgt
                  · have := hget j i hjlt hilt hlt; rw [hwj, hvi] at this; omega
                  · exact heq
                  · have := hget i j hilt hjlt hgt; rw [hwj, hvi] at this; omega
                · right; exact (hR j w hjw).2 h
            have hU : unseenPower old seenA = v.power + unseenPower old (e.valAddr :: seenA) := by
              unfold unseenPower
              have := sum_split hs hvm (fun w => if w.addr ∈ seenA then 0 else w.power)
                (fun w => if w.addr ∈ e.valAddr :: seenA then 0 else w.power)
                (by simp [hva])
                (by intro w hw hne
                    have : w.addr ≠ e.valAddr := by rw [← hva]; exact hne
                    simp [this])
              rw [this]
              simp [hva, hsA]
            have hUnn : 0 ≤ unseenPower old (e.valAddr :: seenA) := by
              unfold unseenPower
              have : ∀ (l : List Validator), (∀ w ∈ l, 0 < w.power) →
                  0 ≤ (l.map (fun w => if w.addr ∈ e.valAddr :: seenA then 0 else w.power)).sum := by
                intro l hl
                induction l with
                | nil => simp
                | cons a as iha =>
                  simp only [List.map_cons, List.sum_cons]
                  have := hl a (by simp)
                  have := iha (fun w hw => hl w (by simp [hw]))
                  split <;> omega
              exact this old hv.pos
            have hN : namesOK old seenA (some e :: es) ↔ namesOK old (e.valAddr :: seenA) es := by
              unfold namesOK
              constructor
              · intro h w hw hws e' he'
                have hne : e.valAddr ≠ w.addr := fun hc => hws (by simp [hc])
                have hws' : w.addr ∉ seenA := fun hc => hws (by simp [hc])
                exact h w hw hws' e' (by rw [firstNaming_cons_ne hne]; exact he')
              · intro h w hw hws e' he'
                by_cases hwa : e.valAddr = w.addr
                · rw [firstNaming_cons_eq hwa] at he'
                  cases he'; exact hsig
                · rw [firstNaming_cons_ne hwa] at he'
                  exact h w hw (by simp [hws, Ne.symm hwa]) e' he'
            have hT : tallyFrom B H old seenA (some e :: es) =
                (if B = e.blockID then v.power else 0) + tallyFrom B H old (e.valAddr :: seenA) es := by
              unfold tallyFrom
              have := sum_split hs hvm
                (fun w => if w.addr ∉ seenA ∧ oldCountsFor B H (some e :: es) w = true then w.power else 0)
                (fun w => if w.addr ∉ e.valAddr :: seenA ∧ oldCountsFor B H es w = true then w.power else 0)
                (by simp [hva])
                (by intro w hw hne
                    have hne' : e.valAddr ≠ w.addr := by rw [← hva]; exact Ne.symm hne
                    rw [oldCountsFor_cons_ne hne']
                    simp [Ne.symm hne'])
              rw [this]
              congr 1
              have hB : (e.blockID = B) ↔ (B = e.blockID) := eq_comm
              have hfn : firstNaming v.addr (some e :: es) = some e := firstNaming_cons_eq hva.symm
              have hsA' : v.addr ∉ seenA := by rw [hva]; exact hsA
              simp only [oldCountsFor, hfn]
              simp [hsA', h1, h3, hsig, hB]
            rw [hN, hT]
            by_cases hB : B = e.blockID
            · have hw : wrap64 (p + v.power) = p + v.power :=
                wrap64_id (by unfold minInt64; omega) (by omega)
              have ih' := ih hshape' (i :: seenI) (e.valAddr :: seenA) (p + v.power) hR' (by omega) (by omega)
              rw [if_pos hB, hw]; simp only [ih']
              simp only [if_pos hB]
              constructor
              · rintro ⟨a, b⟩; exact ⟨a, by omega⟩
              · rintro ⟨a, b⟩; exact ⟨a, by omega⟩
            · have ih' := ih hshape' (i :: seenI) (e.valAddr :: seenA) p hR' hp (by omega)
              rw [if_neg hB]; simp only [ih']
              simp only [if_neg hB]
              constructor
              · rintro ⟨a, b⟩; exact ⟨a, by omega⟩
              · rintro ⟨a, b⟩; exact ⟨a, by omega⟩
          · -- the first entry naming an old validator does not verify under its key
            simp only [hsig, Bool.not_false, if_true]
            constructor
            · intro h; cases h
            · rintro ⟨h, _⟩
              have := h v hvm (by rw [hva]; exact hsA) e (firstNaming_cons_eq hva.symm)
              exact absurd this hsig




theorem verifyFutureCommit_ok_unfold (old new : ValSet) (B : Nat) (H : Int) (c : Commit) :
    verifyFutureCommit old new B H c = .ok () ↔
      verifyCommit new B H c = .ok () ∧
      ∃ p total, futureLoop old B H c.round c.precommits [] 0 = .ok p ∧
        totalVotingPower old = .ok total ∧ p > twoThirds total := by
  unfold verifyFutureCommit
  cases verifyCommit new B H c with
  | error e => simp
  | ok u =>
    cases futureLoop old B H c.round c.precommits [] 0 with
    | error e => simp
    | ok p =>
      cases totalVotingPower old with
      | error e => simp
      | ok total => simp

theorem unseenPower_nil (old : ValSet) : unseenPower old [] = sumPowers old := by
  simp [unseenPower, sumPowers]

theorem sum_filter_map (l : List Validator) (q : Validator → Bool) :
    ((l.filter q).map (·.power)).sum = (l.map (fun v => if q v = true then v.power else 0)).sum := by
  induction l with
  | nil => simp
  | cons a as ih =>
    by_cases h : q a = true
    · simp [h, ih]
    · simp [h, ih]

theorem tallyFrom_nil_seen (B : Nat) (H : Int) (old : ValSet) (c : Commit) :
    tallyFrom B H old [] c.precommits = oldSignedPower old B H c := by
  unfold tallyFrom oldSignedPower
  rw [sum_filter_map]
  simp

theorem namesOK_nil_seen (old : ValSet) (c : Commit) :
    namesOK old [] c.precommits ↔ OldWellFormed old c := by
  unfold namesOK OldWellFormed
  simp

theorem verifyFutureCommit_ok_iff_aux {old new : ValSet} (ho : Valid old) (hn : Valid new)
    (B : Nat) (H : Int) (c : Commit) :
    verifyFutureCommit old new B H c = .ok () ↔
      (WellFormed new B H c ∧ 3 * signedPower new B H c > 2 * sumPowers new) ∧
      OldWellFormed old c ∧ 3 * oldSignedPower old B H c > 2 * sumPowers old := by
  have hT := totalVotingPower_ok ho
  have hT0 := sumPowers_nonneg ho.pos
  have hmax : sumPowers old ≤ maxInt64 := by
    have := ho.total; rw [maxTotal_eq] at this; unfold maxInt64; omega
  rw [verifyFutureCommit_ok_unfold, verifyCommit_ok_iff_aux hn]
  constructor
  all_goals
    rintro ⟨⟨wf, hgt⟩, rest⟩
    refine ⟨⟨wf, hgt⟩, ?_⟩
    -- after the new-set check every non-nil entry already has the right height, round and type
    have hshape : ∀ e, some e ∈ c.precommits → e.height = H ∧ e.round = c.round ∧ e.type = precommitType := by
      intro e he
      obtain ⟨e0, he0⟩ := firstNonNil_some_of_mem he
      have hR : c.round = e0.round := by unfold Commit.round; rw [he0]
      exact ⟨(wf.kind e he).2, by rw [hR]; exact wf.oneRound e e0 he (firstNonNil_mem he0), (wf.kind e he).1⟩
    have hloop := fun x => futureLoop_ok_iff ho B H c.round c.precommits hshape [] [] 0 x
      (by intro i v _; simp) (by omega) (by rw [unseenPower_nil]; omega)
    simp only [namesOK_nil_seen, tallyFrom_nil_seen] at hloop
  · obtain ⟨p, total, hl, htot, hgt'⟩ := rest
    rw [hT] at htot; cases htot
    rw [gt_twoThirds_iff hT0 ho.total] at hgt'
    obtain ⟨hwf, hp⟩ := (hloop p).1 hl
    exact ⟨hwf, by omega⟩
  · obtain ⟨hwf, hgt'⟩ := rest
    refine ⟨oldSignedPower old B H c, sumPowers old, (hloop _).2 ⟨hwf, by omega⟩, hT, ?_⟩
    rw [gt_twoThirds_iff hT0 ho.total]; omega




/-! ### which error -/

theorem validateLoop_err {h r : Int} {es : List (Option Entry)} {e : Err}
    (he : validateLoop h r es = .error e) : e = .vType ∨ e = .vHeight ∨ e = .vRound := by
  induction es with
  | nil => simp [validateLoop] at he
  | cons x xs ih =>
    cases x with
    | none => exact ih (by simpa [validateLoop] using he)
    | some y =>
      unfold validateLoop at he
      split at he
      · cases he; simp
      · split at he
        · cases he; simp
        · split at he
          · cases he; simp
          · exact ih he

theorem validateBasic_err {c : Commit} {e : Err} (he : validateBasic c = .error e) :
    e = .nilBlock ∨ e = .noPrecommits ∨ e = .vType ∨ e = .vHeight ∨ e = .vRound := by
  unfold validateBasic at he
  split at he
  · cases he
  · split at he
    · cases he; simp
    · split at he
      · cases he; simp
      · rcases validateLoop_err he with h | h | h <;> simp [h]

theorem tallyLoop_err {B : Nat} {vals : List Validator} {es : List (Option Entry)} {t : Int} {e : Err}
    (hlen : es.length = vals.length) (he : tallyLoop B vals es t = .error e) : e = .sig := by
  induction vals generalizing es t with
  | nil =>
    cases es with
    | nil => simp [tallyLoop] at he
    | cons a as => simp at hlen
  | cons v vs ih =>
    cases es with
    | nil => simp at hlen
    | cons oe es =>
      have hlen' : es.length = vs.length := by simpa using hlen
      cases oe with
      | none => exact ih hlen' (by simpa [tallyLoop] using he)
      | some y =>
        unfold tallyLoop at he
        split at he
        · cases he; rfl
        · exact ih hlen' he

theorem tallyLoop_bad_sig {B : Nat} {vals : List Validator} {es : List (Option Entry)} {t : Int}
    (hlen : es.length = vals.length) (hbad : ∃ e, some e ∈ es ∧ e.sigOK = false) :
    tallyLoop B vals es t = .error .sig := by
  induction vals generalizing es t with
  | nil =>
    cases es with
    | nil => simp at hbad
    | cons a as => simp at hlen
  | cons v vs ih =>
    cases es with
    | nil => simp at hlen
    | cons oe es =>
      have hlen' : es.length = vs.length := by simpa using hlen
      obtain ⟨e, hmem, hs⟩ := hbad
      cases oe with
      | none =>
        simp only [tallyLoop]
        exact ih hlen' ⟨e, by simpa using hmem, hs⟩
      | some y =>
        unfold tallyLoop
        by_cases hy : y.sigOK = true
        · simp only [hy, Bool.not_true, Bool.false_eq_true, if_false]
          rcases List.mem_cons.1 hmem with h | h
          · cases h; rw [hs] at hy; cases hy
          · exact ih hlen' ⟨e, h, hs⟩
        · simp [hy]

theorem futureLoop_err {old : ValSet} {B : Nat} {H r : Int} {es : List (Option Entry)}
    (hshape : ∀ e, some e ∈ es → e.height = H ∧ e.round = r ∧ e.type = precommitType)
    {seen : List Nat} {p : Int} {e : Err}
    (he : futureLoop old B H r es seen p = .error e) : e = .fSig := by
  induction es generalizing seen p with
  | nil => simp [futureLoop] at he
  | cons oe es ih =>
    have hshape' : ∀ e, some e ∈ es → e.height = H ∧ e.round = r ∧ e.type = precommitType :=
      fun e he => hshape e (by simp [he])
    cases oe with
    | none => exact ih hshape' (by simpa [futureLoop] using he)
    | some y =>
      obtain ⟨h1, h2, h3⟩ := hshape y (by simp)
      unfold futureLoop at he
      simp only [h1, h2, h3, ne_eq, not_true_eq_false, if_false] at he
      split at he
      · exact ih hshape' he
      · split at he
        · exact ih hshape' he
        · split at he
          · cases he; rfl
          · exact ih hshape' he




theorem hasBadSig_iff (es : List (Option Entry)) :
    hasBadSig es = true ↔ ∃ e, some e ∈ es ∧ e.sigOK = false := by
  unfold hasBadSig
  rw [List.any_eq_true]
  constructor
  · rintro ⟨oe, hm, h⟩
    cases oe with
    | none => simp at h
    | some e => exact ⟨e, hm, by simpa using h⟩
  · rintro ⟨e, hm, h⟩
    exact ⟨some e, hm, by simp [h]⟩

theorem verifyCommit_eq_spec_aux {vals : ValSet} (hv : Valid vals) (B : Nat) (H : Int) (c : Commit) :
    verifyCommit vals B H c = verifyCommitSpec vals B H c := by
  have hT := totalVotingPower_ok hv
  have hT0 := sumPowers_nonneg hv.pos
  have hmax : sumPowers vals ≤ maxInt64 := by
    have := hv.total; rw [maxTotal_eq] at this; unfold maxInt64; omega
  unfold verifyCommit verifyCommitSpec
  cases hvb : validateBasic c with
  | error e => rfl
  | ok u =>
    simp only
    by_cases h1 : vals.length = c.precommits.length
    · by_cases h2 : H = c.height
      · by_cases h3 : B = c.blockID
        · subst h2 h3
          simp only [h1, ne_eq, not_true_eq_false, if_false]
          have hkind : ∀ e, some e ∈ c.precommits → e.type = precommitType ∧ e.height = c.height := by
            rcases (validateBasic_ok_iff c).1 hvb with ⟨_, hnil⟩ | ⟨_, _, hall⟩
            · intro e he; rw [hnil] at he; simp at he
            · intro e he; exact ⟨(hall e he).1, (hall e he).2.1⟩
          by_cases hbad : hasBadSig c.precommits = true
          · rw [tallyLoop_bad_sig h1.symm ((hasBadSig_iff _).1 hbad)]
            simp [hbad]
          · have hall : ∀ e, some e ∈ c.precommits → e.sigOK = true := by
              intro e he
              cases hs : e.sigOK with
              | true => rfl
              | false => exact absurd ((hasBadSig_iff _).2 ⟨e, he, hs⟩) hbad
            have htl := (tallyLoop_ok_iff c.blockID c.height vals c.precommits 0 _ h1.symm hv.pos (by omega) (by omega)
              hkind).2 ⟨hall, rfl⟩
            rw [htl, hT]
            simp only [hbad, Bool.false_eq_true, if_false]
            have := gt_twoThirds_iff (tallied := 0 + zipTally c.blockID c.height vals c.precommits) hT0 hv.total
            rw [signedPower_eq]
            by_cases hg : 0 + zipTally c.blockID c.height vals c.precommits > twoThirds (sumPowers vals)
            · rw [if_pos hg, if_pos (by have := this.1 hg; omega)]
            · rw [if_neg hg, if_neg (by intro h; exact hg (this.2 (by omega)))]
        · have h3' : ¬ c.blockID = B := fun h => h3 h.symm
          simp [h1, h2, h3, h3']
      · have h2' : ¬ c.height = H := fun h => h2 h.symm
        simp [h1, h2, h2']
    · have h1' : ¬ c.precommits.length = vals.length := fun h => h1 h.symm
      simp [h1, h1']




theorem hasBadOldSig_iff (old : ValSet) (c : Commit) :
    hasBadOldSig old c.precommits = true ↔ ¬ OldWellFormed old c := by
  unfold hasBadOldSig OldWellFormed
  rw [List.any_eq_true]
  constructor
  · rintro ⟨v, hv, h⟩ hwf
    cases hf : firstNaming v.addr c.precommits with
    | none => simp [hf] at h
    | some e =>
      simp only [hf] at h
      have := hwf v hv e hf
      simp [this] at h
  · intro h
    apply Classical.byContradiction
    intro hne
    apply h
    intro v hv e hf
    cases hs : e.sigOKOld with
    | true => rfl
    | false => exact absurd ⟨v, hv, by simp [hf, hs]⟩ hne

theorem verifyFutureCommit_eq_spec_aux {old new : ValSet} (ho : Valid old) (hn : Valid new)
    (B : Nat) (H : Int) (c : Commit) :
    verifyFutureCommit old new B H c = verifyFutureCommitSpec old new B H c := by
  have hT := totalVotingPower_ok ho
  have hT0 := sumPowers_nonneg ho.pos
  have hmax : sumPowers old ≤ maxInt64 := by
    have := ho.total; rw [maxTotal_eq] at this; unfold maxInt64; omega
  unfold verifyFutureCommit verifyFutureCommitSpec
  rw [← verifyCommit_eq_spec_aux hn]
  cases hvc : verifyCommit new B H c with
  | error e => rfl
  | ok u =>
    cases u
    obtain ⟨wf, _⟩ := (verifyCommit_ok_iff_aux hn B H c).1 hvc
    have hshape : ∀ e, some e ∈ c.precommits → e.height = H ∧ e.round = c.round ∧ e.type = precommitType := by
      intro e he
      obtain ⟨e0, he0⟩ := firstNonNil_some_of_mem he
      have hR : c.round = e0.round := by unfold Commit.round; rw [he0]
      exact ⟨(wf.kind e he).2, by rw [hR]; exact wf.oneRound e e0 he (firstNonNil_mem he0), (wf.kind e he).1⟩
    have hloop := fun x => futureLoop_ok_iff ho B H c.round c.precommits hshape [] [] 0 x
      (by intro i v _; simp) (by omega) (by rw [unseenPower_nil]; omega)
    simp only [namesOK_nil_seen, tallyFrom_nil_seen] at hloop
    simp only
    by_cases hbad : hasBadOldSig old c.precommits = true
    · have hnwf := (hasBadOldSig_iff old c).1 hbad
      cases hl : futureLoop old B H c.round c.precommits [] 0 with
      | ok x => exact absurd ((hloop x).1 hl).1 hnwf
      | error e =>
        rw [futureLoop_err hshape hl]
        simp [hbad]
    · have hwf : OldWellFormed old c := by
        apply Classical.byContradiction
        intro h; exact hbad ((hasBadOldSig_iff old c).2 h)
      rw [(hloop _).2 ⟨hwf, rfl⟩, hT]
      simp only [hbad, Bool.false_eq_true, if_false]
      have := gt_twoThirds_iff (tallied := 0 + oldSignedPower old B H c) hT0 ho.total
      by_cases hg : 0 + oldSignedPower old B H c ≤ twoThirds (sumPowers old)
      · rw [if_pos hg, if_neg (by intro h; have := this.2 (by omega); omega)]
      · rw [if_neg hg, if_pos (by have := this.1 (by omega); omega)]




theorem firstNaming_iff_of_distinct_aux (a : Nat) (es : List (Option Entry))
    (hd : (es.filterMap id).Pairwise (fun e e' => e.valAddr ≠ e'.valAddr)) (e : Entry) :
    firstNaming a es = some e ↔ some e ∈ es ∧ e.valAddr = a := by
  induction es with
  | nil => simp [firstNaming]
  | cons oe es ih =>
    cases oe with
    | none =>
      have : firstNaming a (none :: es) = firstNaming a es := rfl
      rw [this, ih (by simpa using hd)]
      simp
    | some y =>
      simp only [List.filterMap_cons_some (show id (some y) = some y from rfl), List.pairwise_cons] at hd
      by_cases hy : y.valAddr = a
      · rw [firstNaming_cons_eq hy]
        constructor
        · intro h; cases h; exact ⟨by simp, hy⟩
        · rintro ⟨hm, ha⟩
          rcases List.mem_cons.1 hm with h | h
          · cases h; rfl
          · have : e ∈ es.filterMap id := by simp [List.mem_filterMap, h]
            exact absurd (hy.trans ha.symm) (hd.1 e this)
      · rw [firstNaming_cons_ne hy, ih hd.2]
        constructor
        · rintro ⟨hm, ha⟩; exact ⟨by simp [hm], ha⟩
        · rintro ⟨hm, ha⟩
          rcases List.mem_cons.1 hm with h | h
          · cases h; exact absurd ha hy
          · exact ⟨h, ha⟩

theorem spec_not_internal {vals : ValSet} {B : Nat} {H : Int} {c : Commit} {e : Err}
    (h : verifyCommitSpec vals B H c = .error e) :
    e ∈ [Err.nilBlock, .noPrecommits, .vType, .vHeight, .vRound, .size, .height, .blockID, .sig, .power] := by
  unfold verifyCommitSpec at h
  split at h
  · rename_i e' hvb
    cases h
    rcases validateBasic_err hvb with h | h | h | h | h <;> simp [h]
  · repeat' split at h
    all_goals first | (cases h; simp) | cases h

theorem fspec_not_internal {old new : ValSet} {B : Nat} {H : Int} {c : Commit} {e : Err}
    (h : verifyFutureCommitSpec old new B H c = .error e) :
    e ∈ [Err.nilBlock, .noPrecommits, .vType, .vHeight, .vRound, .size, .height, .blockID, .sig, .power,
         .fSig, .fPower] := by
  unfold verifyFutureCommitSpec at h
  split at h
  · rename_i e' hvc
    cases h
    have := spec_not_internal hvc
    simp only [List.mem_cons, List.not_mem_nil, or_false] at this ⊢
    rcases this with h | h | h | h | h | h | h | h | h | h <;> simp [h]
  · repeat' split at h
    all_goals first | (cases h; simp) | cases h


end GnoVerif.C36
