import GnoVerif.Spec.C36
/-!
Helper lemmas for Props/C36.lean.  Core Lean only.
-/
namespace GnoVerif.C36

/-! ### int64 arithmetic -/

theorem maxTotal_eq : maxTotalVotingPower = 1152921504606846975 := by decide

theorem wrap64_id {x : Int} (h1 : minInt64 ≤ x) (h2 : x ≤ maxInt64) : wrap64 x = x := by
  unfold wrap64; unfold minInt64 at h1; unfold maxInt64 at h2; omega

/-- Go's `tallied > total*2/3` in int64 is `3·tallied > 2·total` when `0 ≤ total ≤ MaxTotalVotingPower`. -/
theorem gt_twoThirds_iff {tallied total : Int} (h0 : 0 ≤ total) (h1 : total ≤ maxTotalVotingPower) :
    tallied > twoThirds total ↔ 3 * tallied > 2 * total := by
  rw [maxTotal_eq] at h1
  unfold twoThirds
  rw [wrap64_id (by unfold minInt64; omega) (by unfold maxInt64; omega)]
  rw [Int.tdiv_eq_ediv_of_nonneg (by omega)]
  omega

/-! ### what `validSet` gives -/

theorem sumPowers_cons (v : Validator) (vs : ValSet) : sumPowers (v :: vs) = v.power + sumPowers vs := by
  simp [sumPowers]

theorem sumPowers_nil : sumPowers [] = 0 := by simp [sumPowers]

structure Valid (vals : ValSet) : Prop where
  pos    : ∀ v ∈ vals, 0 < v.power
  total  : sumPowers vals ≤ maxTotalVotingPower
  sorted : sortedAddrs vals = true

theorem validSet_iff (vals : ValSet) : validSet vals = true ↔ Valid vals := by
  unfold validSet
  simp only [Bool.and_eq_true, List.all_eq_true, decide_eq_true_eq]
  constructor
  · rintro ⟨⟨h1, h2⟩, h3⟩; exact ⟨h1, h2, h3⟩
  · rintro ⟨h1, h2, h3⟩; exact ⟨⟨h1, h2⟩, h3⟩

theorem sumPowers_nonneg {vals : ValSet} (h : ∀ v ∈ vals, 0 < v.power) : 0 ≤ sumPowers vals := by
  induction vals with
  | nil => simp [sumPowers]
  | cons v vs ih =>
    rw [sumPowers_cons]
    have := h v (by simp)
    have := ih (fun w hw => h w (by simp [hw]))
    omega

theorem updateTotalLoop_ok (vals : ValSet) (s : Int) (hs : 0 ≤ s)
    (hpos : ∀ v ∈ vals, 0 < v.power) (hsum : s + sumPowers vals ≤ maxTotalVotingPower) :
    updateTotalLoop vals s = .ok (s + sumPowers vals) := by
  induction vals generalizing s with
  | nil => simp [updateTotalLoop, sumPowers]
  | cons v vs ih =>
    rw [sumPowers_cons] at hsum
    have hv := hpos v (by simp)
    have hrest := sumPowers_nonneg (vals := vs) (fun w hw => hpos w (by simp [hw]))
    rw [maxTotal_eq] at hsum
    have hclip : safeAddClip s v.power = s + v.power := by
      unfold safeAddClip maxInt64 minInt64
      simp only
      rw [if_neg (by omega), if_neg (by omega)]
    unfold updateTotalLoop
    simp only [hclip]
    rw [if_neg (by rw [maxTotal_eq]; omega)]
    rw [ih (s + v.power) (by omega) (fun w hw => hpos w (by simp [hw])) (by rw [maxTotal_eq]; omega)]
    rw [sumPowers_cons]
    congr 1; omega

/-- Under the type's invariants `TotalVotingPower()` is the exact sum (no clip, no panic). -/
theorem totalVotingPower_ok {vals : ValSet} (h : Valid vals) :
    totalVotingPower vals = .ok (sumPowers vals) := by
  unfold totalVotingPower
  rw [updateTotalLoop_ok vals 0 (by omega) h.pos (by have := h.total; omega)]
  simp

/-! ### ValidateBasic -/


theorem firstNonNil_mem {es : List (Option Entry)} {e : Entry} (h : firstNonNil es = some e) : some e ∈ es := by
  induction es with
  | nil => simp [firstNonNil] at h
  | cons x xs ih =>
    cases x with
    | none => simp [firstNonNil] at h; simp [ih h]
    | some y => simp [firstNonNil] at h; simp [h]

theorem firstNonNil_none {es : List (Option Entry)} (h : firstNonNil es = none) : ∀ e, some e ∉ es := by
  induction es with
  | nil => simp
  | cons x xs ih =>
    cases x with
    | none => simp [firstNonNil] at h; intro e; simp [ih h e]
    | some y => simp [firstNonNil] at h

theorem validateLoop_ok_iff (h r : Int) (es : List (Option Entry)) :
    validateLoop h r es = .ok () ↔
      ∀ e, some e ∈ es → e.type = precommitType ∧ e.height = h ∧ e.round = r := by
  induction es with
  | nil => simp [validateLoop]
  | cons x xs ih =>
    cases x with
    | none => simp [validateLoop, ih]
    | some y =>
      unfold validateLoop
      by_cases h1 : y.type = precommitType
      · by_cases h2 : y.height = h
        · by_cases h3 : y.round = r
          · simp [h1, h2, h3, ih]
          · simp [h1, h2, h3]
        · simp [h1, h2]
      · simp [h1]

/-- `ValidateBasic` accepts exactly: the genesis shape, or a non-nil block id with at
least one slot whose non-nil entries are all precommits of the first one's height and round. -/
theorem validateBasic_ok_iff (c : Commit) :
    validateBasic c = .ok () ↔
      (c.blockID = 0 ∧ c.precommits = []) ∨
      (c.blockID ≠ 0 ∧ c.precommits ≠ [] ∧
        ∀ e, some e ∈ c.precommits → e.type = precommitType ∧ e.height = c.height ∧ e.round = c.round) := by
  unfold validateBasic
  by_cases h0 : c.blockID = 0
  · by_cases h1 : c.precommits = []
    · simp [h0, h1]
    · simp [h0, h1]
  · by_cases h1 : c.precommits = []
    · simp [h0, h1]
    · simp [h0, h1, validateLoop_ok_iff]


/-! ### VerifyCommit -/


theorem verifyCommit_ok_unfold (vals : ValSet) (B : Nat) (H : Int) (c : Commit) :
    verifyCommit vals B H c = .ok () ↔
      validateBasic c = .ok () ∧ vals.length = c.precommits.length ∧ H = c.height ∧ B = c.blockID ∧
      ∃ t total, tallyLoop B vals c.precommits 0 = .ok t ∧ totalVotingPower vals = .ok total ∧ t > twoThirds total := by
  unfold verifyCommit
  cases validateBasic c with
  | error e => simp
  | ok u =>
    cases tallyLoop B vals c.precommits 0 with
    | error e => simp; grind
    | ok t =>
      cases totalVotingPower vals with
      | error e => simp; grind
      | ok total => simp; grind



def zipTally (B : Nat) (H : Int) (vals : List Validator) (es : List (Option Entry)) : Int :=
  (((vals.zip es).filter (fun p => countsFor B H p.2)).map (·.1.power)).sum

theorem zipTally_nil_left (B H es) : zipTally B H [] es = 0 := by simp [zipTally]
theorem zipTally_nil_right (B H vals) : zipTally B H vals [] = 0 := by simp [zipTally]
theorem zipTally_cons (B : Nat) (H : Int) (v : Validator) (vs : List Validator) (oe : Option Entry) (es : List (Option Entry)) :
    zipTally B H (v :: vs) (oe :: es) = (if countsFor B H oe then v.power else 0) + zipTally B H vs es := by
  unfold zipTally
  by_cases h : countsFor B H oe = true <;> simp [h]

theorem tallyLoop_ok_iff (B : Nat) (H : Int) (vals : List Validator) (es : List (Option Entry)) (t x : Int)
    (hlen : es.length = vals.length) (hpos : ∀ v ∈ vals, 0 < v.power) (ht : 0 ≤ t)
    (hb : t + sumPowers vals ≤ maxInt64)
    (hkind : ∀ e, some e ∈ es → e.type = precommitType ∧ e.height = H) :
    tallyLoop B vals es t = .ok x ↔
      (∀ e, some e ∈ es → e.sigOK = true) ∧ x = t + zipTally B H vals es := by
  induction vals generalizing es t with
  | nil =>
    cases es with
    | nil => simp [tallyLoop, zipTally_nil_left]; omega
    | cons a as => simp at hlen
  | cons v vs ih =>
    cases es with
    | nil => simp at hlen
    | cons oe es =>
      have hlen' : es.length = vs.length := by simpa using hlen
      have hpos' : ∀ w ∈ vs, 0 < w.power := fun w hw => hpos w (by simp [hw])
      have hv := hpos v (by simp)
      have hrest := sumPowers_nonneg hpos'
      rw [sumPowers_cons] at hb
      have hkind' : ∀ e, some e ∈ es → e.type = precommitType ∧ e.height = H :=
        fun e he => hkind e (by simp [he])
      rw [zipTally_cons]
      cases oe with
      | none =>
        simp only [tallyLoop, countsFor]
        rw [ih es t hlen' hpos' ht (by omega) hkind']
        simp
      | some e =>
        have hk := hkind e (by simp)
        unfold tallyLoop
        by_cases hs : e.sigOK = true
        · simp only [hs, Bool.not_true, Bool.false_eq_true, if_false]
          by_cases hB : B = e.blockID
          · have hw : wrap64 (t + v.power) = t + v.power :=
              wrap64_id (by unfold minInt64; omega) (by omega)
            rw [if_pos hB, hw, ih es (t + v.power) hlen' hpos' (by omega) (by omega) hkind']
            simp [countsFor, hk.1, hk.2, hB, hs]
            omega
          · rw [if_neg hB, ih es t hlen' hpos' ht (by omega) hkind']
            have hB' : ¬ e.blockID = B := fun h => hB h.symm
            simp [countsFor, hB', hs]
        · simp [hs]


end GnoVerif.C36
